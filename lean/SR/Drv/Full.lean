import SR.Drv.Chk
import SR.Checker.Full
/-!
Driver command `tv`: TRACE VALIDATION of a real multi-threaded BFS/DFS run against the product model of
`Checker/Full.lean`.

The harness runs `spawn_bfs` / `spawn_dfs` with k ≥ 2 threads with the trace hooks on (`src/verif.rs`: one entry per
critical section of the job market — appended while the market mutex is held — and one per operation on the shared maps in
`check_block` — appended while a trace lock serialises these operations, so the order of the entries is the order of the
operations).  This command replays the entries as steps of the product: every entry must be an ENABLED step whose
observable outcome is the recorded one (what `pop` returned, how `split_and_push` divided the deque, which job was taken,
whether a successor was new, whether a property was skipped / discovered, why the worker left), the deterministic steps in
between (`finishProps`, retiring, no-op `record`s) are filled in, and the final machine state must agree with what the
checker reports.  A run of the real checker that the product cannot perform is a disagreement between model and code.

`tv <bfs|dfs> <k> <graph> <props> <cfg> (<w> <kind> <a> <b>)*`  (worker 99999 = a thread that is not a worker)
-/
namespace SR.Drv.Full
open SR SR.Checker SR.Market SR.Full SR.Drv.Chk

structure Ev where
  w : Nat
  kind : Nat
  a : Nat
  b : Nat

def Ev.ofSExp? : SExp → Option Ev
  | .list [w, k, a, b] => do pure { w := ← w.nat?, kind := ← k.nat?, a := ← a.nat?, b := ← b.nat? }
  | _ => none

/-- which worker loop produced the trace -/
inductive Mode | bfs | dfs | ondemand
deriving DecidableEq, Repr

structure TV where
  x : FState Nat Nat
  /-- worker ↦ the reason of its `TR_STOP` entry -/
  reason : List (Nat × Nat)
  /-- sizes of the batches published by the `split_and_push` in progress -/
  pieces : List Nat
  /-- on_demand.rs only: worker ↦ the tokens of the jobs its current block has drained from the front of its deque into
      `local_pending` and not yet taken (the block pops them from the back of that vector) -/
  loc : List (Nat × List Tok) := []
  /-- on_demand.rs only: the workers that have run their first block -/
  started : List Nat := []

def TV.localOf (tv : TV) (w : Nat) : List Tok := (tv.loc.lookup w).getD []
def TV.setLocal (tv : TV) (w : Nat) (l : List Tok) : TV := { tv with loc := (w, l) :: tv.loc.filter (·.1 != w) }

abbrev R := Except String

variable (P : Params Nat Nat Nat)

def stepE (x : FState Nat Nat) (f : FStep) : R (FState Nat Nat) :=
  match fstep P x f with
  | some (x', _, _) => pure x'
  | none => throw s!"step not enabled in the model: {repr f}"

def activeOf (x : FState Nat Nat) (w : Nat) : Option (Active Nat) :=
  if w ∈ x.aw then x.c.active[x.aw.idxOf w]? else none

/-- the steps of worker `w` that touch no shared state: fill them in -/
def advance (x : FState Nat Nat) (w : Nat) : Nat → R (FState Nat Nat)
  | 0 => pure x
  | fuel + 1 =>
    match activeOf x w with
    | none => pure x
    | some a =>
      match a.phase with
      | .props i _ =>
        if i < P.props.length then pure x
        else do let x' ← stepE P x (.finishProps w); advance x' w fuel
      | .expanding [] => stepE P x (.expand w true 0 false)
      | .expanding _ => pure x
      | .recording i =>
        if i < P.props.length ∧ i ∈ a.job.ebits then pure x
        else do let x' ← stepE P x (.record w); advance x' w fuel

def fuelOf : Nat := 2 * P.props.length + 6

def popResOk (r : Option PopRes) (e : Ev) : Bool :=
  match e.kind, r with
  | 1, some (.got b) => b.length == e.a
  | 2, some .empty => true
  | 3, some .park => true
  | _, _ => false

def showPop : Option PopRes → String
  | some (.got b) => s!"got {b.length}"
  | some .empty => "empty"
  | some .park => "park"
  | none => "not-enabled"

def jobOfTok (x : FState Nat Nat) (t : Tok) : Option (Job Nat) := x.c.frontier[x.ft.idxOf t]?

/-- position (searching from the back) of a job for state `s` at depth `d` in the deque of `w` -/
def findPos (x : FState Nat Nat) (w s d : Nat) : Option Nat :=
  let loc := locOf x.m w
  (List.range loc.length).reverse.find? fun p =>
    match loc[p]? with
    | some t => match jobOfTok x t with
      | some j => j.st == s && j.depth == d
      | none => false
    | none => false

def isWorker (k w : Nat) : Bool := w < k

def onePop (k : Nat) (tv : TV) (e : Ev) : R TV := do
  if !isWorker k e.w then throw "pop by a thread that is not a worker"
  let x ← advance P tv.x e.w (fuelOf P)
  let r := (Market.stepR x.m (if e.b == 0 then Step.popBegin e.w else Step.wake e.w)).bind (·.2)
  if !popResOk r e then throw s!"pop/wake outcome: model {showPop r}, implementation kind {e.kind} size {e.a}"
  let x ← stepE P x (if e.b == 0 then FStep.pop e.w else FStep.wake e.w)
  pure { tv with x }

def oneSplit (tv : TV) (e : Ev) : R TV := do
  let w := e.w
  let x ← advance P tv.x w (fuelOf P)
  if (locOf x.m w).length != e.a then throw s!"split: deque length model {(locOf x.m w).length} implementation {e.a}"
  let parked := (List.range x.m.pcs.length).filter fun v => x.m.pcs[v]? == some (Pc.parked false)
  let x' ← stepE P x (.split w (parked.take tv.pieces.length))
  if (locOf x'.m w).length != e.b then throw s!"split: deque length after: model {(locOf x'.m w).length} implementation {e.b}"
  let newB := x'.m.batches.take (x'.m.batches.length - x.m.batches.length)
  if newB.map List.length != tv.pieces.reverse then
    throw s!"split: published batches model {newB.map List.length} implementation {tv.pieces.reverse}"
  pure { tv with x := x', pieces := [] }

def oneSplitClosed (tv : TV) (e : Ev) : R TV := do
  let w := e.w
  let x ← advance P tv.x w (fuelOf P)
  if x.m.isOpen then throw "split found the market closed, the model has it open"
  if (locOf x.m w).length != e.a then throw s!"split(closed): deque length model {(locOf x.m w).length} implementation {e.a}"
  let x ← stepE P x (.split w [])
  pure { tv with x }

def oneDrop (k : Nat) (tv : TV) (e : Ev) : R TV := do
  let w := e.w
  if isWorker k w then
    let x ← advance P tv.x w (fuelOf P)
    let f : FStep := match tv.reason.lookup w with
      | some 1 => .stop w .finish
      | some 2 => .stop w .target
      | some 5 => .stop w .panic
      | some _ => .exit w
      | none => .stop w .panic
    let x ← stepE P x f
    pure { tv with x }
  else
    let x ← stepE P tv.x .xdrop
    pure { tv with x }

def oneTake (tv : TV) (e : Ev) : R TV := do
  let w := e.w
  let x ← advance P tv.x w (fuelOf P)
  if w ∈ x.aw then throw "take while the model still works on the previous job"
  match findPos x w e.a e.b with
  | none => throw s!"take: no job for state {e.a} depth {e.b} in the model's deque of worker {w}"
  | some p =>
    if p + 1 != (locOf x.m w).length then throw s!"take: not the job at the back of the deque (position {p} of {(locOf x.m w).length})"
    let x ← stepE P x (.take w p)
    let x ← advance P x w (fuelOf P)
    pure { tv with x }

/-- on_demand.rs: a block starts by draining the first `min(1500, len)` jobs of the deque -/
def oneBlock (tv : TV) (e : Ev) : R TV := do
  let w := e.w
  let x ← advance P tv.x w (fuelOf P)
  if w ∈ x.aw then throw "a block starts while the model still works on the previous job"
  if !(tv.localOf w).isEmpty then throw s!"a block starts although {(tv.localOf w).length} drained jobs of the previous block are unaccounted for"
  let dq := locOf x.m w
  -- the block that follows `RunToCompletion` runs on the still EMPTY `targetted_pending` (the jobs obtained from the
  -- market are in `pending`); every later block starts with `targetted_pending.append(&mut pending)`: the whole deque
  let want := if w ∈ tv.started then min 1500 dq.length else 0
  if e.a != want then throw s!"block drains {e.a} jobs, the model expects {want} (deque {dq.length})"
  pure ({ tv with x, started := w :: tv.started }.setLocal w (dq.take e.a))

/-- the jobs of `ts` are dropped unevaluated -/
def discardAll (x : FState Nat Nat) (w : Nat) : List Tok → R (FState Nat Nat)
  | [] => pure x
  | t :: ts =>
    match (locOf x.m w).idxOf? t with
    | none => throw s!"drained job (token {t}) is not in the model's deque of worker {w}"
    | some p => do let x' ← stepE P x (.discard w p); discardAll x' w ts

/-- on_demand.rs: the block returns because nothing is awaited any more; the drained jobs not yet taken die with it -/
def oneBlockEnd (tv : TV) (e : Ev) : R TV := do
  let w := e.w
  let x ← advance P tv.x w (fuelOf P)
  if w ∈ x.aw then throw "the block returned early, but in the model the worker's job still awaits discoveries"
  if e.a != (tv.localOf w).length then throw s!"block end: {e.a} drained jobs dropped, the model has {(tv.localOf w).length} left"
  let x ← discardAll P x w (tv.localOf w)
  pure ({ tv with x }.setLocal w [])

/-- on_demand.rs: `local_pending.pop()` — the LAST of the drained jobs that are left -/
def oneTakeLocal (tv : TV) (e : Ev) : R TV := do
  let w := e.w
  let x ← advance P tv.x w (fuelOf P)
  if w ∈ x.aw then throw "take while the model still works on the previous job"
  match (tv.localOf w).getLast? with
  | none => throw s!"take: the block of worker {w} has no drained job left in the model"
  | some t =>
    match (locOf x.m w).idxOf? t, jobOfTok x t with
    | some p, some j =>
      if !(j.st == e.a && j.depth == e.b) then throw s!"take: the model's next drained job is state {j.st} depth {j.depth}, the implementation took state {e.a} depth {e.b}"
      let x ← stepE P x (.take w p)
      let x ← advance P x w (fuelOf P)
      pure ({ tv with x }.setLocal w (tv.localOf w).dropLast)
    | _, _ => throw s!"take: drained job (token {t}) is not in the model's deque of worker {w}"

def oneProp (tv : TV) (e : Ev) : R TV := do
  let x := tv.x
  let w := e.w
  match activeOf x w with
  | some { job := j, phase := .props i _ } =>
    if i != e.a then throw s!"property loop: model at index {i}, implementation at {e.a}"
    let known := hasDisc x.c.disc i
    if e.b == 0 && !known then throw s!"property {i} skipped as discovered, the model has no discovery"
    let x' ← stepE P x (.evalProp w (e.b != 0 && known))
    let inserted := x'.c.disc.head? == some (i, j.path) && x'.c.disc.length ≥ x.c.disc.length &&
      !(x.c.disc.head? == some (i, j.path) && x'.c.disc.length == x.c.disc.length && e.b != 1)
    if e.b == 1 && !inserted then throw s!"property {i}: the implementation inserted a discovery, the model did not"
    if e.b == 2 && x'.c.disc.length != x.c.disc.length then throw s!"property {i}: the model inserted a discovery, the implementation did not"
    let x' ← advance P x' w (fuelOf P)
    pure { tv with x := x' }
  | _ => throw s!"property entry, but worker {w} is not in its property loop in the model"

def oneExpand (dfs : Bool) (tv : TV) (e : Ev) : R TV := do
  let x := tv.x
  let w := e.w
  match activeOf x w with
  | some { job := _, phase := .expanding (t :: _) } =>
    if P.key t != e.a then throw s!"expand: model successor {t}, implementation {e.a}"
    let isNew := !(x.c.gen.contains (P.key t))
    if isNew != (e.b == 1) then throw s!"expand {t}: new in the model = {isNew}, in the implementation = {e.b == 1}"
    let x ← stepE P x (.expand w (!dfs) x.m.created.length dfs)
    let x ← advance P x w (fuelOf P)
    pure { tv with x }
  | _ => throw s!"expand entry, but worker {w} has no successor left in the model"

def oneRecord (tv : TV) (e : Ev) : R TV := do
  let x := tv.x
  let w := e.w
  match activeOf x w with
  | some { job := _, phase := .recording i } =>
    if i != e.a then throw s!"terminal-state loop: model at index {i}, implementation records {e.a}"
    let x ← stepE P x (.record w)
    let x ← advance P x w (fuelOf P)
    pure { tv with x }
  | _ => throw s!"record entry, but worker {w} is not at a terminal state in the model"

def oneTimeout (tv : TV) : R TV := do
  let x ← stepE P tv.x .timeout
  pure { tv with x }

def one (k : Nat) (mode : Mode) (tv : TV) (e : Ev) : R TV :=
  match e.kind with
  | 1 | 2 | 3 => onePop P k tv e
  | 5 => throw "unexpected push"
  | 8 => pure { tv with pieces := tv.pieces ++ [e.a] }
  | 7 => oneSplit P tv e
  | 9 => oneSplitClosed P tv e
  | 10 => oneDrop P k tv e
  | 11 => oneTimeout P tv
  | 20 => if mode == .ondemand then oneTakeLocal P tv e else oneTake P tv e
  | 21 => oneProp P tv e
  | 22 => oneExpand P (mode == .dfs) tv e
  | 23 => oneRecord P tv e
  | 24 => pure { tv with reason := (e.w, e.a) :: tv.reason.filter (·.1 != e.w) }
  | 25 => if mode == .ondemand then oneBlock P tv e else throw "block entry in a bfs/dfs trace"
  | 26 => if mode == .ondemand then oneBlockEnd P tv e else throw "block entry in a bfs/dfs trace"
  | _ => throw s!"unknown entry kind {e.kind}"

def replay (k : Nat) (mode : Mode) : TV → Nat → List Ev → R TV
  | tv, _, [] => pure tv
  | tv, i, e :: es =>
    match one P k mode tv e with
    | .ok tv' => replay k mode tv' (i + 1) es
    | .error msg => throw s!"entry {i} (worker {e.w} kind {e.kind} {e.a} {e.b}): {msg}"

def handle : Drv.Handler
  | "tv", (.atom strat :: k :: g :: ps :: cfg :: evs) => do
    let k ← k.nat?
    let g ← Graph.ofSExp? g
    let ps ← ps.listOf? GProp.ofSExp?
    let (cfg, fin) ← parseCfg cfg
    let evs ← evs.mapM Ev.ofSExp?
    let c : Case := { g, props := ps, cfg, finish := fin }
    let P := c.params
    let mode : Mode := if strat == "dfs" then .dfs else if strat == "bfs" then .bfs else .ondemand
    -- the first entry is the owner's push of the initial jobs
    match evs with
    | [] => pure "mismatch empty trace"
    | e0 :: rest =>
      let x0 : FState Nat Nat := finit P k
      if !(e0.kind == 5 && e0.b == 0 && e0.a == x0.ft.length) then
        pure s!"mismatch entry 0: expected the push of {x0.ft.length} initial jobs"
      else
        match replay P k mode { x := x0, reason := [], pieces := [] } 1 rest with
        | .error msg => pure s!"mismatch {msg}"
        | .ok tv =>
          let x := tv.x
          -- every discovery with its path: what `discoveries()` rebuilds (bfs / on-demand: from the parent map,
          -- `C03_parents_discovery`) is the path the machine recorded
          let disc := x.c.disc.mergeSort (fun a b => a.1 ≤ b.1)
          let discS := "(" ++ " ".intercalate (disc.map fun (i, p) => s!"({i} {natsStr p})") ++ ")"
          let exited := x.m.pcs.all (· == Pc.exited)
          pure s!"ok (uniq {x.c.gen.length}) (count {x.c.stateCount}) (disc {discS}) (pending {x.c.frontier.length}) (busy {x.c.active.length}) (exited {Drv.bstr exited})"
  | _, _ => none

end SR.Drv.Full
