import SR.Drv.Loop
/-! Driver commands of the UtilObs worker (coverage-gap closing, see DESIGN §13c). -/
namespace SR.Drv.UtilObs
open SR

def handle : Drv.Handler
  | _, _ => none

end SR.Drv.UtilObs
