import SR.Drv.Loop
import SR.Drv.C20
import SR.Util.Extras
import SR.Util.Rewrite
/-! Driver commands of the UtilObs worker (coverage-gap closing, see DESIGN §13c).

Model side: `dnx-*` (DenseNatMap: len / default / index / index_mut / into_iter / iter / values / From<Vec>),
`plan-*` (plans built from dense maps), `hh-*` (hash order of HashableHashSet/Map), `json-*`.
Oracle side: `o-dnx-*`, `o-plan-*`, `o-hh-*`: the LAWS evaluated on the implementation's own outputs.
Every other command falls through to the C20 handler (`vc-*`, `dnm-*`), used for `VectorClock::new()`. -/
namespace SR.Drv.UtilObs
open SR SR.DNM

def natsStr (l : List Nat) : String := toString (SExp.ofNats l)
def optStr (o : Option Nat) : String := toString (SExp.ofOpt SExp.ofNat o)
def pairsStr (ps : List (Nat × Nat)) : String := toString (SExp.ofList (SExp.ofPair SExp.ofNat SExp.ofNat) ps)

def op? : SExp → Option Op
  | .list [.atom "ins", k, v] => do pure (.ins (← k.nat?) (← v.nat?))
  | .list [.atom "set", k, v] => do pure (.set (← k.nat?) (← v.nat?))
  | .list [.atom "idx", k] => do pure (.idx (← k.nat?))
  | .list [.atom "get", k] => do pure (.get (← k.nat?))
  | .list [.atom "len"] => some .len
  | _ => none

def obsStr : Obs → String
  | .prev p => s!"(prev {optStr p})"
  | .unit => "unit"
  | .val v => toString v
  | .opt o => optStr o
  | .n n => s!"(len {n})"

/-- `panic` or a value -/
def idx? : SExp → Option (Option Nat)
  | .atom "panic" => some none
  | x => x.nat?.map some

def pairs? (s : SExp) : Option (List (Nat × Nat)) := s.listOf? (SExp.pairOf? SExp.nat? SExp.nat?)

def errs (l : List (Bool × String)) : String :=
  let e := l.filterMap fun (bad, msg) => if bad then some msg else none
  if e.isEmpty then "ok" else " ".intercalate e

/-- declarative reading of "the stable sorting permutation" (C10_plan_perm + C10_plan_iff) -/
def isStableSortPlan (vs plan : List Nat) : Bool :=
  plan.length == vs.length &&
  (List.range vs.length).all (fun k => plan.count k == 1) &&
  (List.range vs.length).all fun j => (List.range j).all fun i =>
    (decide (plan.getD i 0 < plan.getD j 0)) == (decide (vs.getD i 0 ≤ vs.getD j 0))

def handle : Drv.Handler
  /- ---------------- DenseNatMap ---------------- -/
  | "dnx-run", [m, ops] => do
    let m ← m.nats?; let ops ← ops.listOf? op?
    let r := run m ops
    pure s!"({" ".intercalate (r.1.map obsStr)}) {match r.2 with | none => "panic" | some m' => natsStr m'}"
  | "dnx-view", [m] => do
    let m ← m.nats?
    pure s!"{len m} {pairsStr (intoIter m)} {pairsStr (intoIter m)} {natsStr (values m)}"
  | "dnx-default", [] => pure s!"{len (DNM.default : List Nat)} {natsStr DNM.default}"
  | "dnx-from-vec", [vs] => do
    let vs ← vs.nats?
    pure s!"{len (fromVec vs)} {natsStr (values (fromVec vs))}"
  -- oracle: the implementation's views of ONE map: `n` = len(), `gets` = get(k) and `idxs` = m[k] (or panic) for
  -- k = 0..n+2, `into` = into_iter(), `it` = iter(), `vals` = values().
  -- Laws (C20_dnx_index, C20_dnx_into_iter): get(k) is some iff k < len; m[k] = v iff get(k) = some v, panics iff
  -- get(k) = none; into_iter / iter yield (k, get k) for k = 0..len-1 in order; values = the same without keys.
  | "o-dnx-view", [n, gets, idxs, into, it, vals] => do
    let n ← n.nat?; let gets ← gets.listOf? (SExp.optOf? SExp.nat?); let idxs ← idxs.listOf? idx?
    let into ← pairs? into; let it ← pairs? it; let vals ← vals.nats?
    let ks := List.range (n + 3)
    let expected : List (Nat × Nat) := (List.range n).filterMap fun k => (gets.getD k none).map fun v => (k, v)
    pure (errs [
      (gets.length != n + 3 || idxs.length != n + 3, "wrong-probe-count"),
      (ks.any (fun k => (gets.getD k none).isSome != decide (k < n)), "get-some-iff-key-below-len"),
      (ks.any (fun k => idxs.getD k none != gets.getD k none), "index-disagrees-with-get"),
      (expected.length != n, "missing-key"),
      (into != expected, "into-iter-not-the-pairs-in-key-order"),
      (it != expected, "iter-not-the-pairs-in-key-order"),
      (vals != expected.map (·.2), "values-not-the-values-in-key-order")])
  -- oracle: `m[k] = v` on a map observed before and after through get(j), j = 0..len+2 (C20_dnx_index_mut):
  -- panics iff k >= len; afterwards get(k) = some v, every other key unchanged (so len unchanged)
  | "o-dnx-set", [before, k, v, after] => do
    let before ← before.listOf? (SExp.optOf? SExp.nat?); let k ← k.nat?; let v ← v.nat?
    let inRange := (before.getD k none).isSome
    match after with
    | .atom "panic" => pure (if inRange then "panicked-on-a-valid-key" else "ok")
    | after => do
      let after ← after.listOf? (SExp.optOf? SExp.nat?)
      pure (errs [
        (!inRange, "no-panic-on-an-invalid-key"),
        (after.length != before.length, "wrong-probe-count"),
        (after.getD k none != some v, "does-not-read-back"),
        ((List.range before.length).any (fun j => j != k && after.getD j none != before.getD j none), "other-key-changed")])
  /- ---------------- plans ---------------- -/
  | "plan-from-dnm", [vs] => do
    let vs ← vs.nats?
    pure (natsStr (planFromDNM natLe vs))
  | "plan-rewrite", [plan, k] => do
    let plan ← plan.nats?; let k ← k.nat?
    pure (match planRewrite plan k with | none => "panic" | some v => toString v)
  | "plan-reindex", [plan, xs, mode] => do
    -- mode "id": the elements are `Id`s (rewritten through the plan); "n": plain numbers (no-op rewrite)
    let plan ← plan.nats?; let xs ← xs.nats?; let mode ← mode.str?
    let rw : Nat → Option Nat := if mode == "id" then RW.planFn plan else some
    pure (match RW.reindexO plan rw xs with | none => "panic" | some ys => natsStr ys)
  -- oracle: `plan` = state of RewritePlan::from(dense map with values vs), `again` = state of
  -- RewritePlan::from(that state), `rws` = plan.rewrite(Id(k)) for k = 0..len+1 (or panic).
  -- Laws: the plan is THE stable sorting permutation of vs (C10_plan_perm / C10_plan_iff); a plan built from its own
  -- state is the same plan (C10_plan_from_own_state); rewrite(k) = the state's value at k, panic outside (C10_plan_rewrite_get)
  | "o-plan-from-dnm", [vs, plan, again, rws] => do
    let vs ← vs.nats?; let plan ← plan.nats?; let again ← again.nats?; let rws ← rws.listOf? idx?
    pure (errs [
      (!isStableSortPlan vs plan, "not-the-stable-sorting-permutation"),
      (again != plan, "plan-of-own-state-differs"),
      (rws.length != vs.length + 2, "wrong-probe-count"),
      ((List.range (vs.length + 2)).any (fun k => rws.getD k none != DNM.get plan k), "rewrite-is-not-the-states-value")])
  -- oracle: reindex on a plan that permutes 0..n-1 (law of C10_reindex): on success the result has the plan's length and
  -- holds the rewritten element i at position plan[i]; it panics iff the collection is shorter than the plan or (ids) an
  -- element lies outside the plan
  | "o-plan-reindex", [plan, xs, mode, ys] => do
    let plan ← plan.nats?; let xs ← xs.nats?; let mode ← mode.str?
    let isPerm := (List.range plan.length).all (fun k => plan.count k == 1)
    if !isPerm then pure "ok" else
    let rw : Nat → Option Nat := if mode == "id" then (fun x => plan[x]?) else some
    let mustPanic := (List.range plan.length).any fun i => ((xs[i]?).bind rw).isNone
    match ys with
    | .atom "panic" => pure (if mustPanic then "ok" else "panicked-on-a-valid-collection")
    | ys => do
      let ys ← ys.nats?
      pure (errs [
        (mustPanic, "no-panic"),
        (ys.length != plan.length, "wrong-length"),
        ((List.range plan.length).any (fun i => (xs[i]?).bind rw != ys[plan.getD i 0]?), "element-not-at-its-planned-position")])
  /- ---------------- hash order ---------------- -/
  | "hh-key", [hs] => do
    let hs ← hs.nats?
    pure (toString (HOrd.key hs))
  | "hh-cmp", [a, b] => do
    let a ← a.nats?; let b ← b.nats?
    pure s!"{ordStr (some (HOrd.cmp a b))} {ordStr (HOrd.partialCmp a b)}"
  | "sip13", [bs] => do
    let bs ← bs.nats?
    pure (toString (Sip.defaultHash bs))
  -- oracle for a pair: `ka`,`kb` = DefaultHasher hashes of the two objects (through their real `Hash` impl);
  -- implementation outputs cmp(a,b) cmp(b,a) partial_cmp(a,b) partial_cmp(b,a) a==b.
  -- Laws (C04_hcmp_*): partial_cmp = Some(cmp); cmp(b,a) is the reverse; a == b ⇒ Equal (+ transitivity: `o-hh-trans`).
  -- WHICH total order it is (today: the order of the `DefaultHasher` keys `ka`, `kb`, which the model command `hh-cmp`
  -- still compares exactly) is not part of any property: the oracle does not demand it (harmless change `sem2-2`, DESIGN §12).
  -- (cmp = Equal with a ≠ b is a genuine 64-bit collision: reported by the harness, not a failure.)
  | "o-hh-pair", [ka, kb, cab, cba, pab, pba, eab] => do
    let _ ← ka.nat?; let _ ← kb.nat?
    let cab ← ordOf? cab; let cba ← ordOf? cba; let pab ← ordOf? pab; let pba ← ordOf? pba; let eab ← eab.bool?
    pure (errs [
      (cba != cab.map Ordering.swap, "cmp-not-antisymmetric"),
      (pab != cab || pba != cba, "partial-cmp-inconsistent-with-cmp"),
      (eab && cab != some .eq, "equal-but-not-cmp-equal")])
  -- oracle for a triple: transitivity of `<=` on implementation outputs
  | "o-hh-trans", [cab, cbc, cac] => do
    let cab ← ordOf? cab; let cbc ← ordOf? cbc; let cac ← ordOf? cac
    let le := fun (o : Option Ordering) => o == some .lt || o == some .eq
    pure (errs [
      (le cab && le cbc && !le cac, "transitivity"),
      (cab == some .eq && cbc == some .eq && cac != some .eq, "equal-not-transitive")])
  /- ---------------- serde_json text ---------------- -/
  | "json-set", [xs] => do
    let xs ← xs.nats?
    pure (HOrd.jsonSet xs)
  | "json-map", [ps] => do
    let ps ← pairs? ps
    pure (HOrd.jsonMap ps)
  | c, a => C20.handle c a

end SR.Drv.UtilObs
