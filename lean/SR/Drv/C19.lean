import SR.Drv.Loop
import SR.Checker.PathApi
/-!
Driver commands for C19.

Explicit labelled graphs (the harness's `GraphModel`, and explicit unfoldings of small actor
systems): wire format of `harness/src/graph_small.rs`

    (g N (INIT ...) (EDGES_0 ... EDGES_{N-1}) BOUNDARY ((E COND) ...))
       EDGES_s = ((LABEL TARGET|x) ...)   BOUNDARY, COND = bitmask | (l STATE ...)   E = a | e | s

Model side: `path-fromfps`, `path-fromacts`, `path-final`, `path-encode`, `reconstruct`, `view`, `status0`.
Oracle side: `o-view` (answer = rows at the end of SOME execution with these fingerprints, found by
exhaustive search, not by the first-match walk of the code), `o-disc` (discovery = genuine witness),
`o-ondemand` (request log of an on-demand checker against the declarative pending/evaluated sets).
-/
namespace SR.Drv.C19
open SR SR.PathApi

structure LGraph where
  n : Nat
  init : List Nat
  edges : Array (List (Nat × Option Nat))
  bnd : Nat → Bool
  props : List (Expect × (Nat → Bool))

def cond? : SExp → Option (Nat → Bool)
  | .atom s => s.toNat?.map fun m => fun i => m.testBit i
  | .list (.atom "l" :: xs) => (xs.mapM SExp.nat?).map fun l => fun i => l.contains i
  | _ => none

def exp? : SExp → Option Expect
  | .atom "a" => some .always
  | .atom "e" => some .eventually
  | .atom "s" => some .sometimes
  | _ => none

def edge? : SExp → Option (Nat × Option Nat)
  | .list [l, .atom "x"] => l.nat?.map fun l => (l, none)
  | .list [l, t] => do pure (← l.nat?, some (← t.nat?))
  | _ => none

def graph? : SExp → Option LGraph
  | .list [.atom "g", n, init, edges, bnd, props] => do
    let n ← n.nat?
    let init ← init.nats?
    let edges ← edges.listOf? (SExp.listOf? edge?)
    let bnd ← cond? bnd
    let props ← props.listOf? fun p => match p with
      | .list [e, c] => do pure (← exp? e, ← cond? c)
      | _ => none
    -- well-formedness (every initial state and every edge target is a state number < n): the closure `reachSet` and the
    -- other oracle functions are adequate only then (notes/oracles.md, `C19_oracle_reachSet_ill_formed`); an ill-formed graph is
    -- refused (`bad-request`) rather than judged
    if init.all (· < n) && edges.all (fun row => row.all (fun e => match e.2 with | some t => t < n | none => true)) then
      pure { n, init, edges := edges.toArray, bnd, props }
    else none
  | _ => none

def LGraph.toSys (g : LGraph) : Sys Nat Nat where
  init := g.init
  acts s := (g.edges.getD s []).map (·.1)
  next s a := ((g.edges.getD s []).find? (fun e => e.1 == a)).bind (·.2)
  inB := g.bnd

def keyOf (fps : Array Nat) (s : Nat) : Nat := fps.getD s 0

/-! ### printing -/

def pathStr (p : Path Nat Nat) : String :=
  "(" ++ " ".intercalate (p.flatMap fun (s, a) => toString s :: (match a with | some a => [toString a] | none => [])) ++ ")"

def optPath (p : Option (Path Nat Nat)) (dflt : String) : String :=
  match p with | some p => pathStr p | none => dflt

def hexVal (c : Char) : Option Nat :=
  if '0' ≤ c ∧ c ≤ '9' then some (c.toNat - '0'.toNat)
  else if 'a' ≤ c ∧ c ≤ 'f' then some (c.toNat - 'a'.toNat + 10)
  else none

def hexDecode : List Char → Option (List Nat)
  | [] => some []
  | a :: b :: r => do
    let x ← hexVal a; let y ← hexVal b; let rest ← hexDecode r
    pure ((x * 16 + y) :: rest)
  | _ => none

/-- URL suffixes travel hex-encoded (they contain `/` and arbitrary junk); `-` = empty -/
def url? : SExp → Option String
  | .atom "-" => some ""
  | .atom s => (hexDecode s.toList).map fun bs => String.ofList (bs.map Char.ofNat)
  | _ => none

/-- `withPath`: also show the path the Explorer hands to `as_svg` (`from_fingerprints` of the extended sequence) -/
def rowStr (M : Sys Nat Nat) (key : Nat → Nat) (fps : List Nat) (withPath : Bool) : Row Nat Nat → String
  | .init s => if withPath then s!"(i {s} {key s} {optPath (fromFingerprints M key [key s]) "panic"})" else s!"(i {s} {key s})"
  | .step a none => s!"({a} x)"
  | .step a (some t) =>
    if withPath then s!"({a} {t} {key t} {optPath (fromFingerprints M key (fps ++ [key t])) "panic"})"
    else s!"({a} {t} {key t})"

def sortStrs (l : List String) : List String := (l.toArray.qsort (· < ·)).toList

def expStr : Expect → String
  | .always => "a" | .eventually => "e" | .sometimes => "s"

/-! ### oracle helpers (declarative side) -/

/-- end states of ALL executions whose fingerprint sequence is `fps` (exhaustive, no first-match) -/
def endStates (M : Sys Nat Nat) (key : Nat → Nat) : List Nat → List Nat
  | [] => []
  | fp :: rest =>
    let start := (M.init.filter (fun s => key s == fp)).eraseDups
    rest.foldl (fun cur fp' => (cur.flatMap fun s => (M.succAll s).filter (fun t => key t == fp')).eraseDups) start

def isInBoundaryPath (M : Sys Nat Nat) : List Nat → Bool
  | [] => false
  | s :: rest =>
    M.initB.contains s &&
    (let rec chain : Nat → List Nat → Bool
      | _, [] => true
      | a, b :: r => (M.succB a).contains b && chain b r
     chain s rest)

/-- is the state sequence a genuine discovery for a property? -/
def isWitness (M : Sys Nat Nat) (e : Expect) (c : Nat → Bool) (states : List Nat) : Option String :=
  if !isInBoundaryPath M states then some "not-an-in-boundary-path"
  else match states.getLast? with
    | none => some "empty"
    | some l =>
      match e with
      | .always => if c l then some "always-discovery-satisfies-condition" else none
      | .sometimes => if c l then none else some "sometimes-discovery-does-not-satisfy"
      | .eventually =>
        if states.any c then some "eventually-counterexample-satisfies-condition"
        else if !(M.succB l).isEmpty then some "eventually-counterexample-not-terminal"
        else none

/-- reachable in-boundary closure (worklist with fuel) -/
def reachSet (M : Sys Nat Nat) (n : Nat) : List Nat :=
  let rec go : Nat → List Nat → List Nat → List Nat
    | 0, _, seen => seen
    | _, [], seen => seen
    | fuel + 1, s :: work, seen =>
      let new := ((M.succB s).eraseDups).filter (fun t => !seen.contains t && !work.contains t)
      go fuel (work ++ new) (seen ++ new)
  let i := M.initB.eraseDups
  go (n * n + n + 1) i i

/-- declarative reading of an on-demand session before `run_to_completion`, for models in which
some `always` property holds everywhere (so the checker never runs out of properties to await and
every evaluated state is expanded).
`reqs`: fingerprints passed to `check_fingerprint`, in order; result: the states the visitor must
have seen, in order. A request for a pending state (generated, not yet evaluated; initial states are
pending once per occurrence) evaluates exactly that state and makes its new in-boundary successors
pending; any other request does nothing; once nothing is pending the worker has left. -/
def onDemandExpected (M : Sys Nat Nat) (key : Nat → Nat) (reqs : List Nat) : List Nat :=
  let initP := M.initB
  let gen0 := initP.foldl (fun (acc : List Nat) s => if acc.any (fun t => key t == key s) then acc else acc ++ [s]) []
  -- state: (pending, generated, evaluated in order)
  let step := fun (st : List Nat × List Nat × List Nat) (fp : Nat) =>
    let (pend, gen, ev) := st
    match pend.findIdx? (fun s => key s == fp) with
    | none => st
    | some i =>
      let s := pend.getD i 0
      let pend := pend.eraseIdx i
      let new := (M.succB s).foldl (fun (acc : List Nat) t =>
        if gen.any (fun u => key u == key t) || acc.any (fun u => key u == key t) then acc else acc ++ [t]) []
      (pend ++ new, gen ++ new, ev ++ [s])
  (reqs.foldl step (initP, gen0, [])).2.2

/-- `unique_state_count` a complete run must report (`o-disc`): the number of reachable in-boundary states;
    `reach` = `reachSet M g.n` (adequacy: `C19_oracle_wantS`, Props/C19OnDemand.lean) -/
def wantU (reach : List Nat) : Nat := reach.length

/-- `state_count` a complete run must report (`o-disc`): every reachable state is expanded once, an initial state once
    per occurrence in `init_states` (adequacy: `C19_oracle_wantS`, Props/C19OnDemand.lean) -/
def wantS (M : Sys Nat Nat) (reach : List Nat) : Nat :=
  let ib := M.initB
  let extra := ib.zipIdx.filter fun (s, i) => (ib.take i).contains s
  ib.length + (reach.map fun s => (M.succB s).length).sum + (extra.map fun (s, _) => (M.succB s).length).sum

def handle : Drv.Handler
  | "path-fromfps", [g, fps, l] => do
    let g ← graph? g; let fps ← fps.nats?; let l ← l.nats?
    pure (optPath (fromFingerprints g.toSys (keyOf fps.toArray) l) "panic")
  | "path-fromacts", [g, s0, acts] => do
    let g ← graph? g; let s0 ← s0.nat?; let acts ← acts.nats?
    pure (optPath (fromActions g.toSys s0 acts) "none")
  | "path-final", [g, fps, l] => do
    let g ← graph? g; let fps ← fps.nats?; let l ← l.nats?
    pure (match finalState g.toSys (keyOf fps.toArray) l with | some s => toString s | none => "none")
  -- encode / into_states / into_actions / last_state of the path rebuilt from actions
  | "path-encode", [g, fps, s0, acts] => do
    let g ← graph? g; let fps ← fps.nats?; let s0 ← s0.nat?; let acts ← acts.nats?
    pure (match fromActions g.toSys s0 acts with
      | none => "none"
      | some p =>
        let key := keyOf fps.toArray
        s!"({encodeStr key p} {SExp.ofNats (intoStates p)} {SExp.ofNats (intoActions p)} {(lastState p).getD 0})")
  -- mode p: rows in action order, with paths; mode s: rows sorted, no paths (models whose action order
  -- depends on hash-map history)
  -- reconstruct_path over a `generated` map ((fp parent|x) ...), newest entry first or last (keys are distinct)
  | "reconstruct", [g, fps, gen, fp] => do
    let g ← graph? g; let fps ← fps.nats?; let fp ← fp.nat?
    let gen ← gen.listOf? fun e => match e with
      | .list [k, .atom "x"] => k.nat?.map fun k => (k, none)
      | .list [k, p] => do pure (← k.nat?, some (← p.nat?))
      | _ => none
    pure (optPath (reconstructPath g.toSys (keyOf fps.toArray) gen fp) "panic")
  | "view", [g, fps, url, mode] => do
    let g ← graph? g; let fps ← fps.nats?; let url ← url? url
    let M := g.toSys; let key := keyOf fps.toArray
    let ordered := mode == .atom "p"
    pure (match statesView M key url with
      | some rows =>
        let rs := rows.map (rowStr M key ((parseFps url).getD []) ordered)
        "(" ++ " ".intercalate (if ordered then rs else sortStrs rs) ++ ")"
      | none => if (parseFps url).isNone then "404-parse" else "404-nostate")
  -- what the status endpoint says before anything was requested
  | "status0", [g, fps] => do
    let g ← graph? g; let fps ← fps.nats?
    let M := g.toSys; let key := keyOf fps.toArray
    let ib := M.initB
    let uniq := (ib.map key).eraseDups.length
    let done := g.props.isEmpty || ib.isEmpty
    let props := g.props.zipIdx.map fun ((e, _), i) => s!"({expStr e} p{i} none)"
    pure s!"({Drv.bstr done} {ib.length} {uniq} 0 ({" ".intercalate props}))"
  -- oracle: a path as the implementation shows it, `(s a s a … s)` (as_svg of a rebuilt path, Path::from_actions …), is an
  -- EXECUTION of the model: starts in an initial state, every action is offered by the state it leaves, is not ignored, and
  -- leads to the next state (C19_fp_roundtrip / C19_encode_roundtrip: `IsExec`)
  | "o-exec", [g, path] => do
    let g ← graph? g; let l ← path.nats?
    let M := g.toSys
    let rec go : Nat → List Nat → Option String
      | _, [] => none
      | s, a :: t :: r =>
        if !(M.acts s).contains a then some s!"action-{a}-not-offered-in-state-{s}"
        else if M.next s a != some t then some s!"action-{a}-of-state-{s}-does-not-lead-to-{t}"
        else go t r
      | _, [_] => some "path-ends-with-an-action"
    pure (match l with
      | [] => "empty-path"
      | s0 :: r => if !M.init.contains s0 then s!"first-state-{s0}-is-not-initial" else (go s0 r).getD "ok")
  -- oracle: Path::from_actions(init, acts) = `res` (none | path): Some exactly when the actions denote an execution from
  -- an initial state, and then that execution with exactly those actions (C19_actions_roundtrip + soundness)
  | "o-fromacts", [g, s0, acts, res] => do
    let g ← graph? g; let s0 ← s0.nat?; let acts ← acts.nats?
    let M := g.toSys
    let rec walk : Nat → List Nat → Option (List Nat)
      | s, [] => some [s]
      | s, a :: r => if (M.acts s).contains a then
          match M.next s a with
          | some t => (walk t r).map fun p => s :: a :: p
          | none => none
        else none
    let want := if M.init.contains s0 then walk s0 acts else none
    pure (match res, want with
      | .atom "none", none => "ok"
      | .atom "none", some _ => "actions-denote-an-execution-but-none-returned"
      | r, none => if r == .atom "panic" then "panicked" else "no-such-execution-but-a-path-returned"
      | r, some w => match r.nats? with
        | some l => if l == w then "ok" else "returned-path-is-not-the-execution-of-the-actions"
        | none => "unreadable-result")
  -- oracle: the Explorer's answer for a url. `res` = 404-parse | 404-nostate | ((label x)|(label state)|(i state) ...)
  | "o-view", [g, fps, url, mode, res] => do
    let g ← graph? g; let fps ← fps.nats?; let url ← url? url
    let M := g.toSys; let key := keyOf fps.toArray
    let canon := fun (l : List SExp) => if mode == .atom "p" then SExp.list l else
      SExp.list ((sortStrs (l.map toString)).map SExp.atom)
    let res := match res with
      | .list l => if mode == .atom "p" then res else SExp.list ((l.map toString).map SExp.atom)
      | r => r
    match parseFps url with
    | none => pure (if res == .atom "404-parse" then "ok" else "unparsable-path-not-refused")
    | some [] =>
      let want := canon (M.init.map fun s => .list [.atom "i", SExp.ofNat s])
      pure (if res == want then "ok" else "init-rows-wrong")
    | some l =>
      let ends := endStates M key l
      if ends.isEmpty then pure (if res == .atom "404-nostate" then "ok" else "no-execution-but-not-404")
      else
        let rowsOf := fun (s : Nat) => canon ((M.acts s).map fun a =>
          match M.next s a with
          | none => .list [SExp.ofNat a, .atom "x"]
          | some t => .list [SExp.ofNat a, SExp.ofNat t])
        pure (if ends.any (fun s => rowsOf s == res) then "ok" else "rows-are-not-the-actions-of-the-final-state")
  -- oracle: reported discoveries `((i (state ...)) ...)` are genuine witnesses; `complete` = t when the
  -- checker is done with an undiscovered property left (it then must have exhausted the state space):
  -- then an always/sometimes property without discovery must really have none, and counts are exact
  | "o-disc", [g, discs, complete, counts] => do
    let g ← graph? g
    let M := g.toSys
    let discs ← discs.listOf? (SExp.pairOf? SExp.nat? SExp.nats?)
    let complete ← complete.bool?
    let counts ← counts.nats?
    let bad := discs.filterMap fun (i, states) =>
      match g.props[i]? with
      | none => some s!"p{i}:no-such-property"
      | some (e, c) => (isWitness M e c states).map fun m => s!"p{i}:{m}"
    if !bad.isEmpty then pure (" ".intercalate bad) else
    if !complete then pure "ok" else
    let reach := reachSet M g.n
    let missed := g.props.zipIdx.filterMap fun ((e, c), i) =>
      if discs.any (fun d => d.1 == i) then none else
      match e with
      | .always => if reach.any (fun s => !c s) then some s!"p{i}:missed-always-violation" else none
      | .sometimes => if reach.any c then some s!"p{i}:missed-sometimes-example" else none
      | .eventually => none
    if !missed.isEmpty then pure (" ".intercalate missed) else
    match counts with
    | [sc, uc] =>
      let wantU := wantU reach
      let wantS := wantS M reach
      pure (if uc != wantU then s!"unique-count {uc} != reachable {wantU}"
        else if sc != wantS then s!"state-count {sc} != {wantS}" else "ok")
    | _ => pure "ok"
  -- oracle: on-demand session; visited = states seen by the visitor before run_to_completion
  | "o-ondemand", [g, fps, reqs, visited] => do
    let g ← graph? g; let fps ← fps.nats?; let reqs ← reqs.nats?; let visited ← visited.nats?
    let M := g.toSys
    if !(g.props.any fun (e, c) => e == .always && (List.range g.n).all c) then pure "precondition:no-always-true-property" else
    let want := onDemandExpected M (keyOf fps.toArray) reqs
    pure (if visited == want then "ok" else s!"evaluated {visited} expected {want}")
  | _, _ => none

end SR.Drv.C19
