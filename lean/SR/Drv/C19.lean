import SR.Drv.Loop
/-! Driver commands for C19 (stub). -/
namespace SR.Drv.C19
def handle : Drv.Handler
  | _, _ => none
end SR.Drv.C19
