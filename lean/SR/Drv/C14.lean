import SR.Drv.Sem
/-! Driver commands for C14: `sc-run`, `lin-run` (model), `o-ser sc`, `o-incl`, `o-res` (oracles); see `SR/Drv/Sem.lean`. -/
namespace SR.Drv.C14
def handle : Drv.Handler := SR.Drv.Sem.handle
end SR.Drv.C14
