import SR.Drv.Loop
/-! Driver commands for C14 (stub). -/
namespace SR.Drv.C14
def handle : Drv.Handler
  | _, _ => none
end SR.Drv.C14
