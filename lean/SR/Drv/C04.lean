import SR.Drv.Loop
import SR.Hash.Codec
/-! Driver commands for C04.
* `toks TY VAL GRAPH` — the model's token stream of a value (GRAPH = the inner stable hasher on the set/map
  elements occurring in the value, measured on the implementation).
* `o-pair TY A B STREAMS_EQUAL IMPL_EQ WANT` — oracle: the implementation's two recorded streams are equal
  exactly when the values are semantically equal (`equivB`, the decision procedure of `≈τ`), and so is `==`;
  WANT = `eq` for two builds of one logical value (they must be equivalent), `any` otherwise.
-/
namespace SR.Drv.C04
open SR SR.Hash

def handle : Drv.Handler
  | "toks", [ty, v, g] => do
    let τ ← decodeTy ty
    let v ← decodeVal τ v
    let g ← decodeGraph g
    pure (toksStr (toks (hOfGraph g) τ v))
  | "o-pair", [ty, a, b, se, ie, want] => do
    let τ ← decodeTy ty
    let a ← decodeVal τ a
    let b ← decodeVal τ b
    let se ← se.bool?
    let ie ← ie.bool?
    let eqv := equivB τ a b
    let want ← want.str?
    pure (if want == "eq" && !eqv then "builds-of-one-logical-value-not-equivalent"
      else if se && !eqv then "collision:distinct-values-equal-streams"
      else if !se && eqv then "split:equal-values-different-streams"
      else if ie != eqv then (if ie then "eq-true-on-distinct-values" else "eq-false-on-equal-values")
      else "ok")
  | _, _ => none

end SR.Drv.C04
