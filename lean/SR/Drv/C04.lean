import SR.Drv.Loop
/-! Driver commands for C04 (stub). -/
namespace SR.Drv.C04
def handle : Drv.Handler
  | _, _ => none
end SR.Drv.C04
