import SR.Drv.Loop
import SR.Actor.Codec
import SR.Actor.Spec
import SR.Proofs.ReachRef
/-! Driver commands for C06 (also used by C09 and C15).
Model side: `graph`, `step`, `acts`, `init`. Oracle side: `o-graph` — the declarative step relation
(`specStep`, `enabledSpec`, `specInit` of SR/Actor/Spec.lean) evaluated on the implementation's own walk,
plus "exactly one handler invocation, of the right actor, with the right arguments" on the invocation log. -/
namespace SR.Drv.C06
open SR SR.Actor SR.Actor.Codec

/-- expected handler invocations of a transition, in the wire form of the harness log -/
partial def baseOf : U → Nat
  | .base n => n
  | .L u | .R u | .S u | .W u => baseOf u

def expectedLog (st : USt) (a : Action) : List SExp :=
  match eventOf a with
  | none => []
  | some (i, ev) =>
    match st.actors[i]? with
    | none => []
    | some s =>
      if st.crashed[i]? == some true && isDeliver a then [] else
      let b := SExp.ofNat (baseOf s)
      match ev with
      | .msg src m => [.list [.atom "msg", SExp.ofNat i, b, SExp.ofNat src, SExp.ofNat m]]
      | .timeout t => [.list [.atom "timeout", SExp.ofNat i, b, SExp.ofNat t]]
      | .random r => [.list [.atom "random", SExp.ofNat i, b, SExp.ofNat r]]

/-- candidate actions of a state: everything built from what the state holds -/
def candidates (sys : USys) (st : USt) : List Action :=
  let envs := st.net.contents
  envs.map Action.deliver ++ envs.map Action.drop ++
  st.timers.zipIdx.flatMap (fun p => p.1.map (fun t => Action.timeout p.2 t)) ++
  (List.range (sys.n + 1)).map Action.crash ++
  st.random.zipIdx.flatMap (fun p => p.1.flatMap (fun kv => kv.2.map (fun r => Action.selectRandom p.2 kv.1 r)))

def resOf (states : Array USt) : SExp → Option (Outcome USt)
  | .atom "-" => some .ignored
  | .atom "!" => some .panic
  | x => do let j ← x.nat?; let s ← states[j]?; pure (.next s)

def checkRecord (sys : USys) (states : Array USt) (i : Nat) (st : USt) (rec : List SExp) : Option String := do
  let mut listed : List Action := []
  for t in rec do
    match t with
    | .list [a, res, .list log] =>
      let some a := action? a | return s!"state {i}: bad action"
      let some r := resOf states res | return s!"state {i}: bad result"
      listed := a :: listed
      if !decide (enabledSpec sys st a) then return s!"state {i}: action {ofAction a} offered but not enabled by the specification"
      let exp := specStep sys st a
      if r == .panic then return s!"state {i}: enabled action {ofAction a} panics"
      if exp != r then return s!"state {i}: action {ofAction a}: successor differs from the specified one: spec {ofOutcomeSt exp}"
      if log != expectedLog st a then
        return s!"state {i}: action {ofAction a}: handler invocations {SExp.list log} but specified {SExp.list (expectedLog st a)}"
    | _ => return s!"state {i}: bad transition"
  for a in candidates sys st do
    if decide (enabledSpec sys st a) && !listed.contains a then
      return s!"state {i}: action {ofAction a} enabled by the specification but not offered"
  none

def oGraph (sys : USys) (states : Array USt) (recs : List SExp) (initLog : List SExp) : String := Id.run do
  match states[0]? with
  | none => return "no-initial-state"
  | some s0 =>
    if s0 != specInit sys then return s!"initial state differs from the specified one: spec {ofSt (specInit sys)}"
    let expLog := (List.range sys.n).map (fun i => SExp.list [.atom "start", SExp.ofNat i])
    if initLog != expLog then return s!"on_start invocations {SExp.list initLog}"
    let mut i := 0
    for rec in recs do
      match states[i]?, rec with
      | some st, .list rec =>
        match checkRecord sys states i st rec with
        | some err => return err
        | none => pure ()
      | _, _ => return s!"bad record {i}"
      i := i + 1
    return "ok"

def handle : Drv.Handler
  | "graph", [sys, bound] => do
    let sys ← sys? sys; let bound ← bound.nat?
    pure (match SR.ReachRef.walkT sys bound with | none => "panic" | some w => ofWalk w)
  | "init", [sys] => do
    let sys ← sys? sys
    pure (match init sys with | none => "panic" | some st => toString (ofSt st))
  | "acts", [sys, st] => do
    let sys ← sys? sys; let st ← st? st
    pure (toString (SExp.list ((sortActions (actions sys st)).map ofAction)))
  | "step", [sys, st, a] => do
    let sys ← sys? sys; let st ← st? st; let a ← action? a
    pure (ofOutcomeSt (step sys st a))
  | "o-graph", [sys, states, recs, initLog] => do
    let sys ← sys? sys
    let states ← states.listOf? st?
    let recs ← recs.list?
    let initLog ← initLog.list?
    pure (oGraph sys states.toArray recs initLog)
  | _, _ => none

end SR.Drv.C06
