import SR.Drv.Loop
/-! Driver commands for C06 (stub). -/
namespace SR.Drv.C06
def handle : Drv.Handler
  | _, _ => none
end SR.Drv.C06
