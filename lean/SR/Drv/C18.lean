import SR.Drv.Loop
/-! Driver commands for C18 (stub). -/
namespace SR.Drv.C18
def handle : Drv.Handler
  | _, _ => none
end SR.Drv.C18
