import SR.Drv.Sem
import SR.Sem.RegisterClient
import SR.SExpEq
/-! Driver commands for C18.
Model side: `step`, `inv`, `hist` (reference objects), `rc-path` (register harness: client states and
tester content after a path of model actions). Oracle side: `o-step`, `o-hist` (relations between
the implementation's own `invoke` / `is_valid_step` / `is_valid_history` outputs), `o-c18`
(well-formedness + mirror of the client-visible calls reconstructed from the path). -/
namespace SR.Drv.C18
open SR SR.Sem SR.Sem.RC SR.Drv.Sem

def msgOf? : SExp → Option RMsg
  | .atom "internal" => some .internal
  | .list [.atom "put", r, v] => do pure (.put (← r.nat?) (← v.nat?))
  | .list [.atom "get", r] => do pure (.get (← r.nat?))
  | .list [.atom "putok", r] => do pure (.putOk (← r.nat?))
  | .list [.atom "putfail", r] => do pure (.putFail (← r.nat?))
  | .list [.atom "getok", r, v] => do pure (.getOk (← r.nat?) (← v.nat?))
  | _ => none

def sendOf? : SExp → Option Send := SExp.pairOf? SExp.nat? msgOf?

def actorOf? : SExp → Option ActorDesc
  | .list [.atom "s", outs] => do pure (.server (← outs.listOf? sendOf?))
  | .list [.atom "c", p, s] => do pure (.client { putCount := ← p.nat?, serverCount := ← s.nat? })
  | _ => none

def actOf? : SExp → Option Act
  | .atom "drop" => some .drop
  | .list [.atom "dc", d, m] => do pure (.deliverC (← d.nat?) (← msgOf? m))
  | .list [.atom "ds", d, m, ch, outs] => do pure (.deliverS (← d.nat?) (← msgOf? m) (← ch.bool?) (← outs.listOf? sendOf?))
  | .list [.atom "ts", i, outs] => do pure (.timeoutS (← i.nat?) (← outs.listOf? sendOf?))
  | _ => none

def showClients (cs : List (Nat × CState)) : String :=
  toString (SExp.list (cs.map fun e => .list [.ofNat e.1, SExp.ofOpt SExp.ofNat e.2.awaiting, .ofNat e.2.opCount]))

def idShow (n : Nat) : String := s!"Id({n})"

def msgSx : RMsg → SExp
  | .internal => .atom "internal"
  | .put r v => .list [.atom "put", .ofNat r, .ofNat v]
  | .get r => .list [.atom "get", .ofNat r]
  | .putOk r => .list [.atom "putok", .ofNat r]
  | .putFail r => .list [.atom "putfail", .ofNat r]
  | .getOk r v => .list [.atom "getok", .ofNat r, .ofNat v]

/-- the messages the clients send at start (model `Client.start`), as `(client dst msg)` -/
def initSends (actors : List ActorDesc) : List SExp :=
  actors.zipIdx.flatMap fun x =>
    match x.1 with
    | .client c => match c.start x.2 with
      | some (_, outs) => outs.map fun o => SExp.list [.ofNat x.2, .ofNat o.1, msgSx o.2]
      | none => []
    | .server _ => []

/-- the messages a client sends in reaction to a delivery (model `Client.onMsg`) -/
def actSends {H} (wo : Bool) (actors : List ActorDesc) (s : RSys H) : Act → List SExp
  | .deliverC dst msg =>
    match clientAt actors dst, AMap.find? dst s.clients with
    | some c, some st => match c.onMsg wo dst st msg with
      | some (_, outs) => outs.map fun o => SExp.list [.ofNat dst, .ofNat o.1, msgSx o.2]
      | none => []
    | _, _ => []
  | _ => []

/-- `runPath`, also collecting what the clients send -/
def runPathSends {H Op Ret} (I : Iface H Op Ret) (wo ordered : Bool) (actors : List ActorDesc) :
    RSys H → List Act → List SExp → Option (RSys H × List SExp)
  | s, [], acc => some (s, acc)
  | s, a :: rest, acc =>
    match act I wo ordered actors s a with
    | none => none
    | some s' => runPathSends I wo ordered actors s' rest (acc ++ actSends wo actors s a)

def rcRun {H Op Ret} (I : Iface H Op Ret) (h0 : H) (wo ordered : Bool) (actors : List ActorDesc)
    (path : List Act) (show_ : H → String) : String :=
  match RC.init I h0 actors with
  | none => "panic"
  | some s0 =>
    match runPathSends I wo ordered actors s0 path (initSends actors) with
    | none => "not-a-step"
    | some (s, sends) => s!"clients={showClients s.clients} ;; sends={SExp.list sends} ;; dbg={show_ s.hist}"

/-! ### the mirror oracle -/
/-- client-visible events reconstructed from a path by the harness: `(send c msg)` / `(acc c msg)` -/
inductive LogEv where
  | send (c : Nat) (m : RMsg)
  | acc (c : Nat) (m : RMsg)

def logOf? : SExp → Option LogEv
  | .list [.atom "send", c, m] => do pure (.send (← c.nat?) (← msgOf? m))
  | .list [.atom "acc", c, m] => do pure (.acc (← c.nat?) (← msgOf? m))
  | _ => none

def LogEv.client : LogEv → Nat | .send c _ => c | .acc c _ => c

def ridOf : RMsg → Option Nat
  | .put r _ => some r | .get r => some r | .putOk r => some r | .putFail r => some r | .getOk r _ => some r
  | .internal => none

/-- operations and returns as S-expressions in the reference object's wire format -/
def opSxOf : RMsg → Option SExp
  | .put _ v => some (.list [.atom "w", .ofNat v])
  | .get _ => some (.atom "r")
  | _ => none
def retSxOf (wo : Bool) : RMsg → Option SExp
  | .putOk _ => some (.atom "wok")
  | .putFail _ => if wo then some (.atom "wfail") else none
  | .getOk _ v => some (.list [.atom "rok", if wo then SExp.ofOpt SExp.ofNat (some v) else .ofNat v])
  | _ => none

/-- per client: the completed (op, ret) pairs and the outstanding op, or an error -/
def mirrorClient (wo : Bool) : List LogEv → List SExp → Option RMsg → Except String (List SExp × Option SExp)
  | [], done, pend => .ok (done, pend.bind opSxOf)
  | .send _ m :: rest, done, pend =>
    match pend with
    | some _ => .error "second-request-while-one-outstanding"
    | none => match opSxOf m with
      | none => .error "client-sent-non-request"
      | some _ => mirrorClient wo rest done (some m)
  | .acc _ m :: rest, done, pend =>
    match pend with
    | none => .error "reply-accepted-without-outstanding-request"
    | some p =>
      if ridOf p != ridOf m then .error "accepted-reply-for-other-request-id"
      else match opSxOf p, retSxOf wo m with
        | some o, some r => mirrorClient wo rest (done ++ [.list [o, r]]) none
        | _, _ => .error "accepted-non-reply"

def oracleMirror (wo : Bool) (log : List LogEv) (valid : Bool) (content : List (Nat × List SExp × Option SExp)) : String :=
  let clients := (log.map LogEv.client).foldl (fun acc c => if acc.contains c then acc else acc ++ [c]) []
  let errs : List String :=
    (if !valid then ["tester-history-invalid"] else []) ++
    (clients.flatMap fun c =>
      let evs := log.filter (fun e => e.client == c)
      let rids := evs.filterMap fun e => match e with | .send _ m => ridOf m | _ => none
      (if nodupB rids then [] else [s!"request-id-reused-by-{c}"]) ++
      (match mirrorClient wo evs [] none with
       | .error e => [s!"{e}-client-{c}"]
       | .ok (done, pend) =>
         match content.find? (fun e => e.1 == c) with
         | none => [s!"tester-has-no-thread-{c}"]
         | some (_, d, p) => if sxEqv d done p pend then [] else [s!"tester-content-differs-from-mirror-client-{c}"])) ++
    (if nodupB (content.map (·.1)) then [] else ["tester-content-lists-a-thread-twice"]) ++
    (content.flatMap fun e => if clients.contains e.1 then [] else
      (if e.2.1.isEmpty && e.2.2.isNone then [] else [s!"tester-has-operations-of-non-client-{e.1}"]))
  if errs.isEmpty then "ok" else " ".intercalate errs

def contentOf? : SExp → Option (Nat × List SExp × Option SExp)
  | .list [c, .list done, pend] => do pure (← c.nat?, done, ← SExp.optOf? some pend)
  | _ => none

def handle : Drv.Handler
  | "step", [obj, op, ret] =>
    withObj obj fun c => do
      let op ← c.opOf? op; let r ← c.retOf? ret
      let p := c.spec.isValidStep c.s0 op r
      pure s!"{bstr p.1} {c.objSx p.2}"
  | "inv", [obj, op] =>
    withObj obj fun c => do
      let op ← c.opOf? op
      let p := c.spec.invoke c.s0 op
      pure s!"{c.retSx p.2} {c.objSx p.1}"
  | "hist", [obj, l] =>
    withObj obj fun c => do
      let l ← l.listOf? (pairOfSx? c)
      let p := c.spec.validHistory c.s0 l
      pure s!"{bstr p.1} {c.objSx p.2}"
  -- implementation outputs only: expected ret, invoke's ret and object, is_valid_step's verdict and object
  | "o-step", [ret, iret, istate, verdict, vstate] => do
    let verdict ← verdict.bool?
    pure (if verdict != (iret == ret) then "verdict-differs-from-invoke-and-compare"
          else if verdict && vstate != istate then "accepted-step-leaves-different-object-than-invoke"
          else "ok")
  -- implementation outputs only: the history, the trace obtained by invoking its operations, the verdict
  | "o-hist", [l, trace, verdict] => do
    let verdict ← verdict.bool?
    pure (if verdict == (l == trace) then "ok" else "is_valid_history-differs-from-invoking-from-initial-object")
  | "rc-path", [kind, wo, net, actors, path] => do
    let kind ← kind.str?; let wo ← wo.bool?; let net ← net.str?
    let actors ← actors.listOf? actorOf?
    let path ← path.listOf? actOf?
    let ordered := net == "ordered"
    match kind, wo with
    | "lin", false => pure (rcRun regLin (Tester.new 63) wo ordered actors path (showLin (regCodec charShow 63) idShow))
    | "sc", false => pure (rcRun regSC (SCTester.new 63) wo ordered actors path (showSC (regCodec charShow 63) idShow))
    | "lin", true => pure (rcRun woLin (Tester.new none) wo ordered actors path (showLin (woCodec charShow none) idShow))
    | "sc", true => pure (rcRun woSC (SCTester.new none) wo ordered actors path (showSC (woCodec charShow none) idShow))
    | _, _ => none
  | "o-c18", [wo, log, valid, content] => do
    let wo ← wo.bool?; let valid ← valid.bool?
    let log ← log.listOf? logOf?
    let content ← content.listOf? contentOf?
    pure (oracleMirror wo log valid content)
  | _, _ => none

end SR.Drv.C18
