import SR.Drv.Loop
import SR.Util.VClock
import SR.Util.DenseNatMap
/-! Driver commands for C20 (model side `vc-*`, `dnm-*`; oracle side `o-vc-*`, `o-dnm-*`). -/
namespace SR.Drv.C20
open SR SR.VClock SR.DNM

/-- executable form of the declarative order (spec side of `C20_cmp_spec`) -/
def specCmp (a b : Clock) : Option Ordering :=
  let is := List.range (max a.length b.length)
  let lt := is.any fun i => get0 a i < get0 b i
  let gt := is.any fun i => get0 b i < get0 a i
  match lt, gt with
  | false, false => some .eq
  | true, false => some .lt
  | false, true => some .gt
  | true, true => none

def specLe (a b : Clock) : Bool := specCmp a b == some .lt || specCmp a b == some .eq

def isLe (o : Option Ordering) : Bool := o == some .lt || o == some .eq

def natsStr (l : List Nat) : String := toString (SExp.ofNats l)

def handle : Drv.Handler
  | "vc-cmp", [a, b] => do
    let a ← a.nats?; let b ← b.nats?
    pure (ordStr (partialCmp a b))
  -- the operators < <= > >= != : what `partial_cmp` / `==` say
  | "vc-ops", [a, b] => do
    let a ← a.nats?; let b ← b.nats?
    let c := partialCmp a b
    pure s!"({bstr (c == some .lt)} {bstr (c == some .lt || c == some .eq)} {bstr (c == some .gt)} {bstr (c == some .gt || c == some .eq)} {bstr (!veq a b)})"
  | "o-vc-ops", [cab, eab, lt, le, gt, ge, ne] => do
    let c ← ordOf? cab
    let eab ← eab.str?; let lt ← lt.str?; let le ← le.str?; let gt ← gt.str?; let ge ← ge.str?; let ne ← ne.str?
    let t := fun (b : Bool) => if b then "t" else "f"
    pure (if lt != t (c == some .lt) then "lt-disagrees-with-partial_cmp"
      else if le != t (c == some .lt || c == some .eq) then "le-disagrees-with-partial_cmp"
      else if gt != t (c == some .gt) then "gt-disagrees-with-partial_cmp"
      else if ge != t (c == some .gt || c == some .eq) then "ge-disagrees-with-partial_cmp"
      else if ne == eab then "ne-disagrees-with-eq"
      else "ok")
  | "vc-eq", [a, b] => do
    let a ← a.nats?; let b ← b.nats?
    pure (bstr (veq a b))
  | "vc-merge", [a, b] => do
    let a ← a.nats?; let b ← b.nats?
    pure (natsStr (mergeMax a b))
  | "vc-incr", [a, i] => do
    let a ← a.nats?; let i ← i.nat?
    pure (match incremented a i with | none => "panic" | some c => natsStr c)
  | "vc-hash", [a] => do
    let a ← a.nats?
    pure (natsStr (hashInput a))
  | "vc-display", [a] => do
    let a ← a.nats?
    pure (display a)
  -- oracle for a pair: impl outputs cmp(a,b) cmp(b,a) eq(a,b) hashEqual(a,b) merge(a,b) cmp(a,m) cmp(b,m)
  | "o-vc-pair", [a, b, cab, cba, eab, hab, m, cam, cbm] => do
    let a ← a.nats?; let b ← b.nats?
    let cab ← ordOf? cab; let cba ← ordOf? cba
    let eab ← eab.bool?; let hab ← hab.bool?
    let m ← m.nats?; let cam ← ordOf? cam; let cbm ← ordOf? cbm
    let errs : List String :=
      (if cab != specCmp a b then ["cmp-not-product-order"] else []) ++
      (if cba != specCmp b a then ["cmp-rev-not-product-order"] else []) ++
      (if eab != (specCmp a b == some .eq) then ["eq-not-equiv"] else []) ++
      (if hab != (specCmp a b == some .eq) then ["hash-equal-iff-equiv"] else []) ++
      (if !(isLe cam && isLe cbm) then ["merge-not-upper-bound"] else []) ++
      (if specCmp m (mergeMax a b) != some .eq then ["merge-not-least"] else []) ++
      (if isLe cab && isLe cba && !eab then ["antisymmetry"] else [])
    pure (if errs.isEmpty then "ok" else " ".intercalate errs)
  -- oracle for a triple: transitivity on impl outputs
  | "o-vc-trans", [cab, cbc, cac] => do
    let cab ← ordOf? cab; let cbc ← ordOf? cbc; let cac ← ordOf? cac
    pure (if isLe cab && isLe cbc && !isLe cac then "transitivity" else "ok")
  -- oracle for increment: impl output c (or panic) and cmp(a,c)
  | "o-vc-incr", [a, i, c, cac] => do
    let a ← a.nats?; let i ← i.nat?
    match c with
    | .atom "panic" => pure (if get0 a i ≥ u32Max then "ok" else "panic-without-overflow")
    | c => do
      let c ← c.nats?; let cac ← ordOf? cac
      pure (if cac == some .lt && specCmp a c == some .lt then "ok" else "incr-not-strictly-greater")
  | "dnm-from", [ps] => do
    let ps ← ps.listOf? (SExp.pairOf? SExp.nat? SExp.nat?)
    pure (match fromPairs ps with | none => "panic" | some m => natsStr m)
  | "dnm-insert", [m, k, v] => do
    let m ← m.nats?; let k ← k.nat?; let v ← v.nat?
    pure (match DNM.insert m k v with
      | .panic => "panic"
      | .ok m' prev => s!"(ok {natsStr m'} {SExp.ofOpt SExp.ofNat prev})")
  | "dnm-rewrite", [plan, m, mode] => do
    -- mode "kv": keys and values are ids (DenseNatMap<Id,Id>); "k": values are plain (no-op rewrite)
    let plan ← plan.nats?; let m ← m.nats?; let mode ← mode.str?
    pure (match DNM.rewriteByPlan plan (mode == "kv") m with | none => "panic" | some m' => natsStr m')
  -- oracle: the implementation's rewritten map `r` against the LAW (C20_dnm_rewrite): for a plan that permutes exactly the
  -- map's keys (and, for id values, contains every value) the value of key k, rewritten, sits at key plan[k]
  | "o-dnm-rewrite", [plan, m, mode, r] => do
    let plan ← plan.nats?; let m ← m.nats?; let mode ← mode.str?
    -- the law (C20_dnm_rewrite) is about plans that PERMUTE the keys: every key 0..len-1 occurs exactly once in the plan
    let applicable := plan.length == m.length && (mode != "kv" || m.all (· < plan.length)) &&
      (List.range plan.length).all (fun k => plan.count k == 1)
    if !applicable then pure "ok" else
    match r with
    | .atom "panic" => pure "panicked-on-a-plan-that-permutes-the-keys"
    | r => do
      let res ← r.nats?
      let pv := fun v => if mode == "kv" then plan.getD v v else v
      pure (if res.length != m.length then "wrong-length"
        else if (List.range m.length).all (fun k => res[plan.getD k k]? == (m[k]?).map pv) then "ok"
        else "value-not-moved-to-the-rewritten-key")
  -- oracle: impl's from-pairs result `r` against the declarative reading (total map / gaps rejected)
  | "o-dnm-from", [ps, r] => do
    let ps ← ps.listOf? (SExp.pairOf? SExp.nat? SExp.nat?)
    let keys := ps.map (·.1)
    let isPermOfRange := (List.range ps.length).all (fun k => keys.count k == 1)
    match r with
    | .atom "panic" => pure (if isPermOfRange then "rejected-valid-keys" else "ok")
    | r => do
      let m ← r.nats?
      pure (if !isPermOfRange then "accepted-gap-or-duplicate"
        else if m.length != ps.length then "wrong-length"
        else if ps.all (fun p => m[p.1]? == some p.2) then "ok" else "wrong-value")
  | _, _ => none

end SR.Drv.C20
