import SR.Drv.Loop
import SR.Hash.Codec
import SR.Util.Rewrite
/-! Driver commands for C10 (a) plans / reindex / rewrite and (b) representative.
Model commands carry the implementation's result and answer `ok` when the model's result is the same value
(hash-table collections compared as sets), otherwise they print the model's result — so the cases file needs
no canonical printing of hash tables.  Oracle commands: `o-plan` (the plan is THE stable sorting permutation,
checked declaratively), `o-orbit` (brute force over all n! permutations: some single permutation, applied to
everything including ids inside timer values, explains the representative). -/
namespace SR.Drv.C10
open SR SR.Hash SR.RW

def resStr {τ : Ty} : Option (Val τ) → String
  | none => "panic"
  | some v => encodeVal τ v

/-- compare the model's result with the implementation's (given as S-expression or `panic`) -/
def agree (τ : Ty) (eq : Val τ → Val τ → Bool) (model : Option (Val τ)) (impl : SExp) : Option String :=
  match impl with
  | .atom "panic" => some (if model.isNone then "ok" else resStr model)
  | e => do
    let r ← decodeVal τ e
    pure (match model with
      | some v => if eq v r then "ok" else encodeVal τ v
      | none => "panic")

def stStr {s m t r h : Ty} (x : St s m t r h) : String :=
  "(" ++ encodeVal (.vec s) x.actors ++ " (" ++ encodeVal h x.history ++ " (" ++ encodeVal (.vec (Ty.timers t)) x.timers ++
    " (" ++ encodeVal (Ty.net m) x.net ++ " (" ++ encodeVal (.vec .bool) x.crashed ++ " " ++ encodeVal (.choices r) x.choices ++ ")))))"

/-- the five component types of a `(state s m t r h)` code -/
def stateTys : SExp → Option (Ty × Ty × Ty × Ty × Ty)
  | .list [.atom "state", s, m, t, r, h] => do
    pure (← decodeTy s, ← decodeTy m, ← decodeTy t, ← decodeTy r, ← decodeTy h)
  | _ => none

/-- exact list equality up to `≈` of the elements (no padding normalisation) -/
def listEq (τ : Ty) (a b : List (Val τ)) : Bool := all2B (equivB τ) a b

def handle : Drv.Handler
  | "plan", [ty, vs] => do
    let τ ← decodeTy ty
    let vs ← decodeVal (.vec τ) vs
    pure (natsStr (DNM.planOf (leVal τ) vs))
  -- oracle: the implementation's plan is a bijection on indices, sorted and stable
  | "o-plan", [ty, vs, plan] => do
    let τ ← decodeTy ty
    let vs : List (Val τ) ← decodeVal (.vec τ) vs
    let plan ← plan.nats?
    let n := vs.length
    let idx := List.range n
    let bij := plan.length == n && idx.all (fun k => plan.count k == 1)
    let ordered := idx.all fun i => idx.all fun j =>
      if i < j then
        match vs[i]?, vs[j]?, plan[i]?, plan[j]? with
        | some a, some b, some pi, some pj =>
          -- a ≤ b (ties included): i stays before j (sorted + stable); a > b: j goes first
          if leVal τ a b then decide (pi < pj) else decide (pj < pi)
        | _, _, _, _ => false
      else true
    pure (if !bij then "plan-not-a-bijection" else if !ordered then "plan-not-the-stable-sorting-permutation" else "ok")
  | "reindex", [ty, vs, ty2, xs, res] => do
    let τ ← decodeTy ty
    let vs ← decodeVal (.vec τ) vs
    let τ2 ← decodeTy ty2
    let xs ← decodeVal (.vec τ2) xs
    let plan := DNM.planOf (leVal τ) vs
    agree (.vec τ2) (listEq τ2) (reindexO plan (rwVal (planFn plan) τ2) xs) res
  | "rewrite", [plan, ty2, x, res] => do
    let plan ← plan.nats?
    let τ2 ← decodeTy ty2
    let x ← decodeVal τ2 x
    agree τ2 (equivB τ2) (rwVal (planFn plan) τ2 x) res
  | "repr", [sty, st, res] => do
    let (s, m, t, r, h) ← stateTys sty
    let v ← decodeVal (Ty.state s m t r h) st
    let model := representative (St.ofVal v)
    match res with
    | .atom "panic" => pure (if model.isNone then "ok" else model.elim "panic" stStr)
    | e => do
      let rv ← decodeVal (Ty.state s m t r h) e
      pure (match model with
        | some x => if x.eqB (St.ofVal rv) then "ok" else stStr x
        | none => "panic")
  -- oracle: orbit membership of the implementation's representative, by brute force over all permutations.
  -- Full strength: ids inside timer values are renamed too (`applyPerm true`). A result that is the image only
  -- when timer values are left alone is the known divergence F12 and is reported with its own token.
  | "o-orbit", [sty, st, res] => do
    let (s, m, t, r, h) ← stateTys sty
    let v ← decodeVal (Ty.state s m t r h) st
    let x := St.ofVal v
    let πs := perms x.actors.length
    match res with
    | .atom "panic" =>
      pure (if πs.all (fun π => (applyPerm false π x).isNone) then "ok" else "panic-although-a-permutation-image-exists")
    | e => do
      let rv ← decodeVal (Ty.state s m t r h) e
      let y := St.ofVal rv
      let inOrbit (b : Bool) := πs.any fun π => match applyPerm b π x with | some z => z.eqB y | none => false
      pure (if inOrbit true then "ok"
        else if inOrbit false then "timer-ids-not-rewritten:the-result-is-a-permutation-image-only-if-ids-inside-timer-values-are-left-alone"
        else "representative-not-in-the-orbit")
  | _, _ => none

end SR.Drv.C10
