import SR.Drv.Loop
/-! Driver commands for C10 (stub). -/
namespace SR.Drv.C10
def handle : Drv.Handler
  | _, _ => none
end SR.Drv.C10
