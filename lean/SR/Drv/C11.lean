import SR.Drv.Loop
/-! Driver commands for C11 (stub). -/
namespace SR.Drv.C11
def handle : Drv.Handler
  | _, _ => none
end SR.Drv.C11
