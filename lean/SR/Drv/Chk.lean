import SR.Drv.Loop
import SR.Checker.Sched
import SR.Checker.Spec
import SR.Checker.Sim
import SR.Checker.Verdict
import SR.Checker.Assert
import SR.Checker.SymOk
import SR.Proofs.Checker.Fuel
import SR.Proofs.Checker.SimFuel
/-! Driver commands of the checker group (C01, C02, C03, C11, C12, C13): `chk` runs the machine
scheduler; `o-chk <prop> ...` evaluates the declarative oracle of one property on implementation outputs. -/
namespace SR.Drv.Chk
open SR SR.Checker

inductive Finish where
  | all | any | anyF | allF
  | allOf (s : List Nat) | anyOf (s : List Nat)

def Finish.ofSExp? : SExp → Option Finish
  | .atom "all" => some .all
  | .atom "any" => some .any
  | .atom "anyf" => some .anyF
  | .atom "allf" => some .allF
  | .list (.atom "allof" :: xs) => (xs.mapM SExp.nat?).map .allOf
  | .list (.atom "anyof" :: xs) => (xs.mapM SExp.nat?).map .anyOf
  | _ => none

/-- `HasDiscoveries::matches` on property indices (names are distinct; an index ≥ #props is a foreign name) -/
def Finish.matches (f : Finish) (props : List GProp) (disc : List Nat) : Bool :=
  let failures := (List.range props.length).filter fun i => (props.getD i default).exp != .sometimes
  match f with
  | .all => disc.eraseDups.length == props.length
  | .any => !disc.isEmpty
  | .anyF => failures.any disc.contains
  | .allF => failures.all disc.contains
  | .allOf s => s.all disc.contains
  | .anyOf s => s.any disc.contains

structure Case where
  g : Graph
  props : List GProp
  cfg : Cfg
  finish : Finish

def parseCfg : SExp → Option (Cfg × Finish)
  | .list [.atom "cfg", d, t, f] => do
    let d ← SExp.optNat d
    let t ← SExp.optNat t
    let f ← Finish.ofSExp? f
    pure ({ maxDepth := d, target := t, timeout := false }, f)
  | _ => none
where SExp.optNat : SExp → Option (Option Nat)
  | .atom "none" => some none
  | e => e.nat?.map some

def Case.params (c : Case) : Params Nat Nat Nat :=
  { M := c.g.toSys, props := c.props.map GProp.toProp, key := id, cfg := c.cfg,
    finishMatches := fun d => c.finish.matches c.props d }

def natsStr (l : List Nat) : String := toString (SExp.ofNats l)

/-- the ad-hoc fuel formula the driver used at first; NOT sufficient in general (`C01_driver_fuelFor_insufficient`,
    Props/C01Fuel.lean) — kept only because that theorem is about it.  The driver runs with `Graph.fuel`
    (`fuelFor'` of Props/C01Fuel.lean), which is proved sufficient on every well-formed graph. -/
def fuelFor (g : Graph) (props : List GProp) : Nat :=
  20 + (g.n + 2) * (8 + props.length * 2 + (g.adj.map List.length).foldl (· + ·) 0 + g.init.length) * 2

def showVerdict (P : Params Nat Nat Nat) (s : St Nat Nat) : String :=
  s!" (done {Drv.bstr (isDone P s)}) (assert {if assertPropertiesOk P s then "ok" else "panic"})"

def showSt (s : St Nat Nat) : String :=
  let visits := "(" ++ " ".intercalate (s.visits.reverse.map natsStr) ++ ")"
  let disc := s.disc.mergeSort (fun a b => a.1 ≤ b.1)
  let discS := "(" ++ " ".intercalate (disc.map fun (i, p) => s!"({i} {natsStr p})") ++ ")"
  s!"(visits {visits}) (uniq {s.gen.length}) (count {s.stateCount}) (depth {s.maxDepth}) (disc {discS})"

/-- the implementation's observation -/
structure Obs where
  visits : List (List Nat)
  uniq : Nat
  count : Nat
  depth : Nat
  disc : List (Nat × List Nat)

def Obs.ofSExp? : SExp → Option (Option Obs)
  | .list [.atom "panic"] => some none
  | .list (.list [.atom "visits", vs] :: .list [.atom "uniq", u] :: .list [.atom "count", c] :: .list [.atom "depth", d] ::
           .list [.atom "disc", ds] :: _) => do
    let vs ← vs.listOf? SExp.nats?
    let u ← u.nat?; let c ← c.nat?; let d ← d.nat?
    let ds ← ds.listOf? (SExp.pairOf? SExp.nat? SExp.nats?)
    pure (some { visits := vs, uniq := u, count := c, depth := d, disc := ds })
  | _ => none

def lastOf (p : List Nat) : Nat := p.getLast?.getD 0

/-- was the run free of every early-exit condition?  (decided from the configuration and the FINAL discoveries:
    all conditions are monotone in the discoveries) -/
def completeRun (c : Case) (o : Obs) : Bool :=
  c.cfg.maxDepth.isNone && c.cfg.target.isNone &&
  !(c.finish.matches c.props (o.disc.map (·.1))) && (o.disc.map (·.1)).eraseDups.length != c.props.length

def oracleC01 (c : Case) (o : Obs) : List String :=
  let g := c.g
  let reach := g.reachList
  let lasts := o.visits.map lastOf
  (if o.visits.all g.isPathB then [] else ["visited-path-not-a-real-in-boundary-path"]) ++
  (if lasts.all reach.contains then [] else ["evaluated-unreachable-state"]) ++
  (if g.initB.eraseDups.length == g.initB.length && lasts.eraseDups.length != lasts.length then ["state-evaluated-twice"] else []) ++
  (if o.uniq ≤ reach.length then [] else ["unique-count-exceeds-reachable"]) ++
  (if o.count ≥ o.uniq then [] else ["state-count-below-unique"]) ++
  (if completeRun c o then
     (if reach.all lasts.contains then [] else ["reachable-state-not-evaluated"]) ++
     (if o.uniq == reach.length then [] else ["unique-count-not-reachable-size"])
   else [])

/-- the path's last state repeats an earlier state of the path -/
def closesCycle (p : List Nat) : Bool :=
  match p.reverse with
  | [] => false
  | l :: rest => rest.contains l

def witnessOk (c : Case) (i : Nat) (p : List Nat) (sim : Bool := false) : List String :=
  let g := c.g
  match c.props[i]? with
  | none => ["discovery-for-unknown-property"]
  | some pr =>
    (if g.isPathB p then [] else ["discovery-path-not-a-real-in-boundary-path"]) ++
    (match pr.exp with
     | .always => if pr.tbl.getD (lastOf p) false then ["always-discovery-last-state-satisfies"] else []
     | .sometimes => if pr.tbl.getD (lastOf p) false then [] else ["sometimes-discovery-last-state-does-not-satisfy"]
     | .eventually =>
       (if p.any (fun s => pr.tbl.getD s false) then ["eventually-discovery-path-satisfies-condition"] else []) ++
       (if (g.succB (lastOf p)).isEmpty || (sim && closesCycle p) then [] else ["eventually-discovery-path-extensible-inside-boundary"]))

def oracleC03 (c : Case) (o : Obs) (sim : Bool := false) : List String :=
  o.disc.flatMap fun (i, p) => witnessOk c i p sim

def oracleC02 (c : Case) (o : Obs) : List String :=
  let reach := c.g.reachList
  let names := o.disc.map (·.1)
  -- "completed": no early exit, OR everything discovered (then every verdict is decided by its witness)
  if !(completeRun c o) then [] else
  (List.range c.props.length).flatMap fun i =>
    match c.props[i]? with
    | none => []
    | some pr =>
      match pr.exp with
      | .always =>
        let ex := reach.any fun s => !pr.tbl.getD s false
        if names.contains i == ex then [] else [s!"always-verdict-wrong-p{i}"]
      | .sometimes =>
        let ex := reach.any fun s => pr.tbl.getD s false
        if names.contains i == ex then [] else [s!"sometimes-verdict-wrong-p{i}"]
      | .eventually => []

def oracleC11 (c : Case) (o : Obs) (sim : Bool := false) : List String :=
  let names := o.disc.map (·.1)
  (List.range c.props.length).flatMap fun i =>
    match c.props[i]? with
    | none => []
    | some pr =>
      if pr.exp != .eventually then [] else
      let ex := c.g.canAvoidForever (fun s => pr.tbl.getD s false)
      (if names.contains i && !ex then [s!"eventually-false-alarm-p{i}"] else []) ++
      (if !sim && completeRun c o && c.g.isForest && ex && !names.contains i then [s!"eventually-missed-on-forest-p{i}"] else [])

def oracleC13 (c : Case) (strat : String) (o : Obs) : List String :=
  if strat != "bfs" then [] else
  let g := c.g
  let ds := o.visits.map fun p => p.length
  let rec nondecr : List Nat → Bool
    | a :: b :: r => a ≤ b && nondecr (b :: r)
    | _ => true
  (if nondecr ds then [] else ["bfs-visit-depths-decrease"]) ++
  (if o.visits.all (fun p => g.distOf (lastOf p) == some (p.length - 1)) then [] else ["bfs-visit-path-not-shortest"]) ++
  (o.disc.flatMap fun (i, p) =>
    match c.props[i]? with
    | none => []
    | some pr =>
      if pr.exp == .eventually then [] else
      let wit := fun s => if pr.exp == .always then !pr.tbl.getD s false else pr.tbl.getD s false
      let best := (g.reachList.filter wit).filterMap g.distOf |>.foldl (fun m d => min m d) (p.length)
      if p.length - 1 ≤ best then [] else [s!"bfs-discovery-not-shortest-p{i}"])

/-- single-threaded run-control oracle (C12): depth limit, target, early stop only if the condition holds -/
def oracleC12 (c : Case) (o : Obs) (strat : String := "") : List String :=
  (match c.cfg.maxDepth with
   | some d =>
     -- the exhaustive checkers stop one level before the limit, simulation evaluates paths of exactly `d` states:
     -- both "never deeper than target_max_depth"
     (if o.visits.all (fun p => if strat == "sim" then p.length ≤ d else p.length < d) then []
      else ["evaluated-state-deeper-than-max-depth"]) ++
     -- single-threaded BFS still evaluates every state nearer than the limit (no other stop reason)
     (if strat == "bfs" && c.cfg.target.isNone && !(c.finish.matches c.props (o.disc.map (·.1))) &&
         (o.disc.map (·.1)).eraseDups.length != c.props.length then
        let lasts := o.visits.map lastOf
        if c.g.reachList.all (fun t => match c.g.distOf t with
            | some k => decide (k + 1 < d) → lasts.contains t
            | none => true)
        then [] else ["bfs-missed-a-state-nearer-than-max-depth"]
      else [])
   | none => []) ++
  (match c.cfg.target with
   | some t => if o.count ≥ min t (c.g.reachList.length) || !(c.cfg.maxDepth.isNone) ||
                   c.finish.matches c.props (o.disc.map (·.1)) || (o.disc.map (·.1)).eraseDups.length == c.props.length
               then [] else ["generated-fewer-states-than-target-although-more-exist"]
   | none => [])

def handle : Drv.Handler
  | "chk", [.atom strat, g, ps, cfg] => do
    let g ← Graph.ofSExp? g
    let ps ← ps.listOf? GProp.ofSExp?
    let (cfg, fin) ← parseCfg cfg
    let c : Case := { g, props := ps, cfg, finish := fin }
    if !decide g.WF then pure "ill-formed-graph" else
    let d := if strat == "dfs" then Discipline.dfs else if strat == "bfs" then Discipline.bfs else Discipline.ondemand
    let s := runSingle c.params d (g.fuel ps.length)
    pure (showSt s ++ showVerdict c.params s)
  -- the provided helpers of the `Checker` trait after a single-threaded run: per property
  -- `(i classification assert_any assert_no assert_discovery(own actions) assert_discovery(given actions))`
  | "helpers", [.atom strat, g, ps, cfg, given] => do
    let g ← Graph.ofSExp? g
    let ps ← ps.listOf? GProp.ofSExp?
    let (cfg, fin) ← parseCfg cfg
    let given ← given.listOf? SExp.nats?
    let c : Case := { g, props := ps, cfg, finish := fin }
    let d := if strat == "dfs" then Discipline.dfs else if strat == "bfs" then Discipline.bfs else Discipline.ondemand
    let P := c.params
    -- `fresh` = an on-demand checker that was never told to do anything: the state right after spawn
    let s := if strat == "fresh" then Checker.init P.M P.props P.key else runSingle P d (g.fuel ps.length)
    let M := g.toSys
    -- `discoveries()` rebuilds each stored fingerprint path with `Path::from_fingerprints` (states are their own keys)
    let view : Assert.View Nat Nat :=
      { done := isDone P s, disc := s.disc.filterMap fun (i, p) => (PathApi.fromFingerprints M id p).map fun q => (i, q) }
    let b := fun (x : Bool) => if x then "ok" else "panic"
    let rows := (List.range ps.length).map fun i =>
      let cls := match Assert.classification P.props i with
        | some .example => "example" | some .counterexample => "counterexample" | none => "panic"
      let own := match view.discovery i with
        | some q => b (Assert.assertDiscoveryOk M P.props view i (PathApi.intoActions q))
        | none => "none"
      let giv := b (Assert.assertDiscoveryOk M P.props view i (given.getD i []))
      s!"({i} {cls} {b (Assert.assertAnyOk view i)} {b (Assert.assertNoOk view i)} {own} {giv})"
    pure ("(" ++ " ".intercalate rows ++ s!") (assert {b (Assert.assertPropertiesOk P.props view)})")
  | "sim", [g, ps, cfg, ans] => do
    let g ← Graph.ofSExp? g
    let ps ← ps.listOf? GProp.ofSExp?
    let (cfg, fin) ← parseCfg cfg
    let ans ← ans.nats?
    let c : Case := { g, props := ps, cfg, finish := fin }
    if !decide g.WF then pure "ill-formed-graph" else
    let r := Sim.runTraces c.params (g.n + 3) (ans.length + 20) ans {}
    -- fuel g.n + 3 per trace is sufficient on a well-formed graph (C03_sim_fuel_sufficient); the number of traces is enough
    -- whenever the run stops within it (C03_sim_trace_budget_stable) — otherwise say so instead of answering a truncated run
    if !Sim.stops c.params r then pure "trace-budget-exhausted" else
    let s : St Nat Nat := { gen := [], frontier := [], active := [], done := [], disc := r.disc, stateCount := r.stateCount,
                            maxDepth := r.maxDepth, visits := r.visits, early := false, stopped := false }
    -- unique_state_count of the simulation checker is its state_count
    pure ((showSt s).replace "(uniq 0)" s!"(uniq {r.stateCount})")
  -- simulation with symmetry: the per-trace seen-set holds the keys of the REPRESENTATIVES
  | "sim-sym", [g, ps, cfg, rep, ans] => do
    let g ← Graph.ofSExp? g
    let ps ← ps.listOf? GProp.ofSExp?
    let (cfg, fin) ← parseCfg cfg
    let rep ← rep.nats?
    let ans ← ans.nats?
    let c : Case := { g, props := ps, cfg, finish := fin }
    let P : Params Nat Nat Nat := { c.params with key := fun s => rep.getD s s }
    if !decide g.WF then pure "ill-formed-graph" else
    let r := Sim.runTraces P (g.n + 3) (ans.length + 20) ans {}
    if !Sim.stops P r then pure "trace-budget-exhausted" else
    let s : St Nat Nat := { gen := [], frontier := [], active := [], done := [], disc := r.disc, stateCount := r.stateCount,
                            maxDepth := r.maxDepth, visits := r.visits, early := false, stopped := false }
    pure ((showSt s).replace "(uniq 0)" s!"(uniq {r.stateCount})")
  -- DFS with symmetry reduction: `rep` maps every state to its representative; key = rep
  | "chk-sym", [g, ps, cfg, rep] => do
    let g ← Graph.ofSExp? g
    let ps ← ps.listOf? GProp.ofSExp?
    let (cfg, fin) ← parseCfg cfg
    let rep ← rep.nats?
    let c : Case := { g, props := ps, cfg, finish := fin }
    let P : Params Nat Nat Nat := { c.params with key := fun s => rep.getD s s }
    let st := runSingle P .dfs (g.fuel ps.length)
    pure (showSt st ++ showVerdict P st)
  | "o-chk-sym", [g, ps, cfg, rep, obs] => do
    let g ← Graph.ofSExp? g
    let ps ← ps.listOf? GProp.ofSExp?
    let (cfg, fin) ← parseCfg cfg
    let rep ← rep.nats?
    let c : Case := { g, props := ps, cfg, finish := fin }
    -- the oracle functions are adequate on well-formed graphs (Props/OracleAdequacy: reachList = Reach without any fixpoint
    -- hypothesis, distOf = shortest-path length, canAvoidForever = a maximal avoiding path or lasso exists, isForest)
    if !decide g.WF then pure "ill-formed-graph" else
    -- the theorems behind the guarded lines (C10_complete_run_sym) assume that `rep` induces a simulation with invariant
    -- conditions; `symOk` decides exactly that (C10_oracle_symOk_iff).  A refusal means the HARNESS left the hypotheses.
    if !symOk g rep (ps.map (·.tbl)) then pure "rep-not-a-symmetry" else
    if !((g.closeStep g.reachList).all g.reachList.contains) then pure "oracle-closure-not-stabilised" else
    match ← Obs.ofSExp? obs with
    | none => pure "implementation-panicked"
    | some o =>
      let r := fun s => rep.getD s s
      let reach := g.reachList
      let lasts := o.visits.map lastOf
      let initReps := g.initB.map r
      let errs :=
        (if o.visits.all g.isPathB then [] else ["visited-path-not-a-real-path-of-the-original-model"]) ++
        oracleC03 c o ++
        (if lasts.length ≤ reach.length then [] else ["more-states-evaluated-than-reachable"]) ++
        (if initReps.eraseDups.length == initReps.length && (lasts.map r).eraseDups.length != lasts.length
           then ["two-evaluated-states-in-one-symmetry-class-key"] else []) ++
        (if completeRun c o then
           (if reach.all (fun t => lasts.any (fun v => r v == r t)) then [] else ["symmetry-class-without-evaluated-state"]) ++
           oracleC02 c o
         else [])
      pure (if errs.isEmpty then "ok" else " ".intercalate errs)
  | "o-chk", [.atom prop, .atom strat, g, ps, cfg, obs] => do
    let g ← Graph.ofSExp? g
    let ps ← ps.listOf? GProp.ofSExp?
    let (cfg, fin) ← parseCfg cfg
    let c : Case := { g, props := ps, cfg, finish := fin }
    -- adequacy of the oracle functions needs a well-formed graph (Props/OracleAdequacy); the fixpoint test is then redundant
    -- (C13_oracle_reach_stabilises) and kept as a tripwire
    if !decide g.WF then pure "ill-formed-graph" else
    if !((g.closeStep g.reachList).all g.reachList.contains) then pure "oracle-closure-not-stabilised" else
    match ← Obs.ofSExp? obs with
    | none => pure "implementation-panicked"
    | some o =>
      let sim := strat == "sim"
      let errs := match prop with
        | "c01" => if sim then [] else oracleC01 c o
        | "c02" => if sim then [] else oracleC02 c o
        | "c03" => oracleC03 c o sim
        | "c11" => oracleC11 c o sim ++ oracleC03 c o sim
        | "c12" => if sim then (oracleC12 { c with cfg := { c.cfg with target := none } } o "sim") else oracleC12 c o strat
        | "c13" => oracleC13 c strat o
        | _ => ["unknown-property"]
      pure (if errs.isEmpty then "ok" else " ".intercalate errs)
  | _, _ => none

end SR.Drv.Chk
