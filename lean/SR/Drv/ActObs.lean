import SR.Drv.Loop
import SR.Actor.Glue
/-! Driver commands of the ActObs worker (coverage-gap closing, see DESIGN §13c).
Model side: `majority`, `peer-ids`, `model-peers`, `net-names`, `net-parse`, `client-start`.
Oracle side (`o-…`): the declarative side of the theorems of `SR/Props/ActorGlue.lean`, evaluated on the
implementation's own outputs. -/
namespace SR.Drv.ActObs
open SR SR.Glue

def natsStr (l : List Nat) : String := toString (SExp.ofNats l)

def kindTag : Option NetKind → String
  | some .ordered => "ordered"
  | some .dup => "dup"
  | some .nondup => "nondup"
  | none => "err"

def clientStr : Option ClientStart → String
  | none => "panic"
  | some r =>
    let sends := SExp.list (r.sends.map fun (d, q, v) => SExp.ofNats [d, q, v])
    toString (SExp.list [SExp.ofOpt SExp.ofNat r.awaiting, SExp.ofNat r.opCount, sends])

/-- strictly ascending -/
def ascending : List Nat → Bool
  | a :: b :: t => a < b && ascending (b :: t)
  | _ => true

def handle : Drv.Handler
  | "majority", [n] => do
    let n ← n.nat?
    pure (toString (majority n))
  | "peer-ids", [s, ids] => do
    let s ← s.nat?; let ids ← ids.nats?
    pure (natsStr (peerIds s ids))
  | "model-peers", [i, n] => do
    let i ← i.nat?; let n ← n.nat?
    pure (natsStr (modelPeers i n))
  | "net-names", [] => pure (toString (SExp.list (names.map SExp.atom)))
  | "net-parse", [s] => do
    let s ← s.str?
    pure (kindTag (fromStr s))
  -- first argument: `r` (RegisterActor) or `w` (WORegisterActor); the client arm is the same text in both
  | "client-start", [_, p, sc, i] => do
    let p ← p.nat?; let sc ← sc.nat?; let i ← i.nat?
    pure (clientStr (clientStart p sc i))
  -- C15_majority_spec / C15_majority_intersect: strictly more than half, and no larger than needed
  | "o-majority", [n, m] => do
    let n ← n.nat?; let m ← m.nat?
    pure (if !(n < 2 * m) then "two-disjoint-quorums-fit"
      else if !(2 * m ≤ n + 2) then "larger-than-the-least-majority" else "ok")
  -- C15_peer_ids_spec / C15_peer_ids_unique: sublist of ids, avoids self, drops only the occurrences of self
  | "o-peer-ids", [s, ids, res] => do
    let s ← s.nat?; let ids ← ids.nats?; let res ← res.nats?
    pure (if !(res.isSublist ids) then "not-a-sublist-of-the-ids"
      else if res.contains s then "contains-self"
      else if res.length != ids.length - ids.count s then "dropped-a-peer" else "ok")
  -- C06_model_peers_spec
  | "o-model-peers", [i, n, res] => do
    let i ← i.nat?; let n ← n.nat?; let res ← res.nats?
    pure (if !(ascending res) then "not-ascending"
      else if !(res.all (· < n)) then "id-out-of-range"
      else if res.contains i then "contains-self"
      else if res.length != (if i < n then n - 1 else n) then "wrong-count" else "ok")
  -- C07_net_names: the listed names are distinct and parse (implementation's parse results given as kind tags) to
  -- each of the three kinds exactly once
  | "o-net-names", [ns, ks] => do
    let ns ← ns.listOf? SExp.str?; let ks ← ks.listOf? SExp.str?
    pure (if ns.length != ks.length then "length-mismatch"
      else if !(ns.eraseDups.length == ns.length) then "duplicate-name"
      else if !(["ordered", "dup", "nondup"].all fun k => ks.count k == 1) then "a-kind-is-not-listed-exactly-once"
      else if ks.length != 3 then "a-listed-name-does-not-parse" else "ok")
  -- C18_client_before_servers_panics / C18_client_start on the implementation's result
  | "o-client-start", [p, sc, i, res] => do
    let p ← p.nat?; let sc ← sc.nat?; let i ← i.nat?
    if i < sc then pure (if res == SExp.atom "panic" then "ok" else "client-before-servers-accepted")
    else if sc == 0 || i - sc > 190 then pure "ok"
    else match res with
    | .atom "panic" => pure "panicked-after-the-servers"
    | .list [aw, oc, sends] => do
      let aw ← SExp.optOf? SExp.nat? aw; let oc ← oc.nat?
      let sends ← sends.listOf? SExp.nats?
      if p == 0 then pure (if aw == none && oc == 0 && sends.isEmpty then "ok" else "put-count-0-client-not-idle")
      else match sends with
        | [[d, q, v]] =>
          pure (if !(d < sc) then "first-put-not-to-a-server"
            else if !(q == i && aw == some i) then "request-id-not-the-client-index-or-not-awaited"
            else if oc != 1 then "op-count-not-1"
            else if v != 65 + (i - sc) then "value-not-A-plus-client-number" else "ok")
        | _ => pure "not-exactly-one-put"
    | _ => none
  | _, _ => none

end SR.Drv.ActObs
