import SR.Drv.Loop
/-! Driver commands of the ActObs worker (coverage-gap closing, see DESIGN §13c). -/
namespace SR.Drv.ActObs
open SR

def handle : Drv.Handler
  | _, _ => none

end SR.Drv.ActObs
