import SR.Drv.Loop
/-! Driver commands for C15 (stub). -/
namespace SR.Drv.C15
def handle : Drv.Handler
  | _, _ => none
end SR.Drv.C15
