import SR.Drv.C06
/-! Driver commands for C15 (all commands of C06 are available too; `graph` accepts wrapped actors).
Model side: `wrap-h` — one handler of an actor under a stack of adapters (or of the scripted client).
Oracle side (implementation against itself, as the property is stated): `o-handler` — the wrapped handler's
result is the unwrapped one's with the state re-tagged, and the wrapped actor saw the same arguments;
`o-iso` — the walk of the wrapped system is the lift of the walk of the unwrapped one; `o-vec` — the scripted
client has sent exactly `script.take (min (k+1) len)` after `k` received messages. -/
namespace SR.Drv.C15
open SR SR.Actor SR.Actor.Codec

def ofCmd : Cmd → SExp
  | .send d m => .list [.atom "s", SExp.ofNat d, SExp.ofNat m]
  | .setTimer t => .list [.atom "t", SExp.ofNat t]
  | .cancelTimer t => .list [.atom "c", SExp.ofNat t]
  | .chooseRandom k cs => .list (.atom "r" :: SExp.ofNat k :: cs.map SExp.ofNat)

def ofHRes : HRes U → String
  | .panic => "panic"
  | .ok ns cmds => toString (SExp.list [match ns with | none => .atom "-" | some u => ofU u, SExp.ofList ofCmd cmds])

/-- apply a tag path (outermost first) to a state text -/
def tagSx (path : List String) (inner : SExp) : SExp :=
  path.foldr (fun t acc => .list [.atom (if t == "O" then "L" else t), acc]) inner

def liftRes (path : List String) : SExp → SExp
  | .list [.atom "-", cmds] => .list [.atom "-", cmds]
  | .list [ns, cmds] => .list [tagSx path ns, cmds]
  | x => x

def handle : Drv.Handler
  | "wrap-h", [actor, st, ev] => do
    let a ← actor? actor
    match ev with
    | .list [.atom "start", id] => do
      let r := a.start (← id.nat?)
      pure (toString (SExp.list [ofU r.1, SExp.ofList ofCmd r.2]))
    | .list [.atom "msg", id, src, m] => do
      pure (ofHRes (a.msg (← id.nat?) (← ustate? st) (← src.nat?) (← m.nat?)))
    | .list [.atom "timeout", id, t] => do pure (ofHRes (a.timeout (← id.nat?) (← ustate? st) (← t.nat?)))
    | .list [.atom "random", id, r] => do pure (ofHRes (a.random (← id.nat?) (← ustate? st) (← r.nat?)))
    | _ => none
  | "o-handler", [path, resU, resW, logU, logW] => do
    let path ← path.listOf? SExp.str?
    pure (if liftRes path resU != resW then s!"wrapped handler result {resW} is not the re-tagged unwrapped result {liftRes path resU}"
      else if logU != logW then s!"wrapped actor was invoked with {logW}, unwrapped with {logU}"
      else "ok")
  | "o-iso", [wraps, statesU, recsU, statesW, recsW] => do
    let wraps ← wraps.listOf? (SExp.listOf? SExp.str?)
    let su ← statesU.list?; let sw ← statesW.list?
    let lifted := su.map (fun s => match s with
      | .list (.list actors :: rest) =>
        SExp.list (.list (actors.zipIdx.map (fun p => tagSx (wraps.getD p.2 []) p.1)) :: rest)
      | x => x)
    pure (if lifted != sw then "states of the wrapped system are not the lifted states of the unwrapped one"
      else if recsU != recsW then "transitions of the wrapped system differ from those of the unwrapped one"
      else "ok")
  | "o-vec", [script, k, sends] => do
    let script ← script.listOf? pair?
    let k ← k.nat?
    let sends ← sends.listOf? pair?
    pure (if sends == script.take (min (k + 1) script.length) then "ok"
      else s!"after {k} messages the client has sent {sends.length} entries, expected the first {min (k + 1) script.length} of its script")
  | c, args => C06.handle c args

end SR.Drv.C15
