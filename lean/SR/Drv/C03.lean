import SR.Drv.Loop
/-! Driver commands for C03 (stub). -/
namespace SR.Drv.C03
def handle : Drv.Handler
  | _, _ => none
end SR.Drv.C03
