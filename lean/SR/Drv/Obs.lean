import SR.Drv.Loop
import SR.Drv.Chk
import SR.Checker.Report
/-! Driver commands of the Obs worker (coverage-gap closing, see DESIGN §13c): the text of `Checker::report` /
`Checker::join_and_report` with `WriteReporter`.

* `report <strat> g props names cfg`   the machine (`runSingle`, exactly as `chk` / `helpers` of Drv/Chk.lean) is run, the
                                        text is `Report.reportText` of its final state;
* `report-text g props names (S U D) ((i (states)) ..)`   the text as a function of what the checker exposes;
* `o-report ..`                         the laws of Props/Report.lean evaluated on the implementation's parsed text;
* `sim ..`                              forwarded to Drv/Chk.lean (simulation with initial states outside the boundary). -/
namespace SR.Drv.Obs
open SR SR.Checker SR.Checker.Report

def names? (e : SExp) : Option (List String) := e.listOf? SExp.str?

/-- `discoveries()` of a machine state / of the implementation: fingerprint paths rebuilt on the graph (states are
    their own fingerprints) -/
def textOf (g : Graph) (ps : List GProp) (names : List String) (c : Counts) (disc : List (Nat × List Nat)) : String :=
  match rebuild g.toSys id disc with
  | none => "panic"
  | some d => reportText id names (ps.map GProp.toProp) c d

/-- one parsed `Discovered` block of the implementation's text -/
structure Block where
  name : String
  cls : String
  k : Nat
  acts : List Nat
  states : List Nat

def Block.ofSExp? : SExp → Option Block
  | .list [.atom name, .atom cls, k, acts, states] => do
    let k ← k.nat?; let acts ← acts.nats?; let states ← states.nats?
    pure { name, cls, k, acts, states }
  | _ => none

def ascending : List String → Bool
  | a :: b :: r => decide (a < b) && ascending (b :: r)
  | _ => true

/-- the states and actions are an execution of the graph from an initial state (boundaries play no role in path.rs) -/
def isExec (g : Graph) : List Nat → List Nat → Bool
  | [_], [] => true
  | s :: t :: ss, a :: as => ((g.adj.getD s []).getD a none == some t) && isExec g (t :: ss) as
  | _, _ => false

def triple? : SExp → Option Counts
  | .list [.atom _, a, b, c] => do pure { states := ← a.nat?, unique := ← b.nat?, depth := ← c.nat? }
  | _ => none

def oracle (g : Graph) (ps : List GProp) (names : List String) (counts done : Counts) (dnames : List String)
    (bs : List Block) : List String :=
  let listed := bs.map (·.name)
  (if done == counts then [] else ["done-line-counts-differ-from-the-checker's-counts"]) ++
  (if ascending listed then [] else ["names-not-in-strictly-ascending-order"]) ++
  (if listed.all dnames.contains && dnames.all listed.contains then [] else ["listed-names-are-not-the-discovery-names"]) ++
  bs.flatMap fun b =>
    (match names.idxOf? b.name with
     | none => [s!"unknown-name-{b.name}"]
     | some i =>
       match ps[i]? with
       | none => [s!"unknown-name-{b.name}"]
       | some p =>
         if p.exp == .sometimes then
           (if b.cls == "example" then []
            else if b.cls == "counterexample" then [s!"sometimes-property-reported-as-counterexample-{b.name}"]
            else [s!"classification-{b.name}"])
         else (if b.cls == "counterexample" then [] else [s!"failure-not-reported-as-counterexample-{b.name}"])) ++
    (if b.k == b.acts.length && b.states.length == b.k + 1 then [] else [s!"path-header-count-{b.name}"]) ++
    (if (b.states.head?.map g.init.contains).getD false && isExec g b.states b.acts then []
     else [s!"path-is-not-an-execution-of-the-model-{b.name}"])

def handle : Drv.Handler
  | "report", [.atom strat, g, ps, names, cfg] => do
    let g ← Graph.ofSExp? g
    let ps ← ps.listOf? GProp.ofSExp?
    let names ← names? names
    let (cfg, fin) ← Chk.parseCfg cfg
    let c : Chk.Case := { g, props := ps, cfg, finish := fin }
    if !decide g.WF then pure "ill-formed-graph" else
    let d := if strat == "dfs" then Discipline.dfs else if strat == "bfs" then Discipline.bfs else Discipline.ondemand
    let s := runSingle c.params d (g.fuel ps.length)
    pure (textOf g ps names { states := s.stateCount, unique := s.gen.length, depth := s.maxDepth } s.disc)
  | "report-text", [g, ps, names, .list [a, b, c], disc] => do
    let g ← Graph.ofSExp? g
    let ps ← ps.listOf? GProp.ofSExp?
    let names ← names? names
    let disc ← disc.listOf? (SExp.pairOf? SExp.nat? SExp.nats?)
    pure (textOf g ps names { states := ← a.nat?, unique := ← b.nat?, depth := ← c.nat? } disc)
  | "o-report", [g, ps, names, counts, done, dnames, blocks] => do
    let g ← Graph.ofSExp? g
    let ps ← ps.listOf? GProp.ofSExp?
    let names ← names? names
    let counts ← triple? counts
    let done ← triple? done
    let dnames ← names? dnames
    let bs ← blocks.listOf? Block.ofSExp?
    let errs := oracle g ps names counts done dnames bs
    pure (if errs.isEmpty then "ok" else " ".intercalate errs)
  | "sim", args => Chk.handle "sim" args
  | _, _ => none

end SR.Drv.Obs
