import SR.Drv.Loop
/-! Driver commands of the Obs worker (coverage-gap closing, see DESIGN §13c). -/
namespace SR.Drv.Obs
open SR

def handle : Drv.Handler
  | _, _ => none

end SR.Drv.Obs
