import SR.SExp
/-! Line-protocol loop of the model drivers (I/O glue). One request per line, one response per line.
A handler gets the command name and its argument S-expressions and returns the response text,
or `none` if the command is not its own. -/
namespace SR.Drv
open SR

abbrev Handler := String → List SExp → Option String

def dispatch (hs : List Handler) (line : String) : String :=
  match SExp.parseLine line with
  | none => "bad-request-parse"
  | some [] => "bad-request-empty"
  | some (SExp.atom cmd :: args) =>
    match hs.findSome? (fun h => h cmd args) with
    | some r => r
    | none => "bad-request"
  | some _ => "bad-request"

partial def loop (hs : List Handler) (h : IO.FS.Stream) (out : IO.FS.Stream) : IO Unit := do
  let line ← h.getLine
  if line.isEmpty then return ()
  out.putStrLn (dispatch hs line)
  loop hs h out

def runMain (hs : List Handler) : IO Unit := do
  let stdin ← IO.getStdin
  let stdout ← IO.getStdout
  loop hs stdin stdout
  stdout.flush

def ordStr : Option Ordering → String
  | none => "none"
  | some .lt => "lt"
  | some .eq => "eq"
  | some .gt => "gt"

def ordOf? : SExp → Option (Option Ordering)
  | .atom "none" => some none
  | .atom "lt" => some (some .lt)
  | .atom "eq" => some (some .eq)
  | .atom "gt" => some (some .gt)
  | _ => none

def bstr (b : Bool) : String := if b then "t" else "f"

end SR.Drv
