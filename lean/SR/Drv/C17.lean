import SR.Drv.Loop
/-! Driver commands for C17 (stub). -/
namespace SR.Drv.C17
def handle : Drv.Handler
  | _, _ => none
end SR.Drv.C17
