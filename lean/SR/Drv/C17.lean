import SR.Drv.Loop
import SR.Util.IdCodec
import SR.Runtime.Loop
/-!
Driver commands for C17.

Model side: `codec-id`, `codec-addr`, `codec-sweep`, `loop-out`.
Oracle side: `o-codec`, `o-codec-id` (declarative reading of the codec on implementation outputs),
`o-trace` (the acceptance predicate of `SR.Loop` replaying the log of a real `spawn()` run).
-/
namespace SR.Drv.C17
open SR SR.IdCodec SR.Loop

/-! ### wire helpers -/

def addr? : SExp → Option Addr
  | .list [a, b, c, d, p] => do pure ⟨← a.nat?, ← b.nat?, ← c.nat?, ← d.nat?, ← p.nat?⟩
  | _ => none

def addrStr (a : Addr) : String := s!"({a.o0} {a.o1} {a.o2} {a.o3} {a.port})"

def hexVal (c : Char) : Option Nat :=
  if '0' ≤ c ∧ c ≤ '9' then some (c.toNat - '0'.toNat)
  else if 'a' ≤ c ∧ c ≤ 'f' then some (c.toNat - 'a'.toNat + 10)
  else none

def hexDecode : List Char → Option (List Nat)
  | [] => some []
  | a :: b :: r => do
    let x ← hexVal a; let y ← hexVal b; let rest ← hexDecode r
    pure ((x * 16 + y) :: rest)
  | _ => none

/-- bytes are a hex atom; `-` is the empty datagram -/
def bytes? : SExp → Option Bytes
  | .atom "-" => some []
  | .atom s => hexDecode s.toList
  | _ => none

def hexDigit (n : Nat) : Char := if n < 10 then Char.ofNat (48 + n) else Char.ofNat (87 + n)
def bytesStr (b : Bytes) : String :=
  if b.isEmpty then "-" else String.ofList (b.flatMap fun x => [hexDigit (x / 16), hexDigit (x % 16)])

/-! ### the harness's message codec (`harness/src/bin/c17.rs`: `ser`, `de`), messages are `u32`

`ser m` = `Err` when `m % 7 = 6`, else the ASCII bytes of `M<decimal>`;
`de b`  = `b` is `M` followed by 1..10 ASCII digits whose value fits a `u32`. -/

def serMsg (m : Nat) : Option Bytes :=
  if m % 7 = 6 then none else some (77 :: (toString m).toList.map Char.toNat)

def deMsg (b : Bytes) : Option Nat :=
  match b with
  | 77 :: ds =>
    if ds.isEmpty || ds.length > 10 || !ds.all (fun d => 48 ≤ d && d ≤ 57) then none
    else
      let v := ds.foldl (fun acc d => acc * 10 + (d - 48)) 0
      if v < 4294967296 then some v else none
  | _ => none

/-- the log's clock is CLOCK_MONOTONIC in nanoseconds -/
def cfgOf (id : Nat) : Cfg Nat :=
  { id := id, ser := serMsg, de := deMsg,
    never := 3600 * 24 * 365 * 500 * 1000000000, chooseSpan := 10 * 1000000000 }

/-! ### log decoding -/

abbrev E := Ev Nat Nat Nat Nat
abbrev C' := Cmd Nat Nat Nat

def cmd? : SExp → Option C'
  | .list [.atom "send", d, m] => do pure (.send (← d.nat?) (← m.nat?))
  | .list [.atom "set", k, lo, hi] => do pure (.set (← k.nat?) (← lo.nat?) (← hi.nat?))
  | .list [.atom "cancel", k] => do pure (.cancel (← k.nat?))
  | .list [.atom "choose", .atom key, vs] => do pure (.choose key (← vs.nats?))
  | _ => none

/-- a logged handler call; `msg` still lacks its datagram -/
inductive Entry where
  | start (t st : Nat) (cmds : List C')
  | msg (t stIn src m st : Nat) (cmds : List C')
  | timeout (t stIn k st : Nat) (cmds : List C')
  | random (t stIn r st : Nat) (cmds : List C')

def entry? : SExp → Option Entry
  | .list [.atom "start", t, st, cs] => do pure (.start (← t.nat?) (← st.nat?) (← cs.listOf? cmd?))
  | .list [.atom "msg", t, i, src, m, st, cs] => do
    pure (.msg (← t.nat?) (← i.nat?) (← src.nat?) (← m.nat?) (← st.nat?) (← cs.listOf? cmd?))
  | .list [.atom "timeout", t, i, k, st, cs] => do
    pure (.timeout (← t.nat?) (← i.nat?) (← k.nat?) (← st.nat?) (← cs.listOf? cmd?))
  | .list [.atom "random", t, i, r, st, cs] => do
    pure (.random (← t.nat?) (← i.nat?) (← r.nat?) (← st.nat?) (← cs.listOf? cmd?))
  | _ => none

def Entry.time : Entry → Nat
  | .start t _ _ => t | .msg t _ _ _ _ _ => t | .timeout t _ _ _ _ => t | .random t _ _ _ _ => t
def Entry.cmds : Entry → List C'
  | .start _ _ c => c | .msg _ _ _ _ _ c => c | .timeout _ _ _ _ c => c | .random _ _ _ _ c => c

/-- a datagram on the wire: send time, source, destination, payload -/
structure Dg where
  t : Nat
  src : Addr
  dst : Addr
  bytes : Bytes
deriving Repr

def dg? : SExp → Option Dg
  | .list [t, s, d, b] => do pure ⟨← t.nat?, ← addr? s, ← addr? d, ← bytes? b⟩
  | _ => none

structure ActorLog where
  id : Nat
  log : List Entry

def actor? : SExp → Option ActorLog
  | .list [id, es] => do pure ⟨← id.nat?, ← es.listOf? entry?⟩
  | _ => none

/-- datagrams an actor's logged commands must have produced (`C17_send_faithful`), stamped with the
time of the handler that issued them -/
def sendsOf (a : ActorLog) : List Dg :=
  a.log.flatMap fun e => e.cmds.filterMap fun c =>
    match c with
    | .send dst m => (serMsg m).map fun b => ⟨e.time, addrOf a.id, addrOf dst, b⟩
    | _ => none

/-- take the first element satisfying `p` out of a list -/
def takeFirst {α} (p : α → Bool) : List α → Option (α × List α)
  | [] => none
  | x :: r => if p x then some (x, r) else (takeFirst p r).map fun (y, r') => (y, x :: r')

/-- turn an actor's log into machine events, backing every `on_msg` by a datagram of the pool that
was really sent to this actor (earliest unused one from the claimed source that deserializes to the
claimed message and was sent no later than the handler ran) -/
def eventsOf (pool : List Dg) : List Entry → Nat → Except String (List E × List Dg)
  | [], _ => .ok ([], pool)
  | e :: r, i =>
    match e with
    | .start t st cs => do
      let (es, p) ← eventsOf pool r (i + 1)
      pure (.start t st cs :: es, p)
    | .timeout t si k st cs => do
      let (es, p) ← eventsOf pool r (i + 1)
      pure (.fire t (.timeout k) si st cs :: es, p)
    | .random t si x st cs => do
      let (es, p) ← eventsOf pool r (i + 1)
      pure (.fire t (.random x) si st cs :: es, p)
    | .msg t si src m st cs =>
      match takeFirst (fun d => idOf d.src == src && deMsg d.bytes == some m && d.t ≤ t) pool with
      | none => .error s!"on_msg-without-datagram entry={i} t={t} src={src} msg={m}"
      | some (d, pool') => do
        let (es, p) ← eventsOf pool' r (i + 1)
        pure (.msg t d.src d.bytes si st cs :: es, p)

/-- why the acceptance machine refused an event (diagnosis only; the verdict is `step = none`) -/
def whyRejected (C : Cfg Nat) (s : St Nat Nat Nat Nat) : E → String
  | .start t _ _ => if s.st.isSome then "on_start-twice" else if t < s.now then "clock-backwards" else "start-not-enabled"
  | .msg t _ _ si _ _ =>
    if s.st.isNone then "on_msg-before-on_start" else if s.st != some si then s!"state-not-threaded given={si} expected={s.st}"
    else if t < s.now then "clock-backwards" else "msg-not-enabled"
  | .fire t k si _ _ =>
    if s.st.isNone then "handler-before-on_start" else if s.st != some si then s!"state-not-threaded given={si} expected={s.st}"
    else if t < s.now then "clock-backwards"
    else match s.ints.find? (fun e => e.1 == k) with
      | none => "fired-while-not-armed"
      | some (_, d) =>
        if d ≥ t + C.never / 2 then s!"cancelled-timer-fired" else s!"fired-{d - t + 1}ns-before-lower-bound"
  | _ => "not-enabled"

/-- replay with diagnosis -/
def replay (C : Cfg Nat) : St Nat Nat Nat Nat → List E → Nat → Except String (St Nat Nat Nat Nat)
  | s, [], _ => .ok s
  | s, e :: es, i =>
    match step C s e with
    | some s' => replay C s' es (i + 1)
    | none => .error s!"rejected step={i} {whyRejected C s e}"

def dgKey (d : Dg) : String := s!"{addrStr d.src}>{addrStr d.dst}:{bytesStr d.bytes}"

/-- sorted with `List.mergeSort` (provable; `Array.qsort`'s worker is private in the core library) -/
def sortStrs (l : List String) : List String := l.mergeSort (fun a b => decide (a ≤ b))
def sortNats (l : List Nat) : List Nat := l.mergeSort (fun a b => decide (a ≤ b))

/-- multiset comparison of expected and observed datagrams, plus causality (observed no earlier than
the handler that sent it; k-th copy matched with k-th copy) -/
def compareOut (expected observed : List Dg) : Option String :=
  let ek := sortStrs (expected.map dgKey)
  let ok := sortStrs (observed.map dgKey)
  if ek != ok then
    let missing := ek.filter (fun k => ek.count k > ok.count k)
    let extra := ok.filter (fun k => ok.count k > ek.count k)
    some s!"datagrams-differ missing={missing.take 3} unexpected={extra.take 3}"
  else
    let bad := expected.any fun e =>
      let es := (expected.filter (fun x => dgKey x == dgKey e)).map (·.t)
      let os := (observed.filter (fun x => dgKey x == dgKey e)).map (·.t)
      ((sortNats es).zip (sortNats os)).any fun (a, b) => b < a
    if bad then some "datagram-observed-before-its-handler" else none

/-! ### the preconditions of the greedy matching (`Props/C17Match.lean`), as Bool functions -/

/-- Bool version of `List.Pairwise` -/
def pairwiseB {α : Type} (R : α → α → Bool) : List α → Bool
  | [] => true
  | a :: r => r.all (R a) && pairwiseB R r

/-- the key of a datagram as `eventsOf` sees it: source id and deserialized message -/
def sameKey (a b : Dg) : Bool := idOf a.src == idOf b.src && deMsg a.bytes == deMsg b.bytes

/-- same-key datagrams appear in the pool in send-time order -/
def poolOrdered (pool : List Dg) : Bool := pairwiseB (fun a b => !sameKey a b || decide (a.t ≤ b.t)) pool

/-- the log is time-ordered -/
def logOrdered (log : List Entry) : Bool := pairwiseB (fun e e' => decide (e.time ≤ e'.time)) log

/-- `on_start` runs after bind: the time of the first entry when that is `on_start`, else "never" -/
def tStartOf (log : List Entry) (tEnd : Nat) : Nat :=
  match log.head? with | some (.start t _ _) => t | _ => tEnd

/-- a datagram must be delivered if it parses, was sent after the destination socket was bound and long enough
before the end of the observation -/
def mustDeliver (tStart tEnd grace : Nat) (d : Dg) : Bool :=
  (deMsg d.bytes).isSome && d.t + grace ≤ tEnd && tStart ≤ d.t

/-- among same-key datagrams of the pool, one that must be delivered is never preceded by one that need not -/
def deadlineOrdered (tStart tEnd grace : Nat) (pool : List Dg) : Bool :=
  pairwiseB (fun a b => !sameKey a b || !mustDeliver tStart tEnd grace b || mustDeliver tStart tEnd grace a) pool

/-- no datagram of the pool was sent before the destination's `on_start` -/
def noEarly (tStart : Nat) (pool : List Dg) : Bool := pool.all fun d => decide (tStart ≤ d.t)

/-- stable partition of the pool: the datagrams that must be delivered first.  The greedy pass then prefers them,
which is safe (a datagram feasible for a receive stays feasible for every later same-key receive of a time-ordered
log) and makes `deadlineOrdered` hold by construction (`C17_oracle_normalise`) -/
def normalise (tStart tEnd grace : Nat) (pool : List Dg) : List Dg :=
  pool.filter (mustDeliver tStart tEnd grace) ++ pool.filter (fun d => !mustDeliver tStart tEnd grace d)

/-- the whole scenario: every actor's log is accepted, every `on_msg` is backed, every datagram the
machine says was sent to an observer port was observed there exactly once and nothing else was,
every deliverable datagram sent to an actor early enough was delivered exactly once -/
def checkScenario (actors : List ActorLog) (psent precv : List Dg) (observers : List Addr)
    (tEnd grace : Nat) : Option String :=
  let allSends := actors.flatMap sendsOf
  let rec go : List ActorLog → Nat → Option String
    | [], _ => none
    | a :: rest, i =>
      let me := addrOf a.id
      -- a datagram must be delivered if it parses, was sent after the destination socket was bound
      -- (on_start runs after bind) and long enough before the end of the observation
      let tStart := tStartOf a.log tEnd
      let pool := normalise tStart tEnd grace ((psent ++ allSends).filter (fun d => d.dst == me))
      match eventsOf pool a.log 0 with
      | .error e =>
        some (if logOrdered a.log then s!"actor={i} {e}" else s!"actor={i} log-not-time-ordered {e}")
      | .ok (evs, left) =>
        match replay (relax (cfgOf a.id)) init (expand evs) 0 with
        | .error e => some s!"actor={i} {e}"
        | .ok s =>
          let toObs := s.sent.filter (fun p => observers.contains p.1)
          let mine := (sendsOf a).filter (fun d => observers.contains d.dst)
          -- the machine's `sent` and the declarative `sendsOf` must agree (C17_send_faithful)
          if toObs.map (fun p => (p.1, p.2)) != mine.map (fun d => (d.dst, d.bytes)) then
            some s!"actor={i} internal-sent-mismatch"
          else
            match compareOut mine (precv.filter (fun d => d.src == me)) with
            | some e => some s!"actor={i} {e}"
            | none =>
              let undelivered := left.filter (mustDeliver tStart tEnd grace)
              if !a.log.isEmpty && !undelivered.isEmpty then
                some s!"actor={i} datagram-not-delivered n={undelivered.length} first={(undelivered.head?.map dgKey).getD ""}"
              else go rest (i + 1)
  go actors 0

/-- checksum of `idOf` over `n` consecutive ports and the number of exact round trips -/
def sweep (a b c d : Nat) : Nat → Nat → Nat → Nat → Nat × Nat
  | _, 0, h, ok => (h, ok)
  | p, n + 1, h, ok =>
    let id := idOf ⟨a, b, c, d, p⟩
    let back := addrOf id
    sweep a b c d (p + 1) n ((h * 1000003 + id) % 2147483647)
      (if back.o0 == a && back.o1 == b && back.o2 == c && back.o3 == d && back.port == p then ok + 1 else ok)

def handle : Drv.Handler
  | "codec-id", [a] => do
    let a ← addr? a
    pure (toString (idOf a))
  | "codec-addr", [id] => do
    let id ← id.nat?
    pure (addrStr (addrOf id))
  -- checksum of idOf over all ports lo..hi-1 of one ip (and of the round trip)
  | "codec-sweep", [ip, lo, hi] => do
    let ip ← ip.nats?
    let lo ← lo.nat?; let hi ← hi.nat?
    match ip with
    | [a, b, c, d] =>
      let r := sweep a b c d lo (hi - lo) 0 0
      pure s!"({r.1} {r.2})"
    | _ => none
  -- oracle: implementation's id for address a, and the address it maps back to
  | "o-codec", [a, id, back] => do
    let a ← addr? a; let id ← id.nat?; let back ← addr? back
    pure (if !decide a.Valid then "bad-input"
      else if id != idSpec a then "id-is-not-ip:port"
      else if !(id < 2 ^ 48) then "id-not-48-bit"
      else if back != a then "round-trip-addr-id-addr"
      else "ok")
  -- oracle: implementation's address for an arbitrary u64 id, and the id that address maps to
  | "o-codec-id", [id, a, id2] => do
    let id ← id.nat?; let a ← addr? a; let id2 ← id2.nat?
    pure (if !decide a.Valid then "address-out-of-range"
      else if idSpec a != id % 2 ^ 48 then "address-is-not-low-48-bits"
      else if id2 != id % 2 ^ 48 then "round-trip-id-addr-id"
      else "ok")
  -- model: the datagrams an actor's log says it sent to the observer addresses (sorted)
  | "loop-out", [a, obs] => do
    let a ← actor? a
    let obs ← obs.listOf? addr?
    let evs := a.log.map fun e => (match e with
      | .start t st cs => (Ev.start t st cs : E)
      | .msg t si src m st cs => .msg t (addrOf src) (77 :: (toString m).toList.map Char.toNat) si st cs
      | .timeout t si k st cs => .fire t (.timeout k) si st cs
      | .random t si x st cs => .fire t (.random x) si st cs)
    -- run the acceptance machine on the log; its `sent` is the prediction
    let sent ← (match run (relax (cfgOf a.id)) init (expand evs) with
      | some s => some s.sent
      | none => none) <|> some [(⟨999, 0, 0, 0, 0⟩, [])]
    let keys := (sent.filter (fun p => obs.contains p.1 || p.1.o0 == 999)).map fun p => s!"{addrStr p.1}:{bytesStr p.2}"
    pure (toString (SExp.list ((sortStrs keys).map SExp.atom)))
  | "o-trace", [acts, psent, precv, obs, tEnd, grace] => do
    let acts ← acts.listOf? actor?
    let psent ← psent.listOf? dg?
    let precv ← precv.listOf? dg?
    let obs ← obs.listOf? addr?
    let tEnd ← tEnd.nat?; let grace ← grace.nat?
    pure (match checkScenario acts psent precv obs tEnd grace with
      | none => "ok"
      | some e => e)
  | _, _ => none

end SR.Drv.C17
