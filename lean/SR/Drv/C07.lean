import SR.Drv.Loop
import SR.Actor.Codec
/-! Driver commands for C07.
Model side: `net-run` (a network object under a sequence of send/deliver/drop groups, observed through `len`,
`iter_all`, `iter_deliverable` and its representation after every group), `traces` (all maximal action
sequences of a small actor system, depth-bounded).
Oracle side: `o-net` — the REFERENCE SEMANTICS: plain histories of what was sent / delivered / dropped per
flow or envelope; the implementation's observations after every group must be what the histories say. -/
namespace SR.Drv.C07
open SR SR.Actor SR.Actor.Codec

def op? : SExp → Option NetOp
  | .list [.atom "s", s, d, m] => do pure (.send ⟨← s.nat?, ← d.nat?, ← m.nat?⟩)
  | .list [.atom "d", s, d, m] => do pure (.deliver ⟨← s.nat?, ← d.nat?, ← m.nat?⟩)
  | .list [.atom "x", s, d, m] => do pure (.drop ⟨← s.nat?, ← d.nat?, ← m.nat?⟩)
  | _ => none

def envLe (a b : Env) : Bool := a == b || Env.lt a b
def sortEnvs (l : List Env) : List Env := l.mergeSort envLe

/-- what the harness reads off a network: representation, `len()`, `iter_all()`, `iter_deliverable()`
(iteration order is meaningful for the ordered network only; the others are sorted on both sides) -/
def observe (n : Net) : SExp :=
  let fix := fun l => if n.isOrdered then l else sortEnvs l
  .list [ofNet n, SExp.ofNat n.len, SExp.ofList ofEnv (fix n.iterAll), SExp.ofList ofEnv (fix n.iterDeliverable)]

def runGroups (n : Net) : List (List NetOp) → List String
  | [] => []
  | g :: gs =>
    match g.foldl (fun (acc : Option Net) op => acc.bind (·.apply op)) (some n) with
    | none => ["panic"]
    | some n' => toString (observe n') :: runGroups n' gs

/-! ### all maximal action sequences, depth-first, sorted actions, at most `cap` sequences -/

partial def tracesFrom (sys : USys) (depth : Nat) (st : USt) (pre : List Action) (cap : Nat)
    (acc : Array (List Action)) : Array (List Action) :=
  if acc.size ≥ cap then acc else
  let nexts := (sortActions (actions sys st)).filterMap (fun a =>
    match step sys st a with | .next s' => some (a, s') | _ => none)
  if depth = 0 || nexts.isEmpty then acc.push pre.reverse
  else nexts.foldl (fun acc (a, s') => tracesFrom sys (depth - 1) s' (a :: pre) cap acc) acc

/-! ### reference semantics -/

structure Obs where
  net : Net
  len : Nat
  all : List Env
  deliverable : List Env
  acts : Option (List Action)

def obs? : List SExp → Option Obs
  | [net, len, all, del, acts] => do
    let acts ← match acts with
      | .atom "-" => pure none
      | a => (a.listOf? action?).map some
    pure { net := ← net? net, len := ← len.nat?, all := ← all.listOf? env?, deliverable := ← del.listOf? env?, acts := acts }
  | _ => none

/-- the history: initial envelopes (in send order) followed by all ops so far -/
abbrev Hist' := List NetOp

def isOn (e : Env) : NetOp → Bool
  | .send x | .deliver x | .drop x => x == e

def onFlow (f : Nat × Nat) : NetOp → Bool
  | .send x | .deliver x | .drop x => (x.src, x.dst) == f

/-- ordered: queue of flow `f` = everything sent on `f`, minus as many as were delivered-or-dropped, in order -/
def refQueue (h : Hist') (f : Nat × Nat) : List Nat :=
  let sent := h.filterMap (fun | .send x => if (x.src, x.dst) == f then some x.msg else none | _ => none)
  let removed := (h.filter (fun op => onFlow f op && (match op with | .send _ => false | _ => true))).length
  sent.drop removed

/-- non-duplicating: copies of `e` = sent − delivered − dropped (`none` if that would be negative) -/
def refCount (h : Hist') (e : Env) : Option Nat :=
  let sent := (h.filter (fun op => op == .send e)).length
  let gone := (h.filter (fun op => op == .deliver e || op == .drop e)).length
  if gone ≤ sent then some (sent - gone) else none

/-- duplicating: `e` is in flight iff the last send-or-drop of `e` is a send -/
def refPresent (h : Hist') (e : Env) : Bool :=
  match (h.filter (fun op => op == .send e || op == .drop e)).getLast? with
  | some (.send _) => true
  | _ => false

def envsOf (h : Hist') : List Env :=
  (h.map (fun | .send x | .deliver x | .drop x => x)).eraseDups

/-- reference contents (sorted; for the ordered network by flow, queue order inside a flow) -/
def refContents (kind : String) (h : Hist') : Option (List Env) :=
  let envs := sortEnvs (envsOf h)
  match kind with
  | "d" => some (envs.filter (refPresent h))
  | "n" => envs.foldr (fun e acc => do
      let c ← refCount h e; let rest ← acc; pure (List.replicate c e ++ rest)) (some [])
  | _ =>
    let flows := (envs.map (fun e => (e.src, e.dst))).eraseDups
    some (flows.flatMap (fun f => (refQueue h f).map (fun m => ⟨f.1, f.2, m⟩)))

/-- reference deliverable envelopes: present envelopes / envelopes with a copy left / flow heads -/
def refDeliverable (kind : String) (h : Hist') : List Env :=
  let envs := sortEnvs (envsOf h)
  match kind with
  | "d" => envs.filter (refPresent h)
  | "n" => envs.filter (fun e => match refCount h e with | some c => c > 0 | none => false)
  | _ =>
    let flows := (envs.map (fun e => (e.src, e.dst))).eraseDups
    flows.filterMap (fun f => (refQueue h f).head?.map (fun m => ⟨f.1, f.2, m⟩))

def isPerm (a b : List Env) : Bool := sortEnvs a == sortEnvs b

def lastDelivered (h : Hist') (init : Option Env) : Option Env :=
  match (h.filterMap (fun | .deliver x => some x | _ => none)).getLast? with
  | some e => some e
  | none => init

def canonical : Net → Bool
  | .dup set _ => set.eraseDups.length == set.length
  | .nondup ms => ms.all (fun p => p.2 ≥ 1) && (ms.map (·.1)).eraseDups.length == ms.length
  | .ord fs => fs.all (fun p => !p.2.isEmpty) && (fs.map (·.1)).eraseDups.length == fs.length

def checkObs (kind : String) (nActors : Nat) (lossy : Bool) (last0 : Option Env) (h : Hist') (o : Obs) : Option String := do
  let some ref := refContents kind h | some "more deliveries/drops than sends of an envelope"
  let del := refDeliverable kind h
  if !canonical o.net then some "representation not canonical (empty queue / zero count / duplicate key)"
  else if kind == "o" && o.net.contents != ref then some s!"contents {SExp.ofList ofEnv o.net.contents} but reference {SExp.ofList ofEnv ref}"
  else if !isPerm o.net.contents ref then some s!"contents {SExp.ofList ofEnv o.net.contents} but reference {SExp.ofList ofEnv ref}"
  else if o.len != ref.length then some s!"len {o.len} but {ref.length} in flight"
  else if kind == "o" && o.all != ref then some s!"iter_all {SExp.ofList ofEnv o.all} but reference {SExp.ofList ofEnv ref}"
  else if !isPerm o.all ref then some s!"iter_all {SExp.ofList ofEnv o.all} but reference {SExp.ofList ofEnv ref}"
  else if !isPerm o.deliverable del then some s!"iter_deliverable {SExp.ofList ofEnv o.deliverable} but reference {SExp.ofList ofEnv del}"
  else if kind == "d" && (match o.net with | .dup _ l => l != lastDelivered h last0 | _ => true) then some "last_msg is not the last delivered envelope"
  else match o.acts with
    | none => none
    | some acts =>
      let netActs := acts.filter (fun | .deliver _ | .drop _ => true | _ => false)
      let expDel := (del.filter (fun e => e.dst < nActors)).map Action.deliver
      let expDrop := if lossy then del.map Action.drop else []
      if sortActions netActs != sortActions (expDel ++ expDrop) then
        some s!"offered network actions {SExp.ofList ofAction netActs} but reference {SExp.ofList ofAction (sortActions (expDel ++ expDrop))}"
      else none

/-- an op of a group must be admissible on the reference state before it -/
def checkOp (kind : String) (h : Hist') : NetOp → Option String
  | .send _ => none
  | .deliver e => if (refDeliverable kind h).contains e then none else some s!"delivered {ofEnv e} which is not deliverable in the reference semantics"
  | .drop e => if (refDeliverable kind h).contains e then none else some s!"dropped {ofEnv e} which is not deliverable in the reference semantics"

def oNet (kind : String) (nActors : Nat) (lossy : Bool) (last0 : Option Env) (h0 : Hist') (steps : List (List NetOp × Obs)) : String := Id.run do
  let mut h := h0
  let mut k := 0
  for (ops, o) in steps do
    for op in ops do
      match checkOp kind h op with
      | some err => return s!"step {k}: {err}"
      | none => pure ()
      h := h ++ [op]
    match checkObs kind nActors lossy last0 h o with
    | some err => return s!"step {k}: {err}"
    | none => pure ()
    k := k + 1
  return "ok"

def handle : Drv.Handler
  | "net-run", [.atom kind, envs, last, groups] => do
    let envs ← envs.listOf? env?
    let last ← SExp.optOf? env? last
    let n ← mkNet kind envs last
    let groups ← groups.listOf? (SExp.listOf? op?)
    pure (" ".intercalate (toString (observe n) :: runGroups n groups))
  | "traces", [sys, depth, cap] => do
    let sys ← sys? sys; let depth ← depth.nat?; let cap ← cap.nat?
    match init sys with
    | none => pure "panic"
    | some st0 =>
      let ts := tracesFrom sys depth st0 [] cap #[]
      pure (toString (SExp.list (ts.toList.map (fun t => SExp.list (t.map ofAction)))))
  | "o-net", [.atom kind, nActors, lossy, envs, last, steps] => do
    let envs ← envs.listOf? env?
    let last ← SExp.optOf? env? last
    let steps ← steps.listOf? (fun
      | .list (ops :: rest) => do pure (← ops.listOf? op?, ← obs? rest)
      | _ => none)
    pure (oNet kind (← nActors.nat?) (← lossy.bool?) last (envs.map NetOp.send) steps)
  | _, _ => none

end SR.Drv.C07
