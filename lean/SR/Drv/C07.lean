import SR.Drv.Loop
/-! Driver commands for C07 (stub). -/
namespace SR.Drv.C07
def handle : Drv.Handler
  | _, _ => none
end SR.Drv.C07
