import SR.Drv.Loop
/-! Driver commands for C13 (stub). -/
namespace SR.Drv.C13
def handle : Drv.Handler
  | _, _ => none
end SR.Drv.C13
