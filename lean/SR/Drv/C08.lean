import SR.Drv.Loop
/-! Driver commands for C08 (stub). -/
namespace SR.Drv.C08
def handle : Drv.Handler
  | _, _ => none
end SR.Drv.C08
