import SR.Drv.Sem
/-! Driver commands for C08: `lin-run` (model), `o-ser lin`, `o-res` (oracles); see `SR/Drv/Sem.lean`. -/
namespace SR.Drv.C08
def handle : Drv.Handler := SR.Drv.Sem.handle
end SR.Drv.C08
