import SR.Drv.Loop
import SR.Market.Machine
/-! Driver commands for C05, job market part.

`mk-run K TC (event ...)`  — model side: replays an observed schedule on the market machine and answers with
the result of every event (what `pop` returned, the caller's deque after `split_and_push`, `is_closed`,
`is_shut_down`). Which waiting worker a `notify_one` wakes is the implementation's choice: it is read off
the `wake` events that follow and checked for admissibility by the machine (`picksOk`); a step the machine
does not admit answers `!disabled`.

`o-mk K TC (event ...) (result ...)` — oracle side: the observable content of the C05 market theorems
evaluated on the IMPLEMENTATION's results alone, with no reference to `open_count` or the batch structure:
jobs are conserved and never duplicated, nobody sleeps while a job is on the market or while nobody else is
awake, a stop reaches everybody.

events: `(xpush t ...)` `(pop w)` `(wake w)` `(push w n)` `(split w)` `(work w c t ...)` `(drop w)` `(xdrop)`
`(clone)` `(closed)` `(shut)` `(tfire)`;  results: `park` | `(t ...)` | `t` | `f` | `-`. -/
namespace SR.Drv.C05
open SR SR.Market

inductive Ev where
  | xpush (toks : List Nat)
  | pop (w : Nat)
  | wake (w : Nat)
  | push (w n : Nat)
  | split (w : Nat)
  | work (w c : Nat) (fresh : List Nat)
  | drop (w : Nat)
  | xdrop
  | clone
  | closed
  | shut
  | tfire
deriving Repr, Inhabited

def evOf? : SExp → Option Ev
  | .list (.atom "xpush" :: ts) => (ts.mapM SExp.nat?).map .xpush
  | .list [.atom "pop", w] => w.nat?.map .pop
  | .list [.atom "wake", w] => w.nat?.map .wake
  | .list [.atom "push", w, n] => do pure (.push (← w.nat?) (← n.nat?))
  | .list [.atom "split", w] => w.nat?.map .split
  | .list (.atom "work" :: w :: c :: ts) => do pure (.work (← w.nat?) (← c.nat?) (← ts.mapM SExp.nat?))
  | .list [.atom "drop", w] => w.nat?.map .drop
  | .list [.atom "xdrop"] => some .xdrop
  | .list [.atom "clone"] => some .clone
  | .list [.atom "closed"] => some .closed
  | .list [.atom "shut"] => some .shut
  | .list [.atom "tfire"] => some .tfire
  | _ => none

def toksStr (l : List Nat) : String := toString (SExp.ofNats l)

/-- workers of the `wake` events that directly follow -/
def followingWakes : List Ev → List Nat
  | .wake w :: rest => w :: followingWakes rest
  | _ => []

def popResStr : Option PopRes → String
  | some (.got b) => toksStr b
  | some .empty => "()"
  | some .park => "park"
  | none => "-"

/-- a notified worker that has not run its wake step yet -/
def pendingWake (s : MState) : Bool := s.pcs.contains (.parked true)

/-- replay; answers one result per event, and the final state -/
def replay : MState → List Ev → List String × MState
  | s, [] => ([], s)
  | s, e :: rest =>
    let picks := followingWakes rest
    -- a notified worker must have woken before anybody else acts
    let late : Bool := match e with
      | .wake _ => false
      | _ => pendingWake s
    let cont (r : String) (s' : MState) : List String × MState :=
      let (rs, sf) := replay s' rest
      (r :: rs, sf)
    let go (m : Step) (show_ : MState → Option PopRes → String) : List String × MState :=
      match stepR s m with
      | none => cont "!disabled" s
      | some (s', r) => cont (if late then "!unwoken" else show_ s' r) s'
    match e with
    | .xpush toks => go (.xpush toks (if s.isOpen then picks else [])) (fun _ _ => "-")
    | .pop w => go (.popBegin w) (fun _ r => popResStr r)
    | .wake w =>
      -- the implementation has no spurious wake-ups (parking_lot): a wake must have been notified
      if s.pcs[w]? == some (.parked true) then go (.wake w) (fun _ r => popResStr r)
      else cont "!spurious" s
    | .push w n => go (.push w n (if s.isOpen then picks else [])) (fun _ _ => "-")
    | .split w => go (.split w (if s.isOpen then picks else [])) (fun s' _ => toksStr (s'.locs.getD w []))
    | .work w c fresh => go (.work w c fresh) (fun _ _ => "-")
    | .drop w => go (.drop w) (fun _ _ => "-")
    | .xdrop => go .xdrop (fun _ _ => "-")
    | .tfire => go .timeoutFire (fun _ _ => "-")
    | .clone => cont (if late then "!unwoken" else "-") s
    | .closed => cont (if late then "!unwoken" else bstr (isClosed s)) s
    | .shut => cont (if late then "!unwoken" else bstr (isShutDown s)) s

/-! ### oracle: bookkeeping over observations only -/

structure Obs where
  market : List Nat := []          -- jobs handed to the market and not handed out yet (multiset)
  emptyBatches : Nat := 0
  locs : List (List Nat)
  parked : List Nat := []
  exited : List Nat := []
  created : List Nat := []
  shutSeen : Bool := false         -- an `is_shut_down()` probe answered true
  dropSeen : Bool := false         -- some clone was dropped
  mustWake : List Nat := []        -- workers that were asleep when a clone was dropped and have not woken yet

def eraseAll? (l : List Nat) : List Nat → Option (List Nat)
  | [] => some l
  | t :: ts => if l.contains t then eraseAll? (l.erase t) ts else none

def resToks? : SExp → Option (List Nat) := SExp.nats?

def awake (o : Obs) (k : Nat) : List Nat :=
  (List.range k).filter fun w => !o.parked.contains w && !o.exited.contains w

/-- checks at the end of a sequence that the harness has drained (it popped every batch it knew of) -/
def oracleEnd (o : Obs) : Option String :=
  if !o.mustWake.isEmpty then some "a-worker-asleep-at-a-stop-never-woke"
  else if !o.shutSeen && !o.dropSeen && !o.market.isEmpty then some "jobs-left-on-an-open-market-after-drain"
  else none

/-- the bookkeeping oracle.  PRECONDITION (proved necessary: `C05_oracle_rejects_undisciplined_run`,
`C05_oracle_rejects_tc_gt_k`; under it every run of the model is accepted: `C05_oracle_accepts_model_runs_partial`):
`tc ≤ k`, and the trace logs `(shut)` (or `tfire` / `drop` / `xdrop` / `closed = t`) before any `xpush` / `push` / `split`
on a market that has closed — `Session::run_op` of the harness logs `(shut)` right after the operation that changed
the answer. -/
def oracle (k : Nat) : Obs → List Ev → List SExp → Except String Obs
  | o, [], [] => .ok o
  | _, [], _ => .error "malformed"
  | _, _, [] => .error "malformed"
  | o, e :: es, r :: rs =>
    let closedKnown := o.shutSeen || o.dropSeen
    let active (w : Nat) : Bool := w < k && !o.parked.contains w && !o.exited.contains w
    -- a worker may only act when awake; sleepers of a drop must wake before anything else happens
    let pre : Option String := match e with
      | .wake w => if o.parked.contains w then none else some "wake-of-a-worker-that-was-not-asleep"
      | .pop w | .push w _ | .split w | .work w _ _ | .drop w =>
        if !active w then some "harness:inactive-worker-acts"
        else if !o.mustWake.isEmpty then some "a-worker-asleep-at-a-stop-did-not-wake"
        else none
      | _ => if !o.mustWake.isEmpty then some "a-worker-asleep-at-a-stop-did-not-wake" else none
    match pre with
    | some err => .error err
    | none =>
    let popLike (w : Nat) (isWake : Bool) : Except String Obs :=
      let o := { o with parked := o.parked.erase w, mustWake := o.mustWake.erase w }
      match r with
      | .atom "park" =>
        if !o.market.isEmpty then .error "worker-sleeps-while-jobs-are-on-the-market"
        else if o.emptyBatches > 0 then .error "worker-sleeps-while-a-batch-is-on-the-market"
        else if (awake o k).all (· == w) then .error "everybody-asleep:nobody-left-to-wake-them"
        else if !isWake && closedKnown then .error "pop-sleeps-on-a-closed-market"
        else oracle k { o with parked := w :: o.parked } es rs
      | r =>
        match resToks? r with
        | none => .error "malformed-result"
        | some [] =>
          oracle k { o with emptyBatches := o.emptyBatches - 1 } es rs
        | some b =>
          if o.dropSeen then .error "jobs-handed-out-after-a-drop"
          else if !isWake && o.shutSeen then .error "pop-hands-out-jobs-on-a-closed-market"
          else match eraseAll? o.market b with
            | none => .error "job-handed-out-that-is-not-on-the-market(duplicated-or-invented)"
            | some m' =>
              oracle k { o with market := m', locs := o.locs.set w (o.locs.getD w [] ++ b) } es rs
    match e with
    | .xpush toks =>
      if toks.any (o.created.contains ·) then .error "harness:token-reused"
      else
        let o := { o with created := toks ++ o.created }
        if closedKnown then oracle k o es rs
        else if toks.isEmpty then oracle k { o with emptyBatches := o.emptyBatches + 1 } es rs
        else oracle k { o with market := toks ++ o.market } es rs
    | .pop w => popLike w false
    | .wake w => popLike w true
    | .push w n =>
      let loc := o.locs.getD w []
      let o' := { o with locs := o.locs.set w (loc.drop n) }
      if closedKnown then oracle k o' es rs
      else if (loc.take n).isEmpty then oracle k { o' with emptyBatches := o'.emptyBatches + 1 } es rs
      else oracle k { o' with market := loc.take n ++ o'.market } es rs
    | .split w =>
      match resToks? r with
      | none => .error "malformed-result"
      | some after =>
        let loc := o.locs.getD w []
        if closedKnown then
          if after.isEmpty then oracle k { o with locs := o.locs.set w [] } es rs
          else .error "split-on-a-closed-market-kept-jobs"
        -- conservation only: WHICH jobs a split keeps (today the front of the queue) is not part of C05
        else match eraseAll? loc after with
          | none => .error "split-invented-or-duplicated-jobs"
          | some rest => oracle k { o with locs := o.locs.set w after, market := rest ++ o.market } es rs
    | .work w c fresh =>
      if fresh.any (o.created.contains ·) then .error "harness:token-reused"
      else
        let loc := o.locs.getD w []
        oracle k { o with locs := o.locs.set w (fresh ++ loc.take (loc.length - c)), created := fresh ++ o.created } es rs
    | .drop w =>
      oracle k { o with exited := w :: o.exited, locs := o.locs.set w [], dropSeen := true, market := [],
                        emptyBatches := 0, mustWake := o.parked } es rs
    | .xdrop =>
      oracle k { o with dropSeen := true, market := [], emptyBatches := 0, mustWake := o.parked } es rs
    | .tfire => oracle k { o with shutSeen := true } es rs
    | .clone => oracle k o es rs
    | .closed =>
      match r.bool? with
      | none => .error "malformed-result"
      | some b =>
        -- closed means: shut down, nothing on the market (and all counted workers gone)
        if b && !(o.market.isEmpty && o.emptyBatches == 0) then .error "is_closed-with-jobs-on-the-market"
        else if b then oracle k { o with shutSeen := true } es rs
        else oracle k o es rs
    | .shut =>
      match r.bool? with
      | none => .error "malformed-result"
      | some b =>
        if !b && closedKnown then .error "market-reopened-or-stop-not-visible"
        else if b && !closedKnown then
          -- closed by the last active worker: legitimate only if nobody is left asleep un-notified
          -- with jobs around; from now on nothing may be handed out by `pop`
          if !o.market.isEmpty then .error "closed-by-last-worker-with-jobs-on-the-market"
          else oracle k { o with shutSeen := true, mustWake := o.parked } es rs
        else oracle k o es rs

/-! ### exhaustive enumeration for K = 2 (no choice in `notify_one`: at most one worker can be waiting)

The harness runs EVERY sequence over a small alphabet (in the order below) on the real market and sums a
hash of each observed trace; `mk-exh` makes the model enumerate the same sequences itself and answers with
the same digest. (Sequences up to a smaller length are, in addition, validated one by one with `mk-run`.) -/

def fnv0 : UInt64 := 14695981039346656037
def fnv (h : UInt64) (s : String) : UInt64 :=
  s.foldl (fun h c => (h ^^^ c.toNat.toUInt64) * 1099511628211) h

structure EnumSt where
  s : MState
  next : Nat
  extras : Nat
  lastShut : Bool
  h : UInt64

inductive HOp where
  | xpush | pop (w : Nat) | split (w : Nat) | work (w : Nat) | drop (w : Nat) | xdrop

def workersWith (s : MState) (p : Pc) : List Nat :=
  (List.range s.pcs.length).filter fun i => s.pcs[i]? == some p

/-- the alphabet, in the harness's order (`enabled_ops(.., small = true)`) -/
def hops (e : EnumSt) : List HOp :=
  [HOp.xpush] ++ (workersWith e.s .running).flatMap (fun w => [.pop w, .split w, .work w, .drop w])
    ++ (if e.extras > 0 then [HOp.xdrop] else [])

def stepPicks (s : MState) (mk : List Nat → Step) : Option (MState × Option PopRes) :=
  match stepR s (mk (workersWith s (.parked false))) with
  | some r => some r
  | none => stepR s (mk [])

def item (h : UInt64) (ev res : String) : UInt64 := fnv h (ev ++ "=" ++ res ++ ";")

/-- every notified worker runs its wake step (K = 2: there is at most one) -/
def cascade : Nat → MState → UInt64 → MState × UInt64
  | 0, s, h => (s, h)
  | f + 1, s, h =>
    match workersWith s (.parked true) with
    | [] => (s, h)
    | v :: _ =>
      match stepR s (.wake v) with
      | some (s', r) => cascade f s' (item h s!"(wake {v})" (popResStr r))
      | none => (s, h)

/-- one operation as the harness performs it: the call, the wake-ups it causes, the `is_shut_down` probe
    (logged when its answer changes) -/
def applyH (e : EnumSt) (op : HOp) : EnumSt :=
  let n := e.next
  let (ev, r, next, extras) : String × Option (MState × String) × Nat × Nat := match op with
    | .xpush => (s!"(xpush {n} {n+1})", (stepPicks e.s (.xpush [n, n+1])).map (fun x => (x.1, "-")), n + 2, e.extras)
    | .pop w => (s!"(pop {w})", (stepR e.s (.popBegin w)).map (fun x => (x.1, popResStr x.2)), n, e.extras)
    | .split w => (s!"(split {w})", (stepPicks e.s (.split w)).map (fun x => (x.1, toksStr (x.1.locs.getD w []))), n, e.extras)
    | .work w => (s!"(work {w} 1 {n} {n+1})", (stepR e.s (.work w 1 [n, n+1])).map (fun x => (x.1, "-")), n + 2, e.extras)
    | .drop w => (s!"(drop {w})", (stepR e.s (.drop w)).map (fun x => (x.1, "-")), n, e.extras)
    | .xdrop => ("(xdrop)", (stepR e.s .xdrop).map (fun x => (x.1, "-")), n, e.extras - 1)
  match r with
  | none => { e with h := item e.h ev "!disabled", next := next, extras := extras }
  | some (s', res) =>
    let (s'', h) := cascade 4 s' (item e.h ev res)
    let b := isShutDown s''
    let h := if b != e.lastShut then item h "(shut)" (bstr b) else h
    { s := s'', next := next, extras := extras, lastShut := b, h := h }

/-- end of a sequence: pop every batch, then the two probes -/
def tailH : Nat → EnumSt → UInt64
  | 0, e => e.h
  | f + 1, e =>
    match e.s.isOpen && !e.s.batches.isEmpty, workersWith e.s .running with
    | true, r :: _ => tailH f (applyH e (.pop r))
    | _, _ => item (item e.h "(shut)" (bstr (isShutDown e.s))) "(closed)" (bstr (isClosed e.s))

/-- (sum of the trace hashes, number) of all sequences that extend `e` by 1..d operations -/
def enumAll : Nat → EnumSt → UInt64 × Nat
  | 0, _ => (0, 0)
  | d + 1, e =>
    (hops e).foldl (fun acc op =>
      let e' := applyH e op
      let (s2, c2) := enumAll d e'
      (acc.1 + tailH 64 e' + s2, acc.2 + 1 + c2)) (0, 0)

def enumFrom (k tc depth first : Nat) : String :=
  let e0 : EnumSt := { s := init k tc, next := 1, extras := 1, lastShut := false, h := fnv0 }
  match (hops e0)[first]? with
  | none => "no-such-op"
  | some op =>
    let e1 := applyH e0 op
    let (s, c) := enumAll (depth - 1) e1
    s!"{(s + tailH 64 e1).toNat} {c + 1}"

def handle : Drv.Handler
  | "mk-run", [k, tc, evs] => do
    let k ← k.nat?; let tc ← tc.nat?
    let evs ← evs.listOf? evOf?
    pure ("(" ++ " ".intercalate (replay (init k tc) evs).1 ++ ")")
  | "o-mk", [k, _tc, evs, rs] => do
    let k ← k.nat?
    let evs ← evs.listOf? evOf?
    let rs ← rs.list?
    pure (match oracle k { locs := List.replicate k [] } evs rs with
      | .error err => err
      | .ok o => (oracleEnd o).getD "ok")
  | "mk-exh", [k, tc, depth, first] => do
    pure (enumFrom (← k.nat?) (← tc.nat?) (← depth.nat?) (← first.nat?))
  | _, _ => none

end SR.Drv.C05
