import SR.Drv.Loop
/-! Driver commands for C05 (stub). -/
namespace SR.Drv.C05
def handle : Drv.Handler
  | _, _ => none
end SR.Drv.C05
