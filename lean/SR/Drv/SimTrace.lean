import SR.Drv.Chk
import SR.Checker.MSim
/-!
Driver command `tvsim`: TRACE VALIDATION of a real multi-threaded `spawn_simulation` run against the machine of
`Checker/MSim.lean`.

The harness (`harness/src/bin/tvsim.rs`) runs the simulation checker with 1–4 threads with the trace hooks on (`TR_SIM_*`
of src/verif.rs; while tracing, every read of the shared `discoveries` map / `state_count` that decides something and
every write to them is serialised with its entry, so the order of the entries is the order of the operations).  This
command replays the entries as steps of the machine: every entry must be an ENABLED step whose observable outcome is
the recorded one (which way the top of the loop went, whether the read of the shared map found a discovery, whether the
evaluation inserted one, which successor was chosen / that none was left, which bits the recording loop found set, why
the worker left), the steps without an entry (`finishProps` when something is awaited, recording-loop iterations that
insert nothing) are filled in, and at the end every worker must be gone.  The answer is the machine's final count and
shared map, to be compared with what the checker reports.

`tvsim <k> <graph> <props> (cfg <depth> <target> <finish> [<timeout t|f>]) <rep or none> (<w> <kind> <a> <b>)*`
(worker 99999 = a thread that is not a worker)
-/
namespace SR.Drv.SimTrace
open SR SR.Checker SR.Checker.MSim SR.Drv.Chk

structure Ev where
  w : Nat
  kind : Nat
  a : Nat
  b : Nat

def Ev.ofSExp? : SExp → Option Ev
  | .list [w, k, a, b] => do pure { w := ← w.nat?, kind := ← k.nat?, a := ← a.nat?, b := ← b.nat? }
  | _ => none

abbrev R := Except String
abbrev S := MSim.St Nat Nat

variable (P : Params Nat Nat Nat)

def stepE (x : S) (f : Step Nat) : R S :=
  match MSim.step P f x with
  | some x' => pure x'
  | none => throw s!"step not enabled in the model: {repr f}"

def trOf (x : S) (w : Nat) : Option (Tr Nat Nat) :=
  match x.ws[w]? with
  | some (.busy t) => some t
  | _ => none

def phStr : Ph → String
  | .top => "top-of-loop"
  | .props i => s!"property-loop-at-{i}"
  | .decide i => s!"evaluating-{i}"
  | .choose => "choosing-a-successor"
  | .record i => s!"recording-loop-at-{i}"

def wStr (x : S) (w : Nat) : String :=
  match x.ws[w]? with
  | some .idle => "between-traces"
  | some (.busy t) => phStr t.ph
  | some .ended => "trace-ended"
  | some .left => "gone"
  | none => "no-such-worker"

/-- the steps of worker `w` that have no entry: fill them in -/
def fill (x : S) (w : Nat) : Nat → R S
  | 0 => pure x
  | fuel + 1 =>
    match trOf x w with
    | none => pure x
    | some t =>
      match t.ph with
      | .props i =>
        if i < P.props.length ∨ !t.awaiting then pure x
        else do let x' ← stepE P x (.finishProps w); fill x' w fuel
      | .record i =>
        if i < P.props.length ∧ i ∉ t.ebits then do let x' ← stepE P x (.recordOne w i); fill x' w fuel
        else pure x
      | _ => pure x

def fuelOf : Nat := P.props.length + 3

/-- the step of a worker inside a trace, with the effect the model computes for it -/
def busyE (x : S) (f : Step Nat) : R (Eff Nat Nat × S) :=
  match effOf P f x with
  | none => throw s!"step not enabled in the model: {repr f} (worker is {wStr x f.worker})"
  | some e => do let x' ← stepE P x f; pure (e, x')

def isEnded (x : S) (w : Nat) : Bool :=
  match x.ws[w]? with
  | some .ended => true
  | _ => false

/-- `if c then throw (msg ()) else k` -/
def check (c : Bool) (msg : Unit → String) (k : R S) : R S := if c then throw (msg ()) else k

def oneStart (x : S) (e : Ev) : R S := stepE P x (.start e.w e.a)

/-- `TR_SIM_ENTER` and the `TR_SIM_END` entries 1 (loop found), 3 (depth limit), 4 (outside the boundary): the four ways
    through the top of the loop -/
def oneEnter (x : S) (e : Ev) (want : EnterOut) : R S :=
  match trOf x e.w with
  | none => throw s!"top of the trace loop, but worker {e.w} is {wStr x e.w} in the model"
  | some t =>
    let got := enterOut P t
    let len := if want == .counted || want == .loop then t.path.length + 1 else t.path.length
    check (t.ph != .top) (fun _ => s!"top of the trace loop, but worker {e.w} is {wStr x e.w} in the model") <|
    check (got != want) (fun _ => s!"top of the trace loop at state {t.cur}: model {repr got}, implementation {repr want}") <|
    check (want == .counted && t.cur != e.a) (fun _ => s!"state entered: model {t.cur}, implementation {e.a}") <|
    check (len != e.b) (fun _ => s!"path length: model {len}, implementation {e.b}") <|
    stepE P x (.enter e.w)

/-- `TR_PROP i 0` (read: discovered) and `TR_SIM_MISS i` (read: not discovered) -/
def oneRead (x : S) (e : Ev) (hit : Bool) : R S :=
  let known := hasDisc x.disc e.a
  check (known != hit) (fun _ => s!"property {e.a}: the shared map {if known then "has a" else "has no"} discovery in the model, the implementation read the opposite") <|
  stepE P x (.evalProp e.w e.a)

/-- `TR_PROP i 1` (evaluated, discovery inserted) and `TR_PROP i 2` (evaluated, nothing inserted) -/
def oneApply (x : S) (e : Ev) (inserted : Bool) : R S :=
  match busyE P x (.applyProp e.w e.a) with
  | .error m => .error m
  | .ok (eff, x') =>
    check (eff.ins.isSome != inserted) (fun _ => s!"property {e.a}: discovery inserted in the model = {eff.ins.isSome}, in the implementation = {inserted}") <|
    pure x'

def oneEndProps (x : S) (e : Ev) : R S :=
  match stepE P x (.finishProps e.w) with
  | .error m => .error m
  | .ok x' =>
    check (!isEnded x' e.w) (fun _ => "the trace ended for `everything discovered`, in the model something is still awaited") <|
    pure x'

def oneNext (x : S) (e : Ev) : R S :=
  match fill P x e.w (fuelOf P) with
  | .error m => .error m
  | .ok x => stepE P x (.advance e.w (some e.a))

def oneTerminal (x : S) (e : Ev) : R S :=
  match fill P x e.w (fuelOf P) with
  | .error m => .error m
  | .ok x =>
    match trOf x e.w with
    | some t =>
      check (t.path.length != e.b) (fun _ => s!"path length: model {t.path.length}, implementation {e.b}") <|
      stepE P x (.advance e.w none)
    | none => throw s!"no action left, but worker {e.w} is {wStr x e.w} in the model"

def oneRecord (x : S) (e : Ev) : R S :=
  match fill P x e.w (fuelOf P) with
  | .error m => .error m
  | .ok x =>
    match busyE P x (.recordOne e.w e.a) with
    | .error m => .error m
    | .ok (eff, x') =>
      check eff.ins.isNone (fun _ => s!"recording loop: the implementation inserts property {e.a}, its bit is not set in the model") <|
      pure x'

def oneDone (x : S) (e : Ev) : R S :=
  match fill P x e.w (fuelOf P) with
  | .error m => .error m
  | .ok x => stepE P x (.endTrace e.w)

def oneCut (x : S) (e : Ev) : R S :=
  match trOf x e.w with
  | some t =>
    check (t.path.length != e.b) (fun _ => s!"path length: model {t.path.length}, implementation {e.b}") <|
    stepE P x (.cut e.w)
  | none => throw s!"shutdown seen inside a trace, but worker {e.w} is {wStr x e.w} in the model"

def one (x : S) (e : Ev) : R S :=
  match e.kind with
  | 40 => oneStart P x e
  | 41 => oneEnter P x e .counted
  | 42 => oneRead P x e false
  | 21 =>
    match e.b with
    | 0 => oneRead P x e true
    | 1 => oneApply P x e true
    | 2 => oneApply P x e false
    | _ => throw "unknown property outcome"
  | 43 => oneNext P x e
  | 44 =>
    match e.a with
    | 1 => oneEnter P x e .loop
    | 2 => oneTerminal P x e
    | 3 => oneEnter P x e .depth
    | 4 => oneEnter P x e .outside
    | 5 => oneEndProps P x e
    | 6 => oneCut P x e
    | _ => throw "unknown end-of-trace reason"
  | 23 => oneRecord P x e
  | 45 => oneDone P x e
  | 46 =>
    match e.a with
    | 1 => stepE P x (.leave e.w .finish)
    | 2 => stepE P x (.leave e.w .target)
    | 3 => stepE P x (.leave e.w .shutdown)
    | _ => throw "unknown reason to leave"
  | 47 => stepE P x (.cont e.w)
  | 48 => if e.a == 0 then stepE P x .timeout else stepE P x (.panic e.w)
  | _ => throw s!"unknown entry kind {e.kind}"

def replay : S → Nat → List Ev → R S
  | x, _, [] => pure x
  | x, i, e :: es =>
    match one P x e with
    | .ok x' => replay x' (i + 1) es
    | .error msg => throw s!"entry {i} (worker {e.w} kind {e.kind} {e.a} {e.b}): {msg}"

/-- `(cfg depth target finish)` as in the other checker commands, with an optional fourth field: a timeout is configured -/
def parseCfgT : SExp → Option (Cfg × Finish)
  | .list [c, d, t, f] => parseCfg (.list [c, d, t, f])
  | .list [c, d, t, f, to] => do
    let (cfg, fin) ← parseCfg (.list [c, d, t, f])
    let to ← to.bool?
    pure ({ cfg with timeout := to }, fin)
  | _ => none

def showResult (x : S) : String :=
  let disc := x.disc.mergeSort (fun a b => a.1 ≤ b.1)
  let discS := "(" ++ " ".intercalate (disc.map fun (i, p) => s!"({i} {natsStr p})") ++ ")"
  s!"(count {x.stateCount}) (disc {discS})"

def handle : Drv.Handler
  | "tvsim", (k :: g :: ps :: cfg :: rep :: evs) => do
    let k ← k.nat?
    let g ← Graph.ofSExp? g
    let ps ← ps.listOf? GProp.ofSExp?
    let (cfg, fin) ← parseCfgT cfg
    let rep ← match rep with
      | .atom "none" => some none
      | r => r.nats?.map some
    let evs ← evs.mapM Ev.ofSExp?
    let c : Case := { g, props := ps, cfg, finish := fin }
    let P : Params Nat Nat Nat := match rep with
      | none => c.params
      | some rep => { c.params with key := fun s => rep.getD s s }
    match replay P (MSim.init k) 0 evs with
    | .error msg => pure s!"mismatch {msg}"
    | .ok x =>
      if !allLeft x then
        let still := (List.range k).filter fun w => match x.ws[w]? with | some .left => false | _ => true
        pure s!"mismatch the trace is over, workers {still} have not left in the model"
      else pure (showResult x)
  | _, _ => none

/-! ### The validator only ever performs steps of the machine: an accepted trace is a run of `MSim` -/

/-- `x` is the state of some run of the machine from `x0` -/
def IsRun (x0 x : S) : Prop := ∃ fs : List (Step Nat), x = MSim.runFrom P x0 fs

theorem isRun_refl (x0 : S) : IsRun P x0 x0 := ⟨[], rfl⟩

theorem runFrom_snoc (fs : List (Step Nat)) : ∀ (x : S) (f : Step Nat) (x' : S),
    MSim.step P f (MSim.runFrom P x fs) = some x' → MSim.runFrom P x (fs ++ [f]) = x' := by
  induction fs with
  | nil => intro x f x' h; simp only [MSim.runFrom] at h; simp only [List.nil_append, MSim.runFrom, h]
  | cons g gs ih =>
    intro x f x' h
    simp only [List.cons_append, MSim.runFrom] at h ⊢
    cases hg : MSim.step P g x with
    | none => rw [hg] at h; simp only at h ⊢; exact ih x f x' h
    | some y => rw [hg] at h; simp only at h ⊢; exact ih y f x' h

theorem isRun_stepE {x0 x x' : S} {f : Step Nat} (hx : IsRun P x0 x) (h : stepE P x f = .ok x') : IsRun P x0 x' := by
  obtain ⟨fs, rfl⟩ := hx
  unfold stepE at h
  cases hf : MSim.step P f (MSim.runFrom P x0 fs) with
  | none => rw [hf] at h; cases h
  | some y =>
    rw [hf] at h
    have : y = x' := by simpa [pure, Except.pure] using h
    subst this
    exact ⟨fs ++ [f], (runFrom_snoc P fs x0 f y hf).symm⟩

theorem bind_ok {α β : Type} {m : R α} {f : α → R β} {b : β} (h : (m >>= f) = .ok b) :
    ∃ a, m = .ok a ∧ f a = .ok b := by
  cases m with
  | error e => simp [bind, Except.bind] at h
  | ok a => exact ⟨a, rfl, by simpa [bind, Except.bind] using h⟩

theorem throw_ne_ok {α : Type} {e : String} {a : α} (h : (throw e : R α) = .ok a) : False := by cases h

theorem isRun_fill {x0 : S} (w : Nat) : ∀ (fuel : Nat) (x x' : S), IsRun P x0 x → fill P x w fuel = .ok x' →
    IsRun P x0 x' := by
  intro fuel
  induction fuel with
  | zero => intro x x' hx h; simp only [fill, pure, Except.pure, Except.ok.injEq] at h; exact h ▸ hx
  | succ fuel ih =>
    intro x x' hx h
    unfold fill at h
    split at h
    · simp only [pure, Except.pure, Except.ok.injEq] at h; exact h ▸ hx
    · split at h
      · split at h
        · simp only [pure, Except.pure, Except.ok.injEq] at h; exact h ▸ hx
        · obtain ⟨y, hy, h'⟩ := bind_ok h
          exact ih y x' (isRun_stepE P hx hy) h'
      · split at h
        · obtain ⟨y, hy, h'⟩ := bind_ok h
          exact ih y x' (isRun_stepE P hx hy) h'
        · simp only [pure, Except.pure, Except.ok.injEq] at h; exact h ▸ hx
      · simp only [pure, Except.pure, Except.ok.injEq] at h; exact h ▸ hx

theorem isRun_busyE {x0 x x' : S} {f : Step Nat} {e : Eff Nat Nat} (hx : IsRun P x0 x)
    (h : busyE P x f = .ok (e, x')) : IsRun P x0 x' := by
  unfold busyE at h
  split at h
  · exact (throw_ne_ok h).elim
  · obtain ⟨y, hy, h'⟩ := bind_ok h
    simp only [pure, Except.pure, Except.ok.injEq, Prod.mk.injEq] at h'
    exact h'.2 ▸ isRun_stepE P hx hy

theorem check_ok {c : Bool} {msg : Unit → String} {k : R S} {x : S} (h : check c msg k = .ok x) : k = .ok x := by
  unfold check at h
  split at h
  · exact (throw_ne_ok h).elim
  · exact h

theorem pure_ok {x y : S} (h : (pure x : R S) = .ok y) : x = y := by
  simpa [pure, Except.pure] using h

theorem isRun_oneEnter {x0 x x' : S} (e : Ev) (want : EnterOut) (hx : IsRun P x0 x)
    (h : oneEnter P x e want = .ok x') : IsRun P x0 x' := by
  unfold oneEnter at h
  split at h
  · exact (throw_ne_ok h).elim
  · exact isRun_stepE P hx (check_ok (check_ok (check_ok (check_ok h))))

theorem isRun_oneRead {x0 x x' : S} (e : Ev) (hit : Bool) (hx : IsRun P x0 x)
    (h : oneRead P x e hit = .ok x') : IsRun P x0 x' := by
  unfold oneRead at h
  exact isRun_stepE P hx (check_ok h)

theorem isRun_oneApply {x0 x x' : S} (e : Ev) (ins : Bool) (hx : IsRun P x0 x)
    (h : oneApply P x e ins = .ok x') : IsRun P x0 x' := by
  unfold oneApply at h
  split at h
  · cases h
  · rename_i eff y hy
    exact pure_ok (check_ok h) ▸ isRun_busyE P hx hy

theorem isRun_oneEndProps {x0 x x' : S} (e : Ev) (hx : IsRun P x0 x)
    (h : oneEndProps P x e = .ok x') : IsRun P x0 x' := by
  unfold oneEndProps at h
  split at h
  · cases h
  · rename_i y hy
    exact pure_ok (check_ok h) ▸ isRun_stepE P hx hy

theorem isRun_oneNext {x0 x x' : S} (e : Ev) (hx : IsRun P x0 x)
    (h : oneNext P x e = .ok x') : IsRun P x0 x' := by
  unfold oneNext at h
  split at h
  · cases h
  · rename_i y hy
    exact isRun_stepE P (isRun_fill P _ _ _ _ hx hy) h

theorem isRun_oneTerminal {x0 x x' : S} (e : Ev) (hx : IsRun P x0 x)
    (h : oneTerminal P x e = .ok x') : IsRun P x0 x' := by
  unfold oneTerminal at h
  split at h
  · cases h
  · rename_i y hy
    split at h
    · exact isRun_stepE P (isRun_fill P _ _ _ _ hx hy) (check_ok h)
    · exact (throw_ne_ok h).elim

theorem isRun_oneRecord {x0 x x' : S} (e : Ev) (hx : IsRun P x0 x)
    (h : oneRecord P x e = .ok x') : IsRun P x0 x' := by
  unfold oneRecord at h
  split at h
  · cases h
  · rename_i y hy
    split at h
    · cases h
    · rename_i eff z hz
      exact pure_ok (check_ok h) ▸ isRun_busyE P (isRun_fill P _ _ _ _ hx hy) hz

theorem isRun_oneDone {x0 x x' : S} (e : Ev) (hx : IsRun P x0 x)
    (h : oneDone P x e = .ok x') : IsRun P x0 x' := by
  unfold oneDone at h
  split at h
  · cases h
  · rename_i y hy
    exact isRun_stepE P (isRun_fill P _ _ _ _ hx hy) h

theorem isRun_oneCut {x0 x x' : S} (e : Ev) (hx : IsRun P x0 x)
    (h : oneCut P x e = .ok x') : IsRun P x0 x' := by
  unfold oneCut at h
  split at h
  · exact isRun_stepE P hx (check_ok h)
  · exact (throw_ne_ok h).elim

theorem isRun_one {x0 x x' : S} (e : Ev) (hx : IsRun P x0 x) (h : one P x e = .ok x') : IsRun P x0 x' := by
  unfold one at h
  split at h
  · exact isRun_stepE P hx h
  · exact isRun_oneEnter P e _ hx h
  · exact isRun_oneRead P e _ hx h
  · split at h
    · exact isRun_oneRead P e _ hx h
    · exact isRun_oneApply P e _ hx h
    · exact isRun_oneApply P e _ hx h
    · exact (throw_ne_ok h).elim
  · exact isRun_oneNext P e hx h
  · split at h
    · exact isRun_oneEnter P e _ hx h
    · exact isRun_oneTerminal P e hx h
    · exact isRun_oneEnter P e _ hx h
    · exact isRun_oneEnter P e _ hx h
    · exact isRun_oneEndProps P e hx h
    · exact isRun_oneCut P e hx h
    · exact (throw_ne_ok h).elim
  · exact isRun_oneRecord P e hx h
  · exact isRun_oneDone P e hx h
  · split at h
    · exact isRun_stepE P hx h
    · exact isRun_stepE P hx h
    · exact isRun_stepE P hx h
    · exact (throw_ne_ok h).elim
  · exact isRun_stepE P hx h
  · split at h
    · exact isRun_stepE P hx h
    · exact isRun_stepE P hx h
  · exact (throw_ne_ok h).elim

theorem isRun_replay {x0 : S} (es : List Ev) : ∀ (x x' : S) (i : Nat),
    IsRun P x0 x → replay P x i es = .ok x' → IsRun P x0 x' := by
  induction es with
  | nil => intro x x' i hx h; simp only [replay, pure, Except.pure, Except.ok.injEq] at h; subst h; exact hx
  | cons e es ih =>
    intro x x' i hx h
    simp only [replay] at h
    split at h
    · rename_i x1 h1; exact ih x1 x' (i + 1) (isRun_one P e hx h1) h
    · exact (throw_ne_ok h).elim

end SR.Drv.SimTrace
