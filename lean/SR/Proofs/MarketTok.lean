import SR.Proofs.Market2
/-! Job part of the market invariant: conservation of tokens while the market is open. -/
namespace SR.Market

/-- the part of the invariant that concerns jobs -/
structure TInv (s : MState) : Prop where
  nodup : s.created.Nodup
  cons : s.isOpen = true → ∀ t, (tokensIn s).count t + s.consumed.count t = s.created.count t

theorem popLoop_tinv (s0 : MState) (w : Nat) (hw : w < s0.locs.length) (h : TInv s0) :
    TInv (popLoop s0 w).1 := by
  unfold popLoop
  split
  · rename_i b rest hb
    refine ⟨h.nodup, ?_⟩
    intro ho t
    have hc := h.cons ho t
    have hs := count_flatten_set t s0.locs w (s0.locs.getD w [] ++ b) hw
    simp only [tokensIn, hb, List.flatten_cons, List.count_append] at hc hs ⊢
    omega
  · simp only
    split
    · exact ⟨h.nodup, fun ho => by simp at ho⟩
    · exact ⟨h.nodup, h.cons⟩

theorem tinv_step {s s' : MState} {m : Step} (hp : PInv s) (h : TInv s) (hs : step s m = some s') :
    TInv s' := by
  unfold step at hs
  cases m with
  | popBegin w =>
    simp only [stepR] at hs
    split at hs
    · rename_i hw
      obtain ⟨hwl, _⟩ := List.getElem?_eq_some_iff.1 hw
      split at hs
      · simp at hs; subst hs; exact h
      · simp at hs; subst hs
        exact popLoop_tinv s w (hp.wf ▸ hwl) h
    · simp at hs
  | wake w =>
    simp only [stepR] at hs
    split at hs
    · rename_i b hw
      obtain ⟨hwl, _⟩ := List.getElem?_eq_some_iff.1 hw
      simp at hs; subst hs
      exact popLoop_tinv { s with openCount := s.openCount + 1 } w (hp.wf ▸ hwl) ⟨h.nodup, h.cons⟩
    · simp at hs
  | push w n picks =>
    simp only [stepR] at hs
    split at hs
    · rename_i hw
      obtain ⟨hwl, _⟩ := List.getElem?_eq_some_iff.1 hw
      have hwl : w < s.locs.length := hp.wf ▸ hwl
      split at hs
      · rename_i hc
        split at hs
        · simp at hs; subst hs; exact ⟨h.nodup, fun ho => by simp_all⟩
        · simp at hs
      · rename_i ho
        split at hs
        · simp at hs; subst hs
          refine ⟨h.nodup, fun ho t => ?_⟩
          have hc := h.cons (by simpa using ho) t
          have hs := count_flatten_set t s.locs w ((s.locs.getD w []).drop n) hwl
          have htd := count_take_add_drop t n (s.locs.getD w [])
          simp only [tokensIn, List.flatten_cons, List.count_append, List.getD_eq_getElem?_getD] at hc hs htd ⊢
          omega
        · simp at hs
    · simp at hs
  | xpush toks picks =>
    simp only [stepR] at hs
    split at hs
    · rename_i hf
      split at hs
      · split at hs
        · simp at hs; subst hs; exact ⟨nodup_fresh hf h.nodup, fun ho => by simp_all⟩
        · simp at hs
      · rename_i ho
        split at hs
        · simp at hs; subst hs
          refine ⟨nodup_fresh hf h.nodup, fun ho t => ?_⟩
          have hc := h.cons (by simpa using ho) t
          simp only [tokensIn, List.flatten_cons, List.count_append] at hc ⊢
          omega
        · simp at hs
    · simp at hs
  | split w picks =>
    simp only [stepR] at hs
    split at hs
    · rename_i hw
      obtain ⟨hwl, _⟩ := List.getElem?_eq_some_iff.1 hw
      have hwl : w < s.locs.length := hp.wf ▸ hwl
      split at hs
      · split at hs
        · simp at hs; subst hs; exact ⟨h.nodup, fun ho => by simp_all⟩
        · simp at hs
      · rename_i ho
        split at hs
        · simp at hs; subst hs
          refine ⟨h.nodup, fun ho t => ?_⟩
          have hc := h.cons (by simpa using ho) t
          have hsl := count_splitLoop t (splitPieces s (s.locs.getD w []).length - 1)
            (splitSize s (s.locs.getD w []).length) (s.locs.getD w []) s.batches
          have hs := count_flatten_set t s.locs w
            (splitLoop (splitPieces s (s.locs.getD w []).length - 1)
              (splitSize s (s.locs.getD w []).length) (s.locs.getD w []) s.batches).1 hwl
          simp only [tokensIn, List.count_append, List.getD_eq_getElem?_getD] at hc hs hsl ⊢
          omega
        · simp at hs
    · simp at hs
  | work w c fresh =>
    simp only [stepR] at hs
    split at hs
    · rename_i hw
      simp only [Bool.and_eq_true, decide_eq_true_eq] at hw
      obtain ⟨hw, hf⟩ := hw
      obtain ⟨hwl, _⟩ := List.getElem?_eq_some_iff.1 hw
      have hwl : w < s.locs.length := hp.wf ▸ hwl
      simp at hs; subst hs
      refine ⟨nodup_fresh hf h.nodup, fun ho t => ?_⟩
      have hc := h.cons ho t
      have hs := count_flatten_set t s.locs w
        (fresh ++ (s.locs.getD w []).take ((s.locs.getD w []).length - c)) hwl
      have htd := count_take_add_drop t ((s.locs.getD w []).length - c) (s.locs.getD w [])
      simp only [tokensIn, List.count_append, List.getD_eq_getElem?_getD] at hc hs htd ⊢
      omega
    · simp at hs
  | rearrange w l =>
    simp only [stepR] at hs
    split at hs
    · rename_i hw
      simp only [Bool.and_eq_true, decide_eq_true_eq, List.isPerm_iff] at hw
      obtain ⟨hw, hperm⟩ := hw
      obtain ⟨hwl, _⟩ := List.getElem?_eq_some_iff.1 hw
      have hwl : w < s.locs.length := hp.wf ▸ hwl
      simp at hs; subst hs
      refine ⟨h.nodup, fun ho t => ?_⟩
      have hc := h.cons ho t
      have hs := count_flatten_set t s.locs w l hwl
      have hpc := hperm.count_eq t
      simp only [tokensIn, List.count_append, List.getD_eq_getElem?_getD] at hc hs hpc ⊢
      omega
    · simp at hs
  | drop w =>
    simp only [stepR] at hs
    split at hs
    · simp at hs; subst hs; exact ⟨h.nodup, fun ho => by simp [dropMarket] at ho⟩
    · simp at hs
  | xdrop =>
    simp [stepR] at hs; subst hs; exact ⟨h.nodup, fun ho => by simp [dropMarket] at ho⟩
  | timeoutFire =>
    simp [stepR] at hs; subst hs; exact ⟨h.nodup, fun ho => by simp at ho⟩

end SR.Market
