import SR.Runtime.System
import SR.Proofs.ActorActions
/-!
Helper lemmas for `Props/C17Refine.lean`: the system-level runtime (`SR/Runtime/System.lean`) refines the actor model
(`SR/Actor/Sys.lean`) over the unordered, duplicating, lossy network, for the message / timer fragment.

* sorted duplicate-free lists over a strict total order are canonical (`sorted_ext`), so the model's set
  representation (`sins` / `srem`) of a runtime multiset depends on its members only (`mkSet_congr`);
* `execCmds` (the loop over `on_command`) component by component: the sends are appended to the datagrams in
  flight, the armed timers are the fold of the model's `applyTimerCmd`;
* `abs_finish`: the abstraction after a handler call of a started thread, in the shape of `specNext`;
* `model_deliver / model_timeout / model_drop`: the model's `step` from an abstraction (through `step_eq_specStep`);
* one lemma per runtime label (`refines_tick / start / lose / deliver_keep / fire`), `deliver_consume`
  (a consuming delivery = a duplicating delivery followed by `lose`), then `refines_step`, `refines_path`.
-/
namespace SR.RtSys
open SR SR.Actor SR.Loop

/-! ### sorted duplicate-free lists are canonical -/
section sorted
variable {α : Type} [DecidableEq α]

structure StrictTotal (lt : α → α → Bool) : Prop where
  irrefl : ∀ a, lt a a = false
  trans : ∀ a b c, lt a b = true → lt b c = true → lt a c = true
  total : ∀ a b, lt a b = false → a ≠ b → lt b a = true

def Sorted (lt : α → α → Bool) (l : List α) : Prop := l.Pairwise (fun a b => lt a b = true)

theorem sorted_sinsRaw {lt : α → α → Bool} (h : StrictTotal lt) {a : α} {l : List α} (hs : Sorted lt l)
    (ha : a ∉ l) : Sorted lt (sinsRaw lt a l) := by
  induction l with
  | nil => simp [sinsRaw, Sorted]
  | cons b l ih =>
    have hb := List.pairwise_cons.1 hs
    unfold sinsRaw
    split
    · rename_i hab
      refine List.pairwise_cons.2 ⟨?_, hs⟩
      intro x hx
      rcases List.mem_cons.1 hx with rfl | hx
      · exact hab
      · exact h.trans _ _ _ hab (hb.1 x hx)
    · rename_i hab
      have hne : a ≠ b := fun e => ha (e ▸ List.mem_cons_self)
      have hba : lt b a = true := h.total a b (by simpa using hab) hne
      refine List.pairwise_cons.2 ⟨?_, ih hb.2 (fun h' => ha (List.mem_cons_of_mem _ h'))⟩
      intro x hx
      rcases (mem_sinsRaw lt a x l).1 hx with rfl | hx
      · exact hba
      · exact hb.1 x hx

theorem sorted_sins {lt : α → α → Bool} (h : StrictTotal lt) (a : α) {l : List α} (hs : Sorted lt l) :
    Sorted lt (sins lt a l) := by
  unfold sins
  split
  · exact hs
  · exact sorted_sinsRaw h hs ‹_›

theorem sorted_srem {lt : α → α → Bool} (a : α) {l : List α} (hs : Sorted lt l) : Sorted lt (srem a l) := by
  unfold srem Sorted; exact List.Pairwise.filter _ hs

omit [DecidableEq α] in
theorem sorted_ext {lt : α → α → Bool} (h : StrictTotal lt) {l1 l2 : List α} (h1 : Sorted lt l1)
    (h2 : Sorted lt l2) (hm : ∀ x, x ∈ l1 ↔ x ∈ l2) : l1 = l2 := by
  induction l1 generalizing l2 with
  | nil =>
    cases l2 with
    | nil => rfl
    | cons b l2 => exact absurd ((hm b).2 List.mem_cons_self) (by simp)
  | cons a l1 ih =>
    cases l2 with
    | nil => exact absurd ((hm a).1 List.mem_cons_self) (by simp)
    | cons b l2 =>
      have ha := List.pairwise_cons.1 h1
      have hb := List.pairwise_cons.1 h2
      have hab : a = b := by
        rcases List.mem_cons.1 ((hm a).1 List.mem_cons_self) with e | hin
        · exact e
        · rcases List.mem_cons.1 ((hm b).2 List.mem_cons_self) with e | hin'
          · exact e.symm
          · have x1 := hb.1 a hin
            have x2 := ha.1 b hin'
            have := h.trans _ _ _ x1 x2
            rw [h.irrefl] at this; cases this
      subst hab
      have hna1 : a ∉ l1 := fun hin => by have := ha.1 a hin; rw [h.irrefl] at this; cases this
      have hna2 : a ∉ l2 := fun hin => by have := hb.1 a hin; rw [h.irrefl] at this; cases this
      congr 1
      apply ih ha.2 hb.2
      intro x
      constructor
      · intro hx
        rcases List.mem_cons.1 ((hm x).1 (List.mem_cons_of_mem _ hx)) with e | h'
        · subst e; exact absurd hx hna1
        · exact h'
      · intro hx
        rcases List.mem_cons.1 ((hm x).2 (List.mem_cons_of_mem _ hx)) with e | h'
        · subst e; exact absurd hx hna2
        · exact h'

theorem foldl_sins_sorted {lt : α → α → Bool} (h : StrictTotal lt) (es : List α) {l : List α} (hs : Sorted lt l) :
    Sorted lt (es.foldl (fun acc a => sins lt a acc) l) := by
  induction es generalizing l with
  | nil => exact hs
  | cons e es ih => exact ih (sorted_sins h e hs)

theorem mem_foldl_sins (lt : α → α → Bool) (es : List α) (l : List α) (x : α) :
    x ∈ es.foldl (fun acc a => sins lt a acc) l ↔ x ∈ l ∨ x ∈ es := by
  induction es generalizing l with
  | nil => simp
  | cons e es ih => rw [List.foldl_cons, ih, mem_sins]; simp only [List.mem_cons]; grind

theorem nodup_foldl_sins (lt : α → α → Bool) (es : List α) {l : List α} (hn : l.Nodup) :
    (es.foldl (fun acc a => sins lt a acc) l).Nodup := by
  induction es generalizing l with
  | nil => exact hn
  | cons e es ih => exact ih (nodup_sins lt e l hn)

theorem sorted_mkSet {lt : α → α → Bool} (h : StrictTotal lt) (l : List α) : Sorted lt (mkSet lt l) :=
  foldl_sins_sorted h l List.Pairwise.nil

theorem mem_mkSet (lt : α → α → Bool) (l : List α) (x : α) : x ∈ mkSet lt l ↔ x ∈ l := by
  simp [mkSet, mem_foldl_sins]

theorem nodup_mkSet (lt : α → α → Bool) (l : List α) : (mkSet lt l).Nodup :=
  nodup_foldl_sins lt l List.nodup_nil

/-- a set built from a list is determined by the members of the list -/
theorem mkSet_congr {lt : α → α → Bool} (h : StrictTotal lt) {l1 l2 : List α} (hm : ∀ x, x ∈ l1 ↔ x ∈ l2) :
    mkSet lt l1 = mkSet lt l2 :=
  sorted_ext h (sorted_mkSet h l1) (sorted_mkSet h l2) (fun x => by rw [mem_mkSet, mem_mkSet, hm])

theorem foldl_sins_mkSet (lt : α → α → Bool) (l es : List α) :
    es.foldl (fun acc a => sins lt a acc) (mkSet lt l) = mkSet lt (l ++ es) := by
  simp [mkSet, List.foldl_append]

theorem sins_mkSet {lt : α → α → Bool} (h : StrictTotal lt) (a : α) (l l' : List α)
    (hm : ∀ x, x ∈ l' ↔ x = a ∨ x ∈ l) : sins lt a (mkSet lt l) = mkSet lt l' :=
  sorted_ext h (sorted_sins h a (sorted_mkSet h l)) (sorted_mkSet h l')
    (fun x => by rw [mem_sins, mem_mkSet, mem_mkSet, hm])

theorem srem_mkSet {lt : α → α → Bool} (h : StrictTotal lt) (a : α) (l l' : List α)
    (hm : ∀ x, x ∈ l' ↔ x ∈ l ∧ x ≠ a) : srem a (mkSet lt l) = mkSet lt l' :=
  sorted_ext h (sorted_srem a (sorted_mkSet h l)) (sorted_mkSet h l')
    (fun x => by rw [mem_srem, mem_mkSet, mem_mkSet, hm])

end sorted

theorem strictTotal_natLt : StrictTotal natLt := by
  constructor
  · intro a; simp [natLt]
  · intro a b c; simp only [natLt, decide_eq_true_eq]; omega
  · intro a b; simp only [natLt, decide_eq_false_iff_not, decide_eq_true_eq]; omega

theorem strictTotal_envLt : StrictTotal Env.lt := by
  constructor
  · intro a; simp [Env.lt]
  · intro a b c
    obtain ⟨a1, a2, a3⟩ := a; obtain ⟨b1, b2, b3⟩ := b; obtain ⟨c1, c2, c3⟩ := c
    simp only [Env.lt, Bool.or_eq_true, Bool.and_eq_true, decide_eq_true_eq, beq_iff_eq]
    omega
  · intro a b
    obtain ⟨a1, a2, a3⟩ := a; obtain ⟨b1, b2, b3⟩ := b
    simp only [Env.lt, Bool.or_eq_false_iff, Bool.and_eq_false_iff, Bool.or_eq_true, Bool.and_eq_true,
      decide_eq_true_eq, decide_eq_false_iff_not, beq_iff_eq, ne_eq, Env.mk.injEq, beq_eq_false_iff_ne]
    omega

theorem mem_setInt_iff {ints : Ints} {k : Key} {v : Nat} {en : Key × Nat} :
    en ∈ setInt ints k v ↔ en = (k, v) ∨ (en ∈ ints ∧ en.1 ≠ k) := by
  unfold setInt
  split
  · rename_i hany
    obtain ⟨e0, he0, hk0⟩ := List.any_eq_true.1 hany
    have hk0 : e0.1 = k := by simpa using hk0
    simp only [List.mem_map]
    constructor
    · rintro ⟨e, he, rfl⟩
      by_cases hk : e.1 = k
      · simp [hk]
      · simp [hk, he]
    · rintro (rfl | ⟨he, hk⟩)
      · exact ⟨e0, he0, by simp [hk0]⟩
      · exact ⟨en, he, by simp [hk]⟩
  · rename_i hany
    have hno : ∀ e ∈ ints, e.1 ≠ k := by
      intro e he hk
      exact hany (List.any_eq_true.2 ⟨e, he, by simpa using hk⟩)
    simp only [List.mem_append, List.mem_singleton]
    constructor
    · rintro (he | rfl)
      · exact Or.inr ⟨he, hno _ he⟩
      · exact Or.inl rfl
    · rintro (rfl | ⟨he, _⟩)
      · exact Or.inr rfl
      · exact Or.inl he

theorem mem_modInt_iff {ints : Ints} {k : Key} {v : Nat} {en : Key × Nat} :
    en ∈ modInt ints k v ↔ (en = (k, v) ∧ ∃ d, (k, d) ∈ ints) ∨ (en ∈ ints ∧ en.1 ≠ k) := by
  unfold modInt
  simp only [List.mem_map]
  constructor
  · rintro ⟨e, he, rfl⟩
    by_cases hk : e.1 = k
    · left; simp only [hk, if_true, true_and]; exact ⟨e.2, by rw [← hk]; exact he⟩
    · right; simp [hk, he]
  · rintro (⟨rfl, d, hd⟩ | ⟨he, hk⟩)
    · exact ⟨(k, d), hd, by simp⟩
    · exact ⟨en, he, by simp [hk]⟩

theorem mem_eraseInt_iff {ints : Ints} {k : Key} {en : Key × Nat} :
    en ∈ eraseInt ints k ↔ en ∈ ints ∧ en.1 ≠ k := by
  simp [eraseInt, List.mem_filter]

theorem mem_armed {ints : Ints} {t : Nat} : t ∈ armed ints ↔ ∃ d, (Key.timeout t, d) ∈ ints ∧ d < never := by
  unfold armed
  simp only [List.mem_filterMap]
  constructor
  · rintro ⟨⟨k, d⟩, he, h⟩
    cases k with
    | timeout t' =>
      simp only at h
      split at h
      · cases h; exact ⟨d, he, ‹_›⟩
      · cases h
    | random r => simp at h
  · rintro ⟨d, he, hd⟩
    exact ⟨(.timeout t, d), he, by simp [hd]⟩

/-- the interrupts hold `Timeout` keys only -/
def TKeys (ints : Ints) : Prop := ∀ en ∈ ints, ∃ t, en.1 = Key.timeout t

def NoChoose (cmds : List Cmd) : Prop := ∀ c ∈ cmds, isChoose c = false

theorem execCmds_flight (i now : Nat) (cmds : List Cmd) (ps : List Nat) (L : Loc) :
    (execCmds i now cmds ps L).flight = L.flight ++ sendsOf i cmds := by
  induction cmds generalizing ps L with
  | nil => simp [execCmds, sendsOf]
  | cons c cs ih =>
    rw [execCmds, ih]
    cases c <;> simp [execCmd, sendsOf]
    · rename_i k vals; cases vals <;> simp

theorem execCmd_tkeys {i now p : Nat} {c : Cmd} {L : Loc} (hc : isChoose c = false) (hk : TKeys L.ints) :
    TKeys (execCmd i now L p c).ints := by
  cases c with
  | send d m => exact hk
  | setTimer t =>
    intro en hen
    rcases mem_setInt_iff.1 hen with rfl | ⟨h, _⟩
    · exact ⟨t, rfl⟩
    · exact hk en h
  | cancelTimer t =>
    intro en hen
    rcases mem_modInt_iff.1 hen with ⟨rfl, _⟩ | ⟨h, _⟩
    · exact ⟨t, rfl⟩
    · exact hk en h
  | chooseRandom k vals => simp [isChoose] at hc

theorem execCmds_tkeys {i now : Nat} {cmds : List Cmd} {ps : List Nat} {L : Loc} (hc : NoChoose cmds)
    (hk : TKeys L.ints) : TKeys (execCmds i now cmds ps L).ints := by
  induction cmds generalizing ps L with
  | nil => exact hk
  | cons c cs ih =>
    rw [execCmds]
    exact ih (fun c' h => hc c' (List.mem_cons_of_mem _ h)) (execCmd_tkeys (hc c List.mem_cons_self) hk)


theorem armed_execCmd {i now p : Nat} {c : Cmd} {L : Loc} (hc : isChoose c = false) (hp : now + p < never) :
    mkSet natLt (armed (execCmd i now L p c).ints) = applyTimerCmd (mkSet natLt (armed L.ints)) c := by
  cases c with
  | send d m => rfl
  | chooseRandom k vals => simp [isChoose] at hc
  | setTimer t =>
    simp only [execCmd, applyTimerCmd]
    symm
    apply sins_mkSet strictTotal_natLt
    intro x
    simp only [mem_armed, mem_setInt_iff]
    constructor
    · rintro ⟨d, (he | ⟨he, hk⟩), hd⟩
      · cases he; exact Or.inl rfl
      · exact Or.inr ⟨d, he, hd⟩
    · rintro (rfl | ⟨d, he, hd⟩)
      · exact ⟨now + p, Or.inl rfl, hp⟩
      · by_cases hx : x = t
        · subst hx; exact ⟨now + p, Or.inl rfl, hp⟩
        · exact ⟨d, Or.inr ⟨he, by simpa using hx⟩, hd⟩
  | cancelTimer t =>
    simp only [execCmd, applyTimerCmd]
    symm
    apply srem_mkSet strictTotal_natLt
    intro x
    simp only [mem_armed, mem_modInt_iff]
    constructor
    · rintro ⟨d, (⟨he, _⟩ | ⟨he, hk⟩), hd⟩
      · cases he; omega
      · exact ⟨⟨d, he, hd⟩, by simpa using hk⟩
    · rintro ⟨⟨d, he, hd⟩, hx⟩
      exact ⟨d, Or.inr ⟨he, by simpa using hx⟩, hd⟩

theorem armed_execCmds {i now : Nat} {cmds : List Cmd} {ps : List Nat} {L : Loc} (hc : NoChoose cmds)
    (hnow : now < never) (hp : picksOk now ps = true) :
    mkSet natLt (armed (execCmds i now cmds ps L).ints) = cmds.foldl applyTimerCmd (mkSet natLt (armed L.ints)) := by
  induction cmds generalizing ps L with
  | nil => rfl
  | cons c cs ih =>
    have hp' : ∀ p ∈ ps, now + p < never := by simpa [picksOk] using hp
    rw [execCmds, List.foldl_cons, ih (fun c' h => hc c' (List.mem_cons_of_mem _ h)),
      armed_execCmd (hc c List.mem_cons_self)]
    · cases ps with
      | nil => simpa using hnow
      | cons p ps => exact hp' p List.mem_cons_self
    · cases ps with
      | nil => rfl
      | cons p ps => simp only [picksOk, List.tail_cons, List.all_eq_true, decide_eq_true_eq]; intro q hq; exact hp' q (List.mem_cons_of_mem _ hq)


/-! ### the abstraction: look-ups, well-formedness -/
section absn
variable {σ η : Type}

structure Inv (sys : ActorSys σ η) (rs : RSt σ η) : Prop where
  now : rs.now < never
  fresh : ∀ i, rs.st i = none → rs.ints i = []
  tkeys : ∀ i, TKeys (rs.ints i)

theorem inv_rinit (sys : ActorSys σ η) : Inv sys (rinit sys) :=
  ⟨by show 0 < never; decide, fun _ _ => rfl, fun _ en h => by simp [rinit] at h⟩

theorem abs_wf (sys : ActorSys σ η) (rs : RSt σ η) : (abs sys rs).WF sys := by
  simp [St.WF, abs]

theorem abs_netOk {sys : ActorSys σ η} (hu : UdpModel sys) (rs : RSt σ η) : (abs sys rs).NetOk sys := by
  refine ⟨nodup_mkSet _ _, ?_⟩
  rw [hu.net]; trivial

theorem abs_actors_get (sys : ActorSys σ η) (rs : RSt σ η) {i : Nat} (hi : i < sys.n) :
    (abs sys rs).actors[i]? = some ((rs.st i).getD ((sys.actor i).start i).1) := by
  simp [abs, List.getElem?_map, List.getElem?_range hi]

theorem abs_timers_get (sys : ActorSys σ η) (rs : RSt σ η) {i : Nat} (hi : i < sys.n) {s : σ}
    (hs : rs.st i = some s) : (abs sys rs).timers[i]? = some (mkSet natLt (armed (rs.ints i))) := by
  simp [abs, List.getElem?_map, List.getElem?_range hi, hs]

theorem abs_random_get (sys : ActorSys σ η) (rs : RSt σ η) {i : Nat} (hi : i < sys.n) :
    (abs sys rs).random[i]? = some [] := by
  simp [abs, hi]

theorem abs_crashed_get (sys : ActorSys σ η) (rs : RSt σ η) {i : Nat} (hi : i < sys.n) :
    (abs sys rs).crashed[i]? = some false := by
  simp [abs, hi]

theorem mem_pending (sys : ActorSys σ η) (rs : RSt σ η) (x : Env) :
    x ∈ pending sys rs ↔ ∃ i, i < sys.n ∧ rs.st i = none ∧ x ∈ sendsOf i ((sys.actor i).start i).2 := by
  simp only [pending, List.mem_flatMap, List.mem_range]
  constructor
  · rintro ⟨i, hi, hx⟩
    cases hs : rs.st i with
    | none => exact ⟨i, hi, hs, by simpa [hs] using hx⟩
    | some s => simp [hs] at hx
  · rintro ⟨i, hi, hs, hx⟩
    exact ⟨i, hi, by simpa [hs] using hx⟩

theorem pending_congr (sys : ActorSys σ η) (rs rs' : RSt σ η)
    (h : ∀ i, i < sys.n → (rs'.st i).isNone = (rs.st i).isNone) : pending sys rs' = pending sys rs := by
  unfold pending
  have : ∀ l : List Nat, (∀ i ∈ l, i < sys.n) →
      l.flatMap (fun i => if (rs'.st i).isNone then sendsOf i ((sys.actor i).start i).2 else []) =
      l.flatMap (fun i => if (rs.st i).isNone then sendsOf i ((sys.actor i).start i).2 else []) := by
    intro l hl
    induction l with
    | nil => rfl
    | cons a l ih =>
      simp only [List.flatMap_cons]
      rw [h a (hl a List.mem_cons_self), ih (fun i hi => hl i (List.mem_cons_of_mem _ hi))]
  exact this _ (fun i hi => List.mem_range.1 hi)

theorem sendAll_dup (S : List Env) (l : Option Env) (es : List Env) :
    sendAll (.dup S l) es = .dup (es.foldl (fun acc a => sins Env.lt a acc) S) l := by
  induction es generalizing S with
  | nil => rfl
  | cons e es ih => simp only [sendAll, List.foldl_cons, Net.send] at ih ⊢; exact ih _

theorem foldl_applyRandomCmd_nil {cmds : List Cmd} (hc : NoChoose cmds) : cmds.foldl applyRandomCmd [] = [] := by
  induction cmds with
  | nil => rfl
  | cons c cs ih =>
    have h1 := hc c List.mem_cons_self
    cases c <;> simp_all [applyRandomCmd, isChoose, NoChoose]

theorem set_replicate_self {α : Type} (n i : Nat) (a : α) : (List.replicate n a).set i a = List.replicate n a := by
  apply List.ext_getElem?
  intro j
  simp only [List.getElem?_set, List.getElem?_replicate, List.length_replicate]
  split <;> simp_all

/-- the abstraction after thread `i` (started) left a handler -/
theorem abs_finish (sys : ActorSys σ η) (rs : RSt σ η) {i : Nat} {s s' : σ} (hi : i < sys.n) (hs : rs.st i = some s)
    (ints0 : Ints) (fl0 : List Env) (last : Option Env) (hist : η) {cmds : List Cmd} {picks : List Nat}
    (hc : NoChoose cmds) (hnow : rs.now < never) (hp : picksOk rs.now picks = true) :
    abs sys (finish rs i s' ints0 fl0 last hist cmds picks) =
      { actors := (abs sys rs).actors.set i s'
        net := .dup (mkSet Env.lt (fl0 ++ pending sys rs ++ sendsOf i cmds)) last
        timers := (abs sys rs).timers.set i (cmds.foldl applyTimerCmd (mkSet natLt (armed ints0)))
        random := List.replicate sys.n []
        crashed := List.replicate sys.n false
        hist := hist } := by
  have hpend : pending sys (finish rs i s' ints0 fl0 last hist cmds picks) = pending sys rs := by
    apply pending_congr
    intro j _
    simp only [finish, upd]
    split
    · rename_i h; subst h; simp [hs]
    · rfl
  unfold abs
  rw [hpend]
  simp only [finish, execCmds_flight]
  congr 1
  · symm
    apply set_map_range sys.n i _ _ _ hi
    · intro j hj; simp [upd, hj]
    · simp [upd]
  · congr 1
    apply mkSet_congr strictTotal_envLt
    intro x; simp only [List.mem_append]; grind
  · symm
    apply set_map_range sys.n i _ _ _ hi
    · intro j hj; simp [upd, hj]
    · simp only [upd, if_true]
      exact armed_execCmds hc hnow hp


/-! ### the model steps from an abstraction -/

theorem model_deliver (sys : ActorSys σ η) (hu : UdpModel sys) (rs : RSt σ η) {e : Env} {s : σ} {ns : Option σ}
    {cmds : List Cmd} (hi : e.dst < sys.n) (hs : rs.st e.dst = some s)
    (hh : (sys.actor e.dst).msg e.dst s e.src e.msg = .ok ns cmds) (hn : isNoOp ns cmds = false)
    (hc : NoChoose cmds) :
    step sys (abs sys rs) (.deliver e) = .next
      { actors := (abs sys rs).actors.set e.dst (ns.getD s)
        net := .dup (mkSet Env.lt (rs.flight ++ pending sys rs ++ sendsOf e.dst cmds)) (some e)
        timers := (abs sys rs).timers.set e.dst (cmds.foldl applyTimerCmd (mkSet natLt (armed (rs.ints e.dst))))
        random := List.replicate sys.n []
        crashed := List.replicate sys.n false
        hist := recordOuts sys ((sys.recordIn rs.hist e).getD rs.hist) (sendsOf e.dst cmds) } := by
  rw [step_eq_specStep _ _ _ (abs_wf sys rs)]
  simp only [specStep, eventOf, specHandlerStep, abs_actors_get sys rs hi, hs, Option.getD_some,
    abs_crashed_get sys rs hi, handler, hh, ignoredBy, hu.net, Net.isOrdered, hn, specNext, consume,
    abs_timers_get sys rs hi hs, abs_random_get sys rs hi]
  simp [abs, Net.onDeliver, ofOption, sendAll_dup, foldl_sins_mkSet, firedTimers, selectedRandom, recordIn?,
    foldl_applyRandomCmd_nil hc]


theorem model_timeout (sys : ActorSys σ η) (rs : RSt σ η) {i t : Nat} {s : σ} {ns : Option σ}
    {cmds : List Cmd} (hi : i < sys.n) (hs : rs.st i = some s)
    (hh : (sys.actor i).timeout i s t = .ok ns cmds) (hn : isNoOpWithTimer ns cmds t = false)
    (hc : NoChoose cmds) :
    step sys (abs sys rs) (.timeout i t) = .next
      { actors := (abs sys rs).actors.set i (ns.getD s)
        net := .dup (mkSet Env.lt (rs.flight ++ pending sys rs ++ sendsOf i cmds)) rs.last
        timers := (abs sys rs).timers.set i (cmds.foldl applyTimerCmd (srem t (mkSet natLt (armed (rs.ints i)))))
        random := List.replicate sys.n []
        crashed := List.replicate sys.n false
        hist := recordOuts sys rs.hist (sendsOf i cmds) } := by
  rw [step_eq_specStep _ _ _ (abs_wf sys rs)]
  simp only [specStep, eventOf, specHandlerStep, abs_actors_get sys rs hi, hs, Option.getD_some,
    abs_crashed_get sys rs hi, handler, hh, ignoredBy, hn, specNext, consume,
    abs_timers_get sys rs hi hs, abs_random_get sys rs hi]
  simp [abs, isDeliver, ofOption, sendAll_dup, foldl_sins_mkSet, firedTimers, selectedRandom, recordIn?,
    foldl_applyRandomCmd_nil hc]

theorem model_drop (sys : ActorSys σ η) (rs : RSt σ η) (e : Env) :
    step sys (abs sys rs) (.drop e) = .next
      { abs sys rs with net := .dup (srem e (mkSet Env.lt (rs.flight ++ pending sys rs))) rs.last } := by
  simp [Actor.step, abs, Net.onDrop]

theorem enabled_deliver (sys : ActorSys σ η) (hu : UdpModel sys) (rs : RSt σ η) {e : Env} (hi : e.dst < sys.n)
    (he : e ∈ rs.flight) : Action.deliver e ∈ actions sys (abs sys rs) := by
  rw [mem_actions_iff sys _ (abs_netOk hu rs)]
  refine ⟨?_, hi⟩
  simp only [abs, Net.iterDeliverable, mem_mkSet, List.mem_append]
  exact Or.inl he

theorem enabled_drop (sys : ActorSys σ η) (hu : UdpModel sys) (rs : RSt σ η) {e : Env}
    (he : e ∈ rs.flight ++ pending sys rs) : Action.drop e ∈ actions sys (abs sys rs) := by
  rw [mem_actions_iff sys _ (abs_netOk hu rs)]
  refine ⟨hu.lossy, ?_⟩
  simp only [abs, Net.iterDeliverable, mem_mkSet]
  exact he

theorem enabled_timeout (sys : ActorSys σ η) (hu : UdpModel sys) (rs : RSt σ η) {i t : Nat} {s : σ}
    (hi : i < sys.n) (hs : rs.st i = some s) (ht : t ∈ armed (rs.ints i)) :
    Action.timeout i t ∈ actions sys (abs sys rs) := by
  rw [mem_actions_iff sys _ (abs_netOk hu rs)]
  exact ⟨_, abs_timers_get sys rs hi hs, (mem_mkSet _ _ _).2 ht⟩

/-! ### the invariant is preserved -/

theorem inv_finish {sys : ActorSys σ η} {rs : RSt σ η} (hinv : Inv sys rs) (i : Nat) (s' : σ) {ints0 : Ints}
    (fl0 : List Env) (last : Option Env) (hist : η) {cmds : List Cmd} (picks : List Nat) (hc : NoChoose cmds)
    (hk : TKeys ints0) : Inv sys (finish rs i s' ints0 fl0 last hist cmds picks) := by
  refine ⟨hinv.now, ?_, ?_⟩
  · intro j hj
    simp only [finish, upd] at hj ⊢
    split at hj
    · cases hj
    · rename_i hne; simp only [hne, if_false]; exact hinv.fresh j hj
  · intro j
    simp only [finish, upd]
    split
    · exact execCmds_tkeys hc hk
    · exact hinv.tkeys j

theorem tkeys_eraseInt {ints : Ints} (k : Key) (h : TKeys ints) : TKeys (eraseInt ints k) :=
  fun en hen => h en (mem_eraseInt_iff.1 hen).1

theorem inv_step {sys : ActorSys σ η} (hr : NoRandom sys) {rs rs' : RSt σ η} {l : Lbl} (hinv : Inv sys rs)
    (h : rstep sys rs l = some rs') : Inv sys rs' := by
  cases l with
  | tick t =>
    simp only [rstep] at h
    split at h
    · cases h; rename_i hg; exact ⟨hg.2, hinv.fresh, hinv.tkeys⟩
    · cases h
  | lose e =>
    simp only [rstep] at h
    split at h
    · cases h; exact ⟨hinv.now, hinv.fresh, hinv.tkeys⟩
    · cases h
  | start i picks =>
    simp only [rstep] at h
    split at h
    · cases h; exact inv_finish hinv _ _ _ _ _ _ (hr.start i) (hinv.tkeys i)
    · cases h
  | deliver e keep picks =>
    simp only [rstep] at h
    split at h
    · cases h
    · split at h
      · split at h
        · cases h
        · rename_i hh
          cases h
          exact inv_finish hinv _ _ _ _ _ _ (hr.msg _ _ _ _ _ _ hh) (hinv.tkeys _)
      · cases h
  | fire i k picks =>
    simp only [rstep] at h
    split at h
    · cases h
    · split at h
      · rename_i s _ hg
        split at h
        · cases h
        · rename_i ns cmds hh
          cases h
          obtain ⟨en, hen, hk⟩ := List.any_eq_true.1 hg.2.1
          obtain ⟨t, ht⟩ := hinv.tkeys i en hen
          have hk : k = .timeout t := by
            have : en.1 = k := by simp only [Bool.and_eq_true, decide_eq_true_eq] at hk; exact hk.1
            rw [← this, ht]
          subst hk
          exact inv_finish hinv _ _ _ _ _ _ (hr.timeout _ _ _ _ _ hh) (tkeys_eraseInt _ (hinv.tkeys _))
      · cases h


/-! ### each runtime step, seen through the abstraction -/

theorem refines_tick {sys : ActorSys σ η} {rs rs' : RSt σ η} {t : Nat} (h : rstep sys rs (.tick t) = some rs') :
    abs sys rs' = abs sys rs := by
  simp only [rstep] at h
  split at h
  · cases h; rfl
  · cases h

theorem refines_start {sys : ActorSys σ η} (hr : NoRandom sys) {rs rs' : RSt σ η} {i : Nat} {picks : List Nat}
    (hinv : Inv sys rs) (h : rstep sys rs (.start i picks) = some rs') : abs sys rs' = abs sys rs := by
  simp only [rstep] at h
  split at h
  · rename_i hg
    obtain ⟨hi, hs, hp⟩ := hg
    cases h
    unfold abs
    simp only [finish, execCmds_flight]
    congr 1
    · apply List.map_congr_left
      intro j _
      simp only [upd]
      split
      · rename_i hj; subst hj; simp [hs]
      · rfl
    · congr 1
      apply mkSet_congr strictTotal_envLt
      intro x
      simp only [List.mem_append, mem_pending, upd]
      constructor
      · rintro ((hx | hx) | ⟨j, hj, hsj, hx⟩)
        · exact Or.inl hx
        · exact Or.inr ⟨i, hi, hs, hx⟩
        · split at hsj
          · cases hsj
          · exact Or.inr ⟨j, hj, hsj, hx⟩
      · rintro (hx | ⟨j, hj, hsj, hx⟩)
        · exact Or.inl (Or.inl hx)
        · by_cases hji : j = i
          · subst hji; exact Or.inl (Or.inr hx)
          · exact Or.inr ⟨j, hj, by simp [hji, hsj], hx⟩
    · apply List.map_congr_left
      intro j _
      simp only [upd]
      by_cases hj : j = i
      · subst hj
        simp only [if_true, hs]
        rw [armed_execCmds (hr.start j) hinv.now hp, hinv.fresh j hs]
        rfl
      · simp only [hj, if_false]
  · cases h

theorem refines_lose {sys : ActorSys σ η} (hu : UdpModel sys) {rs rs' : RSt σ η} {e : Env}
    (h : rstep sys rs (.lose e) = some rs') :
    abs sys rs' = abs sys rs ∨ MStep sys (abs sys rs) (.drop e) (abs sys rs') := by
  simp only [rstep] at h
  split at h
  · rename_i he
    cases h
    by_cases hin : e ∈ rs.flight.erase e ++ pending sys rs
    · left
      unfold abs
      congr 2
      apply mkSet_congr strictTotal_envLt
      intro x
      show x ∈ rs.flight.erase e ++ pending sys rs ↔ x ∈ rs.flight ++ pending sys rs
      by_cases hx : x = e
      · subst hx; simp only [hin, true_iff]; exact List.mem_append_left _ he
      · simp only [List.mem_append, List.mem_erase_of_ne hx]
    · right
      refine ⟨enabled_drop sys hu rs (List.mem_append_left _ he), ?_⟩
      rw [model_drop]
      simp only [abs]
      congr 3
      apply srem_mkSet strictTotal_envLt
      intro x
      show x ∈ rs.flight.erase e ++ pending sys rs ↔ _
      by_cases hx : x = e
      · subst hx; simp [hin]
      · simp only [List.mem_append, List.mem_erase_of_ne hx, ne_eq, hx, not_false_eq_true, and_true]
  · cases h

theorem isNoOp_true {ns : Option σ} {cmds : List Cmd} (h : isNoOp ns cmds = true) : ns = none ∧ cmds = [] := by
  simpa [isNoOp] using h

theorem isNoOpWithTimer_true {ns : Option σ} {cmds : List Cmd} {t : Nat} (h : isNoOpWithTimer ns cmds t = true) :
    ns = none ∧ cmds = [.setTimer t] := by
  simp only [isNoOpWithTimer, Bool.and_eq_true, Option.isNone_iff_eq_none, beq_iff_eq] at h
  obtain ⟨h1, h2, h3⟩ := h
  refine ⟨h1, ?_⟩
  match cmds, h2, h3 with
  | [c], _, h3 => simpa using h3

/-- the abstraction is unchanged when started thread `i` leaves a handler with nothing changed -/
theorem abs_finish_same (sys : ActorSys σ η) (rs : RSt σ η) {i : Nat} {s : σ} (hi : i < sys.n)
    (hs : rs.st i = some s) (hnow : rs.now < never) {picks : List Nat} (hp : picksOk rs.now picks = true) :
    abs sys (finish rs i s (rs.ints i) rs.flight rs.last rs.hist [] picks) = abs sys rs := by
  rw [abs_finish sys rs hi hs _ _ _ _ (fun _ h => by cases h) hnow hp,
    set_self_of_getElem? (by rw [abs_actors_get sys rs hi, hs]; rfl), List.foldl_nil,
    set_self_of_getElem? (abs_timers_get sys rs hi hs)]
  simp [abs, sendsOf]

theorem refines_deliver_keep {sys : ActorSys σ η} (hu : UdpModel sys) (hr : NoRandom sys) {rs rs' : RSt σ η}
    {e : Env} {picks : List Nat} (hinv : Inv sys rs) (h : rstep sys rs (.deliver e true picks) = some rs') :
    ∃ s ns cmds, rs.st e.dst = some s ∧ (sys.actor e.dst).msg e.dst s e.src e.msg = .ok ns cmds ∧
      (isNoOp ns cmds = true → abs sys rs' = abs sys rs) ∧
      (isNoOp ns cmds = false → MStep sys (abs sys rs) (.deliver e) (abs sys rs')) := by
  simp only [rstep] at h
  split at h
  · cases h
  · rename_i s hs
    split at h
    · rename_i hg
      obtain ⟨hi, he, hp⟩ := hg
      split at h
      · cases h
      · rename_i ns cmds hh
        cases h
        refine ⟨s, ns, cmds, hs, hh, ?_, ?_⟩
        · intro hn
          obtain ⟨rfl, rfl⟩ := isNoOp_true hn
          simp only [hn, if_true, Option.getD_none]
          exact abs_finish_same sys rs hi hs hinv.now hp
        · intro hn
          have hc := hr.msg _ _ _ _ _ _ hh
          refine ⟨enabled_deliver sys hu rs hi he, ?_⟩
          rw [model_deliver sys hu rs hi hs hh hn hc, abs_finish sys rs hi hs _ _ _ _ hc hinv.now hp]
          simp [hn]
    · cases h

theorem armed_eraseInt (ints : Ints) (t : Nat) :
    mkSet natLt (armed (eraseInt ints (.timeout t))) = srem t (mkSet natLt (armed ints)) := by
  symm
  apply srem_mkSet strictTotal_natLt
  intro x
  simp only [mem_armed, mem_eraseInt_iff]
  constructor
  · rintro ⟨d, ⟨he, hk⟩, hd⟩; exact ⟨⟨d, he, hd⟩, by simpa using hk⟩
  · rintro ⟨⟨d, he, hd⟩, hx⟩; exact ⟨d, ⟨he, by simpa using hx⟩, hd⟩

theorem refines_fire {sys : ActorSys σ η} (hu : UdpModel sys) (hr : NoRandom sys) {rs rs' : RSt σ η}
    {i : Nat} {k : Key} {picks : List Nat} (hinv : Inv sys rs) (h : rstep sys rs (.fire i k picks) = some rs') :
    ∃ t s ns cmds, k = .timeout t ∧ rs.st i = some s ∧ (sys.actor i).timeout i s t = .ok ns cmds ∧
      (isNoOpWithTimer ns cmds t = true → abs sys rs' = abs sys rs) ∧
      (isNoOpWithTimer ns cmds t = false → MStep sys (abs sys rs) (.timeout i t) (abs sys rs')) := by
  simp only [rstep] at h
  split at h
  · cases h
  · rename_i s hs
    split at h
    · rename_i hg
      obtain ⟨hi, hany, hp⟩ := hg
      obtain ⟨en, hen, hk⟩ := List.any_eq_true.1 hany
      simp only [Bool.and_eq_true, decide_eq_true_eq] at hk
      obtain ⟨t, ht⟩ := hinv.tkeys i en hen
      have hkt : k = .timeout t := by rw [← hk.1, ht]
      subst hkt
      have harmed : t ∈ armed (rs.ints i) :=
        mem_armed.2 ⟨en.2, by rw [← ht]; exact hen, Nat.lt_trans hk.2 hinv.now⟩
      split at h
      · cases h
      · rename_i ns cmds hh
        simp only [handlerK] at hh
        cases h
        have hc := hr.timeout _ _ _ _ _ hh
        refine ⟨t, s, ns, cmds, rfl, hs, hh, ?_, ?_⟩
        · intro hn
          obtain ⟨rfl, rfl⟩ := isNoOpWithTimer_true hn
          rw [abs_finish sys rs hi hs _ _ _ _ hc hinv.now hp,
            set_self_of_getElem? (by rw [abs_actors_get sys rs hi, hs]; rfl)]
          have : [Cmd.setTimer t].foldl applyTimerCmd (mkSet natLt (armed (eraseInt (rs.ints i) (.timeout t)))) =
              mkSet natLt (armed (rs.ints i)) := by
            simp only [List.foldl_cons, List.foldl_nil, applyTimerCmd, armed_eraseInt]
            apply sorted_ext strictTotal_natLt (sorted_sins strictTotal_natLt _ (sorted_srem _ (sorted_mkSet strictTotal_natLt _)))
              (sorted_mkSet strictTotal_natLt _)
            intro x
            rw [mem_sins, mem_srem, mem_mkSet]
            constructor
            · rintro (rfl | ⟨h1, _⟩)
              · exact harmed
              · exact h1
            · intro hx
              by_cases hxt : x = t
              · exact Or.inl hxt
              · exact Or.inr ⟨hx, hxt⟩
          rw [this, set_self_of_getElem? (abs_timers_get sys rs hi hs)]
          simp [abs, sendsOf, recordOuts]
        · intro hn
          refine ⟨enabled_timeout sys hu rs hi hs harmed, ?_⟩
          rw [model_timeout sys rs hi hs hh hn hc, abs_finish sys rs hi hs _ _ _ _ hc hinv.now hp, armed_eraseInt]
    · cases h


/-! ### a consuming delivery is a duplicating delivery followed by the loss of the datagram -/

theorem execCmd_ints_congr (i now p : Nat) (c : Cmd) {L L' : Loc} (h : L.ints = L'.ints) :
    (execCmd i now L p c).ints = (execCmd i now L' p c).ints := by
  cases c with
  | chooseRandom k vals => cases vals <;> simp [execCmd, h]
  | _ => simp [execCmd, h]

theorem execCmds_ints_congr (i now : Nat) (cmds : List Cmd) (ps : List Nat) {L L' : Loc} (h : L.ints = L'.ints) :
    (execCmds i now cmds ps L).ints = (execCmds i now cmds ps L').ints := by
  induction cmds generalizing ps L L' with
  | nil => exact h
  | cons c cs ih => simp only [execCmds]; exact ih _ (execCmd_ints_congr i now _ c h)

theorem deliver_consume {sys : ActorSys σ η} {rs rs' : RSt σ η} {e : Env} {picks : List Nat}
    (h : rstep sys rs (.deliver e false picks) = some rs') :
    ∃ m, rstep sys rs (.deliver e true picks) = some m ∧ rstep sys m (.lose e) = some rs' := by
  simp only [rstep] at h ⊢
  split at h
  · cases h
  · rename_i s hs
    split at h
    · rename_i hg
      split at h
      · cases h
      · rename_i ns cmds hh
        cases h
        simp only [hg, and_self, if_true]
        refine ⟨_, rfl, ?_⟩
        have hmem : e ∈ (finish rs e.dst (ns.getD s) (rs.ints e.dst) rs.flight
            (if isNoOp ns cmds = true then rs.last else some e)
            (if isNoOp ns cmds = true then rs.hist
              else recordOuts sys ((sys.recordIn rs.hist e).getD rs.hist) (sendsOf e.dst cmds)) cmds picks).flight := by
          simp only [finish, execCmds_flight]
          exact List.mem_append_left _ hg.2.1
        rw [if_pos hmem]
        simp only [finish, execCmds_flight, Bool.false_eq_true, if_false, Option.some.injEq]
        congr 1
        · rw [execCmds_ints_congr e.dst rs.now cmds picks (L := ⟨rs.ints e.dst, rs.flight⟩)
            (L' := ⟨rs.ints e.dst, rs.flight.erase e⟩) rfl]
        · exact List.erase_append_left _ hg.2.1
    · cases h

/-! ### model paths -/

theorem mpath_append {sys : ActorSys σ η} {s m t : St σ η} {as bs : List Action} (h1 : MPath sys s as m)
    (h2 : MPath sys m bs t) : MPath sys s (as ++ bs) t := by
  induction as generalizing s with
  | nil => cases h1; exact h2
  | cons a as ih =>
    obtain ⟨m', hs, hp⟩ := h1
    exact ⟨m', hs, ih hp⟩

theorem mpath_one {sys : ActorSys σ η} {s t : St σ η} {a : Action} (h : MStep sys s a t) : MPath sys s [a] t :=
  ⟨t, h, rfl⟩

theorem mpath_of_mrun {sys : ActorSys σ η} {s t : St σ η} {as : List Action} (h : mrun sys s as = some t) :
    MPath sys s as t := by
  induction as generalizing s with
  | nil => simp only [mrun, Option.some.injEq] at h; exact h
  | cons a as ih =>
    simp only [mrun] at h
    split at h
    · rename_i ha
      cases hst : (Actor.step sys s a).toOption with
      | none => simp [hst] at h
      | some m =>
        simp only [hst, Option.bind_some] at h
        exact ⟨m, ⟨ha, toOption_eq_some.1 hst⟩, ih h⟩
    · cases h

theorem mstep_reach {sys : ActorSys σ η} {s t : St σ η} {a : Action} (hs : (sys.toSys).Reach s)
    (h : MStep sys s a t) : (sys.toSys).Reach t := by
  refine Sys.Reach.step hs (Sys.mem_succB.2 ⟨⟨a, h.1, ?_⟩, rfl⟩)
  exact toOption_eq_some.2 h.2

theorem mpath_reach {sys : ActorSys σ η} {s t : St σ η} {as : List Action} (hs : (sys.toSys).Reach s)
    (h : MPath sys s as t) : (sys.toSys).Reach t := by
  induction as generalizing s with
  | nil => cases h; exact hs
  | cons a as ih =>
    obtain ⟨m, h1, h2⟩ := h
    exact ih (mstep_reach hs h1) h2

/-! ### the step theorem, the initial state, runs -/

theorem refines_step {sys : ActorSys σ η} (hu : UdpModel sys) (hr : NoRandom sys) {rs rs' : RSt σ η} {l : Lbl}
    (hinv : Inv sys rs) (h : rstep sys rs l = some rs') :
    ∃ as, as.Sublist (modelActs l) ∧ MPath sys (abs sys rs) as (abs sys rs') := by
  have keep : ∀ {rs rs' : RSt σ η} {e : Env} {picks : List Nat}, Inv sys rs →
      rstep sys rs (.deliver e true picks) = some rs' →
      ∃ as, as.Sublist [Action.deliver e] ∧ MPath sys (abs sys rs) as (abs sys rs') := by
    intro rs rs' e picks hinv h
    obtain ⟨s, ns, cmds, _, _, h1, h2⟩ := refines_deliver_keep hu hr hinv h
    cases hn : isNoOp ns cmds with
    | true => exact ⟨[], by simp, (h1 hn).symm⟩
    | false => exact ⟨[_], List.Sublist.refl _, mpath_one (h2 hn)⟩
  have lose : ∀ {rs rs' : RSt σ η} {e : Env}, rstep sys rs (.lose e) = some rs' →
      ∃ as, as.Sublist [Action.drop e] ∧ MPath sys (abs sys rs) as (abs sys rs') := by
    intro rs rs' e h
    rcases refines_lose hu h with h1 | h1
    · exact ⟨[], by simp, h1.symm⟩
    · exact ⟨[_], List.Sublist.refl _, mpath_one h1⟩
  cases l with
  | tick t => exact ⟨[], by simp, (refines_tick h).symm⟩
  | start i picks => exact ⟨[], by simp, (refines_start hr hinv h).symm⟩
  | lose e => exact lose h
  | deliver e keep' picks =>
    cases keep' with
    | true => simpa [modelActs] using keep hinv h
    | false =>
      obtain ⟨m, hm1, hm2⟩ := deliver_consume h
      obtain ⟨as1, hs1, hp1⟩ := keep hinv hm1
      obtain ⟨as2, hs2, hp2⟩ := lose hm2
      exact ⟨as1 ++ as2, by simpa [modelActs] using List.Sublist.append hs1 hs2, mpath_append hp1 hp2⟩
  | fire i k picks =>
    obtain ⟨t, s, ns, cmds, rfl, _, _, h1, h2⟩ := refines_fire hu hr hinv h
    cases hn : isNoOpWithTimer ns cmds t with
    | true => exact ⟨[], by simp, (h1 hn).symm⟩
    | false => exact ⟨[_], List.Sublist.refl _, mpath_one (h2 hn)⟩

theorem pending_rinit (sys : ActorSys σ η) : pending sys (rinit sys) = startSends sys := by
  simp [pending, rinit, startSends]

theorem abs_rinit {sys : ActorSys σ η} (hu : UdpModel sys) (hr : NoRandom sys) :
    abs sys (rinit sys) = specInit sys := by
  unfold abs specInit
  rw [pending_rinit]
  simp only [hu.net, sendAll_dup, List.map_map]
  congr 1
  · apply List.ext_getElem?
    intro j
    simp only [List.getElem?_replicate, List.getElem?_map]
    by_cases hj : j < sys.n
    · simp [hj, foldl_applyRandomCmd_nil (hr.start j)]
    · simp [hj]

theorem reach_specInit (sys : ActorSys σ η) : (sys.toSys).Reach (specInit sys) := by
  apply Sys.Reach.init
  simp [Sys.initB, ActorSys.toSys, init_eq_specInit]

theorem refines_run {sys : ActorSys σ η} (hu : UdpModel sys) (hr : NoRandom sys) {rs0 rs : RSt σ η} {ls : List Lbl}
    (hinv : Inv sys rs0) (hreach : (sys.toSys).Reach (abs sys rs0)) (h : rrun sys rs0 ls = some rs) :
    Inv sys rs ∧ (sys.toSys).Reach (abs sys rs) := by
  induction ls generalizing rs0 with
  | nil => simp only [rrun, Option.some.injEq] at h; subst h; exact ⟨hinv, hreach⟩
  | cons l ls ih =>
    simp only [rrun] at h
    cases hst : rstep sys rs0 l with
    | none => simp [hst] at h
    | some m =>
      simp only [hst, Option.bind_some] at h
      obtain ⟨as, _, hp⟩ := refines_step hu hr hinv hst
      exact ih (inv_step hr hinv hst) (mpath_reach hreach hp) h

/-- every runtime run projects onto a model path whose actions are a sub-list of the actions the labels stand for -/
theorem refines_path {sys : ActorSys σ η} (hu : UdpModel sys) (hr : NoRandom sys) {rs0 rs : RSt σ η} {ls : List Lbl}
    (hinv : Inv sys rs0) (h : rrun sys rs0 ls = some rs) :
    Inv sys rs ∧ ∃ as, as.Sublist (ls.flatMap modelActs) ∧ MPath sys (abs sys rs0) as (abs sys rs) := by
  induction ls generalizing rs0 with
  | nil => simp only [rrun, Option.some.injEq] at h; subst h; exact ⟨hinv, [], by simp, rfl⟩
  | cons l ls ih =>
    simp only [rrun] at h
    cases hst : rstep sys rs0 l with
    | none => simp [hst] at h
    | some m =>
      simp only [hst, Option.bind_some] at h
      obtain ⟨as, hsub, hp⟩ := refines_step hu hr hinv hst
      obtain ⟨hinv', as', hsub', hp'⟩ := ih (inv_step hr hinv hst) h
      exact ⟨hinv', as ++ as', by simpa using List.Sublist.append hsub hsub', mpath_append hp hp'⟩

/-- the runtime states that can occur: reached from the initial state by enabled steps -/
def RReach (sys : ActorSys σ η) (rs : RSt σ η) : Prop := ∃ ls, rrun sys (rinit sys) ls = some rs

theorem inv_of_rreach {sys : ActorSys σ η} (hu : UdpModel sys) (hr : NoRandom sys) {rs : RSt σ η}
    (h : RReach sys rs) : Inv sys rs := by
  obtain ⟨ls, h⟩ := h
  exact (refines_path hu hr (inv_rinit sys) h).1

theorem rreach_step {sys : ActorSys σ η} {rs rs' : RSt σ η} {l : Lbl} (h : RReach sys rs)
    (hs : rstep sys rs l = some rs') : RReach sys rs' := by
  obtain ⟨ls, h⟩ := h
  refine ⟨ls ++ [l], ?_⟩
  have : ∀ (r0 : RSt σ η) (ls : List Lbl), rrun sys r0 ls = some rs → rrun sys r0 (ls ++ [l]) = some rs' := by
    intro r0 ls
    induction ls generalizing r0 with
    | nil => intro h; simp only [rrun, Option.some.injEq] at h; subst h; simp [rrun, hs]
    | cons a ls ih =>
      intro h
      simp only [rrun, List.cons_append] at h ⊢
      cases hst : rstep sys r0 a with
      | none => simp [hst] at h
      | some m => simp only [hst, Option.bind_some] at h ⊢; exact ih m h
  exact this _ _ h

/-- the reachable states of a model are among `l` when `l` holds the initial states and is closed under steps
(used for the finite counter-examples of the random fragment) -/
theorem reach_among {sys : ActorSys σ η} (l : List (St σ η))
    (hinit : ∀ s ∈ (sys.toSys).initB, s ∈ l) (hstep : ∀ s ∈ l, ∀ t ∈ (sys.toSys).succB s, t ∈ l)
    {s : St σ η} (h : (sys.toSys).Reach s) : s ∈ l := by
  induction h with
  | init hi => exact hinit _ hi
  | step _ ht ih => exact hstep _ ih _ ht

end absn
end SR.RtSys
