import SR.Drv.C05
import SR.Proofs.MarketRun
/-!
# The job-market bookkeeping oracle `o-mk` (Drv/C05 `oracle`, `oracleEnd`) against the market machine

Helper definitions and lemmas for `SR/Props/C05Oracle.lean`:

* `oracleR`: `Drv.C05.oracle` with the `.split` clause relaxed to conservation; `obody`: its body for one event, the
  recursive call abstracted (`oracle_cons`);
* `evStep` / `mkRun`: the model side of one event / of an event list, exactly as the driver's `replay` computes it
  (`replay_of_mkRun`), answers as data (`Ans`) instead of strings, `none` where `replay` answers `!disabled`,
  `!unwoken`, `!spurious`;
* `Renders`: an answer of the model and a result S-expression as the oracle reads it;
* `Sim`: the simulation relation between `MState` and `Obs`, preserved by every event (`sim_step`);
* `Ledger`: what was handed to the market / handed out, read off the observations with no check at all, and its
  relation to the oracle's state (`led_step`).
-/
set_option linter.unusedSimpArgs false
namespace SR.C05Oracle
open SR SR.Market SR.Drv.C05

/-- one event of the oracle: the body of `oracle`, the recursive call replaced by `cont` -/
def obody (k : Nat) (o : Obs) (e : Ev) (r : SExp) (cont : Obs → Except String Obs) : Except String Obs :=
    let closedKnown := o.shutSeen || o.dropSeen
    let active (w : Nat) : Bool := w < k && !o.parked.contains w && !o.exited.contains w
    let pre : Option String := match e with
      | .wake w => if o.parked.contains w then none else some "wake-of-a-worker-that-was-not-asleep"
      | .pop w | .push w _ | .split w | .work w _ _ | .drop w =>
        if !active w then some "harness:inactive-worker-acts"
        else if !o.mustWake.isEmpty then some "a-worker-asleep-at-a-stop-did-not-wake"
        else none
      | _ => if !o.mustWake.isEmpty then some "a-worker-asleep-at-a-stop-did-not-wake" else none
    match pre with
    | some err => .error err
    | none =>
    let popLike (w : Nat) (isWake : Bool) : Except String Obs :=
      let o := { o with parked := o.parked.erase w, mustWake := o.mustWake.erase w }
      match r with
      | .atom "park" =>
        if !o.market.isEmpty then .error "worker-sleeps-while-jobs-are-on-the-market"
        else if o.emptyBatches > 0 then .error "worker-sleeps-while-a-batch-is-on-the-market"
        else if (awake o k).all (· == w) then .error "everybody-asleep:nobody-left-to-wake-them"
        else if !isWake && closedKnown then .error "pop-sleeps-on-a-closed-market"
        else cont { o with parked := w :: o.parked }
      | r =>
        match resToks? r with
        | none => .error "malformed-result"
        | some [] =>
          cont { o with emptyBatches := o.emptyBatches - 1 }
        | some b =>
          if o.dropSeen then .error "jobs-handed-out-after-a-drop"
          else if !isWake && o.shutSeen then .error "pop-hands-out-jobs-on-a-closed-market"
          else match eraseAll? o.market b with
            | none => .error "job-handed-out-that-is-not-on-the-market(duplicated-or-invented)"
            | some m' =>
              cont { o with market := m', locs := o.locs.set w (o.locs.getD w [] ++ b) }
    match e with
    | .xpush toks =>
      if toks.any (o.created.contains ·) then .error "harness:token-reused"
      else
        let o := { o with created := toks ++ o.created }
        if closedKnown then cont o
        else if toks.isEmpty then cont { o with emptyBatches := o.emptyBatches + 1 }
        else cont { o with market := toks ++ o.market }
    | .pop w => popLike w false
    | .wake w => popLike w true
    | .push w n =>
      let loc := o.locs.getD w []
      let o' := { o with locs := o.locs.set w (loc.drop n) }
      if closedKnown then cont o'
      else if (loc.take n).isEmpty then cont { o' with emptyBatches := o'.emptyBatches + 1 }
      else cont { o' with market := loc.take n ++ o'.market }
    | .split w =>
      match resToks? r with
      | none => .error "malformed-result"
      | some after =>
        let loc := o.locs.getD w []
        if closedKnown then
          if after.isEmpty then cont { o with locs := o.locs.set w [] }
          else .error "split-on-a-closed-market-kept-jobs"
        else match eraseAll? loc after with
          | none => .error "split-invented-or-duplicated-jobs"
          | some rest => cont { o with locs := o.locs.set w after, market := rest ++ o.market }
    | .work w c fresh =>
      if fresh.any (o.created.contains ·) then .error "harness:token-reused"
      else
        let loc := o.locs.getD w []
        cont { o with locs := o.locs.set w (fresh ++ loc.take (loc.length - c)), created := fresh ++ o.created }
    | .drop w =>
      cont { o with exited := w :: o.exited, locs := o.locs.set w [], dropSeen := true, market := [],
                        emptyBatches := 0, mustWake := o.parked }
    | .xdrop =>
      cont { o with dropSeen := true, market := [], emptyBatches := 0, mustWake := o.parked }
    | .tfire => cont { o with shutSeen := true }
    | .clone => cont o
    | .closed =>
      match r.bool? with
      | none => .error "malformed-result"
      | some b =>
        if b && !(o.market.isEmpty && o.emptyBatches == 0) then .error "is_closed-with-jobs-on-the-market"
        else if b then cont { o with shutSeen := true }
        else cont o
    | .shut =>
      match r.bool? with
      | none => .error "malformed-result"
      | some b =>
        if !b && closedKnown then .error "market-reopened-or-stop-not-visible"
        else if b && !closedKnown then
          if !o.market.isEmpty then .error "closed-by-last-worker-with-jobs-on-the-market"
          else cont { o with shutSeen := true, mustWake := o.parked }
        else cont o

/-- **the relaxed oracle**: `Drv.C05.oracle` with ONE clause changed — on an open market `split` no longer demands that
    the kept jobs are the PREFIX of the caller's deque (`after = loc.take after.length`: C05 does not pin which jobs
    `split_and_push` keeps) but only conservation: the kept jobs are a sub-multiset of the deque (`eraseAll?`), the rest
    is what went to the market.  Everything below is about `oracleR`. -/
def oracleR (k : Nat) : Obs → List Ev → List SExp → Except String Obs
  | o, [], [] => .ok o
  | _, [], _ => .error "malformed"
  | _, _, [] => .error "malformed"
  | o, e :: es, r :: rs =>
    let closedKnown := o.shutSeen || o.dropSeen
    let active (w : Nat) : Bool := w < k && !o.parked.contains w && !o.exited.contains w
    -- a worker may only act when awake; sleepers of a drop must wake before anything else happens
    let pre : Option String := match e with
      | .wake w => if o.parked.contains w then none else some "wake-of-a-worker-that-was-not-asleep"
      | .pop w | .push w _ | .split w | .work w _ _ | .drop w =>
        if !active w then some "harness:inactive-worker-acts"
        else if !o.mustWake.isEmpty then some "a-worker-asleep-at-a-stop-did-not-wake"
        else none
      | _ => if !o.mustWake.isEmpty then some "a-worker-asleep-at-a-stop-did-not-wake" else none
    match pre with
    | some err => .error err
    | none =>
    let popLike (w : Nat) (isWake : Bool) : Except String Obs :=
      let o := { o with parked := o.parked.erase w, mustWake := o.mustWake.erase w }
      match r with
      | .atom "park" =>
        if !o.market.isEmpty then .error "worker-sleeps-while-jobs-are-on-the-market"
        else if o.emptyBatches > 0 then .error "worker-sleeps-while-a-batch-is-on-the-market"
        else if (awake o k).all (· == w) then .error "everybody-asleep:nobody-left-to-wake-them"
        else if !isWake && closedKnown then .error "pop-sleeps-on-a-closed-market"
        else oracleR k { o with parked := w :: o.parked } es rs
      | r =>
        match resToks? r with
        | none => .error "malformed-result"
        | some [] =>
          oracleR k { o with emptyBatches := o.emptyBatches - 1 } es rs
        | some b =>
          if o.dropSeen then .error "jobs-handed-out-after-a-drop"
          else if !isWake && o.shutSeen then .error "pop-hands-out-jobs-on-a-closed-market"
          else match eraseAll? o.market b with
            | none => .error "job-handed-out-that-is-not-on-the-market(duplicated-or-invented)"
            | some m' =>
              oracleR k { o with market := m', locs := o.locs.set w (o.locs.getD w [] ++ b) } es rs
    match e with
    | .xpush toks =>
      if toks.any (o.created.contains ·) then .error "harness:token-reused"
      else
        let o := { o with created := toks ++ o.created }
        if closedKnown then oracleR k o es rs
        else if toks.isEmpty then oracleR k { o with emptyBatches := o.emptyBatches + 1 } es rs
        else oracleR k { o with market := toks ++ o.market } es rs
    | .pop w => popLike w false
    | .wake w => popLike w true
    | .push w n =>
      let loc := o.locs.getD w []
      let o' := { o with locs := o.locs.set w (loc.drop n) }
      if closedKnown then oracleR k o' es rs
      else if (loc.take n).isEmpty then oracleR k { o' with emptyBatches := o'.emptyBatches + 1 } es rs
      else oracleR k { o' with market := loc.take n ++ o'.market } es rs
    | .split w =>
      match resToks? r with
      | none => .error "malformed-result"
      | some after =>
        let loc := o.locs.getD w []
        if closedKnown then
          if after.isEmpty then oracleR k { o with locs := o.locs.set w [] } es rs
          else .error "split-on-a-closed-market-kept-jobs"
        else match eraseAll? loc after with
          | none => .error "split-invented-or-duplicated-jobs"
          | some rest => oracleR k { o with locs := o.locs.set w after, market := rest ++ o.market } es rs
    | .work w c fresh =>
      if fresh.any (o.created.contains ·) then .error "harness:token-reused"
      else
        let loc := o.locs.getD w []
        oracleR k { o with locs := o.locs.set w (fresh ++ loc.take (loc.length - c)), created := fresh ++ o.created } es rs
    | .drop w =>
      oracleR k { o with exited := w :: o.exited, locs := o.locs.set w [], dropSeen := true, market := [],
                         emptyBatches := 0, mustWake := o.parked } es rs
    | .xdrop =>
      oracleR k { o with dropSeen := true, market := [], emptyBatches := 0, mustWake := o.parked } es rs
    | .tfire => oracleR k { o with shutSeen := true } es rs
    | .clone => oracleR k o es rs
    | .closed =>
      match r.bool? with
      | none => .error "malformed-result"
      | some b =>
        -- closed means: shut down, nothing on the market (and all counted workers gone)
        if b && !(o.market.isEmpty && o.emptyBatches == 0) then .error "is_closed-with-jobs-on-the-market"
        else if b then oracleR k { o with shutSeen := true } es rs
        else oracleR k o es rs
    | .shut =>
      match r.bool? with
      | none => .error "malformed-result"
      | some b =>
        if !b && closedKnown then .error "market-reopened-or-stop-not-visible"
        else if b && !closedKnown then
          -- closed by the last active worker: legitimate only if nobody is left asleep un-notified
          -- with jobs around; from now on nothing may be handed out by `pop`
          if !o.market.isEmpty then .error "closed-by-last-worker-with-jobs-on-the-market"
          else oracleR k { o with shutSeen := true, mustWake := o.parked } es rs
        else oracleR k o es rs

theorem oracle_cons (k : Nat) (o : Obs) (e : Ev) (es : List Ev) (r : SExp) (rs : List SExp) :
    oracleR k o (e :: es) (r :: rs) = obody k o e r (fun o' => oracleR k o' es rs) := by
  cases e <;> simp only [oracleR, obody] <;> rfl


/-! ### the model side of an event list -/

/-- what the model answers to an event -/
inductive Ans where
  | pop (r : PopRes)
  | toks (l : List Nat)
  | dash
  | bool (b : Bool)
deriving DecidableEq, Repr

/-- the answer as the driver's `mk-run` prints it -/
def Ans.str : Ans → String
  | .pop r => popResStr (some r)
  | .toks l => toksStr l
  | .dash => "-"
  | .bool b => Drv.bstr b

/-- `r` is a result S-expression that the oracle reads as the answer `a` (the oracle never looks at the results of
    `xpush`, `push`, `work`, `drop`, `xdrop`, `clone`, `tfire`) -/
def Renders : Ans → SExp → Prop
  | .pop .park, r => r = .atom "park"
  | .pop .empty, r => resToks? r = some []
  | .pop (.got b), r => resToks? r = some b
  | .toks l, r => resToks? r = some l
  | .dash, _ => True
  | .bool b, r => r.bool? = some b

def isWakeEv : Ev → Bool
  | .wake _ => true
  | _ => false

/-- the model side of one event, as `replay` computes it; `none` where `replay` answers `!disabled`, `!unwoken` or
    `!spurious` -/
def evStep (s : MState) (e : Ev) (picks : List Nat) : Option (MState × Ans) :=
  if !isWakeEv e && pendingWake s then none else
  match e with
  | .xpush toks => (stepR s (.xpush toks (if s.isOpen then picks else []))).map fun x => (x.1, .dash)
  | .pop w =>
    match stepR s (.popBegin w) with
    | some (s', some r) => some (s', .pop r)
    | _ => none
  | .wake w =>
    if s.pcs[w]? == some (.parked true) then
      match stepR s (.wake w) with
      | some (s', some r) => some (s', .pop r)
      | _ => none
    else none
  | .push w n => (stepR s (.push w n (if s.isOpen then picks else []))).map fun x => (x.1, .dash)
  | .split w => (stepR s (.split w (if s.isOpen then picks else []))).map fun x => (x.1, .toks (x.1.locs.getD w []))
  | .work w c fresh => (stepR s (.work w c fresh)).map fun x => (x.1, .dash)
  | .drop w => (stepR s (.drop w)).map fun x => (x.1, .dash)
  | .xdrop => (stepR s .xdrop).map fun x => (x.1, .dash)
  | .tfire => (stepR s .timeoutFire).map fun x => (x.1, .dash)
  | .clone => some (s, .dash)
  | .closed => some (s, .bool (isClosed s))
  | .shut => some (s, .bool (isShutDown s))

/-- the model side of an event list: the answers and the final state -/
def mkRun : MState → List Ev → Option (List Ans × MState)
  | s, [] => some ([], s)
  | s, e :: rest =>
    match evStep s e (followingWakes rest) with
    | none => none
    | some (s', a) =>
      match mkRun s' rest with
      | none => none
      | some (as, sf) => some (a :: as, sf)

theorem replay_of_mkRun {s : MState} {evs : List Ev} {as : List Ans} {sf : MState}
    (h : mkRun s evs = some (as, sf)) : replay s evs = (as.map Ans.str, sf) := by
  induction evs generalizing s as with
  | nil => simp [mkRun] at h; obtain ⟨rfl, rfl⟩ := h; rfl
  | cons e rest ih =>
    simp only [mkRun] at h
    cases hs : evStep s e (followingWakes rest) with
    | none => simp [hs] at h
    | some p =>
      obtain ⟨s', a⟩ := p
      simp only [hs] at h
      cases hr : mkRun s' rest with
      | none => simp [hr] at h
      | some q =>
        obtain ⟨as', sf'⟩ := q
        simp only [hr, Option.some.injEq, Prod.mk.injEq] at h
        obtain ⟨rfl, rfl⟩ := h
        have ih' := ih hr
        cases e <;> simp only [evStep, isWakeEv, Bool.not_true, Bool.not_false, Bool.true_and, Bool.false_and] at hs
        case pop w =>
          split at hs
          · simp at hs
          · rename_i hl
            cases hst : stepR s (Step.popBegin w) with
            | none => simp [hst] at hs
            | some x =>
              obtain ⟨x1, x2⟩ := x
              cases x2 with
              | none => simp [hst] at hs
              | some r0 =>
                simp only [hst, Option.some.injEq, Prod.mk.injEq] at hs
                obtain ⟨rfl, rfl⟩ := hs
                simp only [replay, hst, ih']
                simp [hl, Ans.str]
        case wake w =>
          by_cases hw : (s.pcs[w]? == some (Pc.parked true)) = true
          · simp only [hw, if_true] at hs
            cases hst : stepR s (Step.wake w) with
            | none => simp [hst] at hs
            | some x =>
              obtain ⟨x1, x2⟩ := x
              cases x2 with
              | none => simp [hst] at hs
              | some r0 =>
                simp [hst] at hs
                obtain ⟨rfl, rfl⟩ := hs
                simp only [replay, hst, ih', hw]
                simp [Ans.str]
          · simp [hw] at hs
        case clone =>
          split at hs
          · simp at hs
          · rename_i hl
            simp only [Option.some.injEq, Prod.mk.injEq] at hs
            obtain ⟨rfl, rfl⟩ := hs
            simp only [replay, ih']
            simp [hl, Ans.str]
        case closed =>
          split at hs
          · simp at hs
          · rename_i hl
            simp only [Option.some.injEq, Prod.mk.injEq] at hs
            obtain ⟨rfl, rfl⟩ := hs
            simp only [replay, ih']
            simp [hl, Ans.str]
        case shut =>
          split at hs
          · simp at hs
          · rename_i hl
            simp only [Option.some.injEq, Prod.mk.injEq] at hs
            obtain ⟨rfl, rfl⟩ := hs
            simp only [replay, ih']
            simp [hl, Ans.str]
        all_goals
          split at hs
          · simp at hs
          · rename_i hl
            rw [Option.map_eq_some_iff] at hs
            obtain ⟨x, hst, hx⟩ := hs
            simp only [Prod.mk.injEq] at hx
            obtain ⟨rfl, rfl⟩ := hx
            simp only [replay, hst, ih']
            simp [hl, Ans.str]

/-! ### lists -/

theorem eraseAll?_of_perm {b m rest : List Nat} (h : m.Perm (b ++ rest)) :
    ∃ m', eraseAll? m b = some m' ∧ m'.Perm rest := by
  induction b generalizing m with
  | nil => exact ⟨m, rfl, h⟩
  | cons t ts ih =>
    have ht : t ∈ m := h.mem_iff.2 (by simp)
    have h2 : (m.erase t).Perm (ts ++ rest) := by
      have := h.erase t
      simpa using this
    obtain ⟨m', h1, h3⟩ := ih h2
    exact ⟨m', by simp [eraseAll?, ht, h1], h3⟩

theorem perm_of_eraseAll? {b m m' : List Nat} (h : eraseAll? m b = some m') : m.Perm (b ++ m') := by
  induction b generalizing m with
  | nil => simp [eraseAll?] at h; subst h; exact List.Perm.refl _
  | cons t ts ih =>
    simp only [eraseAll?] at h
    split at h
    · rename_i ht
      have ht : t ∈ m := by simpa using ht
      exact (List.perm_cons_erase ht).trans ((ih h).cons t)
    · simp at h

theorem set_getD_self (l : List (List Nat)) (w : Nat) : l.set w (l.getD w []) = l := by
  apply List.ext_getElem?
  intro i
  by_cases hw : w < l.length
  · by_cases hi : w = i
    · subst hi; simp [hw, List.getD_eq_getElem?_getD]
    · simp [hi]
  · rw [List.set_eq_of_length_le (by omega)]

theorem nats?_atom (a : String) : resToks? (.atom a) = none := rfl

theorem resToks?_list {r : SExp} {b : List Nat} (h : resToks? r = some b) : ∃ xs, r = .list xs := by
  cases r with
  | atom a => simp [nats?_atom] at h
  | list xs => exact ⟨xs, rfl⟩

/-! ### program counters against `parked` / `exited` / `mustWake` -/

theorem getElem?_notifyPicks (pcs : List Pc) (picks : List Nat) (w : Nat) :
    (notifyPicks pcs picks)[w]? = pcs[w]? ∨
      (pcs[w]? = some (.parked false) ∧ (notifyPicks pcs picks)[w]? = some (.parked true)) := by
  induction picks generalizing pcs with
  | nil => exact Or.inl rfl
  | cons v vs ih =>
    simp only [notifyPicks]
    split
    · rename_i hv
      rcases ih (pcs.set v (.parked true)) with h | ⟨h1, h2⟩
      · by_cases hvw : v = w
        · subst hvw
          right
          refine ⟨hv, ?_⟩
          rw [h]
          have := (List.getElem?_eq_some_iff.1 hv).1
          simp [this]
        · left; rw [h]; simp [hvw]
      · by_cases hvw : v = w
        · subst hvw
          have := (List.getElem?_eq_some_iff.1 hv).1
          simp [this] at h1
        · right
          simp [hvw] at h1
          exact ⟨h1, h2⟩
    · exact ih pcs

theorem getElem?_notifyAll_cases (pcs : List Pc) (w : Nat) :
    (pcs[w]? = none ∧ (notifyAll pcs)[w]? = none) ∨
    (pcs[w]? = some .running ∧ (notifyAll pcs)[w]? = some .running) ∨
    (pcs[w]? = some .exited ∧ (notifyAll pcs)[w]? = some .exited) ∨
    ((∃ b, pcs[w]? = some (.parked b)) ∧ (notifyAll pcs)[w]? = some (.parked true)) := by
  simp only [notifyAll, List.getElem?_map]
  cases h : pcs[w]? with
  | none => simp
  | some p => cases p <;> simp

structure PcSim (k : Nat) (pcs : List Pc) (P X M : List Nat) : Prop where
  len : pcs.length = k
  pn : P.Nodup
  p : ∀ w, w ∈ P ↔ ∃ b, pcs[w]? = some (.parked b)
  x : ∀ w, w ∈ X ↔ pcs[w]? = some .exited
  mn : M.Nodup
  m : ∀ w, w ∈ M → pcs[w]? = some (.parked true)


theorem PcSim.notifyPicks {k pcs P X M} (h : PcSim k pcs P X M) (picks : List Nat) :
    PcSim k (notifyPicks pcs picks) P X M := by
  refine ⟨by rw [length_notifyPicks]; exact h.len, h.pn, ?_, ?_, h.mn, ?_⟩
  · intro w; rw [h.p]
    rcases getElem?_notifyPicks pcs picks w with e | ⟨e1, e2⟩
    · rw [e]
    · rw [e1, e2]; simp
  · intro w; rw [h.x]
    rcases getElem?_notifyPicks pcs picks w with e | ⟨e1, e2⟩
    · rw [e]
    · rw [e1, e2]; simp
  · intro w hw
    have := h.m w hw
    rcases getElem?_notifyPicks pcs picks w with e | ⟨e1, e2⟩
    · rw [e]; exact this
    · exact e2

theorem PcSim.notifyAll {k pcs P X M} (h : PcSim k pcs P X M) : PcSim k (notifyAll pcs) P X P := by
  refine ⟨by rw [length_notifyAll]; exact h.len, h.pn, ?_, ?_, h.pn, ?_⟩
  · intro w; rw [h.p]
    rcases getElem?_notifyAll_cases pcs w with ⟨e1, e2⟩ | ⟨e1, e2⟩ | ⟨e1, e2⟩ | ⟨⟨b, e1⟩, e2⟩ <;> rw [e1, e2] <;> simp
  · intro w; rw [h.x]
    rcases getElem?_notifyAll_cases pcs w with ⟨e1, e2⟩ | ⟨e1, e2⟩ | ⟨e1, e2⟩ | ⟨⟨b, e1⟩, e2⟩ <;> rw [e1, e2] <;> simp
  · intro w hw
    obtain ⟨b, hb⟩ := (h.p w).1 hw
    rcases getElem?_notifyAll_cases pcs w with ⟨e1, e2⟩ | ⟨e1, e2⟩ | ⟨e1, e2⟩ | ⟨_, e2⟩
    · rw [hb] at e1; cases e1
    · rw [hb] at e1; cases e1
    · rw [hb] at e1; cases e1
    · exact e2

theorem PcSim.notifyAll' {k pcs P X M} (h : PcSim k pcs P X M) : PcSim k (Market.notifyAll pcs) P X M := by
  have h2 := h.notifyAll
  refine ⟨h2.len, h2.pn, h2.p, h2.x, h.mn, ?_⟩
  intro w hw
  have := h.m w hw
  exact h2.m w ((h.p w).2 ⟨true, this⟩)

theorem mem_erase_nodup {l : List Nat} (h : l.Nodup) (a b : Nat) : a ∈ l.erase b ↔ a ≠ b ∧ a ∈ l :=
  h.mem_erase_iff

/-- worker `w` (not exited) becomes / stays running -/
theorem PcSim.run {k pcs P X M} (h : PcSim k pcs P X M) {w : Nat} {p : Pc} (hw : pcs[w]? = some p)
    (hp : p ≠ .exited) : PcSim k (pcs.set w .running) (P.erase w) X (M.erase w) := by
  obtain ⟨hwl, hget⟩ := List.getElem?_eq_some_iff.1 hw
  refine ⟨by simpa using h.len, h.pn.erase w, ?_, ?_, h.mn.erase w, ?_⟩
  · intro v
    rw [mem_erase_nodup h.pn, h.p, List.getElem?_set]
    by_cases e : w = v
    · subst e; simp [hwl]
    · simp [e, Ne.symm e]
  · intro v
    rw [h.x, List.getElem?_set]
    by_cases e : w = v
    · subst e; simp [hwl, hget, hp]
    · simp [e]
  · intro v hv
    rw [mem_erase_nodup h.mn] at hv
    rw [List.getElem?_set]
    simp [Ne.symm hv.1, h.m v hv.2]

/-- worker `w` (not exited) goes to sleep -/
theorem PcSim.park {k pcs P X M} (h : PcSim k pcs P X M) {w : Nat} {p : Pc} (hw : pcs[w]? = some p)
    (hp : p ≠ .exited) : PcSim k (pcs.set w (.parked false)) (w :: P.erase w) X (M.erase w) := by
  obtain ⟨hwl, hget⟩ := List.getElem?_eq_some_iff.1 hw
  refine ⟨by simpa using h.len, ?_, ?_, ?_, h.mn.erase w, ?_⟩
  · exact List.nodup_cons.2 ⟨fun hm => ((mem_erase_nodup h.pn _ _).1 hm).1 rfl, h.pn.erase w⟩
  · intro v
    rw [List.mem_cons, mem_erase_nodup h.pn, h.p, List.getElem?_set]
    by_cases e : w = v
    · subst e; simp [hwl]
    · simp [e, Ne.symm e]
  · intro v
    rw [h.x, List.getElem?_set]
    by_cases e : w = v
    · subst e; simp [hwl, hget, hp]
    · simp [e]
  · intro v hv
    rw [mem_erase_nodup h.mn] at hv
    rw [List.getElem?_set]
    simp [Ne.symm hv.1, h.m v hv.2]

/-- a running worker leaves -/
theorem PcSim.exit {k pcs P X M} (h : PcSim k pcs P X M) {w : Nat} (hw : pcs[w]? = some .running) :
    PcSim k (pcs.set w .exited) P (w :: X) M := by
  obtain ⟨hwl, hget⟩ := List.getElem?_eq_some_iff.1 hw
  refine ⟨by simpa using h.len, h.pn, ?_, ?_, h.mn, ?_⟩
  · intro v
    rw [h.p, List.getElem?_set]
    by_cases e : w = v
    · subst e; simp [hwl, hget]
    · simp [e]
  · intro v
    rw [List.mem_cons, h.x, List.getElem?_set]
    by_cases e : w = v
    · subst e; simp [hwl]
    · simp [e, Ne.symm e]
  · intro v hv
    have := h.m v hv
    rw [List.getElem?_set]
    by_cases e : w = v
    · subst e; rw [hw] at this; cases this
    · simp [e, this]

theorem PcSim.not_parked {k pcs P X M} (h : PcSim k pcs P X M) {w : Nat} (hw : pcs[w]? = some .running) :
    w ∉ P := by
  intro hm; obtain ⟨b, hb⟩ := (h.p w).1 hm; rw [hw] at hb; cases hb

theorem PcSim.active {k pcs P X M} (h : PcSim k pcs P X M) {w : Nat} (hw : pcs[w]? = some .running) :
    (decide (w < k) && !P.contains w && !X.contains w) = true := by
  have hwl := (List.getElem?_eq_some_iff.1 hw).1
  have h1 : w ∉ P := h.not_parked hw
  have h2 : w ∉ X := by intro hm; have := (h.x w).1 hm; rw [hw] at this; cases this
  simp [← h.len, hwl, h1, h2]

theorem PcSim.must_nil {k pcs P X M} (h : PcSim k pcs P X M) (hp : pcs.contains (.parked true) = false) :
    M = [] := by
  cases M with
  | nil => rfl
  | cons v vs =>
    have := h.m v (by simp)
    have : Pc.parked true ∈ pcs := List.mem_of_getElem? this
    simp at hp; exact absurd this hp


/-! ### `split_and_push` keeps a prefix and shares the rest -/

theorem splitLoop_spec (n size : Nat) (loc : List Tok) (bs : List (List Tok)) :
    ∃ m, m ≤ loc.length ∧ (splitLoop n size loc bs).1 = loc.take m ∧
      (splitLoop n size loc bs).2.flatten = loc.drop m ++ bs.flatten ∧
      (splitLoop n size loc bs).2.count [] = bs.count [] := by
  induction n generalizing loc bs with
  | zero => exact ⟨loc.length, Nat.le_refl _, by simp [splitLoop], by simp [splitLoop], by simp [splitLoop]⟩
  | succ n ih =>
    simp only [splitLoop]
    have hsplit : ∀ m, m ≤ loc.length - size →
        loc.drop m = (loc.take (loc.length - size)).drop m ++ loc.drop (loc.length - size) := by
      intro m hm
      conv => lhs; rw [← List.take_append_drop (loc.length - size) loc]
      rw [List.drop_append_of_le_length (by simp; omega)]
    split
    · rename_i he
      have he : loc.drop (loc.length - size) = [] := by simpa using he
      obtain ⟨m, hm, h1, h2, h3⟩ := ih (loc.take (loc.length - size)) bs
      have hm' : m ≤ loc.length - size := by simpa using hm
      refine ⟨m, by omega, ?_, ?_, h3⟩
      · rw [h1, List.take_take]; congr 1; omega
      · rw [h2, hsplit m hm', he]; simp
    · rename_i he
      have he : loc.drop (loc.length - size) ≠ [] := by simpa using he
      obtain ⟨m, hm, h1, h2, h3⟩ := ih (loc.take (loc.length - size)) (loc.drop (loc.length - size) :: bs)
      have hm' : m ≤ loc.length - size := by simpa using hm
      refine ⟨m, by omega, ?_, ?_, ?_⟩
      · rw [h1, List.take_take]; congr 1; omega
      · rw [h2, hsplit m hm']; simp
      · rw [h3, List.count_cons]; simp [he]

theorem splitLoop_prefix (n size : Nat) (loc : List Tok) (bs : List (List Tok)) :
    (splitLoop n size loc bs).1 = loc.take (splitLoop n size loc bs).1.length := by
  obtain ⟨m, hm, h1, _⟩ := splitLoop_spec n size loc bs
  rw [h1, List.length_take, Nat.min_eq_left hm]

theorem splitLoop_flatten (n size : Nat) (loc : List Tok) (bs : List (List Tok)) :
    (splitLoop n size loc bs).2.flatten = loc.drop (splitLoop n size loc bs).1.length ++ bs.flatten := by
  obtain ⟨m, hm, h1, h2, _⟩ := splitLoop_spec n size loc bs
  rw [h1, List.length_take, Nat.min_eq_left hm, h2]

theorem splitLoop_count_nil (n size : Nat) (loc : List Tok) (bs : List (List Tok)) :
    (splitLoop n size loc bs).2.count [] = bs.count [] :=
  (splitLoop_spec n size loc bs).choose_spec.2.2.2

/-! ### the simulation relation -/

/-- the oracle has been told that the market is closed -/
def known (o : Obs) : Bool := o.shutSeen || o.dropSeen

def pushLike : Ev → Bool
  | .xpush _ | .push _ _ | .split _ => true
  | _ => false

/-- the event tells the oracle that the market is closed -/
def tells (s : MState) : Ev → Bool
  | .tfire | .xdrop | .drop _ => true
  | .shut => !s.isOpen
  | .closed => isClosed s
  | _ => false

structure Sim (k : Nat) (s : MState) (o : Obs) : Prop where
  pinv : PInv s
  pc : PcSim k s.pcs o.parked o.exited o.mustWake
  locs : o.locs = s.locs
  created : o.created = s.created
  kn : known o = true → s.isOpen = false
  dropS : o.dropSeen = true → s.dropped = true
  market : o.market.Perm s.batches.flatten
  eb : o.emptyBatches ≤ s.batches.count []
  lw : s.isOpen = false → known o = false → s.openCount = 0 ∧ s.batches = [] ∧ Pc.parked false ∉ s.pcs

theorem step_of_stepR {s : MState} {m : Step} {x : MState × Option PopRes} (h : stepR s m = some x) :
    step s m = some x.1 := by simp [step, h]

theorem not_any_created {s : MState} {toks : List Nat} (h : freshOk s toks = true) :
    (toks.any fun x => s.created.contains x) = false := by
  simp [freshOk] at h
  simpa using h.2

/-! ### every event preserves the simulation -/



theorem evStep_late {s : MState} {e : Ev} {picks : List Nat} {x : MState × Ans} (hw : isWakeEv e = false)
    (hs : evStep s e picks = some x) : s.pcs.contains (.parked true) = false := by
  unfold evStep at hs
  simp only [hw, Bool.not_false, Bool.true_and] at hs
  split at hs
  · simp at hs
  · rename_i hl; simpa [pendingWake] using hl

theorem Sim.known_false {k s o} (h : Sim k s o) (ho : s.isOpen = true) : (o.shutSeen || o.dropSeen) = false := by
  cases hko : known o with
  | false => exact hko
  | true => have := h.kn hko; simp [ho] at this

theorem sim_xpush {k s o picks s' a r toks} (h : Sim k s o)
    (hd : s.isOpen = true ∨ known o = true)
    (hs : evStep s (.xpush toks) picks = some (s', a)) :
    ∃ o', Sim k s' o' ∧ known o' = known o ∧ ∀ cont, obody k o (.xpush toks) r cont = cont o' := by
  have hM : o.mustWake = [] := h.pc.must_nil (evStep_late rfl hs)
  simp only [evStep] at hs
  split at hs
  · simp at hs
  rw [Option.map_eq_some_iff] at hs
  obtain ⟨x, hst, hx⟩ := hs
  have hpinv := pinv_step h.pinv (step_of_stepR hst)
  simp only [Prod.mk.injEq] at hx
  obtain ⟨rfl, rfl⟩ := hx
  by_cases hf : freshOk s toks = true
  case neg => simp [stepR, hf] at hst
  have hfr := not_any_created hf
  rw [← h.created] at hfr
  by_cases ho : s.isOpen = true
  case neg =>
    -- closed market
    have ho : s.isOpen = false := by simpa using ho
    have hk : (o.shutSeen || o.dropSeen) = true := by
      rcases hd with hd | hd
      · simp [ho] at hd
      · exact hd
    simp [stepR, hf, ho] at hst
    subst hst
    refine ⟨{ o with created := toks ++ o.created }, ?_, rfl, ?_⟩
    · exact ⟨hpinv, h.pc, h.locs, by simp [h.created], fun _ => rfl, h.dropS, h.market, h.eb, fun _ hk => h.lw ho hk⟩
    · intro cont
      simp only [obody, hM, hfr, hk, List.isEmpty_nil, Bool.not_true, Bool.false_eq_true, if_false, if_true]
  · have hk := h.known_false ho
    simp only [stepR, hf, ho, if_true, Bool.not_true, Bool.false_eq_true, if_false] at hst
    split at hst
    case isFalse => simp at hst
    simp only [Option.some.injEq] at hst; subst hst
    by_cases hte : toks = []
    · subst hte
      refine ⟨{ o with created := [] ++ o.created, emptyBatches := o.emptyBatches + 1 }, ?_, rfl, ?_⟩
      · refine ⟨hpinv, h.pc.notifyPicks _, h.locs, by simp [h.created], ?_, h.dropS, ?_, ?_, ?_⟩
        · intro hk2; simp only [known, hk] at hk2; cases hk2
        · simpa using h.market
        · simpa using h.eb
        · intro hc; simp at hc
      · intro cont
        simp only [obody, hM, hfr, hk, List.isEmpty_nil, Bool.not_true, Bool.false_eq_true, if_false, if_true]
    · refine ⟨{ o with created := toks ++ o.created, market := toks ++ o.market }, ?_, rfl, ?_⟩
      · refine ⟨hpinv, h.pc.notifyPicks _, h.locs, by simp [h.created], ?_, h.dropS, ?_, ?_, ?_⟩
        · intro hk2; simp only [known, hk] at hk2; cases hk2
        · simpa using h.market.append_left toks
        · simp [hte]; exact h.eb
        · intro hc; simp at hc
      · intro cont
        have hte' : toks.isEmpty = false := by simpa using hte
        simp only [obody, hM, hfr, hk, hte', List.isEmpty_nil, Bool.not_true, Bool.false_eq_true, if_false, if_true]



theorem count_nil_cons_nil (bs : List (List Nat)) : List.count [] ([] :: bs) = bs.count [] + 1 := by simp

theorem count_nil_cons_ne {b : List Nat} (bs : List (List Nat)) (h : b ≠ []) : List.count [] (b :: bs) = bs.count [] := by
  rw [List.count_cons]; simp [h]

theorem sim_push {k s o picks s' a r w n} (h : Sim k s o)
    (hd : s.isOpen = true ∨ known o = true)
    (hs : evStep s (.push w n) picks = some (s', a)) :
    ∃ o', Sim k s' o' ∧ known o' = known o ∧ ∀ cont, obody k o (.push w n) r cont = cont o' := by
  have hM : o.mustWake = [] := h.pc.must_nil (evStep_late rfl hs)
  simp only [evStep] at hs
  split at hs
  · simp at hs
  rw [Option.map_eq_some_iff] at hs
  obtain ⟨x, hst, hx⟩ := hs
  have hpinv := pinv_step h.pinv (step_of_stepR hst)
  simp only [Prod.mk.injEq] at hx
  obtain ⟨rfl, rfl⟩ := hx
  by_cases hw : s.pcs[w]? = some .running
  case neg => simp [stepR, hw] at hst
  have hact := h.pc.active hw
  by_cases ho : s.isOpen = true
  case neg =>
    have ho : s.isOpen = false := by simpa using ho
    have hk : (o.shutSeen || o.dropSeen) = true := by
      rcases hd with hd | hd
      · simp [ho] at hd
      · exact hd
    simp [stepR, hw, ho] at hst
    subst hst
    refine ⟨{ o with locs := o.locs.set w ((o.locs.getD w []).drop n) }, ?_, rfl, ?_⟩
    · exact ⟨hpinv, h.pc, by simp [h.locs], h.created, fun _ => rfl, h.dropS, h.market, h.eb, fun _ hk => h.lw ho hk⟩
    · intro cont
      simp only [obody, hM, hact, hk, List.isEmpty_nil, Bool.not_true, Bool.false_eq_true, if_false, if_true]
  · have hk := h.known_false ho
    simp only [stepR, hw, ho, if_true, Bool.not_true, Bool.false_eq_true, if_false] at hst
    split at hst
    case isFalse => simp at hst
    simp only [Option.some.injEq] at hst; subst hst
    by_cases hte : (s.locs.getD w []).take n = []
    · refine ⟨{ o with locs := o.locs.set w ((o.locs.getD w []).drop n), emptyBatches := o.emptyBatches + 1 }, ?_, rfl, ?_⟩
      · refine ⟨hpinv, h.pc.notifyPicks _, by simp [h.locs], h.created, ?_, h.dropS, ?_, ?_, ?_⟩
        · intro hk2; simp only [known, hk] at hk2; cases hk2
        · show o.market.Perm (List.flatten (_ :: s.batches))
          rw [hte]; exact h.market
        · show o.emptyBatches + 1 ≤ List.count [] (_ :: s.batches)
          rw [hte, count_nil_cons_nil]; exact Nat.succ_le_succ h.eb
        · intro hc; simp at hc
      · intro cont
        have hte' : ((o.locs.getD w []).take n).isEmpty = true := by rw [h.locs]; simpa using hte
        simp only [obody, hM, hact, hk, hte', List.isEmpty_nil, Bool.not_true, Bool.false_eq_true, if_false, if_true]
    · refine ⟨{ o with locs := o.locs.set w ((o.locs.getD w []).drop n), market := (o.locs.getD w []).take n ++ o.market }, ?_, rfl, ?_⟩
      · refine ⟨hpinv, h.pc.notifyPicks _, by simp [h.locs], h.created, ?_, h.dropS, ?_, ?_, ?_⟩
        · intro hk2; simp only [known, hk] at hk2; cases hk2
        · rw [h.locs]; simpa using h.market.append_left _
        · show o.emptyBatches ≤ List.count [] (_ :: s.batches)
          rw [count_nil_cons_ne _ hte]; exact h.eb
        · intro hc; simp at hc
      · intro cont
        have hte' : ((o.locs.getD w []).take n).isEmpty = false := by rw [h.locs]; simpa using hte
        simp only [obody, hM, hact, hk, hte', List.isEmpty_nil, Bool.not_true, Bool.false_eq_true, if_false, if_true]

theorem sim_work {k s o picks s' a r w c fresh} (h : Sim k s o)
    (hs : evStep s (.work w c fresh) picks = some (s', a)) :
    ∃ o', Sim k s' o' ∧ known o' = known o ∧ ∀ cont, obody k o (.work w c fresh) r cont = cont o' := by
  have hM : o.mustWake = [] := h.pc.must_nil (evStep_late rfl hs)
  simp only [evStep] at hs
  split at hs
  · simp at hs
  rw [Option.map_eq_some_iff] at hs
  obtain ⟨x, hst, hx⟩ := hs
  have hpinv := pinv_step h.pinv (step_of_stepR hst)
  simp only [Prod.mk.injEq] at hx
  obtain ⟨rfl, rfl⟩ := hx
  by_cases hw : s.pcs[w]? = some .running
  case neg => simp [stepR, hw] at hst
  have hact := h.pc.active hw
  by_cases hf : freshOk s fresh = true
  case neg => simp [stepR, hf] at hst
  have hfr := not_any_created hf
  rw [← h.created] at hfr
  simp [stepR, hw, hf] at hst
  subst hst
  refine ⟨{ o with locs := o.locs.set w (fresh ++ (o.locs.getD w []).take ((o.locs.getD w []).length - c)),
                   created := fresh ++ o.created }, ?_, rfl, ?_⟩
  · exact ⟨hpinv, h.pc, by simp [h.locs], by simp [h.created], h.kn, h.dropS, h.market, h.eb, h.lw⟩
  · intro cont
    simp only [obody, hM, hact, hfr, List.isEmpty_nil, Bool.not_true, Bool.false_eq_true, if_false, if_true]



theorem getD_set_self (l : List (List Nat)) (w : Nat) (x : List Nat) (h : w < l.length) :
    (l.set w x).getD w [] = x := by
  simp [List.getD_eq_getElem?_getD, h]

theorem sim_split {k s o picks s' a r w} (h : Sim k s o)
    (hd : s.isOpen = true ∨ known o = true)
    (hs : evStep s (.split w) picks = some (s', a)) (hr : Renders a r) :
    ∃ o', Sim k s' o' ∧ known o' = known o ∧ ∀ cont, obody k o (.split w) r cont = cont o' := by
  have hM : o.mustWake = [] := h.pc.must_nil (evStep_late rfl hs)
  simp only [evStep] at hs
  split at hs
  · simp at hs
  rw [Option.map_eq_some_iff] at hs
  obtain ⟨x, hst, hx⟩ := hs
  have hpinv := pinv_step h.pinv (step_of_stepR hst)
  simp only [Prod.mk.injEq] at hx
  obtain ⟨rfl, rfl⟩ := hx
  by_cases hw : s.pcs[w]? = some .running
  case neg => simp [stepR, hw] at hst
  have hact := h.pc.active hw
  have hwl : w < s.locs.length := by rw [← h.pinv.wf]; exact (List.getElem?_eq_some_iff.1 hw).1
  by_cases ho : s.isOpen = true
  case neg =>
    have ho : s.isOpen = false := by simpa using ho
    have hk : (o.shutSeen || o.dropSeen) = true := by
      rcases hd with hd | hd
      · simp [ho] at hd
      · exact hd
    simp [stepR, hw, ho] at hst
    subst hst
    have hr : resToks? r = some [] := by
      have : (s.locs.set w []).getD w [] = [] := getD_set_self _ _ _ hwl
      have hr' : resToks? r = some ((s.locs.set w []).getD w []) := hr
      rw [this] at hr'; exact hr'
    refine ⟨{ o with locs := o.locs.set w [] }, ?_, rfl, ?_⟩
    · exact ⟨hpinv, h.pc, by simp [h.locs], h.created, fun _ => rfl, h.dropS, h.market, h.eb, fun _ hk => h.lw ho hk⟩
    · intro cont
      simp only [obody, hM, hact, hk, hr, List.isEmpty_nil, Bool.not_true, Bool.false_eq_true, if_false, if_true]
  · have hk := h.known_false ho
    simp only [stepR, hw, ho, if_true, Bool.not_true, Bool.false_eq_true, if_false] at hst
    split at hst
    case isFalse => simp at hst
    simp only [Option.some.injEq] at hst; subst hst
    generalize hsl : splitLoop (splitPieces s (s.locs.getD w []).length - 1) (splitSize s (s.locs.getD w []).length)
      (s.locs.getD w []) s.batches = sl at *
    have h1 := splitLoop_prefix (splitPieces s (s.locs.getD w []).length - 1) (splitSize s (s.locs.getD w []).length)
      (s.locs.getD w []) s.batches
    have h2 := splitLoop_flatten (splitPieces s (s.locs.getD w []).length - 1) (splitSize s (s.locs.getD w []).length)
      (s.locs.getD w []) s.batches
    have h3 := splitLoop_count_nil (splitPieces s (s.locs.getD w []).length - 1) (splitSize s (s.locs.getD w []).length)
      (s.locs.getD w []) s.batches
    rw [hsl] at h1 h2 h3
    have hr : resToks? r = some sl.1 := by
      have : (s.locs.set w sl.1).getD w [] = sl.1 := getD_set_self _ _ _ hwl
      have hr' : resToks? r = some ((s.locs.set w sl.1).getD w []) := hr
      rw [this] at hr'; exact hr'
    have hperm : (o.locs.getD w []).Perm (sl.1 ++ (o.locs.getD w []).drop sl.1.length) := by
      rw [h.locs]
      conv => lhs; rw [← List.take_append_drop sl.1.length (s.locs.getD w [])]
      rw [← h1]
    obtain ⟨rest, hre, hrp⟩ := eraseAll?_of_perm hperm
    refine ⟨{ o with locs := o.locs.set w sl.1, market := rest ++ o.market }, ?_, rfl, ?_⟩
    · refine ⟨hpinv, h.pc.notifyPicks _, by simp [h.locs], h.created, ?_, h.dropS, ?_, ?_, ?_⟩
      · intro hk2; simp only [known, hk] at hk2; cases hk2
      · show (rest ++ o.market).Perm sl.2.flatten
        rw [h2, ← h.locs]; exact hrp.append h.market
      · show o.emptyBatches ≤ List.count [] sl.2
        rw [h3]; exact h.eb
      · intro hc; simp at hc
    · intro cont
      simp only [obody, hM, hact, hk, hr, hre, List.isEmpty_nil, Bool.not_true, Bool.false_eq_true, if_false, if_true]

theorem sim_drop {k s o picks s' a r w} (h : Sim k s o)
    (hs : evStep s (.drop w) picks = some (s', a)) :
    ∃ o', Sim k s' o' ∧ known o' = true ∧ ∀ cont, obody k o (.drop w) r cont = cont o' := by
  have hM : o.mustWake = [] := h.pc.must_nil (evStep_late rfl hs)
  simp only [evStep] at hs
  split at hs
  · simp at hs
  rw [Option.map_eq_some_iff] at hs
  obtain ⟨x, hst, hx⟩ := hs
  have hpinv := pinv_step h.pinv (step_of_stepR hst)
  simp only [Prod.mk.injEq] at hx
  obtain ⟨rfl, rfl⟩ := hx
  by_cases hw : s.pcs[w]? = some .running
  case neg => simp [stepR, hw] at hst
  have hact := h.pc.active hw
  simp only [stepR, hw, if_true, Option.some.injEq] at hst
  subst hst
  refine ⟨{ o with exited := w :: o.exited, locs := o.locs.set w [], dropSeen := true, market := [],
                   emptyBatches := 0, mustWake := o.parked }, ?_, by simp [known], ?_⟩
  · refine ⟨hpinv, (h.pc.notifyAll).exit (getElem?_notifyAll_running hw), by simp [h.locs, dropMarket], h.created,
      fun _ => rfl, fun _ => rfl, List.Perm.refl _, Nat.zero_le _, ?_⟩
    intro _ hk; simp [known] at hk
  · intro cont
    simp only [obody, hM, hact, List.isEmpty_nil, Bool.not_true, Bool.false_eq_true, if_false, if_true]

theorem sim_xdrop {k s o picks s' a r} (h : Sim k s o)
    (hs : evStep s .xdrop picks = some (s', a)) :
    ∃ o', Sim k s' o' ∧ known o' = true ∧ ∀ cont, obody k o .xdrop r cont = cont o' := by
  have hM : o.mustWake = [] := h.pc.must_nil (evStep_late rfl hs)
  simp only [evStep] at hs
  split at hs
  · simp at hs
  rw [Option.map_eq_some_iff] at hs
  obtain ⟨x, hst, hx⟩ := hs
  have hpinv := pinv_step h.pinv (step_of_stepR hst)
  simp only [Prod.mk.injEq] at hx
  obtain ⟨rfl, rfl⟩ := hx
  simp only [stepR, Option.some.injEq] at hst
  subst hst
  refine ⟨{ o with dropSeen := true, market := [], emptyBatches := 0, mustWake := o.parked }, ?_, by simp [known], ?_⟩
  · refine ⟨hpinv, h.pc.notifyAll, h.locs, h.created,
      fun _ => rfl, fun _ => rfl, List.Perm.refl _, Nat.zero_le _, ?_⟩
    intro _ hk; simp [known] at hk
  · intro cont
    simp only [obody, hM, List.isEmpty_nil, Bool.not_true, Bool.false_eq_true, if_false, if_true]

theorem sim_tfire {k s o picks s' a r} (h : Sim k s o)
    (hs : evStep s .tfire picks = some (s', a)) :
    ∃ o', Sim k s' o' ∧ known o' = true ∧ ∀ cont, obody k o .tfire r cont = cont o' := by
  have hM : o.mustWake = [] := h.pc.must_nil (evStep_late rfl hs)
  simp only [evStep] at hs
  split at hs
  · simp at hs
  rw [Option.map_eq_some_iff] at hs
  obtain ⟨x, hst, hx⟩ := hs
  have hpinv := pinv_step h.pinv (step_of_stepR hst)
  simp only [Prod.mk.injEq] at hx
  obtain ⟨rfl, rfl⟩ := hx
  simp only [stepR, Option.some.injEq] at hst
  subst hst
  refine ⟨{ o with shutSeen := true }, ?_, by simp [known], ?_⟩
  · refine ⟨hpinv, h.pc, h.locs, h.created, fun _ => rfl, h.dropS, h.market, h.eb, ?_⟩
    intro _ hk; simp [known] at hk
  · intro cont
    simp only [obody, hM, List.isEmpty_nil, Bool.not_true, Bool.false_eq_true, if_false, if_true]

theorem sim_clone {k s o picks s' a r} (h : Sim k s o)
    (hs : evStep s .clone picks = some (s', a)) :
    ∃ o', Sim k s' o' ∧ known o' = known o ∧ ∀ cont, obody k o .clone r cont = cont o' := by
  have hM : o.mustWake = [] := h.pc.must_nil (evStep_late rfl hs)
  simp only [evStep] at hs
  split at hs
  · simp at hs
  simp only [Option.some.injEq, Prod.mk.injEq] at hs
  obtain ⟨rfl, rfl⟩ := hs
  refine ⟨o, h, rfl, ?_⟩
  intro cont
  simp only [obody, hM, List.isEmpty_nil, Bool.not_true, Bool.false_eq_true, if_false, if_true]

theorem perm_nil_eq {l : List Nat} (h : l.Perm []) : l = [] := List.Perm.eq_nil h

theorem sim_closed {k s o picks s' a r} (h : Sim k s o)
    (hs : evStep s .closed picks = some (s', a)) (hr : Renders a r) :
    ∃ o', Sim k s' o' ∧ known o' = (known o || isClosed s) ∧ ∀ cont, obody k o .closed r cont = cont o' := by
  have hM : o.mustWake = [] := h.pc.must_nil (evStep_late rfl hs)
  simp only [evStep] at hs
  split at hs
  · simp at hs
  simp only [Option.some.injEq, Prod.mk.injEq] at hs
  obtain ⟨rfl, rfl⟩ := hs
  have hr : r.bool? = some (isClosed s) := hr
  cases hc : isClosed s
  · rw [hc] at hr
    refine ⟨o, h, by simp, ?_⟩
    intro cont
    simp only [obody, hM, hr, List.isEmpty_nil, Bool.not_true, Bool.false_eq_true, if_false, if_true, Bool.false_and]
  · rw [hc] at hr
    simp only [isClosed, Bool.and_eq_true, Bool.not_eq_true', List.isEmpty_iff, beq_iff_eq] at hc
    obtain ⟨⟨ho, hb⟩, hoc⟩ := hc
    have hm : o.market = [] := by have := h.market; rw [hb] at this; exact perm_nil_eq this
    have he : o.emptyBatches = 0 := by have := h.eb; rw [hb] at this; simpa using this
    refine ⟨{ o with shutSeen := true }, ?_, by simp [known], ?_⟩
    · refine ⟨h.pinv, h.pc, h.locs, h.created, fun _ => ho, h.dropS, h.market, h.eb, ?_⟩
      intro _ hk; simp [known] at hk
    · intro cont
      simp only [obody, hM, hr, hm, he, List.isEmpty_nil, Bool.not_true, Bool.false_eq_true, if_false, if_true,
        Bool.true_and, beq_self_eq_true, Bool.and_self]

theorem sim_shut {k s o picks s' a r} (h : Sim k s o)
    (hs : evStep s .shut picks = some (s', a)) (hr : Renders a r) :
    ∃ o', Sim k s' o' ∧ known o' = (known o || !s.isOpen) ∧ ∀ cont, obody k o .shut r cont = cont o' := by
  have hM : o.mustWake = [] := h.pc.must_nil (evStep_late rfl hs)
  simp only [evStep] at hs
  split at hs
  · simp at hs
  simp only [Option.some.injEq, Prod.mk.injEq] at hs
  obtain ⟨rfl, rfl⟩ := hs
  have hr : r.bool? = some (!s.isOpen) := hr
  by_cases ho : s.isOpen = true
  · rw [ho] at hr
    have hk := h.known_false ho
    refine ⟨o, h, by simp [ho], ?_⟩
    intro cont
    simp only [obody, hM, hr, hk, List.isEmpty_nil, Bool.not_true, Bool.false_eq_true, if_false, if_true,
      Bool.false_and, Bool.not_false, Bool.and_false, Bool.and_self]
  · have ho : s.isOpen = false := by simpa using ho
    rw [ho] at hr
    cases hk : (o.shutSeen || o.dropSeen)
    · obtain ⟨hoc, hb, hnp⟩ := h.lw ho hk
      have hm : o.market = [] := by have := h.market; rw [hb] at this; exact perm_nil_eq this
      refine ⟨{ o with shutSeen := true, mustWake := o.parked }, ?_, by simp [known, ho], ?_⟩
      · refine ⟨h.pinv, ⟨h.pc.len, h.pc.pn, h.pc.p, h.pc.x, h.pc.pn, ?_⟩, h.locs, h.created, fun _ => ho, h.dropS,
          h.market, h.eb, ?_⟩
        · intro v hv
          obtain ⟨b, hb⟩ := (h.pc.p v).1 hv
          cases b with
          | true => exact hb
          | false => exact absurd (List.mem_of_getElem? hb) hnp
        · intro _ hk; simp [known] at hk
      · intro cont
        simp only [obody, hM, hr, hk, hm, List.isEmpty_nil, Bool.not_true, Bool.false_eq_true, if_false, if_true,
          Bool.false_and, Bool.not_false, Bool.and_false, Bool.and_self, Bool.true_and]
    · refine ⟨o, h, by simp [known, hk], ?_⟩
      intro cont
      simp only [obody, hM, hr, hk, List.isEmpty_nil, Bool.not_true, Bool.false_eq_true, if_false, if_true,
        Bool.false_and, Bool.not_false, Bool.and_false, Bool.and_self, Bool.true_and]



theorem set_running_self {pcs : List Pc} {w : Nat} (h : pcs[w]? = some .running) : pcs.set w .running = pcs := by
  obtain ⟨hwl, hget⟩ := List.getElem?_eq_some_iff.1 h
  rw [← hget]; exact List.set_getElem_self hwl

theorem exists_running_ne {pcs : List Pc} {w : Nat} (h : 0 < (pcs.set w (.parked false)).count .running) :
    ∃ v, v ≠ w ∧ pcs[v]? = some .running := by
  have hm : Pc.running ∈ pcs.set w (.parked false) := List.count_pos_iff.1 h
  obtain ⟨v, hv⟩ := List.getElem?_of_mem hm
  rw [List.getElem?_set] at hv
  by_cases e : w = v
  · subst e; simp at hv
  · simp [e] at hv; exact ⟨v, Ne.symm e, hv⟩

theorem awake_other {k pcs P X M} (h : PcSim k pcs P X M) {v w : Nat} (hv : pcs[v]? = some .running) (hvw : v ≠ w)
    (o1 : Obs) (hp : o1.parked = P.erase w) (hx : o1.exited = X) :
    ((awake o1 k).all (· == w)) = false := by
  cases hall : (awake o1 k).all (· == w) with
  | false => rfl
  | true =>
    rw [List.all_eq_true] at hall
    have hvl : v < k := by rw [← h.len]; exact (List.getElem?_eq_some_iff.1 hv).1
    have h1 : v ∉ P.erase w := fun hm => h.not_parked hv ((mem_erase_nodup h.pn _ _).1 hm).2
    have h2 : v ∉ X := by intro hm; have := (h.x v).1 hm; rw [hv] at this; cases this
    have : v ∈ awake o1 k := by
      simp only [awake, List.mem_filter, List.mem_range]
      refine ⟨hvl, ?_⟩
      rw [hp, hx]; simp [h1, h2]
    have := hall v this
    simp at this; exact absurd this hvw

/-- the `popLike` part of the oracle -/

def opop (k : Nat) (o0 : Obs) (w : Nat) (isWake : Bool) (r : SExp) (cont : Obs → Except String Obs) :
    Except String Obs :=
  let closedKnown := o0.shutSeen || o0.dropSeen
  let o := { o0 with parked := o0.parked.erase w, mustWake := o0.mustWake.erase w }
  match r with
  | .atom "park" =>
    if !o.market.isEmpty then .error "worker-sleeps-while-jobs-are-on-the-market"
    else if o.emptyBatches > 0 then .error "worker-sleeps-while-a-batch-is-on-the-market"
    else if (awake o k).all (· == w) then .error "everybody-asleep:nobody-left-to-wake-them"
    else if !isWake && closedKnown then .error "pop-sleeps-on-a-closed-market"
    else cont { o with parked := w :: o.parked }
  | r =>
    match resToks? r with
    | none => .error "malformed-result"
    | some [] =>
      cont { o with emptyBatches := o.emptyBatches - 1 }
    | some b =>
      if o.dropSeen then .error "jobs-handed-out-after-a-drop"
      else if !isWake && o.shutSeen then .error "pop-hands-out-jobs-on-a-closed-market"
      else match eraseAll? o.market b with
        | none => .error "job-handed-out-that-is-not-on-the-market(duplicated-or-invented)"
        | some m' =>
          cont { o with market := m', locs := o.locs.set w (o.locs.getD w [] ++ b) }

theorem obody_pop {k o w r cont} (hact : (decide (w < k) && !o.parked.contains w && !o.exited.contains w) = true)
    (hM : o.mustWake = []) : obody k o (.pop w) r cont = opop k o w false r cont := by
  simp only [obody, opop, hact, hM, List.isEmpty_nil, Bool.not_true, Bool.false_eq_true, if_false] <;> rfl

theorem obody_wake {k o w r cont} (hp : o.parked.contains w = true) :
    obody k o (.wake w) r cont = opop k o w true r cont := by
  simp only [obody, opop, hp, if_true] <;> rfl

theorem opop_list {k o w isWake xs cont} :
    opop k o w isWake (.list xs) cont =
      (let o1 : Obs := { o with parked := o.parked.erase w, mustWake := o.mustWake.erase w }
       match resToks? (.list xs) with
        | none => .error "malformed-result"
        | some [] => cont { o1 with emptyBatches := o1.emptyBatches - 1 }
        | some b =>
          if o1.dropSeen then .error "jobs-handed-out-after-a-drop"
          else if !isWake && o1.shutSeen then .error "pop-hands-out-jobs-on-a-closed-market"
          else match eraseAll? o1.market b with
            | none => .error "job-handed-out-that-is-not-on-the-market(duplicated-or-invented)"
            | some m' => cont { o1 with market := m', locs := o1.locs.set w (o1.locs.getD w [] ++ b) }) := rfl

theorem sim_popLoop {k s o w p r} (isWake : Bool) (c : Nat) (h : Sim k s o)
    (hw : s.pcs[w]? = some p) (hp : p ≠ .exited)
    (hpi : PInv (popLoop { s with openCount := c } w).1)
    (hcr : c - 1 ≤ (s.pcs.set w (.parked false)).count .running)
    (hpop : isWake = false → s.isOpen = true)
    (hlw : s.isOpen = false → known o = false → c - 1 = 0)
    (hr : Renders (.pop (popLoop { s with openCount := c } w).2) r) :
    ∃ o', Sim k (popLoop { s with openCount := c } w).1 o' ∧ known o' = known o ∧
      ∀ cont, opop k o w isWake r cont = cont o' := by
  have hnw : (!isWake && (o.shutSeen || o.dropSeen)) = false := by
    cases isWake with
    | true => rfl
    | false => simp [h.known_false (hpop rfl)]
  have hnw2 : (!isWake && o.shutSeen) = false := by
    cases isWake with
    | true => rfl
    | false => have := h.known_false (hpop rfl); simp at this; simp [this.1]
  have hwl : w < s.locs.length := by rw [← h.pinv.wf]; exact (List.getElem?_eq_some_iff.1 hw).1
  unfold popLoop at hpi hr ⊢
  cases hb : s.batches with
  | cons b rest =>
    simp only [hb] at hpi hr ⊢
    have hr : resToks? r = some b := hr
    obtain ⟨xs, rfl⟩ := resToks?_list hr
    have hmk : o.market.Perm (b ++ rest.flatten) := by have := h.market; rw [hb] at this; simpa using this
    have hlw' : ¬ (s.isOpen = false ∧ known o = false) := by
      rintro ⟨h1, h2⟩; have := (h.lw h1 h2).2.1; rw [hb] at this; cases this
    cases b with
    | nil =>
      refine ⟨{ o with parked := o.parked.erase w, mustWake := o.mustWake.erase w, emptyBatches := o.emptyBatches - 1 },
        ?_, rfl, ?_⟩
      · refine ⟨hpi, h.pc.run hw hp, ?_, h.created, h.kn, h.dropS, by simpa using hmk, ?_, ?_⟩
        · show o.locs = s.locs.set w (s.locs.getD w [] ++ [])
          rw [List.append_nil, set_getD_self]; exact h.locs
        · have := h.eb; rw [hb, count_nil_cons_nil] at this
          show o.emptyBatches - 1 ≤ List.count [] rest
          omega
        · intro h1 h2; exact absurd ⟨h1, h2⟩ hlw'
      · intro cont
        rw [opop_list]; simp only [hr]
    | cons t ts =>
      obtain ⟨m', hm1, hm2⟩ := eraseAll?_of_perm hmk
      have hds : o.dropSeen = false := by
        cases hd : o.dropSeen with
        | false => rfl
        | true => have := (h.pinv.dropped (h.dropS hd)).2; rw [hb] at this; cases this
      refine ⟨{ o with parked := o.parked.erase w, mustWake := o.mustWake.erase w, market := m',
                       locs := o.locs.set w (o.locs.getD w [] ++ (t :: ts)) }, ?_, rfl, ?_⟩
      · refine ⟨hpi, h.pc.run hw hp, ?_, h.created, h.kn, h.dropS, hm2, ?_, ?_⟩
        · show o.locs.set w (o.locs.getD w [] ++ (t :: ts)) = s.locs.set w (s.locs.getD w [] ++ (t :: ts))
          rw [h.locs]
        · have := h.eb; rw [hb, count_nil_cons_ne _ (by simp)] at this; exact this
        · intro h1 h2; exact absurd ⟨h1, h2⟩ hlw'
      · intro cont
        rw [opop_list]; simp only [hr, hds, hnw2, hm1, Bool.false_eq_true, if_false]
  | nil =>
    simp only [hb] at hpi hr ⊢
    have hmk : o.market = [] := by have := h.market; rw [hb] at this; exact perm_nil_eq this
    have heb : o.emptyBatches = 0 := by have := h.eb; rw [hb] at this; simpa using this
    by_cases hoc : (c - 1 == 0) = true
    · simp only [hoc, if_true] at hpi hr ⊢
      have hr : resToks? r = some [] := hr
      obtain ⟨xs, rfl⟩ := resToks?_list hr
      refine ⟨{ o with parked := o.parked.erase w, mustWake := o.mustWake.erase w, emptyBatches := o.emptyBatches - 1 },
        ?_, rfl, ?_⟩
      · refine ⟨hpi, (h.pc.run hw hp).notifyAll', h.locs, h.created, fun _ => rfl, h.dropS, ?_, ?_, ?_⟩
        · show o.market.Perm ([] : List (List Nat)).flatten
          rw [hmk]; exact List.Perm.refl _
        · show o.emptyBatches - 1 ≤ _
          rw [heb]; exact Nat.zero_le _
        · intro _ _; exact ⟨rfl, rfl, not_parkedFalse_mem_notifyAll _⟩
      · intro cont
        rw [opop_list]; simp only [hr]
    · simp only [hoc, Bool.false_eq_true, if_false] at hpi hr ⊢
      have hr : r = .atom "park" := hr
      subst hr
      have hoc' : c - 1 ≠ 0 := by simpa using hoc
      obtain ⟨v, hvw, hv⟩ := exists_running_ne (w := w) (pcs := s.pcs) (by omega)
      have haw := awake_other h.pc hv hvw
        { o with parked := o.parked.erase w, mustWake := o.mustWake.erase w } rfl rfl
      refine ⟨{ o with parked := w :: o.parked.erase w, mustWake := o.mustWake.erase w }, ?_, rfl, ?_⟩
      · refine ⟨hpi, h.pc.park hw hp, h.locs, h.created, h.kn, h.dropS, ?_, ?_, ?_⟩
        · show o.market.Perm ([] : List (List Nat)).flatten
          rw [hmk]; exact List.Perm.refl _
        · show o.emptyBatches ≤ _
          rw [heb]; exact Nat.zero_le _
        · intro h1 h2; exact absurd (hlw h1 h2) hoc'
      · intro cont
        have hmk' : o.market.isEmpty = true := by rw [hmk]; rfl
        have heb' : ¬ (o.emptyBatches > 0) := by omega
        simp only [opop, hmk', heb', haw, hnw, Bool.not_true, Bool.false_eq_true, if_false]

theorem sim_pop {k s o picks s' a r w} (h : Sim k s o)
    (hs : evStep s (.pop w) picks = some (s', a)) (hr : Renders a r) :
    ∃ o', Sim k s' o' ∧ known o' = known o ∧ ∀ cont, obody k o (.pop w) r cont = cont o' := by
  have hM : o.mustWake = [] := h.pc.must_nil (evStep_late rfl hs)
  simp only [evStep] at hs
  split at hs
  · simp at hs
  by_cases hw : s.pcs[w]? = some .running
  case neg => simp [stepR, hw] at hs
  have hact := h.pc.active hw
  obtain ⟨hwl, hget⟩ := List.getElem?_eq_some_iff.1 hw
  by_cases ho : s.isOpen = true
  case neg =>
    have ho : s.isOpen = false := by simpa using ho
    simp only [stepR, hw, ho, if_true, Bool.not_false, Option.some.injEq, Prod.mk.injEq] at hs
    obtain ⟨rfl, rfl⟩ := hs
    have hr : resToks? r = some [] := hr
    obtain ⟨xs, rfl⟩ := resToks?_list hr
    refine ⟨{ o with parked := o.parked.erase w, mustWake := o.mustWake.erase w, emptyBatches := o.emptyBatches - 1 },
      ?_, rfl, ?_⟩
    · have hpc := h.pc.run hw (by simp)
      rw [set_running_self hw] at hpc
      refine ⟨h.pinv, hpc, h.locs, h.created, h.kn, h.dropS, h.market, ?_, h.lw⟩
      have := h.eb
      show o.emptyBatches - 1 ≤ _
      omega
    · intro cont
      rw [obody_pop hact hM, opop_list]; simp only [hr]
  · have hst : stepR s (.popBegin w) = some ((popLoop s w).1, some (popLoop s w).2) := by
      simp [stepR, hw, ho]
    rw [hst] at hs
    simp only [Option.some.injEq, Prod.mk.injEq] at hs
    obtain ⟨rfl, rfl⟩ := hs
    have hpi : PInv (popLoop s w).1 := pinv_step h.pinv (step_of_stepR hst)
    have hcr : s.openCount - 1 ≤ (s.pcs.set w (.parked false)).count .running := by
      have h1 := count_running_set s.pcs w (.parked false) hwl
      rw [if_pos hget, if_neg (by simp)] at h1
      have := h.pinv.oc
      omega
    obtain ⟨o', ho1, ho2, ho3⟩ := sim_popLoop (k := k) (s := s) (o := o) (w := w) (p := .running) (r := r) false
      s.openCount h hw (by simp) hpi hcr (fun _ => ho) (fun hc => by simp [ho] at hc) hr
    refine ⟨o', ho1, ho2, ?_⟩
    intro cont
    rw [obody_pop hact hM]; exact ho3 cont

theorem sim_wake {k s o picks s' a r w} (h : Sim k s o)
    (hs : evStep s (.wake w) picks = some (s', a)) (hr : Renders a r) :
    ∃ o', Sim k s' o' ∧ known o' = known o ∧ ∀ cont, obody k o (.wake w) r cont = cont o' := by
  simp only [evStep, isWakeEv, Bool.not_true, Bool.false_and, Bool.false_eq_true, if_false] at hs
  by_cases hw : s.pcs[w]? = some (.parked true)
  case neg => simp [hw] at hs
  simp only [hw, beq_self_eq_true, if_true] at hs
  obtain ⟨hwl, hget⟩ := List.getElem?_eq_some_iff.1 hw
  have hst : stepR s (.wake w) = some ((popLoop { s with openCount := s.openCount + 1 } w).1,
      some (popLoop { s with openCount := s.openCount + 1 } w).2) := by
    simp [stepR, hw]
  rw [hst] at hs
  simp only [Option.some.injEq, Prod.mk.injEq] at hs
  obtain ⟨rfl, rfl⟩ := hs
  have hpi : PInv (popLoop { s with openCount := s.openCount + 1 } w).1 := pinv_step h.pinv (step_of_stepR hst)
  have hcr : s.openCount + 1 - 1 ≤ (s.pcs.set w (.parked false)).count .running := by
    have h1 := count_running_set s.pcs w (.parked false) hwl
    rw [if_neg (by rw [hget]; simp), if_neg (by simp)] at h1
    have := h.pinv.oc
    omega
  have hpk : o.parked.contains w = true := by
    have := (h.pc.p w).2 ⟨true, hw⟩
    simpa using this
  obtain ⟨o', ho1, ho2, ho3⟩ := sim_popLoop (k := k) (s := s) (o := o) (w := w) (p := .parked true) (r := r) true
    (s.openCount + 1) h hw (by simp) hpi hcr (fun hc => by cases hc)
    (fun hc hk => by have := (h.lw hc hk).1; omega) hr
  refine ⟨o', ho1, ho2, ?_⟩
  intro cont
  rw [obody_wake hpk]; exact ho3 cont

/-! ### runs -/

theorem sim_step {k s o e picks s' a r} (h : Sim k s o)
    (hd : pushLike e = true → s.isOpen = true ∨ known o = true)
    (hs : evStep s e picks = some (s', a)) (hr : Renders a r) :
    ∃ o', Sim k s' o' ∧ known o' = (known o || tells s e) ∧ ∀ cont, obody k o e r cont = cont o' := by
  cases e with
  | xpush toks => simpa [tells] using sim_xpush (r := r) h (hd rfl) hs
  | pop w => simpa [tells] using sim_pop h hs hr
  | wake w => simpa [tells] using sim_wake h hs hr
  | push w n => simpa [tells] using sim_push (r := r) h (hd rfl) hs
  | split w => simpa [tells] using sim_split h (hd rfl) hs hr
  | work w c fresh => simpa [tells] using sim_work (r := r) h hs
  | drop w => simpa [tells] using sim_drop (r := r) h hs
  | xdrop => simpa [tells] using sim_xdrop (r := r) h hs
  | clone => simpa [tells] using sim_clone (r := r) h hs
  | closed => simpa [tells] using sim_closed h hs hr
  | shut => simpa [tells] using sim_shut h hs hr
  | tfire => simpa [tells] using sim_tfire (r := r) h hs

/-- the harness logs the `is_shut_down()` probe (or another event that tells the oracle of the stop) before it hands
    anything to a market that it has seen closing: no `xpush` / `push` / `split` on a closed market before a `tfire`,
    `drop`, `xdrop`, a `shut` probe answered true or a `closed` probe answered true.  (`run_op` of
    harness/src/market_h.rs logs `(shut)` right after the operation — and its wake-ups — that changed the answer.) -/
def disciplined : MState → Bool → List Ev → Bool
  | _, _, [] => true
  | s, told, e :: rest =>
    (!pushLike e || s.isOpen || told) &&
    match evStep s e (followingWakes rest) with
    | none => true
    | some (s', _) => disciplined s' (told || tells s e) rest

def RendersAll : List Ans → List SExp → Prop
  | [], [] => True
  | a :: as, r :: rs => Renders a r ∧ RendersAll as rs
  | _, _ => False

theorem sim_run {k : Nat} (evs : List Ev) : ∀ (s : MState) (o : Obs) (as : List Ans) (sf : MState) (rs : List SExp),
    Sim k s o → mkRun s evs = some (as, sf) → disciplined s (known o) evs = true → RendersAll as rs →
    ∃ of, oracleR k o evs rs = .ok of ∧ Sim k sf of := by
  induction evs with
  | nil =>
    intro s o as sf rs h hm _ hr
    simp only [mkRun, Option.some.injEq, Prod.mk.injEq] at hm
    obtain ⟨rfl, rfl⟩ := hm
    cases rs with
    | nil => exact ⟨o, rfl, h⟩
    | cons _ _ => exact absurd hr (by simp [RendersAll])
  | cons e rest ih =>
    intro s o as sf rs h hm hd hr
    simp only [mkRun] at hm
    cases hs : evStep s e (followingWakes rest) with
    | none => simp [hs] at hm
    | some p =>
      obtain ⟨s', a⟩ := p
      simp only [hs] at hm
      cases hm' : mkRun s' rest with
      | none => simp [hm'] at hm
      | some q =>
        obtain ⟨as', sf'⟩ := q
        simp only [hm', Option.some.injEq, Prod.mk.injEq] at hm
        obtain ⟨rfl, rfl⟩ := hm
        cases rs with
        | nil => exact absurd hr (by simp [RendersAll])
        | cons r rs =>
          obtain ⟨hr1, hr2⟩ := hr
          simp only [disciplined, hs, Bool.and_eq_true, Bool.or_eq_true, Bool.not_eq_true'] at hd
          obtain ⟨hd1, hd2⟩ := hd
          have hd1' : pushLike e = true → s.isOpen = true ∨ known o = true := by
            intro hp; rcases hd1 with (h1 | h1) | h1
            · rw [hp] at h1; cases h1
            · exact Or.inl h1
            · exact Or.inr h1
          obtain ⟨o', ho1, ho2, ho3⟩ := sim_step h hd1' hs hr1
          rw [← ho2] at hd2
          obtain ⟨of, hof1, hof2⟩ := ih s' o' as' sf' rs ho1 hm' hd2 hr2
          exact ⟨of, by rw [oracle_cons, ho3]; exact hof1, hof2⟩

theorem sim_init (k tc : Nat) (h : tc ≤ k) : Sim k (init k tc) { locs := List.replicate k [] } := by
  refine ⟨(minv_init k tc h).p, ⟨by simp [init], List.nodup_nil, ?_, ?_, List.nodup_nil, ?_⟩, rfl, rfl, ?_, ?_,
    List.Perm.refl _, Nat.le_refl _, ?_⟩
  · intro w; simp [init, List.getElem?_replicate]
  · intro w; simp [init, List.getElem?_replicate]
  · intro w hw; cases hw
  · intro hk; simp [known] at hk
  · intro hd; cases hd
  · intro ho; simp [init] at ho

/-- the run may end here as far as the oracle's end check is concerned: no notified worker is still to wake, and a
    market that is open holds no job (the harness has drained it) -/
def mayEnd (s : MState) : Bool := !pendingWake s && (!s.isOpen || s.batches.flatten.isEmpty)

theorem sim_end {k s o} (h : Sim k s o) (he : mayEnd s = true) : oracleEnd o = none := by
  simp only [mayEnd, Bool.and_eq_true, Bool.not_eq_true', Bool.or_eq_true, List.isEmpty_iff] at he
  obtain ⟨h1, h2⟩ := he
  have hM : o.mustWake = [] := h.pc.must_nil (by simpa [pendingWake] using h1)
  have hmk : known o = false → o.market = [] := by
    intro hk
    rcases h2 with h2 | h2
    · have := (h.lw h2 hk).2.1
      have hm := h.market; rw [this] at hm; exact perm_nil_eq hm
    · have hm := h.market; rw [h2] at hm; exact perm_nil_eq hm
  unfold oracleEnd
  rw [hM]
  simp only [List.isEmpty_nil, Bool.not_true, Bool.false_eq_true, if_false]
  cases hk : known o with
  | true =>
    have : (!o.shutSeen && !o.dropSeen) = false := by
      simp only [known] at hk; cases hs : o.shutSeen <;> cases hd : o.dropSeen <;> simp_all
    simp [this]
  | false => simp [hmk hk]

/-! ### the ledger: what the observations say was handed to the market and handed out (no check at all) -/

structure Ledger where
  locs : List (List Nat)
  pushed : List Nat := []
  popped : List Nat := []
  parked : List Nat := []
  exited : List Nat := []

/-- multiset difference: `l` with one occurrence of every element of `b` removed (what `split` shared, the caller
    keeping `b`) -/
def ldiff (l b : List Nat) : List Nat := b.foldl List.erase l

theorem ldiff_of_eraseAll? {b l m : List Nat} (h : eraseAll? l b = some m) : ldiff l b = m := by
  induction b generalizing l with
  | nil => simp [eraseAll?] at h; subst h; rfl
  | cons t ts ih =>
    simp only [eraseAll?] at h
    split at h
    · exact ih h
    · cases h

def ledgerStep (l : Ledger) (e : Ev) (r : SExp) : Ledger :=
  match e with
  | .xpush toks => { l with pushed := toks ++ l.pushed }
  | .pop w | .wake w =>
    match r with
    | .atom "park" => { l with parked := w :: l.parked.erase w }
    | r =>
      match resToks? r with
      | some b => { l with popped := b ++ l.popped, locs := l.locs.set w (l.locs.getD w [] ++ b),
                           parked := l.parked.erase w }
      | none => l
  | .push w n => { l with pushed := (l.locs.getD w []).take n ++ l.pushed,
                          locs := l.locs.set w ((l.locs.getD w []).drop n) }
  | .split w =>
    match resToks? r with
    | some after => { l with pushed := ldiff (l.locs.getD w []) after ++ l.pushed, locs := l.locs.set w after }
    | none => l
  | .work w c fresh =>
    { l with locs := l.locs.set w (fresh ++ (l.locs.getD w []).take ((l.locs.getD w []).length - c)) }
  | .drop w => { l with locs := l.locs.set w [], exited := w :: l.exited }
  | _ => l

def ledger : Ledger → List Ev → List SExp → Ledger
  | l, e :: es, r :: rs => ledger (ledgerStep l e r) es rs
  | l, _, _ => l

/-- the event (with its answer) tells that the market is closed -/
def closes : Ev → SExp → Bool
  | .drop _, _ | .xdrop, _ | .tfire, _ => true
  | .shut, r | .closed, r => r.bool? == some true
  | _, _ => false

def noClose : List Ev → List SExp → Bool
  | e :: es, r :: rs => !closes e r && noClose es rs
  | _, _ => true

/-- tokens: the oracle's `locs` / `market` against the ledger -/
structure LT (ll : List (List Nat)) (pushed popped : List Nat) (ol : List (List Nat)) (market : List Nat)
    (kn : Bool) : Prop where
  locs : ol = ll
  cons : ∃ lost : List Nat, ∀ t, pushed.count t = popped.count t + market.count t + lost.count t
  consOpen : kn = false → ∀ t, pushed.count t = popped.count t + market.count t

/-- sleepers: `parked`, `exited`, `mustWake` -/
structure PA (k : Nat) (P X M : List Nat) : Prop where
  pn : P.Nodup
  plt : ∀ w, w ∈ P → w < k ∧ w ∉ X
  aw : P ≠ [] → (∃ v, v < k ∧ v ∉ P ∧ v ∉ X) ∨ M ≠ []

structure Led (k : Nat) (l : Ledger) (o : Obs) : Prop where
  lt : LT l.locs l.pushed l.popped o.locs o.market (known o)
  parked : o.parked = l.parked
  exited : o.exited = l.exited
  pa : PA k o.parked o.exited o.mustWake

theorem LT.setLocs {ll pu po ol mk kn} (h : LT ll pu po ol mk kn) (w : Nat) (x : List Nat) :
    LT (ll.set w x) pu po (ol.set w x) mk kn := ⟨by rw [h.locs], h.cons, h.consOpen⟩

theorem LT.pushLost {ll pu po ol mk} (h : LT ll pu po ol mk true) (b : List Nat) :
    LT ll (b ++ pu) po ol mk true := by
  obtain ⟨lost, hl⟩ := h.cons
  refine ⟨h.locs, ⟨b ++ lost, ?_⟩, fun hk => by cases hk⟩
  intro t; have := hl t; simp only [List.count_append]; omega

theorem LT.pushMk {ll pu po ol mk kn} (h : LT ll pu po ol mk kn) (b : List Nat) :
    LT ll (b ++ pu) po ol (b ++ mk) kn := by
  obtain ⟨lost, hl⟩ := h.cons
  refine ⟨h.locs, ⟨lost, ?_⟩, ?_⟩
  · intro t; have := hl t; simp only [List.count_append]; omega
  · intro hk t; have := h.consOpen hk t; simp only [List.count_append]; omega

theorem LT.pop {ll pu po ol mk kn} (h : LT ll pu po ol mk kn) {b m' : List Nat} (hm : mk.Perm (b ++ m')) :
    LT ll pu (b ++ po) ol m' kn := by
  obtain ⟨lost, hl⟩ := h.cons
  have hc : ∀ t, mk.count t = b.count t + m'.count t := by
    intro t; rw [hm.count_eq, List.count_append]
  refine ⟨h.locs, ⟨lost, ?_⟩, ?_⟩
  · intro t; have := hl t; have := hc t; simp only [List.count_append]; omega
  · intro hk t; have := h.consOpen hk t; have := hc t; simp only [List.count_append]; omega

theorem LT.close {ll pu po ol mk kn} (h : LT ll pu po ol mk kn) : LT ll pu po ol mk true :=
  ⟨h.locs, h.cons, fun hk => by cases hk⟩

theorem LT.clear {ll pu po ol mk kn} (h : LT ll pu po ol mk kn) : LT ll pu po ol [] true := by
  obtain ⟨lost, hl⟩ := h.cons
  refine ⟨h.locs, ⟨mk ++ lost, ?_⟩, fun hk => by cases hk⟩
  intro t; have := hl t; simp only [List.count_append, List.count_nil]; omega

theorem pre_worker {a m : Bool} {x y : String}
    (h : (if (!a) = true then some x else if (!m) = true then some y else none) = none) : a = true ∧ m = true := by
  cases a <;> cases m <;> simp at h ⊢

theorem pre_other {m : Bool} {y : String}
    (h : (if (!m) = true then some y else none) = none) : m = true := by
  cases m <;> simp at h ⊢

theorem mem_awake {o : Obs} {k w : Nat} : w ∈ awake o k ↔ w < k ∧ w ∉ o.parked ∧ w ∉ o.exited := by
  simp [awake, List.mem_filter]

theorem active_iff {k w : Nat} {P X : List Nat} :
    (decide (w < k) && !P.contains w && !X.contains w) = true ↔ w < k ∧ w ∉ P ∧ w ∉ X := by
  simp [and_assoc]


theorem known_eq (o : Obs) : known o = (o.shutSeen || o.dropSeen) := rfl

theorem led_xpush {k l o toks r cont of} (h : Led k l o) (ho : obody k o (.xpush toks) r cont = .ok of) :
    ∃ o', cont o' = .ok of ∧ Led k (ledgerStep l (.xpush toks) r) o' ∧ known o' = known o := by
  simp only [obody] at ho
  split at ho
  · cases ho
  split at ho
  · cases ho
  split at ho
  · rename_i hk
    have hlt := h.lt; rw [known_eq, hk] at hlt
    refine ⟨_, ho, ⟨?_, h.parked, h.exited, h.pa⟩, rfl⟩
    show LT l.locs (toks ++ l.pushed) l.popped o.locs o.market (o.shutSeen || o.dropSeen)
    rw [hk]; exact hlt.pushLost toks
  · split at ho
    · rename_i hte
      have hte : toks = [] := by simpa using hte
      refine ⟨_, ho, ⟨?_, h.parked, h.exited, h.pa⟩, rfl⟩
      show LT l.locs (toks ++ l.pushed) l.popped o.locs o.market (known o)
      rw [hte]; exact h.lt
    · refine ⟨_, ho, ⟨?_, h.parked, h.exited, h.pa⟩, rfl⟩
      exact h.lt.pushMk toks

theorem Led.lt' {k l o} (h : Led k l o) : LT o.locs l.pushed l.popped o.locs o.market (known o) := by
  have := h.lt; rw [← h.lt.locs] at this; exact this

theorem led_push {k l o w n r cont of} (h : Led k l o) (ho : obody k o (.push w n) r cont = .ok of) :
    ∃ o', cont o' = .ok of ∧ Led k (ledgerStep l (.push w n) r) o' ∧ known o' = known o := by
  simp only [obody] at ho
  split at ho
  · cases ho
  have hll : o.locs = l.locs := h.lt.locs
  have hlt := h.lt'
  split at ho
  · rename_i hk
    rw [known_eq, hk] at hlt
    refine ⟨_, ho, ⟨?_, h.parked, h.exited, h.pa⟩, rfl⟩
    show LT (l.locs.set w _) ((l.locs.getD w []).take n ++ l.pushed) l.popped (o.locs.set w _) o.market
      (o.shutSeen || o.dropSeen)
    rw [hk, ← hll]; exact (hlt.pushLost _).setLocs w _
  · split at ho
    · rename_i hte
      have hte : (o.locs.getD w []).take n = [] := by simpa using hte
      refine ⟨_, ho, ⟨?_, h.parked, h.exited, h.pa⟩, rfl⟩
      show LT (l.locs.set w _) ((l.locs.getD w []).take n ++ l.pushed) l.popped (o.locs.set w _) o.market (known o)
      rw [← hll, hte]; exact hlt.setLocs w _
    · refine ⟨_, ho, ⟨?_, h.parked, h.exited, h.pa⟩, rfl⟩
      show LT (l.locs.set w _) ((l.locs.getD w []).take n ++ l.pushed) l.popped (o.locs.set w _)
        ((o.locs.getD w []).take n ++ o.market) (known o)
      rw [← hll]; exact (hlt.pushMk _).setLocs w _

theorem led_work {k l o w c fresh r cont of} (h : Led k l o) (ho : obody k o (.work w c fresh) r cont = .ok of) :
    ∃ o', cont o' = .ok of ∧ Led k (ledgerStep l (.work w c fresh) r) o' ∧ known o' = known o := by
  simp only [obody] at ho
  split at ho
  · cases ho
  have hll : o.locs = l.locs := h.lt.locs
  have hlt := h.lt'
  split at ho
  · cases ho
  refine ⟨_, ho, ⟨?_, h.parked, h.exited, h.pa⟩, rfl⟩
  show LT (l.locs.set w _) l.pushed l.popped (o.locs.set w _) o.market (known o)
  rw [← hll]; exact hlt.setLocs w _

theorem led_split {k l o w r cont of} (h : Led k l o) (ho : obody k o (.split w) r cont = .ok of) :
    ∃ o', cont o' = .ok of ∧ Led k (ledgerStep l (.split w) r) o' ∧ known o' = known o := by
  simp only [obody] at ho
  split at ho
  · cases ho
  have hll : o.locs = l.locs := h.lt.locs
  have hlt := h.lt'
  split at ho
  · cases ho
  rename_i after hr
  split at ho
  · rename_i hk
    rw [known_eq, hk] at hlt
    split at ho
    · rename_i hae
      have hae : after = [] := by simpa using hae
      subst hae
      have hls : ledgerStep l (.split w) r =
          { l with pushed := ldiff (l.locs.getD w []) [] ++ l.pushed,
                   locs := l.locs.set w [] } := by simp only [ledgerStep, hr]
      rw [hls]
      refine ⟨_, ho, ⟨?_, h.parked, h.exited, h.pa⟩, rfl⟩
      show LT (l.locs.set w []) (ldiff (l.locs.getD w []) [] ++ l.pushed) l.popped (o.locs.set w []) o.market
        (o.shutSeen || o.dropSeen)
      rw [hk, ← hll]; exact (hlt.pushLost _).setLocs w _
    · cases ho
  · split at ho
    · cases ho
    · rename_i rest hre
      have hls : ledgerStep l (.split w) r =
          { l with pushed := ldiff (l.locs.getD w []) after ++ l.pushed,
                   locs := l.locs.set w after } := by simp only [ledgerStep, hr]
      rw [hls]
      refine ⟨_, ho, ⟨?_, h.parked, h.exited, h.pa⟩, rfl⟩
      show LT (l.locs.set w after) (ldiff (l.locs.getD w []) after ++ l.pushed) l.popped (o.locs.set w after)
        (rest ++ o.market) (known o)
      rw [← hll, ldiff_of_eraseAll? hre]; exact (hlt.pushMk _).setLocs w _

theorem PA.dropW {k P X M} (h : PA k P X M) {w : Nat} (hw : w < k ∧ w ∉ P ∧ w ∉ X) : PA k P (w :: X) P := by
  refine ⟨h.pn, ?_, fun hp => Or.inr hp⟩
  intro v hv
  refine ⟨(h.plt v hv).1, ?_⟩
  intro hm
  rcases List.mem_cons.1 hm with e | e
  · subst e; exact hw.2.1 hv
  · exact (h.plt v hv).2 e

theorem PA.must {k P X M} (h : PA k P X M) : PA k P X P := ⟨h.pn, h.plt, fun hp => Or.inr hp⟩

theorem PA.run {k P X M} (h : PA k P X M) {w : Nat} (hw : w < k ∧ w ∉ X) : PA k (P.erase w) X (M.erase w) := by
  refine ⟨h.pn.erase w, ?_, ?_⟩
  · intro v hv; exact h.plt v ((mem_erase_nodup h.pn _ _).1 hv).2
  · intro _; exact Or.inl ⟨w, hw.1, fun hm => ((mem_erase_nodup h.pn _ _).1 hm).1 rfl, hw.2⟩

theorem PA.park {k P X M} (h : PA k P X M) {w : Nat} (hw : w < k ∧ w ∉ X)
    (hv : ∃ v, v ≠ w ∧ v < k ∧ v ∉ P.erase w ∧ v ∉ X) : PA k (w :: P.erase w) X (M.erase w) := by
  refine ⟨?_, ?_, ?_⟩
  · exact List.nodup_cons.2 ⟨fun hm => ((mem_erase_nodup h.pn _ _).1 hm).1 rfl, h.pn.erase w⟩
  · intro v hv
    rcases List.mem_cons.1 hv with e | e
    · subst e; exact hw
    · exact h.plt v ((mem_erase_nodup h.pn _ _).1 e).2
  · intro _
    obtain ⟨v, h1, h2, h3, h4⟩ := hv
    refine Or.inl ⟨v, h2, ?_, h4⟩
    intro hm
    rcases List.mem_cons.1 hm with e | e
    · exact h1 e
    · exact h3 e

theorem ledgerStep_pop_park (l : Ledger) (w : Nat) :
    ledgerStep l (.pop w) (.atom "park") = { l with parked := w :: l.parked.erase w } := rfl
theorem ledgerStep_wake_park (l : Ledger) (w : Nat) :
    ledgerStep l (.wake w) (.atom "park") = { l with parked := w :: l.parked.erase w } := rfl

theorem ledgerStep_pop_toks (l : Ledger) (w : Nat) {r : SExp} {b : List Nat} (hr : resToks? r = some b) :
    ledgerStep l (.pop w) r = { l with popped := b ++ l.popped, locs := l.locs.set w (l.locs.getD w [] ++ b),
                                       parked := l.parked.erase w } := by
  obtain ⟨xs, rfl⟩ := resToks?_list hr
  simp only [ledgerStep, hr]
theorem ledgerStep_wake_toks (l : Ledger) (w : Nat) {r : SExp} {b : List Nat} (hr : resToks? r = some b) :
    ledgerStep l (.wake w) r = { l with popped := b ++ l.popped, locs := l.locs.set w (l.locs.getD w [] ++ b),
                                        parked := l.parked.erase w } := by
  obtain ⟨xs, rfl⟩ := resToks?_list hr
  simp only [ledgerStep, hr]


theorem led_opop {k l l' o w isWake r cont of} (h : Led k l o) (hw : w < k ∧ w ∉ o.exited)
    (hl1 : r = .atom "park" → l' = { l with parked := w :: l.parked.erase w })
    (hl2 : ∀ b, resToks? r = some b →
      l' = { l with popped := b ++ l.popped, locs := l.locs.set w (l.locs.getD w [] ++ b), parked := l.parked.erase w })
    (ho : opop k o w isWake r cont = .ok of) :
    ∃ o', cont o' = .ok of ∧ Led k l' o' ∧ known o' = known o := by
  have hll : o.locs = l.locs := h.lt.locs
  have hlt := h.lt'
  unfold opop at ho
  simp only at ho
  split at ho
  · -- park
    rw [hl1 rfl]
    split at ho
    · cases ho
    split at ho
    · cases ho
    split at ho
    · cases ho
    rename_i hall
    split at ho
    · cases ho
    refine ⟨_, ho, ⟨h.lt, ?_, h.exited, ?_⟩, rfl⟩
    · show w :: o.parked.erase w = w :: l.parked.erase w
      rw [h.parked]
    · have hall : ((awake { o with parked := o.parked.erase w, mustWake := o.mustWake.erase w } k).all (· == w)) = false := by
        simpa using hall
      rw [List.all_eq_false] at hall
      obtain ⟨v, hv1, hv2⟩ := hall
      rw [mem_awake] at hv1
      exact h.pa.park hw ⟨v, by simpa using hv2, hv1.1, hv1.2.1, hv1.2.2⟩
  · split at ho
    · cases ho
    · rename_i hr
      rw [hl2 [] hr]
      refine ⟨_, ho, ⟨?_, ?_, h.exited, h.pa.run hw⟩, rfl⟩
      · show LT (l.locs.set w (l.locs.getD w [] ++ [])) l.pushed ([] ++ l.popped) o.locs o.market (known o)
        rw [List.append_nil, set_getD_self]; exact h.lt
      · show o.parked.erase w = l.parked.erase w
        rw [h.parked]
    · rename_i b hne hr
      rw [hl2 b hr]
      split at ho
      · cases ho
      split at ho
      · cases ho
      split at ho
      · cases ho
      rename_i m' hm
      refine ⟨_, ho, ⟨?_, ?_, h.exited, h.pa.run hw⟩, rfl⟩
      · show LT (l.locs.set w (l.locs.getD w [] ++ b)) l.pushed (b ++ l.popped) (o.locs.set w (o.locs.getD w [] ++ b)) m'
          (known o)
        rw [← hll]; exact (hlt.pop (perm_of_eraseAll? hm)).setLocs w _
      · show o.parked.erase w = l.parked.erase w
        rw [h.parked]


theorem led_pop {k l o w r cont of} (h : Led k l o) (ho : obody k o (.pop w) r cont = .ok of) :
    ∃ o', cont o' = .ok of ∧ Led k (ledgerStep l (.pop w) r) o' ∧ known o' = known o := by
  have ho' := ho
  simp only [obody] at ho'
  split at ho'
  · cases ho'
  rename_i hpre
  obtain ⟨hact, hM⟩ := pre_worker hpre
  have hM : o.mustWake = [] := by simpa using hM
  rw [obody_pop hact hM] at ho
  rw [active_iff] at hact
  exact led_opop h ⟨hact.1, hact.2.2⟩ (fun hr => by rw [hr]; rfl) (fun b hr => ledgerStep_pop_toks l w hr) ho

theorem led_wake {k l o w r cont of} (h : Led k l o) (ho : obody k o (.wake w) r cont = .ok of) :
    ∃ o', cont o' = .ok of ∧ Led k (ledgerStep l (.wake w) r) o' ∧ known o' = known o := by
  have ho' := ho
  simp only [obody] at ho'
  split at ho'
  · cases ho'
  rename_i hpre
  have hp : o.parked.contains w = true := by
    cases hc : o.parked.contains w with
    | true => rfl
    | false => rw [hc] at hpre; simp at hpre
  rw [obody_wake hp] at ho
  have hp' : w ∈ o.parked := by simpa using hp
  exact led_opop h (h.pa.plt w hp') (fun hr => by rw [hr]; rfl) (fun b hr => ledgerStep_wake_toks l w hr) ho

theorem led_drop {k l o w r cont of} (h : Led k l o) (ho : obody k o (.drop w) r cont = .ok of) :
    ∃ o', cont o' = .ok of ∧ Led k (ledgerStep l (.drop w) r) o' := by
  simp only [obody] at ho
  split at ho
  · cases ho
  rename_i hpre
  obtain ⟨hact, hM⟩ := pre_worker hpre
  rw [active_iff] at hact
  have hll : o.locs = l.locs := h.lt.locs
  refine ⟨_, ho, ⟨?_, h.parked, ?_, h.pa.dropW hact⟩⟩
  · show LT (l.locs.set w []) l.pushed l.popped (o.locs.set w []) [] (o.shutSeen || true)
    rw [Bool.or_true, ← hll]; exact (h.lt'.setLocs w []).clear
  · show w :: o.exited = w :: l.exited
    rw [h.exited]

theorem led_xdrop {k l o r cont of} (h : Led k l o) (ho : obody k o .xdrop r cont = .ok of) :
    ∃ o', cont o' = .ok of ∧ Led k (ledgerStep l .xdrop r) o' := by
  simp only [obody] at ho
  split at ho
  · cases ho
  refine ⟨_, ho, ⟨?_, h.parked, h.exited, h.pa.must⟩⟩
  show LT l.locs l.pushed l.popped o.locs [] (o.shutSeen || true)
  rw [Bool.or_true]; exact h.lt.clear

theorem led_tfire {k l o r cont of} (h : Led k l o) (ho : obody k o .tfire r cont = .ok of) :
    ∃ o', cont o' = .ok of ∧ Led k (ledgerStep l .tfire r) o' := by
  simp only [obody] at ho
  split at ho
  · cases ho
  refine ⟨_, ho, ⟨?_, h.parked, h.exited, h.pa⟩⟩
  show LT l.locs l.pushed l.popped o.locs o.market (true || o.dropSeen)
  rw [Bool.true_or]; exact h.lt.close

theorem led_clone {k l o r cont of} (h : Led k l o) (ho : obody k o .clone r cont = .ok of) :
    ∃ o', cont o' = .ok of ∧ Led k (ledgerStep l .clone r) o' ∧ known o' = known o := by
  simp only [obody] at ho
  split at ho
  · cases ho
  exact ⟨_, ho, h, rfl⟩

theorem led_closed {k l o r cont of} (h : Led k l o) (ho : obody k o .closed r cont = .ok of) :
    ∃ o', cont o' = .ok of ∧ Led k (ledgerStep l .closed r) o' ∧ (closes .closed r = false → known o' = known o) := by
  simp only [obody] at ho
  split at ho
  · cases ho
  split at ho
  · cases ho
  rename_i b hb
  split at ho
  · cases ho
  split at ho
  · rename_i hbt
    refine ⟨_, ho, ⟨?_, h.parked, h.exited, h.pa⟩, ?_⟩
    · show LT l.locs l.pushed l.popped o.locs o.market (true || o.dropSeen)
      rw [Bool.true_or]; exact h.lt.close
    · intro hc; simp [closes, hb, hbt] at hc
  · exact ⟨_, ho, h, fun _ => rfl⟩

theorem led_shut {k l o r cont of} (h : Led k l o) (ho : obody k o .shut r cont = .ok of) :
    ∃ o', cont o' = .ok of ∧ Led k (ledgerStep l .shut r) o' ∧ (closes .shut r = false → known o' = known o) := by
  simp only [obody] at ho
  split at ho
  · cases ho
  split at ho
  · cases ho
  rename_i b hb
  split at ho
  · cases ho
  split at ho
  · rename_i hbt
    split at ho
    · cases ho
    refine ⟨_, ho, ⟨?_, h.parked, h.exited, h.pa.must⟩, ?_⟩
    · show LT l.locs l.pushed l.popped o.locs o.market (true || o.dropSeen)
      rw [Bool.true_or]; exact h.lt.close
    · intro hc
      have : b = true := by simp at hbt; exact hbt.1
      simp [closes, hb, this] at hc
  · exact ⟨_, ho, h, fun _ => rfl⟩

theorem led_step {k l o e r cont of} (h : Led k l o) (ho : obody k o e r cont = .ok of) :
    ∃ o', cont o' = .ok of ∧ Led k (ledgerStep l e r) o' ∧ (closes e r = false → known o' = known o) := by
  cases e with
  | xpush toks => obtain ⟨o', h1, h2, h3⟩ := led_xpush h ho; exact ⟨o', h1, h2, fun _ => h3⟩
  | pop w => obtain ⟨o', h1, h2, h3⟩ := led_pop h ho; exact ⟨o', h1, h2, fun _ => h3⟩
  | wake w => obtain ⟨o', h1, h2, h3⟩ := led_wake h ho; exact ⟨o', h1, h2, fun _ => h3⟩
  | push w n => obtain ⟨o', h1, h2, h3⟩ := led_push h ho; exact ⟨o', h1, h2, fun _ => h3⟩
  | split w => obtain ⟨o', h1, h2, h3⟩ := led_split h ho; exact ⟨o', h1, h2, fun _ => h3⟩
  | work w c fresh => obtain ⟨o', h1, h2, h3⟩ := led_work h ho; exact ⟨o', h1, h2, fun _ => h3⟩
  | drop w => obtain ⟨o', h1, h2⟩ := led_drop h ho; exact ⟨o', h1, h2, fun hc => by simp [closes] at hc⟩
  | xdrop => obtain ⟨o', h1, h2⟩ := led_xdrop h ho; exact ⟨o', h1, h2, fun hc => by simp [closes] at hc⟩
  | tfire => obtain ⟨o', h1, h2⟩ := led_tfire h ho; exact ⟨o', h1, h2, fun hc => by simp [closes] at hc⟩
  | clone => obtain ⟨o', h1, h2, h3⟩ := led_clone h ho; exact ⟨o', h1, h2, fun _ => h3⟩
  | closed => exact led_closed h ho
  | shut => exact led_shut h ho


theorem led_run {k : Nat} (evs : List Ev) : ∀ (rs : List SExp) (l : Ledger) (o of : Obs),
    Led k l o → oracleR k o evs rs = .ok of →
    Led k (ledger l evs rs) of ∧ (noClose evs rs = true → known of = known o) := by
  induction evs with
  | nil =>
    intro rs l o of h ho
    cases rs with
    | nil => simp only [oracleR, Except.ok.injEq] at ho; subst ho; exact ⟨h, fun _ => rfl⟩
    | cons r rs => simp [oracleR] at ho
  | cons e es ih =>
    intro rs l o of h ho
    cases rs with
    | nil => simp [oracleR] at ho
    | cons r rs =>
      rw [oracle_cons] at ho
      obtain ⟨o', h1, h2, h3⟩ := led_step h ho
      obtain ⟨h4, h5⟩ := ih rs _ o' of h2 h1
      refine ⟨h4, ?_⟩
      intro hn
      simp only [noClose, Bool.and_eq_true, Bool.not_eq_true'] at hn
      rw [h5 hn.2, h3 hn.1]

theorem led_init (k : Nat) : Led k { locs := List.replicate k [] } { locs := List.replicate k [] } :=
  ⟨⟨rfl, ⟨[], fun _ => rfl⟩, fun _ _ => rfl⟩, rfl, rfl, ⟨List.nodup_nil, fun _ hw => absurd hw List.not_mem_nil, fun hp => absurd rfl hp⟩⟩

/-- a worker went to sleep (`park`) although — the market not being known closed — some job handed to the market
    before had not been handed out yet -/
def isParkEv : Ev → SExp → Bool
  | .pop _, .atom "park" | .wake _, .atom "park" => true
  | _, _ => false

def sleptOnJobs : Ledger → Bool → List Ev → List SExp → Bool
  | l, c, e :: es, r :: rs =>
    (isParkEv e r && !c && !(l.pushed.isPerm l.popped)) || sleptOnJobs (ledgerStep l e r) (c || closes e r) es rs
  | _, _, _, _ => false

theorem isParkEv_cases {e : Ev} {r : SExp} (h : isParkEv e r = true) :
    r = .atom "park" ∧ ((∃ w, e = .pop w) ∨ ∃ w, e = .wake w) := by
  unfold isParkEv at h
  split at h
  · exact ⟨rfl, Or.inl ⟨_, rfl⟩⟩
  · exact ⟨rfl, Or.inr ⟨_, rfl⟩⟩
  · cases h

theorem opop_park_market {k o w isWake cont of} (ho : opop k o w isWake (.atom "park") cont = .ok of) :
    o.market = [] := by
  unfold opop at ho
  simp only at ho
  split at ho
  · cases ho
  · rename_i hm; simpa using hm

theorem park_market {k o e cont of} (hp : isParkEv e r = true) (ho : obody k o e r cont = .ok of) :
    o.market = [] := by
  obtain ⟨rfl, ⟨w, rfl⟩ | ⟨w, rfl⟩⟩ := isParkEv_cases hp
  · have ho' := ho
    simp only [obody] at ho'
    split at ho'
    · cases ho'
    rename_i hpre
    obtain ⟨hact, hM⟩ := pre_worker hpre
    have hM : o.mustWake = [] := by simpa using hM
    rw [obody_pop hact hM] at ho
    exact opop_park_market ho
  · have ho' := ho
    simp only [obody] at ho'
    split at ho'
    · cases ho'
    rename_i hpre
    have hp : o.parked.contains w = true := by
      cases hc : o.parked.contains w with
      | true => rfl
      | false => rw [hc] at hpre; simp at hpre
    rw [obody_wake hp] at ho
    exact opop_park_market ho

theorem led_slept {k : Nat} (evs : List Ev) : ∀ (rs : List SExp) (l : Ledger) (c : Bool) (o of : Obs),
    Led k l o → (c = false → known o = false) → oracleR k o evs rs = .ok of → sleptOnJobs l c evs rs = false := by
  induction evs with
  | nil => intro rs l c o of _ _ _; rfl
  | cons e es ih =>
    intro rs l c o of h hc ho
    cases rs with
    | nil => rfl
    | cons r rs =>
      rw [oracle_cons] at ho
      obtain ⟨o', h1, h2, h3⟩ := led_step h ho
      simp only [sleptOnJobs, Bool.or_eq_false_iff]
      refine ⟨?_, ih rs _ _ o' of h2 ?_ h1⟩
      · cases hp : isParkEv e r with
        | false => rfl
        | true =>
          cases c with
          | true => rfl
          | false =>
            have hm := park_market hp ho
            have hcnt := h.lt.consOpen (hc rfl)
            have : l.pushed.Perm l.popped := by
              rw [List.perm_iff_count]; intro t; have := hcnt t; rw [hm] at this; simpa using this
            simp [List.isPerm_iff.2 this]
      · intro hcc
        simp only [Bool.or_eq_false_iff] at hcc
        rw [h3 hcc.2]; exact hc hcc.1


/-! ### the driver command -/

/-- the answer of the driver command `o-mk` on parsed arguments, with the relaxed oracle -/
def verdict (k : Nat) (evs : List Ev) (rs : List SExp) : String :=
  match oracleR k { locs := List.replicate k [] } evs rs with
  | .error err => err
  | .ok o => (oracleEnd o).getD "ok"

/-- the same with the LIVE `Drv.C05.oracle` (what `handle` calls) -/
def verdictLive (k : Nat) (evs : List Ev) (rs : List SExp) : String :=
  match oracle k { locs := List.replicate k [] } evs rs with
  | .error err => err
  | .ok o => (oracleEnd o).getD "ok"

theorem handle_omk {ksx tcsx esx : SExp} {k : Nat} {evs : List Ev} (rs : List SExp) (hk : ksx.nat? = some k)
    (he : esx.listOf? evOf? = some evs) :
    Drv.C05.handle "o-mk" [ksx, tcsx, esx, .list rs] = some (verdictLive k evs rs) := by
  simp only [Drv.C05.handle, hk, he, SExp.list?, verdictLive]
  rfl

theorem verdictLive_eq (hR : @oracle = @oracleR) : verdictLive = verdict := by
  funext k evs rs; simp only [verdictLive, verdict, hR]

end SR.C05Oracle
