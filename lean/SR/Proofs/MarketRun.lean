import SR.Proofs.MarketTok
/-! The market invariant along arbitrary step sequences (`mrun`). -/
namespace SR.Market

structure MInv (s : MState) : Prop where
  p : PInv s
  t : TInv s

theorem count_replicate_running (k : Nat) : (List.replicate k Pc.running).count .running = k := by
  simp

theorem minv_init (k tc : Nat) (h : tc ≤ k) : MInv (init k tc) := by
  refine ⟨⟨by simp [init], by simpa [init] using h, ?_, by simp [init], ?_⟩, ⟨by simp [init], ?_⟩⟩
  · intro hp; simp [init] at hp
  · intro hp; simp [init] at hp
  · intro _ t; simp [init, tokensIn]

theorem minv_step {s s' : MState} {m : Step} (h : MInv s) (hs : step s m = some s') : MInv s' :=
  ⟨pinv_step h.p hs, tinv_step h.p h.t hs⟩

theorem minv_step' {s : MState} (m : Step) (h : MInv s) : MInv ((step s m).getD s) := by
  cases hs : step s m with
  | none => simpa using h
  | some s' => simpa using minv_step h hs

theorem minv_mrun {s : MState} (ms : List Step) (h : MInv s) : MInv (mrun s ms) := by
  induction ms generalizing s with
  | nil => exact h
  | cons m ms ih => exact ih (minv_step' m h)

theorem mrun_append (s : MState) (ms ms' : List Step) : mrun s (ms ++ ms') = mrun (mrun s ms) ms' := by
  simp [mrun, List.foldl_append]

/-! ### closing is final -/

theorem popLoop_isOpen (s : MState) (w : Nat) (h : s.isOpen = false) : (popLoop s w).1.isOpen = false := by
  unfold popLoop; split
  · exact h
  · simp only; split <;> simp [h]

theorem popLoop_close_notifies (s : MState) (w : Nat) (ho : s.isOpen = true)
    (hc : (popLoop s w).1.isOpen = false) : Pc.parked false ∉ (popLoop s w).1.pcs := by
  unfold popLoop at hc ⊢
  split
  · rename_i hb; simp [hb, ho] at hc
  · rename_i hb
    simp only [hb] at hc ⊢
    split
    · exact not_parkedFalse_mem_notifyAll _
    · rename_i hne; simp [hne, ho] at hc

theorem step_closed {s s' : MState} {m : Step} (h : s.isOpen = false) (hs : step s m = some s') :
    s'.isOpen = false := by
  unfold step at hs
  cases m <;> simp only [stepR] at hs <;> (repeat' split at hs) <;>
    simp_all [dropMarket] <;> (subst hs; first | exact h | exact popLoop_isOpen _ _ h | rfl | (apply popLoop_isOpen; rfl))

theorem step_closed' {s : MState} (m : Step) (h : s.isOpen = false) : ((step s m).getD s).isOpen = false := by
  cases hs : step s m with
  | none => simpa using h
  | some s' => simpa using step_closed h hs

theorem mrun_closed {s : MState} (ms : List Step) (h : s.isOpen = false) : (mrun s ms).isOpen = false := by
  induction ms generalizing s with
  | nil => exact h
  | cons m ms ih => exact ih (step_closed' m h)

end SR.Market
