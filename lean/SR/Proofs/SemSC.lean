import SR.Sem.SeqCons
import SR.Proofs.SemTester
/-!
The literal transcription of the sequential-consistency tester (`SCTester`) behaves exactly like
`Tester` with `rt = false`: recording commutes with `SCTester.embed`, and the two searches return
the same result. Hence everything proved for `Tester false` holds for `SCTester`.
-/
namespace SR.Sem
open AMap
variable {S Op Ret : Type} {β γ : Type}

theorem upsert_map (f : Nat → β → γ) (k : Nat) (v : β) (m : List (Nat × β)) :
    upsert k (f k v) (m.map fun e => (e.1, f e.1 e.2)) = (upsert k v m).map fun e => (e.1, f e.1 e.2) := by
  induction m with
  | nil => rfl
  | cons e r ih =>
    obtain ⟨k0, v0⟩ := e
    simp only [List.map_cons, upsert]
    by_cases h1 : k < k0
    · simp [h1]
    · by_cases h2 : k = k0
      · subst h2; simp
      · simp [h1, h2, ih]

theorem erase_map (f : Nat → β → γ) (k : Nat) (m : List (Nat × β)) :
    erase k (m.map fun e => (e.1, f e.1 e.2)) = (erase k m).map fun e => (e.1, f e.1 e.2) := by
  induction m with
  | nil => rfl
  | cons e r ih =>
    obtain ⟨k0, v0⟩ := e
    simp only [List.map_cons, erase]
    by_cases h1 : k0 = k
    · simp [h1]
    · simp [h1, ih]

theorem orInsert_map (f : Nat → β → γ) (k : Nat) (d : β) (m : List (Nat × β)) :
    orInsert k (f k d) (m.map fun e => (e.1, f e.1 e.2)) = (orInsert k d m).map fun e => (e.1, f e.1 e.2) := by
  unfold orInsert
  rw [find?_map]
  cases find? k m with
  | none => simp only [Option.map_none]; exact upsert_map f k d m
  | some v => rfl

namespace SCTester

def eH : Nat → List (Op × Ret) → List (LC × Op × Ret) := fun _ cs => cs.map fun x => (([] : LC), x.1, x.2)
def eF : Nat → Op → LC × Op := fun _ op => (([] : LC), op)

theorem embed_eq (T : SCTester S Op Ret) :
    embed T = { init := T.init, hist := T.hist.map fun e => (e.1, eH e.1 e.2),
                inflight := T.inflight.map fun e => (e.1, eF e.1 e.2), valid := T.valid } := rfl

theorem embed_new (s0 : S) : embed (SCTester.new s0 : SCTester S Op Ret) = Tester.new s0 := rfl

theorem embed_onInvoke (T : SCTester S Op Ret) (t : Nat) (op : Op) :
    embed (onInvoke T t op).1 = (Tester.onInvoke false (embed T) t op).1 ∧
    (onInvoke T t op).2 = (Tester.onInvoke false (embed T) t op).2 := by
  have hv' : (embed T).valid = T.valid := rfl
  have hfm : find? t (embed T).inflight = (find? t T.inflight).map (eF t) := by
    rw [embed_eq]; exact find?_map eF t T.inflight
  unfold onInvoke Tester.onInvoke
  rw [hv', hfm]
  cases hv : T.valid with
  | false => exact ⟨rfl, rfl⟩
  | true =>
    simp only [Bool.not_true, Bool.false_eq_true, if_false]
    cases hf : find? t T.inflight with
    | some x => exact ⟨by simp only [Option.map_some]; rw [embed_eq, embed_eq], rfl⟩
    | none =>
      simp only [Option.map_none, and_true]
      rw [embed_eq, embed_eq]
      simp only [Tester.lastCompleted, Bool.false_eq_true, if_false]
      congr 1
      · exact (orInsert_map eH t [] T.hist).symm
      · exact (upsert_map eF t op T.inflight).symm

theorem embed_onReturn (T : SCTester S Op Ret) (t : Nat) (r : Ret) :
    embed (onReturn T t r).1 = (Tester.onReturn (embed T) t r).1 ∧
    (onReturn T t r).2 = (Tester.onReturn (embed T) t r).2 := by
  have hv' : (embed T).valid = T.valid := rfl
  have hfm : find? t (embed T).inflight = (find? t T.inflight).map (eF t) := by
    rw [embed_eq]; exact find?_map eF t T.inflight
  have hfh : find? t (embed T).hist = (find? t T.hist).map (eH t) := by
    rw [embed_eq]; exact find?_map eH t T.hist
  unfold onReturn Tester.onReturn
  rw [hv', hfm, hfh]
  cases hv : T.valid with
  | false => exact ⟨rfl, rfl⟩
  | true =>
    simp only [Bool.not_true, Bool.false_eq_true, if_false]
    cases hf : find? t T.inflight with
    | none =>
      simp only [Option.map_none, and_true]
      rw [embed_eq, embed_eq]
      simp only
      congr 1
      exact (orInsert_map eH t [] T.hist).symm
    | some op =>
      simp only [Option.map_some, eF, and_true]
      rw [embed_eq, embed_eq]
      simp only
      congr 1
      · have : (Option.map (eH t) (find? t T.hist)).getD [] ++ [(([] : LC), op, r)]
            = eH t ((find? t T.hist).getD [] ++ [(op, r)]) := by
          cases find? t T.hist <;> simp [eH]
        rw [this]
        exact (upsert_map eH t _ T.hist).symm
      · exact (erase_map eF t T.inflight).symm

theorem embed_step (T : SCTester S Op Ret) (e : Event Op Ret) :
    embed (step T e).1 = (Tester.step false (embed T) e).1 ∧ (step T e).2 = (Tester.step false (embed T) e).2 := by
  cases e with
  | inv t op => exact embed_onInvoke T t op
  | ret t r => exact embed_onReturn T t r

theorem embed_fold (T : SCTester S Op Ret) (es : List (Event Op Ret)) :
    embed (es.foldl (fun T e => (step T e).1) T) = es.foldl (fun T e => (Tester.step false T e).1) (embed T) := by
  induction es generalizing T with
  | nil => rfl
  | cons e es ih => simp only [List.foldl_cons]; rw [ih, (embed_step T e).1]

theorem embed_record (s0 : S) (es : List (Event Op Ret)) : embed (record s0 es) = Tester.record false s0 es := by
  unfold record Tester.record
  rw [embed_fold, embed_new]

theorem results_eq (T : SCTester S Op Ret) (es : List (Event Op Ret)) :
    results T es = Tester.results false (embed T) es := by
  induction es generalizing T with
  | nil => rfl
  | cons e es ih =>
    simp only [results, Tester.results]
    rw [(embed_step T e).2, ih, (embed_step T e).1]

theorem len_embed (T : SCTester S Op Ret) : (embed T).len = T.len := by
  unfold Tester.len len
  rw [embed_eq]
  simp only [List.length_map, List.map_map]
  congr 1
  apply congrArg
  apply List.map_congr_left
  intro e _; simp [eH]

/-! ### the searches agree -/
/-- forget index and (empty) map of a queue entry -/
def pItem (it : Tester.Item Op Ret) : Op × Ret := (it.2.2.1, it.2.2.2)
def pQ (Q : Tester.Queues Op Ret) : Queues Op Ret := Q.map fun e => (e.1, (fun (_ : Nat) its => its.map pItem) e.1 e.2)
def pF (F : Tester.InFlights Op) : List (Nat × Op) := F.map fun e => (e.1, (fun (_ : Nat) (x : LC × Op) => x.2) e.1 e.2)

/-- all recorded maps are empty -/
def NoLc (Q : Tester.Queues Op Ret) (F : Tester.InFlights Op) : Prop :=
  (∀ t its, find? t Q = some its → ∀ it ∈ its, it.2.1 = []) ∧ (∀ t x, find? t F = some x → x.1 = [])

theorem violation_nil (Q : Tester.Queues Op Ret) : Tester.violation [] Q = false := rfl

theorem branch_eq (spec : SeqSpec S Op Ret) (obj : S) {Q : Tester.Queues Op Ret} {F : Tester.InFlights Op}
    (hn : NoLc Q F) (t : Nat) (rem : List (Tester.Item Op Ret)) (hm : find? t Q = some rem) :
    branch spec obj (pQ Q) (pF F) t (rem.map pItem) =
      (Tester.branch spec obj Q F t rem).map fun r => (r.1, pQ r.2.1, pF r.2.2.1, r.2.2.2) := by
  cases rem with
  | nil =>
    have hfm : find? t (pF F) = (find? t F).map (fun x => x.2) :=
      find?_map (fun (_ : Nat) (x : LC × Op) => x.2) t F
    simp only [List.map_nil, branch, Tester.branch]
    rw [hfm]
    cases hf : find? t F with
    | none => rfl
    | some x =>
      obtain ⟨lc, op⟩ := x
      have : lc = [] := hn.2 t _ hf
      subst this
      simp only [Option.map_some, violation_nil, Bool.false_eq_true, if_false]
      have : erase t (pF F) = pF (erase t F) := erase_map (fun (_ : Nat) (x : LC × Op) => x.2) t F
      rw [this]
  | cons it rest =>
    obtain ⟨i, lc, op, r⟩ := it
    have : lc = [] := hn.1 t _ hm (i, lc, op, r) (by simp)
    subst this
    simp only [List.map_cons, pItem, branch, Tester.branch, violation_nil, Bool.false_eq_true, if_false]
    by_cases hs : (spec.isValidStep obj op r).1 = true
    · simp only [hs, if_true, Option.map_some]
      congr 3
      exact upsert_map (fun (_ : Nat) (its : List (Tester.Item Op Ret)) => its.map pItem) t rest Q
    · simp [hs]

theorem noLc_branch {spec : SeqSpec S Op Ret} {obj obj' : S} {Q Q' : Tester.Queues Op Ret} {F F' : Tester.InFlights Op}
    (hn : NoLc Q F) (hsF : Sorted F) {t : Nat} {rem : List (Tester.Item Op Ret)} (hm : find? t Q = some rem) {x : Op × Ret}
    (hb : Tester.branch spec obj Q F t rem = some (obj', Q', F', x)) : NoLc Q' F' ∧ Sorted F' := by
  cases rem with
  | nil =>
    simp only [Tester.branch] at hb
    cases hf : find? t F with
    | none => simp [hf] at hb
    | some y =>
      simp only [hf] at hb
      split at hb
      · cases hb
      · simp only [Option.some.injEq, Prod.mk.injEq] at hb
        obtain ⟨_, rfl, rfl, _⟩ := hb
        refine ⟨⟨hn.1, ?_⟩, sorted_erase hsF⟩
        intro t' x' h'
        rw [find?_erase hsF] at h'
        by_cases e : t' = t
        · simp [e] at h'
        · simp only [e, if_false] at h'; exact hn.2 t' x' h'
  | cons it rest =>
    obtain ⟨i, lc, op, r⟩ := it
    simp only [Tester.branch] at hb
    split at hb
    · cases hb
    · split at hb
      · simp only [Option.some.injEq, Prod.mk.injEq] at hb
        obtain ⟨_, rfl, rfl, _⟩ := hb
        refine ⟨⟨?_, hn.2⟩, hsF⟩
        intro t' its h' it' hit'
        rw [find?_upsert] at h'
        by_cases e : t = t'
        · simp only [e, if_true, Option.some.injEq] at h'
          subst h'
          exact hn.1 t _ hm it' (List.mem_cons_of_mem _ hit')
        · simp only [e, if_false] at h'
          exact hn.1 t' its h' it' hit'
      · cases hb

theorem tryThreads_eq (spec : SeqSpec S Op Ret)
    {recL : List (Op × Ret) → S → Tester.Queues Op Ret → Tester.InFlights Op → Option (List (Op × Ret))}
    {recS : List (Op × Ret) → S → Queues Op Ret → List (Nat × Op) → Option (List (Op × Ret))}
    (hrec : ∀ acc obj Q F, NoLc Q F → Sorted Q → Sorted F → recS acc obj (pQ Q) (pF F) = recL acc obj Q F)
    (acc : List (Op × Ret)) (obj : S) {Q : Tester.Queues Op Ret} {F : Tester.InFlights Op}
    (hn : NoLc Q F) (hsQ : Sorted Q) (hsF : Sorted F)
    (entries : List (Nat × List (Tester.Item Op Ret))) (hsub : ∀ e ∈ entries, e ∈ Q) :
    tryThreads spec recS acc obj (pQ Q) (pF F) (entries.map fun e => (e.1, e.2.map pItem)) =
      Tester.tryThreads spec recL acc obj Q F entries := by
  induction entries with
  | nil => rfl
  | cons e rest ih =>
    obtain ⟨t, rem⟩ := e
    have hm : find? t Q = some rem := find?_of_mem hsQ (hsub _ List.mem_cons_self)
    have ih' := ih (fun e he => hsub e (List.mem_cons_of_mem _ he))
    simp only [List.map_cons, tryThreads, Tester.tryThreads]
    rw [branch_eq spec obj hn t rem hm]
    cases hb : Tester.branch spec obj Q F t rem with
    | none => simp only [Option.map_none]; exact ih'
    | some res =>
      obtain ⟨obj', Q', F', x⟩ := res
      simp only [Option.map_some]
      obtain ⟨hn', hsF'⟩ := noLc_branch hn hsF hm hb
      have hsQ' : Sorted Q' := by
        cases rem with
        | nil =>
          simp only [Tester.branch] at hb
          cases hf : find? t F with
          | none => simp [hf] at hb
          | some y =>
            simp only [hf] at hb
            split at hb
            · cases hb
            · simp only [Option.some.injEq, Prod.mk.injEq] at hb
              obtain ⟨_, rfl, _, _⟩ := hb; exact hsQ
        | cons it rest' =>
          simp only [Tester.branch] at hb
          split at hb
          · cases hb
          · split at hb
            · simp only [Option.some.injEq, Prod.mk.injEq] at hb
              obtain ⟨_, rfl, _, _⟩ := hb; exact sorted_upsert hsQ
            · cases hb
      rw [hrec _ _ _ _ hn' hsQ' hsF']
      cases recL (acc ++ [x]) obj' Q' F' with
      | some h => rfl
      | none => exact ih'

theorem all_empty_pQ (Q : Tester.Queues Op Ret) :
    (pQ Q).all (fun e => e.2.isEmpty) = Q.all (fun e => e.2.isEmpty) := by
  unfold pQ
  rw [List.all_map]
  congr 1
  funext e
  cases h : e.2 <;> simp [h]

theorem serialize_eq (spec : SeqSpec S Op Ret) : ∀ (fuel : Nat) (acc : List (Op × Ret)) (obj : S)
    (Q : Tester.Queues Op Ret) (F : Tester.InFlights Op), NoLc Q F → Sorted Q → Sorted F →
    serialize spec fuel acc obj (pQ Q) (pF F) = Tester.serialize spec fuel acc obj Q F := by
  intro fuel
  induction fuel with
  | zero => intros; rfl
  | succ fuel ih =>
    intro acc obj Q F hn hsQ hsF
    simp only [serialize, Tester.serialize, all_empty_pQ]
    split
    · rfl
    · have := tryThreads_eq spec (recL := Tester.serialize spec fuel) (recS := serialize spec fuel)
        (fun acc obj Q F h1 h2 h3 => ih acc obj Q F h1 h2 h3) acc obj hn hsQ hsF Q (fun _ h => h)
      rw [← this]
      rfl

theorem serializedHistory_eq (spec : SeqSpec S Op Ret) (T : SCTester S Op Ret) (hsH : Sorted T.hist) (hsF : Sorted T.inflight) :
    serializedHistory spec T = Tester.serializedHistory spec (embed T) := by
  unfold serializedHistory Tester.serializedHistory
  rw [len_embed]
  have hv : (embed T).valid = T.valid := rfl
  rw [hv]
  split
  · rfl
  · have hn : NoLc (Tester.enumQueues (embed T).hist) (embed T).inflight := by
      constructor
      · intro t its hf it hit
        rw [find?_enumQueues, embed_eq] at hf
        simp only at hf
        rw [find?_map] at hf
        cases hh : find? t T.hist with
        | none => simp [hh] at hf
        | some cs =>
          simp only [hh, Option.map_some, Option.some.injEq] at hf
          subst hf
          obtain ⟨i, e⟩ := it
          have := mem_enumItems.1 hit
          have := List.mem_of_getElem? this
          simp only [eH, List.mem_map] at this
          obtain ⟨y, _, rfl⟩ := this
          rfl
      · intro t x hf
        rw [embed_eq] at hf
        simp only at hf
        rw [find?_map] at hf
        cases hh : find? t T.inflight with
        | none => simp [hh] at hf
        | some op => simp only [hh, Option.map_some, Option.some.injEq] at hf; subst hf; rfl
    have hsQ : Sorted (Tester.enumQueues (embed T).hist) := by
      have h1 : Sorted (embed T).hist := by rw [embed_eq]; exact sorted_map eH hsH
      rw [enumQueues_eq]
      exact sorted_map (fun (_ : Nat) (cs : List (LC × Op × Ret)) => enumItems cs) h1
    have hsF' : Sorted (embed T).inflight := by rw [embed_eq]; exact sorted_map eF hsF
    rw [← serialize_eq spec _ _ _ _ _ hn hsQ hsF']
    have e1 : pQ (Tester.enumQueues (embed T).hist) = T.hist := by
      unfold pQ Tester.enumQueues
      rw [embed_eq]
      simp only [List.map_map]
      have : ∀ l : List (Nat × List (Op × Ret)), l.map (fun e => (e.1, e.2)) = l := by
        intro l; induction l with
        | nil => rfl
        | cons a l ih => simp
      conv => rhs; rw [← this T.hist]
      apply List.map_congr_left
      intro e _
      simp only [Function.comp, eH, List.map_map, Prod.mk.injEq, true_and]
      -- the projection of the enumerated, embedded queue is the queue
      have : ∀ (cs : List (Op × Ret)) (k : Nat),
          ((cs.map fun x => (([] : LC), x.1, x.2)).zipIdx k).map ((pItem (Op := Op) (Ret := Ret)) ∘ fun x => (x.2, x.1)) = cs := by
        intro cs
        induction cs with
        | nil => intro k; rfl
        | cons c cs ih => intro k; simp [List.zipIdx_cons, pItem, ih]
      have h0 := this e.2 0
      simpa [List.map_map] using h0
    have e2 : pF (embed T).inflight = T.inflight := by
      unfold pF
      rw [embed_eq]
      simp only [List.map_map]
      have : ∀ l : List (Nat × Op), l.map (fun e => (e.1, e.2)) = l := by
        intro l; induction l with
        | nil => rfl
        | cons a l ih => simp
      conv => rhs; rw [← this T.inflight]
      apply List.map_congr_left
      intro e _; rfl
    rw [e1, e2]
    rfl

/-! ### consequences for the literal tester -/
theorem sorted_step (T : SCTester S Op Ret) (h : Sorted T.hist ∧ Sorted T.inflight) (e : Event Op Ret) :
    Sorted (step T e).1.hist ∧ Sorted (step T e).1.inflight := by
  cases e with
  | inv t op =>
    simp only [step, onInvoke]
    split
    · exact h
    · split
      · exact h
      · exact ⟨sorted_orInsert h.1, sorted_upsert h.2⟩
  | ret t r =>
    simp only [step, onReturn]
    split
    · exact h
    · split
      · exact ⟨sorted_orInsert h.1, h.2⟩
      · exact ⟨sorted_upsert h.1, sorted_erase h.2⟩

theorem sorted_record (s0 : S) (es : List (Event Op Ret)) :
    Sorted (record s0 es).hist ∧ Sorted (record s0 es).inflight := by
  induction es using snoc_induction with
  | nil => exact ⟨sorted_nil, sorted_nil⟩
  | snoc es e ih =>
    have : record s0 (es ++ [e]) = (step (record s0 es) e).1 := by simp [record, List.foldl_append]
    rw [this]; exact sorted_step _ ih e

theorem serializedHistory_record (spec : SeqSpec S Op Ret) (s0 : S) (es : List (Event Op Ret)) :
    serializedHistory spec (record s0 es) = Tester.serializedHistory spec (Tester.record false s0 es) := by
  rw [serializedHistory_eq spec _ (sorted_record s0 es).1 (sorted_record s0 es).2, embed_record]

theorem results_record (s0 : S) (es : List (Event Op Ret)) :
    results (SCTester.new s0) es = Tester.results false (Tester.new s0) es := by
  rw [results_eq, embed_new]

theorem len_record_eq (s0 : S) (es : List (Event Op Ret)) : (record s0 es).len = (Tester.record false s0 es).len := by
  rw [← embed_record, len_embed]

end SCTester
end SR.Sem
