import SR.Sem.AMap
/-! Lemmas about the association-list maps of `SR/Sem/AMap.lean`. -/
namespace SR.Sem.AMap
variable {β γ : Type}

/-- keys strictly increasing: the `BTreeMap` iteration order, without duplicates -/
def Sorted (m : List (Nat × β)) : Prop := (keys m).Pairwise (· < ·)

@[simp] theorem find?_nil (k : Nat) : find? k ([] : List (Nat × β)) = none := rfl

theorem find?_cons (k k' : Nat) (v : β) (r : List (Nat × β)) :
    find? k ((k', v) :: r) = if k' = k then some v else find? k r := rfl

theorem sorted_nil : Sorted ([] : List (Nat × β)) := List.Pairwise.nil

theorem sorted_cons {k : Nat} {v : β} {r : List (Nat × β)} :
    Sorted ((k, v) :: r) ↔ (∀ k' ∈ keys r, k < k') ∧ Sorted r := by
  simp [Sorted, keys, List.pairwise_cons]

theorem find?_eq_none_of_lt {k : Nat} {m : List (Nat × β)} (h : ∀ k' ∈ keys m, k < k') : find? k m = none := by
  induction m with
  | nil => rfl
  | cons e r ih =>
    obtain ⟨k0, v0⟩ := e
    have h0 : k < k0 := h k0 (by simp [keys])
    have : k0 ≠ k := by omega
    simp only [find?_cons, this, if_false]
    exact ih (fun k' hk' => h k' (by simp [keys] at hk' ⊢; exact Or.inr hk'))

theorem mem_keys_of_find? {k : Nat} {v : β} {m : List (Nat × β)} (h : find? k m = some v) : k ∈ keys m := by
  induction m with
  | nil => simp at h
  | cons e r ih =>
    obtain ⟨k0, v0⟩ := e
    simp only [find?_cons] at h
    by_cases hk : k0 = k
    · simp [keys, hk]
    · simp only [hk, if_false] at h
      have := ih h
      simp [keys] at this ⊢; exact Or.inr this

theorem mem_of_find? {k : Nat} {v : β} {m : List (Nat × β)} (h : find? k m = some v) : (k, v) ∈ m := by
  induction m with
  | nil => simp at h
  | cons e r ih =>
    obtain ⟨k0, v0⟩ := e
    simp only [find?_cons] at h
    by_cases hk : k0 = k
    · simp only [hk, if_true, Option.some.injEq] at h
      simp [hk, h]
    · simp only [hk, if_false] at h
      exact List.mem_cons_of_mem _ (ih h)

theorem find?_of_mem {k : Nat} {v : β} {m : List (Nat × β)} (hs : Sorted m) (h : (k, v) ∈ m) : find? k m = some v := by
  induction m with
  | nil => simp at h
  | cons e r ih =>
    obtain ⟨k0, v0⟩ := e
    obtain ⟨hlt, hr⟩ := sorted_cons.1 hs
    rcases List.mem_cons.1 h with h | h
    · cases h; simp [find?_cons]
    · have : k ∈ keys r := by simp [keys]; exact ⟨v, h⟩
      have : k0 < k := hlt k this
      have hne : k0 ≠ k := by omega
      simp only [find?_cons, hne, if_false]
      exact ih hr h

theorem find?_isSome_iff_mem_keys {k : Nat} {m : List (Nat × β)} : (find? k m).isSome ↔ k ∈ keys m := by
  induction m with
  | nil => simp [keys]
  | cons e r ih =>
    obtain ⟨k0, v0⟩ := e
    simp only [find?_cons]
    by_cases hk : k0 = k
    · simp [hk, keys]
    · simp only [hk, if_false, ih]
      simp [keys]
      intro h; exact absurd h.symm hk

theorem find?_upsert (k k' : Nat) (v : β) (m : List (Nat × β)) :
    find? k' (upsert k v m) = if k = k' then some v else find? k' m := by
  induction m with
  | nil => simp [upsert, find?]
  | cons e r ih =>
    obtain ⟨k0, v0⟩ := e
    simp only [upsert]
    by_cases h1 : k < k0
    · simp only [h1, if_true, find?_cons]
    · simp only [h1, if_false]
      by_cases h2 : k = k0
      · subst h2
        simp only [if_true, find?_cons]
        split <;> simp_all
      · simp only [h2, if_false, find?_cons, ih]
        by_cases h3 : k0 = k'
        · subst h3; simp [h2]
        · simp [h3]

theorem find?_upsert_self (k : Nat) (v : β) (m : List (Nat × β)) : find? k (upsert k v m) = some v := by
  rw [find?_upsert]; simp

theorem find?_upsert_ne {k k' : Nat} (h : k ≠ k') (v : β) (m : List (Nat × β)) :
    find? k' (upsert k v m) = find? k' m := by
  rw [find?_upsert]; simp [h]

theorem mem_keys_upsert {k k' : Nat} {v : β} {m : List (Nat × β)} :
    k' ∈ keys (upsert k v m) ↔ k' = k ∨ k' ∈ keys m := by
  rw [← find?_isSome_iff_mem_keys, ← find?_isSome_iff_mem_keys, find?_upsert]
  by_cases h : k = k'
  · simp [h]
  · simp [h]; intro h'; exact absurd h'.symm h

theorem sorted_upsert {k : Nat} {v : β} {m : List (Nat × β)} (hs : Sorted m) : Sorted (upsert k v m) := by
  induction m with
  | nil => simp [upsert, Sorted, keys]
  | cons e r ih =>
    obtain ⟨k0, v0⟩ := e
    obtain ⟨hlt, hr⟩ := sorted_cons.1 hs
    simp only [upsert]
    by_cases h1 : k < k0
    · simp only [h1, if_true]
      refine sorted_cons.2 ⟨?_, hs⟩
      intro k' hk'
      simp [keys] at hk'
      rcases hk' with rfl | ⟨b, hb⟩
      · exact h1
      · have := hlt k' (by simp [keys]; exact ⟨b, hb⟩); omega
    · simp only [h1, if_false]
      by_cases h2 : k = k0
      · subst h2; simp only [if_true]
        exact sorted_cons.2 ⟨hlt, hr⟩
      · simp only [h2, if_false]
        refine sorted_cons.2 ⟨?_, ih hr⟩
        intro k' hk'
        rcases mem_keys_upsert.1 hk' with rfl | h
        · omega
        · exact hlt k' h

theorem find?_erase {k k' : Nat} {m : List (Nat × β)} (hs : Sorted m) :
    find? k' (erase k m) = if k' = k then none else find? k' m := by
  induction m with
  | nil => simp [erase]
  | cons e r ih =>
    obtain ⟨k0, v0⟩ := e
    obtain ⟨hlt, hr⟩ := sorted_cons.1 hs
    simp only [erase]
    by_cases h1 : k0 = k
    · subst h1
      simp only [if_true, find?_cons]
      by_cases h2 : k' = k0
      · subst h2; simp only [if_true]
        exact find?_eq_none_of_lt hlt
      · have : k0 ≠ k' := fun e => h2 e.symm
        simp [h2, this]
    · simp only [h1, if_false, find?_cons, ih hr]
      by_cases h2 : k0 = k'
      · subst h2; simp [h1]
      · simp [h2]

theorem mem_keys_erase {k k' : Nat} {m : List (Nat × β)} (hs : Sorted m) :
    k' ∈ keys (erase k m) ↔ k' ≠ k ∧ k' ∈ keys m := by
  rw [← find?_isSome_iff_mem_keys, ← find?_isSome_iff_mem_keys, find?_erase hs]
  by_cases h : k' = k <;> simp [h]

theorem sorted_erase {k : Nat} {m : List (Nat × β)} (hs : Sorted m) : Sorted (erase k m) := by
  induction m with
  | nil => simp [erase, sorted_nil]
  | cons e r ih =>
    obtain ⟨k0, v0⟩ := e
    obtain ⟨hlt, hr⟩ := sorted_cons.1 hs
    simp only [erase]
    by_cases h1 : k0 = k
    · simp [h1, hr]
    · simp only [h1, if_false]
      refine sorted_cons.2 ⟨?_, ih hr⟩
      intro k' hk'
      exact hlt k' ((mem_keys_erase hr).1 hk').2

theorem length_erase {k : Nat} {m : List (Nat × β)} (h : (find? k m).isSome) :
    (erase k m).length + 1 = m.length := by
  induction m with
  | nil => simp at h
  | cons e r ih =>
    obtain ⟨k0, v0⟩ := e
    simp only [erase]
    by_cases h1 : k0 = k
    · simp [h1]
    · simp only [find?_cons, h1, if_false] at h
      simp [h1, ih h]

theorem sorted_orInsert {k : Nat} {d : β} {m : List (Nat × β)} (hs : Sorted m) : Sorted (orInsert k d m) := by
  unfold orInsert; split
  · exact hs
  · exact sorted_upsert hs

theorem find?_orInsert (k k' : Nat) (d : β) (m : List (Nat × β)) :
    find? k' (orInsert k d m) = if k = k' ∧ find? k m = none then some d else find? k' m := by
  unfold orInsert
  cases h : find? k m with
  | none => simp [find?_upsert]
  | some v => simp

theorem find?_map (f : Nat → β → γ) (k : Nat) (m : List (Nat × β)) :
    find? k (m.map fun e => (e.1, f e.1 e.2)) = (find? k m).map (f k) := by
  induction m with
  | nil => rfl
  | cons e r ih =>
    obtain ⟨k0, v0⟩ := e
    simp only [List.map_cons, find?_cons, ih]
    by_cases h : k0 = k
    · subst h; simp
    · simp [h]

theorem keys_map (f : Nat → β → γ) (m : List (Nat × β)) : keys (m.map fun e => (e.1, f e.1 e.2)) = keys m := by
  simp [keys, List.map_map, Function.comp_def]

theorem sorted_map (f : Nat → β → γ) {m : List (Nat × β)} (hs : Sorted m) :
    Sorted (m.map fun e => (e.1, f e.1 e.2)) := by
  unfold Sorted; rw [keys_map]; exact hs

/-- lookup in a `filterMap` that keeps keys (needs distinct keys) -/
theorem find?_filterMap (g : Nat → β → Option γ) (k : Nat) {m : List (Nat × β)} (hs : Sorted m) :
    find? k (m.filterMap fun e => (g e.1 e.2).map fun x => (e.1, x)) = (find? k m).bind (g k) := by
  induction m with
  | nil => rfl
  | cons e r ih =>
    obtain ⟨k0, v0⟩ := e
    obtain ⟨hlt, hr⟩ := sorted_cons.1 hs
    simp only [List.filterMap_cons, find?_cons]
    by_cases h : k0 = k
    · subst h
      cases hg : g k0 v0 with
      | none =>
        simp only [Option.map_none, if_true, Option.bind_some, hg]
        rw [ih hr, find?_eq_none_of_lt hlt]; rfl
      | some x => simp [find?_cons, hg]
    · cases hg : g k0 v0 with
      | none => simp only [Option.map_none, h, if_false]; exact ih hr
      | some x => simp only [Option.map_some, find?_cons, h, if_false]; exact ih hr

theorem sorted_filterMap (g : Nat → β → Option γ) {m : List (Nat × β)} (hs : Sorted m) :
    Sorted (m.filterMap fun e => (g e.1 e.2).map fun x => (e.1, x)) := by
  induction m with
  | nil => exact sorted_nil
  | cons e r ih =>
    obtain ⟨k0, v0⟩ := e
    obtain ⟨hlt, hr⟩ := sorted_cons.1 hs
    simp only [List.filterMap_cons]
    cases hg : g k0 v0 with
    | none => simpa using ih hr
    | some x =>
      simp only [Option.map_some]
      refine sorted_cons.2 ⟨?_, ih hr⟩
      intro k' hk'
      apply hlt
      simp only [keys, List.mem_map, List.mem_filterMap] at hk' ⊢
      obtain ⟨a, ⟨b, hb, hba⟩, rfl⟩ := hk'
      cases hgb : g b.1 b.2 with
      | none => simp [hgb] at hba
      | some y =>
        simp [hgb] at hba
        exact ⟨b, hb, by rw [← hba]⟩

/-- in a sorted map, membership in the list is the same as `find?` -/
theorem mem_iff_find? {k : Nat} {v : β} {m : List (Nat × β)} (hs : Sorted m) : (k, v) ∈ m ↔ find? k m = some v :=
  ⟨find?_of_mem hs, mem_of_find?⟩

end SR.Sem.AMap
