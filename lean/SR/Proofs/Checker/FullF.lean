import SR.Proofs.Checker.FullE
/-! The initial state of the concurrent checker, the invariant along every run, and the two projections of a run. -/
namespace SR.Full
open SR SR.Checker SR.Market

theorem nodupB_of_nodup : ∀ {l : List Nat}, l.Nodup → nodupB l = true := by
  intro l
  induction l with
  | nil => intro _; rfl
  | cons a as ih =>
    intro h
    obtain ⟨h1, h2⟩ := List.nodup_cons.1 h
    simp [nodupB, h1, ih h2]

/-- the market after `job_broker.push(initial jobs)` -/
def m0 (k n : Nat) : MState :=
  { Market.init k k with batches := [List.range n], created := List.range n }

theorem xpush_init (k n : Nat) : Market.step (Market.init k k) (.xpush (List.range n) []) = some (m0 k n) := by
  have hf : freshOk (Market.init k k) (List.range n) = true := by
    simp [freshOk, nodupB_of_nodup (List.nodup_range), Market.init]
  have hc : (List.replicate k Pc.running).count (Pc.parked false) = 0 := by
    rw [List.count_replicate]; simp
  have hp : picksOk (Market.init k k).pcs [] 1 = true := by
    simp [picksOk, nodupB, Market.init, hc]
  have ho : (Market.init k k).isOpen = true := rfl
  simp only [Market.step, stepR, hf, hp, ho, if_true, Bool.not_true, Bool.false_eq_true, if_false, Option.map_some]
  simp [m0, Market.init, notifyPicks]

theorem replicate_getD (k v : Nat) : (List.replicate k ([] : List Tok)).getD v [] = [] := by
  simp [List.getD_eq_getElem?_getD, List.getElem?_replicate]
  split <;> rfl

theorem popLoop_pcs_length (s : MState) (w : Nat) : (popLoop s w).1.pcs.length = s.pcs.length := by
  unfold popLoop
  split
  · simp
  · simp only; split <;> simp [length_notifyAll]

theorem step_pcs_length {s s' : MState} {m : Step} (hs : Market.step s m = some s') :
    s'.pcs.length = s.pcs.length := by
  cases m with
  | popBegin w =>
    obtain ⟨_, h⟩ := popBegin_eff hs
    rcases h with ⟨_, rfl⟩ | ⟨_, rfl⟩
    · rfl
    · exact popLoop_pcs_length s w
  | wake w => obtain ⟨_, rfl⟩ := wake_eff hs; exact popLoop_pcs_length _ w
  | push w n picks =>
    unfold Market.step at hs
    simp only [stepR] at hs
    (repeat' split at hs) <;> simp at hs <;> subst hs <;> simp [length_notifyPicks]
  | xpush toks picks =>
    unfold Market.step at hs
    simp only [stepR] at hs
    (repeat' split at hs) <;> simp at hs <;> subst hs <;> simp [length_notifyPicks]
  | split w picks =>
    obtain ⟨_, h⟩ := split_eff hs
    rcases h with ⟨_, rfl⟩ | ⟨_, rfl⟩
    · rfl
    · simp [length_notifyPicks]
  | work w c fresh => obtain ⟨_, _, rfl⟩ := work_eff hs; rfl
  | rearrange w l => obtain ⟨_, _, rfl⟩ := rearrange_eff hs; rfl
  | drop w => obtain ⟨_, rfl⟩ := drop_eff hs; simp [length_notifyAll]
  | xdrop => have := xdrop_eff hs; subst this; simp [dropMarket, length_notifyAll]
  | timeoutFire => have := timeout_eff hs; subst this; rfl

theorem mrun_pcs_length (ms : List Step) : ∀ s : MState, (mrun s ms).pcs.length = s.pcs.length := by
  induction ms with
  | nil => intro s; rfl
  | cons m ms ih =>
    intro s
    show (mrun ((Market.step s m).getD s) ms).pcs.length = s.pcs.length
    rw [ih]
    cases hs : Market.step s m with
    | none => rfl
    | some s' => exact step_pcs_length hs

section
variable {σ κ α : Type} [DecidableEq κ] (P : Params σ κ α)

theorem finit_m (k : Nat) : (finit P k).m = m0 k (Checker.init P.M P.props P.key).frontier.length := by
  simp [finit, xpush_init]

theorem finv_init (k : Nat) : FInv (finit P k) := by
  have hs := xpush_init k (Checker.init P.M P.props P.key).frontier.length
  have hmi := minv_step (minv_init k k (Nat.le_refl k)) hs
  have hoi := oinv_step (minv_init k k (Nat.le_refl k)).p (oinv_init k) hs
  have hm := finit_m P k
  refine ⟨by rw [hm]; exact hmi, by rw [hm]; exact hoi, ?_, ?_, ?_, ?_, ?_, ?_, ?_, ?_, ?_⟩
  · intro t
    rw [hm]
    simp [finit, m0, tokensIn, Market.init]
  · simp [finit]
  · simp only [finit]; exact (List.reverse_perm _).nodup_iff.2 List.nodup_range
  · intro t ht
    rw [hm]
    simpa [finit, m0] using ht
  · simp [finit, Checker.init]
  · simp [finit]
  · intro w hw; simp [finit] at hw
  · intro v _
    rw [hm]
    simp only [locOf, m0, Market.init]
    exact replicate_getD k v
  · intro hc
    rw [hm] at hc
    simp [m0, Market.init] at hc

variable {P}

theorem frunFrom_inv (fs : List FStep) : ∀ x : FState σ κ, FInv x → FInv (frunFrom P x fs).1 := by
  induction fs with
  | nil => intro x h; exact h
  | cons f fs ih =>
    intro x h
    simp only [frunFrom]
    cases hf : fstep P x f with
    | none => exact ih x h
    | some r =>
      obtain ⟨x', ms, cs⟩ := r
      exact ih x' (finv_step h hf)

theorem mseq_single (m : MState) (s : Step) : mseq m [s] = Market.step m s := by
  simp only [mseq]
  cases Market.step m s <;> rfl

/-- one step of the product performs exactly the market steps and the machine choices it reports -/
theorem fstep_proj {x x' : FState σ κ} {f : FStep} {ms : List Step} {cs : List Choice}
    (h : fstep P x f = some (x', ms, cs)) : mseq x.m ms = some x'.m ∧ x'.c = runFrom P x.c cs := by
  cases f with
  | pop w =>
    simp only [fstep] at h
    split at h
    · cases hs : Market.step x.m (.popBegin w) with
      | none => simp [hs] at h
      | some m' =>
        simp only [hs, Option.map_some, Option.some.injEq, Prod.mk.injEq] at h
        obtain ⟨rfl, rfl, rfl⟩ := h
        exact ⟨by rw [mseq_single]; exact hs, rfl⟩
    · simp at h
  | wake w =>
    simp only [fstep] at h
    cases hs : Market.step x.m (.wake w) with
    | none => simp [hs] at h
    | some m' =>
      simp only [hs, Option.map_some, Option.some.injEq, Prod.mk.injEq] at h
      obtain ⟨rfl, rfl, rfl⟩ := h
      exact ⟨by rw [mseq_single]; exact hs, rfl⟩
  | split w picks =>
    simp only [fstep] at h
    split at h
    · cases hs : Market.step x.m (.split w picks) with
      | none => simp [hs] at h
      | some m' =>
        simp only [hs, Option.map_some, Option.some.injEq, Prod.mk.injEq] at h
        obtain ⟨rfl, rfl, rfl⟩ := h
        exact ⟨by rw [mseq_single]; exact hs, rfl⟩
    · simp at h
  | take w p =>
    simp only [fstep] at h
    split at h
    · simp at h
    · rename_i t ht
      split at h
      · simp at h
      · cases hs : mseq x.m [Step.rearrange w ((locOf x.m w).eraseIdx p ++ [t]), Step.work w 1 []] with
        | none => simp [hs] at h
        | some m' =>
          simp only [hs, Option.map_some, Option.some.injEq, Prod.mk.injEq] at h
          obtain ⟨rfl, rfl, rfl⟩ := h
          exact ⟨hs, rfl⟩
  | discard w p =>
    simp only [fstep] at h
    split at h
    · simp at h
    · rename_i t ht
      split at h
      · cases hs : mseq x.m [Step.rearrange w ((locOf x.m w).eraseIdx p ++ [t]), Step.work w 1 []] with
        | none => simp [hs] at h
        | some m' =>
          simp only [hs, Option.map_some, Option.some.injEq, Prod.mk.injEq] at h
          obtain ⟨rfl, rfl, rfl⟩ := h
          exact ⟨hs, rfl⟩
      · simp at h
  | evalProp w b =>
    simp only [fstep, onJob] at h
    split at h
    · simp only [Option.some.injEq, Prod.mk.injEq] at h
      obtain ⟨rfl, rfl, rfl⟩ := h
      exact ⟨rfl, rfl⟩
    · simp at h
  | finishProps w =>
    simp only [fstep, onJob] at h
    split at h
    · simp only [Option.some.injEq, Prod.mk.injEq] at h
      obtain ⟨rfl, rfl, rfl⟩ := h
      exact ⟨rfl, rfl⟩
    · simp at h
  | record w =>
    simp only [fstep, onJob] at h
    split at h
    · simp only [Option.some.injEq, Prod.mk.injEq] at h
      obtain ⟨rfl, rfl, rfl⟩ := h
      exact ⟨rfl, rfl⟩
    · simp at h
  | expand w front tok back =>
    simp only [fstep] at h
    split at h
    · split at h
      · cases hs : mseq x.m (Step.work w 0 [tok] :: (if back then [Step.rearrange w (locOf x.m w ++ [tok])] else [])) with
        | none => simp [hs] at h
        | some m' =>
          simp only [hs, Option.map_some, Option.some.injEq, Prod.mk.injEq] at h
          obtain ⟨rfl, rfl, rfl⟩ := h
          exact ⟨hs, rfl⟩
      · simp only [Option.some.injEq, Prod.mk.injEq] at h
        obtain ⟨rfl, rfl, rfl⟩ := h
        exact ⟨rfl, rfl⟩
    · simp at h
  | stop w why =>
    simp only [fstep] at h
    split at h
    · cases hs : Market.step x.m (.drop w) with
      | none => simp [hs] at h
      | some m' =>
        simp only [hs, Option.map_some, Option.some.injEq, Prod.mk.injEq] at h
        obtain ⟨rfl, rfl, rfl⟩ := h
        exact ⟨by rw [mseq_single]; exact hs, rfl⟩
    · simp at h
  | exit w =>
    simp only [fstep] at h
    split at h
    · cases hs : Market.step x.m (.drop w) with
      | none => simp [hs] at h
      | some m' =>
        simp only [hs, Option.map_some, Option.some.injEq, Prod.mk.injEq] at h
        obtain ⟨rfl, rfl, rfl⟩ := h
        exact ⟨by rw [mseq_single]; exact hs, rfl⟩
    · simp at h
  | timeout =>
    simp only [fstep] at h
    split at h
    · cases hs : Market.step x.m .timeoutFire with
      | none => simp [hs] at h
      | some m' =>
        simp only [hs, Option.map_some, Option.some.injEq, Prod.mk.injEq] at h
        obtain ⟨rfl, rfl, rfl⟩ := h
        exact ⟨by rw [mseq_single]; exact hs, rfl⟩
    · simp at h
  | xdrop =>
    simp only [fstep] at h
    cases hs : Market.step x.m .xdrop with
    | none => simp [hs] at h
    | some m' =>
      simp only [hs, Option.map_some, Option.some.injEq, Prod.mk.injEq] at h
      obtain ⟨rfl, rfl, rfl⟩ := h
      exact ⟨by rw [mseq_single]; exact hs, rfl⟩

/-- a run of the product projects onto a run of the market and onto a run of the machine -/
theorem frunFrom_proj (fs : List FStep) : ∀ x : FState σ κ,
    (frunFrom P x fs).1.m = mrun x.m (frunFrom P x fs).2.1 ∧
    (frunFrom P x fs).1.c = runFrom P x.c (frunFrom P x fs).2.2 := by
  induction fs with
  | nil => intro x; exact ⟨rfl, rfl⟩
  | cons f fs ih =>
    intro x
    simp only [frunFrom]
    cases hf : fstep P x f with
    | none => exact ih x
    | some r =>
      obtain ⟨x', ms, cs⟩ := r
      obtain ⟨h1, h2⟩ := fstep_proj hf
      obtain ⟨i1, i2⟩ := ih x'
      simp only
      refine ⟨?_, ?_⟩
      · rw [mrun_append, mseq_mrun ms h1]; exact i1
      · rw [runFrom_append, ← h2]; exact i2

end
end SR.Full
