import SR.Proofs.Checker.Spec
import SR.Proofs.Checker.Fuel
import SR.Proofs.Checker.Forest
import SR.Proofs.HasDisc
/-!
# Adequacy of the executable graph oracles (`SR/Checker/Spec.lean`) on well-formed graphs

* `reachList_stable` / `reachList_iff_wf`: on a well-formed graph `g.n` closure rounds always stabilise, so
  `reachList` is exactly `Reach` (no run-time fixpoint hypothesis needed).
* `distOf_some_iff` / `distOf_none_iff`: `distOf` is the length of a shortest in-boundary path from an initial state.
* `isForest_iff`: `isForest` = `Forest` + duplicate-free in-boundary initial states.
* `canAvoidForever_iff`: `canAvoidForever c` = some in-boundary path from an initial state avoids `c` and ends in a
  terminal state or closes a cycle.
-/
namespace SR.Checker
open SR

/-! ### list helpers -/

theorem length_eraseDups_le : ∀ (l : List Nat), l.eraseDups.length ≤ l.length
  | [] => by simp
  | a :: as => by
    rw [List.eraseDups_cons]
    have ih := length_eraseDups_le (as.filter fun b => !b == a)
    have := List.length_filter_le (fun b => !b == a) as
    simp only [List.length_cons]
    omega
termination_by l => l.length
decreasing_by simp only [List.length_cons]; exact Nat.lt_succ_of_le (List.length_filter_le _ _)

theorem nodup_eraseDups : ∀ (l : List Nat), l.eraseDups.Nodup
  | [] => by simp
  | a :: as => by
    rw [List.eraseDups_cons]
    have ih := nodup_eraseDups (as.filter fun b => !b == a)
    refine List.nodup_cons.2 ⟨?_, ih⟩
    intro h
    have := List.mem_eraseDups.1 h
    simp at this
termination_by l => l.length
decreasing_by simp only [List.length_cons]; exact Nat.lt_succ_of_le (List.length_filter_le _ _)

theorem eraseDups_of_nodup : ∀ (l : List Nat), l.Nodup → l.eraseDups = l
  | [], _ => by simp
  | a :: as, h => by
    rw [List.eraseDups_cons]
    obtain ⟨ha, has⟩ := List.nodup_cons.1 h
    have hf : as.filter (fun b => !b == a) = as := by
      rw [List.filter_eq_self]
      intro b hb
      have : b ≠ a := fun e => ha (e ▸ hb)
      simpa using this
    rw [hf, eraseDups_of_nodup as has]

theorem nodup_of_eraseDups_length : ∀ (l : List Nat), l.eraseDups.length = l.length → l.Nodup
  | [], _ => by simp
  | a :: as, h => by
    rw [List.eraseDups_cons] at h
    have h1 := length_eraseDups_le (as.filter fun b => !b == a)
    have h2 := List.length_filter_le (fun b => !b == a) as
    simp only [List.length_cons] at h
    have hfl : (as.filter fun b => !b == a).length = as.length := by omega
    have hall := List.length_filter_eq_length_iff.1 hfl
    have hf : as.filter (fun b => !b == a) = as := List.filter_eq_self.2 hall
    rw [hf] at h
    have ih := nodup_of_eraseDups_length as (by omega)
    refine List.nodup_cons.2 ⟨?_, ih⟩
    intro ha
    have := hall a ha
    simp at this

theorem eraseDups_length_eq_iff (l : List Nat) : l.eraseDups.length = l.length ↔ l.Nodup :=
  ⟨nodup_of_eraseDups_length l, fun h => by rw [eraseDups_of_nodup l h]⟩

/-- pigeonhole -/
theorem nodup_lt_length_le {n : Nat} {l : List Nat} (hnd : l.Nodup) (hb : ∀ x ∈ l, x < n) : l.length ≤ n := by
  have := List.Nodup.length_le_of_subset hnd (l₂ := List.range n) (fun x hx => List.mem_range.2 (hb x hx))
  simpa using this

theorem nodup_filter {l : List Nat} (p : Nat → Bool) (h : l.Nodup) : (l.filter p).Nodup :=
  List.Pairwise.filter p h

namespace Graph
variable (g : Graph)

/-! ### the closure stabilises within `g.n` rounds -/

theorem nodup_insert_fold (ts acc : List Nat) (h : acc.Nodup) :
    (ts.foldl (fun acc t => if t ∈ acc then acc else acc ++ [t]) acc).Nodup := by
  induction ts generalizing acc with
  | nil => exact h
  | cons t ts ih =>
    simp only [List.foldl_cons]
    apply ih
    by_cases ht : t ∈ acc
    · simp only [ht, if_true]; exact h
    · simp only [ht, if_false]
      rw [List.nodup_append]
      refine ⟨h, by simp, ?_⟩
      intro a ha b hb
      simp at hb; subst hb
      exact fun e => ht (e ▸ ha)

theorem nodup_closeStep_aux (ks acc : List Nat) (h : acc.Nodup) :
    (ks.foldl (fun acc s => (g.succB s).foldl (fun acc t => if t ∈ acc then acc else acc ++ [t]) acc) acc).Nodup := by
  induction ks generalizing acc with
  | nil => exact h
  | cons k ks ih =>
    simp only [List.foldl_cons]
    exact ih _ (nodup_insert_fold _ _ h)

theorem nodup_closeStep (k : List Nat) (h : k.Nodup) : (g.closeStep k).Nodup := nodup_closeStep_aux g k k h

theorem nodup_closeN (n : Nat) (k : List Nat) (h : k.Nodup) : (g.closeN n k).Nodup := by
  induction n generalizing k with
  | zero => exact h
  | succ n ih => exact ih _ (nodup_closeStep g k h)

theorem nodup_reachList : g.reachList.Nodup := nodup_closeN g _ _ (nodup_eraseDups _)

/-- closed under in-boundary successors -/
def Closed (k : List Nat) : Prop := ∀ s ∈ k, ∀ t ∈ g.succB s, t ∈ k

theorem insert_fold_of_subset (ts acc : List Nat) (h : ∀ t ∈ ts, t ∈ acc) :
    ts.foldl (fun acc t => if t ∈ acc then acc else acc ++ [t]) acc = acc := by
  induction ts with
  | nil => rfl
  | cons t ts ih =>
    simp only [List.foldl_cons, h t (by simp), if_true]
    exact ih (fun t' ht' => h t' (List.mem_cons_of_mem _ ht'))

theorem closeStep_aux_of_closed (ks acc : List Nat) (h : ∀ s ∈ ks, ∀ t ∈ g.succB s, t ∈ acc) :
    ks.foldl (fun acc s => (g.succB s).foldl (fun acc t => if t ∈ acc then acc else acc ++ [t]) acc) acc = acc := by
  induction ks with
  | nil => rfl
  | cons k ks ih =>
    simp only [List.foldl_cons]
    rw [insert_fold_of_subset _ _ (h k (by simp))]
    exact ih (fun s hs => h s (List.mem_cons_of_mem _ hs))

theorem closeStep_of_closed {k : List Nat} (h : g.Closed k) : g.closeStep k = k :=
  closeStep_aux_of_closed g k k h

theorem closeN_of_closed (n : Nat) {k : List Nat} (h : g.Closed k) : g.closeN n k = k := by
  induction n with
  | zero => rfl
  | succ n ih => simp only [closeN, closeStep_of_closed g h, ih]

/-- a round that adds nothing means the set is closed -/
theorem closed_or_longer {k : List Nat} (hnd : k.Nodup) : g.Closed k ∨ k.length + 1 ≤ (g.closeStep k).length := by
  by_cases hl : (g.closeStep k).length ≤ k.length
  · left
    have hsub : k ⊆ g.closeStep k := fun x hx => (mem_closeStep g k x).2 (Or.inl hx)
    have := SR.HasDisc.subset_of_length_le hnd hsub hl
    intro s hs t ht
    exact this ((mem_closeStep g k t).2 (Or.inr ⟨s, hs, ht⟩))
  · right; omega

theorem closeN_closed_or_long (n : Nat) : ∀ (k : List Nat), k.Nodup →
    g.Closed (g.closeN n k) ∨ k.length + n ≤ (g.closeN n k).length := by
  induction n with
  | zero => intro k _; right; simp [closeN]
  | succ n ih =>
    intro k hnd
    simp only [closeN]
    rcases closed_or_longer g hnd with hc | hl
    · left
      rw [closeStep_of_closed g hc, closeN_of_closed g n hc]
      exact hc
    · rcases ih _ (nodup_closeStep g k hnd) with h | h
      · exact Or.inl h
      · right; omega

/-- **`g.n` rounds always stabilise on a well-formed graph**: the run-time check `oracle-closure-not-stabilised`
    of the driver can never fire. -/
theorem reachList_stable (hwf : g.WF) : g.Closed g.reachList := by
  rcases closeN_closed_or_long g g.n _ (nodup_eraseDups g.initB) with h | h
  · exact h
  · have hle : g.reachList.length ≤ g.n :=
      nodup_lt_length_le (nodup_reachList g) (fun x hx => Graph.reach_lt hwf (reachList_sound g x hx))
    have h0 : g.initB.eraseDups = [] := by
      apply List.eq_nil_of_length_eq_zero
      unfold reachList at hle
      omega
    unfold reachList
    rw [h0]
    have hc : g.Closed [] := by intro s hs; cases hs
    rw [closeN_of_closed g _ hc]
    exact hc

theorem reachList_hfix (hwf : g.WF) : ∀ x, x ∈ g.closeStep g.reachList → x ∈ g.reachList := by
  intro x hx
  rw [closeStep_of_closed g (reachList_stable g hwf)] at hx
  exact hx

/-- the oracle's reachable set is exactly `Reach` on a well-formed graph -/
theorem reachList_iff_wf (hwf : g.WF) (x : Nat) : x ∈ g.reachList ↔ g.toSys.Reach x :=
  reachList_iff g (reachList_hfix g hwf) x


/-! ### BFS distance -/

end Graph
end SR.Checker

namespace SR.Sys
variable {σ α : Type}

/-- `s` is the end of a walk of exactly `k` in-boundary steps from an in-boundary initial state -/
inductive ReachIn (M : Sys σ α) : Nat → σ → Prop
  | init {s} : s ∈ M.initB → ReachIn M 0 s
  | step {k s t} : ReachIn M k s → t ∈ M.succB s → ReachIn M (k + 1) t

variable {M : Sys σ α}

theorem reachIn_zero {s : σ} : M.ReachIn 0 s ↔ s ∈ M.initB :=
  ⟨fun h => by cases h; assumption, ReachIn.init⟩

theorem reachIn_succ {k : Nat} {t : σ} : M.ReachIn (k + 1) t ↔ ∃ s, M.ReachIn k s ∧ t ∈ M.succB s :=
  ⟨fun h => by cases h with | step h1 h2 => exact ⟨_, h1, h2⟩, fun ⟨_, h1, h2⟩ => ReachIn.step h1 h2⟩

theorem reach_of_reachIn {k : Nat} {s : σ} (h : M.ReachIn k s) : M.Reach s := by
  induction h with
  | init h => exact Reach.init h
  | step _ ht ih => exact Reach.step ih ht

theorem reachIn_of_reach {s : σ} (h : M.Reach s) : ∃ k, M.ReachIn k s := by
  induction h with
  | init h => exact ⟨0, ReachIn.init h⟩
  | step _ ht ih => obtain ⟨k, hk⟩ := ih; exact ⟨k + 1, ReachIn.step hk ht⟩

theorem reachIn_path {k : Nat} {s : σ} (h : M.ReachIn k s) :
    ∃ p, M.IsPath p ∧ p.getLast? = some s ∧ p.length = k + 1 := by
  induction h with
  | init h => exact ⟨[_], isPath_singleton h, rfl, rfl⟩
  | step _ ht ih =>
    obtain ⟨p, hp, hl, hlen⟩ := ih
    exact ⟨p ++ [_], isPath_append_one hp hl ht, by simp, by simp [hlen]⟩

theorem path_reachIn : ∀ (k : Nat) (p : List σ) (s : σ), M.IsPath p → p.getLast? = some s → p.length = k + 1 →
    M.ReachIn k s := by
  intro k
  induction k with
  | zero =>
    intro p s hp hl hlen
    obtain ⟨x, rest, rfl, hx, _⟩ := hp
    cases rest with
    | nil => simp at hl; subst hl; exact ReachIn.init hx
    | cons y ys => simp at hlen
  | succ k ih =>
    intro p s hp hl hlen
    rcases List.eq_nil_or_concat p with rfl | ⟨q, t, rfl⟩
    · simp at hlen
    · rw [List.concat_eq_append] at hp hl hlen
      have hts : t = s := by simpa using hl
      subst hts
      have hq : q ≠ [] := by intro e; subst e; simp at hlen
      obtain ⟨hpq, u, hu, htu⟩ := isPath_snoc_inv hq hp
      exact ReachIn.step (ih q u hpq hu (by simpa using hlen)) htu

theorem reachIn_iff_path {k : Nat} {s : σ} :
    M.ReachIn k s ↔ ∃ p, M.IsPath p ∧ p.getLast? = some s ∧ p.length = k + 1 :=
  ⟨reachIn_path, fun ⟨p, hp, hl, hlen⟩ => path_reachIn k p s hp hl hlen⟩

/-- every reachable state has a least number of steps -/
theorem exists_min_reachIn {s : σ} : ∀ (k : Nat), M.ReachIn k s → ∃ d, M.ReachIn d s ∧ ∀ j, j < d → ¬ M.ReachIn j s := by
  intro k
  induction k using Nat.strongRecOn with
  | _ k ih =>
    intro hk
    by_cases h : ∃ j, j < k ∧ M.ReachIn j s
    · obtain ⟨j, hj, hjs⟩ := h
      exact ih j hj hjs
    · exact ⟨k, hk, fun j hj hjs => h ⟨j, hj, hjs⟩⟩

/-- if no state is first reached after exactly `d` steps, none is first reached later -/
theorem reachIn_collapse {d : Nat} (hempty : ∀ x, M.ReachIn d x → ∃ j, j < d ∧ M.ReachIn j x) :
    ∀ (m : Nat), d ≤ m → ∀ x, M.ReachIn m x → ∃ j, j < d ∧ M.ReachIn j x := by
  intro m
  induction m with
  | zero => intro hd x hx; have : d = 0 := by omega
            subst this; exact hempty x hx
  | succ m ih =>
    intro hd x hx
    by_cases he : d = m + 1
    · subst he; exact hempty x hx
    · obtain ⟨y, hy, hxy⟩ := reachIn_succ.1 hx
      obtain ⟨j, hj, hjy⟩ := ih (by omega) y hy
      by_cases hj' : j + 1 < d
      · exact ⟨j + 1, hj', ReachIn.step hjy hxy⟩
      · have : d = j + 1 := by omega
        subst this
        exact hempty x (ReachIn.step hjy hxy)

end SR.Sys

namespace SR.Checker
open SR
namespace Graph
variable (g : Graph)

/-- invariant of the layer loop of `distOf`: `layer` = the states first reached after exactly `d` steps,
    `seen` = the states reached after at most `d` steps -/
structure BfsInv (d : Nat) (seen layer : List Nat) : Prop where
  lay : ∀ x, x ∈ layer ↔ g.toSys.ReachIn d x ∧ ∀ j, j < d → ¬ g.toSys.ReachIn j x
  sn : ∀ x, x ∈ seen ↔ ∃ j, j ≤ d ∧ g.toSys.ReachIn j x
  nd : seen.Nodup
  len : d + layer.length ≤ seen.length

theorem bfsInv_init : g.BfsInv 0 g.initB.eraseDups g.initB.eraseDups := by
  refine ⟨?_, ?_, nodup_eraseDups _, by omega⟩
  · intro x
    rw [List.mem_eraseDups, Sys.reachIn_zero]
    exact ⟨fun h => ⟨h, fun j hj => absurd hj (Nat.not_lt_zero _)⟩, fun h => h.1⟩
  · intro x
    rw [List.mem_eraseDups]
    constructor
    · intro h; exact ⟨0, Nat.le_refl _, Sys.reachIn_zero.2 h⟩
    · rintro ⟨j, hj, h⟩
      have : j = 0 := by omega
      subst this; exact Sys.reachIn_zero.1 h

theorem mem_next (seen layer : List Nat) (x : Nat) :
    x ∈ (layer.flatMap g.succB).eraseDups.filter (fun t => !seen.contains t) ↔
      (∃ y ∈ layer, x ∈ g.toSys.succB y) ∧ x ∉ seen := by
  simp [List.mem_filter, List.mem_eraseDups, List.mem_flatMap, succB]

theorem bfsInv_step {d : Nat} {seen layer : List Nat} (inv : g.BfsInv d seen layer) (hne : layer ≠ []) :
    g.BfsInv (d + 1) (seen ++ (layer.flatMap g.succB).eraseDups.filter (fun t => !seen.contains t))
      ((layer.flatMap g.succB).eraseDups.filter (fun t => !seen.contains t)) := by
  have hlayer : ∀ x, x ∈ (layer.flatMap g.succB).eraseDups.filter (fun t => !seen.contains t) ↔
      g.toSys.ReachIn (d + 1) x ∧ ∀ j, j < d + 1 → ¬ g.toSys.ReachIn j x := by
    intro x
    rw [mem_next]
    constructor
    · rintro ⟨⟨y, hy, hxy⟩, hns⟩
      refine ⟨Sys.ReachIn.step ((inv.lay y).1 hy).1 hxy, ?_⟩
      intro j hj hjx
      exact hns ((inv.sn x).2 ⟨j, by omega, hjx⟩)
    · rintro ⟨h1, h2⟩
      obtain ⟨y, hy, hxy⟩ := Sys.reachIn_succ.1 h1
      refine ⟨⟨y, (inv.lay y).2 ⟨hy, ?_⟩, hxy⟩, ?_⟩
      · intro j hj hjy
        exact h2 (j + 1) (by omega) (Sys.ReachIn.step hjy hxy)
      · intro hs
        obtain ⟨j, hj, hjx⟩ := (inv.sn x).1 hs
        exact h2 j (by omega) hjx
  refine ⟨hlayer, ?_, ?_, ?_⟩
  · intro x
    rw [List.mem_append]
    constructor
    · rintro (h | h)
      · obtain ⟨j, hj, hjx⟩ := (inv.sn x).1 h
        exact ⟨j, by omega, hjx⟩
      · exact ⟨d + 1, Nat.le_refl _, ((hlayer x).1 h).1⟩
    · rintro ⟨j, hj, hjx⟩
      by_cases hs : x ∈ seen
      · exact Or.inl hs
      · right
        have hjd : j = d + 1 := by
          apply Classical.byContradiction
          intro hne
          exact hs ((inv.sn x).2 ⟨j, by omega, hjx⟩)
        subst hjd
        refine (hlayer x).2 ⟨hjx, ?_⟩
        intro j' hj' hj'x
        exact hs ((inv.sn x).2 ⟨j', by omega, hj'x⟩)
  · rw [List.nodup_append]
    refine ⟨inv.nd, nodup_filter _ (nodup_eraseDups _), ?_⟩
    intro a ha b hb e
    subst e
    exact ((mem_next g seen layer a).1 hb).2 ha
  · have hl : 1 ≤ layer.length := by
      cases layer with
      | nil => exact absurd rfl hne
      | cons _ _ => simp
    have := inv.len
    rw [List.length_append]
    omega

theorem bfsInv_bound (hwf : g.WF) {d : Nat} {seen layer : List Nat} (inv : g.BfsInv d seen layer) : d ≤ g.n := by
  have h1 : seen.length ≤ g.n := nodup_lt_length_le inv.nd (fun x hx => by
    obtain ⟨j, _, hjx⟩ := (inv.sn x).1 hx
    exact Graph.reach_lt hwf (Sys.reach_of_reachIn hjx))
  have := inv.len
  omega

theorem distOf_go_iff (hwf : g.WF) (s : Nat) : ∀ (fuel d : Nat) (seen layer : List Nat), g.BfsInv d seen layer →
    (∀ j, j < d → ¬ g.toSys.ReachIn j s) → g.n + 2 ≤ fuel + d → ∀ d',
    (distOf.go g s fuel d seen layer = some d' ↔ (g.toSys.ReachIn d' s ∧ ∀ j, j < d' → ¬ g.toSys.ReachIn j s)) := by
  intro fuel
  induction fuel with
  | zero =>
    intro d seen layer inv _ hf
    have := bfsInv_bound g hwf inv
    omega
  | succ fuel ih =>
    intro d seen layer inv hs hf d'
    unfold distOf.go
    by_cases hin : layer.contains s = true
    · rw [if_pos hin]
      have hl := (inv.lay s).1 (by simpa using hin)
      constructor
      · intro e; cases e; exact hl
      · rintro ⟨h1, h2⟩
        have : d = d' := by
          rcases Nat.lt_trichotomy d d' with h | h | h
          · exact absurd hl.1 (h2 d h)
          · exact h
          · exact absurd h1 (hl.2 d' h)
        rw [this]
    · rw [if_neg hin]
      by_cases hem : layer.isEmpty = true
      · rw [if_pos hem]
        have hnil : layer = [] := by simpa using hem
        constructor
        · intro e; cases e
        · rintro ⟨h1, _⟩
          exfalso
          have hd : d ≤ d' := by
            apply Classical.byContradiction
            intro hlt
            exact hs d' (by omega) h1
          have hempty : ∀ x, g.toSys.ReachIn d x → ∃ j, j < d ∧ g.toSys.ReachIn j x := by
            intro x hx
            apply Classical.byContradiction
            intro hno
            have : x ∈ layer := (inv.lay x).2 ⟨hx, fun j hj hjx => hno ⟨j, hj, hjx⟩⟩
            rw [hnil] at this
            cases this
          obtain ⟨j, hj, hjs⟩ := Sys.reachIn_collapse hempty d' hd s h1
          exact hs j hj hjs
      · rw [if_neg hem]
        have hne : layer ≠ [] := by intro e; apply hem; simp [e]
        apply ih _ _ _ (bfsInv_step g inv hne)
        · intro j hj hjs
          by_cases hjd : j < d
          · exact hs j hjd hjs
          · have : j = d := by omega
            subst this
            apply hin
            have : s ∈ layer := (inv.lay s).2 ⟨hjs, hs⟩
            simpa using this
        · omega

/-- `distOf s = some d` iff `d` is the least number of in-boundary steps from an initial state to `s` -/
theorem distOf_some_iff_reachIn (hwf : g.WF) (s d : Nat) :
    g.distOf s = some d ↔ (g.toSys.ReachIn d s ∧ ∀ j, j < d → ¬ g.toSys.ReachIn j s) := by
  unfold distOf
  exact distOf_go_iff g hwf s _ 0 _ _ (bfsInv_init g) (fun j hj => absurd hj (Nat.not_lt_zero _)) (by omega) d

/-- **`distOf` is the length of a shortest in-boundary path from an initial state** -/
theorem distOf_some_iff (hwf : g.WF) (s d : Nat) :
    g.distOf s = some d ↔
      (∃ p, g.toSys.IsPath p ∧ p.getLast? = some s ∧ p.length = d + 1) ∧
      ∀ q, g.toSys.IsPath q → q.getLast? = some s → d + 1 ≤ q.length := by
  rw [distOf_some_iff_reachIn g hwf, Sys.reachIn_iff_path]
  constructor
  · rintro ⟨h1, h2⟩
    refine ⟨h1, ?_⟩
    intro q hq hl
    apply Classical.byContradiction
    intro hlt
    have hne := Sys.isPath_ne_nil hq
    have hpos : 0 < q.length := List.length_pos_iff.2 hne
    exact h2 (q.length - 1) (by omega) (Sys.reachIn_iff_path.2 ⟨q, hq, hl, by omega⟩)
  · rintro ⟨h1, h2⟩
    refine ⟨h1, ?_⟩
    intro j hj hjs
    obtain ⟨q, hq, hl, hlen⟩ := Sys.reachIn_iff_path.1 hjs
    have := h2 q hq hl
    omega

/-- `distOf s = none` iff `s` is not reachable -/
theorem distOf_none_iff (hwf : g.WF) (s : Nat) : g.distOf s = none ↔ ¬ g.toSys.Reach s := by
  constructor
  · intro h hr
    obtain ⟨k, hk⟩ := Sys.reachIn_of_reach hr
    obtain ⟨d, hd⟩ := Sys.exists_min_reachIn k hk
    have := (distOf_some_iff_reachIn g hwf s d).2 hd
    rw [h] at this
    cases this
  · intro h
    cases hd : g.distOf s with
    | none => rfl
    | some d =>
      exact absurd (Sys.reach_of_reachIn ((distOf_some_iff_reachIn g hwf s d).1 hd).1) h


/-! ### forests -/

theorem filter_length_zero_iff {l : List Nat} {p : Nat → Bool} : (l.filter p).length = 0 ↔ ∀ s ∈ l, p s = false := by
  rw [List.length_eq_zero_iff, List.filter_eq_nil_iff]
  constructor
  · intro h s hs; simpa using h s hs
  · intro h s hs; simp [h s hs]

theorem filter_length_one_iff {l : List Nat} {p : Nat → Bool} (hnd : l.Nodup) :
    (l.filter p).length = 1 ↔ ∃ u ∈ l, p u = true ∧ ∀ s ∈ l, p s = true → s = u := by
  constructor
  · intro h
    obtain ⟨u, hu⟩ := List.length_eq_one_iff.1 h
    have hmem : u ∈ l.filter p := by rw [hu]; simp
    obtain ⟨hul, hpu⟩ := List.mem_filter.1 hmem
    refine ⟨u, hul, hpu, ?_⟩
    intro s hs hps
    have : s ∈ l.filter p := List.mem_filter.2 ⟨hs, hps⟩
    rw [hu] at this
    simpa using this
  · rintro ⟨u, hul, hpu, huniq⟩
    have hsub : l.filter p ⊆ [u] := by
      intro s hs
      obtain ⟨hsl, hps⟩ := List.mem_filter.1 hs
      simp [huniq s hsl hps]
    have h1 := List.Nodup.length_le_of_subset (nodup_filter p hnd) hsub
    have h2 : 0 < (l.filter p).length := List.length_pos_of_mem (List.mem_filter.2 ⟨hul, hpu⟩)
    simp at h1
    omega

/-- the predecessor condition `isForest` tests, on reachable states -/
def PredOK : Prop :=
  ∀ t, g.toSys.Reach t →
    (t ∈ g.toSys.initB → ∀ s, g.toSys.Reach s → t ∉ g.toSys.succB s) ∧
    (t ∉ g.toSys.initB → ∃ u, g.toSys.Reach u ∧ t ∈ g.toSys.succB u ∧
        ∀ s, g.toSys.Reach s → t ∈ g.toSys.succB s → s = u)

theorem isForest_iff_predOK (hwf : g.WF) : g.isForest = true ↔ g.initB.Nodup ∧ g.PredOK := by
  have hr := reachList_iff_wf g hwf
  unfold isForest PredOK
  simp only [Bool.and_eq_true, beq_iff_eq, eraseDups_length_eq_iff, List.all_eq_true]
  refine and_congr Iff.rfl ?_
  constructor
  · intro h t ht
    have ht' := h t ((hr t).2 ht)
    constructor
    · intro hti
      have hc : g.initB.contains t = true := by simpa [initB] using hti
      rw [if_pos hc, beq_iff_eq, filter_length_zero_iff] at ht'
      intro s hs hts
      have := ht' s ((hr s).2 hs)
      simp [succB, hts] at this
    · intro hti
      have hc : ¬ g.initB.contains t = true := by simpa [initB] using hti
      rw [if_neg hc, beq_iff_eq, filter_length_one_iff (nodup_reachList g)] at ht'
      obtain ⟨u, hul, hpu, huniq⟩ := ht'
      refine ⟨u, (hr u).1 hul, by simpa [succB] using hpu, ?_⟩
      intro s hs hts
      exact huniq s ((hr s).2 hs) (by simpa [succB] using hts)
  · intro h t ht
    obtain ⟨h1, h2⟩ := h t ((hr t).1 ht)
    by_cases hc : g.initB.contains t = true
    · rw [if_pos hc, beq_iff_eq, filter_length_zero_iff]
      intro s hs
      have := h1 (by simpa [initB] using hc) s ((hr s).1 hs)
      simpa [succB] using this
    · rw [if_neg hc, beq_iff_eq, filter_length_one_iff (nodup_reachList g)]
      obtain ⟨u, hu, htu, huniq⟩ := h2 (by simpa [initB] using hc)
      refine ⟨u, (hr u).2 hu, by simpa [succB] using htu, ?_⟩
      intro s hs hps
      exact huniq s ((hr s).1 hs) (by simpa [succB] using hps)

theorem forest_of_predOK (h : g.PredOK) : Forest g.toSys := by
  have key : ∀ (n : Nat) (q q' : List Nat), q.length = n → g.toSys.IsPath q → g.toSys.IsPath q' →
      q.getLast? = q'.getLast? → q = q' := by
    intro n
    induction n with
    | zero => intro q q' hl hq; exact absurd (List.eq_nil_of_length_eq_zero hl) (Sys.isPath_ne_nil hq)
    | succ n ih =>
      intro q q' hlen hq hq' hlast
      rcases List.eq_nil_or_concat q with rfl | ⟨q0, t, rfl⟩
      · exact absurd rfl (Sys.isPath_ne_nil hq)
      rcases List.eq_nil_or_concat q' with rfl | ⟨q0', t', rfl⟩
      · exact absurd rfl (Sys.isPath_ne_nil hq')
      simp only [List.concat_eq_append] at *
      have htt : t = t' := by simpa using hlast
      subst htt
      have htr : g.toSys.Reach t := Sys.reach_last_of_isPath hq (by simp)
      obtain ⟨h1, h2⟩ := h t htr
      by_cases e0 : q0 = []
      · subst e0
        have hti : t ∈ g.toSys.initB := by
          obtain ⟨x, rest, heq, hx, _⟩ := hq
          simp at heq; obtain ⟨rfl, _⟩ := heq; exact hx
        by_cases e0' : q0' = []
        · subst e0'; rfl
        · obtain ⟨hp', u', hu', htu'⟩ := Sys.isPath_snoc_inv e0' hq'
          exact absurd htu' (h1 hti u' (Sys.reach_last_of_isPath hp' hu'))
      · obtain ⟨hp, u, hu, htu⟩ := Sys.isPath_snoc_inv e0 hq
        have hur := Sys.reach_last_of_isPath hp hu
        have hti : t ∉ g.toSys.initB := fun hti => h1 hti u hur htu
        by_cases e0' : q0' = []
        · subst e0'
          exfalso; apply hti
          obtain ⟨x, rest, heq, hx, _⟩ := hq'
          simp at heq; obtain ⟨rfl, _⟩ := heq; exact hx
        · obtain ⟨hp', u', hu', htu'⟩ := Sys.isPath_snoc_inv e0' hq'
          have hur' := Sys.reach_last_of_isPath hp' hu'
          obtain ⟨w, _, _, huniq⟩ := h2 hti
          have e1 := huniq u hur htu
          have e2 := huniq u' hur' htu'
          have : q0 = q0' := ih q0 q0' (by simpa using hlen) hp hp' (by rw [hu, hu', e1, e2])
          rw [this]
  intro q q' hq hq' hl
  exact key q.length q q' rfl hq hq' hl

theorem predOK_of_forest (hF : Forest g.toSys) : g.PredOK := by
  intro t ht
  constructor
  · intro hti s hs hts
    obtain ⟨p, hp, hl⟩ := Sys.exists_path_of_reach hs
    have := hF (p ++ [t]) [t] (Sys.isPath_append_one hp hl hts) (Sys.isPath_singleton hti) (by simp)
    have hne := Sys.isPath_ne_nil hp
    have hlen := congrArg List.length this
    have hpos : 0 < p.length := List.length_pos_iff.2 hne
    simp only [List.length_append, List.length_cons, List.length_nil] at hlen
    omega
  · intro hti
    obtain ⟨p, hp, hl⟩ := Sys.exists_path_of_reach ht
    rcases List.eq_nil_or_concat p with rfl | ⟨q, t', rfl⟩
    · exact absurd rfl (Sys.isPath_ne_nil hp)
    simp only [List.concat_eq_append] at *
    have htt : t' = t := by simpa using hl
    subst htt
    have hq : q ≠ [] := by
      intro e; subst e
      apply hti
      obtain ⟨x, rest, heq, hx, _⟩ := hp
      simp at heq; obtain ⟨rfl, _⟩ := heq; exact hx
    obtain ⟨hpq, u, hu, htu⟩ := Sys.isPath_snoc_inv hq hp
    refine ⟨u, Sys.reach_last_of_isPath hpq hu, htu, ?_⟩
    intro s hs hts
    obtain ⟨ps, hps, hls⟩ := Sys.exists_path_of_reach hs
    have := hF (ps ++ [t']) (q ++ [t']) (Sys.isPath_append_one hps hls hts) hp (by simp)
    have hqq : ps = q := List.append_cancel_right this
    rw [hqq, hu] at hls
    exact (Option.some.inj hls).symm

/-- **`isForest` decides `Forest`** (every state has at most one in-boundary path from an initial state), together with
    the extra demand that the in-boundary initial states are listed without repetition -/
theorem isForest_iff (hwf : g.WF) : g.isForest = true ↔ g.initB.Nodup ∧ Forest g.toSys := by
  rw [isForest_iff_predOK g hwf]
  exact and_congr Iff.rfl ⟨forest_of_predOK g, predOK_of_forest g⟩


/-! ### maximal paths avoiding a condition -/

/-- the subgraph `avoidReach` explores: states satisfying `c` are pushed outside the boundary -/
def sub (c : Nat → Bool) : Graph :=
  { g with bnd := (List.range g.n).map fun s => g.bnd.getD s false && !c s }

theorem avoidReach_eq (c : Nat → Bool) : g.avoidReach c = (g.sub c).reachList := rfl

theorem sub_wf {c : Nat → Bool} (hwf : g.WF) : (g.sub c).WF := ⟨hwf.1, hwf.2⟩

theorem sub_inB (c : Nat → Bool) (s : Nat) :
    (g.sub c).toSys.inB s = true ↔ s < g.n ∧ g.toSys.inB s = true ∧ c s = false := by
  simp only [sub, toSys, List.getD_eq_getElem?_getD, List.getElem?_map]
  by_cases hs : s < g.n
  · simp [hs]
  · simp [hs]

theorem mem_sub_succB {c : Nat → Bool} (hwf : g.WF) {s t : Nat} :
    t ∈ (g.sub c).toSys.succB s ↔ t ∈ g.toSys.succB s ∧ c t = false := by
  rw [Sys.mem_succB, sub_inB]
  constructor
  · rintro ⟨ha, _, hb, hc⟩
    exact ⟨Sys.mem_succB.2 ⟨ha, hb⟩, hc⟩
  · rintro ⟨h, hc⟩
    have hlt := Graph.target_lt hwf h
    obtain ⟨ha, hb⟩ := Sys.mem_succB.1 h
    exact ⟨ha, hlt, hb, hc⟩

theorem mem_sub_initB {c : Nat → Bool} (hwf : g.WF) {s : Nat} :
    s ∈ (g.sub c).toSys.initB ↔ s ∈ g.toSys.initB ∧ c s = false := by
  rw [Sys.mem_initB, Sys.mem_initB, sub_inB]
  constructor
  · rintro ⟨hi, _, hb, hc⟩; exact ⟨⟨hi, hb⟩, hc⟩
  · rintro ⟨⟨hi, hb⟩, hc⟩; exact ⟨hi, hwf.1 s hi, hb, hc⟩

theorem sub_chain {c : Nat → Bool} (hwf : g.WF) : ∀ (p : List Nat), g.toSys.Chain p → (∀ t ∈ p, c t = false) →
    (g.sub c).toSys.Chain p
  | [], _, _ => trivial
  | [_], _, _ => trivial
  | s :: t :: rest, hc, hav =>
    ⟨(mem_sub_succB g hwf).2 ⟨hc.1, hav t (by simp)⟩,
     sub_chain hwf (t :: rest) hc.2 (fun x hx => hav x (List.mem_cons_of_mem _ hx))⟩

theorem sub_isPath {c : Nat → Bool} (hwf : g.WF) {p : List Nat} (hp : g.toSys.IsPath p) (hav : ∀ t ∈ p, c t = false) :
    (g.sub c).toSys.IsPath p := by
  obtain ⟨x, rest, rfl, hx, hc⟩ := hp
  exact ⟨x, rest, rfl, (mem_sub_initB g hwf).2 ⟨hx, hav x (by simp)⟩, sub_chain g hwf _ hc hav⟩

/-- the test of one round of the greatest fixpoint -/
def stepOK (c : Nat → Bool) (keep : List Nat) (s : Nat) : Bool :=
  (g.succB s).isEmpty || (g.succB s).any (fun t => !c t && keep.contains t)

theorem stepOK_iff (c : Nat → Bool) (keep : List Nat) (s : Nat) :
    g.stepOK c keep s = true ↔ g.toSys.succB s = [] ∨ ∃ t ∈ g.toSys.succB s, c t = false ∧ t ∈ keep := by
  simp [stepOK, succB, List.isEmpty_iff]

theorem gfp_spec (c : Nat → Bool) : ∀ (fuel : Nat) (keep : List Nat), keep.length < fuel →
    (∀ s ∈ canAvoidForever.gfp g c fuel keep, s ∈ keep) ∧
    (∀ s ∈ canAvoidForever.gfp g c fuel keep, g.stepOK c (canAvoidForever.gfp g c fuel keep) s = true) ∧
    (∀ S : Nat → Prop, (∀ s, S s → s ∈ keep) →
      (∀ s, S s → g.toSys.succB s = [] ∨ ∃ t ∈ g.toSys.succB s, c t = false ∧ S t) →
      ∀ s, S s → s ∈ canAvoidForever.gfp g c fuel keep) := by
  intro fuel
  induction fuel with
  | zero => intro keep h; omega
  | succ fuel ih =>
    intro keep hlen
    unfold canAvoidForever.gfp
    have hfold : (keep.filter fun s => (g.succB s).isEmpty || (g.succB s).any (fun t => !c t && keep.contains t)) =
        keep.filter (g.stepOK c keep) := rfl
    simp only [hfold]
    by_cases he : ((keep.filter (g.stepOK c keep)).length == keep.length) = true
    · rw [if_pos he]
      refine ⟨fun s hs => hs, ?_, fun S h1 _ s hs => h1 s hs⟩
      exact List.length_filter_eq_length_iff.1 (by simpa using he)
    · rw [if_neg he]
      have hlt : (keep.filter (g.stepOK c keep)).length < keep.length := by
        have := List.length_filter_le (g.stepOK c keep) keep
        have hne : (keep.filter (g.stepOK c keep)).length ≠ keep.length := by simpa using he
        omega
      obtain ⟨h1, h2, h3⟩ := ih (keep.filter (g.stepOK c keep)) (by omega)
      refine ⟨fun s hs => (List.mem_filter.1 (h1 s hs)).1, h2, ?_⟩
      intro S hS1 hS2 s hs
      apply h3 S _ hS2 s hs
      intro x hx
      refine List.mem_filter.2 ⟨hS1 x hx, (stepOK_iff g c keep x).2 ?_⟩
      rcases hS2 x hx with h | ⟨t, ht, hct, hSt⟩
      · exact Or.inl h
      · exact Or.inr ⟨t, ht, hct, hS1 t hSt⟩

/-- the final set of the greatest-fixpoint loop -/
def good (c : Nat → Bool) : List Nat := canAvoidForever.gfp g c (g.n + 1) (g.avoidReach c)

theorem canAvoidForever_eq (c : Nat → Bool) :
    g.canAvoidForever c = true ↔ ∃ s ∈ g.toSys.initB, c s = false ∧ s ∈ g.good c := by
  unfold canAvoidForever good
  simp [initB, List.any_eq_true]

theorem mem_avoidReach (hwf : g.WF) (c : Nat → Bool) (x : Nat) : x ∈ g.avoidReach c ↔ (g.sub c).toSys.Reach x := by
  rw [avoidReach_eq]; exact reachList_iff_wf _ (sub_wf g hwf) x

theorem avoidReach_length (hwf : g.WF) (c : Nat → Bool) : (g.avoidReach c).length < g.n + 1 := by
  have : (g.avoidReach c).length ≤ (g.sub c).n :=
    nodup_lt_length_le (nodup_reachList (g.sub c))
      (fun x hx => Graph.reach_lt (sub_wf g hwf) (reachList_sound (g.sub c) x hx))
  have hn : (g.sub c).n = g.n := rfl
  omega

theorem good_spec (hwf : g.WF) (c : Nat → Bool) :
    (∀ s ∈ g.good c, g.toSys.succB s = [] ∨ ∃ t ∈ g.toSys.succB s, c t = false ∧ t ∈ g.good c) ∧
    (∀ S : Nat → Prop, (∀ s, S s → (g.sub c).toSys.Reach s) →
      (∀ s, S s → g.toSys.succB s = [] ∨ ∃ t ∈ g.toSys.succB s, c t = false ∧ S t) →
      ∀ s, S s → s ∈ g.good c) := by
  obtain ⟨_, h2, h3⟩ := gfp_spec g c (g.n + 1) (g.avoidReach c) (avoidReach_length g hwf c)
  refine ⟨fun s hs => (stepOK_iff g c _ s).1 (h2 s hs), ?_⟩
  intro S hS1 hS2 s hs
  exact h3 S (fun x hx => (mem_avoidReach g hwf c x).2 (hS1 x hx)) hS2 s hs

end Graph
end SR.Checker

namespace SR.Sys
variable {σ α : Type} {M : Sys σ α}

theorem chain_succ_mem : ∀ (p : List σ), M.Chain p → ∀ x ∈ p.dropLast, ∃ t ∈ M.succB x, t ∈ p
  | [], _, x, hx => by simp at hx
  | [_], _, x, hx => by simp at hx
  | a :: b :: rest, hc, x, hx => by
    rw [List.dropLast_cons_cons] at hx
    rcases List.mem_cons.1 hx with rfl | hx
    · exact ⟨b, hc.1, by simp⟩
    · obtain ⟨t, ht, htm⟩ := chain_succ_mem (b :: rest) hc.2 x hx
      exact ⟨t, ht, List.mem_cons_of_mem _ htm⟩

theorem mem_dropLast_or_last {p : List σ} {x : σ} (hx : x ∈ p) : x ∈ p.dropLast ∨ p.getLast? = some x := by
  rcases List.eq_nil_or_concat p with rfl | ⟨q, t, rfl⟩
  · simp at hx
  · simp only [List.concat_eq_append] at *
    rw [List.dropLast_concat]
    rcases List.mem_append.1 hx with h | h
    · exact Or.inl h
    · right; simp at h; simp [h]

/-- every state of a path is the end of a prefix path -/
theorem isPath_prefix : ∀ (n : Nat) (p : List σ), p.length = n → M.IsPath p → ∀ x ∈ p,
    ∃ q, M.IsPath q ∧ q.getLast? = some x ∧ q.length ≤ p.length := by
  intro n
  induction n with
  | zero => intro p hl hp; exact absurd (List.eq_nil_of_length_eq_zero hl) (isPath_ne_nil hp)
  | succ n ih =>
    intro p hl hp x hx
    rcases List.eq_nil_or_concat p with rfl | ⟨q, t, rfl⟩
    · simp at hx
    simp only [List.concat_eq_append] at *
    rcases List.mem_append.1 hx with h | h
    · have hq : q ≠ [] := List.ne_nil_of_mem h
      obtain ⟨hpq, _⟩ := isPath_snoc_inv hq hp
      obtain ⟨q1, h1, h2, h3⟩ := ih q (by simpa using hl) hpq x h
      exact ⟨q1, h1, h2, by simp; omega⟩
    · simp at h; subst h
      exact ⟨q ++ [x], hp, by simp, Nat.le_refl _⟩

end SR.Sys

namespace SR.Checker
open SR
namespace Graph
variable (g : Graph)

/-- from a state of `good`, an avoiding path can be extended until it ends in a terminal state or closes a cycle -/
theorem extend_good (hwf : g.WF) (c : Nat → Bool) : ∀ (k : Nat) (p : List Nat), g.toSys.IsPath p →
    (∀ t ∈ p, c t = false) → (∀ s, p.getLast? = some s → s ∈ g.good c) → p.Nodup → g.n + 1 ≤ p.length + k →
    ∃ p', g.toSys.IsPath p' ∧ (∀ t ∈ p', c t = false) ∧
      ((∃ s, p'.getLast? = some s ∧ g.toSys.succB s = []) ∨ (∃ s, p'.getLast? = some s ∧ s ∈ p'.dropLast)) := by
  intro k
  induction k with
  | zero =>
    intro p hp _ _ hnd hlen
    have := nodup_lt_length_le hnd (fun x hx => Graph.reach_lt hwf (Sys.reach_of_isPath hp x hx))
    omega
  | succ k ih =>
    intro p hp hav hg hnd hlen
    have hne := Sys.isPath_ne_nil hp
    obtain ⟨s, hs⟩ : ∃ s, p.getLast? = some s := ⟨p.getLast hne, List.getLast?_eq_some_getLast hne⟩
    rcases (good_spec g hwf c).1 s (hg s hs) with hterm | ⟨t, ht, hct, htg⟩
    · exact ⟨p, hp, hav, Or.inl ⟨s, hs, hterm⟩⟩
    · have hp' := Sys.isPath_append_one hp hs ht
      have hav' : ∀ x ∈ p ++ [t], c x = false := by
        intro x hx
        rcases List.mem_append.1 hx with h | h
        · exact hav x h
        · simp at h; subst h; exact hct
      by_cases htp : t ∈ p
      · exact ⟨p ++ [t], hp', hav', Or.inr ⟨t, by simp, by simpa using htp⟩⟩
      · apply ih (p ++ [t]) hp' hav'
        · intro s' hs'
          have : t = s' := by simpa using hs'
          subst this; exact htg
        · rw [List.nodup_append]
          refine ⟨hnd, by simp, ?_⟩
          intro a ha b hb e
          simp at hb; subst hb; subst e
          exact htp ha
        · simp; omega

/-- **`canAvoidForever` is exact**: it answers `true` iff some in-boundary path from an initial state never satisfies
    `c` and is maximal — it ends in a state without in-boundary successor, or its last state repeats an earlier one
    (a lasso: the path loops forever). -/
theorem canAvoidForever_iff (hwf : g.WF) (c : Nat → Bool) :
    g.canAvoidForever c = true ↔ ∃ p, g.toSys.IsPath p ∧ (∀ t ∈ p, c t = false) ∧
      ((∃ s, p.getLast? = some s ∧ g.toSys.succB s = []) ∨ (∃ s, p.getLast? = some s ∧ s ∈ p.dropLast)) := by
  rw [canAvoidForever_eq]
  constructor
  · rintro ⟨s, hsi, hcs, hsg⟩
    apply extend_good g hwf c (g.n + 1) [s] (Sys.isPath_singleton hsi)
    · intro t ht; simp at ht; subst ht; exact hcs
    · intro s' hs'; simp at hs'; subst hs'; exact hsg
    · simp
    · omega
  · rintro ⟨p, hp, hav, hend⟩
    have hsubp := sub_isPath g hwf hp hav
    obtain ⟨x, rest, rfl, hx, hc⟩ := hp
    refine ⟨x, hx, hav x (by simp), ?_⟩
    apply (good_spec g hwf c).2 (fun s => s ∈ x :: rest) (fun s hs => Sys.reach_of_isPath hsubp s hs) _ x (by simp)
    intro s hs
    have hstep : ∀ y ∈ (x :: rest).dropLast, ∃ t ∈ g.toSys.succB y, c t = false ∧ t ∈ x :: rest := by
      intro y hy
      obtain ⟨t, ht, htm⟩ := Sys.chain_succ_mem _ hc y hy
      exact ⟨t, ht, hav t htm, htm⟩
    rcases Sys.mem_dropLast_or_last hs with h | h
    · exact Or.inr (hstep s h)
    · rcases hend with ⟨s', hs', hterm⟩ | ⟨s', hs', hcyc⟩
      · rw [h] at hs'; cases hs'; exact Or.inl hterm
      · rw [h] at hs'; cases hs'; exact Or.inr (hstep s hcyc)

/-- in a forest no path closes a cycle -/
theorem forest_no_cycle (hF : Forest g.toSys) {p : List Nat} (hp : g.toSys.IsPath p) {s : Nat}
    (hl : p.getLast? = some s) : s ∉ p.dropLast := by
  intro hmem
  rcases List.eq_nil_or_concat p with rfl | ⟨q, t, rfl⟩
  · simp at hmem
  simp only [List.concat_eq_append] at *
  rw [List.dropLast_concat] at hmem
  have hts : t = s := by simpa using hl
  subst hts
  have hq : q ≠ [] := List.ne_nil_of_mem hmem
  obtain ⟨hpq, _⟩ := Sys.isPath_snoc_inv hq hp
  obtain ⟨q1, h1, h2, h3⟩ := Sys.isPath_prefix q.length q rfl hpq t hmem
  have := hF q1 (q ++ [t]) h1 hp (by rw [h2]; simp)
  have hlen := congrArg List.length this
  simp only [List.length_append, List.length_cons, List.length_nil] at hlen
  omega

/-- on a forest `canAvoidForever` is exactly "some avoiding path ends in a terminal state" -/
theorem canAvoidForever_iff_of_forest (hwf : g.WF) (hF : Forest g.toSys) (c : Nat → Bool) :
    g.canAvoidForever c = true ↔ ∃ p, g.toSys.IsPath p ∧ (∀ t ∈ p, c t = false) ∧
      ∃ s, p.getLast? = some s ∧ g.toSys.succB s = [] := by
  rw [canAvoidForever_iff g hwf]
  constructor
  · rintro ⟨p, hp, hav, h | ⟨s, hs, hcyc⟩⟩
    · exact ⟨p, hp, hav, h⟩
    · exact absurd hcyc (forest_no_cycle g hF hp hs)
  · rintro ⟨p, hp, hav, h⟩
    exact ⟨p, hp, hav, Or.inl h⟩

end Graph
end SR.Checker
