import SR.Proofs.Checker.Verdict
/-!
Run-control invariants of the checker machine: depth limit, reasons for `early`, reasons for `stopped`,
monotone counters, neutrality of an unexpired timeout.
-/
namespace SR.Checker
open SR

section
variable {σ κ α : Type} [DecidableEq κ]
variable (P : Params σ κ α)

/-- every visited path is shorter than `target_max_depth` (depth counts states: an initial state has depth 1) -/
def DepthOk (s : St σ κ) : Prop := ∀ d, P.cfg.maxDepth = some d → ∀ p ∈ s.visits, p.length < d

/-- why a job can have been dropped unexpanded -/
def EarlyReason (s : St σ κ) : Prop :=
  s.early = true → P.cfg.maxDepth.isSome = true ∨ s.stopped = true ∨ allDiscovered P s = true

variable {P}

theorem allDiscovered_mono {s s' : St σ κ} (h : ∀ k, hasDisc s.disc k = true → hasDisc s'.disc k = true)
    (ha : allDiscovered P s = true) : allDiscovered P s' = true := by
  simp only [allDiscovered, List.all_eq_true] at ha ⊢
  intro i hi; exact h i (ha i hi)

/-- discoveries only grow, `stopped` and `early` are sticky, counters are monotone -/
structure Mono (s s' : St σ κ) : Prop where
  disc : ∀ k, hasDisc s.disc k = true → hasDisc s'.disc k = true
  stopped : s.stopped = true → s'.stopped = true
  early : s.early = true → s'.early = true
  count : s.stateCount ≤ s'.stateCount
  depth : s.maxDepth ≤ s'.maxDepth
  gen : s.gen.length ≤ s'.gen.length

theorem Mono.refl (s : St σ κ) : Mono s s := ⟨fun _ h => h, id, id, Nat.le_refl _, Nat.le_refl _, Nat.le_refl _⟩
theorem Mono.trans {a b c : St σ κ} (h1 : Mono a b) (h2 : Mono b c) : Mono a c :=
  ⟨fun k h => h2.disc k (h1.disc k h), fun h => h2.stopped (h1.stopped h), fun h => h2.early (h1.early h),
   Nat.le_trans h1.count h2.count, Nat.le_trans h1.depth h2.depth, Nat.le_trans h1.gen h2.gen⟩

theorem mono_step (c : Choice) (s : St σ κ) : Mono s (step P c s) := by
  cases c with
  | take i =>
    simp only [step]; unfold stepTake
    split
    · exact Mono.refl s
    · dsimp only
      split
      · split
        · exact ⟨fun _ h => h, id, fun _ => rfl, Nat.le_refl _, Nat.le_max_left _ _, Nat.le_refl _⟩
        · exact ⟨fun _ h => h, id, id, Nat.le_refl _, Nat.le_max_left _ _, Nat.le_refl _⟩
      · exact ⟨fun _ h => h, id, id, Nat.le_refl _, Nat.le_max_left _ _, Nat.le_refl _⟩
  | evalProp w b =>
    simp only [step]; unfold stepEvalProp
    split
    · split
      · exact Mono.refl s
      · split
        · exact ⟨fun _ h => h, id, id, Nat.le_refl _, Nat.le_refl _, Nat.le_refl _⟩
        · split
          · split
            · exact ⟨fun _ h => hasDisc_insert_mono h, id, id, Nat.le_refl _, Nat.le_refl _, Nat.le_refl _⟩
            · exact ⟨fun _ h => h, id, id, Nat.le_refl _, Nat.le_refl _, Nat.le_refl _⟩
          · split
            · exact ⟨fun _ h => hasDisc_insert_mono h, id, id, Nat.le_refl _, Nat.le_refl _, Nat.le_refl _⟩
            · exact ⟨fun _ h => h, id, id, Nat.le_refl _, Nat.le_refl _, Nat.le_refl _⟩
          · exact ⟨fun _ h => h, id, id, Nat.le_refl _, Nat.le_refl _, Nat.le_refl _⟩
    · exact Mono.refl s
  | finishProps w =>
    simp only [step]; unfold stepFinishProps
    split
    · split
      · exact Mono.refl s
      · split
        · exact ⟨fun _ h => h, id, fun _ => rfl, Nat.le_refl _, Nat.le_refl _, Nat.le_refl _⟩
        · split <;> exact ⟨fun _ h => h, id, id, Nat.le_refl _, Nat.le_refl _, Nat.le_refl _⟩
    · exact Mono.refl s
  | expand w f =>
    simp only [step]; unfold stepExpand
    split
    · split
      · exact ⟨fun _ h => h, id, id, Nat.le_refl _, Nat.le_refl _, Nat.le_refl _⟩
      · dsimp only
        split
        · exact ⟨fun _ h => h, id, id, Nat.le_succ _, Nat.le_refl _, Nat.le_refl _⟩
        · exact ⟨fun _ h => h, id, id, Nat.le_succ _, Nat.le_refl _, by simp⟩
    · exact Mono.refl s
  | record w =>
    simp only [step]; unfold stepRecord
    split
    · split
      · dsimp only
        split
        · exact ⟨fun _ h => hasDisc_insert_mono h, id, id, Nat.le_refl _, Nat.le_refl _, Nat.le_refl _⟩
        · exact ⟨fun _ h => h, id, id, Nat.le_refl _, Nat.le_refl _, Nat.le_refl _⟩
      · exact ⟨fun _ h => h, id, id, Nat.le_refl _, Nat.le_refl _, Nat.le_refl _⟩
    · exact Mono.refl s
  | stop why =>
    simp only [step]; unfold stepStop
    split
    · exact ⟨fun _ h => h, fun _ => rfl, id, Nat.le_refl _, Nat.le_refl _, Nat.le_refl _⟩
    · exact Mono.refl s
  | dropJob i =>
    simp only [step]; unfold stepDropJob
    split
    · split
      · exact Mono.refl s
      · exact ⟨fun _ h => h, id, fun _ => rfl, Nat.le_refl _, Nat.le_refl _, Nat.le_refl _⟩
    · exact Mono.refl s
  | abandon w =>
    simp only [step]; unfold stepAbandon
    split
    · split
      · exact Mono.refl s
      · exact ⟨fun _ h => h, id, fun _ => rfl, Nat.le_refl _, Nat.le_refl _, Nat.le_refl _⟩
    · exact Mono.refl s

theorem mono_runFrom (s : St σ κ) (cs : List Choice) : Mono s (runFrom P s cs) := by
  unfold runFrom
  induction cs generalizing s with
  | nil => exact Mono.refl s
  | cons c cs ih => exact (mono_step c s).trans (ih _)

theorem runFrom_append (s : St σ κ) (cs ds : List Choice) :
    runFrom P s (cs ++ ds) = runFrom P (runFrom P s cs) ds := by
  simp [runFrom, List.foldl_append]

/-! ### depth limit -/

theorem depthOk_step (c : Choice) {s : St σ κ} (hs : SInv P s) (h : DepthOk P s) : DepthOk P (step P c s) := by
  cases c with
  | take i =>
    simp only [step]; unfold stepTake
    split
    · exact h
    · rename_i j hj
      have hjo := hs.fr j (List.mem_of_getElem? hj)
      dsimp only
      split
      · rename_i d hd
        split
        · exact h
        · rename_i hlt
          intro d' hd' p hp
          rw [hd] at hd'; cases hd'
          rcases List.mem_cons.1 hp with rfl | hp
          · rw [← hjo.depth]; omega
          · exact h d hd p hp
      · rename_i hd
        intro d' hd'; rw [hd] at hd'; cases hd'
  | evalProp w b =>
    simp only [step]; unfold stepEvalProp
    repeat' split
    all_goals exact h
  | finishProps w =>
    simp only [step]; unfold stepFinishProps
    repeat' split
    all_goals exact h
  | expand w f =>
    simp only [step]; unfold stepExpand
    repeat' split
    all_goals exact h
  | record w =>
    simp only [step]; unfold stepRecord
    repeat' split
    all_goals exact h
  | stop why => simp only [step]; unfold stepStop; split <;> exact h
  | dropJob i =>
    simp only [step]; unfold stepDropJob
    by_cases hc : (s.stopped || allDiscovered P s) = true
    · rw [if_pos hc]; split <;> exact h
    · rw [if_neg hc]; exact h
  | abandon w =>
    simp only [step]; unfold stepAbandon
    by_cases hc : s.stopped = true
    · rw [if_pos hc]; split <;> exact h
    · rw [if_neg hc]; exact h

theorem depthOk_run (cs : List Choice) : DepthOk P (run P cs) :=
  (runFrom_induction (fun s => SInv P s ∧ DepthOk P s)
    (fun c _ h => ⟨sinv_step c h.1, depthOk_step c h.1 h.2⟩) _
    ⟨sinv_init, by intro d _ p hp; simp [init] at hp⟩ cs).2

/-! ### why `early` can be set -/

theorem earlyReason_step (c : Choice) {s : St σ κ} (hv : VInv P s) (h : EarlyReason P s) :
    EarlyReason P (step P c s) := by
  have hm := mono_step (P := P) c s
  -- generic: if `early` was already set the reason persists; otherwise the step must justify it
  have persist : s.early = true → EarlyReason P (step P c s) := by
    intro he _
    rcases h he with h1 | h2 | h3
    · exact Or.inl h1
    · exact Or.inr (Or.inl (hm.stopped h2))
    · exact Or.inr (Or.inr (allDiscovered_mono hm.disc h3))
  by_cases he : s.early = true
  · exact persist he
  · have he' : s.early = false := by cases hh : s.early <;> simp_all
    cases c with
    | take i =>
      simp only [step]; unfold stepTake
      split
      · exact h
      · dsimp only
        split
        · rename_i d hd
          split
          · intro _; left; simp [hd]
          · intro hx; simp [he'] at hx
        · intro hx; simp [he'] at hx
    | evalProp w b =>
      simp only [step]; unfold stepEvalProp
      repeat' split
      all_goals (intro hx; simp [he'] at hx)
    | finishProps w =>
      simp only [step]; unfold stepFinishProps
      split
      · rename_i j i aw ha
        have ham : (⟨j, .props i aw⟩ : Active σ) ∈ s.active := List.mem_of_getElem? ha
        split
        · exact h
        · rename_i hge
          split
          · rename_i haw
            intro _
            right; right
            have haw' : aw = false := by cases aw <;> simp_all
            subst haw'
            simp only [allDiscovered, List.all_eq_true, List.mem_range]
            intro k hk
            exact hv.aw _ ham i rfl k (by omega) hk
          · split <;> (intro hx; simp [he'] at hx)
      · exact h
    | expand w f =>
      simp only [step]; unfold stepExpand
      repeat' split
      all_goals (intro hx; simp [he'] at hx)
    | record w =>
      simp only [step]; unfold stepRecord
      repeat' split
      all_goals (intro hx; simp [he'] at hx)
    | stop why =>
      simp only [step]; unfold stepStop
      split <;> (intro hx; simp [he'] at hx)
    | dropJob i =>
      simp only [step]; unfold stepDropJob
      by_cases hc : (s.stopped || allDiscovered P s) = true
      · rw [if_pos hc]
        split
        · exact h
        · intro _
          simp only [Bool.or_eq_true] at hc
          rcases hc with hc | hc
          · exact Or.inr (Or.inl hc)
          · exact Or.inr (Or.inr (by simpa [allDiscovered] using hc))
      · rw [if_neg hc]; exact h
    | abandon w =>
      simp only [step]; unfold stepAbandon
      by_cases hc : s.stopped = true
      · rw [if_pos hc]
        split
        · exact h
        · intro _; exact Or.inr (Or.inl hc)
      · rw [if_neg hc]; exact h

theorem earlyReason_run (cs : List Choice) : EarlyReason P (run P cs) :=
  (runFrom_induction (fun s => VInv P s ∧ EarlyReason P s)
    (fun c _ h => ⟨vinv_step c h.1, earlyReason_step c h.1 h.2⟩) _
    ⟨vinv_init, by intro he; simp [init] at he⟩ cs).2

/-! ### why `stopped` can be set -/

theorem stopped_only_if (s0 : St σ κ) (h0 : s0.stopped = false) (cs : List Choice)
    (h : (runFrom P s0 cs).stopped = true) :
    ∃ pre why post, cs = pre ++ Choice.stop why :: post ∧ stopEnabled P why (runFrom P s0 pre) = true := by
  induction cs generalizing s0 with
  | nil => simp [runFrom, h0] at h
  | cons c cs ih =>
    have hrun : runFrom P s0 (c :: cs) = runFrom P (step P c s0) cs := by simp [runFrom]
    by_cases hst : (step P c s0).stopped = true
    · -- the first choice stopped the run: it is an enabled `stop`
      cases c with
      | stop why =>
        refine ⟨[], why, cs, rfl, ?_⟩
        simp only [step, stepStop] at hst
        by_cases hen : stopEnabled P why s0 = true
        · simpa [runFrom] using hen
        · rw [if_neg hen] at hst; rw [h0] at hst; cases hst
      | take i =>
        exfalso
        simp only [step] at hst; unfold stepTake at hst
        split at hst
        · rw [h0] at hst; cases hst
        · dsimp only at hst
          split at hst
          · split at hst <;> (simp [h0] at hst)
          · simp [h0] at hst
      | evalProp w b =>
        exfalso
        simp only [step] at hst; unfold stepEvalProp at hst
        repeat' split at hst
        all_goals (simp [h0] at hst)
      | finishProps w =>
        exfalso
        simp only [step] at hst; unfold stepFinishProps at hst
        repeat' split at hst
        all_goals (simp [h0] at hst)
      | expand w f =>
        exfalso
        simp only [step] at hst; unfold stepExpand at hst
        repeat' split at hst
        all_goals (simp [h0] at hst)
      | record w =>
        exfalso
        simp only [step] at hst; unfold stepRecord at hst
        repeat' split at hst
        all_goals (simp [h0] at hst)
      | dropJob i =>
        exfalso
        simp only [step] at hst; unfold stepDropJob at hst
        repeat' split at hst
        all_goals (simp [h0] at hst)
      | abandon w =>
        exfalso
        simp only [step] at hst; unfold stepAbandon at hst
        simp [h0] at hst
    · have hst' : (step P c s0).stopped = false := by cases hh : (step P c s0).stopped <;> simp_all
      rw [hrun] at h
      obtain ⟨pre, why, post, hcs, hen⟩ := ih _ hst' h
      exact ⟨c :: pre, why, post, by rw [hcs]; rfl, by simpa [runFrom] using hen⟩

/-! ### an unexpired timeout is neutral -/

/-- the same parameters without a timeout -/
def noTimeout (P : Params σ κ α) : Params σ κ α := { P with cfg := { P.cfg with timeout := false } }

theorem step_noTimeout (c : Choice) (hc : c ≠ .stop .timeout) (s : St σ κ) :
    step (noTimeout P) c s = step P c s := by
  cases c with
  | stop why =>
    cases why with
    | timeout => exact absurd rfl hc
    | finish => rfl
    | target => rfl
    | panic => rfl
  | take i => rfl
  | evalProp w b => rfl
  | finishProps w => rfl
  | expand w f => rfl
  | record w => rfl
  | dropJob i => rfl
  | abandon w => rfl

theorem runFrom_noTimeout (cs : List Choice) (hc : ∀ c ∈ cs, c ≠ .stop .timeout) (s : St σ κ) :
    runFrom (noTimeout P) s cs = runFrom P s cs := by
  unfold runFrom
  induction cs generalizing s with
  | nil => rfl
  | cons c cs ih =>
    simp only [List.foldl_cons]
    rw [step_noTimeout c (hc c List.mem_cons_self)]
    exact ih (fun c' hc' => hc c' (List.mem_cons_of_mem _ hc')) _

end
end SR.Checker
