import SR.Proofs.Checker.Eventually
import SR.Proofs.Checker.Verdict
import SR.Proofs.Checker.Complete
/-!
Forest exactness for eventually-properties: if every reachable state has exactly one in-boundary path from an
initial state, then a job's eventually-bit `i` stays set exactly as long as its (unique) path avoids condition `i`
— unless a discovery for `i` exists already — so a terminal state at the end of an avoiding path leaves a discovery.
-/
namespace SR.Checker
open SR

section
variable {σ κ α : Type} [DecidableEq κ]
variable (P : Params σ κ α)

/-- every state has at most one in-boundary path from an initial state -/
def Forest (M : Sys σ α) : Prop :=
  ∀ q q', M.IsPath q → M.IsPath q' → q.getLast? = q'.getLast? → q = q'

/-- bit `i` is set or `i` is discovered -/
def BitOrDisc (i : Nat) (eb : List Nat) (d : List (Nat × List σ)) : Prop := i ∈ eb ∨ hasDisc d i = true

def FPhase (i : Nat) (pr : Prop' σ) (d : List (Nat × List σ)) (a : Active σ) : Prop :=
  match a.phase with
  | .props k _ =>
      (Avoids pr a.job.path.dropLast → k ≤ i → BitOrDisc i a.job.ebits d) ∧
      (Avoids pr a.job.path → i < k → BitOrDisc i a.job.ebits d)
  | .expanding _ => (Avoids pr a.job.path → BitOrDisc i a.job.ebits d) ∧ P.M.succB a.job.st ≠ []
  | .recording r => Avoids pr a.job.path → (i ∈ a.job.ebits ∧ r ≤ i) ∨ hasDisc d i = true

structure FInv (i : Nat) (pr : Prop' σ) (s : St σ κ) : Prop where
  fr : ∀ j ∈ s.frontier, Avoids pr j.path.dropLast → BitOrDisc i j.ebits s.disc
  ac : ∀ a ∈ s.active, FPhase P i pr s.disc a
  done : ∀ u ∈ s.done, ∀ q, P.M.IsPath q → q.getLast? = some u → Avoids pr q → P.M.succB u = [] →
          hasDisc s.disc i = true

variable {P}

theorem avoids_dropLast {pr : Prop' σ} {p : List σ} (h : Avoids pr p) : Avoids pr p.dropLast :=
  fun t ht => h t (List.dropLast_subset _ ht)

theorem bitOrDisc_mono {i : Nat} {eb : List Nat} {d d' : List (Nat × List σ)}
    (hm : ∀ k, hasDisc d k = true → hasDisc d' k = true) (h : BitOrDisc i eb d) : BitOrDisc i eb d' := by
  rcases h with h | h
  · exact Or.inl h
  · exact Or.inr (hm _ h)

theorem fphase_mono {i : Nat} {pr : Prop' σ} {d d' : List (Nat × List σ)} {a : Active σ}
    (hm : ∀ k, hasDisc d k = true → hasDisc d' k = true) (h : FPhase P i pr d a) : FPhase P i pr d' a := by
  unfold FPhase at h ⊢
  split
  · rename_i k aw hph
    rw [hph] at h
    exact ⟨fun h1 h2 => bitOrDisc_mono hm (h.1 h1 h2), fun h1 h2 => bitOrDisc_mono hm (h.2 h1 h2)⟩
  · rename_i r hph
    rw [hph] at h
    exact ⟨fun h1 => bitOrDisc_mono hm (h.1 h1), h.2⟩
  · rename_i r hph
    rw [hph] at h
    intro h1
    rcases h h1 with h' | h'
    · exact Or.inl h'
    · exact Or.inr (hm _ h')

theorem finv_init (i : Nat) (pr : Prop' σ) (hpr : P.props[i]? = some pr) (hev : pr.exp = .eventually) :
    FInv P i pr (init P.M P.props P.key) := by
  refine ⟨?_, by simp [init], by simp [init]⟩
  intro j hj _
  simp only [init, List.mem_map, List.mem_reverse] at hj
  obtain ⟨s, _, rfl⟩ := hj
  left
  simp only [initEbits, List.mem_filter, List.mem_range]
  refine ⟨(List.getElem?_eq_some_iff.1 hpr).1, ?_⟩
  rw [hpr]; simp [hev]

/-- generic: worker `w` replaced, discoveries grow -/
theorem finv_set_active {i : Nat} {pr : Prop' σ} {s : St σ κ} (h : FInv P i pr s) (w : Nat) (a' : Active σ)
    (disc' : List (Nat × List σ)) (hm : ∀ k, hasDisc s.disc k = true → hasDisc disc' k = true)
    (ha' : FPhase P i pr disc' a') :
    FInv P i pr { s with active := s.active.set w a', disc := disc' } := by
  refine ⟨fun j hj hav => bitOrDisc_mono hm (h.fr j hj hav), ?_, fun u hu q hq hl hav ht => hm _ (h.done u hu q hq hl hav ht)⟩
  intro x hx
  rcases mem_set_cases hx with hx | rfl
  · exact fphase_mono hm (h.ac x hx)
  · exact ha'

theorem finv_take (n : Nat) {i : Nat} {pr : Prop' σ} {s : St σ κ} (h : FInv P i pr s) : FInv P i pr (stepTake P n s) := by
  unfold stepTake
  split
  · exact h
  · rename_i j hj
    have hjm : j ∈ s.frontier := List.mem_of_getElem? hj
    have hfr : ∀ j' ∈ s.frontier.eraseIdx n, Avoids pr j'.path.dropLast → BitOrDisc i j'.ebits s.disc :=
      fun j' hj' => h.fr j' (List.mem_of_mem_eraseIdx hj')
    have hac : ∀ a ∈ s.active ++ [({ job := j, phase := .props 0 false } : Active σ)], FPhase P i pr s.disc a := by
      intro a ha
      rcases List.mem_append.1 ha with ha | ha
      · exact h.ac a ha
      · simp at ha; subst ha
        exact ⟨fun hav _ => h.fr j hjm hav, fun _ hlt => absurd hlt (Nat.not_lt_zero _)⟩
    dsimp only
    split
    · split
      · exact ⟨hfr, h.ac, h.done⟩
      · exact ⟨hfr, hac, h.done⟩
    · exact ⟨hfr, hac, h.done⟩

theorem finv_evalProp (w : Nat) (b : Bool) {i : Nat} {pr : Prop' σ} (hpr : P.props[i]? = some pr)
    (hev : pr.exp = .eventually) {s : St σ κ} (hs : SInv P s) (he : EInv P s) (h : FInv P i pr s) :
    FInv P i pr (stepEvalProp P w b s) := by
  unfold stepEvalProp
  split
  · rename_i j k aw ha
    have ham : (⟨j, .props k aw⟩ : Active σ) ∈ s.active := List.mem_of_getElem? ha
    have hjo := hs.ac _ ham
    have hN : j.ebits.Nodup := he.acNodup _ ham
    obtain ⟨h1, h2⟩ := h.ac _ ham
    have h1 : Avoids pr j.path.dropLast → k ≤ i → BitOrDisc i j.ebits s.disc := h1
    have h2 : Avoids pr j.path → i < k → BitOrDisc i j.ebits s.disc := h2
    split
    · exact h
    · rename_i p hp
      -- case k ≠ i: bit i is untouched whatever happens to bit k
      have other : k ≠ i → ∀ (eb' : List Nat) (aw' : Bool) (d' : List (Nat × List σ)),
          (∀ x, x ∈ j.ebits → x ≠ k → x ∈ eb') → (∀ n, hasDisc s.disc n = true → hasDisc d' n = true) →
          FPhase P i pr d' ⟨{ j with ebits := eb' }, .props (k+1) aw'⟩ := by
        intro hki eb' aw' d' hkeep hm
        refine ⟨fun hav hle => ?_, fun hav hlt => ?_⟩
        · rcases h1 hav (by omega) with hb | hb
          · exact Or.inl (hkeep i hb (Ne.symm hki))
          · exact Or.inr (hm _ hb)
        · rcases h2 hav (by omega) with hb | hb
          · exact Or.inl (hkeep i hb (Ne.symm hki))
          · exact Or.inr (hm _ hb)
      by_cases hki : k = i
      · subst hki
        rw [hpr] at hp; cases hp
        -- this is the eventually property itself
        split
        · rename_i hpres
          have hd : hasDisc s.disc k = true := by simp only [Bool.and_eq_true] at hpres; exact hpres.1
          exact finv_set_active h w _ s.disc (fun _ hk => hk)
            ⟨fun _ hle => absurd hle (by omega), fun _ _ => Or.inr hd⟩
        · simp only [hev]
          by_cases hc : pr.cond j.st = true
          · simp only [hc, if_true]
            refine finv_set_active h w _ s.disc (fun _ hk => hk) ⟨fun _ hle => absurd hle (by omega), ?_⟩
            intro hav _
            have hst : pr.cond j.st = false := hav j.st (List.mem_of_getLast? hjo.last)
            rw [hc] at hst; cases hst
          · simp only [hc, if_false]
            refine finv_set_active h w _ s.disc (fun _ hk => hk) ⟨fun _ hle => absurd hle (by omega), ?_⟩
            intro hav _
            exact h1 (avoids_dropLast hav) (Nat.le_refl _)
      · split
        · exact finv_set_active h w _ s.disc (fun _ hk => hk)
            (other hki _ aw s.disc (fun x hx hne => (List.mem_erase_of_ne hne).2 hx) (fun _ hk => hk))
        · split
          · split
            · exact finv_set_active h w _ _ (fun _ hk => hasDisc_insert_mono hk)
                (other hki j.ebits aw _ (fun x hx _ => hx) (fun _ hk => hasDisc_insert_mono hk))
            · exact finv_set_active h w _ s.disc (fun _ hk => hk)
                (other hki j.ebits true s.disc (fun x hx _ => hx) (fun _ hk => hk))
          · split
            · exact finv_set_active h w _ _ (fun _ hk => hasDisc_insert_mono hk)
                (other hki j.ebits aw _ (fun x hx _ => hx) (fun _ hk => hasDisc_insert_mono hk))
            · exact finv_set_active h w _ s.disc (fun _ hk => hk)
                (other hki j.ebits true s.disc (fun x hx _ => hx) (fun _ hk => hk))
          · dsimp only
            split
            · exact finv_set_active h w _ s.disc (fun _ hk => hk)
                (other hki _ true s.disc (fun x hx hne => (List.mem_erase_of_ne hne).2 hx) (fun _ hk => hk))
            · exact finv_set_active h w _ s.disc (fun _ hk => hk)
                (other hki j.ebits true s.disc (fun x hx _ => hx) (fun _ hk => hk))
  · exact h

theorem finv_erase_active {i : Nat} {pr : Prop' σ} {s : St σ κ} (h : FInv P i pr s) (w : Nat) :
    ∀ a ∈ s.active.eraseIdx w, FPhase P i pr s.disc a := fun a ha => h.ac a (List.mem_of_mem_eraseIdx ha)

theorem finv_finishProps (w : Nat) {i : Nat} {pr : Prop' σ} (hpr : P.props[i]? = some pr)
    {s : St σ κ} (h : FInv P i pr s) : FInv P i pr (stepFinishProps P w s) := by
  have hi : i < P.props.length := (List.getElem?_eq_some_iff.1 hpr).1
  unfold stepFinishProps
  split
  · rename_i j k aw ha
    have ham : (⟨j, .props k aw⟩ : Active σ) ∈ s.active := List.mem_of_getElem? ha
    obtain ⟨_, h2⟩ := h.ac _ ham
    have h2 : Avoids pr j.path → i < k → BitOrDisc i j.ebits s.disc := h2
    split
    · exact h
    · rename_i hge
      split
      · exact ⟨h.fr, finv_erase_active h w, h.done⟩
      · split
        · rename_i hss
          refine finv_set_active h w ⟨j, .recording 0⟩ s.disc (fun _ hk => hk) ?_
          intro hav
          rcases h2 hav (by omega) with hb | hb
          · exact Or.inl ⟨hb, Nat.zero_le _⟩
          · exact Or.inr hb
        · rename_i ss hss hne
          refine finv_set_active h w ⟨j, .expanding _⟩ s.disc (fun _ hk => hk) ⟨fun hav => h2 hav (by omega), ?_⟩
          intro e; exact hne e
  · exact h

/-- a worker retires: its state joins `done` -/
theorem finv_retire {i : Nat} {pr : Prop' σ} {s : St σ κ} (h : FInv P i pr s) (w : Nat) (a : Active σ)
    (hnew : ∀ q, P.M.IsPath q → q.getLast? = some a.job.st → Avoids pr q → P.M.succB a.job.st = [] →
            hasDisc s.disc i = true) :
    FInv P i pr { s with active := s.active.eraseIdx w, done := a.job.st :: s.done } := by
  refine ⟨h.fr, finv_erase_active h w, ?_⟩
  intro u hu q hq hl hav ht
  rcases List.mem_cons.1 hu with rfl | hu
  · exact hnew q hq hl hav ht
  · exact h.done u hu q hq hl hav ht

theorem finv_expand (w : Nat) (f : Bool) {i : Nat} {pr : Prop' σ} {s : St σ κ} (h : FInv P i pr s) :
    FInv P i pr (stepExpand P w f s) := by
  unfold stepExpand
  split
  · rename_i j rest ha
    have ham : (⟨j, .expanding rest⟩ : Active σ) ∈ s.active := List.mem_of_getElem? ha
    obtain ⟨h1, hne⟩ := h.ac _ ham
    have h1 : Avoids pr j.path → BitOrDisc i j.ebits s.disc := h1
    have hne : P.M.succB j.st ≠ [] := hne
    split
    · exact finv_retire h w ⟨j, .expanding []⟩ (fun _ _ _ _ ht => absurd ht hne)
    · rename_i t rest'
      dsimp only
      have hset := finv_set_active h w ⟨j, .expanding rest'⟩ s.disc (fun _ hk => hk) ⟨h1, hne⟩
      split
      · exact ⟨hset.fr, hset.ac, hset.done⟩
      · refine ⟨?_, hset.ac, hset.done⟩
        have hchild : Avoids pr ({ st := t, path := j.path ++ [t], ebits := j.ebits, depth := j.depth + 1 } : Job σ).path.dropLast →
            BitOrDisc i j.ebits s.disc := by
          intro hav; simp only [List.dropLast_concat] at hav; exact h1 hav
        intro x hx
        split at hx
        · rcases List.mem_cons.1 hx with rfl | hx
          · exact hchild
          · exact h.fr x hx
        · rcases List.mem_append.1 hx with hx | hx
          · exact h.fr x hx
          · simp at hx; subst hx; exact hchild
  · exact h

theorem finv_record (w : Nat) {i : Nat} {pr : Prop' σ} (hpr : P.props[i]? = some pr) (hF : Forest P.M)
    {s : St σ κ} (hs : SInv P s) (h : FInv P i pr s) : FInv P i pr (stepRecord P w s) := by
  have hi : i < P.props.length := (List.getElem?_eq_some_iff.1 hpr).1
  unfold stepRecord
  split
  · rename_i j r ha
    have ham : (⟨j, .recording r⟩ : Active σ) ∈ s.active := List.mem_of_getElem? ha
    have hjo := hs.ac _ ham
    have h1 : Avoids pr j.path → (i ∈ j.ebits ∧ r ≤ i) ∨ hasDisc s.disc i = true := h.ac _ ham
    split
    · rename_i hr
      dsimp only
      split
      · rename_i hmem
        refine finv_set_active h w ⟨j, .recording (r+1)⟩ _ (fun _ hk => hasDisc_insert_mono hk) ?_
        intro hav
        by_cases hri : r = i
        · subst hri; exact Or.inr (hasDisc_insert_self _ _ _)
        · rcases h1 hav with ⟨hb, hle⟩ | hb
          · exact Or.inl ⟨hb, by omega⟩
          · exact Or.inr (hasDisc_insert_mono hb)
      · rename_i hmem
        refine finv_set_active h w ⟨j, .recording (r+1)⟩ s.disc (fun _ hk => hk) ?_
        intro hav
        rcases h1 hav with ⟨hb, hle⟩ | hb
        · by_cases hri : r = i
          · subst hri; exact absurd hb hmem
          · exact Or.inl ⟨hb, by omega⟩
        · exact Or.inr hb
    · rename_i hr
      refine finv_retire h w ⟨j, .recording r⟩ ?_
      intro q hq hl hav _
      have hqj : q = j.path := hF q j.path hq hjo.path (by rw [hl]; exact hjo.last.symm)
      rcases h1 (hqj ▸ hav) with ⟨_, hle⟩ | hb
      · omega
      · exact hb
  · exact h

theorem finv_step (c : Choice) {i : Nat} {pr : Prop' σ} (hpr : P.props[i]? = some pr) (hev : pr.exp = .eventually)
    (hF : Forest P.M) {s : St σ κ} (hs : SInv P s) (he : EInv P s) (h : FInv P i pr s) : FInv P i pr (step P c s) := by
  cases c with
  | take n => exact finv_take n h
  | evalProp w b => exact finv_evalProp w b hpr hev hs he h
  | finishProps w => exact finv_finishProps w hpr h
  | expand w f => exact finv_expand w f h
  | record w => exact finv_record w hpr hF hs h
  | stop why =>
    simp only [step]; unfold stepStop; split
    · exact ⟨h.fr, h.ac, h.done⟩
    · exact h
  | dropJob n =>
    simp only [step]; unfold stepDropJob
    by_cases hc : (s.stopped || allDiscovered P s) = true
    · rw [if_pos hc]; split
      · exact h
      · exact ⟨fun j hj => h.fr j (List.mem_of_mem_eraseIdx hj), h.ac, h.done⟩
    · rw [if_neg hc]; exact h
  | abandon w =>
    simp only [step]; unfold stepAbandon
    by_cases hc : s.stopped = true
    · rw [if_pos hc]; split
      · exact h
      · exact ⟨h.fr, finv_erase_active h w, h.done⟩
    · rw [if_neg hc]; exact h

theorem finv_run {i : Nat} {pr : Prop' σ} (hpr : P.props[i]? = some pr) (hev : pr.exp = .eventually)
    (hF : Forest P.M) (cs : List Choice) : FInv P i pr (run P cs) :=
  (runFrom_induction (fun s => (SInv P s ∧ EInv P s) ∧ FInv P i pr s)
    (fun c _ h => ⟨⟨sinv_step c h.1.1, einv_step c h.1.1 h.1.2⟩, finv_step c hpr hev hF h.1.1 h.1.2 h.2⟩) _
    ⟨⟨sinv_init, einv_init⟩, finv_init i pr hpr hev⟩ cs).2

end
end SR.Checker
