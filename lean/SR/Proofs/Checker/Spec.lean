import SR.Checker.Spec
import SR.Proofs.Checker.Paths
/-!
The executable specification side used by the oracles agrees with the declarative definitions of `SR.Basic`:
`isPathB` decides `IsPath`; `reachList` contains only reachable states and is closed — when the closure has
stabilised within `n` rounds (checked by the oracle: `closeStep reachList = reachList`) it is exactly `Reach`.
-/
namespace SR.Checker
open SR

namespace Graph
variable (g : Graph)

theorem chainB_iff (p : List Nat) : g.chainB p = true ↔ g.toSys.Chain p := by
  induction p with
  | nil => simp [chainB, Sys.Chain]
  | cons s rest ih =>
    cases rest with
    | nil => simp [chainB, Sys.Chain]
    | cons t rest' =>
      simp only [chainB, Sys.Chain, Bool.and_eq_true, ih, succB, List.contains_eq_mem, decide_eq_true_eq]

/-- the decidable path test of the oracles is `IsPath` -/
theorem isPathB_iff (p : List Nat) : g.isPathB p = true ↔ g.toSys.IsPath p := by
  cases p with
  | nil =>
    simp only [isPathB]
    constructor
    · intro h; cases h
    · intro h; exact absurd rfl (Sys.isPath_ne_nil h)
  | cons s rest =>
    simp only [isPathB, Bool.and_eq_true, chainB_iff, initB, List.contains_eq_mem, decide_eq_true_eq]
    constructor
    · rintro ⟨hi, hc⟩; exact ⟨s, rest, rfl, hi, hc⟩
    · rintro ⟨x, r, heq, hi, hc⟩
      cases heq; exact ⟨hi, hc⟩

/-! ### the closure -/

theorem mem_insert_fold (acc ts : List Nat) (x : Nat) :
    x ∈ ts.foldl (fun acc t => if t ∈ acc then acc else acc ++ [t]) acc ↔ x ∈ acc ∨ x ∈ ts := by
  induction ts generalizing acc with
  | nil => simp
  | cons t ts ih =>
    simp only [List.foldl_cons, ih, List.mem_cons]
    by_cases ht : t ∈ acc
    · simp only [ht, if_true]
      constructor
      · rintro (h | h)
        · exact Or.inl h
        · exact Or.inr (Or.inr h)
      · rintro (h | rfl | h)
        · exact Or.inl h
        · exact Or.inl ht
        · exact Or.inr h
    · simp only [ht, if_false, List.mem_append, List.mem_singleton]
      constructor
      · rintro ((h | rfl) | h)
        · exact Or.inl h
        · exact Or.inr (Or.inl rfl)
        · exact Or.inr (Or.inr h)
      · rintro (h | rfl | h)
        · exact Or.inl (Or.inl h)
        · exact Or.inl (Or.inr rfl)
        · exact Or.inr h

theorem mem_closeStep_aux (ks acc : List Nat) (x : Nat) :
    x ∈ ks.foldl (fun acc s => (g.succB s).foldl (fun acc t => if t ∈ acc then acc else acc ++ [t]) acc) acc ↔
      x ∈ acc ∨ ∃ s ∈ ks, x ∈ g.succB s := by
  induction ks generalizing acc with
  | nil => simp
  | cons k ks ih =>
    simp only [List.foldl_cons, ih, mem_insert_fold, List.mem_cons]
    constructor
    · rintro ((h | h) | ⟨s, hs, hx⟩)
      · exact Or.inl h
      · exact Or.inr ⟨k, Or.inl rfl, h⟩
      · exact Or.inr ⟨s, Or.inr hs, hx⟩
    · rintro (h | ⟨s, (rfl | hs), hx⟩)
      · exact Or.inl (Or.inl h)
      · exact Or.inl (Or.inr hx)
      · exact Or.inr ⟨s, hs, hx⟩

theorem mem_closeStep (known : List Nat) (x : Nat) :
    x ∈ g.closeStep known ↔ x ∈ known ∨ ∃ s ∈ known, x ∈ g.succB s :=
  mem_closeStep_aux g known known x

theorem closeN_sound (n : Nat) (k : List Nat) (hk : ∀ x ∈ k, g.toSys.Reach x) : ∀ x ∈ g.closeN n k, g.toSys.Reach x := by
  induction n generalizing k with
  | zero => exact hk
  | succ n ih =>
    apply ih
    intro x hx
    rcases (mem_closeStep g k x).1 hx with h | ⟨s, hs, hxs⟩
    · exact hk x h
    · exact Sys.Reach.step (hk s hs) hxs

/-- everything the oracle's closure contains is reachable -/
theorem reachList_sound : ∀ x ∈ g.reachList, g.toSys.Reach x := by
  apply closeN_sound
  intro x hx
  exact Sys.Reach.init (by simpa [initB] using (List.mem_eraseDups.1 hx))

theorem closeN_mono (n : Nat) (k : List Nat) : ∀ x ∈ k, x ∈ g.closeN n k := by
  induction n generalizing k with
  | zero => exact fun _ h => h
  | succ n ih => intro x hx; exact ih _ x ((mem_closeStep g k x).2 (Or.inl hx))

/-- if the closure is a fixpoint it contains every reachable state (the oracle checks the fixpoint condition) -/
theorem reachList_complete (hfix : ∀ x, x ∈ g.closeStep g.reachList → x ∈ g.reachList) :
    ∀ x, g.toSys.Reach x → x ∈ g.reachList := by
  intro x hx
  induction hx with
  | init h =>
    apply closeN_mono
    exact List.mem_eraseDups.2 (by simpa [initB] using h)
  | step _ ht ih => exact hfix _ ((mem_closeStep g _ _).2 (Or.inr ⟨_, ih, ht⟩))

/-- **the oracle's reachable set is exactly `Reach`** whenever it is closed under one more round -/
theorem reachList_iff (hfix : ∀ x, x ∈ g.closeStep g.reachList → x ∈ g.reachList) (x : Nat) :
    x ∈ g.reachList ↔ g.toSys.Reach x :=
  ⟨reachList_sound g x, reachList_complete g hfix x⟩

end Graph
end SR.Checker
