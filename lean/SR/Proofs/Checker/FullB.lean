import SR.Proofs.Checker.FullA
/-! Market side of the product invariant: what each critical section does to the multiset of tokens, to who is running and
to the local deques. -/
namespace SR.Full
open SR SR.Checker SR.Market

theorem two_le_count {β : Type} [DecidableEq β] (a : β) :
    ∀ (l : List β) (v w : Nat), v ≠ w → l[v]? = some a → l[w]? = some a → 2 ≤ l.count a := by
  intro l
  induction l with
  | nil => intro v w _ h; simp at h
  | cons x xs ih =>
    intro v w hne hv hw
    cases v with
    | zero =>
      cases w with
      | zero => exact absurd rfl hne
      | succ w =>
        simp at hv hw; subst hv
        have : 0 < xs.count x := List.count_pos_iff.2 (List.mem_of_getElem? hw)
        rw [List.count_cons_self]; omega
    | succ v =>
      cases w with
      | zero =>
        simp at hv hw; subst hw
        have : 0 < xs.count x := List.count_pos_iff.2 (List.mem_of_getElem? hv)
        rw [List.count_cons_self]; omega
      | succ w =>
        simp at hv hw
        have := ih v w (by omega) hv hw
        rw [List.count_cons]; omega

theorem flatten_nil_of_locs (m : MState) (h : ∀ v, locOf m v = []) : m.locs.flatten = [] := by
  rw [List.flatten_eq_nil_iff]
  intro l hl
  obtain ⟨i, hi, rfl⟩ := List.getElem_of_mem hl
  have := h i
  simpa [locOf, List.getD_eq_getElem?_getD, List.getElem?_eq_getElem hi] using this

theorem eq_nil_of_count {l : List Tok} (h : ∀ u, l.count u = 0) : l = [] := by
  cases l with
  | nil => rfl
  | cons a as => have := h a; simp at this

theorem locOf_count_le (m : MState) (w : Nat) (u : Tok) : (locOf m w).count u ≤ m.locs.flatten.count u := by
  by_cases hw : w < m.locs.length
  · have := count_flatten_set u m.locs w [] hw
    simp only [List.count_nil, Nat.add_zero] at this
    unfold locOf; omega
  · have : locOf m w = [] := by simp [locOf, List.getD_eq_getElem?_getD, List.getElem?_eq_none (Nat.le_of_not_lt hw)]
    simp [this]

/-! ### notify keeps running-ness -/

theorem notifyAll_running_iff (pcs : List Pc) (v : Nat) :
    (notifyAll pcs)[v]? = some Pc.running ↔ pcs[v]? = some Pc.running := by
  unfold notifyAll
  rw [List.getElem?_map]
  cases h : pcs[v]? with
  | none => simp
  | some p => cases p <;> simp

theorem notifyPicks_running_iff (picks : List Nat) : ∀ (pcs : List Pc) (v : Nat),
    (notifyPicks pcs picks)[v]? = some Pc.running ↔ pcs[v]? = some Pc.running := by
  induction picks with
  | nil => intro pcs v; rfl
  | cons p ps ih =>
    intro pcs v
    simp only [notifyPicks]
    rw [ih]
    split
    · rename_i hp
      by_cases e : p = v
      · subst e
        obtain ⟨hlt, hget⟩ := List.getElem?_eq_some_iff.1 hp
        simp [hlt, hget]
      · rw [List.getElem?_set_ne e]
    · rfl

/-! ### `popLoop` -/

theorem popLoop_count (s : MState) (w : Nat) (hw : w < s.locs.length) (u : Tok) :
    (tokensIn (popLoop s w).1).count u = (tokensIn s).count u := by
  unfold popLoop
  split
  · rename_i b rest hb
    have hs := count_flatten_set u s.locs w (s.locs.getD w [] ++ b) hw
    simp only [tokensIn, hb, List.flatten_cons, List.count_append] at hs ⊢
    omega
  · simp only
    split <;> rfl

theorem popLoop_running_ne (s : MState) (w v : Nat) (hne : v ≠ w) :
    (popLoop s w).1.pcs[v]? = some Pc.running ↔ s.pcs[v]? = some Pc.running := by
  unfold popLoop
  split
  · simp only; rw [List.getElem?_set_ne (Ne.symm hne)]
  · simp only
    split
    · simp only; rw [notifyAll_running_iff, List.getElem?_set_ne (Ne.symm hne)]
    · simp only; rw [List.getElem?_set_ne (Ne.symm hne)]

theorem popLoop_locOf_ne (s : MState) (w v : Nat) (hne : v ≠ w) : locOf (popLoop s w).1 v = locOf s v := by
  unfold popLoop locOf
  split
  · simp only [List.getD_eq_getElem?_getD]; rw [List.getElem?_set_ne (Ne.symm hne)]
  · simp only
    split <;> rfl

/-- if `w` is not running after `popLoop` it has parked, with its deque unchanged -/
theorem popLoop_self (s : MState) (w : Nat) (hw : w < s.pcs.length)
    (h : (popLoop s w).1.pcs[w]? ≠ some Pc.running) : locOf (popLoop s w).1 w = locOf s w := by
  unfold popLoop at h ⊢
  split
  · rename_i b rest hb
    simp only [hb] at h
    exact absurd (by simp [hw]) h
  · rename_i hb
    simp only [hb] at h ⊢
    split
    · rename_i hoc
      simp only [hoc, if_true] at h
      exact absurd ((notifyAll_running_iff _ _).2 (by simp [hw])) h
    · rfl

theorem popLoop_fields (s : MState) (w : Nat) :
    (popLoop s w).1.created = s.created ∧ (s.isOpen = false → (popLoop s w).1.isOpen = false) := by
  unfold popLoop
  split
  · exact ⟨rfl, id⟩
  · simp only
    split
    · exact ⟨rfl, fun _ => rfl⟩
    · exact ⟨rfl, id⟩

/-- `popLoop` closes an open market only in its "last running worker" branch -/
theorem popLoop_closes (s : MState) (w : Nat) (ho : s.isOpen = true) (hc : (popLoop s w).1.isOpen = false) :
    s.batches = [] ∧ s.openCount - 1 = 0 := by
  unfold popLoop at hc
  split at hc
  · simp [ho] at hc
  · rename_i hb
    simp only at hc
    split at hc
    · rename_i hoc; exact ⟨hb, by simpa using hoc⟩
    · simp [ho] at hc

/-! ### effects of the other market steps -/

theorem work_eff {s s' : MState} {w c : Nat} {fresh : List Tok} (h : Market.step s (.work w c fresh) = some s') :
    s.pcs[w]? = some Pc.running ∧ freshOk s fresh = true ∧
    s' = { s with locs := s.locs.set w (fresh ++ (s.locs.getD w []).take ((s.locs.getD w []).length - c)),
                  consumed := (s.locs.getD w []).drop ((s.locs.getD w []).length - c) ++ s.consumed,
                  created := fresh ++ s.created } := by
  unfold Market.step at h
  simp only [stepR] at h
  split at h
  · rename_i hw
    simp only [Bool.and_eq_true, decide_eq_true_eq] at hw
    simp at h
    exact ⟨hw.1, hw.2, h.symm⟩
  · simp at h

theorem rearrange_eff {s s' : MState} {w : Nat} {l : List Tok} (h : Market.step s (.rearrange w l) = some s') :
    s.pcs[w]? = some Pc.running ∧ l.Perm (s.locs.getD w []) ∧ s' = { s with locs := s.locs.set w l } := by
  unfold Market.step at h
  simp only [stepR] at h
  split at h
  · rename_i hw
    simp only [Bool.and_eq_true, decide_eq_true_eq, List.isPerm_iff] at hw
    simp at h
    exact ⟨hw.1, hw.2, h.symm⟩
  · simp at h

theorem drop_eff {s s' : MState} {w : Nat} (h : Market.step s (.drop w) = some s') :
    s.pcs[w]? = some Pc.running ∧
    s' = { s with isOpen := false, batches := [], openCount := s.openCount - 1,
                  pcs := (notifyAll s.pcs).set w .exited, dropped := true, locs := s.locs.set w [] } := by
  unfold Market.step at h
  simp only [stepR] at h
  split at h
  · rename_i hw
    simp [dropMarket] at h
    exact ⟨hw, h.symm⟩
  · simp at h

theorem xdrop_eff {s s' : MState} (h : Market.step s .xdrop = some s') : s' = dropMarket s := by
  unfold Market.step at h
  simp [stepR] at h
  exact h.symm

theorem timeout_eff {s s' : MState} (h : Market.step s .timeoutFire = some s') : s' = { s with isOpen := false } := by
  unfold Market.step at h
  simp [stepR] at h
  exact h.symm

theorem popBegin_eff {s s' : MState} {w : Nat} (h : Market.step s (.popBegin w) = some s') :
    s.pcs[w]? = some Pc.running ∧ ((s.isOpen = false ∧ s' = s) ∨ (s.isOpen = true ∧ s' = (popLoop s w).1)) := by
  unfold Market.step at h
  simp only [stepR] at h
  split at h
  · rename_i hw
    refine ⟨hw, ?_⟩
    split at h
    · rename_i ho
      simp at h ho
      exact Or.inl ⟨ho, h.symm⟩
    · rename_i ho
      simp at h ho
      exact Or.inr ⟨ho, h.symm⟩
  · simp at h

theorem wake_eff {s s' : MState} {w : Nat} (h : Market.step s (.wake w) = some s') :
    (∃ b, s.pcs[w]? = some (Pc.parked b)) ∧ s' = (popLoop { s with openCount := s.openCount + 1 } w).1 := by
  unfold Market.step at h
  simp only [stepR] at h
  split at h
  · rename_i b hw
    simp at h
    exact ⟨⟨b, hw⟩, h.symm⟩
  · simp at h

theorem split_eff {s s' : MState} {w : Nat} {picks : List Nat} (h : Market.step s (.split w picks) = some s') :
    s.pcs[w]? = some Pc.running ∧
    ((s.isOpen = false ∧ s' = { s with locs := s.locs.set w [] }) ∨
     (s.isOpen = true ∧
      s' = { s with batches := (splitLoop (splitPieces s (s.locs.getD w []).length - 1)
                                  (splitSize s (s.locs.getD w []).length) (s.locs.getD w []) s.batches).2,
                    locs := s.locs.set w (splitLoop (splitPieces s (s.locs.getD w []).length - 1)
                                  (splitSize s (s.locs.getD w []).length) (s.locs.getD w []) s.batches).1,
                    pcs := notifyPicks s.pcs picks })) := by
  unfold Market.step at h
  simp only [stepR] at h
  split at h
  · rename_i hw
    refine ⟨hw, ?_⟩
    split at h
    · rename_i ho
      split at h
      · simp at h ho; exact Or.inl ⟨ho, h.symm⟩
      · simp at h
    · rename_i ho
      split at h
      · simp at h ho; exact Or.inr ⟨ho, h.symm⟩
      · simp at h
  · simp at h

end SR.Full
