import SR.Proofs.Checker.FullC
/-! Preservation of the coupling invariant by the steps that move, create or discard jobs. -/
namespace SR.Full
open SR SR.Checker SR.Market

theorem count_tokens_set (m : MState) (w : Nat) (l : List Tok) (hw : w < m.locs.length) (u : Tok) :
    (m.batches.flatten ++ (m.locs.set w l).flatten).count u + (locOf m w).count u
      = (tokensIn m).count u + l.count u := by
  have := count_flatten_set u m.locs w l hw
  simp only [tokensIn, locOf, List.count_append] at this ⊢; omega

theorem loc_count_le_tokens (m : MState) (w : Nat) (u : Tok) : (locOf m w).count u ≤ (tokensIn m).count u := by
  have := locOf_count_le m w u
  simp only [tokensIn, List.count_append]; omega

/-- the two market steps of `take` / `discard`: the token at position `p` leaves the deque of `w` -/
theorem take_market {m m' : MState} {w p : Nat} {t : Tok} (hm : MInv m)
    (ht : (locOf m w)[p]? = some t)
    (hs : mseq m [Step.rearrange w ((locOf m w).eraseIdx p ++ [t]), Step.work w 1 []] = some m') :
    m.pcs[w]? = some Pc.running ∧ m'.pcs = m.pcs ∧ m'.isOpen = m.isOpen ∧ m'.batches = m.batches ∧
    m'.created = m.created ∧ m'.locs = m.locs.set w ((locOf m w).eraseIdx p) := by
  obtain ⟨m1, h1, h2⟩ := mseq_cons_some hs
  obtain ⟨m2, h3, h4⟩ := mseq_cons_some h2
  simp only [mseq, Option.some.injEq] at h4; subst h4
  obtain ⟨hrun, _, rfl⟩ := rearrange_eff h1
  obtain ⟨_, _, rfl⟩ := work_eff h3
  have hwl : w < m.locs.length := by rw [← hm.p.wf]; exact getElem?_lt_of_some hrun
  refine ⟨hrun, rfl, rfl, rfl, by simp, ?_⟩
  simp only [getD_set_self _ _ _ hwl, List.set_set, List.nil_append]
  congr 1
  simp

/-- the market steps of `expand` for a new state: the fresh token joins the deque of `w` -/
theorem expand_market {m m' : MState} {w : Nat} {tok : Tok} {back : Bool} (hm : MInv m)
    (hs : mseq m (Step.work w 0 [tok] :: (if back then [Step.rearrange w (locOf m w ++ [tok])] else [])) = some m') :
    m.pcs[w]? = some Pc.running ∧ tok ∉ m.created ∧ m'.pcs = m.pcs ∧ m'.isOpen = m.isOpen ∧
    m'.batches = m.batches ∧ m'.created = tok :: m.created ∧
    ∃ l, l.Perm (tok :: locOf m w) ∧ m'.locs = m.locs.set w l := by
  obtain ⟨m1, h1, h2⟩ := mseq_cons_some hs
  obtain ⟨hrun, hfresh, rfl⟩ := work_eff h1
  have hwl : w < m.locs.length := by rw [← hm.p.wf]; exact getElem?_lt_of_some hrun
  have hnew : tok ∉ m.created := by
    simp [freshOk, nodupB] at hfresh
    exact hfresh
  cases back with
  | false =>
    simp only [Bool.false_eq_true, if_false, mseq, Option.some.injEq] at h2; subst h2
    refine ⟨hrun, hnew, rfl, rfl, rfl, by simp, tok :: locOf m w, List.Perm.refl _, ?_⟩
    simp [locOf]
  | true =>
    simp only [if_true] at h2
    obtain ⟨m2, h3, h4⟩ := mseq_cons_some h2
    simp only [mseq, Option.some.injEq] at h4; subst h4
    obtain ⟨_, hperm, rfl⟩ := rearrange_eff h3
    refine ⟨hrun, hnew, rfl, rfl, rfl, by simp, locOf m w ++ [tok], ?_, ?_⟩
    · exact List.perm_append_comm.trans (by simp)
    · simp [List.set_set, locOf]

section
variable {σ κ α : Type} [DecidableEq κ] {P : Params σ κ α}

theorem finv_take {x x' : FState σ κ} {w p : Nat} {ms : List Step} {cs : List Choice} (inv : FInv x)
    (h : fstep P x (.take w p) = some (x', ms, cs)) : FInv x' := by
  simp only [fstep] at h
  split at h
  · simp at h
  · rename_i t ht
    split at h
    · simp at h
    · rename_i hnaw
      cases hs : mseq x.m [Step.rearrange w ((locOf x.m w).eraseIdx p ++ [t]), Step.work w 1 []] with
      | none => simp [hs] at h
      | some m' =>
        simp only [hs, Option.map_some, Option.some.injEq, Prod.mk.injEq] at h
        obtain ⟨rfl, _, _⟩ := h
        obtain ⟨hmi, hoi⟩ := mseq_inv _ hs inv.mi inv.oi
        obtain ⟨hrun, hpcs, hopen, hbat, hcr, hlocs⟩ := take_market inv.mi ht hs
        have hwl : w < x.m.locs.length := by rw [← inv.mi.p.wf]; exact getElem?_lt_of_some hrun
        have htl : t ∈ locOf x.m w := List.mem_of_getElem? ht
        have htft : t ∈ x.ft := by
          have h1 := loc_count_le_tokens x.m w t
          have h2 : 0 < (locOf x.m w).count t := List.count_pos_iff.2 htl
          have h3 := inv.cnt t
          exact List.count_pos_iff.1 (by omega)
        have hidx : x.ft.idxOf t < x.c.frontier.length := by
          rw [← inv.len]; exact List.idxOf_lt_length_iff.2 htft
        obtain ⟨s1, s2, s3⟩ := take_shape P (x.ft.idxOf t) x.c hidx
        have htok : ∀ u, (tokensIn m').count u + (if u = t then 1 else 0) = (tokensIn x.m).count u := by
          intro u
          have a := count_tokens_set x.m w ((locOf x.m w).eraseIdx p) hwl u
          have b := count_eraseIdx_tok ht u
          simp only [tokensIn, hbat, hlocs] at a ⊢
          generalize (if u = t then 1 else 0) = k at *
          omega
        refine ⟨hmi, hoi, ?_, ?_, inv.nodup.erase t, ?_, ?_, ?_, ?_, ?_, ?_⟩
        · intro u
          show (x.ft.erase t).count u = (tokensIn m').count u
          rw [count_erase_tok]
          have := htok u; have := inv.cnt u
          generalize (if u = t then 1 else 0) = k at *
          omega
        · show (x.ft.erase t).length = (stepTake P (x.ft.idxOf t) x.c).frontier.length
          rw [List.length_erase_of_mem htft]; have := inv.len; omega
        · intro u hu
          show u ∈ m'.created
          rw [hcr]; exact inv.created u (List.mem_of_mem_erase hu)
        · show (if (stepTake P (x.ft.idxOf t) x.c).active.length = x.c.active.length + 1 then x.aw ++ [w] else x.aw).length
            = (stepTake P (x.ft.idxOf t) x.c).active.length
          have := inv.awlen
          split
          · rename_i e; rw [e]; simp; omega
          · rename_i e; rcases s2 with s2 | s2
            · rw [s2]; exact this
            · exact absurd s2 e
        · show (if (stepTake P (x.ft.idxOf t) x.c).active.length = x.c.active.length + 1 then x.aw ++ [w] else x.aw).Nodup
          split
          · exact List.nodup_append.2 ⟨inv.awnd, by simp, by intro a ha b hb; simp at hb; subst hb; exact fun e => hnaw (e ▸ ha)⟩
          · exact inv.awnd
        · show ∀ v ∈ (if (stepTake P (x.ft.idxOf t) x.c).active.length = x.c.active.length + 1 then x.aw ++ [w] else x.aw),
            m'.pcs[v]? = some Pc.running
          intro v hv
          rw [hpcs]
          split at hv
          · rcases List.mem_append.1 hv with hv | hv
            · exact inv.awrun v hv
            · simp at hv; subst hv; exact hrun
          · exact inv.awrun v hv
        · intro v hv
          show locOf m' v = []
          rw [hpcs] at hv
          have hne : v ≠ w := fun e => hv (e ▸ hrun)
          unfold locOf; rw [hlocs, getD_set_ne _ _ _ _ hne]; exact inv.idle v hv
        · intro hc
          have hc : m'.isOpen = false := hc
          rw [hopen] at hc
          rcases inv.closed hc with h1 | ⟨h1, _⟩
          · left; show (stepTake P (x.ft.idxOf t) x.c).stopped = true; rw [s3]; exact h1
          · have := loc_count_le_tokens x.m w t
            have h2 : 0 < (locOf x.m w).count t := List.count_pos_iff.2 htl
            rw [h1] at this; simp at this; omega

theorem finv_discard {x x' : FState σ κ} {w p : Nat} {ms : List Step} {cs : List Choice} (inv : FInv x)
    (h : fstep P x (.discard w p) = some (x', ms, cs)) : FInv x' := by
  simp only [fstep] at h
  split at h
  · simp at h
  · rename_i t ht
    split at h
    · rename_i hen
      cases hs : mseq x.m [Step.rearrange w ((locOf x.m w).eraseIdx p ++ [t]), Step.work w 1 []] with
      | none => simp [hs] at h
      | some m' =>
        simp only [hs, Option.map_some, Option.some.injEq, Prod.mk.injEq] at h
        obtain ⟨rfl, _, _⟩ := h
        obtain ⟨hmi, hoi⟩ := mseq_inv _ hs inv.mi inv.oi
        obtain ⟨hrun, hpcs, hopen, hbat, hcr, hlocs⟩ := take_market inv.mi ht hs
        have hwl : w < x.m.locs.length := by rw [← inv.mi.p.wf]; exact getElem?_lt_of_some hrun
        have htl : t ∈ locOf x.m w := List.mem_of_getElem? ht
        have htft : t ∈ x.ft := by
          have h1 := loc_count_le_tokens x.m w t
          have h2 : 0 < (locOf x.m w).count t := List.count_pos_iff.2 htl
          have h3 := inv.cnt t
          exact List.count_pos_iff.1 (by omega)
        have hidx : x.ft.idxOf t < x.c.frontier.length := by
          rw [← inv.len]; exact List.idxOf_lt_length_iff.2 htft
        obtain ⟨s1, s2, s3⟩ := dropJob_shape' P (x.ft.idxOf t) x.c hidx hen
        have htok : ∀ u, (tokensIn m').count u + (if u = t then 1 else 0) = (tokensIn x.m).count u := by
          intro u
          have a := count_tokens_set x.m w ((locOf x.m w).eraseIdx p) hwl u
          have b := count_eraseIdx_tok ht u
          simp only [tokensIn, hbat, hlocs] at a ⊢
          generalize (if u = t then 1 else 0) = k at *
          omega
        refine ⟨hmi, hoi, ?_, ?_, inv.nodup.erase t, ?_, ?_, inv.awnd, ?_, ?_, ?_⟩
        · intro u
          show (x.ft.erase t).count u = (tokensIn m').count u
          rw [count_erase_tok]
          have := htok u; have := inv.cnt u
          generalize (if u = t then 1 else 0) = k at *
          omega
        · show (x.ft.erase t).length = (stepDropJob P (x.ft.idxOf t) x.c).frontier.length
          rw [List.length_erase_of_mem htft]; have := inv.len; omega
        · intro u hu
          show u ∈ m'.created
          rw [hcr]; exact inv.created u (List.mem_of_mem_erase hu)
        · show x.aw.length = (stepDropJob P (x.ft.idxOf t) x.c).active.length
          rw [s2]; exact inv.awlen
        · intro v hv; show m'.pcs[v]? = some Pc.running; rw [hpcs]; exact inv.awrun v hv
        · intro v hv
          show locOf m' v = []
          rw [hpcs] at hv
          have hne : v ≠ w := fun e => hv (e ▸ hrun)
          unfold locOf; rw [hlocs, getD_set_ne _ _ _ _ hne]; exact inv.idle v hv
        · intro hc
          have hc : m'.isOpen = false := hc
          rw [hopen] at hc
          rcases inv.closed hc with h1 | ⟨h1, _⟩
          · left; show (stepDropJob P (x.ft.idxOf t) x.c).stopped = true; rw [s3]; exact h1
          · have := loc_count_le_tokens x.m w t
            have h2 : 0 < (locOf x.m w).count t := List.count_pos_iff.2 htl
            rw [h1] at this; simp at this; omega
    · simp at h

theorem finv_expand {x x' : FState σ κ} {w : Nat} {front back : Bool} {tok : Tok} {ms : List Step} {cs : List Choice}
    (inv : FInv x) (h : fstep P x (.expand w front tok back) = some (x', ms, cs)) : FInv x' := by
  simp only [fstep] at h
  split at h
  · rename_i hw
    have hi : x.aw.idxOf w < x.aw.length := List.idxOf_lt_length_iff.2 hw
    obtain ⟨st, sh⟩ := expand_shape P (x.aw.idxOf w) front x.c
    have hstep : Checker.step P (.expand (x.aw.idxOf w) front) x.c = stepExpand P (x.aw.idxOf w) front x.c := rfl
    rw [hstep] at h
    split at h
    · rename_i hgrow
      -- a new state: a token is created
      have hact : (stepExpand P (x.aw.idxOf w) front x.c).active.length = x.c.active.length := by
        rcases sh with ⟨hf, _⟩ | ⟨_, ha⟩
        · rw [hf] at hgrow; omega
        · exact ha
      cases hs : mseq x.m (Step.work w 0 [tok] :: (if back then [Step.rearrange w (locOf x.m w ++ [tok])] else [])) with
      | none => simp [hs] at h
      | some m' =>
        simp only [hs, Option.map_some, Option.some.injEq, Prod.mk.injEq] at h
        obtain ⟨rfl, _, _⟩ := h
        obtain ⟨hmi, hoi⟩ := mseq_inv _ hs inv.mi inv.oi
        obtain ⟨hrun, hnew, hpcs, hopen, hbat, hcr, l, hperm, hlocs⟩ := expand_market inv.mi hs
        have hwl : w < x.m.locs.length := by rw [← inv.mi.p.wf]; exact getElem?_lt_of_some hrun
        have hnft : tok ∉ x.ft := fun e => hnew (inv.created tok e)
        have htok : ∀ u, (tokensIn m').count u = (tokensIn x.m).count u + (if u = tok then 1 else 0) := by
          intro u
          have a := count_tokens_set x.m w l hwl u
          have b := hperm.count_eq u
          rw [List.count_cons] at b
          have e : (if (tok == u) = true then 1 else 0) = (if u = tok then 1 else 0) := by
            by_cases e : u = tok
            · subst e; simp
            · have : (tok == u) = false := by simpa using fun e' => e e'.symm
              simp [e, this]
          rw [e] at b
          simp only [tokensIn, hbat, hlocs] at a ⊢
          generalize (if u = tok then 1 else 0) = k at *
          omega
        have haw : (if (stepExpand P (x.aw.idxOf w) front x.c).active.length < x.c.active.length
            then x.aw.eraseIdx (x.aw.idxOf w) else x.aw) = x.aw := by rw [if_neg (by omega)]
        rw [haw]
        refine ⟨hmi, hoi, ?_, ?_, ?_, ?_, ?_, inv.awnd, ?_, ?_, ?_⟩
        · intro u
          show (if front = true then tok :: x.ft else x.ft ++ [tok]).count u = (tokensIn m').count u
          rw [htok u, ← inv.cnt u]
          have e : (if (tok == u) = true then 1 else 0) = (if u = tok then 1 else 0) := by
            by_cases e : u = tok
            · subst e; simp
            · have : (tok == u) = false := by simpa using fun e' => e e'.symm
              simp [e, this]
          have e2 : (if tok = u then 1 else 0) = (if u = tok then 1 else 0) := by
            by_cases e3 : u = tok
            · subst e3; simp
            · rw [if_neg (fun e' => e3 e'.symm), if_neg e3]
          cases front <;> simp [List.count_cons, List.count_append, e, e2]
        · show (if front = true then tok :: x.ft else x.ft ++ [tok]).length = _
          rw [hgrow]; have := inv.len
          cases front <;> simp <;> omega
        · show (if front = true then tok :: x.ft else x.ft ++ [tok]).Nodup
          cases front
          · simp only [Bool.false_eq_true, if_false]
            exact List.nodup_append.2 ⟨inv.nodup, by simp, by intro a ha b hb; simp at hb; subst hb; exact fun e => hnft (e ▸ ha)⟩
          · simp only [if_true]; exact List.nodup_cons.2 ⟨hnft, inv.nodup⟩
        · intro u hu
          show u ∈ m'.created
          rw [hcr]
          have hu : u ∈ (if front = true then tok :: x.ft else x.ft ++ [tok]) := hu
          have : u = tok ∨ u ∈ x.ft := by
            cases front
            · simp at hu; exact hu.symm
            · simp at hu; exact hu
          rcases this with e | e
          · subst e; simp
          · exact List.mem_cons_of_mem _ (inv.created u e)
        · show x.aw.length = (stepExpand P (x.aw.idxOf w) front x.c).active.length
          rw [hact]; exact inv.awlen
        · intro v hv; show m'.pcs[v]? = some Pc.running; rw [hpcs]; exact inv.awrun v hv
        · intro v hv
          show locOf m' v = []
          rw [hpcs] at hv
          have hne : v ≠ w := fun e => hv (e ▸ hrun)
          unfold locOf; rw [hlocs, getD_set_ne _ _ _ _ hne]; exact inv.idle v hv
        · intro hc
          have hc : m'.isOpen = false := hc
          rw [hopen] at hc
          rcases inv.closed hc with h1 | ⟨_, h2⟩
          · left; show (stepExpand P (x.aw.idxOf w) front x.c).stopped = true; rw [st]; exact h1
          · rw [h2] at hw; simp at hw
    · rename_i hgrow
      simp only [Option.some.injEq, Prod.mk.injEq] at h
      obtain ⟨rfl, _, _⟩ := h
      have hshape : JobShape (x.aw.idxOf w) x.c (stepExpand P (x.aw.idxOf w) front x.c) := by
        rcases sh with ⟨hf, ha⟩ | ⟨hf, _⟩
        · exact ⟨hf, st, ha⟩
        · exact absurd hf hgrow
      have sh := hshape
      refine ⟨inv.mi, inv.oi, inv.cnt, ?_, inv.nodup, inv.created, ?_, ?_, ?_, inv.idle, ?_⟩
      · show x.ft.length = (stepExpand P (x.aw.idxOf w) front x.c).frontier.length
        rw [sh.frontier]; exact inv.len
      · simp only
        split
        · rename_i hlt
          rcases sh.active with h1 | ⟨_, h1⟩
          · omega
          · rw [List.length_eraseIdx, if_pos hi]; have := inv.awlen; omega
        · rename_i hlt
          rcases sh.active with h1 | ⟨_, h1⟩
          · rw [h1]; exact inv.awlen
          · omega
      · simp only; split
        · exact nodup_eraseIdx inv.awnd _
        · exact inv.awnd
      · simp only; split
        · intro v hv; exact inv.awrun v (List.mem_of_mem_eraseIdx hv)
        · exact inv.awrun
      · intro hc
        rcases inv.closed hc with h1 | ⟨_, h2⟩
        · left; show (stepExpand P (x.aw.idxOf w) front x.c).stopped = true; rw [sh.stopped]; exact h1
        · rw [h2] at hw; simp at hw
  · simp at h

end
end SR.Full
