import SR.Proofs.Checker.Control
/-! The discovered names form a set (the machine's `disc` list never holds two entries for one property). -/
namespace SR.Checker
open SR

section
variable {σ κ α : Type} [DecidableEq κ]
variable {P : Params σ κ α}

theorem discNames_insert_nodup {d : List (Nat × List σ)} (h : (discNames d).Nodup) (i : Nat) (p : List σ) :
    (discNames (discInsert d i p)).Nodup := by
  unfold discNames discInsert at *
  simp only [List.map_cons, List.nodup_cons]
  constructor
  · intro hm
    obtain ⟨e, he, hei⟩ := List.mem_map.1 hm
    have := (List.mem_filter.1 he).2
    simp at this; exact this hei
  · exact h.sublist (List.filter_sublist.map _)

theorem discNodup_step (c : Choice) {s : St σ κ} (h : (discNames s.disc).Nodup) : (discNames (step P c s).disc).Nodup := by
  cases c with
  | take i =>
    simp only [step]; unfold stepTake
    repeat' split
    all_goals exact h
  | evalProp w b =>
    simp only [step]; unfold stepEvalProp
    repeat' split
    all_goals first | exact h | exact discNames_insert_nodup h _ _
  | finishProps w =>
    simp only [step]; unfold stepFinishProps
    repeat' split
    all_goals exact h
  | expand w f =>
    simp only [step]; unfold stepExpand
    repeat' split
    all_goals exact h
  | record w =>
    simp only [step]; unfold stepRecord
    repeat' split
    all_goals first | exact h | exact discNames_insert_nodup h _ _
  | stop why => simp only [step]; unfold stepStop; split <;> exact h
  | dropJob i =>
    simp only [step]; unfold stepDropJob
    by_cases hc : (s.stopped || allDiscovered P s) = true
    · rw [if_pos hc]; split <;> exact h
    · rw [if_neg hc]; exact h
  | abandon w =>
    simp only [step]; unfold stepAbandon
    by_cases hc : s.stopped = true
    · rw [if_pos hc]; split <;> exact h
    · rw [if_neg hc]; exact h

theorem discNodup_run (cs : List Choice) : (discNames (run P cs).disc).Nodup :=
  runFrom_induction (fun s => (discNames s.disc).Nodup) (fun c _ h => discNodup_step c h) _ (by simp [init, discNames]) cs

theorem mem_discNames_iff (d : List (Nat × List σ)) (i : Nat) : i ∈ discNames d ↔ hasDisc d i = true := by
  unfold discNames hasDisc
  simp only [List.mem_map, List.any_eq_true, beq_iff_eq]

end
end SR.Checker
