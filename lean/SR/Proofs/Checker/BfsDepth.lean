import SR.Proofs.Checker.Bfs
/-!
# Single-threaded BFS with a depth limit evaluates every state nearer than the limit

For FIFO single-worker runs (`FifoOk`) WITH `target_max_depth = some d`.  "Calm": no worker has stopped and not every
property is discovered — then (both being sticky) no job was ever dropped except by the depth limit.  The jobs the
depth limit drops are at distance ≥ d (BFS assigns shortest depths), so the closure argument goes through for all
states with a path of fewer than `d` states.
-/
namespace SR.Checker
open SR

section
variable {σ κ α : Type} [DecidableEq κ]
variable (P : Params σ κ α)

/-- nothing but the depth limit can have dropped a job so far -/
def Calm (s : St σ κ) : Prop := s.stopped = false ∧ allDiscovered P s = false

/-- a key whose state lies at or beyond the depth limit (every path to it has ≥ d states) -/
def Deep (k : κ) : Prop :=
  ∃ d, P.cfg.maxDepth = some d ∧ ∃ u, P.key u = k ∧ P.M.Reach u ∧ ∀ q, P.M.IsPath q → q.getLast? = some u → d ≤ q.length

structure DClosure (s : St σ κ) : Prop where
  initIn : ∀ t ∈ P.M.initB, P.key t ∈ s.gen
  genJob : ∀ k ∈ s.gen, (∃ u ∈ jobStates s, P.key u = k) ∨ Deep P k
  doneCl : ∀ t ∈ s.done, ∀ t' ∈ P.M.succB t, P.key t' ∈ s.gen
  actExp : ∀ a ∈ s.active, ∀ rest, a.phase = .expanding rest →
              ∀ t' ∈ P.M.succB a.job.st, t' ∈ rest ∨ P.key t' ∈ s.gen
  actRec : ∀ a ∈ s.active, ∀ i, a.phase = .recording i → P.M.succB a.job.st = []
  doneReach : ∀ t ∈ s.done, P.M.Reach t

structure GInv (s : St σ κ) : Prop where
  single : s.active.length ≤ 1
  sorted : (s.frontier.map (·.depth)).Pairwise (· ≤ ·)
  actLe : ∀ a ∈ s.active, ∀ j ∈ s.frontier, a.job.depth ≤ j.depth ∧ j.depth ≤ a.job.depth + 1
  spread : s.active = [] → ∀ j ∈ s.frontier, ∀ j' ∈ s.frontier, j'.depth ≤ j.depth + 1
  shortJob : ∀ j ∈ jobsOf s, ∀ q, P.M.IsPath q → q.getLast? = some j.st → j.depth ≤ q.length
  actDepth : ∀ a ∈ s.active, ∀ d, P.cfg.maxDepth = some d → a.job.depth < d
  lower : Calm P s → ∀ q t, P.M.IsPath q → q.getLast? = some t →
            (∀ j ∈ jobsOf s, q.length ≤ j.depth) → (∀ d, P.cfg.maxDepth = some d → q.length ≤ d) → P.key t ∈ s.gen
  awake : ∀ a ∈ s.active,
            (∀ k, a.phase = .props k true → ∃ i, i < k ∧ i < P.props.length ∧ hasDisc s.disc i = false) ∧
            (∀ r, a.phase = .expanding r → ∃ i, i < P.props.length ∧ hasDisc s.disc i = false)
  noActStopped : s.stopped = true → s.active = []
  recTerm : ∀ a ∈ s.active, ∀ i, a.phase = .recording i → P.M.succB a.job.st = []
  dc : Calm P s → DClosure P s

variable {P}

/-- hypotheses shared by the step lemmas -/
structure DCtx (s : St σ κ) : Prop where
  inj : ∀ a b, P.M.Reach a → P.M.Reach b → P.key a = P.key b → a = b
  sinv : SInv P s
  vinv : VInv P s

theorem calm_of_step (c : Choice) {s : St σ κ} (h : Calm P (step P c s)) : Calm P s := by
  have hm := mono_step (P := P) c s
  obtain ⟨h1, h2⟩ := h
  constructor
  · cases hs : s.stopped with
    | false => rfl
    | true => rw [hm.stopped hs] at h1; cases h1
  · cases ha : allDiscovered P s with
    | false => rfl
    | true => rw [allDiscovered_mono hm.disc ha] at h2; cases h2

theorem ginv_init : GInv P (init P.M P.props P.key) := by
  have hb := binv_init (P := P)
  have hc := cinv_init (P := P)
  refine ⟨hb.single, hb.sorted, hb.actLe, hb.spread, hb.shortJob, (by simp [init]), ?_, hb.awake, hb.noActStopped, (by simp [init]), ?_⟩
  · intro _ q t hq hl hle _
    exact hb.lower (by simp [init]) q t hq hl hle
  · intro _
    have c := hc (by simp [init])
    exact ⟨c.initIn, fun k hk => Or.inl (c.genJob k hk), c.doneCl, c.actExp, c.actRec, c.doneReach⟩

/-! ### closure bookkeeping (as in Complete.lean, with the `Deep` alternative) -/

theorem dclosure_set_active' {s : St σ κ} (c : DClosure P s) (w : Nat) (a a' : Active σ)
    (ha : s.active[w]? = some a) (hst : a'.job.st = a.job.st)
    (gen' : List κ) (frontier' : List (Job σ))
    (hg : ∀ k ∈ s.gen, k ∈ gen') (hf : ∀ j ∈ s.frontier, j ∈ frontier')
    (hnew : ∀ k ∈ gen', k ∈ s.gen ∨ ∃ j ∈ frontier', P.key j.st = k)
    (hexp : ∀ rest, a'.phase = .expanding rest → ∀ t' ∈ P.M.succB a.job.st, t' ∈ rest ∨ P.key t' ∈ gen')
    (hrec : ∀ i, a'.phase = .recording i → P.M.succB a.job.st = [])
    (disc' : List (Nat × List σ)) (n : Nat) :
    DClosure P { s with active := s.active.set w a', disc := disc', gen := gen', frontier := frontier', stateCount := n } := by
  have ham : a ∈ s.active := List.mem_of_getElem? ha
  refine ⟨fun t ht => hg _ (c.initIn t ht), ?_, fun t ht t' ht' => hg _ (c.doneCl t ht t' ht'), ?_, ?_, c.doneReach⟩
  · intro k hk
    rcases hnew k hk with hk | ⟨j, hj, rfl⟩
    · rcases c.genJob k hk with ⟨u, hu, rfl⟩ | hdeep
      · left
        refine ⟨u, ?_, rfl⟩
        rw [mem_jobStates] at hu ⊢
        rcases hu with ⟨j, hj, rfl⟩ | ⟨x, hx, rfl⟩ | hu
        · exact Or.inl ⟨j, hf j hj, rfl⟩
        · right; left
          obtain ⟨n, hn⟩ := List.getElem?_of_mem hx
          by_cases hnw : n = w
          · subst hnw
            rw [ha] at hn; cases hn
            exact ⟨a', List.mem_set (List.getElem?_eq_some_iff.1 ha).1 _, hst⟩
          · refine ⟨x, ?_, rfl⟩
            rw [List.mem_iff_getElem?]
            exact ⟨n, by rw [List.getElem?_set_ne (Ne.symm hnw)]; exact hn⟩
        · exact Or.inr (Or.inr hu)
      · exact Or.inr hdeep
    · exact Or.inl ⟨j.st, by rw [mem_jobStates]; exact Or.inl ⟨j, hj, rfl⟩, rfl⟩
  · intro x hx rest hr t' ht'
    rcases mem_set_cases hx with hx | rfl
    · rcases c.actExp x hx rest hr t' ht' with h | h
      · exact Or.inl h
      · exact Or.inr (hg _ h)
    · rw [hst] at ht'; exact hexp rest hr t' ht'
  · intro x hx i hr
    rcases mem_set_cases hx with hx | rfl
    · exact c.actRec x hx i hr
    · rw [hst]; exact hrec i hr

theorem dclosure_set_active {s : St σ κ} (c : DClosure P s) (w : Nat) (a a' : Active σ)
    (ha : s.active[w]? = some a) (hst : a'.job.st = a.job.st)
    (hexp : ∀ rest, a'.phase = .expanding rest → ∀ t' ∈ P.M.succB a.job.st, t' ∈ rest ∨ P.key t' ∈ s.gen)
    (hrec : ∀ i, a'.phase = .recording i → P.M.succB a.job.st = [])
    (disc' : List (Nat × List σ)) :
    DClosure P { s with active := s.active.set w a', disc := disc' } :=
  dclosure_set_active' c w a a' ha hst s.gen s.frontier (fun _ h => h) (fun _ h => h) (fun _ h => Or.inl h)
    hexp hrec disc' s.stateCount

theorem dclosure_retire {s : St σ κ} (c : DClosure P s) (w : Nat) (a : Active σ) (ha : s.active[w]? = some a)
    (hcl : ∀ t' ∈ P.M.succB a.job.st, P.key t' ∈ s.gen) (hreach : P.M.Reach a.job.st) :
    DClosure P { s with active := s.active.eraseIdx w, done := a.job.st :: s.done } := by
  refine ⟨c.initIn, ?_, ?_, ?_, ?_, ?_⟩
  · intro k hk
    rcases c.genJob k hk with ⟨u, hu, rfl⟩ | hdeep
    · left
      refine ⟨u, ?_, rfl⟩
      rw [mem_jobStates] at hu ⊢
      rcases hu with hu | ⟨x, hx, rfl⟩ | hu
      · exact Or.inl hu
      · obtain ⟨n, hn⟩ := List.getElem?_of_mem hx
        by_cases hnw : n = w
        · subst hnw; rw [ha] at hn; cases hn
          exact Or.inr (Or.inr List.mem_cons_self)
        · right; left; refine ⟨x, ?_, rfl⟩
          rw [List.mem_eraseIdx_iff_getElem?]; exact ⟨n, hnw, hn⟩
      · exact Or.inr (Or.inr (List.mem_cons_of_mem _ hu))
    · exact Or.inr hdeep
  · intro t ht
    rcases List.mem_cons.1 ht with rfl | ht
    · exact hcl
    · exact c.doneCl t ht
  · intro x hx; exact c.actExp x (List.mem_of_mem_eraseIdx hx)
  · intro x hx; exact c.actRec x (List.mem_of_mem_eraseIdx hx)
  · intro t ht
    rcases List.mem_cons.1 ht with rfl | ht
    · exact hreach
    · exact c.doneReach t ht

theorem gsingle_active {s : St σ κ} (hg : GInv P s) {a : Active σ} (ha : s.active[0]? = some a) : s.active = [a] := by
  cases hact : s.active with
  | nil => rw [hact] at ha; simp at ha
  | cons x xs =>
    have := hg.single; rw [hact] at this
    simp only [List.length_cons] at this
    have hxs : xs = [] := List.eq_nil_of_length_eq_zero (by omega)
    subst hxs
    rw [hact] at ha; simp at ha; subst ha; rfl

theorem calm_of_mono {s s' : St σ κ} (hstop : s'.stopped = s.stopped)
    (hm : ∀ k, hasDisc s.disc k = true → hasDisc s'.disc k = true) (h : Calm P s') : Calm P s := by
  obtain ⟨h1, h2⟩ := h
  refine ⟨by rw [← hstop]; exact h1, ?_⟩
  cases ha : allDiscovered P s with
  | false => rfl
  | true =>
    have : allDiscovered P s' = true := allDiscovered_mono hm ha
    rw [this] at h2; cases h2

/-- the single worker is replaced by a worker with the same depth/state; discoveries may grow -/
theorem ginv_set0 {s : St σ κ} (hg : GInv P s) {a a' : Active σ} (ha : s.active[0]? = some a)
    (hd : a'.job.depth = a.job.depth) (hst : a'.job.st = a.job.st)
    (disc' : List (Nat × List σ)) (n : Nat)
    (hm : ∀ k, hasDisc s.disc k = true → hasDisc disc' k = true)
    (hawake : (∀ k, a'.phase = .props k true → ∃ i, i < k ∧ i < P.props.length ∧ hasDisc disc' i = false) ∧
              (∀ r, a'.phase = .expanding r → ∃ i, i < P.props.length ∧ hasDisc disc' i = false))
    (hexp : ∀ rest, a'.phase = .expanding rest → ∀ t' ∈ P.M.succB a.job.st, t' ∈ rest ∨ P.key t' ∈ s.gen)
    (hrec : ∀ i, a'.phase = .recording i → P.M.succB a.job.st = []) :
    GInv P { s with active := s.active.set 0 a', disc := disc', stateCount := n } := by
  have hsa := gsingle_active hg ha
  have ham : a ∈ s.active := by rw [hsa]; exact List.mem_singleton.2 rfl
  have hset : s.active.set 0 a' = [a'] := by rw [hsa]; rfl
  have hcalm : Calm P ({ s with active := s.active.set 0 a', disc := disc', stateCount := n } : St σ κ) → Calm P s :=
    calm_of_mono rfl hm
  have hjobs : ∀ x ∈ jobsOf ({ s with active := s.active.set 0 a', disc := disc', stateCount := n } : St σ κ),
      ∃ y ∈ jobsOf s, y.depth = x.depth ∧ y.st = x.st := by
    intro x hx
    simp only [mem_jobsOf, hset, List.mem_singleton] at hx
    rcases hx with hx | ⟨b, rfl, rfl⟩
    · exact ⟨x, mem_jobsOf.2 (Or.inl hx), rfl, rfl⟩
    · exact ⟨a.job, mem_jobsOf.2 (Or.inr ⟨a, ham, rfl⟩), hd.symm, hst.symm⟩
  have hjobs' : ∀ y ∈ jobsOf s, ∃ x ∈ jobsOf ({ s with active := s.active.set 0 a', disc := disc', stateCount := n } : St σ κ),
      y.depth = x.depth ∧ y.st = x.st := by
    intro y hy
    rw [mem_jobsOf, hsa] at hy
    rcases hy with hy | ⟨b, hb', rfl⟩
    · exact ⟨y, mem_jobsOf.2 (Or.inl hy), rfl, rfl⟩
    · simp at hb'; subst hb'
      exact ⟨a'.job, mem_jobsOf.2 (Or.inr ⟨a', by simp only [hset]; exact List.mem_singleton.2 rfl, rfl⟩), hd.symm, hst.symm⟩
  refine ⟨(by simp only [hset]; simp), hg.sorted, ?_, (by intro h; simp only [hset] at h; cases h), ?_, ?_, ?_, ?_, ?_, ?_, ?_⟩
  · intro b hb' j hj
    simp only [hset, List.mem_singleton] at hb'; subst hb'
    rw [hd]; exact hg.actLe a ham j hj
  · intro x hx q hq hl
    obtain ⟨y, hy, hyd, hys⟩ := hjobs x hx
    rw [← hyd]; exact hg.shortJob y hy q hq (by rw [hl, hys])
  · intro b hb' d hdl
    simp only [hset, List.mem_singleton] at hb'; subst hb'
    rw [hd]; exact hg.actDepth a ham d hdl
  · intro hc q t hq hl hle hlim
    refine hg.lower (hcalm hc) q t hq hl ?_ hlim
    intro y hy
    obtain ⟨x, hx, hyd, _⟩ := hjobs' y hy
    rw [hyd]; exact hle x hx
  · intro b hb'
    simp only [hset, List.mem_singleton] at hb'; subst hb'
    exact hawake
  · intro h
    have := hg.noActStopped h
    rw [hsa] at this; cases this
  · intro b hb' i hr
    simp only [hset, List.mem_singleton] at hb'; subst hb'
    rw [hst]; exact hrec i hr
  · intro hc
    exact dclosure_set_active' (hg.dc (hcalm hc)) 0 a a' ha hst s.gen s.frontier (fun _ h => h) (fun _ h => h)
      (fun _ h => Or.inl h) hexp hrec disc' n

theorem gjob_reach {s : St σ κ} (hs : SInv P s) {j : Job σ} (hj : j ∈ jobsOf s) : P.M.Reach j.st := job_reach hs hj

theorem ginv_take {s : St σ κ} (hx : DCtx (P := P) s) (hg : GInv P s) (hact : s.active = [])
    (hst : s.stopped = false) : GInv P (stepTake P 0 s) := by
  unfold stepTake
  cases hfr : s.frontier with
  | nil => simp; exact hg
  | cons j tail =>
    simp only [List.getElem?_cons_zero, List.eraseIdx_cons_zero]
    have hjf : j ∈ s.frontier := by rw [hfr]; exact List.mem_cons_self
    have hjo := hx.sinv.fr j hjf
    have hjmem : j ∈ jobsOf s := mem_jobsOf.2 (Or.inl hjf)
    have hsorted := hg.sorted; rw [hfr] at hsorted
    simp only [List.map_cons, List.pairwise_cons] at hsorted
    have hhead : ∀ j' ∈ tail, j.depth ≤ j'.depth := fun j' hj' => hsorted.1 _ (List.mem_map.2 ⟨j', hj', rfl⟩)
    have hspread := hg.spread hact
    have htailf : ∀ x ∈ tail, x ∈ s.frontier := fun x hx' => by rw [hfr]; exact List.mem_cons_of_mem _ hx'
    have hall : ∀ x ∈ jobsOf s, j.depth ≤ x.depth := by
      intro x hx'
      rw [mem_jobsOf, hfr, hact] at hx'
      rcases hx' with hx' | ⟨a, ha, _⟩
      · rcases List.mem_cons.1 hx' with rfl | hx'
        · exact Nat.le_refl _
        · exact hhead x hx'
      · simp at ha
    -- the job is taken (not skipped)
    have taken : (∀ d, P.cfg.maxDepth = some d → j.depth < d) →
        GInv P { s with frontier := tail, maxDepth := max s.maxDepth j.depth, visits := j.path :: s.visits, active := s.active ++ [{ job := j, phase := .props 0 false }] } := by
      intro hlt
      have hjobs : ∀ x, x ∈ jobsOf ({ s with frontier := tail, maxDepth := max s.maxDepth j.depth, visits := j.path :: s.visits, active := s.active ++ [{ job := j, phase := .props 0 false }] } : St σ κ) ↔ x ∈ jobsOf s := by
        intro x; simp only [mem_jobsOf, hfr, hact, List.nil_append, List.mem_cons, List.not_mem_nil, false_and, exists_false, or_false]
        constructor
        · rintro (h | ⟨a, rfl, rfl⟩)
          · exact Or.inr h
          · exact Or.inl rfl
        · rintro (rfl | h)
          · exact Or.inr ⟨_, rfl, rfl⟩
          · exact Or.inl h
      refine ⟨(by simp [hact]), hsorted.2, ?_, (by intro h; simp [hact] at h), ?_, ?_, ?_, ?_, (by intro h; rw [hst] at h; cases h), (by intro a ha i hr; simp [hact] at ha; subst ha; cases hr), ?_⟩
      · intro a ha j' hj'
        simp [hact] at ha; subst ha
        exact ⟨hhead j' hj', hspread j hjf j' (htailf j' hj')⟩
      · intro x hx'; rw [hjobs] at hx'; exact hg.shortJob x hx'
      · intro a ha d hd; simp [hact] at ha; subst ha; exact hlt d hd
      · intro hc q t hq hl hle hlim
        exact hg.lower hc q t hq hl (fun x hx' => hle x ((hjobs x).2 hx')) hlim
      · intro a ha
        simp [hact] at ha; subst ha
        exact ⟨(by intro k hk; cases hk), (by intro r hr; cases hr)⟩
      · intro hc
        have c := hg.dc hc
        refine ⟨c.initIn, ?_, c.doneCl, ?_, ?_, c.doneReach⟩
        · intro k hk
          rcases c.genJob k hk with ⟨u, hu, rfl⟩ | hdeep
          · left; refine ⟨u, ?_, rfl⟩
            rw [mem_jobStates] at hu ⊢
            simp only [hfr, hact, List.mem_cons, List.not_mem_nil, false_and, exists_false, false_or] at hu
            rcases hu with ⟨j', (rfl | hj'), rfl⟩ | hu
            · exact Or.inr (Or.inl ⟨⟨j', .props 0 false⟩, by simp [hact], rfl⟩)
            · exact Or.inl ⟨j', hj', rfl⟩
            · exact Or.inr (Or.inr hu)
          · exact Or.inr hdeep
        · intro a ha rest hr; simp [hact] at ha; subst ha; cases hr
        · intro a ha i hr; simp [hact] at ha; subst ha; cases hr
    cases hmd : P.cfg.maxDepth with
    | none =>
      simp only
      exact taken (by intro d hd; rw [hmd] at hd; cases hd)
    | some d =>
      simp only
      by_cases hge : j.depth ≥ d
      · rw [if_pos hge]
        -- skipped: the state lies at or beyond the limit
        have hjobs : ∀ x ∈ jobsOf ({ s with frontier := tail, maxDepth := max s.maxDepth j.depth, early := true } : St σ κ), x ∈ jobsOf s := by
          intro x hx'
          rw [mem_jobsOf] at hx' ⊢
          rcases hx' with hx' | hx'
          · exact Or.inl (htailf x hx')
          · exact Or.inr hx'
        refine ⟨hg.single, hsorted.2, (by intro a ha; rw [hact] at ha; simp at ha),
          (fun h j1 hj1 j2 hj2 => hspread j1 (htailf j1 hj1) j2 (htailf j2 hj2)),
          (fun x hx' => hg.shortJob x (hjobs x hx')), (by intro a ha; rw [hact] at ha; simp at ha), ?_, hg.awake, hg.noActStopped, hg.recTerm, ?_⟩
        · intro hc q t hq hl hle hlim
          refine hg.lower hc q t hq hl ?_ hlim
          intro x hx'
          rw [mem_jobsOf, hfr, hact] at hx'
          rcases hx' with hx' | ⟨a, ha, _⟩
          · rcases List.mem_cons.1 hx' with rfl | hx'
            · have := hlim d hmd; omega
            · exact hle x (mem_jobsOf.2 (Or.inl hx'))
          · simp at ha
        · intro hc
          have c := hg.dc hc
          refine ⟨c.initIn, ?_, c.doneCl, c.actExp, c.actRec, c.doneReach⟩
          intro k hk
          rcases c.genJob k hk with ⟨u, hu, rfl⟩ | hdeep
          · rw [mem_jobStates] at hu
            simp only [hfr, hact, List.mem_cons, List.not_mem_nil, false_and, exists_false, false_or] at hu
            rcases hu with ⟨j', (rfl | hj'), rfl⟩ | hu
            · right
              exact ⟨d, hmd, j'.st, rfl, gjob_reach hx.sinv hjmem,
                fun q hq hl => Nat.le_trans hge (hg.shortJob j' hjmem q hq hl)⟩
            · left; exact ⟨j'.st, by rw [mem_jobStates]; exact Or.inl ⟨j', hj', rfl⟩, rfl⟩
            · left; exact ⟨u, by rw [mem_jobStates]; exact Or.inr (Or.inr hu), rfl⟩
          · exact Or.inr hdeep
      · rw [if_neg hge]
        exact taken (by intro d' hd'; rw [hmd] at hd'; cases hd'; omega)

theorem ginv_evalProp {s : St σ κ} (hg : GInv P s) : GInv P (stepEvalProp P 0 false s) := by
  unfold stepEvalProp
  split
  · rename_i j i aw ha
    have hsa := gsingle_active hg ha
    have ham : (⟨j, .props i aw⟩ : Active σ) ∈ s.active := by rw [hsa]; exact List.mem_singleton.2 rfl
    have hold := (hg.awake _ ham).1
    split
    · exact hg
    · rename_i p hp
      have hi : i < P.props.length := (List.getElem?_eq_some_iff.1 hp).1
      have keepAw : ∀ (d' : List (Nat × List σ)), (∀ k, k < i → hasDisc s.disc k = false → hasDisc d' k = false) →
          (∀ k, (Phase.props (i+1) aw : Phase σ) = .props k true → ∃ n, n < k ∧ n < P.props.length ∧ hasDisc d' n = false) ∧
          (∀ r, (Phase.props (i+1) aw : Phase σ) = .expanding r → ∃ n, n < P.props.length ∧ hasDisc d' n = false) := by
        intro d' hmono
        refine ⟨?_, by intro r hr; cases hr⟩
        intro k hk
        cases hk
        obtain ⟨n, hn, hnl, hnd⟩ := hold i rfl
        exact ⟨n, by omega, hnl, hmono n hn hnd⟩
      have insKeep : ∀ k, k < i → hasDisc s.disc k = false → hasDisc (discInsert s.disc i j.path) k = false := by
        intro k hk hd
        rw [hasDisc_insert, hd]
        have : (k == i) = false := by simp; omega
        simp [this]
      have noexp : ∀ (ph : Phase σ), (∀ k aw', ph = .props k aw' → True) → True := fun _ _ => trivial
      split
      · exact ginv_set0 hg ha (by rfl) (by rfl) s.disc s.stateCount (fun _ h => h) (keepAw s.disc (fun _ _ h => h))
          (by intro r hr; cases hr) (by intro r hr; cases hr)
      · rename_i hpres
        have hnd : hasDisc s.disc i = false := by
          cases hh : hasDisc s.disc i with
          | false => rfl
          | true => simp [hh] at hpres
        have newAw : (∀ k, (Phase.props (i+1) true : Phase σ) = .props k true → ∃ n, n < k ∧ n < P.props.length ∧ hasDisc s.disc n = false) ∧
            (∀ r, (Phase.props (i+1) true : Phase σ) = .expanding r → ∃ n, n < P.props.length ∧ hasDisc s.disc n = false) :=
          ⟨by intro k hk; cases hk; exact ⟨i, Nat.lt_succ_self _, hi, hnd⟩, by intro r hr; cases hr⟩
        split
        · split
          · exact ginv_set0 hg ha (by rfl) (by rfl) _ s.stateCount (fun _ h => hasDisc_insert_mono h) (keepAw _ insKeep)
              (by intro r hr; cases hr) (by intro r hr; cases hr)
          · exact ginv_set0 hg ha (by rfl) (by rfl) s.disc s.stateCount (fun _ h => h) newAw
              (by intro r hr; cases hr) (by intro r hr; cases hr)
        · split
          · exact ginv_set0 hg ha (by rfl) (by rfl) _ s.stateCount (fun _ h => hasDisc_insert_mono h) (keepAw _ insKeep)
              (by intro r hr; cases hr) (by intro r hr; cases hr)
          · exact ginv_set0 hg ha (by rfl) (by rfl) s.disc s.stateCount (fun _ h => h) newAw
              (by intro r hr; cases hr) (by intro r hr; cases hr)
        · exact ginv_set0 hg ha (by dsimp only; split <;> rfl) (by dsimp only; split <;> rfl) s.disc s.stateCount
            (fun _ h => h) newAw (by intro r hr; cases hr) (by intro r hr; cases hr)
  · exact hg

/-- the single worker leaves; frontier/gen unchanged.  `hdc` re-establishes the closure, `hlower` the layer clause. -/
theorem ginv_leave {s s' : St σ κ} (hg : GInv P s) {a : Active σ} (ha : s.active[0]? = some a)
    (hfr : s'.frontier = s.frontier) (hstop : s'.stopped = s.stopped) (hact : s'.active = [])
    (hdc : Calm P s' → DClosure P s')
    (hlower : Calm P s' → ∀ q t, P.M.IsPath q → q.getLast? = some t →
            (∀ j ∈ s.frontier, q.length ≤ j.depth) → (∀ d, P.cfg.maxDepth = some d → q.length ≤ d) → P.key t ∈ s'.gen) :
    GInv P s' := by
  have hsa := gsingle_active hg ha
  have ham : a ∈ s.active := by rw [hsa]; exact List.mem_singleton.2 rfl
  have hjobs : ∀ x ∈ jobsOf s', x ∈ jobsOf s := by
    intro x hx
    rw [mem_jobsOf, hfr, hact] at hx
    rcases hx with hx | ⟨b, hb', _⟩
    · exact mem_jobsOf.2 (Or.inl hx)
    · simp at hb'
  refine ⟨(by rw [hact]; simp), (by rw [hfr]; exact hg.sorted), (by intro b hb'; rw [hact] at hb'; simp at hb'), ?_,
    (fun x hx => hg.shortJob x (hjobs x hx)), (by intro b hb'; rw [hact] at hb'; simp at hb'), ?_,
    (by intro b hb'; rw [hact] at hb'; simp at hb'), (fun _ => hact), (by intro b hb'; rw [hact] at hb'; simp at hb'), hdc⟩
  · intro _ j hj j' hj'
    rw [hfr] at hj hj'
    have h1 := hg.actLe a ham j hj
    have h2 := hg.actLe a ham j' hj'
    omega
  · intro hc q t hq hl hle hlim
    refine hlower hc q t hq hl ?_ hlim
    intro j hj
    exact hle j (mem_jobsOf.2 (Or.inl (by rw [hfr]; exact hj)))

/-- after the single worker retired (or was never there): every state with a short enough path is generated -/
theorem glower_no_active {s s' : St σ κ} (hx : DCtx (P := P) s) (hg : GInv P s)
    (c : DClosure P s') (hfr : s'.frontier = s.frontier) (hact : s'.active = []) :
    ∀ q t, P.M.IsPath q → q.getLast? = some t → (∀ j ∈ s.frontier, q.length ≤ j.depth) →
      (∀ d, P.cfg.maxDepth = some d → q.length ≤ d) → P.key t ∈ s'.gen := by
  have main : ∀ n (q : List σ), q.length ≤ n → ∀ t, P.M.IsPath q → q.getLast? = some t →
      (∀ j ∈ s.frontier, q.length ≤ j.depth) → (∀ d, P.cfg.maxDepth = some d → q.length ≤ d) → P.key t ∈ s'.gen := by
    intro n
    induction n with
    | zero =>
      intro q hn t hq
      have := isPath_length_pos hq; omega
    | succ n ih =>
      intro q hn t hq hl hle hlim
      have hne : q ≠ [] := Sys.isPath_ne_nil hq
      have hsplit := (List.dropLast_concat_getLast hne).symm
      have hlast : q.getLast hne = t := by
        rw [List.getLast?_eq_some_getLast hne] at hl; exact Option.some.inj hl
      rw [hlast] at hsplit
      by_cases hq' : q.dropLast = []
      · rw [hq'] at hsplit
        obtain ⟨x, rest, heq, hxi, _⟩ := hq
        rw [hsplit] at heq
        simp at heq; obtain ⟨rfl, _⟩ := heq
        exact c.initIn _ hxi
      · have hq2 : P.M.IsPath (q.dropLast ++ [t]) := by rw [← hsplit]; exact hq
        obtain ⟨hq1, u, hlu, htu⟩ := Sys.isPath_snoc_inv hq' hq2
        have hlen : q.dropLast.length = q.length - 1 := by simp
        have hpos := isPath_length_pos hq
        have hku := ih q.dropLast (by omega) u hq1 hlu (fun j hj => by have := hle j hj; omega)
          (fun d hd => by have := hlim d hd; omega)
        have hur : P.M.Reach u := Sys.reach_last_of_isPath hq1 hlu
        rcases c.genJob _ hku with ⟨v, hv, hkv⟩ | ⟨d, hd, v, hkv, hvr, hdeep⟩
        · rw [mem_jobStates, hfr, hact] at hv
          rcases hv with ⟨j, hj, rfl⟩ | ⟨a, ha, _⟩ | hv
          · exfalso
            have hjm : j ∈ jobsOf s := mem_jobsOf.2 (Or.inl hj)
            have : j.st = u := hx.inj _ _ (gjob_reach hx.sinv hjm) hur hkv
            have h1 := hg.shortJob j hjm q.dropLast hq1 (by rw [hlu, this])
            have h2 := hle j hj
            omega
          · simp at ha
          · have : v = u := hx.inj _ _ (c.doneReach v hv) hur hkv
            subst this
            exact c.doneCl v hv t htu
        · exfalso
          have : v = u := hx.inj _ _ hvr hur hkv
          subst this
          have h1 := hdeep q.dropLast hq1 hlu
          have h2 := hlim d hd
          omega
  intro q t hq hl hle hlim
  exact main q.length q (Nat.le_refl _) t hq hl hle hlim

theorem not_calm_of_allDisc {s : St σ κ} (h : allDiscovered P s = true) : ¬ Calm P s := fun hc => by
  rw [hc.2] at h; cases h

theorem ginv_finishProps {s : St σ κ} (hx : DCtx (P := P) s) (hg : GInv P s) : GInv P (stepFinishProps P 0 s) := by
  unfold stepFinishProps
  split
  · rename_i j i aw ha
    have hsa := gsingle_active hg ha
    have ham : (⟨j, .props i aw⟩ : Active σ) ∈ s.active := by rw [hsa]; exact List.mem_singleton.2 rfl
    split
    · exact hg
    · rename_i hge
      split
      · rename_i haw
        -- everything is discovered: the successor state is not calm
        have haw' : aw = false := by cases aw <;> simp_all
        subst haw'
        have hall : allDiscovered P s = true := by
          simp only [allDiscovered, List.all_eq_true, List.mem_range]
          intro k hk
          exact hx.vinv.aw _ ham i rfl k (by omega) hk
        have hnc : ¬ Calm P ({ s with active := s.active.eraseIdx 0, early := true } : St σ κ) :=
          fun hc => not_calm_of_allDisc hall ⟨hc.1, hc.2⟩
        exact ginv_leave hg ha rfl rfl (by rw [hsa]; rfl) (fun hc => absurd hc hnc) (fun hc => absurd hc hnc)
      · rename_i haw
        have hawt : aw = true := by cases aw <;> simp_all
        subst hawt
        obtain ⟨n, _, hnl, hnd⟩ := (hg.awake _ ham).1 i rfl
        split
        · rename_i hss
          exact ginv_set0 hg ha (by rfl) (by rfl) s.disc s.stateCount (fun _ h => h)
            ⟨(by intro k hk; cases hk), (by intro r hr; cases hr)⟩ (by intro r hr; cases hr) (by intro r _; exact hss)
        · rename_i ss hss hne
          refine ginv_set0 hg ha (by rfl) (by rfl) s.disc s.stateCount (fun _ h => h)
            ⟨(by intro k hk; cases hk), (by intro r _; exact ⟨n, hnl, hnd⟩)⟩ ?_ (by intro r hr; cases hr)
          intro r hr t' ht'
          cases hr
          exact Or.inl ht'
  · exact hg

theorem ginv_retire {s : St σ κ} (hx : DCtx (P := P) s) (hg : GInv P s) {a : Active σ} (ha : s.active[0]? = some a)
    (hcl : Calm P s → ∀ t' ∈ P.M.succB a.job.st, P.key t' ∈ s.gen) :
    GInv P { s with active := s.active.eraseIdx 0, done := a.job.st :: s.done } := by
  have hsa := gsingle_active hg ha
  have ham : a ∈ s.active := by rw [hsa]; exact List.mem_singleton.2 rfl
  have hjo := hx.sinv.ac _ ham
  have hcalm : Calm P ({ s with active := s.active.eraseIdx 0, done := a.job.st :: s.done } : St σ κ) → Calm P s :=
    fun hc => ⟨hc.1, hc.2⟩
  have hdc : Calm P ({ s with active := s.active.eraseIdx 0, done := a.job.st :: s.done } : St σ κ) →
      DClosure P { s with active := s.active.eraseIdx 0, done := a.job.st :: s.done } :=
    fun hc => dclosure_retire (hg.dc (hcalm hc)) 0 a ha (hcl (hcalm hc)) (Sys.reach_last_of_isPath hjo.path hjo.last)
  refine ginv_leave hg ha rfl rfl (by rw [hsa]; rfl) hdc ?_
  intro hc
  exact glower_no_active hx hg (hdc hc) rfl (by rw [hsa]; rfl)

theorem ginv_expand {s : St σ κ} (hx : DCtx (P := P) s) (hg : GInv P s) : GInv P (stepExpand P 0 false s) := by
  unfold stepExpand
  split
  · rename_i j rest ha
    have hsa := gsingle_active hg ha
    have ham : (⟨j, .expanding rest⟩ : Active σ) ∈ s.active := by rw [hsa]; exact List.mem_singleton.2 rfl
    have hjo := hx.sinv.ac _ ham
    have hset : ∀ a' : Active σ, s.active.set 0 a' = [a'] := by intro a'; rw [hsa]; rfl
    obtain ⟨n, hnl, hnd⟩ := (hg.awake _ ham).2 rest rfl
    have hcalm : Calm P s := by
      refine ⟨?_, ?_⟩
      · cases hst : s.stopped with
        | false => rfl
        | true => have := hg.noActStopped hst; rw [hsa] at this; cases this
      · cases hal : allDiscovered P s with
        | false => rfl
        | true =>
          simp only [allDiscovered, List.all_eq_true, List.mem_range] at hal
          rw [hal n hnl] at hnd; cases hnd
    have c := hg.dc hcalm
    split
    · refine ginv_retire hx hg ha ?_
      intro _ t' ht'
      rcases c.actExp _ ham [] rfl t' ht' with h' | h'
      · simp at h'
      · exact h'
    · rename_i t rest'
      dsimp only
      have awk : (∀ k, (Phase.expanding rest' : Phase σ) = .props k true → ∃ m, m < k ∧ m < P.props.length ∧ hasDisc s.disc m = false) ∧
          (∀ r, (Phase.expanding rest' : Phase σ) = .expanding r → ∃ m, m < P.props.length ∧ hasDisc s.disc m = false) :=
        ⟨(by intro k hk; cases hk), (by intro r _; exact ⟨n, hnl, hnd⟩)⟩
      have hstepExp : ∀ (g' : List κ), (∀ k ∈ s.gen, k ∈ g') → P.key t ∈ g' →
          ∀ r, (Phase.expanding rest' : Phase σ) = .expanding r → ∀ t' ∈ P.M.succB j.st, t' ∈ r ∨ P.key t' ∈ g' := by
        intro g' hgg ht r hr t' ht'
        cases hr
        rcases c.actExp _ ham _ rfl t' ht' with h' | h'
        · rcases List.mem_cons.1 h' with rfl | h'
          · exact Or.inr ht
          · exact Or.inl h'
        · exact Or.inr (hgg _ h')
      split
      · rename_i hin
        exact ginv_set0 hg ha (by rfl) (by rfl) s.disc (s.stateCount + 1) (fun _ h => h) awk
          (hstepExp s.gen (fun _ h => h) hin) (by intro r hr; cases hr)
      · rename_i hnin
        simp only [Bool.false_eq_true, if_false]
        have hD : ∀ x ∈ jobsOf s, j.depth ≤ x.depth := by
          intro x hx'
          rw [mem_jobsOf] at hx'
          rcases hx' with hx' | ⟨a, ha', rfl⟩
          · exact (hg.actLe _ ham x hx').1
          · rw [hsa] at ha'; simp at ha'; subst ha'; exact Nat.le_refl _
        have hjd : ∀ d, P.cfg.maxDepth = some d → j.depth < d := fun d hd => hg.actDepth _ ham d hd
        have hchildShort : ∀ q, P.M.IsPath q → q.getLast? = some t → j.depth + 1 ≤ q.length := by
          intro q hq hl
          apply Classical.byContradiction
          intro hcon
          have hk := hg.lower hcalm q t hq hl (fun x hx' => by have := hD x hx'; omega)
            (fun d hd => by have := hjd d hd; omega)
          exact hnin hk
        let child : Job σ := { st := t, path := j.path ++ [t], ebits := j.ebits, depth := j.depth + 1 }
        have hjobs : ∀ x, x ∈ jobsOf ({ s with stateCount := s.stateCount + 1, gen := s.gen ++ [P.key t], frontier := s.frontier ++ [child], active := s.active.set 0 ⟨j, .expanding rest'⟩ } : St σ κ) ↔
            x = child ∨ x ∈ jobsOf s := by
          intro x
          simp only [mem_jobsOf, hsa, List.set_cons_zero, List.mem_append, List.mem_singleton, List.mem_cons, List.not_mem_nil, or_false]
          constructor
          · rintro ((h | h) | ⟨a, rfl, rfl⟩)
            · exact Or.inr (Or.inl h)
            · exact Or.inl h
            · exact Or.inr (Or.inr ⟨_, rfl, rfl⟩)
          · rintro (h | h | ⟨a, rfl, rfl⟩)
            · exact Or.inl (Or.inr h)
            · exact Or.inl (Or.inl h)
            · exact Or.inr ⟨_, rfl, rfl⟩
        have hcalm' : Calm P ({ s with stateCount := s.stateCount + 1, gen := s.gen ++ [P.key t], frontier := s.frontier ++ [child], active := s.active.set 0 ⟨j, .expanding rest'⟩ } : St σ κ) → Calm P s :=
          fun hc => ⟨hc.1, hc.2⟩
        refine ⟨(by simp [hsa]), ?_, ?_, (by intro h; rw [hset] at h; cases h), ?_, ?_, ?_, ?_, ?_, (by intro a ha' i hr; rw [hset] at ha'; simp at ha'; subst ha'; cases hr), ?_⟩
        · simp only [List.map_append, List.map_cons, List.map_nil]
          rw [List.pairwise_append]
          refine ⟨hg.sorted, by simp, ?_⟩
          intro a ha' b hb'
          simp at hb'; subst hb'
          obtain ⟨x, hx', rfl⟩ := List.mem_map.1 ha'
          exact (hg.actLe _ ham x hx').2
        · intro a ha' x hx'
          rw [hset] at ha'; simp at ha'; subst ha'
          rcases List.mem_append.1 hx' with hx' | hx'
          · exact hg.actLe _ ham x hx'
          · simp at hx'; subst hx'; simp
        · intro x hx' q hq hl
          rcases (hjobs x).1 hx' with rfl | hx'
          · exact hchildShort q hq hl
          · exact hg.shortJob x hx' q hq hl
        · intro a ha' d hd
          rw [hset] at ha'; simp at ha'; subst ha'
          exact hjd d hd
        · intro hc q t' hq hl hle hlim
          apply List.mem_append_left
          exact hg.lower (hcalm' hc) q t' hq hl (fun x hx' => hle x ((hjobs x).2 (Or.inr hx'))) hlim
        · intro a ha'
          rw [hset] at ha'; simp at ha'; subst ha'
          exact awk
        · intro h
          have := hg.noActStopped h
          rw [hsa] at this; cases this
        · intro _
          refine dclosure_set_active' c 0 _ ⟨j, .expanding rest'⟩ ha (by rfl) (s.gen ++ [P.key t]) (s.frontier ++ [child])
            (fun _ h => List.mem_append_left _ h) (fun x hx' => List.mem_append_left _ hx') ?_
            (hstepExp _ (fun _ h => List.mem_append_left _ h) (by simp)) (by intro r hr; cases hr) s.disc _
          intro k hk
          rcases List.mem_append.1 hk with hk | hk
          · exact Or.inl hk
          · simp at hk; subst hk
            exact Or.inr ⟨child, by simp, rfl⟩
  · exact hg

theorem ginv_record {s : St σ κ} (hx : DCtx (P := P) s) (hg : GInv P s) : GInv P (stepRecord P 0 s) := by
  unfold stepRecord
  split
  · rename_i j i ha
    have hsa := gsingle_active hg ha
    have ham : (⟨j, .recording i⟩ : Active σ) ∈ s.active := by rw [hsa]; exact List.mem_singleton.2 rfl
    have hterm : P.M.succB j.st = [] := hg.recTerm _ ham i rfl
    split
    · dsimp only
      split
      · exact ginv_set0 hg ha (by rfl) (by rfl) _ s.stateCount (fun _ h => hasDisc_insert_mono h)
          ⟨(by intro k hk; cases hk), (by intro r hr; cases hr)⟩ (by intro r hr; cases hr) (by intro r _; exact hterm)
      · exact ginv_set0 hg ha (by rfl) (by rfl) s.disc s.stateCount (fun _ h => h)
          ⟨(by intro k hk; cases hk), (by intro r hr; cases hr)⟩ (by intro r hr; cases hr) (by intro r _; exact hterm)
    · refine ginv_retire hx hg ha ?_
      intro _ t' ht'
      rw [hterm] at ht'; simp at ht'
  · exact hg

theorem ginv_stop (why : Why) {s : St σ κ} (hg : GInv P s) (hact : s.active = []) : GInv P (stepStop P why s) := by
  unfold stepStop
  split
  · -- stopped: the successor is not calm
    have hnc : ¬ Calm P ({ s with stopped := true } : St σ κ) := fun hc => by have := hc.1; simp at this
    exact ⟨hg.single, hg.sorted, hg.actLe, hg.spread, hg.shortJob, hg.actDepth, fun hc => absurd hc hnc, hg.awake,
      fun _ => hact, hg.recTerm, fun hc => absurd hc hnc⟩
  · exact hg

theorem ginv_dropJob (i : Nat) {s : St σ κ} (hg : GInv P s) : GInv P (stepDropJob P i s) := by
  unfold stepDropJob
  by_cases hc : (s.stopped || allDiscovered P s) = true
  · rw [if_pos hc]
    split
    · exact hg
    · have hnc : ¬ Calm P ({ s with frontier := s.frontier.eraseIdx i, early := true } : St σ κ) := by
        intro hcalm
        simp only [Bool.or_eq_true] at hc
        rcases hc with h | h
        · have := hcalm.1; simp only at this; rw [h] at this; cases this
        · exact not_calm_of_allDisc h ⟨hcalm.1, hcalm.2⟩
      have hsub : ∀ x ∈ s.frontier.eraseIdx i, x ∈ s.frontier := fun x hx => List.mem_of_mem_eraseIdx hx
      have hjobs : ∀ x ∈ jobsOf ({ s with frontier := s.frontier.eraseIdx i, early := true } : St σ κ), x ∈ jobsOf s := by
        intro x hx
        rw [mem_jobsOf] at hx ⊢
        rcases hx with hx | hx
        · exact Or.inl (hsub x hx)
        · exact Or.inr hx
      exact ⟨hg.single, hg.sorted.sublist ((List.eraseIdx_sublist _ _).map _),
        fun a ha j hj => hg.actLe a ha j (hsub j hj),
        fun h j hj j' hj' => hg.spread h j (hsub j hj) j' (hsub j' hj'),
        fun x hx => hg.shortJob x (hjobs x hx), hg.actDepth, fun hc' => absurd hc' hnc, hg.awake, hg.noActStopped,
        hg.recTerm, fun hc' => absurd hc' hnc⟩
  · rw [if_neg hc]; exact hg

theorem ginv_abandon (w : Nat) {s : St σ κ} (hg : GInv P s) : GInv P (stepAbandon w s) := by
  unfold stepAbandon
  split
  · rename_i hst
    rw [hg.noActStopped hst]; simp; exact hg
  · exact hg

theorem ginv_step (c : Choice) {s : St σ κ} (hx : DCtx (P := P) s) (hg : GInv P s) (hf : FifoOk s c) :
    GInv P (step P c s) := by
  cases c with
  | take i => obtain ⟨rfl, h1, h2⟩ := hf; exact ginv_take hx hg h1 h2
  | evalProp w b => obtain ⟨rfl, rfl⟩ := hf; exact ginv_evalProp hg
  | finishProps w => cases hf; exact ginv_finishProps hx hg
  | expand w f => obtain ⟨rfl, rfl⟩ := hf; exact ginv_expand hx hg
  | record w => cases hf; exact ginv_record hx hg
  | stop why => exact ginv_stop why hg hf
  | dropJob i => exact ginv_dropJob i hg
  | abandon w => exact ginv_abandon w hg

theorem dctx_step (c : Choice) {s : St σ κ} (hx : DCtx (P := P) s) : DCtx (P := P) (step P c s) :=
  ⟨hx.inj, sinv_step c hx.sinv, vinv_step c hx.vinv⟩

theorem ginv_runFrom (s : St σ κ) (hx : DCtx (P := P) s) (hg : GInv P s) (cs : List Choice) (hf : FifoRun P s cs) :
    GInv P (runFrom P s cs) ∧ DCtx (P := P) (runFrom P s cs) := by
  unfold runFrom
  induction cs generalizing s with
  | nil => exact ⟨hg, hx⟩
  | cons c cs ih =>
    simp only [List.foldl_cons]
    exact ih _ (dctx_step c hx) (ginv_step c hx hg hf.1) hf.2

/-- **single-threaded BFS with a depth limit evaluates every state nearer than the limit**: in a completed
    FIFO single-worker run during which no worker stopped and not every property was discovered, every state with an
    in-boundary path of FEWER than `d` states from an initial state is done (evaluated and expanded). -/
theorem bfs_depth_complete (hinj : ∀ a b, P.M.Reach a → P.M.Reach b → P.key a = P.key b → a = b)
    (cs : List Choice) (hf : FifoRun P (init P.M P.props P.key) cs)
    (hq : Quiescent (run P cs)) (hc : Calm P (run P cs))
    (d : Nat) (hd : P.cfg.maxDepth = some d) :
    ∀ q t, P.M.IsPath q → q.getLast? = some t → q.length < d → t ∈ (run P cs).done := by
  have hrun := ginv_runFrom (P := P) _ ⟨hinj, sinv_init, vinv_init⟩ ginv_init cs hf
  change GInv P (run P cs) ∧ DCtx (P := P) (run P cs) at hrun
  obtain ⟨hg, hx⟩ := hrun
  intro q t hq' hl hlt
  have hk : P.key t ∈ (run P cs).gen := by
    refine hg.lower hc q t hq' hl ?_ (fun d' hd' => by rw [hd] at hd'; cases hd'; omega)
    intro j hj
    rw [mem_jobsOf, hq.1, hq.2] at hj
    simp at hj
  have c := hg.dc hc
  have htr : P.M.Reach t := Sys.reach_last_of_isPath hq' hl
  rcases c.genJob _ hk with ⟨u, hu, hku⟩ | ⟨d', hd', u, hku, hur, hdeep⟩
  · rw [mem_jobStates, hq.1, hq.2] at hu
    simp at hu
    have : u = t := hinj _ _ (c.doneReach u hu) htr hku
    rwa [this] at hu
  · exfalso
    rw [hd] at hd'; cases hd'
    have : u = t := hinj _ _ hur htr hku
    subst this
    have := hdeep q hq' hl
    omega

end
end SR.Checker
