import SR.Basic
/-! Lemmas about `Chain` / `IsPath`. -/
namespace SR.Sys
variable {σ α : Type} {M : Sys σ α}

theorem chain_append_one {p : List σ} {s t : σ} (hc : M.Chain p) (hl : p.getLast? = some s)
    (ht : t ∈ M.succB s) : M.Chain (p ++ [t]) := by
  induction p with
  | nil => simp at hl
  | cons x xs ih =>
    cases xs with
    | nil =>
      simp at hl; subst hl
      exact ⟨ht, trivial⟩
    | cons y ys =>
      have hl' : (y :: ys).getLast? = some s := by simpa [List.getLast?_cons_cons] using hl
      exact ⟨hc.1, ih hc.2 hl'⟩

theorem isPath_singleton {s : σ} (h : s ∈ M.initB) : M.IsPath [s] := ⟨s, [], rfl, h, trivial⟩

theorem isPath_append_one {p : List σ} {s t : σ} (hp : M.IsPath p) (hl : p.getLast? = some s)
    (ht : t ∈ M.succB s) : M.IsPath (p ++ [t]) := by
  obtain ⟨x, rest, rfl, hx, hc⟩ := hp
  exact ⟨x, rest ++ [t], rfl, hx, chain_append_one hc hl ht⟩

theorem isPath_ne_nil {p : List σ} (hp : M.IsPath p) : p ≠ [] := by
  obtain ⟨x, rest, rfl, _, _⟩ := hp; simp

theorem chain_mem_inB {p : List σ} (hc : M.Chain p) (h0 : ∀ s, p.head? = some s → M.inB s = true) :
    ∀ s ∈ p, M.inB s = true := by
  induction p with
  | nil => simp
  | cons x xs ih =>
    intro s hs
    rcases List.mem_cons.1 hs with rfl | hs
    · exact h0 _ rfl
    · cases xs with
      | nil => simp at hs
      | cons y ys =>
        apply ih hc.2 _ s hs
        intro s' hs'
        simp at hs'; subst hs'
        exact (mem_succB.1 hc.1).2

theorem mem_initB {s : σ} : s ∈ M.initB ↔ s ∈ M.init ∧ M.inB s = true := by
  simp [initB, List.mem_filter]

/-- every state of a path is reachable -/
theorem reach_of_chain {p : List σ} {x : σ} (hx : M.Reach x) (hc : M.Chain (x :: p)) :
    ∀ s ∈ x :: p, M.Reach s := by
  induction p generalizing x with
  | nil => intro s hs; simp at hs; subst hs; exact hx
  | cons y ys ih =>
    intro s hs
    rcases List.mem_cons.1 hs with rfl | hs
    · exact hx
    · exact ih (Reach.step hx hc.1) hc.2 s hs

theorem reach_of_isPath {p : List σ} (hp : M.IsPath p) : ∀ s ∈ p, M.Reach s := by
  obtain ⟨x, rest, rfl, hx, hc⟩ := hp
  exact reach_of_chain (Reach.init hx) hc

theorem reach_last_of_isPath {p : List σ} {s : σ} (hp : M.IsPath p) (hl : p.getLast? = some s) : M.Reach s :=
  reach_of_isPath hp s (List.mem_of_getLast? hl)

/-- a reachable state is the end of a real path -/
theorem exists_path_of_reach {s : σ} (h : M.Reach s) : ∃ p, M.IsPath p ∧ p.getLast? = some s := by
  induction h with
  | init h => exact ⟨[_], isPath_singleton h, rfl⟩
  | step _ ht ih =>
    obtain ⟨p, hp, hl⟩ := ih
    exact ⟨p ++ [_], isPath_append_one hp hl ht, by simp⟩

theorem chain_snoc_inv {p : List σ} {t : σ} (hne : p ≠ []) (hc : M.Chain (p ++ [t])) :
    M.Chain p ∧ ∃ u, p.getLast? = some u ∧ t ∈ M.succB u := by
  induction p with
  | nil => exact absurd rfl hne
  | cons x xs ih =>
    cases xs with
    | nil => exact ⟨trivial, x, rfl, hc.1⟩
    | cons y ys =>
      have h2 := ih (by simp) hc.2
      exact ⟨⟨hc.1, h2.1⟩, by simpa [List.getLast?_cons_cons] using h2.2⟩

/-- a path of at least two states is a shorter path extended by one in-boundary step -/
theorem isPath_snoc_inv {p : List σ} {t : σ} (hne : p ≠ []) (hp : M.IsPath (p ++ [t])) :
    M.IsPath p ∧ ∃ u, p.getLast? = some u ∧ t ∈ M.succB u := by
  obtain ⟨x, rest, heq, hx, hc⟩ := hp
  cases p with
  | nil => exact absurd rfl hne
  | cons y ys =>
    simp only [List.cons_append, List.cons.injEq] at heq
    obtain ⟨rfl, _⟩ := heq
    have := chain_snoc_inv (M := M) (p := y :: ys) (t := t) (by simp) (by simpa using hc)
    exact ⟨⟨y, ys, rfl, hx, this.1⟩, this.2⟩

end SR.Sys
