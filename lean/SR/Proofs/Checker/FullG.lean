import SR.Proofs.Checker.FullF
/-! The concurrent checker never gets stuck: as long as some worker thread is still there, a worker that is RUNNING has an
enabled step, or a worker that waits has been NOTIFIED and can wake — never "everybody sleeps, nobody will call".
(Composition of the market's no-lost-wake-up invariant with the product.) -/
namespace SR.Full
open SR SR.Checker SR.Market

section
variable {σ κ α : Type} [DecidableEq κ] {P : Params σ κ α}

theorem pop_enabled (x : FState σ κ) (w : Nat) (hrun : x.m.pcs[w]? = some Pc.running) (hloc : locOf x.m w = [])
    (hnaw : w ∉ x.aw) : ∃ r, fstep P x (.pop w) = some r := by
  simp only [fstep]
  rw [if_pos ⟨hloc, hnaw⟩]
  have : ∃ m', Market.step x.m (.popBegin w) = some m' := by
    unfold Market.step
    simp only [stepR, hrun, if_true]
    split
    · exact ⟨_, rfl⟩
    · exact ⟨_, rfl⟩
  obtain ⟨m', hm⟩ := this
  exact ⟨_, by rw [hm]; rfl⟩

theorem wake_enabled (x : FState σ κ) (w : Nat) (b : Bool) (hp : x.m.pcs[w]? = some (Pc.parked b)) :
    ∃ r, fstep P x (.wake w) = some r := by
  simp only [fstep]
  have : ∃ m', Market.step x.m (.wake w) = some m' := by
    unfold Market.step
    simp only [stepR, hp]
    exact ⟨_, rfl⟩
  obtain ⟨m', hm⟩ := this
  exact ⟨_, by rw [hm]; rfl⟩

theorem rearrange_enabled (m : MState) (w : Nat) (l : List Tok) (hrun : m.pcs[w]? = some Pc.running)
    (hperm : l.Perm (m.locs.getD w [])) :
    Market.step m (.rearrange w l) = some { m with locs := m.locs.set w l } := by
  have hc : (decide (m.pcs[w]? = some Pc.running) && l.isPerm (m.locs.getD w [])) = true := by
    rw [Bool.and_eq_true]; exact ⟨by simp [hrun], List.isPerm_iff.2 hperm⟩
  unfold Market.step
  simp only [stepR]
  rw [if_pos hc]; rfl

theorem work_nofresh_enabled (m : MState) (w c : Nat) (hrun : m.pcs[w]? = some Pc.running) :
    ∃ m', Market.step m (.work w c []) = some m' := by
  have hc : (decide (m.pcs[w]? = some Pc.running) && freshOk m []) = true := by
    rw [Bool.and_eq_true]; exact ⟨by simp [hrun], by simp [freshOk, nodupB]⟩
  unfold Market.step
  simp only [stepR]
  rw [if_pos hc]
  exact ⟨_, rfl⟩

theorem take_enabled (x : FState σ κ) (inv : FInv x) (w : Nat) (hrun : x.m.pcs[w]? = some Pc.running)
    (t : Tok) (ht : (locOf x.m w)[0]? = some t) (hnaw : w ∉ x.aw) : ∃ r, fstep P x (.take w 0) = some r := by
  simp only [fstep, ht]
  rw [if_neg hnaw]
  have hperm : ((locOf x.m w).eraseIdx 0 ++ [t]).Perm (x.m.locs.getD w []) :=
    (List.perm_append_comm.trans (by simp)).trans (Checker.perm_eraseIdx ht).symm
  have h1 := rearrange_enabled x.m w _ hrun hperm
  obtain ⟨m', hm'⟩ := work_nofresh_enabled { x.m with locs := x.m.locs.set w ((locOf x.m w).eraseIdx 0 ++ [t]) } w 1 hrun
  have : mseq x.m [Step.rearrange w ((locOf x.m w).eraseIdx 0 ++ [t]), Step.work w 1 []] = some m' := by
    simp only [mseq, h1, Option.bind_some, hm']
  exact ⟨_, by rw [this]; rfl⟩

theorem onJob_enabled (x : FState σ κ) (w : Nat) (hw : w ∈ x.aw) : ∃ r, fstep P x (.evalProp w false) = some r := by
  simp only [fstep, onJob, if_pos hw]
  exact ⟨_, rfl⟩

/-- a worker that is running always has an enabled step -/
theorem running_enabled (x : FState σ κ) (inv : FInv x) (w : Nat) (hrun : x.m.pcs[w]? = some Pc.running) :
    ∃ f r, fstep P x f = some r ∧ (f = .pop w ∨ f = .take w 0 ∨ f = .evalProp w false) := by
  by_cases hw : w ∈ x.aw
  · obtain ⟨r, hr⟩ := onJob_enabled (P := P) x w hw
    exact ⟨_, r, hr, Or.inr (Or.inr rfl)⟩
  · cases hl : locOf x.m w with
    | nil =>
      obtain ⟨r, hr⟩ := pop_enabled (P := P) x w hrun hl hw
      exact ⟨_, r, hr, Or.inl rfl⟩
    | cons t tl =>
      obtain ⟨r, hr⟩ := take_enabled (P := P) x inv w hrun t (by rw [hl]; rfl) hw
      exact ⟨_, r, hr, Or.inr (Or.inl rfl)⟩

/-- **never stuck**: some worker not yet gone ⇒ a running worker has an enabled step, or a notified waiter can wake -/
theorem not_stuck (x : FState σ κ) (inv : FInv x) (h : ¬ allExited x) :
    (∃ w f r, x.m.pcs[w]? = some Pc.running ∧ fstep P x f = some r ∧
        (f = .pop w ∨ f = .take w 0 ∨ f = .evalProp w false)) ∨
    (∃ w r, x.m.pcs[w]? = some (Pc.parked true) ∧ fstep P x (.wake w) = some r) := by
  have hex : ∃ p ∈ x.m.pcs, p ≠ Pc.exited := by
    apply Classical.byContradiction
    intro hn
    apply h
    intro p hp
    apply Classical.byContradiction
    intro hne
    exact hn ⟨p, hp, hne⟩
  obtain ⟨p, hp, hne⟩ := hex
  have fromRunning : Pc.running ∈ x.m.pcs →
      (∃ w f r, x.m.pcs[w]? = some Pc.running ∧ fstep P x f = some r ∧
        (f = .pop w ∨ f = .take w 0 ∨ f = .evalProp w false)) := fun hr => by
    obtain ⟨w, hw⟩ := List.getElem?_of_mem hr
    obtain ⟨f, r, hf, hk⟩ := running_enabled (P := P) x inv w hw
    exact ⟨w, f, r, hw, hf, hk⟩
  have fromNotified : Pc.parked true ∈ x.m.pcs →
      (∃ w r, x.m.pcs[w]? = some (Pc.parked true) ∧ fstep P x (.wake w) = some r) := fun hr => by
    obtain ⟨w, hw⟩ := List.getElem?_of_mem hr
    obtain ⟨r, hr'⟩ := wake_enabled (P := P) x w true hw
    exact ⟨w, r, hw, hr'⟩
  cases p with
  | running => exact Or.inl (fromRunning hp)
  | exited => exact absurd rfl hne
  | parked b =>
    cases b with
    | true => exact Or.inr (fromNotified hp)
    | false =>
      rcases inv.mi.p.noLost hp with hr | hn
      · exact Or.inl (fromRunning hr)
      · exact Or.inr (fromNotified hn)

end
end SR.Full
