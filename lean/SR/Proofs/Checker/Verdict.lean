import SR.Proofs.Checker.Sound
/-!
Verdict invariant: a state whose evaluation has passed property `i` and that is a witness for `i`
(violates an always-property / satisfies a sometimes-property) has left a discovery for `i`.
Also: a worker whose `is_awaiting_discoveries` flag is still false has seen a discovery for every property
it has passed (used for "early exit only when everything is discovered").
-/
namespace SR.Checker
open SR

section
variable {σ κ α : Type} [DecidableEq κ]
variable (P : Params σ κ α)

/-- `u` is a witness for property `pr` (always violated / sometimes satisfied) -/
def Wit (pr : Prop' σ) (u : σ) : Prop :=
  (pr.exp = .always ∧ pr.cond u = false) ∨ (pr.exp = .sometimes ∧ pr.cond u = true)

/-- how many properties the worker has passed -/
def passed (a : Active σ) : Nat :=
  match a.phase with
  | .props k _ => k
  | _ => P.props.length

structure VInv (s : St σ κ) : Prop where
  ac : ∀ a ∈ s.active, ∀ i pr, P.props[i]? = some pr → i < passed P a → Wit pr a.job.st → hasDisc s.disc i = true
  done : ∀ u ∈ s.done, ∀ i pr, P.props[i]? = some pr → Wit pr u → hasDisc s.disc i = true
  aw : ∀ a ∈ s.active, ∀ k, a.phase = .props k false → ∀ i, i < k → i < P.props.length → hasDisc s.disc i = true

variable {P}

theorem hasDisc_insert (d : List (Nat × List σ)) (i k : Nat) (p : List σ) :
    hasDisc (discInsert d i p) k = (k == i || hasDisc d k) := by
  unfold hasDisc discInsert
  simp only [List.any_cons, List.any_filter]
  by_cases hki : k = i
  · subst hki; simp
  · have : (i == k) = false := by simp; exact fun e => hki e.symm
    simp only [this, Bool.false_or]
    have hk : (k == i) = false := by simp [hki]
    rw [hk, Bool.false_or]
    congr 1
    funext e
    by_cases he : e.1 = k
    · simp [he, hki]
    · simp [he]

theorem hasDisc_insert_mono {d : List (Nat × List σ)} {i k : Nat} {p : List σ} (h : hasDisc d k = true) :
    hasDisc (discInsert d i p) k = true := by
  rw [hasDisc_insert, h]; simp

theorem hasDisc_insert_self (d : List (Nat × List σ)) (i : Nat) (p : List σ) :
    hasDisc (discInsert d i p) i = true := by
  rw [hasDisc_insert]; simp

theorem vinv_init : VInv P (init P.M P.props P.key) := by
  refine ⟨by simp [init], by simp [init], by simp [init]⟩

theorem vinv_take (i : Nat) {s : St σ κ} (h : VInv P s) : VInv P (stepTake P i s) := by
  unfold stepTake
  split
  · exact h
  · rename_i j hj
    dsimp only
    have hv : VInv P { s with frontier := s.frontier.eraseIdx i, maxDepth := max s.maxDepth j.depth, visits := j.path :: s.visits, active := s.active ++ [{ job := j, phase := .props 0 false }] } := by
      refine ⟨?_, h.done, ?_⟩
      · intro a ha k pr hpr hlt hw
        rcases List.mem_append.1 ha with ha | ha
        · exact h.ac a ha k pr hpr hlt hw
        · simp at ha; subst ha; simp [passed] at hlt
      · intro a ha k hph n hn hlen
        rcases List.mem_append.1 ha with ha | ha
        · exact h.aw a ha k hph n hn hlen
        · simp at ha; subst ha; simp at hph; omega
    split
    · split
      · exact ⟨h.ac, h.done, h.aw⟩
      · exact hv
    · exact hv

/-- the discoveries grow (or stay) and worker `w` is replaced -/
theorem vinv_set_active {s : St σ κ} (h : VInv P s) (w : Nat) (a a' : Active σ) (ha : s.active[w]? = some a)
    (hst : a'.job.st = a.job.st) (disc' : List (Nat × List σ))
    (hmono : ∀ k, hasDisc s.disc k = true → hasDisc disc' k = true)
    (hac : ∀ i pr, P.props[i]? = some pr → i < passed P a' → Wit pr a.job.st → hasDisc disc' i = true)
    (haw : ∀ k, a'.phase = .props k false → ∀ i, i < k → i < P.props.length → hasDisc disc' i = true) :
    VInv P { s with active := s.active.set w a', disc := disc' } := by
  refine ⟨?_, fun u hu i pr hpr hw => hmono _ (h.done u hu i pr hpr hw), ?_⟩
  · intro x hx i pr hpr hlt hw
    rcases mem_set_cases hx with hx | rfl
    · exact hmono _ (h.ac x hx i pr hpr hlt hw)
    · rw [hst] at hw; exact hac i pr hpr hlt hw
  · intro x hx k hph i hi hlen
    rcases mem_set_cases hx with hx | rfl
    · exact hmono _ (h.aw x hx k hph i hi hlen)
    · exact haw k hph i hi hlen

theorem vinv_evalProp (w : Nat) (b : Bool) {s : St σ κ} (h : VInv P s) : VInv P (stepEvalProp P w b s) := by
  unfold stepEvalProp
  split
  · rename_i j i aw ha
    have ham : (⟨j, .props i aw⟩ : Active σ) ∈ s.active := List.mem_of_getElem? ha
    have hold : ∀ k pr, P.props[k]? = some pr → k < i → Wit pr j.st → hasDisc s.disc k = true :=
      fun k pr hpr hlt hw => h.ac _ ham k pr hpr (by simpa [passed] using hlt) hw
    have holdaw : aw = false → ∀ k, k < i → k < P.props.length → hasDisc s.disc k = true :=
      fun e k hk hlen => h.aw _ ham i (by rw [e]) k hk hlen
    split
    · exact h
    · rename_i p hp
      -- generic closing argument: after the step property `i` is decided as required
      have close : ∀ (a' : Active σ) (disc' : List (Nat × List σ)), a'.job.st = j.st →
          (∃ aw', a'.phase = .props (i+1) aw' ∧ (aw' = false → aw = false ∧ hasDisc disc' i = true)) →
          (∀ k, hasDisc s.disc k = true → hasDisc disc' k = true) →
          (Wit p j.st → hasDisc disc' i = true) →
          VInv P { s with active := s.active.set w a', disc := disc' } := by
        intro a' disc' hst ⟨aw', hph, hawc⟩ hmono hwit
        refine vinv_set_active h w _ a' ha hst disc' hmono ?_ ?_
        · intro k pr hpr hlt hw
          simp only [passed, hph] at hlt
          by_cases hki : k = i
          · subst hki; rw [hp] at hpr; cases hpr; exact hwit hw
          · exact hmono _ (hold k pr hpr (by omega) hw)
        · intro k hk n hn hlen
          rw [hph] at hk
          cases hk
          obtain ⟨e1, e2⟩ := hawc rfl
          by_cases hni : n = i
          · subst hni; exact e2
          · exact hmono _ (holdaw e1 n (by omega) hlen)
      split
      · rename_i hpres
        have hd : hasDisc s.disc i = true := by
          simp only [Bool.and_eq_true] at hpres; exact hpres.1
        exact close ⟨_, .props (i+1) aw⟩ s.disc rfl ⟨aw, rfl, fun e => ⟨e, hd⟩⟩ (fun _ hk => hk) (fun _ => hd)
      · split
        · rename_i hexp
          split
          · exact close ⟨_, .props (i+1) aw⟩ _ rfl ⟨aw, rfl, fun e => ⟨e, hasDisc_insert_self _ _ _⟩⟩
              (fun _ hk => hasDisc_insert_mono hk) (fun _ => hasDisc_insert_self _ _ _)
          · rename_i hc
            refine close ⟨_, .props (i+1) true⟩ s.disc rfl ⟨true, rfl, fun e => by cases e⟩ (fun _ hk => hk) ?_
            rintro (⟨_, hcf⟩ | ⟨he, _⟩)
            · simp [hcf] at hc
            · rw [hexp] at he; cases he
        · rename_i hexp
          split
          · exact close ⟨_, .props (i+1) aw⟩ _ rfl ⟨aw, rfl, fun e => ⟨e, hasDisc_insert_self _ _ _⟩⟩
              (fun _ hk => hasDisc_insert_mono hk) (fun _ => hasDisc_insert_self _ _ _)
          · rename_i hc
            refine close ⟨_, .props (i+1) true⟩ s.disc rfl ⟨true, rfl, fun e => by cases e⟩ (fun _ hk => hk) ?_
            rintro (⟨he, _⟩ | ⟨_, hct⟩)
            · rw [hexp] at he; cases he
            · exact absurd hct hc
        · rename_i hexp
          refine close ⟨_, .props (i+1) true⟩ s.disc (by dsimp only; split <;> rfl) ⟨true, rfl, fun e => by cases e⟩ (fun _ hk => hk) ?_
          rintro (⟨he, _⟩ | ⟨he, _⟩) <;> (rw [hexp] at he; cases he)
  · exact h

theorem vinv_erase_active {s : St σ κ} (h : VInv P s) (w : Nat) :
    (∀ a ∈ s.active.eraseIdx w, ∀ i pr, P.props[i]? = some pr → i < passed P a → Wit pr a.job.st → hasDisc s.disc i = true) ∧
    (∀ a ∈ s.active.eraseIdx w, ∀ k, a.phase = .props k false → ∀ i, i < k → i < P.props.length → hasDisc s.disc i = true) :=
  ⟨fun a ha => h.ac a (List.mem_of_mem_eraseIdx ha), fun a ha => h.aw a (List.mem_of_mem_eraseIdx ha)⟩

theorem vinv_finishProps (w : Nat) {s : St σ κ} (h : VInv P s) : VInv P (stepFinishProps P w s) := by
  unfold stepFinishProps
  split
  · rename_i j i aw ha
    have ham : (⟨j, .props i aw⟩ : Active σ) ∈ s.active := List.mem_of_getElem? ha
    split
    · exact h
    · rename_i hge
      have hall : ∀ k pr, P.props[k]? = some pr → Wit pr j.st → hasDisc s.disc k = true := by
        intro k pr hpr hw
        have hlt : k < P.props.length := (List.getElem?_eq_some_iff.1 hpr).1
        exact h.ac _ ham k pr hpr (by simp only [passed]; omega) hw
      split
      · exact ⟨(vinv_erase_active h w).1, h.done, (vinv_erase_active h w).2⟩
      · split
        · exact vinv_set_active h w _ ⟨j, .recording 0⟩ ha rfl s.disc (fun _ hk => hk)
            (fun k pr hpr _ hw => hall k pr hpr hw) (by intro k hk; cases hk)
        · exact vinv_set_active h w _ ⟨j, .expanding _⟩ ha rfl s.disc (fun _ hk => hk)
            (fun k pr hpr _ hw => hall k pr hpr hw) (by intro k hk; cases hk)
  · exact h

/-- a worker past the property loop retires -/
theorem vinv_retire {s : St σ κ} (h : VInv P s) (w : Nat) (a : Active σ) (ha : s.active[w]? = some a)
    (hp : passed P a = P.props.length) :
    VInv P { s with active := s.active.eraseIdx w, done := a.job.st :: s.done } := by
  have ham : a ∈ s.active := List.mem_of_getElem? ha
  refine ⟨(vinv_erase_active h w).1, ?_, (vinv_erase_active h w).2⟩
  intro u hu i pr hpr hw
  rcases List.mem_cons.1 hu with rfl | hu
  · exact h.ac a ham i pr hpr (by rw [hp]; exact (List.getElem?_eq_some_iff.1 hpr).1) hw
  · exact h.done u hu i pr hpr hw

theorem vinv_expand (w : Nat) (f : Bool) {s : St σ κ} (h : VInv P s) : VInv P (stepExpand P w f s) := by
  unfold stepExpand
  split
  · rename_i j rest ha
    have ham : (⟨j, .expanding rest⟩ : Active σ) ∈ s.active := List.mem_of_getElem? ha
    split
    · exact vinv_retire h w _ ha rfl
    · rename_i t rest'
      dsimp only
      have hset := vinv_set_active h w _ ⟨j, .expanding rest'⟩ ha rfl s.disc (fun _ hk => hk)
        (fun k pr hpr _ hw => h.ac _ ham k pr hpr (by simp only [passed]; exact (List.getElem?_eq_some_iff.1 hpr).1) hw)
        (by intro k hk; cases hk)
      split
      · exact ⟨hset.ac, hset.done, hset.aw⟩
      · exact ⟨hset.ac, hset.done, hset.aw⟩
  · exact h

theorem vinv_record (w : Nat) {s : St σ κ} (h : VInv P s) : VInv P (stepRecord P w s) := by
  unfold stepRecord
  split
  · rename_i j i ha
    have ham : (⟨j, .recording i⟩ : Active σ) ∈ s.active := List.mem_of_getElem? ha
    have hall : ∀ k pr, P.props[k]? = some pr → Wit pr j.st → hasDisc s.disc k = true :=
      fun k pr hpr hw => h.ac _ ham k pr hpr (by simp only [passed]; exact (List.getElem?_eq_some_iff.1 hpr).1) hw
    split
    · dsimp only
      split
      · exact vinv_set_active h w _ ⟨j, .recording (i+1)⟩ ha rfl _ (fun _ hk => hasDisc_insert_mono hk)
          (fun k pr hpr _ hw => hasDisc_insert_mono (hall k pr hpr hw)) (by intro k hk; cases hk)
      · exact vinv_set_active h w _ ⟨j, .recording (i+1)⟩ ha rfl s.disc (fun _ hk => hk)
          (fun k pr hpr _ hw => hall k pr hpr hw) (by intro k hk; cases hk)
    · exact vinv_retire h w _ ha rfl
  · exact h

theorem vinv_stop (why : Why) {s : St σ κ} (h : VInv P s) : VInv P (stepStop P why s) := by
  unfold stepStop; split
  · exact ⟨h.ac, h.done, h.aw⟩
  · exact h

theorem vinv_dropJob (i : Nat) {s : St σ κ} (h : VInv P s) : VInv P (stepDropJob P i s) := by
  unfold stepDropJob; split
  · split
    · exact h
    · exact ⟨h.ac, h.done, h.aw⟩
  · exact h

theorem vinv_abandon (w : Nat) {s : St σ κ} (h : VInv P s) : VInv P (stepAbandon w s) := by
  unfold stepAbandon; split
  · split
    · exact h
    · exact ⟨(vinv_erase_active h w).1, h.done, (vinv_erase_active h w).2⟩
  · exact h

theorem vinv_step (c : Choice) {s : St σ κ} (h : VInv P s) : VInv P (step P c s) := by
  cases c with
  | take i => exact vinv_take i h
  | evalProp w b => exact vinv_evalProp w b h
  | finishProps w => exact vinv_finishProps w h
  | expand w f => exact vinv_expand w f h
  | record w => exact vinv_record w h
  | stop why => exact vinv_stop why h
  | dropJob i => exact vinv_dropJob i h
  | abandon w => exact vinv_abandon w h

theorem vinv_run (cs : List Choice) : VInv P (run P cs) :=
  runFrom_induction (VInv P) (fun c _ h => vinv_step c h) _ vinv_init cs

end
end SR.Checker
