import SR.Proofs.Checker.Sound
/-!
Closure invariant of the checker machine: as long as no job was dropped (`early = false`), every generated
key belongs to a job that is pending, being worked on, or done; the successors of every done state are
generated; the already-handled successors of every state under expansion are generated.
At quiescence this yields: every reachable state is (equivalent to) a done state.
-/
namespace SR.Checker
open SR

section
variable {σ κ α : Type} [DecidableEq κ]
variable (P : Params σ κ α)

def jobStates (s : St σ κ) : List σ := s.frontier.map (·.st) ++ s.active.map (·.job.st) ++ s.done

structure Closure (s : St σ κ) : Prop where
  initIn : ∀ t ∈ P.M.initB, P.key t ∈ s.gen
  genJob : ∀ k ∈ s.gen, ∃ u ∈ jobStates s, P.key u = k
  doneCl : ∀ t ∈ s.done, ∀ t' ∈ P.M.succB t, P.key t' ∈ s.gen
  actExp : ∀ a ∈ s.active, ∀ rest, a.phase = .expanding rest →
              ∀ t' ∈ P.M.succB a.job.st, t' ∈ rest ∨ P.key t' ∈ s.gen
  actRec : ∀ a ∈ s.active, ∀ i, a.phase = .recording i → P.M.succB a.job.st = []
  doneReach : ∀ t ∈ s.done, P.M.Reach t

def CInv (s : St σ κ) : Prop := s.early = false → Closure P s

variable {P}

theorem genInit_spec (key : σ → κ) (is : List σ) (g : List κ) :
    (∀ k ∈ g, k ∈ genInit key is g) ∧ (∀ t ∈ is, key t ∈ genInit key is g) ∧
    (∀ k ∈ genInit key is g, k ∈ g ∨ ∃ t ∈ is, key t = k) := by
  induction is generalizing g with
  | nil => simp [genInit]
  | cons s ss ih =>
    unfold genInit
    obtain ⟨h1, h2, h3⟩ := ih (if key s ∈ g then g else g ++ [key s])
    refine ⟨?_, ?_, ?_⟩
    · intro k hk; apply h1; split
      · exact hk
      · exact List.mem_append_left _ hk
    · intro t ht
      rcases List.mem_cons.1 ht with rfl | ht
      · apply h1; split
        · assumption
        · simp
      · exact h2 t ht
    · intro k hk
      rcases h3 k hk with h | ⟨t, ht, rfl⟩
      · split at h
        · exact Or.inl h
        · rcases List.mem_append.1 h with h | h
          · exact Or.inl h
          · simp at h; subst h; exact Or.inr ⟨s, List.mem_cons_self, rfl⟩
      · exact Or.inr ⟨t, List.mem_cons_of_mem _ ht, rfl⟩

theorem cinv_init : CInv P (init P.M P.props P.key) := by
  intro _
  obtain ⟨_, h2, h3⟩ := genInit_spec P.key P.M.initB []
  refine ⟨h2, ?_, by simp [init], by simp [init], by simp [init], by simp [init]⟩
  intro k hk
  rcases h3 k hk with h | ⟨t, ht, rfl⟩
  · simp at h
  · refine ⟨t, ?_, rfl⟩
    simp only [jobStates, init, List.map_map, List.map_nil, List.append_nil, List.mem_map, List.mem_reverse,
      Function.comp]
    exact ⟨t, ht, rfl⟩

theorem mem_jobStates {s : St σ κ} {u : σ} :
    u ∈ jobStates s ↔ (∃ j ∈ s.frontier, j.st = u) ∨ (∃ a ∈ s.active, a.job.st = u) ∨ u ∈ s.done := by
  simp [jobStates, List.mem_append, List.mem_map, or_assoc]

theorem cinv_take (i : Nat) {s : St σ κ} (h : CInv P s) : CInv P (stepTake P i s) := by
  unfold stepTake
  split
  · exact h
  · rename_i j hj
    have hjm : j ∈ s.frontier := List.mem_of_getElem? hj
    have moved : Closure P s → Closure P { s with frontier := s.frontier.eraseIdx i, maxDepth := max s.maxDepth j.depth, visits := j.path :: s.visits, active := s.active ++ [{ job := j, phase := .props 0 false }] } := by
      intro c
      refine ⟨c.initIn, ?_, c.doneCl, ?_, ?_, c.doneReach⟩
      · intro k hk
        obtain ⟨u, hu, rfl⟩ := c.genJob k hk
        refine ⟨u, ?_, rfl⟩
        rw [mem_jobStates] at hu ⊢
        rcases hu with ⟨j', hj', rfl⟩ | hu | hu
        · by_cases hjj : j' = j
          · subst hjj; exact Or.inr (Or.inl ⟨_, List.mem_append_right _ (List.mem_singleton.2 rfl), rfl⟩)
          · left; refine ⟨j', ?_, rfl⟩
            rw [List.mem_eraseIdx_iff_getElem?]
            obtain ⟨n, hn⟩ := List.getElem?_of_mem hj'
            exact ⟨n, fun e => hjj (by subst e; rw [hj] at hn; exact (Option.some.inj hn).symm), hn⟩
        · obtain ⟨a, ha, rfl⟩ := hu
          exact Or.inr (Or.inl ⟨a, List.mem_append_left _ ha, rfl⟩)
        · exact Or.inr (Or.inr hu)
      · intro a ha rest hr
        rcases List.mem_append.1 ha with ha | ha
        · exact c.actExp a ha rest hr
        · simp at ha; subst ha; simp at hr
      · intro a ha k hr
        rcases List.mem_append.1 ha with ha | ha
        · exact c.actRec a ha k hr
        · simp at ha; subst ha; simp at hr
    dsimp only
    split
    · split
      · intro he; simp at he
      · intro he; exact moved (h he)
    · intro he; exact moved (h he)

/-- replacing worker `w` by a worker in the same state keeps the closure, given the phase obligations;
    `gen` and `frontier` may grow by a new key together with its job -/
theorem closure_set_active' {s : St σ κ} (c : Closure P s) (w : Nat) (a a' : Active σ)
    (ha : s.active[w]? = some a) (hst : a'.job.st = a.job.st)
    (gen' : List κ) (frontier' : List (Job σ))
    (hg : ∀ k ∈ s.gen, k ∈ gen') (hf : ∀ j ∈ s.frontier, j ∈ frontier')
    (hnew : ∀ k ∈ gen', k ∈ s.gen ∨ ∃ j ∈ frontier', P.key j.st = k)
    (hexp : ∀ rest, a'.phase = .expanding rest → ∀ t' ∈ P.M.succB a.job.st, t' ∈ rest ∨ P.key t' ∈ gen')
    (hrec : ∀ i, a'.phase = .recording i → P.M.succB a.job.st = [])
    (disc' : List (Nat × List σ)) (n : Nat) :
    Closure P { s with active := s.active.set w a', disc := disc', gen := gen', frontier := frontier', stateCount := n } := by
  have ham : a ∈ s.active := List.mem_of_getElem? ha
  refine ⟨fun t ht => hg _ (c.initIn t ht), ?_, fun t ht t' ht' => hg _ (c.doneCl t ht t' ht'), ?_, ?_, c.doneReach⟩
  · intro k hk
    rcases hnew k hk with hk | ⟨j, hj, rfl⟩
    · obtain ⟨u, hu, rfl⟩ := c.genJob k hk
      refine ⟨u, ?_, rfl⟩
      rw [mem_jobStates] at hu ⊢
      rcases hu with ⟨j, hj, rfl⟩ | ⟨x, hx, rfl⟩ | hu
      · exact Or.inl ⟨j, hf j hj, rfl⟩
      · right; left
        obtain ⟨n, hn⟩ := List.getElem?_of_mem hx
        by_cases hnw : n = w
        · subst hnw
          rw [ha] at hn; cases hn
          exact ⟨a', List.mem_set (List.getElem?_eq_some_iff.1 ha).1 _, hst⟩
        · refine ⟨x, ?_, rfl⟩
          rw [List.mem_iff_getElem?]
          exact ⟨n, by rw [List.getElem?_set_ne (Ne.symm hnw)]; exact hn⟩
      · exact Or.inr (Or.inr hu)
    · exact ⟨j.st, by rw [mem_jobStates]; exact Or.inl ⟨j, hj, rfl⟩, rfl⟩
  · intro x hx rest hr t' ht'
    rcases mem_set_cases hx with hx | rfl
    · rcases c.actExp x hx rest hr t' ht' with h | h
      · exact Or.inl h
      · exact Or.inr (hg _ h)
    · rw [hst] at ht'; exact hexp rest hr t' ht'
  · intro x hx i hr
    rcases mem_set_cases hx with hx | rfl
    · exact c.actRec x hx i hr
    · rw [hst]; exact hrec i hr

theorem closure_set_active {s : St σ κ} (c : Closure P s) (w : Nat) (a a' : Active σ)
    (ha : s.active[w]? = some a) (hst : a'.job.st = a.job.st)
    (hexp : ∀ rest, a'.phase = .expanding rest → ∀ t' ∈ P.M.succB a.job.st, t' ∈ rest ∨ P.key t' ∈ s.gen)
    (hrec : ∀ i, a'.phase = .recording i → P.M.succB a.job.st = [])
    (disc' : List (Nat × List σ)) :
    Closure P { s with active := s.active.set w a', disc := disc' } :=
  closure_set_active' c w a a' ha hst s.gen s.frontier (fun _ h => h) (fun _ h => h) (fun _ h => Or.inl h)
    hexp hrec disc' s.stateCount

theorem cinv_evalProp (w : Nat) (b : Bool) {s : St σ κ} (h : CInv P s) : CInv P (stepEvalProp P w b s) := by
  unfold stepEvalProp
  split
  · rename_i j i aw ha
    split
    · exact h
    · split
      · intro he; exact closure_set_active (h he) w _ _ ha (by rfl) (by intro r hr; cases hr) (by intro r hr; cases hr) _
      · split
        · split
          · intro he; exact closure_set_active (h he) w _ _ ha (by rfl) (by intro r hr; cases hr) (by intro r hr; cases hr) _
          · intro he; exact closure_set_active (h he) w _ _ ha (by rfl) (by intro r hr; cases hr) (by intro r hr; cases hr) _
        · split
          · intro he; exact closure_set_active (h he) w _ _ ha (by rfl) (by intro r hr; cases hr) (by intro r hr; cases hr) _
          · intro he; exact closure_set_active (h he) w _ _ ha (by rfl) (by intro r hr; cases hr) (by intro r hr; cases hr) _
        · intro he
          exact closure_set_active (h he) w _ _ ha (by split <;> rfl) (by intro r hr; cases hr) (by intro r hr; cases hr) _
  · exact h

theorem cinv_finishProps (w : Nat) {s : St σ κ} (h : CInv P s) : CInv P (stepFinishProps P w s) := by
  unfold stepFinishProps
  split
  · rename_i j i aw ha
    split
    · exact h
    · split
      · intro he; simp at he
      · split
        · rename_i hss
          intro he
          exact closure_set_active (h he) w _ _ ha (by rfl) (by intro r hr; cases hr) (by intro r _; exact hss) _
        · rename_i ss hss
          intro he
          refine closure_set_active (h he) w _ _ ha (by rfl) ?_ (by intro r hr; cases hr) _
          intro r hr t' ht'
          cases hr
          exact Or.inl ht'
  · exact h

/-- a worker retires: its state joins `done` -/
theorem closure_retire {s : St σ κ} (c : Closure P s) (w : Nat) (a : Active σ) (ha : s.active[w]? = some a)
    (hcl : ∀ t' ∈ P.M.succB a.job.st, P.key t' ∈ s.gen) (hreach : P.M.Reach a.job.st) :
    Closure P { s with active := s.active.eraseIdx w, done := a.job.st :: s.done } := by
  refine ⟨c.initIn, ?_, ?_, ?_, ?_, ?_⟩
  · intro k hk
    obtain ⟨u, hu, rfl⟩ := c.genJob k hk
    refine ⟨u, ?_, rfl⟩
    rw [mem_jobStates] at hu ⊢
    rcases hu with hu | ⟨x, hx, rfl⟩ | hu
    · exact Or.inl hu
    · obtain ⟨n, hn⟩ := List.getElem?_of_mem hx
      by_cases hnw : n = w
      · subst hnw; rw [ha] at hn; cases hn
        exact Or.inr (Or.inr List.mem_cons_self)
      · right; left; refine ⟨x, ?_, rfl⟩
        rw [List.mem_eraseIdx_iff_getElem?]; exact ⟨n, hnw, hn⟩
    · exact Or.inr (Or.inr (List.mem_cons_of_mem _ hu))
  · intro t ht
    rcases List.mem_cons.1 ht with rfl | ht
    · exact hcl
    · exact c.doneCl t ht
  · intro x hx; exact c.actExp x (List.mem_of_mem_eraseIdx hx)
  · intro x hx; exact c.actRec x (List.mem_of_mem_eraseIdx hx)
  · intro t ht
    rcases List.mem_cons.1 ht with rfl | ht
    · exact hreach
    · exact c.doneReach t ht

theorem cinv_expand (w : Nat) (f : Bool) {s : St σ κ} (hs : SInv P s) (h : CInv P s) :
    CInv P (stepExpand P w f s) := by
  unfold stepExpand
  split
  · rename_i j rest ha
    have ham : (⟨j, .expanding rest⟩ : Active σ) ∈ s.active := List.mem_of_getElem? ha
    have hjo := hs.ac _ ham
    split
    · intro he
      have c := h he
      refine closure_retire c w _ ha ?_ (Sys.reach_last_of_isPath hjo.path hjo.last)
      intro t' ht'
      rcases c.actExp _ ham [] rfl t' ht' with h' | h'
      · simp at h'
      · exact h'
    · rename_i t rest'
      dsimp only
      have hstep : ∀ (c : Closure P s) (g' : List κ), (∀ k ∈ s.gen, k ∈ g') → P.key t ∈ g' →
          ∀ r, (Phase.expanding rest' : Phase σ) = .expanding r → ∀ t' ∈ P.M.succB j.st, t' ∈ r ∨ P.key t' ∈ g' := by
        intro c g' hg ht r hr t' ht'
        cases hr
        rcases c.actExp _ ham _ rfl t' ht' with h' | h'
        · rcases List.mem_cons.1 h' with rfl | h'
          · exact Or.inr ht
          · exact Or.inl h'
        · exact Or.inr (hg _ h')
      split
      · rename_i hin
        intro he
        have c := h he
        exact closure_set_active' c w _ ⟨j, .expanding rest'⟩ ha (by rfl) s.gen s.frontier (fun _ h => h) (fun _ h => h)
          (fun _ h => Or.inl h) (hstep c s.gen (fun _ h => h) hin) (by intro r hr; cases hr) s.disc _
      · rename_i hnin
        intro he
        have c := h he
        refine closure_set_active' c w _ ⟨j, .expanding rest'⟩ ha (by rfl) (s.gen ++ [P.key t]) _
          (fun _ h => List.mem_append_left _ h) ?_ ?_
          (hstep c _ (fun _ h => List.mem_append_left _ h) (by simp)) (by intro r hr; cases hr) s.disc _
        · intro x hx; split
          · exact List.mem_cons_of_mem _ hx
          · exact List.mem_append_left _ hx
        · intro k hk
          rcases List.mem_append.1 hk with hk | hk
          · exact Or.inl hk
          · simp at hk; subst hk
            refine Or.inr ⟨{ st := t, path := j.path ++ [t], ebits := j.ebits, depth := j.depth + 1 }, ?_, rfl⟩
            split <;> simp
  · exact h

theorem cinv_record (w : Nat) {s : St σ κ} (hs : SInv P s) (h : CInv P s) : CInv P (stepRecord P w s) := by
  unfold stepRecord
  split
  · rename_i j i ha
    have ham : (⟨j, .recording i⟩ : Active σ) ∈ s.active := List.mem_of_getElem? ha
    have hjo := hs.ac _ ham
    split
    · dsimp only
      split
      · intro he
        have c := h he
        exact closure_set_active c w _ _ ha (by rfl) (by intro r hr; cases hr) (by intro r _; exact c.actRec _ ham i rfl) _
      · intro he
        have c := h he
        exact closure_set_active c w _ _ ha (by rfl) (by intro r hr; cases hr) (by intro r _; exact c.actRec _ ham i rfl) _
    · intro he
      have c := h he
      refine closure_retire c w _ ha ?_ (Sys.reach_last_of_isPath hjo.path hjo.last)
      intro t' ht'
      rw [c.actRec _ ham i rfl] at ht'; simp at ht'
  · exact h

theorem cinv_stop (why : Why) {s : St σ κ} (h : CInv P s) : CInv P (stepStop P why s) := by
  unfold stepStop; split
  · intro he
    have c := h he
    exact ⟨c.initIn, c.genJob, c.doneCl, c.actExp, c.actRec, c.doneReach⟩
  · exact h

theorem cinv_dropJob (i : Nat) {s : St σ κ} (h : CInv P s) : CInv P (stepDropJob P i s) := by
  unfold stepDropJob; split
  · split
    · exact h
    · intro he; simp at he
  · exact h

theorem cinv_abandon (w : Nat) {s : St σ κ} (h : CInv P s) : CInv P (stepAbandon w s) := by
  unfold stepAbandon; split
  · split
    · exact h
    · intro he; simp at he
  · exact h

theorem cinv_step (c : Choice) {s : St σ κ} (hs : SInv P s) (h : CInv P s) : CInv P (step P c s) := by
  cases c with
  | take i => exact cinv_take i h
  | evalProp w b => exact cinv_evalProp w b h
  | finishProps w => exact cinv_finishProps w h
  | expand w f => exact cinv_expand w f hs h
  | record w => exact cinv_record w hs h
  | stop why => exact cinv_stop why h
  | dropJob i => exact cinv_dropJob i h
  | abandon w => exact cinv_abandon w h

theorem scinv_run (cs : List Choice) : SInv P (run P cs) ∧ CInv P (run P cs) :=
  runFrom_induction (fun s => SInv P s ∧ CInv P s)
    (fun c _ h => ⟨sinv_step c h.1, cinv_step c h.1 h.2⟩) _ ⟨sinv_init, cinv_init⟩ cs

theorem cinv_run (cs : List Choice) : CInv P (run P cs) := (scinv_run cs).2

/-- **Completeness at quiescence.**  `R` is any relation that contains key-equality on reachable states, is
    transitive, and is a simulation of the in-boundary successor relation (for plain runs: `R = Eq` and the
    key is injective on reachable states; under symmetry reduction: the symmetry equivalence). -/
theorem complete_of_quiescent (R : σ → σ → Prop)
    (hkey : ∀ a b, P.M.Reach a → P.M.Reach b → P.key a = P.key b → R a b)
    (htrans : ∀ a b c, R a b → R b c → R a c)
    (hsim : ∀ a b, R a b → ∀ a' ∈ P.M.succB a, ∃ b' ∈ P.M.succB b, R a' b')
    (cs : List Choice) (hq : Quiescent (run P cs)) (he : (run P cs).early = false) :
    ∀ t, P.M.Reach t → ∃ u ∈ (run P cs).done, R t u := by
  have c := cinv_run (P := P) cs he
  have hjobs : ∀ k ∈ (run P cs).gen, ∃ u ∈ (run P cs).done, P.key u = k := by
    intro k hk
    obtain ⟨u, hu, rfl⟩ := c.genJob k hk
    rw [mem_jobStates, hq.1, hq.2] at hu
    simp at hu
    exact ⟨u, hu, rfl⟩
  intro t ht
  induction ht with
  | init h =>
    rename_i t0
    obtain ⟨u, hu, hk⟩ := hjobs _ (c.initIn _ h)
    exact ⟨u, hu, hkey _ _ (Sys.Reach.init h) (c.doneReach u hu) hk.symm⟩
  | step hr ht ih =>
    rename_i s0 t0
    obtain ⟨u, hu, hru⟩ := ih
    obtain ⟨u', hu', hr'⟩ := hsim _ _ hru _ ht
    obtain ⟨v, hv, hk⟩ := hjobs _ (c.doneCl u hu u' hu')
    exact ⟨v, hv, htrans _ _ _ hr' (hkey _ _ (Sys.Reach.step (c.doneReach u hu) hu') (c.doneReach v hv) hk.symm)⟩

end
end SR.Checker
