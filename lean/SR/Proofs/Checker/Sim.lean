import SR.Checker.Sim
import SR.Proofs.Checker.Eventually
import SR.Proofs.Checker.Once
/-!
Invariant of the simulation checker: every recorded discovery is a real in-boundary path; always/sometimes
discoveries end in a witness; on an eventually discovery the condition never holds and the path either ends in a
state without in-boundary successor or closes a cycle (its last state has the key of an earlier state).
-/
namespace SR.Checker.Sim
open SR SR.Checker

section
variable {σ κ α : Type} [DecidableEq κ]
variable (P : Params σ κ α)

/-- the last state repeats (the key of) an earlier state of the path -/
def CyclesBack (p : List σ) : Prop := ∃ s, p.getLast? = some s ∧ ∃ t ∈ p.dropLast, P.key t = P.key s

structure EntryOk (e : Nat × List σ) : Prop where
  path : P.M.IsPath e.2
  idx : e.1 < P.props.length
  wit : WitnessAS P e.1 e.2
  ev : ∀ pr, P.props[e.1]? = some pr → pr.exp = .eventually →
        Avoids pr e.2 ∧ ((∃ t, e.2.getLast? = some t ∧ P.M.succB t = []) ∨ CyclesBack P e.2)

def DiscOk (d : List (Nat × List σ)) : Prop := ∀ e ∈ d, EntryOk P e

variable {P}

/-! ### swap_remove and the inner choice loop -/

theorem swapRemove_spec {β : Type} {l : List β} {i : Nat} {a : β} {l' : List β}
    (h : swapRemove l i = some (a, l')) : l.Perm (a :: l') := by
  unfold swapRemove at h
  split at h
  · cases h
  · rename_i x hx
    injection h with h; injection h with h1 h2; subst h1; subst h2
    obtain ⟨hlt, hget⟩ := List.getElem?_eq_some_iff.1 hx
    have hne : l ≠ [] := by intro e; subst e; simp at hlt
    -- l = front ++ [last]
    have hsplit := (List.dropLast_concat_getLast hne).symm
    rw [List.getLast?_eq_some_getLast hne]
    simp only [Option.getD_some]
    by_cases hil : i = l.length - 1
    · -- removing the last element
      have : l.set i (l.getLast hne) = l := by
        apply List.ext_getElem (by simp)
        intro n h1 h2
        simp only [List.getElem_set]
        split
        · rename_i hin; subst hin
          rw [List.getLast_eq_getElem]; congr 1; omega
        · rfl
      rw [this]
      have hx' : x = l.getLast hne := by
        rw [List.getLast_eq_getElem, ← hget]; congr 1
      rw [hx']
      conv => lhs; rw [hsplit]
      exact List.perm_append_singleton _ _
    · -- removing an inner element: the last one takes its place
      have hlt' : i < l.dropLast.length := by simp; omega
      have hset : (l.set i (l.getLast hne)).dropLast = l.dropLast.set i (l.getLast hne) := by
        apply List.ext_getElem (by simp)
        intro n h1 h2
        simp only [List.getElem_dropLast, List.getElem_set]
      rw [hset]
      have hxd : l.dropLast[i]? = some x := by
        rw [List.getElem?_eq_some_iff]; exact ⟨hlt', by simp [← hget]⟩
      have p1 : l.Perm (l.getLast hne :: l.dropLast) := by
        conv => lhs; rw [hsplit]
        exact List.perm_append_singleton _ _
      -- l.dropLast ~ x :: erase, and set i v ~ v :: erase
      have e1 : l.dropLast.Perm (x :: l.dropLast.eraseIdx i) := perm_eraseIdx hxd
      have e2 : (l.dropLast.set i (l.getLast hne)).Perm (l.getLast hne :: l.dropLast.eraseIdx i) := by
        have hs : (l.dropLast.set i (l.getLast hne))[i]? = some (l.getLast hne) := by
          rw [List.getElem?_set_self hlt']
        have := perm_eraseIdx hs
        simpa [List.eraseIdx_set_eq] using this
      calc l.Perm (l.getLast hne :: l.dropLast) := p1
        _ |>.Perm (l.getLast hne :: x :: l.dropLast.eraseIdx i) := List.Perm.cons _ e1
        _ |>.Perm (x :: l.getLast hne :: l.dropLast.eraseIdx i) := List.Perm.swap _ _ _
        _ |>.Perm (x :: l.dropLast.set i (l.getLast hne)) := List.Perm.cons _ e2.symm

/-- the inner loop either returns an in-boundary successor or has tried (and failed with) every action -/
theorem pickNext_spec (M : Sys σ α) (st : σ) (f : Nat) (acts : List α) (ans : List Nat) (hf : acts.length < f) :
    match (pickNext M st f acts ans).1 with
    | some n => n ∈ M.succB st ∨ ∃ a ∈ acts, M.next st a = some n ∧ M.inB n = true
    | none => ∀ a ∈ acts, ∀ n, M.next st a = some n → M.inB n = false := by
  induction f generalizing acts ans with
  | zero => omega
  | succ f ih =>
    cases acts with
    | nil => simp [pickNext]
    | cons a0 rest =>
      unfold pickNext
      simp only
      cases hsr : swapRemove (a0 :: rest) (nextAnswer ans (a0 :: rest).length).1 with
      | none =>
        -- impossible: the answer is reduced modulo the length
        exfalso
        unfold swapRemove at hsr
        split at hsr
        · rename_i hnone
          have : (nextAnswer ans (a0 :: rest).length).1 < (a0 :: rest).length := by
            unfold nextAnswer; split
            · simp
            · exact Nat.mod_lt _ (by simp)
          rw [List.getElem?_eq_none_iff] at hnone; omega
        · cases hsr
      | some pr =>
        obtain ⟨a, acts'⟩ := pr
        have hperm := swapRemove_spec hsr
        have hlen : acts'.length < f := by
          have := hperm.length_eq; simp at this; simp at hf; omega
        simp only
        cases hn : M.next st a with
        | none =>
          have := ih acts' (nextAnswer ans (a0 :: rest).length).2 hlen
          simp only
          revert this
          cases (pickNext M st f acts' (nextAnswer ans (a0 :: rest).length).2).1 with
          | some n =>
            rintro (h | ⟨b, hb, h⟩)
            · exact Or.inl h
            · exact Or.inr ⟨b, hperm.symm.subset (List.mem_cons_of_mem _ hb), h⟩
          | none =>
            intro h b hb n hbn
            rcases List.mem_cons.1 (hperm.subset hb) with rfl | hb'
            · rw [hn] at hbn; cases hbn
            · exact h b hb' n hbn
        | some n =>
          simp only
          cases hin : M.inB n with
          | true =>
            simp only [if_true]
            exact Or.inr ⟨a, hperm.symm.subset List.mem_cons_self, hn, hin⟩
          | false =>
            have hfalse : (false = true) = False := by simp
            simp only [hfalse, if_false]
            have := ih acts' (nextAnswer ans (a0 :: rest).length).2 hlen
            revert this
            cases (pickNext M st f acts' (nextAnswer ans (a0 :: rest).length).2).1 with
            | some m =>
              rintro (h | ⟨b, hb, h⟩)
              · exact Or.inl h
              · exact Or.inr ⟨b, hperm.symm.subset (List.mem_cons_of_mem _ hb), h⟩
            | none =>
              intro h b hb m hbm
              rcases List.mem_cons.1 (hperm.subset hb) with rfl | hb'
              · rw [hn] at hbm; cases hbm; exact hin
              · exact h b hb' m hbm

theorem pickNext_some {M : Sys σ α} {st n : σ} {ans ans' : List Nat}
    (h : pickNext M st ((M.acts st).length + 1) (M.acts st) ans = (some n, ans')) : n ∈ M.succB st := by
  have := pickNext_spec M st ((M.acts st).length + 1) (M.acts st) ans (Nat.lt_succ_self _)
  rw [h] at this
  rcases this with h | ⟨a, ha, hn, hin⟩
  · exact h
  · exact Sys.mem_succB.2 ⟨⟨a, ha, hn⟩, hin⟩

theorem pickNext_none {M : Sys σ α} {st : σ} {ans ans' : List Nat}
    (h : pickNext M st ((M.acts st).length + 1) (M.acts st) ans = (none, ans')) : M.succB st = [] := by
  have := pickNext_spec M st ((M.acts st).length + 1) (M.acts st) ans (Nat.lt_succ_self _)
  rw [h] at this
  apply List.eq_nil_iff_forall_not_mem.2
  intro t ht
  obtain ⟨⟨a, ha, hn⟩, hin⟩ := Sys.mem_succB.1 ht
  rw [this a ha t hn] at hin; cases hin

/-! ### the property loop and the recording loop -/

theorem discOk_insert {d : List (Nat × List σ)} (h : DiscOk P d) {i : Nat} {p : List σ} (he : EntryOk P (i, p)) :
    DiscOk P (discInsert d i p) := by
  intro e hm
  rcases mem_discInsert hm with rfl | hm
  · exact he
  · exact h e hm

theorem foldl_range_succ {β : Type} (f : β → Nat → β) (a : β) (n : Nat) :
    (List.range (n + 1)).foldl f a = f ((List.range n).foldl f a) n := by
  rw [List.range_succ, List.foldl_append]; rfl

structure PL (st : σ) (path' : List σ) (eb0 : List Nat) (k : Nat) (acc : List Nat × Bool × List (Nat × List σ)) : Prop where
  disc : DiscOk P acc.2.2
  nodup : acc.1.Nodup
  sub : ∀ i ∈ acc.1, i ∈ eb0
  upto : ∀ i ∈ acc.1, i < k → ∀ pr, P.props[i]? = some pr → pr.cond st = false

theorem propStep_pl {st : σ} {path' : List σ} {eb0 : List Nat} {k : Nat} {o : Nat → Bool}
    {acc : List Nat × Bool × List (Nat × List σ)}
    (hpath : P.M.IsPath path') (hlast : path'.getLast? = some st)
    (hev : ∀ i ∈ eb0, ∀ pr, P.props[i]? = some pr → pr.exp = .eventually)
    (h : PL (P := P) st path' eb0 k acc) : PL (P := P) st path' eb0 (k + 1) (propStep P.props st path' o acc k) := by
  unfold propStep
  split
  · exact ⟨h.disc, h.nodup, h.sub, fun i hi hlt pr hpr => by
      rename_i hnone
      have hlt' : i < k ∨ i = k := by omega
      rcases hlt' with hlt' | rfl
      · exact h.upto i hi hlt' pr hpr
      · rw [hnone] at hpr; cases hpr⟩
  · rename_i p hp
    have hk : k < P.props.length := (List.getElem?_eq_some_iff.1 hp).1
    -- bits other than k carry over
    have carry : ∀ i ∈ acc.1, i ≠ k → i < k + 1 → ∀ pr, P.props[i]? = some pr → pr.cond st = false :=
      fun i hi hne hlt pr hpr => h.upto i hi (by omega) pr hpr
    have erased : PL (P := P) st path' eb0 (k + 1) (acc.1.erase k, acc.2.1, acc.2.2) :=
      ⟨h.disc, h.nodup.erase _, fun i hi => h.sub i (List.mem_of_mem_erase hi),
       fun i hi hlt pr hpr => by
         have := (List.Nodup.mem_erase_iff h.nodup).1 hi
         exact carry i this.2 this.1 hlt pr hpr⟩
    have keepNonEv : p.exp ≠ .eventually → ∀ (aw : Bool) (d : List (Nat × List σ)), DiscOk P d →
        PL (P := P) st path' eb0 (k + 1) (acc.1, aw, d) := by
      intro hne aw d hd
      refine ⟨hd, h.nodup, h.sub, ?_⟩
      intro i hi hlt pr hpr
      by_cases hik : i = k
      · subst hik
        have := hev i (h.sub i hi) pr hpr
        rw [hp] at hpr; cases hpr; exact absurd this hne
      · exact carry i hi hik hlt pr hpr
    split
    · exact erased
    · split
      · rename_i hexp
        have hne : p.exp ≠ .eventually := by rw [hexp]; intro e; cases e
        split
        · rename_i hc
          refine keepNonEv hne _ _ (discOk_insert h.disc ⟨hpath, hk, ?_, ?_⟩)
          · intro pr hpr; rw [hp] at hpr; cases hpr
            exact ⟨fun _ => ⟨st, hlast, by simpa using hc⟩, fun e => (by rw [hexp] at e; cases e)⟩
          · intro pr hpr e; simp only at hpr; rw [hp] at hpr; cases hpr; exact absurd e hne
        · exact keepNonEv hne _ _ h.disc
      · rename_i hexp
        have hne : p.exp ≠ .eventually := by rw [hexp]; intro e; cases e
        split
        · rename_i hc
          refine keepNonEv hne _ _ (discOk_insert h.disc ⟨hpath, hk, ?_, ?_⟩)
          · intro pr hpr; rw [hp] at hpr; cases hpr
            exact ⟨fun e => (by rw [hexp] at e; cases e), fun _ => ⟨st, hlast, hc⟩⟩
          · intro pr hpr e; simp only at hpr; rw [hp] at hpr; cases hpr; exact absurd e hne
        · exact keepNonEv hne _ _ h.disc
      · split
        · exact ⟨erased.disc, erased.nodup, erased.sub, erased.upto⟩
        · rename_i hc
          refine ⟨h.disc, h.nodup, h.sub, ?_⟩
          intro i hi hlt pr hpr
          by_cases hik : i = k
          · subst hik; rw [hp] at hpr; cases hpr; simpa using hc
          · exact carry i hi hik hlt pr hpr

theorem propLoop_pl {st : σ} {path' : List σ} {eb0 : List Nat} {d : List (Nat × List σ)} {o : Nat → Bool}
    (hpath : P.M.IsPath path') (hlast : path'.getLast? = some st)
    (hev : ∀ i ∈ eb0, ∀ pr, P.props[i]? = some pr → pr.exp = .eventually)
    (hnd : eb0.Nodup) (hd : DiscOk P d) :
    PL (P := P) st path' eb0 P.props.length (propLoop P.props st path' eb0 d o) := by
  unfold propLoop
  generalize P.props.length = n
  induction n with
  | zero => exact ⟨hd, hnd, fun _ h => h, fun _ _ hlt => absurd hlt (Nat.not_lt_zero _)⟩
  | succ n ih =>
    rw [foldl_range_succ]
    exact propStep_pl hpath hlast hev ih

theorem recordAll_ok {eb : List Nat} {path' : List σ} {d : List (Nat × List σ)} (hd : DiscOk P d)
    (he : ∀ i ∈ eb, i < P.props.length → EntryOk P (i, path')) :
    DiscOk P (recordAll P.props eb path' d) := by
  unfold recordAll
  have : ∀ n, n ≤ P.props.length → DiscOk P ((List.range n).foldl (fun d i => if i ∈ eb then discInsert d i path' else d) d) := by
    intro n
    induction n with
    | zero => intro _; exact hd
    | succ n ih =>
      intro hn
      rw [foldl_range_succ]
      split
      · rename_i hmem
        exact discOk_insert (ih (by omega)) (he n hmem (by omega))
      · exact ih (by omega)
  exact this _ (Nat.le_refl _)

/-! ### the trace loop -/

/-- the current state continues the path -/
def PathTo (path : List σ) (st : σ) : Prop :=
  (path = [] ∧ st ∈ P.M.init) ∨ (P.M.IsPath path ∧ ∃ prev, path.getLast? = some prev ∧ st ∈ P.M.succB prev)

theorem isPath_extend {path : List σ} {st : σ} (h : PathTo (P := P) path st) (hin : P.M.inB st = true) :
    P.M.IsPath (path ++ [st]) := by
  rcases h with ⟨rfl, hi⟩ | ⟨hp, prev, hl, hs⟩
  · exact Sys.isPath_singleton (Sys.mem_initB.2 ⟨hi, hin⟩)
  · exact Sys.isPath_append_one hp hl hs

theorem traceLoop_ok
    (hkc : ∀ a b, P.M.Reach a → P.M.Reach b → P.key a = P.key b → ∀ pr ∈ P.props, pr.cond a = pr.cond b)
    (orc : Nat → Nat → Bool) (f : Nat) : ∀ (st : σ) (path : List σ) (gen : List κ) (eb ans : List Nat) (g : G σ),
    DiscOk P g.disc → PathTo (P := P) path st → (∀ k, k ∈ gen ↔ ∃ t ∈ path, P.key t = k) → eb.Nodup →
    (∀ i ∈ eb, ∀ pr, P.props[i]? = some pr → pr.exp = .eventually ∧ Avoids pr path) →
    DiscOk P (traceLoop P orc f st path gen eb ans g).1.disc := by
  induction f with
  | zero => intro st path gen eb ans g hd _ _ _ _; exact hd
  | succ f ih =>
    intro st path gen eb ans g hd hpt hgen hnd heb
    unfold traceLoop
    simp only
    split
    · exact hd
    · split
      · exact hd
      · rename_i hinb
        have hin : P.M.inB st = true := by simpa using hinb
        have hpath' := isPath_extend hpt hin
        have hlast' : (path ++ [st]).getLast? = some st := by simp
        have hreach : P.M.Reach st := Sys.reach_last_of_isPath hpath' hlast'
        split
        · -- a loop was found: record
          rename_i hk
          obtain ⟨t, ht, hkt⟩ := (hgen _).1 hk
          refine recordAll_ok hd ?_
          intro i hi hlt
          refine ⟨hpath', hlt, ?_, ?_⟩
          · intro pr hpr
            have := (heb i hi pr hpr).1
            exact ⟨fun e => (by rw [this] at e; cases e), fun e => (by rw [this] at e; cases e)⟩
          · intro pr hpr _
            simp only at hpr
            obtain ⟨_, hav⟩ := heb i hi pr hpr
            have htr : P.M.Reach t := Sys.reach_of_isPath hpath' t (List.mem_append_left _ ht)
            have hct : pr.cond st = false := by
              rw [← hkc t st htr hreach hkt pr (List.mem_of_getElem? hpr)]; exact hav t ht
            refine ⟨?_, Or.inr ⟨st, hlast', t, by simpa using ht, hkt⟩⟩
            intro u hu
            rcases List.mem_append.1 hu with hu | hu
            · exact hav u hu
            · simp at hu; subst hu; exact hct
        · rename_i hk
          have hpl := propLoop_pl (P := P) (d := g.disc) (o := orc path.length) hpath' hlast' (fun i hi pr hpr => (heb i hi pr hpr).1) hnd hd
          -- after the property loop the remaining bits avoid the whole path
          have heb' : ∀ i ∈ (propLoop P.props st (path ++ [st]) eb g.disc (orc path.length)).1, ∀ pr, P.props[i]? = some pr →
              pr.exp = .eventually ∧ Avoids pr (path ++ [st]) := by
            intro i hi pr hpr
            have hi0 := hpl.sub i hi
            refine ⟨(heb i hi0 pr hpr).1, ?_⟩
            intro u hu
            rcases List.mem_append.1 hu with hu | hu
            · exact (heb i hi0 pr hpr).2 u hu
            · simp at hu; subst hu
              exact hpl.upto i hi (List.getElem?_eq_some_iff.1 hpr).1 pr hpr
          split
          · exact hpl.disc
          · split
            · -- terminal state: record
              rename_i ans' hpick
              refine recordAll_ok hpl.disc ?_
              intro i hi hlt
              refine ⟨hpath', hlt, ?_, ?_⟩
              · intro pr hpr
                have := (heb' i hi pr hpr).1
                exact ⟨fun e => (by rw [this] at e; cases e), fun e => (by rw [this] at e; cases e)⟩
              · intro pr hpr _
                exact ⟨(heb' i hi pr hpr).2, Or.inl ⟨st, hlast', pickNext_none hpick⟩⟩
            · rename_i n ans' hpick
              apply ih
              · exact hpl.disc
              · exact Or.inr ⟨hpath', st, hlast', pickNext_some hpick⟩
              · intro k
                simp only [List.mem_cons, List.mem_append, List.mem_singleton, List.not_mem_nil, or_false]
                constructor
                · rintro (rfl | hk')
                  · exact ⟨st, Or.inr rfl, rfl⟩
                  · obtain ⟨t, ht, rfl⟩ := (hgen k).1 hk'
                    exact ⟨t, Or.inl ht, rfl⟩
                · rintro ⟨t, (ht | rfl), rfl⟩
                  · exact Or.inr ((hgen _).2 ⟨t, ht, rfl⟩)
                  · exact Or.inl rfl
              · exact hpl.nodup
              · exact heb'

theorem trace_ok
    (hkc : ∀ a b, P.M.Reach a → P.M.Reach b → P.key a = P.key b → ∀ pr ∈ P.props, pr.cond a = pr.cond b)
    (fuel : Nat) (ans : List Nat) (g : G σ) (hd : DiscOk P g.disc) (orc : Nat → Nat → Bool := fun _ _ => false) :
    DiscOk P (trace P fuel ans g orc).1.disc := by
  unfold trace
  split
  · exact hd
  · simp only
    split
    · exact hd
    · rename_i s hs
      refine traceLoop_ok hkc orc fuel s [] [] _ _ g hd (Or.inl ⟨rfl, List.mem_of_getElem? hs⟩) (by simp)
        (initEbits_nodup _) ?_
      intro i hi pr hpr
      refine ⟨?_, by intro t ht; simp at ht⟩
      simp only [initEbits, List.mem_filter] at hi
      rw [hpr] at hi; simpa using hi.2

theorem runTraces_ok
    (hkc : ∀ a b, P.M.Reach a → P.M.Reach b → P.key a = P.key b → ∀ pr ∈ P.props, pr.cond a = pr.cond b)
    (fuel n : Nat) (ans : List Nat) (g : G σ) (hd : DiscOk P g.disc) : DiscOk P (runTraces P fuel n ans g).disc := by
  induction n generalizing ans g with
  | zero => exact hd
  | succ n ih =>
    unfold runTraces
    have h1 := trace_ok hkc fuel ans g hd
    simp only
    split
    · exact h1
    · split
      · exact h1
      · exact ih _ _ h1

theorem tracesO_ok
    (hkc : ∀ a b, P.M.Reach a → P.M.Reach b → P.key a = P.key b → ∀ pr ∈ P.props, pr.cond a = pr.cond b)
    (orc : Nat → Nat → Nat → Bool) (fuels : List Nat) : ∀ (j : Nat) (ans : List Nat) (g : G σ), DiscOk P g.disc →
    DiscOk P (tracesO P orc j fuels ans g).disc := by
  induction fuels with
  | nil => intro j ans g hd; exact hd
  | cons f fuels ih =>
    intro j ans g hd
    simp only [tracesO]
    exact ih _ _ _ (trace_ok hkc f ans g hd (orc j))

end
end SR.Checker.Sim
