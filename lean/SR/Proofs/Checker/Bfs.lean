import SR.Proofs.Checker.Control
import SR.Proofs.Checker.Once
/-!
# Single-threaded breadth-first order

`FifoOk`: the discipline of bfs.rs with one worker — a job is popped only from the pop end (index 0) and only when
the worker is idle and the market open, new jobs are pushed at the other end, there is a single worker (index 0)
whose reads of the discoveries are never stale, a stop happens only between jobs.  For every choice list obeying
it (the BFS scheduler of `SR/Checker/Sched.lean` is one), without a depth limit and with a state identity that is
injective on reachable states: path lengths of visited states never decrease, every visited path is a shortest
path to its last state, every always/sometimes discovery is a shortest path to a witness.
-/
namespace SR.Checker
open SR

section
variable {σ κ α : Type} [DecidableEq κ]
variable (P : Params σ κ α)

def FifoOk (s : St σ κ) : Choice → Prop
  | .take i => i = 0 ∧ s.active = [] ∧ s.stopped = false
  | .evalProp w b => w = 0 ∧ b = false
  | .finishProps w => w = 0
  | .expand w f => w = 0 ∧ f = false
  | .record w => w = 0
  | .stop _ => s.active = []
  | .dropJob _ => True
  | .abandon _ => True

def FifoRun (s : St σ κ) : List Choice → Prop
  | [] => True
  | c :: cs => FifoOk s c ∧ FifoRun (step P c s) cs

def jobsOf (s : St σ κ) : List (Job σ) := s.frontier ++ s.active.map (·.job)

structure BInv (s : St σ κ) : Prop where
  single : s.active.length ≤ 1
  sorted : (s.frontier.map (·.depth)).Pairwise (· ≤ ·)
  actLe : ∀ a ∈ s.active, ∀ j ∈ s.frontier, a.job.depth ≤ j.depth ∧ j.depth ≤ a.job.depth + 1
  spread : s.active = [] → ∀ j ∈ s.frontier, ∀ j' ∈ s.frontier, j'.depth ≤ j.depth + 1
  visLe : ∀ p ∈ s.visits, ∀ j ∈ jobsOf s, p.length ≤ j.depth
  visSorted : (s.visits.map List.length).Pairwise (· ≥ ·)
  shortJob : ∀ j ∈ jobsOf s, ∀ q, P.M.IsPath q → q.getLast? = some j.st → j.depth ≤ q.length
  shortVis : ∀ p ∈ s.visits, ∀ q, P.M.IsPath q → q.getLast? = p.getLast? → p.length ≤ q.length
  lower : s.early = false → ∀ q t, P.M.IsPath q → q.getLast? = some t →
            (∀ j ∈ jobsOf s, q.length ≤ j.depth) → P.key t ∈ s.gen
  awake : ∀ a ∈ s.active,
            (∀ k, a.phase = .props k true → ∃ i, i < k ∧ i < P.props.length ∧ hasDisc s.disc i = false) ∧
            (∀ r, a.phase = .expanding r → ∃ i, i < P.props.length ∧ hasDisc s.disc i = false)
  noActStopped : s.stopped = true → s.active = []
  shortDisc : ∀ e ∈ s.disc, ∀ pr, P.props[e.1]? = some pr → pr.exp ≠ .eventually →
            ∀ q t, P.M.IsPath q → q.getLast? = some t → Wit pr t → e.2.length ≤ q.length

variable {P}

theorem mem_jobsOf {s : St σ κ} {j : Job σ} : j ∈ jobsOf s ↔ j ∈ s.frontier ∨ ∃ a ∈ s.active, a.job = j := by
  simp [jobsOf, List.mem_append, List.mem_map]

theorem isPath_length_pos {M : Sys σ α} {q : List σ} (h : M.IsPath q) : 0 < q.length := by
  obtain ⟨x, rest, rfl, _, _⟩ := h; simp

theorem binv_init : BInv P (init P.M P.props P.key) := by
  obtain ⟨_, hgi, _⟩ := genInit_spec P.key P.M.initB []
  have hfr : ∀ j ∈ (init P.M P.props P.key).frontier, j.depth = 1 ∧ j.path = [j.st] ∧ j.st ∈ P.M.initB := by
    intro j hj
    simp only [init, List.mem_map, List.mem_reverse] at hj
    obtain ⟨s, hs, rfl⟩ := hj
    exact ⟨rfl, rfl, hs⟩
  refine ⟨by simp [init], ?_, by simp [init], ?_, by simp [init], by simp [init], ?_, by simp [init], ?_,
    by simp [init], by simp [init], by simp [init]⟩
  · rw [List.pairwise_map]
    apply List.Pairwise.imp_of_mem (R := fun _ _ => True)
    · intro a b ha hb _; rw [(hfr a ha).1, (hfr b hb).1]; exact Nat.le_refl _
    · exact List.pairwise_of_forall (fun _ _ => trivial)
  · intro _ j hj j' hj'; rw [(hfr j hj).1, (hfr j' hj').1]; omega
  · intro j hj q hq _
    have : j ∈ (init P.M P.props P.key).frontier := by
      rw [mem_jobsOf] at hj; rcases hj with hj | ⟨a, ha, _⟩
      · exact hj
      · simp [init] at ha
    rw [(hfr j this).1]; exact isPath_length_pos hq
  · intro _ q t hq hl hle
    -- some pending initial job exists (the path's first state), so q has length 1
    obtain ⟨x, rest, rfl, hx, hc⟩ := hq
    have hjx : ({ st := x, path := [x], ebits := initEbits P.props, depth := 1 } : Job σ) ∈ jobsOf (init P.M P.props P.key) := by
      rw [mem_jobsOf]; left
      simp only [init, List.mem_map, List.mem_reverse]
      exact ⟨x, hx, rfl⟩
    have := hle _ hjx
    simp only [List.length_cons] at this
    have hr : rest = [] := List.eq_nil_of_length_eq_zero (by omega)
    subst hr
    simp at hl; subst hl
    exact hgi _ hx

/-- hypotheses shared by all step lemmas -/
structure Ctx (s : St σ κ) : Prop where
  nodepth : P.cfg.maxDepth = none
  inj : ∀ a b, P.M.Reach a → P.M.Reach b → P.key a = P.key b → a = b
  sinv : SInv P s
  cinv : CInv P s
  vinv : VInv P s
  early : EarlyReason P s

theorem single_active {s : St σ κ} (hb : BInv P s) {a : Active σ} (ha : s.active[0]? = some a) : s.active = [a] := by
  cases hact : s.active with
  | nil => rw [hact] at ha; simp at ha
  | cons x xs =>
    have := hb.single; rw [hact] at this
    simp only [List.length_cons] at this
    have hxs : xs = [] := List.eq_nil_of_length_eq_zero (by omega)
    subst hxs
    rw [hact] at ha; simp at ha; subst ha; rfl

theorem job_reach {s : St σ κ} (hs : SInv P s) {j : Job σ} (hj : j ∈ jobsOf s) : P.M.Reach j.st := by
  rw [mem_jobsOf] at hj
  rcases hj with hj | ⟨a, ha, rfl⟩
  · exact Sys.reach_last_of_isPath (hs.fr j hj).path (hs.fr j hj).last
  · exact Sys.reach_last_of_isPath (hs.ac a ha).path (hs.ac a ha).last

/-- a working single worker implies that nothing was dropped so far -/
theorem early_false_of_undiscovered {s : St σ κ} (hx : Ctx (P := P) s) (hb : BInv P s) (hne : s.active ≠ [])
    {i : Nat} (hi : i < P.props.length) (hd : hasDisc s.disc i = false) : s.early = false := by
  cases he : s.early with
  | false => rfl
  | true =>
    exfalso
    rcases hx.early he with h | h | h
    · rw [hx.nodepth] at h; simp at h
    · exact hne (hb.noActStopped h)
    · simp only [allDiscovered, List.all_eq_true, List.mem_range] at h
      rw [h i hi] at hd; cases hd

/-- the key argument: a state with a path shorter than every pending job is already done or pending with a
    smaller depth — impossible by `shortJob` — so it is done -/
theorem short_path_done {s : St σ κ} (hx : Ctx (P := P) s) (hb : BInv P s) (he : s.early = false)
    {q : List σ} {t : σ} (hq : P.M.IsPath q) (hl : q.getLast? = some t)
    (hlt : ∀ j ∈ jobsOf s, q.length < j.depth) : t ∈ s.done := by
  have hk : P.key t ∈ s.gen := hb.lower he q t hq hl (fun j hj => Nat.le_of_lt (hlt j hj))
  obtain ⟨u, hu, hku⟩ := (hx.cinv he).genJob _ hk
  have htr : P.M.Reach t := Sys.reach_last_of_isPath hq hl
  rw [mem_jobStates] at hu
  rcases hu with ⟨j, hj, rfl⟩ | ⟨a, ha, rfl⟩ | hu
  · exfalso
    have hjm : j ∈ jobsOf s := mem_jobsOf.2 (Or.inl hj)
    have : j.st = t := hx.inj _ _ (job_reach hx.sinv hjm) htr hku
    have h1 := hb.shortJob j hjm q hq (by rw [hl, this])
    have h2 := hlt j hjm
    omega
  · exfalso
    have hjm : a.job ∈ jobsOf s := mem_jobsOf.2 (Or.inr ⟨a, ha, rfl⟩)
    have : a.job.st = t := hx.inj _ _ (job_reach hx.sinv hjm) htr hku
    have h1 := hb.shortJob _ hjm q hq (by rw [hl, this])
    have h2 := hlt _ hjm
    omega
  · have : u = t := hx.inj _ _ ((hx.cinv he).doneReach u hu) htr hku
    rwa [this] at hu

theorem binv_take {s : St σ κ} (hx : Ctx (P := P) s) (hb : BInv P s) (hact : s.active = [])
    (hst : s.stopped = false) : BInv P (stepTake P 0 s) := by
  unfold stepTake
  cases hfr : s.frontier with
  | nil => simp; exact hb
  | cons j tail =>
    simp only [List.getElem?_cons_zero, List.eraseIdx_cons_zero, hx.nodepth, hact, List.nil_append]
    have hjo := hx.sinv.fr j (by rw [hfr]; exact List.mem_cons_self)
    have hsorted := hb.sorted; rw [hfr] at hsorted
    simp only [List.map_cons, List.pairwise_cons] at hsorted
    have hhead : ∀ j' ∈ tail, j.depth ≤ j'.depth := fun j' hj' => hsorted.1 _ (List.mem_map.2 ⟨j', hj', rfl⟩)
    have hspread := hb.spread hact
    have hjobs : ∀ x, x ∈ jobsOf ({ s with frontier := tail, maxDepth := max s.maxDepth j.depth, visits := j.path :: s.visits, active := [{ job := j, phase := .props 0 false }] } : St σ κ) ↔ x ∈ jobsOf s := by
      intro x; simp only [mem_jobsOf, hfr, hact, List.mem_cons, List.mem_singleton, List.not_mem_nil, false_and, exists_false, or_false]
      constructor
      · rintro (h | ⟨a, rfl, rfl⟩)
        · exact Or.inr h
        · exact Or.inl rfl
      · rintro (rfl | h)
        · exact Or.inr ⟨_, rfl, rfl⟩
        · exact Or.inl h
    have hjmem : j ∈ jobsOf s := mem_jobsOf.2 (Or.inl (by rw [hfr]; exact List.mem_cons_self))
    have hall : ∀ x ∈ jobsOf s, j.depth ≤ x.depth := by
      intro x hx'
      rw [mem_jobsOf, hfr, hact] at hx'
      rcases hx' with hx' | ⟨a, ha, _⟩
      · rcases List.mem_cons.1 hx' with rfl | hx'
        · exact Nat.le_refl _
        · exact hhead x hx'
      · simp at ha
    refine ⟨(by simp), hsorted.2, ?_, (by intro h; simp at h), ?_, ?_, ?_, ?_, ?_, ?_, (by intro h; rw [hst] at h; cases h), hb.shortDisc⟩
    · intro a ha j' hj'
      simp at ha; subst ha
      refine ⟨hhead j' hj', ?_⟩
      exact hspread j (by rw [hfr]; exact List.mem_cons_self) j' (by rw [hfr]; exact List.mem_cons_of_mem _ hj')
    · intro p hp x hx'
      rw [hjobs] at hx'
      rcases List.mem_cons.1 hp with rfl | hp
      · rw [← hjo.depth]; exact hall x hx'
      · exact hb.visLe p hp x hx'
    · simp only [List.map_cons, List.pairwise_cons]
      refine ⟨?_, hb.visSorted⟩
      intro n hn
      obtain ⟨p, hp, rfl⟩ := List.mem_map.1 hn
      rw [← hjo.depth]; exact hb.visLe p hp j hjmem
    · intro x hx'; rw [hjobs] at hx'; exact hb.shortJob x hx'
    · intro p hp q hq hl
      rcases List.mem_cons.1 hp with rfl | hp
      · rw [← hjo.depth]; exact hb.shortJob j hjmem q hq (by rw [hl, hjo.last])
      · exact hb.shortVis p hp q hq hl
    · intro he q t hq hl hle
      exact hb.lower he q t hq hl (fun x hx' => hle x ((hjobs x).2 hx'))
    · intro a ha
      simp at ha; subst ha
      exact ⟨(by intro k hk; cases hk), (by intro r hr; cases hr)⟩

/-- the single worker is replaced by a worker with the same depth/state; frontier, visits, gen, flags unchanged -/
theorem binv_set0 {s s' : St σ κ} (hb : BInv P s) {a a' : Active σ} (ha : s.active[0]? = some a)
    (hd : a'.job.depth = a.job.depth) (hst : a'.job.st = a.job.st)
    (hfr : s'.frontier = s.frontier) (hvis : s'.visits = s.visits) (hgen : s'.gen = s.gen)
    (hearly : s'.early = s.early) (hstop : s'.stopped = s.stopped) (hact : s'.active = [a'])
    (hawake : (∀ k, a'.phase = .props k true → ∃ i, i < k ∧ i < P.props.length ∧ hasDisc s'.disc i = false) ∧
              (∀ r, a'.phase = .expanding r → ∃ i, i < P.props.length ∧ hasDisc s'.disc i = false))
    (hdisc : ∀ e ∈ s'.disc, ∀ pr, P.props[e.1]? = some pr → pr.exp ≠ .eventually →
            ∀ q t, P.M.IsPath q → q.getLast? = some t → Wit pr t → e.2.length ≤ q.length) :
    BInv P s' := by
  have hsa := single_active hb ha
  have ham : a ∈ s.active := by rw [hsa]; exact List.mem_singleton.2 rfl
  have hjobs : ∀ x ∈ jobsOf s', ∃ y ∈ jobsOf s, y.depth = x.depth ∧ y.st = x.st := by
    intro x hx
    rw [mem_jobsOf, hfr, hact] at hx
    rcases hx with hx | ⟨b, hb', rfl⟩
    · exact ⟨x, mem_jobsOf.2 (Or.inl hx), rfl, rfl⟩
    · simp at hb'; subst hb'
      exact ⟨a.job, mem_jobsOf.2 (Or.inr ⟨a, ham, rfl⟩), hd.symm, hst.symm⟩
  have hjobs' : ∀ y ∈ jobsOf s, ∃ x ∈ jobsOf s', y.depth = x.depth ∧ y.st = x.st := by
    intro y hy
    rw [mem_jobsOf, hsa] at hy
    rcases hy with hy | ⟨b, hb', rfl⟩
    · exact ⟨y, mem_jobsOf.2 (Or.inl (by rw [hfr]; exact hy)), rfl, rfl⟩
    · simp at hb'; subst hb'
      exact ⟨a'.job, mem_jobsOf.2 (Or.inr ⟨a', by rw [hact]; exact List.mem_singleton.2 rfl, rfl⟩), hd.symm, hst.symm⟩
  refine ⟨(by rw [hact]; simp), (by rw [hfr]; exact hb.sorted), ?_, (by intro h; rw [hact] at h; cases h), ?_,
    (by rw [hvis]; exact hb.visSorted), ?_, (by rw [hvis]; exact hb.shortVis), ?_, ?_, ?_, hdisc⟩
  · intro b hb' j hj
    rw [hact] at hb'; simp at hb'; subst hb'
    rw [hfr] at hj; rw [hd]; exact hb.actLe a ham j hj
  · intro p hp x hx
    rw [hvis] at hp
    obtain ⟨y, hy, hyd, _⟩ := hjobs x hx
    rw [← hyd]; exact hb.visLe p hp y hy
  · intro x hx q hq hl
    obtain ⟨y, hy, hyd, hys⟩ := hjobs x hx
    rw [← hyd]; exact hb.shortJob y hy q hq (by rw [hl, hys])
  · intro he q t hq hl hle
    rw [hgen]
    refine hb.lower (by rw [← hearly]; exact he) q t hq hl ?_
    intro y hy
    obtain ⟨x, hx, hyd, _⟩ := hjobs' y hy
    rw [hyd]; exact hle x hx
  · intro b hb'
    rw [hact] at hb'; simp at hb'; subst hb'
    exact hawake
  · intro h
    rw [hstop] at h
    have := hb.noActStopped h
    rw [hsa] at this; cases this

/-- a freshly recorded always/sometimes discovery of the single BFS worker is a shortest path to a witness -/
theorem new_disc_shortest {s : St σ κ} (hx : Ctx (P := P) s) (hb : BInv P s) {j : Job σ} {i : Nat} {aw : Bool}
    (ha : s.active[0]? = some ⟨j, .props i aw⟩) {p : Prop' σ} (hp : P.props[i]? = some p)
    (hnd : hasDisc s.disc i = false) (hne : p.exp ≠ .eventually) :
    ∀ e ∈ discInsert s.disc i j.path, ∀ pr, P.props[e.1]? = some pr → pr.exp ≠ .eventually →
      ∀ q t, P.M.IsPath q → q.getLast? = some t → Wit pr t → e.2.length ≤ q.length := by
  intro e he pr hpr hev q t hq hl hw
  rcases mem_discInsert he with rfl | he
  · simp only at hpr ⊢
    rw [hp] at hpr; cases hpr
    have hsa := single_active hb ha
    have ham : (⟨j, .props i aw⟩ : Active σ) ∈ s.active := by rw [hsa]; exact List.mem_singleton.2 rfl
    have hjo := hx.sinv.ac _ ham
    have hi : i < P.props.length := (List.getElem?_eq_some_iff.1 hp).1
    have hearly := early_false_of_undiscovered hx hb (by rw [hsa]; simp) hi hnd
    apply Classical.byContradiction
    intro hcon
    have hlt : q.length < j.depth := by
      have : j.depth = j.path.length := hjo.depth
      omega
    have hdone := short_path_done hx hb hearly hq hl (by
      intro x hx'
      rw [mem_jobsOf] at hx'
      rcases hx' with hx' | ⟨a, ha', rfl⟩
      · have := (hb.actLe _ ham x hx').1
        simp only at this; omega
      · rw [hsa] at ha'; simp at ha'; subst ha'; exact hlt)
    have := hx.vinv.done t hdone i p hp hw
    rw [hnd] at this; cases this
  · exact hb.shortDisc e he pr hpr hev q t hq hl hw

theorem binv_evalProp {s : St σ κ} (hx : Ctx (P := P) s) (hb : BInv P s) : BInv P (stepEvalProp P 0 false s) := by
  unfold stepEvalProp
  split
  · rename_i j i aw ha
    have hsa := single_active hb ha
    have ham : (⟨j, .props i aw⟩ : Active σ) ∈ s.active := by rw [hsa]; exact List.mem_singleton.2 rfl
    have hold := (hb.awake _ ham).1
    split
    · exact hb
    · rename_i p hp
      have hi : i < P.props.length := (List.getElem?_eq_some_iff.1 hp).1
      have hset : ∀ a' : Active σ, s.active.set 0 a' = [a'] := by intro a'; rw [hsa]; rfl
      -- the awake clause for an unchanged flag
      have keepAw : ∀ (d' : List (Nat × List σ)), (∀ k, k < i → hasDisc s.disc k = false → hasDisc d' k = false) →
          (∀ k, (Phase.props (i+1) aw : Phase σ) = .props k true → ∃ n, n < k ∧ n < P.props.length ∧ hasDisc d' n = false) ∧
          (∀ r, (Phase.props (i+1) aw : Phase σ) = .expanding r → ∃ n, n < P.props.length ∧ hasDisc d' n = false) := by
        intro d' hmono
        refine ⟨?_, by intro r hr; cases hr⟩
        intro k hk
        cases hk
        obtain ⟨n, hn, hnl, hnd⟩ := hold i rfl
        exact ⟨n, by omega, hnl, hmono n hn hnd⟩
      have insKeep : ∀ k, k < i → hasDisc s.disc k = false → hasDisc (discInsert s.disc i j.path) k = false := by
        intro k hk hd
        rw [hasDisc_insert, hd]
        have : (k == i) = false := by simp; omega
        simp [this]
      split
      · exact binv_set0 hb ha (by rfl) (by rfl) rfl rfl rfl rfl rfl (hset _) (keepAw s.disc (fun _ _ h => h)) hb.shortDisc
      · rename_i hpres
        have hnd : hasDisc s.disc i = false := by
          cases hh : hasDisc s.disc i with
          | false => rfl
          | true => simp [hh] at hpres
        have newAw : (∀ k, (Phase.props (i+1) true : Phase σ) = .props k true → ∃ n, n < k ∧ n < P.props.length ∧ hasDisc s.disc n = false) ∧
            (∀ r, (Phase.props (i+1) true : Phase σ) = .expanding r → ∃ n, n < P.props.length ∧ hasDisc s.disc n = false) :=
          ⟨by intro k hk; cases hk; exact ⟨i, Nat.lt_succ_self _, hi, hnd⟩, by intro r hr; cases hr⟩
        split
        · rename_i hexp
          have hne : p.exp ≠ .eventually := by rw [hexp]; intro e; cases e
          split
          · exact binv_set0 hb ha (by rfl) (by rfl) rfl rfl rfl rfl rfl (hset _) (keepAw _ insKeep)
              (new_disc_shortest hx hb ha hp hnd hne)
          · exact binv_set0 hb ha (by rfl) (by rfl) rfl rfl rfl rfl rfl (hset _) newAw hb.shortDisc
        · rename_i hexp
          have hne : p.exp ≠ .eventually := by rw [hexp]; intro e; cases e
          split
          · exact binv_set0 hb ha (by rfl) (by rfl) rfl rfl rfl rfl rfl (hset _) (keepAw _ insKeep)
              (new_disc_shortest hx hb ha hp hnd hne)
          · exact binv_set0 hb ha (by rfl) (by rfl) rfl rfl rfl rfl rfl (hset _) newAw hb.shortDisc
        · exact binv_set0 hb ha (by dsimp only; split <;> rfl) (by dsimp only; split <;> rfl) rfl rfl rfl rfl rfl (hset _) newAw hb.shortDisc
  · exact hb

/-- the single worker leaves (retired or dropped): frontier, visits, gen unchanged, nobody active.
    `lower'` is the only clause that needs an argument. -/
theorem binv_leave {s s' : St σ κ} (hb : BInv P s) {a : Active σ} (ha : s.active[0]? = some a)
    (hfr : s'.frontier = s.frontier) (hvis : s'.visits = s.visits) (hdisc : s'.disc = s.disc)
    (hstop : s'.stopped = s.stopped) (hact : s'.active = [])
    (hlower : s'.early = false → ∀ q t, P.M.IsPath q → q.getLast? = some t →
            (∀ j ∈ s.frontier, q.length ≤ j.depth) → P.key t ∈ s'.gen) :
    BInv P s' := by
  have hsa := single_active hb ha
  have ham : a ∈ s.active := by rw [hsa]; exact List.mem_singleton.2 rfl
  have hjobs : ∀ x ∈ jobsOf s', x ∈ jobsOf s := by
    intro x hx
    rw [mem_jobsOf, hfr, hact] at hx
    rcases hx with hx | ⟨b, hb', _⟩
    · exact mem_jobsOf.2 (Or.inl hx)
    · simp at hb'
  refine ⟨(by rw [hact]; simp), (by rw [hfr]; exact hb.sorted), (by intro b hb'; rw [hact] at hb'; simp at hb'), ?_,
    (fun p hp x hx => hb.visLe p (by rw [← hvis]; exact hp) x (hjobs x hx)), (by rw [hvis]; exact hb.visSorted),
    (fun x hx => hb.shortJob x (hjobs x hx)), (by rw [hvis]; exact hb.shortVis), ?_,
    (by intro b hb'; rw [hact] at hb'; simp at hb'), (fun _ => hact), (by rw [hdisc]; exact hb.shortDisc)⟩
  · intro _ j hj j' hj'
    rw [hfr] at hj hj'
    have h1 := hb.actLe a ham j hj
    have h2 := hb.actLe a ham j' hj'
    omega
  · intro he q t hq hl hle
    refine hlower he q t hq hl ?_
    intro j hj
    exact hle j (mem_jobsOf.2 (Or.inl (by rw [hfr]; exact hj)))

/-- when the single worker retires into `done`, every state with a path no longer than all pending jobs' depths
    is generated (the layer below the pending jobs is complete) -/
theorem lower_after_retire {s s' : St σ κ} (hx : Ctx (P := P) s) (hb : BInv P s)
    (hc' : CInv P s') (hfr : s'.frontier = s.frontier) (hact : s'.active = []) (hs' : SInv P s')
    (he : s'.early = false) :
    ∀ q t, P.M.IsPath q → q.getLast? = some t → (∀ j ∈ s.frontier, q.length ≤ j.depth) → P.key t ∈ s'.gen := by
  have c := hc' he
  have main : ∀ n (q : List σ), q.length ≤ n → ∀ t, P.M.IsPath q → q.getLast? = some t →
      (∀ j ∈ s.frontier, q.length ≤ j.depth) → P.key t ∈ s'.gen := by
    intro n
    induction n with
    | zero =>
      intro q hn t hq
      have := isPath_length_pos hq; omega
    | succ n ih =>
      intro q hn t hq hl hle
      have hne : q ≠ [] := Sys.isPath_ne_nil hq
      have hsplit := (List.dropLast_concat_getLast hne).symm
      have hlast : q.getLast hne = t := by
        rw [List.getLast?_eq_some_getLast hne] at hl; exact Option.some.inj hl
      rw [hlast] at hsplit
      by_cases hq' : q.dropLast = []
      · rw [hq'] at hsplit
        obtain ⟨x, rest, heq, hxi, _⟩ := hq
        rw [hsplit] at heq
        simp at heq; obtain ⟨rfl, _⟩ := heq
        exact c.initIn _ hxi
      · have hq2 : P.M.IsPath (q.dropLast ++ [t]) := by rw [← hsplit]; exact hq
        obtain ⟨hq1, u, hlu, htu⟩ := Sys.isPath_snoc_inv hq' hq2
        have hlen : q.dropLast.length = q.length - 1 := by simp
        have hku := ih q.dropLast (by omega) u hq1 hlu (fun j hj => by have := hle j hj; omega)
        obtain ⟨v, hv, hkv⟩ := c.genJob _ hku
        have hur : P.M.Reach u := Sys.reach_last_of_isPath hq1 hlu
        rw [mem_jobStates, hfr, hact] at hv
        rcases hv with ⟨j, hj, rfl⟩ | ⟨a, ha, _⟩ | hv
        · exfalso
          have hjm : j ∈ jobsOf s := mem_jobsOf.2 (Or.inl hj)
          have : j.st = u := hx.inj _ _ (job_reach hx.sinv hjm) hur hkv
          have h1 := hb.shortJob j hjm q.dropLast hq1 (by rw [hlu, this])
          have h2 := hle j hj
          have := isPath_length_pos hq
          omega
        · simp at ha
        · have : v = u := hx.inj _ _ (c.doneReach v hv) hur hkv
          subst this
          exact c.doneCl v hv t htu
  intro q t hq hl hle
  exact main q.length q (Nat.le_refl _) t hq hl hle

theorem binv_finishProps {s : St σ κ} (hx : Ctx (P := P) s) (hb : BInv P s) : BInv P (stepFinishProps P 0 s) := by
  unfold stepFinishProps
  split
  · rename_i j i aw ha
    have hsa := single_active hb ha
    have ham : (⟨j, .props i aw⟩ : Active σ) ∈ s.active := by rw [hsa]; exact List.mem_singleton.2 rfl
    have hset : ∀ a' : Active σ, s.active.set 0 a' = [a'] := by intro a'; rw [hsa]; rfl
    split
    · exact hb
    · split
      · exact binv_leave hb ha rfl rfl rfl rfl (by rw [hsa]; rfl) (by intro he; simp at he)
      · rename_i haw
        have hawt : aw = true := by cases aw <;> simp_all
        subst hawt
        obtain ⟨n, _, hnl, hnd⟩ := (hb.awake _ ham).1 i rfl
        split
        · exact binv_set0 hb ha (by rfl) (by rfl) rfl rfl rfl rfl rfl (hset _)
            ⟨(by intro k hk; cases hk), (by intro r hr; cases hr)⟩ hb.shortDisc
        · exact binv_set0 hb ha (by rfl) (by rfl) rfl rfl rfl rfl rfl (hset _)
            ⟨(by intro k hk; cases hk), (by intro r _; exact ⟨n, hnl, hnd⟩)⟩ hb.shortDisc
  · exact hb

theorem binv_record {s : St σ κ} (hx : Ctx (P := P) s) (hb : BInv P s) : BInv P (stepRecord P 0 s) := by
  have hstep : stepRecord P 0 s = step P (.record 0) s := rfl
  unfold stepRecord
  split
  · rename_i j i ha
    have hsa := single_active hb ha
    have ham : (⟨j, .recording i⟩ : Active σ) ∈ s.active := by rw [hsa]; exact List.mem_singleton.2 rfl
    have hset : ∀ a' : Active σ, s.active.set 0 a' = [a'] := by intro a'; rw [hsa]; rfl
    split
    · dsimp only
      split
      · rename_i hi hmem
        refine binv_set0 hb ha (by rfl) (by rfl) rfl rfl rfl rfl rfl (hset _)
          ⟨(by intro k hk; cases hk), (by intro r hr; cases hr)⟩ ?_
        intro e he pr hpr hev q t hq hl hw
        rcases mem_discInsert he with rfl | he
        · exact absurd ((hx.sinv.ac _ ham).eb i hmem pr hpr) hev
        · exact hb.shortDisc e he pr hpr hev q t hq hl hw
      · exact binv_set0 hb ha (by rfl) (by rfl) rfl rfl rfl rfl rfl (hset _)
          ⟨(by intro k hk; cases hk), (by intro r hr; cases hr)⟩ hb.shortDisc
    · rename_i hge
      have hs' := sinv_step (P := P) (.record 0) hx.sinv
      have hc' := cinv_step (P := P) (.record 0) hx.sinv hx.cinv
      simp only [step] at hs' hc'
      unfold stepRecord at hs' hc'
      rw [ha] at hs' hc'
      simp only [hge, if_false] at hs' hc'
      refine binv_leave hb ha rfl rfl rfl rfl (by rw [hsa]; rfl) ?_
      intro he
      exact lower_after_retire hx hb hc' rfl (by rw [hsa]; rfl) hs' he
  · exact hb

theorem binv_expand {s : St σ κ} (hx : Ctx (P := P) s) (hb : BInv P s) : BInv P (stepExpand P 0 false s) := by
  unfold stepExpand
  split
  · rename_i j rest ha
    have hsa := single_active hb ha
    have ham : (⟨j, .expanding rest⟩ : Active σ) ∈ s.active := by rw [hsa]; exact List.mem_singleton.2 rfl
    have hjo := hx.sinv.ac _ ham
    have hset : ∀ a' : Active σ, s.active.set 0 a' = [a'] := by intro a'; rw [hsa]; rfl
    obtain ⟨n, hnl, hnd⟩ := (hb.awake _ ham).2 rest rfl
    split
    · -- retire
      have hs' := sinv_step (P := P) (.expand 0 false) hx.sinv
      have hc' := cinv_step (P := P) (.expand 0 false) hx.sinv hx.cinv
      simp only [step] at hs' hc'
      unfold stepExpand at hs' hc'
      rw [ha] at hs' hc'
      simp only at hs' hc'
      refine binv_leave hb ha rfl rfl rfl rfl (by rw [hsa]; rfl) ?_
      intro he
      exact lower_after_retire hx hb hc' rfl (by rw [hsa]; rfl) hs' he
    · rename_i t rest'
      dsimp only
      have awk : (∀ k, (Phase.expanding rest' : Phase σ) = .props k true → ∃ m, m < k ∧ m < P.props.length ∧ hasDisc s.disc m = false) ∧
          (∀ r, (Phase.expanding rest' : Phase σ) = .expanding r → ∃ m, m < P.props.length ∧ hasDisc s.disc m = false) :=
        ⟨(by intro k hk; cases hk), (by intro r _; exact ⟨n, hnl, hnd⟩)⟩
      split
      · exact binv_set0 hb ha (by rfl) (by rfl) rfl rfl rfl rfl rfl (hset _) awk hb.shortDisc
      · rename_i hnin
        simp only [Bool.false_eq_true, if_false]
        -- a new job one level below the worker's state
        have hearly : s.early = false := early_false_of_undiscovered hx hb (by rw [hsa]; simp) hnl hnd
        have htsucc : t ∈ P.M.succB j.st := hx.sinv.exp _ ham _ rfl t List.mem_cons_self
        have hD : ∀ x ∈ jobsOf s, j.depth ≤ x.depth := by
          intro x hx'
          rw [mem_jobsOf] at hx'
          rcases hx' with hx' | ⟨a, ha', rfl⟩
          · exact (hb.actLe _ ham x hx').1
          · rw [hsa] at ha'; simp at ha'; subst ha'; exact Nat.le_refl _
        have hchildShort : ∀ q, P.M.IsPath q → q.getLast? = some t → j.depth + 1 ≤ q.length := by
          intro q hq hl
          apply Classical.byContradiction
          intro hcon
          have hk := hb.lower hearly q t hq hl (fun x hx' => by have := hD x hx'; omega)
          exact hnin hk
        let child : Job σ := { st := t, path := j.path ++ [t], ebits := j.ebits, depth := j.depth + 1 }
        have hjobs : ∀ x, x ∈ jobsOf ({ s with stateCount := s.stateCount + 1, gen := s.gen ++ [P.key t], frontier := s.frontier ++ [child], active := s.active.set 0 ⟨j, .expanding rest'⟩ } : St σ κ) ↔
            x = child ∨ x ∈ jobsOf s := by
          intro x
          simp only [mem_jobsOf, hsa, List.set_cons_zero, List.mem_append, List.mem_singleton, List.mem_cons, List.not_mem_nil, or_false]
          constructor
          · rintro ((h | h) | ⟨a, rfl, rfl⟩)
            · exact Or.inr (Or.inl h)
            · exact Or.inl h
            · exact Or.inr (Or.inr ⟨_, rfl, rfl⟩)
          · rintro (h | h | ⟨a, rfl, rfl⟩)
            · exact Or.inl (Or.inr h)
            · exact Or.inl (Or.inl h)
            · exact Or.inr ⟨_, rfl, rfl⟩
        refine ⟨(by simp [hsa]), ?_, ?_, (by intro h; rw [hset] at h; cases h), ?_, hb.visSorted, ?_, hb.shortVis, ?_, ?_, ?_, hb.shortDisc⟩
        · -- sorted
          simp only [List.map_append, List.map_cons, List.map_nil]
          rw [List.pairwise_append]
          refine ⟨hb.sorted, by simp, ?_⟩
          intro a ha' b hb'
          simp at hb'; subst hb'
          obtain ⟨x, hx', rfl⟩ := List.mem_map.1 ha'
          exact (hb.actLe _ ham x hx').2
        · intro a ha' x hx'
          rw [hset] at ha'; simp at ha'; subst ha'
          rcases List.mem_append.1 hx' with hx' | hx'
          · exact hb.actLe _ ham x hx'
          · simp at hx'; subst hx'; simp [child]
        · intro p hp x hx'
          rcases (hjobs x).1 hx' with rfl | hx'
          · have := hb.visLe p hp j (mem_jobsOf.2 (Or.inr ⟨_, ham, rfl⟩))
            simp only [child]; omega
          · exact hb.visLe p hp x hx'
        · intro x hx' q hq hl
          rcases (hjobs x).1 hx' with rfl | hx'
          · exact hchildShort q hq hl
          · exact hb.shortJob x hx' q hq hl
        · intro he q t' hq hl hle
          apply List.mem_append_left
          exact hb.lower he q t' hq hl (fun x hx' => hle x ((hjobs x).2 (Or.inr hx')))
        · intro a ha'
          rw [hset] at ha'; simp at ha'; subst ha'
          exact awk
        · intro h
          have := hb.noActStopped h
          rw [hsa] at this; cases this
  · exact hb

theorem binv_stop (why : Why) {s : St σ κ} (hb : BInv P s) (hact : s.active = []) : BInv P (stepStop P why s) := by
  unfold stepStop
  split
  · exact ⟨hb.single, hb.sorted, hb.actLe, hb.spread, hb.visLe, hb.visSorted, hb.shortJob, hb.shortVis, hb.lower,
      hb.awake, fun _ => hact, hb.shortDisc⟩
  · exact hb

theorem binv_dropJob (i : Nat) {s : St σ κ} (hb : BInv P s) : BInv P (stepDropJob P i s) := by
  unfold stepDropJob
  split
  · split
    · exact hb
    · have hsub : ∀ x ∈ s.frontier.eraseIdx i, x ∈ s.frontier := fun x hx => List.mem_of_mem_eraseIdx hx
      have hjobs : ∀ x ∈ jobsOf ({ s with frontier := s.frontier.eraseIdx i, early := true } : St σ κ), x ∈ jobsOf s := by
        intro x hx
        rw [mem_jobsOf] at hx ⊢
        rcases hx with hx | hx
        · exact Or.inl (hsub x hx)
        · exact Or.inr hx
      refine ⟨hb.single, ?_, fun a ha j hj => hb.actLe a ha j (hsub j hj),
        fun h j hj j' hj' => hb.spread h j (hsub j hj) j' (hsub j' hj'),
        fun p hp x hx => hb.visLe p hp x (hjobs x hx), hb.visSorted, fun x hx => hb.shortJob x (hjobs x hx), hb.shortVis,
        (by intro he; simp at he), hb.awake, hb.noActStopped, hb.shortDisc⟩
      exact hb.sorted.sublist ((List.eraseIdx_sublist _ _).map _)
  · exact hb

theorem binv_abandon (w : Nat) {s : St σ κ} (hb : BInv P s) : BInv P (stepAbandon w s) := by
  unfold stepAbandon
  split
  · rename_i hst
    rw [hb.noActStopped hst]; simp; exact hb
  · exact hb

/-- **the BFS invariant is preserved by every step of a FIFO single-worker run** -/
theorem binv_step (c : Choice) {s : St σ κ} (hx : Ctx (P := P) s) (hb : BInv P s) (hf : FifoOk s c) :
    BInv P (step P c s) := by
  cases c with
  | take i => obtain ⟨rfl, h1, h2⟩ := hf; exact binv_take hx hb h1 h2
  | evalProp w b => obtain ⟨rfl, rfl⟩ := hf; exact binv_evalProp hx hb
  | finishProps w => cases hf; exact binv_finishProps hx hb
  | expand w f => obtain ⟨rfl, rfl⟩ := hf; exact binv_expand hx hb
  | record w => cases hf; exact binv_record hx hb
  | stop why => exact binv_stop why hb hf
  | dropJob i => exact binv_dropJob i hb
  | abandon w => exact binv_abandon w hb

theorem ctx_step (c : Choice) {s : St σ κ} (hx : Ctx (P := P) s) : Ctx (P := P) (step P c s) :=
  ⟨hx.nodepth, hx.inj, sinv_step c hx.sinv, cinv_step c hx.sinv hx.cinv, vinv_step c hx.vinv,
   earlyReason_step c hx.vinv hx.early⟩

theorem binv_runFrom (s : St σ κ) (hx : Ctx (P := P) s) (hb : BInv P s) (cs : List Choice) (hf : FifoRun P s cs) :
    BInv P (runFrom P s cs) := by
  unfold runFrom
  induction cs generalizing s with
  | nil => exact hb
  | cons c cs ih =>
    simp only [List.foldl_cons]
    exact ih _ (ctx_step c hx) (binv_step c hx hb hf.1) hf.2

theorem binv_run (hnd : P.cfg.maxDepth = none)
    (hinj : ∀ a b, P.M.Reach a → P.M.Reach b → P.key a = P.key b → a = b)
    (cs : List Choice) (hf : FifoRun P (init P.M P.props P.key) cs) : BInv P (run P cs) :=
  binv_runFrom _ ⟨hnd, hinj, sinv_init, cinv_init, vinv_init, by intro he; simp [init] at he⟩ binv_init cs hf

end
end SR.Checker
