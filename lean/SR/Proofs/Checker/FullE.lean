import SR.Proofs.Checker.FullD
/-! Steps that discard jobs (`split` in a closed market, `stop`, `exit`, `xdrop`), `timeout`; the initial state; the
invariant along every run; the two projections. -/
namespace SR.Full
open SR SR.Checker SR.Market

section
variable {σ κ α : Type} [DecidableEq κ] {P : Params σ κ α}

/-- the common part of all discarding steps: the market has become `m'`, having thrown away the tokens `gone`;
    the machine (already in state `s`, reached from `x.c` without touching the frontier) drops the same jobs -/
theorem finv_drop {x : FState σ κ} (inv : FInv x) (s : St σ κ) (aw' : List Nat) (gone : List Tok) (m' : MState)
    (hf : s.frontier.length = x.c.frontier.length)
    (hawl : aw'.length = s.active.length) (hawn : aw'.Nodup)
    (hawr : ∀ v ∈ aw', m'.pcs[v]? = some Pc.running)
    (hmi : MInv m') (hoi : OInv m')
    (hcnt : ∀ u, (tokensIn m').count u + gone.count u = (tokensIn x.m).count u)
    (hcr : m'.created = x.m.created)
    (hidle : ∀ v, m'.pcs[v]? ≠ some Pc.running → locOf m' v = [])
    (hen : gone = [] ∨ s.stopped = true)
    (hclosed : m'.isOpen = false → s.stopped = true ∨ (tokensIn x.m = [] ∧ aw' = [])) :
    FInv { m := m', c := runFrom P s (dropToks gone x.ft).1, ft := (dropToks gone x.ft).2, aw := aw' } := by
  have hsub : ∀ u, gone.count u ≤ x.ft.count u := by
    intro u; have := hcnt u; have := inv.cnt u; omega
  obtain ⟨d1, d2, d3, d4⟩ := dropToks_spec P gone x.ft s hsub hen (inv.len.trans hf.symm)
  refine ⟨hmi, hoi, ?_, d1, dropToks_nodup gone x.ft inv.nodup, ?_, ?_, hawn, hawr, hidle, ?_⟩
  · intro u
    show (dropToks gone x.ft).2.count u = (tokensIn m').count u
    rw [d2 u]; have := hcnt u; have := inv.cnt u; omega
  · intro u hu
    show u ∈ m'.created
    rw [hcr]; exact inv.created u (dropToks_mem gone x.ft u hu)
  · show aw'.length = (runFrom P s (dropToks gone x.ft).1).active.length
    rw [d3]; exact hawl
  · intro hc
    show (runFrom P s (dropToks gone x.ft).1).stopped = true ∨ (tokensIn m' = [] ∧ aw' = [])
    rw [d4]
    rcases hclosed hc with h | ⟨h1, h2⟩
    · exact Or.inl h
    · refine Or.inr ⟨eq_nil_of_count fun u => ?_, h2⟩
      have := hcnt u; rw [h1] at this; simp at this; omega

theorem gone_nil_of_tokens_nil {m : MState} {gone : List Tok} (h : tokensIn m = [])
    (hsub : ∀ u, gone.count u ≤ (tokensIn m).count u) : gone = [] :=
  eq_nil_of_count fun u => by have := hsub u; rw [h] at this; simpa using this

theorem finv_split {x x' : FState σ κ} {w : Nat} {picks : List Nat} {ms : List Step} {cs : List Choice}
    (inv : FInv x) (h : fstep P x (.split w picks) = some (x', ms, cs)) : FInv x' := by
  simp only [fstep] at h
  split at h
  · rename_i hnaw
    cases hs : Market.step x.m (.split w picks) with
    | none => simp [hs] at h
    | some m' =>
      simp only [hs, Option.map_some, Option.some.injEq, Prod.mk.injEq] at h
      obtain ⟨rfl, _, _⟩ := h
      have hmi := minv_step inv.mi hs
      have hoi := oinv_step inv.mi.p inv.oi hs
      obtain ⟨hrun, hcase⟩ := split_eff hs
      have hwl : w < x.m.locs.length := by rw [← inv.mi.p.wf]; exact getElem?_lt_of_some hrun
      rcases hcase with ⟨hcl, hm'⟩ | ⟨hop, hm'⟩
      · -- closed market: the deque is cleared
        rw [if_neg (by simp [hcl])]
        apply finv_drop inv x.c x.aw (locOf x.m w) m' rfl inv.awlen inv.awnd ?_ hmi hoi ?_ ?_ ?_ ?_ ?_
        · subst hm'; exact inv.awrun
        · intro u
          subst hm'
          have := count_tokens_set x.m w [] hwl u
          simp only [tokensIn, List.count_nil, Nat.add_zero] at this ⊢
          exact this
        · subst hm'; rfl
        · intro v hv
          subst hm'
          by_cases e : v = w
          · subst e; exact getD_set_nil _ _
          · show (x.m.locs.set w []).getD v [] = []
            rw [getD_set_ne _ _ _ _ e]; exact inv.idle v hv
        · rcases inv.closed hcl with h1 | ⟨h1, _⟩
          · exact Or.inr h1
          · exact Or.inl (gone_nil_of_tokens_nil h1 (loc_count_le_tokens x.m w))
        · intro _; exact inv.closed hcl
      · -- open market: the jobs are only moved
        rw [if_pos hop]
        simp only [dropToks, runFrom, List.foldl_nil]
        refine ⟨hmi, hoi, ?_, inv.len, inv.nodup, ?_, inv.awlen, inv.awnd, ?_, ?_, ?_⟩
        · intro u
          subst hm'
          show x.ft.count u = _
          rw [inv.cnt u]
          have a := count_splitLoop u (splitPieces x.m (x.m.locs.getD w []).length - 1)
            (splitSize x.m (x.m.locs.getD w []).length) (x.m.locs.getD w []) x.m.batches
          have b := count_flatten_set u x.m.locs w
            (splitLoop (splitPieces x.m (x.m.locs.getD w []).length - 1)
              (splitSize x.m (x.m.locs.getD w []).length) (x.m.locs.getD w []) x.m.batches).1 hwl
          simp only [tokensIn, List.count_append] at a b ⊢
          omega
        · subst hm'; exact inv.created
        · intro v hv
          subst hm'
          show (notifyPicks x.m.pcs picks)[v]? = some Pc.running
          rw [notifyPicks_running_iff]; exact inv.awrun v hv
        · intro v hv
          subst hm'
          have hv : x.m.pcs[v]? ≠ some Pc.running := fun hr => hv ((notifyPicks_running_iff picks x.m.pcs v).2 hr)
          have hne : v ≠ w := fun e => hv (e ▸ hrun)
          show (x.m.locs.set w _).getD v [] = []
          rw [getD_set_ne _ _ _ _ hne]; exact inv.idle v hv
        · intro hc
          subst hm'
          have hc : x.m.isOpen = false := hc
          rw [hop] at hc; cases hc
  · simp at h

/-- the market after `Drop` by worker `w` -/
theorem drop_facts {x : FState σ κ} (inv : FInv x) {w : Nat} {m' : MState} (hs : Market.step x.m (.drop w) = some m') :
    x.m.pcs[w]? = some Pc.running ∧ m'.isOpen = false ∧ m'.created = x.m.created ∧
    (∀ u, (tokensIn m').count u + (x.m.batches.flatten ++ locOf x.m w).count u = (tokensIn x.m).count u) ∧
    (∀ v, v ≠ w → (m'.pcs[v]? = some Pc.running ↔ x.m.pcs[v]? = some Pc.running)) ∧
    (∀ v, m'.pcs[v]? ≠ some Pc.running → locOf m' v = []) := by
  obtain ⟨hrun, rfl⟩ := drop_eff hs
  have hwl : w < x.m.locs.length := by rw [← inv.mi.p.wf]; exact getElem?_lt_of_some hrun
  have hrunning : ∀ v, v ≠ w →
      (((notifyAll x.m.pcs).set w Pc.exited)[v]? = some Pc.running ↔ x.m.pcs[v]? = some Pc.running) := by
    intro v hne
    rw [List.getElem?_set_ne (Ne.symm hne), notifyAll_running_iff]
  refine ⟨hrun, rfl, rfl, ?_, hrunning, ?_⟩
  · intro u
    have := count_tokens_set x.m w [] hwl u
    simp only [tokensIn, List.count_append, List.count_nil, Nat.add_zero, List.flatten_nil, List.nil_append] at this ⊢
    omega
  · intro v hv
    by_cases e : v = w
    · subst e; exact getD_set_nil _ _
    · show (x.m.locs.set w []).getD v [] = []
      rw [getD_set_ne _ _ _ _ e]
      exact inv.idle v (fun hr => hv ((hrunning v e).2 hr))

theorem gone_le_tokens (m : MState) (w : Nat) (u : Tok) :
    (m.batches.flatten ++ locOf m w).count u ≤ (tokensIn m).count u := by
  have := locOf_count_le m w u
  simp only [tokensIn, List.count_append]; omega

theorem finv_stop {x x' : FState σ κ} {w : Nat} {why : Why} {ms : List Step} {cs : List Choice}
    (inv : FInv x) (h : fstep P x (.stop w why) = some (x', ms, cs)) : FInv x' := by
  simp only [fstep] at h
  split at h
  · rename_i hen
    cases hs : Market.step x.m (.drop w) with
    | none => simp [hs] at h
    | some m' =>
      simp only [hs, Option.map_some, Option.some.injEq, Prod.mk.injEq] at h
      obtain ⟨rfl, _, _⟩ := h
      have hmi := minv_step inv.mi hs
      have hoi := oinv_step inv.mi.p inv.oi hs
      obtain ⟨hrun, hcl, hcr, hcnt, hrunning, hidle⟩ := drop_facts inv hs
      obtain ⟨p1, p2, _, p4⟩ := stop_shape P why x.c
      have hst1 : (stepStop P why x.c).stopped = true := p4 hen
      rw [runFrom_append]
      -- the state after `stop why` and (if the worker had a current job) `abandon`
      have hpre : ∃ s, runFrom P x.c (Choice.stop why :: (if w ∈ x.aw then [Choice.abandon (x.aw.idxOf w)] else [])) = s ∧
          s.frontier.length = x.c.frontier.length ∧ (x.aw.erase w).length = s.active.length ∧ s.stopped = true := by
        refine ⟨_, rfl, ?_⟩
        by_cases hw : w ∈ x.aw
        · have hi : x.aw.idxOf w < (stepStop P why x.c).active.length := by
            rw [p2, ← inv.awlen]; exact List.idxOf_lt_length_iff.2 hw
          obtain ⟨a1, a2, a3⟩ := abandon_shape (x.aw.idxOf w) (stepStop P why x.c) hi hst1
          simp only [if_pos hw, runFrom, List.foldl_cons, List.foldl_nil, Checker.step]
          refine ⟨by rw [a1, p1], ?_, by rw [a3]; exact hst1⟩
          rw [List.length_erase_of_mem hw]
          have := inv.awlen; rw [p2] at a2; omega
        · simp only [if_neg hw, runFrom, List.foldl_cons, List.foldl_nil, Checker.step]
          refine ⟨by rw [p1], ?_, hst1⟩
          rw [List.erase_of_not_mem hw, p2]; exact inv.awlen
      obtain ⟨s, hs', sf, sa, sst⟩ := hpre
      rw [hs']
      apply finv_drop inv s (x.aw.erase w) _ m' sf sa (inv.awnd.erase w) ?_ hmi hoi hcnt hcr hidle (Or.inr sst)
        (fun _ => Or.inl sst)
      intro v hv
      have hv' : v ∈ x.aw := List.mem_of_mem_erase hv
      have hne : v ≠ w := by
        intro e; subst e
        exact (List.Nodup.mem_erase_iff inv.awnd).1 hv |>.1 rfl
      exact (hrunning v hne).2 (inv.awrun v hv')
  · simp at h

theorem finv_exit {x x' : FState σ κ} {w : Nat} {ms : List Step} {cs : List Choice}
    (inv : FInv x) (h : fstep P x (.exit w) = some (x', ms, cs)) : FInv x' := by
  simp only [fstep] at h
  split at h
  · rename_i hg
    obtain ⟨hclosed, hnaw⟩ := hg
    cases hs : Market.step x.m (.drop w) with
    | none => simp [hs] at h
    | some m' =>
      simp only [hs, Option.map_some, Option.some.injEq, Prod.mk.injEq] at h
      obtain ⟨rfl, _, _⟩ := h
      have hmi := minv_step inv.mi hs
      have hoi := oinv_step inv.mi.p inv.oi hs
      obtain ⟨hrun, hcl, hcr, hcnt, hrunning, hidle⟩ := drop_facts inv hs
      apply finv_drop inv x.c x.aw _ m' rfl inv.awlen inv.awnd ?_ hmi hoi hcnt hcr hidle ?_ (fun _ => inv.closed hclosed)
      · intro v hv
        have hne : v ≠ w := fun e => hnaw (e ▸ hv)
        exact (hrunning v hne).2 (inv.awrun v hv)
      · rcases inv.closed hclosed with h1 | ⟨h1, _⟩
        · exact Or.inr h1
        · exact Or.inl (gone_nil_of_tokens_nil h1 (gone_le_tokens x.m w))
  · simp at h

theorem finv_timeout {x x' : FState σ κ} {ms : List Step} {cs : List Choice}
    (inv : FInv x) (h : fstep P x .timeout = some (x', ms, cs)) : FInv x' := by
  simp only [fstep] at h
  split at h
  · rename_i hto
    cases hs : Market.step x.m .timeoutFire with
    | none => simp [hs] at h
    | some m' =>
      simp only [hs, Option.map_some, Option.some.injEq, Prod.mk.injEq] at h
      obtain ⟨rfl, _, _⟩ := h
      have hmi := minv_step inv.mi hs
      have hoi := oinv_step inv.mi.p inv.oi hs
      have := timeout_eff hs; subst this
      obtain ⟨p1, p2, _, p4⟩ := stop_shape P .timeout x.c
      have hst1 : (stepStop P .timeout x.c).stopped = true := p4 (by simpa [stopEnabled] using hto)
      refine ⟨hmi, hoi, inv.cnt, ?_, inv.nodup, inv.created, ?_, inv.awnd, inv.awrun, inv.idle, fun _ => Or.inl hst1⟩
      · show x.ft.length = (stepStop P .timeout x.c).frontier.length
        rw [p1]; exact inv.len
      · show x.aw.length = (stepStop P .timeout x.c).active.length
        rw [p2]; exact inv.awlen
  · simp at h

theorem finv_xdrop {x x' : FState σ κ} {ms : List Step} {cs : List Choice}
    (inv : FInv x) (h : fstep P x .xdrop = some (x', ms, cs)) : FInv x' := by
  simp only [fstep] at h
  cases hs : Market.step x.m .xdrop with
  | none => simp [hs] at h
  | some m' =>
    simp only [hs, Option.map_some, Option.some.injEq, Prod.mk.injEq] at h
    obtain ⟨rfl, _, _⟩ := h
    have hmi := minv_step inv.mi hs
    have hoi := oinv_step inv.mi.p inv.oi hs
    have := xdrop_eff hs; subst this
    rw [runFrom_append]
    have hcnt : ∀ u, (tokensIn (dropMarket x.m)).count u + x.m.batches.flatten.count u = (tokensIn x.m).count u := by
      intro u; simp only [tokensIn, dropMarket, List.count_append, List.flatten_nil, List.nil_append]; omega
    have hawr : ∀ v ∈ x.aw, (dropMarket x.m).pcs[v]? = some Pc.running := by
      intro v hv; show (notifyAll x.m.pcs)[v]? = some Pc.running
      rw [notifyAll_running_iff]; exact inv.awrun v hv
    have hidle : ∀ v, (dropMarket x.m).pcs[v]? ≠ some Pc.running → locOf (dropMarket x.m) v = [] := by
      intro v hv
      exact inv.idle v (fun hr => hv ((notifyAll_running_iff x.m.pcs v).2 hr))
    by_cases hop : x.m.isOpen = true
    · simp only [hop, if_true, runFrom, List.foldl_cons, List.foldl_nil, Checker.step]
      obtain ⟨p1, p2, _, p4⟩ := stop_shape P .panic x.c
      have hst1 : (stepStop P .panic x.c).stopped = true := p4 rfl
      exact finv_drop inv (stepStop P .panic x.c) x.aw _ _ (by rw [p1]) (by rw [p2]; exact inv.awlen) inv.awnd hawr
        hmi hoi hcnt rfl hidle (Or.inr hst1) (fun _ => Or.inl hst1)
    · have hcl : x.m.isOpen = false := by simpa using hop
      simp only [hcl, Bool.false_eq_true, if_false, runFrom, List.foldl_nil]
      apply finv_drop inv x.c x.aw _ _ rfl inv.awlen inv.awnd hawr hmi hoi hcnt rfl hidle ?_ (fun _ => inv.closed hcl)
      rcases inv.closed hcl with h1 | ⟨h1, _⟩
      · exact Or.inr h1
      · refine Or.inl (gone_nil_of_tokens_nil h1 fun u => ?_)
        simp only [tokensIn, List.count_append]; omega

/-- **the coupling invariant is preserved by every step of the concurrent checker** -/
theorem finv_step {x x' : FState σ κ} {f : FStep} {ms : List Step} {cs : List Choice}
    (inv : FInv x) (h : fstep P x f = some (x', ms, cs)) : FInv x' := by
  cases f with
  | pop w => exact finv_pop inv h
  | wake w => exact finv_wake inv h
  | split w picks => exact finv_split inv h
  | take w p => exact finv_take inv h
  | discard w p => exact finv_discard inv h
  | evalProp w b =>
    exact finv_onJob (mk := fun i => .evalProp i b) inv (fun i s => evalProp_shape P i b s) h
  | finishProps w =>
    exact finv_onJob (mk := fun i => .finishProps i) inv (fun i s => finishProps_shape P i s) h
  | record w =>
    exact finv_onJob (mk := fun i => .record i) inv (fun i s => record_shape P i s) h
  | expand w front tok back => exact finv_expand inv h
  | stop w why => exact finv_stop inv h
  | exit w => exact finv_exit inv h
  | timeout => exact finv_timeout inv h
  | xdrop => exact finv_xdrop inv h

end
end SR.Full
