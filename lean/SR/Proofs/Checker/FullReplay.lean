import SR.Drv.Full
import SR.Proofs.Checker.FullF
/-! The trace validator of `SR/Drv/Full.lean` only ever performs steps of the product: a trace it ACCEPTS is a run of the
concurrent checker of `Checker/Full.lean`, so the theorems of `Props/C05Full.lean` hold of that very run. -/
namespace SR.Drv.Full
open SR SR.Checker SR.Market SR.Full

variable (P : Params Nat Nat Nat)

/-- `x` is the state of some run of the product from `x0` -/
def IsRun (x0 x : FState Nat Nat) : Prop := ∃ fs : List FStep, x = (frunFrom P x0 fs).1

theorem isRun_refl (x0 : FState Nat Nat) : IsRun P x0 x0 := ⟨[], rfl⟩

theorem frunFrom_snoc (fs : List FStep) : ∀ (x : FState Nat Nat) (f : FStep) (x' : FState Nat Nat)
    (ms : List Step) (cs : List Choice), fstep P (frunFrom P x fs).1 f = some (x', ms, cs) →
    (frunFrom P x (fs ++ [f])).1 = x' := by
  induction fs with
  | nil =>
    intro x f x' ms cs h
    simp only [frunFrom] at h
    simp only [List.nil_append, frunFrom, h]
  | cons g gs ih =>
    intro x f x' ms cs h
    simp only [List.cons_append, frunFrom] at h ⊢
    cases hg : fstep P x g with
    | none => rw [hg] at h; simp only at h ⊢; exact ih x f x' ms cs h
    | some r =>
      obtain ⟨y, ms', cs'⟩ := r
      rw [hg] at h; simp only at h ⊢
      exact ih y f x' ms cs h

theorem isRun_stepE {x0 x x' : FState Nat Nat} {f : FStep} (hx : IsRun P x0 x) (h : stepE P x f = .ok x') :
    IsRun P x0 x' := by
  obtain ⟨fs, rfl⟩ := hx
  unfold stepE at h
  cases hf : fstep P (frunFrom P x0 fs).1 f with
  | none => rw [hf] at h; cases h
  | some r =>
    obtain ⟨y, ms, cs⟩ := r
    rw [hf] at h
    have : y = x' := by simpa [pure, Except.pure] using h
    subst this
    exact ⟨fs ++ [f], (frunFrom_snoc P fs x0 f y ms cs hf).symm⟩

theorem isRun_advance {x0 : FState Nat Nat} (w : Nat) : ∀ (fuel : Nat) (x x' : FState Nat Nat), IsRun P x0 x →
    advance P x w fuel = .ok x' → IsRun P x0 x' := by
  intro fuel
  induction fuel with
  | zero => intro x x' hx h; simp only [advance, pure, Except.pure, Except.ok.injEq] at h; exact h ▸ hx
  | succ fuel ih =>
    intro x x' hx h
    unfold advance at h
    split at h
    · simp only [pure, Except.pure, Except.ok.injEq] at h; exact h ▸ hx
    · rename_i a _
      split at h
      · split at h
        · simp only [pure, Except.pure, Except.ok.injEq] at h; exact h ▸ hx
        · cases hs : stepE P x (.finishProps w) with
          | error e => rw [hs] at h; simp [bind, Except.bind] at h
          | ok y => rw [hs] at h; simp only [bind, Except.bind] at h; exact ih y x' (isRun_stepE P hx hs) h
      · exact isRun_stepE P hx h
      · simp only [pure, Except.pure, Except.ok.injEq] at h; exact h ▸ hx
      · split at h
        · simp only [pure, Except.pure, Except.ok.injEq] at h; exact h ▸ hx
        · cases hs : stepE P x (.record w) with
          | error e => rw [hs] at h; simp [bind, Except.bind] at h
          | ok y => rw [hs] at h; simp only [bind, Except.bind] at h; exact ih y x' (isRun_stepE P hx hs) h

theorem bind_ok {α β : Type} {m : R α} {f : α → R β} {b : β} (h : (m >>= f) = .ok b) :
    ∃ a, m = .ok a ∧ f a = .ok b := by
  cases m with
  | error e => simp [bind, Except.bind] at h
  | ok a => exact ⟨a, rfl, by simpa [bind, Except.bind] using h⟩

theorem throw_ne_ok {α : Type} {e : String} {a : α} (h : (throw e : R α) = .ok a) : False := by cases h

/-- take `h : (do …) = .ok tv'` apart: binds become hypotheses, `if`/`match` are split, branches that throw close -/
macro "unbind" : tactic => `(tactic|
  repeat' (first
    | (exfalso; exact throw_ne_ok (by assumption))
    | (have hb := bind_ok ‹_ = Except.ok _›; clear ‹_ = Except.ok _›; obtain ⟨_, _, _⟩ := hb)
    | (split at ‹_ = Except.ok _›)))

macro "close_run" : tactic => `(tactic|
  (have hfin := ‹pure _ = Except.ok _›
   simp only [pure, Except.pure, Except.ok.injEq] at hfin
   subst hfin
   first | assumption | solve_by_elim (maxDepth := 10) [isRun_stepE, isRun_advance]))

theorem isRun_onePop {x0 : FState Nat Nat} (k : Nat) (tv tv' : TV) (e : Ev)
    (hx : IsRun P x0 tv.x) (h : onePop P k tv e = .ok tv') : IsRun P x0 tv'.x := by
  unfold onePop at h; simp only [] at h; unbind <;> close_run

theorem isRun_oneSplit {x0 : FState Nat Nat} (tv tv' : TV) (e : Ev)
    (hx : IsRun P x0 tv.x) (h : oneSplit P tv e = .ok tv') : IsRun P x0 tv'.x := by
  unfold oneSplit at h; simp only [] at h; unbind <;> close_run

theorem isRun_oneSplitClosed {x0 : FState Nat Nat} (tv tv' : TV) (e : Ev)
    (hx : IsRun P x0 tv.x) (h : oneSplitClosed P tv e = .ok tv') : IsRun P x0 tv'.x := by
  unfold oneSplitClosed at h; simp only [] at h; unbind <;> close_run

theorem isRun_oneDrop {x0 : FState Nat Nat} (k : Nat) (tv tv' : TV) (e : Ev)
    (hx : IsRun P x0 tv.x) (h : oneDrop P k tv e = .ok tv') : IsRun P x0 tv'.x := by
  unfold oneDrop at h; simp only [] at h; unbind <;> close_run

theorem isRun_oneTake {x0 : FState Nat Nat} (tv tv' : TV) (e : Ev)
    (hx : IsRun P x0 tv.x) (h : oneTake P tv e = .ok tv') : IsRun P x0 tv'.x := by
  unfold oneTake at h; simp only [] at h; unbind <;> close_run

theorem isRun_discardAll {x0 : FState Nat Nat} (w : Nat) : ∀ (ts : List Tok) (x x' : FState Nat Nat), IsRun P x0 x →
    discardAll P x w ts = .ok x' → IsRun P x0 x' := by
  intro ts
  induction ts with
  | nil => intro x x' hx h; simp only [discardAll, pure, Except.pure, Except.ok.injEq] at h; exact h ▸ hx
  | cons t ts ih =>
    intro x x' hx h
    simp only [discardAll] at h
    split at h
    · exact (throw_ne_ok h).elim
    · obtain ⟨y, hy, h'⟩ := bind_ok h
      exact ih y x' (isRun_stepE P hx hy) h'

theorem isRun_oneBlock {x0 : FState Nat Nat} (tv tv' : TV) (e : Ev)
    (hx : IsRun P x0 tv.x) (h : oneBlock P tv e = .ok tv') : IsRun P x0 tv'.x := by
  unfold oneBlock at h; simp only [] at h
  obtain ⟨x1, h1, h⟩ := bind_ok h
  have hr := isRun_advance P _ _ _ _ hx h1
  repeat' (split at h)
  all_goals first
    | exact (throw_ne_ok h).elim
    | (simp [bind, Except.bind, throw, throwThe, MonadExceptOf.throw] at h; done)
    | (simp only [pure, Except.pure, Except.ok.injEq] at h; subst h; exact hr)

theorem isRun_oneBlockEnd {x0 : FState Nat Nat} (tv tv' : TV) (e : Ev)
    (hx : IsRun P x0 tv.x) (h : oneBlockEnd P tv e = .ok tv') : IsRun P x0 tv'.x := by
  unfold oneBlockEnd at h; simp only [] at h
  obtain ⟨x1, h1, h⟩ := bind_ok h
  split at h
  · exact (throw_ne_ok h).elim
  split at h
  · exact (throw_ne_ok h).elim
  obtain ⟨x2, h2, h⟩ := bind_ok h
  simp only [pure, Except.pure, Except.ok.injEq] at h
  subst h
  exact isRun_discardAll P _ _ x1 x2 (isRun_advance P _ _ _ _ hx h1) h2

theorem isRun_oneTakeLocal {x0 : FState Nat Nat} (tv tv' : TV) (e : Ev)
    (hx : IsRun P x0 tv.x) (h : oneTakeLocal P tv e = .ok tv') : IsRun P x0 tv'.x := by
  unfold oneTakeLocal at h; simp only [] at h; unbind
  have hfin := ‹pure _ = Except.ok _›
  simp only [pure, Except.pure, Except.ok.injEq] at hfin
  subst hfin
  simp only [TV.setLocal]
  solve_by_elim (maxDepth := 10) [isRun_stepE, isRun_advance]

theorem isRun_oneProp {x0 : FState Nat Nat} (tv tv' : TV) (e : Ev)
    (hx : IsRun P x0 tv.x) (h : oneProp P tv e = .ok tv') : IsRun P x0 tv'.x := by
  unfold oneProp at h; simp only [] at h; unbind <;> close_run

theorem isRun_oneExpand {x0 : FState Nat Nat} (dfs : Bool) (tv tv' : TV) (e : Ev)
    (hx : IsRun P x0 tv.x) (h : oneExpand P dfs tv e = .ok tv') : IsRun P x0 tv'.x := by
  unfold oneExpand at h; simp only [] at h; unbind <;> close_run

theorem isRun_oneRecord {x0 : FState Nat Nat} (tv tv' : TV) (e : Ev)
    (hx : IsRun P x0 tv.x) (h : oneRecord P tv e = .ok tv') : IsRun P x0 tv'.x := by
  unfold oneRecord at h; simp only [] at h; unbind <;> close_run

theorem isRun_oneTimeout {x0 : FState Nat Nat} (tv tv' : TV)
    (hx : IsRun P x0 tv.x) (h : oneTimeout P tv = .ok tv') : IsRun P x0 tv'.x := by
  unfold oneTimeout at h; unbind <;> close_run

theorem isRun_one {x0 : FState Nat Nat} (k : Nat) (mode : Mode) (tv tv' : TV) (e : Ev)
    (hx : IsRun P x0 tv.x) (h : one P k mode tv e = .ok tv') : IsRun P x0 tv'.x := by
  unfold one at h
  split at h
  · exact isRun_onePop P k tv tv' e hx h
  · exact isRun_onePop P k tv tv' e hx h
  · exact isRun_onePop P k tv tv' e hx h
  · exact (throw_ne_ok h).elim
  · simp only [pure, Except.pure, Except.ok.injEq] at h; subst h; exact hx
  · exact isRun_oneSplit P tv tv' e hx h
  · exact isRun_oneSplitClosed P tv tv' e hx h
  · exact isRun_oneDrop P k tv tv' e hx h
  · exact isRun_oneTimeout P tv tv' hx h
  · split at h
    · exact isRun_oneTakeLocal P tv tv' e hx h
    · exact isRun_oneTake P tv tv' e hx h
  · exact isRun_oneProp P tv tv' e hx h
  · exact isRun_oneExpand P _ tv tv' e hx h
  · exact isRun_oneRecord P tv tv' e hx h
  · simp only [pure, Except.pure, Except.ok.injEq] at h; subst h; exact hx
  · split at h
    · exact isRun_oneBlock P tv tv' e hx h
    · exact (throw_ne_ok h).elim
  · split at h
    · exact isRun_oneBlockEnd P tv tv' e hx h
    · exact (throw_ne_ok h).elim
  · exact (throw_ne_ok h).elim

theorem isRun_replay {x0 : FState Nat Nat} (k : Nat) (mode : Mode) (es : List Ev) : ∀ (tv tv' : TV) (i : Nat),
    IsRun P x0 tv.x → replay P k mode tv i es = .ok tv' → IsRun P x0 tv'.x := by
  induction es with
  | nil => intro tv tv' i hx h; simp only [replay, pure, Except.pure, Except.ok.injEq] at h; subst h; exact hx
  | cons e es ih =>
    intro tv tv' i hx h
    simp only [replay] at h
    split at h
    · rename_i tv1 h1; exact ih tv1 tv' (i + 1) (isRun_one P k mode tv tv1 e hx h1) h
    · exact (throw_ne_ok h).elim

end SR.Drv.Full
