import SR.Checker.Sim
import SR.Proofs.Checker.Sim
import SR.Proofs.Checker.Fuel
/-!
# The fuel of the simulation model

`Sim.traceLoop` is a structural recursion on a fuel argument; `loopDone` (same arguments, same control flow) says whether
the loop has returned BY ITSELF (depth limit, boundary, loop found, nothing awaited, terminal state) rather than because
the fuel was used up.

* `traceLoop_stable`: a loop that is done is done with every larger fuel, and returns the very same result (any model).
* `loopDone_of_graph`: on a well-formed explicit graph with `n` states a trace is done after at most `n + 1`
  iterations: the states pushed to the path have pairwise distinct keys (the seen-set test), hence are pairwise
  distinct, and all of them are state numbers `< n` — whatever the key function is (symmetry: representatives).
* the number of traces: `runTraces_stable` (a run that ended in a stop condition is the same with any larger trace
  budget) and `runTraces_target` (if every trace counts at least one state, `target_state_count` traces suffice).
-/
namespace SR.Checker.Sim
open SR SR.Checker

section
variable {σ κ α : Type} [DecidableEq κ] (P : Params σ κ α)

/-- `true` iff `traceLoop` with the same arguments (`d` = `g.disc`) returns by itself, not because the fuel is used up -/
def loopDone (orc : Nat → Nat → Bool) : Nat → σ → List σ → List κ → List Nat → List Nat → List (Nat × List σ) → Bool
  | 0, _, _, _, _, _, _ => false
  | f + 1, st, path, gen, eb, ans, d =>
    if depthHit P path.length then true
    else if !P.M.inB st then true
    else
      let path' := path ++ [st]
      if P.key st ∈ gen then true
      else
        let r := propLoop P.props st path' eb d (orc path.length)
        if !r.2.1 then true
        else
          match pickNext P.M st ((P.M.acts st).length + 1) (P.M.acts st) ans with
          | (none, _) => true
          | (some n, ans') => loopDone orc f n path' (P.key st :: gen) r.1 ans' r.2.2

/-- the loop of this trace is done (a trace that does not start is done) -/
def traceDone (fuel : Nat) (ans : List Nat) (g : G σ) (orc : Nat → Nat → Bool := fun _ _ => false) : Bool :=
  match P.M.init with
  | [] => true
  | is =>
    let (k, ans') := nextAnswer ans is.length
    match is[k]? with
    | none => true
    | some s => loopDone P orc fuel s [] [] (initEbits P.props) ans' g.disc

/-- `finish_when` matches or the target state count is reached: the worker loop ends after this trace -/
def stops (g : G σ) : Bool := P.finishMatches (discNames g.disc) || targetHit P g.stateCount

/-- every trace that `runTraces` runs is done -/
def runDone (fuel : Nat) : Nat → List Nat → G σ → Bool
  | 0, _, _ => true
  | n + 1, ans, g =>
    traceDone P fuel ans g &&
      (let r := trace P fuel ans g
       if stops P r.1 then true else runDone fuel n r.2 r.1)

variable {P}

/-! ### more fuel changes nothing once the loop is done (any model) -/

theorem traceLoop_stable (orc : Nat → Nat → Bool) (f : Nat) :
    ∀ (st : σ) (path : List σ) (gen : List κ) (eb ans : List Nat) (g : G σ),
    loopDone P orc f st path gen eb ans g.disc = true → ∀ f', f ≤ f' →
    traceLoop P orc f' st path gen eb ans g = traceLoop P orc f st path gen eb ans g ∧
    loopDone P orc f' st path gen eb ans g.disc = true := by
  induction f with
  | zero => intro st path gen eb ans g h; simp [loopDone] at h
  | succ f ih =>
    intro st path gen eb ans g h f' hf'
    obtain ⟨f', rfl⟩ : ∃ k, f' = k + 1 := ⟨f' - 1, by omega⟩
    by_cases hd : depthHit P path.length = true
    · simp [traceLoop, loopDone, hd]
    by_cases hb : P.M.inB st = true
    case neg => simp [traceLoop, loopDone, hd, hb]
    by_cases hk : P.key st ∈ gen
    · simp [traceLoop, loopDone, hd, hb, hk]
    by_cases ha : (propLoop P.props st (path ++ [st]) eb g.disc (orc path.length)).2.1 = true
    case neg => simp [traceLoop, loopDone, hd, hb, hk, ha]
    cases hpick : pickNext P.M st ((P.M.acts st).length + 1) (P.M.acts st) ans with
    | mk o ans' =>
      cases o with
      | none => simp [traceLoop, loopDone, hd, hb, hk, ha, hpick]
      | some n =>
        simp only [loopDone, hd, hb, hk, ha, hpick, if_false, Bool.false_eq_true, Bool.not_true] at h
        simp only [traceLoop, loopDone, hd, hb, hk, ha, hpick, if_false, Bool.false_eq_true, Bool.not_true]
        exact ih _ _ _ _ _ _ h f' (by omega)

theorem trace_stable (f : Nat) (ans : List Nat) (g : G σ) (orc : Nat → Nat → Bool)
    (h : traceDone P f ans g orc = true) (f' : Nat) (hf : f ≤ f') :
    trace P f' ans g orc = trace P f ans g orc ∧ traceDone P f' ans g orc = true := by
  unfold trace traceDone at *
  cases hi : P.M.init with
  | nil => exact ⟨rfl, rfl⟩
  | cons i0 is =>
    rw [hi] at h
    simp only at h ⊢
    cases hs : (i0 :: is)[(nextAnswer ans (i0 :: is).length).1]? with
    | none => simp only; exact ⟨trivial, trivial⟩
    | some s =>
      rw [hs] at h
      exact traceLoop_stable orc f _ _ _ _ _ g h f' hf

theorem runTraces_fuel_stable (f : Nat) (n : Nat) : ∀ (ans : List Nat) (g : G σ),
    runDone P f n ans g = true → ∀ f', f ≤ f' →
    runTraces P f' n ans g = runTraces P f n ans g ∧ runDone P f' n ans g = true := by
  induction n with
  | zero => intro ans g _ f' _; exact ⟨rfl, rfl⟩
  | succ n ih =>
    intro ans g h f' hf
    unfold runDone at h
    simp only [Bool.and_eq_true] at h
    obtain ⟨h1, h2⟩ := h
    obtain ⟨e1, e2⟩ := trace_stable f ans g _ h1 f' hf
    unfold runTraces runDone
    simp only [e1, e2, Bool.true_and]
    by_cases hs : stops P (trace P f ans g).1 = true
    · have hs' := hs
      simp only [stops, Bool.or_eq_true] at hs'
      simp only [hs, if_true, and_true]
      rcases hs' with hs' | hs'
      · simp [hs']
      · by_cases hfm : P.finishMatches (discNames (trace P f ans g).1.disc) = true
        · simp [hfm]
        · simp [hfm, hs']
    · simp only [hs, Bool.false_eq_true, if_false] at h2 ⊢
      have hs' := hs
      simp only [stops, Bool.or_eq_true, not_or] at hs'
      simp only [hs'.1, hs'.2, Bool.false_eq_true, if_false]
      exact ih _ _ h2 f' hf

end

/-! ### explicit graphs: `n + 1` iterations are enough -/

section
variable {κ : Type} [DecidableEq κ] {P : Params Nat κ Nat}

omit [DecidableEq κ] in
theorem length_le_of_distinct_keys {n : Nat} {path : List Nat} (hlt : ∀ s ∈ path, s < n)
    (hpw : path.Pairwise (fun a b => P.key a ≠ P.key b)) : path.length ≤ n := by
  have hnd : path.Nodup := hpw.imp (fun h e => h (congrArg P.key e))
  have := hnd.length_le_of_subset (l₂ := List.range n) (fun x hx => List.mem_range.2 (hlt x hx))
  simpa using this

/-- **On a well-formed graph with `n` states the trace loop is done within `n + 1` iterations**, for every key
    function, property list, run control, oracle and answer list: `path` holds states `< n` with pairwise distinct
    keys, `gen` their keys. -/
theorem loopDone_of_graph {g : Graph} (hwf : g.WF) (hM : P.M = g.toSys) (orc : Nat → Nat → Bool) (f : Nat) :
    ∀ (st : Nat) (path : List Nat) (gen : List κ) (eb ans : List Nat) (d : List (Nat × List Nat)),
    st < g.n → (∀ s ∈ path, s < g.n) → path.Pairwise (fun a b => P.key a ≠ P.key b) →
    (∀ k, k ∈ gen ↔ ∃ t ∈ path, P.key t = k) → g.n + 1 ≤ f + path.length →
    loopDone P orc f st path gen eb ans d = true := by
  induction f with
  | zero =>
    intro st path gen eb ans d _ hlt hpw _ hf
    have := length_le_of_distinct_keys hlt hpw
    omega
  | succ f ih =>
    intro st path gen eb ans d hst0 hlt hpw hgen hf
    by_cases hd : depthHit P path.length = true
    · simp [loopDone, hd]
    by_cases hb : P.M.inB st = true
    case neg => simp [loopDone, hd, hb]
    by_cases hk : P.key st ∈ gen
    · simp [loopDone, hd, hb, hk]
    by_cases ha : (propLoop P.props st (path ++ [st]) eb d (orc path.length)).2.1 = true
    case neg => simp [loopDone, hd, hb, hk, ha]
    cases hpick : pickNext P.M st ((P.M.acts st).length + 1) (P.M.acts st) ans with
    | mk o ans' =>
      cases o with
      | none => simp [loopDone, hd, hb, hk, ha, hpick]
      | some n =>
        simp only [loopDone, hd, hb, hk, ha, hpick, if_false, Bool.false_eq_true, Bool.not_true]
        have hn : n < g.n := by
          have := pickNext_some hpick
          rw [hM] at this
          exact Graph.target_lt hwf this
        have hst : st < g.n := hst0
        apply ih
        · exact hn
        · intro s hs
          rcases List.mem_append.1 hs with hs | hs
          · exact hlt s hs
          · simp at hs; subst hs; exact hst
        · rw [List.pairwise_append]
          refine ⟨hpw, by simp, ?_⟩
          intro a hmem b hb
          simp at hb; subst hb
          intro e
          exact hk ((hgen _).2 ⟨a, hmem, e⟩)
        · intro k
          simp only [List.mem_cons, List.mem_append, List.not_mem_nil, or_false]
          constructor
          · rintro (rfl | hk')
            · exact ⟨st, Or.inr rfl, rfl⟩
            · obtain ⟨t, ht, rfl⟩ := (hgen k).1 hk'
              exact ⟨t, Or.inl ht, rfl⟩
          · rintro ⟨t, (ht | rfl), rfl⟩
            · exact Or.inr ((hgen _).2 ⟨t, ht, rfl⟩)
            · exact Or.inl rfl
        · simp only [List.length_append, List.length_singleton]; omega

theorem traceDone_of_graph {g : Graph} (hwf : g.WF) (hM : P.M = g.toSys) (f : Nat) (hf : g.n + 1 ≤ f)
    (ans : List Nat) (G₀ : G Nat) (orc : Nat → Nat → Bool) : traceDone P f ans G₀ orc = true := by
  unfold traceDone
  cases hi : P.M.init with
  | nil => rfl
  | cons i0 is =>
    simp only
    cases hs : (i0 :: is)[(nextAnswer ans (i0 :: is).length).1]? with
    | none => rfl
    | some s =>
      simp only
      have hmem : s ∈ g.init := by
        have := List.mem_of_getElem? hs
        rw [← hi, hM] at this; exact this
      exact loopDone_of_graph hwf hM orc f s [] [] _ _ _ (hwf.1 s hmem) (by simp) (by simp) (by simp)
        (by simp only [List.length_nil]; omega)

theorem runDone_of_graph {g : Graph} (hwf : g.WF) (hM : P.M = g.toSys) (f : Nat) (hf : g.n + 1 ≤ f) (n : Nat) :
    ∀ (ans : List Nat) (G₀ : G Nat), runDone P f n ans G₀ = true := by
  induction n with
  | zero => intro _ _; rfl
  | succ n ih =>
    intro ans G₀
    unfold runDone
    simp only [traceDone_of_graph hwf hM f hf, Bool.true_and]
    split
    · rfl
    · exact ih _ _

end

/-! ### the number of traces -/

/-- the hypotheses under which every trace counts at least one state: there is an initial state, every initial state
    is inside the boundary, the depth limit is not 0 -/
structure EveryTraceCounts {σ κ α : Type} (P : Params σ κ α) : Prop where
  init : P.M.init ≠ []
  inB : ∀ s ∈ P.M.init, P.M.inB s = true
  depth : P.cfg.maxDepth ≠ some 0

section
variable {σ κ α : Type} [DecidableEq κ] {P : Params σ κ α}

theorem runTraces_succ (f n : Nat) (ans : List Nat) (g : G σ) :
    runTraces P f (n + 1) ans g =
      if stops P (trace P f ans g).1 then (trace P f ans g).1
      else runTraces P f n (trace P f ans g).2 (trace P f ans g).1 := by
  simp only [runTraces, stops]
  by_cases h1 : P.finishMatches (discNames (trace P f ans g).1.disc) = true
  · simp [h1]
  · by_cases h2 : targetHit P (trace P f ans g).1.stateCount = true
    · simp [h1, h2]
    · simp [h1, h2]

/-- **A run that ended in a stop condition does not depend on the trace budget**: if the result of `n ≥ 1` traces
    satisfies `finish_when` or the target, every larger budget yields the very same result. -/
theorem runTraces_stable (f : Nat) (n : Nat) : ∀ (ans : List Nat) (g : G σ), 1 ≤ n →
    stops P (runTraces P f n ans g) = true → ∀ n', n ≤ n' → runTraces P f n' ans g = runTraces P f n ans g := by
  induction n with
  | zero => intro _ _ h; omega
  | succ n ih =>
    intro ans g _ hs n' hn'
    obtain ⟨n', rfl⟩ : ∃ k, n' = k + 1 := ⟨n' - 1, by omega⟩
    rw [runTraces_succ] at hs ⊢
    rw [runTraces_succ]
    by_cases h : stops P (trace P f ans g).1 = true
    · simp only [h, if_true]
    · simp only [h, Bool.false_eq_true, if_false] at hs ⊢
      cases n with
      | zero => simp only [runTraces] at hs; exact absurd hs h
      | succ n => exact ih _ _ (by omega) hs n' (by omega)

theorem traceLoop_count_mono (orc : Nat → Nat → Bool) (f : Nat) :
    ∀ (st : σ) (path : List σ) (gen : List κ) (eb ans : List Nat) (g : G σ),
    g.stateCount ≤ (traceLoop P orc f st path gen eb ans g).1.stateCount := by
  induction f with
  | zero => intro st path gen eb ans g; simp [traceLoop]
  | succ f ih =>
    intro st path gen eb ans g
    by_cases hd : depthHit P path.length = true
    · simp [traceLoop, hd]
    by_cases hb : P.M.inB st = true
    case neg => simp [traceLoop, hd, hb]
    by_cases hk : P.key st ∈ gen
    · simp [traceLoop, hd, hb, hk]
    by_cases ha : (propLoop P.props st (path ++ [st]) eb g.disc (orc path.length)).2.1 = true
    case neg => simp [traceLoop, hd, hb, hk, ha]
    cases hpick : pickNext P.M st ((P.M.acts st).length + 1) (P.M.acts st) ans with
    | mk o ans' =>
      cases o with
      | none => simp [traceLoop, hd, hb, hk, ha, hpick]
      | some n =>
        simp only [traceLoop, hd, hb, hk, ha, hpick, if_false, Bool.false_eq_true, Bool.not_true]
        refine Nat.le_trans ?_ (ih _ _ _ _ _ _)
        exact Nat.le_succ _

/-- an iteration that passes the depth, boundary and seen tests counts a state -/
theorem traceLoop_counts (orc : Nat → Nat → Bool) (f : Nat) (st : σ) (path : List σ) (gen : List κ)
    (eb ans : List Nat) (g : G σ) (hd : depthHit P path.length = false) (hb : P.M.inB st = true)
    (hk : P.key st ∉ gen) :
    g.stateCount + 1 ≤ (traceLoop P orc (f + 1) st path gen eb ans g).1.stateCount := by
  by_cases ha : (propLoop P.props st (path ++ [st]) eb g.disc (orc path.length)).2.1 = true
  case neg => simp [traceLoop, hd, hb, hk, ha]
  cases hpick : pickNext P.M st ((P.M.acts st).length + 1) (P.M.acts st) ans with
  | mk o ans' =>
    cases o with
    | none => simp [traceLoop, hd, hb, hk, ha, hpick]
    | some n =>
      simp only [traceLoop, hd, hb, hk, ha, hpick, if_false, Bool.false_eq_true, Bool.not_true]
      refine Nat.le_trans ?_ (traceLoop_count_mono orc f _ _ _ _ _ _)
      exact Nat.le_refl _

theorem trace_counts (hc : EveryTraceCounts P) (f : Nat) (ans : List Nat) (g : G σ) (orc : Nat → Nat → Bool) :
    g.stateCount + 1 ≤ (trace P (f + 1) ans g orc).1.stateCount := by
  unfold trace
  cases hi : P.M.init with
  | nil => exact absurd hi hc.init
  | cons i0 is =>
    simp only
    have hlt : (nextAnswer ans (i0 :: is).length).1 < (i0 :: is).length := by
      unfold nextAnswer; split
      · simp
      · exact Nat.mod_lt _ (by simp)
    cases hs : (i0 :: is)[(nextAnswer ans (i0 :: is).length).1]? with
    | none => rw [List.getElem?_eq_none_iff] at hs; omega
    | some s =>
      simp only
      have hmem : s ∈ P.M.init := by rw [hi]; exact List.mem_of_getElem? hs
      refine traceLoop_counts orc f s [] [] _ _ g ?_ (hc.inB s hmem) (by simp)
      have := hc.depth
      unfold depthHit
      cases hmd : P.cfg.maxDepth with
      | none => rfl
      | some d =>
        rw [hmd] at this
        have : d ≠ 0 := fun e => this (by rw [e])
        simp only [List.length_nil, decide_eq_false_iff_not]; omega

theorem runTraces_count (hc : EveryTraceCounts P) (f : Nat) (n : Nat) : ∀ (ans : List Nat) (g : G σ),
    stops P (runTraces P (f + 1) n ans g) = true ∨ g.stateCount + n ≤ (runTraces P (f + 1) n ans g).stateCount := by
  induction n with
  | zero => intro ans g; right; simp [runTraces]
  | succ n ih =>
    intro ans g
    rw [runTraces_succ]
    by_cases h : stops P (trace P (f + 1) ans g).1 = true
    · left; simp only [h, if_true]
    · simp only [h, Bool.false_eq_true, if_false]
      rcases ih (trace P (f + 1) ans g).2 (trace P (f + 1) ans g).1 with h1 | h1
      · exact Or.inl h1
      · right
        have := trace_counts hc f ans g (fun _ _ => false)
        omega

/-- **`target_state_count` traces are enough** when every trace counts a state: the run ends in a stop condition, and a
    larger trace budget yields the very same result. -/
theorem runTraces_target (hc : EveryTraceCounts P) {t : Nat} (ht : P.cfg.target = some t) (f n : Nat) (h1 : 1 ≤ n)
    (hn : t ≤ n) (ans : List Nat) (g : G σ) :
    stops P (runTraces P (f + 1) n ans g) = true ∧
    ∀ n', n ≤ n' → runTraces P (f + 1) n' ans g = runTraces P (f + 1) n ans g := by
  have hs : stops P (runTraces P (f + 1) n ans g) = true := by
    rcases runTraces_count hc f n ans g with h | h
    · exact h
    · simp only [stops, targetHit, ht, Bool.or_eq_true, decide_eq_true_eq]
      right; omega
  exact ⟨hs, runTraces_stable (f + 1) n ans g h1 hs⟩

end
end SR.Checker.Sim
