import SR.Checker.Sim
import SR.Proofs.Checker.Sim
import SR.Proofs.Checker.Fuel
import SR.Checker.MSimSched
/-!
# The fuel of the simulation model

`Sim.traceLoop` is a structural recursion on a fuel argument; `loopDone` (same arguments, same control flow) says whether
the loop has returned BY ITSELF (depth limit, boundary, loop found, nothing awaited, terminal state) rather than because
the fuel was used up.

* `traceLoop_stable`: a loop that is done is done with every larger fuel, and returns the very same result (any model).
* `loopDone_of_graph`: on a well-formed explicit graph with `n` states a trace is done after at most `n + 1`
  iterations: the states pushed to the path have pairwise distinct keys (the seen-set test), hence are pairwise
  distinct, and all of them are state numbers `< n` — whatever the key function is (symmetry: representatives).
* the number of traces: `runTraces_stable` (a run that ended in a stop condition is the same with any larger trace
  budget) and `runTraces_target` (if every trace counts at least one state, `target_state_count` traces suffice).

Second part (`namespace MSim`): ONE worker of the event machine `Checker/MSim.lean`, driven by the step list that the
chooser's answers induce (`Checker/MSimSched.lean`), IS the single-worker model: the machine accepts every step
(`runStrict`), and ends with the `disc` and `stateCount` of `Sim.traceLoop` / `Sim.trace` / `Sim.runTraces`
(`loop_run`, `trace_run`, `run_run`).
-/
namespace SR.Checker.Sim
open SR SR.Checker

section
variable {σ κ α : Type} [DecidableEq κ] (P : Params σ κ α)

/-- `true` iff `traceLoop` with the same arguments (`d` = `g.disc`) returns by itself, not because the fuel is used up -/
def loopDone (orc : Nat → Nat → Bool) : Nat → σ → List σ → List κ → List Nat → List Nat → List (Nat × List σ) → Bool
  | 0, _, _, _, _, _, _ => false
  | f + 1, st, path, gen, eb, ans, d =>
    if depthHit P path.length then true
    else if !P.M.inB st then true
    else
      let path' := path ++ [st]
      if P.key st ∈ gen then true
      else
        let r := propLoop P.props st path' eb d (orc path.length)
        if !r.2.1 then true
        else
          match pickNext P.M st ((P.M.acts st).length + 1) (P.M.acts st) ans with
          | (none, _) => true
          | (some n, ans') => loopDone orc f n path' (P.key st :: gen) r.1 ans' r.2.2

/-- the loop of this trace is done (a trace that does not start is done) -/
def traceDone (fuel : Nat) (ans : List Nat) (g : G σ) (orc : Nat → Nat → Bool := fun _ _ => false) : Bool :=
  match P.M.init with
  | [] => true
  | is =>
    let (k, ans') := nextAnswer ans is.length
    match is[k]? with
    | none => true
    | some s => loopDone P orc fuel s [] [] (initEbits P.props) ans' g.disc

/-- `finish_when` matches or the target state count is reached: the worker loop ends after this trace -/
def stops (g : G σ) : Bool := P.finishMatches (discNames g.disc) || targetHit P g.stateCount

/-- every trace that `runTraces` runs is done -/
def runDone (fuel : Nat) : Nat → List Nat → G σ → Bool
  | 0, _, _ => true
  | n + 1, ans, g =>
    traceDone P fuel ans g &&
      (let r := trace P fuel ans g
       if stops P r.1 then true else runDone fuel n r.2 r.1)

variable {P}

/-! ### more fuel changes nothing once the loop is done (any model) -/

theorem traceLoop_stable (orc : Nat → Nat → Bool) (f : Nat) :
    ∀ (st : σ) (path : List σ) (gen : List κ) (eb ans : List Nat) (g : G σ),
    loopDone P orc f st path gen eb ans g.disc = true → ∀ f', f ≤ f' →
    traceLoop P orc f' st path gen eb ans g = traceLoop P orc f st path gen eb ans g ∧
    loopDone P orc f' st path gen eb ans g.disc = true := by
  induction f with
  | zero => intro st path gen eb ans g h; simp [loopDone] at h
  | succ f ih =>
    intro st path gen eb ans g h f' hf'
    obtain ⟨f', rfl⟩ : ∃ k, f' = k + 1 := ⟨f' - 1, by omega⟩
    by_cases hd : depthHit P path.length = true
    · simp [traceLoop, loopDone, hd]
    by_cases hb : P.M.inB st = true
    case neg => simp [traceLoop, loopDone, hd, hb]
    by_cases hk : P.key st ∈ gen
    · simp [traceLoop, loopDone, hd, hb, hk]
    by_cases ha : (propLoop P.props st (path ++ [st]) eb g.disc (orc path.length)).2.1 = true
    case neg => simp [traceLoop, loopDone, hd, hb, hk, ha]
    cases hpick : pickNext P.M st ((P.M.acts st).length + 1) (P.M.acts st) ans with
    | mk o ans' =>
      cases o with
      | none => simp [traceLoop, loopDone, hd, hb, hk, ha, hpick]
      | some n =>
        simp only [loopDone, hd, hb, hk, ha, hpick, if_false, Bool.false_eq_true, Bool.not_true] at h
        simp only [traceLoop, loopDone, hd, hb, hk, ha, hpick, if_false, Bool.false_eq_true, Bool.not_true]
        exact ih _ _ _ _ _ _ h f' (by omega)

theorem trace_stable (f : Nat) (ans : List Nat) (g : G σ) (orc : Nat → Nat → Bool)
    (h : traceDone P f ans g orc = true) (f' : Nat) (hf : f ≤ f') :
    trace P f' ans g orc = trace P f ans g orc ∧ traceDone P f' ans g orc = true := by
  unfold trace traceDone at *
  cases hi : P.M.init with
  | nil => exact ⟨rfl, rfl⟩
  | cons i0 is =>
    rw [hi] at h
    simp only at h ⊢
    cases hs : (i0 :: is)[(nextAnswer ans (i0 :: is).length).1]? with
    | none => simp only; exact ⟨trivial, trivial⟩
    | some s =>
      rw [hs] at h
      exact traceLoop_stable orc f _ _ _ _ _ g h f' hf

theorem runTraces_fuel_stable (f : Nat) (n : Nat) : ∀ (ans : List Nat) (g : G σ),
    runDone P f n ans g = true → ∀ f', f ≤ f' →
    runTraces P f' n ans g = runTraces P f n ans g ∧ runDone P f' n ans g = true := by
  induction n with
  | zero => intro ans g _ f' _; exact ⟨rfl, rfl⟩
  | succ n ih =>
    intro ans g h f' hf
    unfold runDone at h
    simp only [Bool.and_eq_true] at h
    obtain ⟨h1, h2⟩ := h
    obtain ⟨e1, e2⟩ := trace_stable f ans g _ h1 f' hf
    unfold runTraces runDone
    simp only [e1, e2, Bool.true_and]
    by_cases hs : stops P (trace P f ans g).1 = true
    · have hs' := hs
      simp only [stops, Bool.or_eq_true] at hs'
      simp only [hs, if_true, and_true]
      rcases hs' with hs' | hs'
      · simp [hs']
      · by_cases hfm : P.finishMatches (discNames (trace P f ans g).1.disc) = true
        · simp [hfm]
        · simp [hfm, hs']
    · simp only [hs, Bool.false_eq_true, if_false] at h2 ⊢
      have hs' := hs
      simp only [stops, Bool.or_eq_true, not_or] at hs'
      simp only [hs'.1, hs'.2, Bool.false_eq_true, if_false]
      exact ih _ _ h2 f' hf

end

/-! ### explicit graphs: `n + 1` iterations are enough -/

section
variable {κ : Type} [DecidableEq κ] {P : Params Nat κ Nat}

omit [DecidableEq κ] in
theorem length_le_of_distinct_keys {n : Nat} {path : List Nat} (hlt : ∀ s ∈ path, s < n)
    (hpw : path.Pairwise (fun a b => P.key a ≠ P.key b)) : path.length ≤ n := by
  have hnd : path.Nodup := hpw.imp (fun h e => h (congrArg P.key e))
  have := hnd.length_le_of_subset (l₂ := List.range n) (fun x hx => List.mem_range.2 (hlt x hx))
  simpa using this

/-- **On a well-formed graph with `n` states the trace loop is done within `n + 1` iterations**, for every key
    function, property list, run control, oracle and answer list: `path` holds states `< n` with pairwise distinct
    keys, `gen` their keys. -/
theorem loopDone_of_graph {g : Graph} (hwf : g.WF) (hM : P.M = g.toSys) (orc : Nat → Nat → Bool) (f : Nat) :
    ∀ (st : Nat) (path : List Nat) (gen : List κ) (eb ans : List Nat) (d : List (Nat × List Nat)),
    st < g.n → (∀ s ∈ path, s < g.n) → path.Pairwise (fun a b => P.key a ≠ P.key b) →
    (∀ k, k ∈ gen ↔ ∃ t ∈ path, P.key t = k) → g.n + 1 ≤ f + path.length →
    loopDone P orc f st path gen eb ans d = true := by
  induction f with
  | zero =>
    intro st path gen eb ans d _ hlt hpw _ hf
    have := length_le_of_distinct_keys hlt hpw
    omega
  | succ f ih =>
    intro st path gen eb ans d hst0 hlt hpw hgen hf
    by_cases hd : depthHit P path.length = true
    · simp [loopDone, hd]
    by_cases hb : P.M.inB st = true
    case neg => simp [loopDone, hd, hb]
    by_cases hk : P.key st ∈ gen
    · simp [loopDone, hd, hb, hk]
    by_cases ha : (propLoop P.props st (path ++ [st]) eb d (orc path.length)).2.1 = true
    case neg => simp [loopDone, hd, hb, hk, ha]
    cases hpick : pickNext P.M st ((P.M.acts st).length + 1) (P.M.acts st) ans with
    | mk o ans' =>
      cases o with
      | none => simp [loopDone, hd, hb, hk, ha, hpick]
      | some n =>
        simp only [loopDone, hd, hb, hk, ha, hpick, if_false, Bool.false_eq_true, Bool.not_true]
        have hn : n < g.n := by
          have := pickNext_some hpick
          rw [hM] at this
          exact Graph.target_lt hwf this
        have hst : st < g.n := hst0
        apply ih
        · exact hn
        · intro s hs
          rcases List.mem_append.1 hs with hs | hs
          · exact hlt s hs
          · simp at hs; subst hs; exact hst
        · rw [List.pairwise_append]
          refine ⟨hpw, by simp, ?_⟩
          intro a hmem b hb
          simp at hb; subst hb
          intro e
          exact hk ((hgen _).2 ⟨a, hmem, e⟩)
        · intro k
          simp only [List.mem_cons, List.mem_append, List.not_mem_nil, or_false]
          constructor
          · rintro (rfl | hk')
            · exact ⟨st, Or.inr rfl, rfl⟩
            · obtain ⟨t, ht, rfl⟩ := (hgen k).1 hk'
              exact ⟨t, Or.inl ht, rfl⟩
          · rintro ⟨t, (ht | rfl), rfl⟩
            · exact Or.inr ((hgen _).2 ⟨t, ht, rfl⟩)
            · exact Or.inl rfl
        · simp only [List.length_append, List.length_singleton]; omega

theorem traceDone_of_graph {g : Graph} (hwf : g.WF) (hM : P.M = g.toSys) (f : Nat) (hf : g.n + 1 ≤ f)
    (ans : List Nat) (G₀ : G Nat) (orc : Nat → Nat → Bool) : traceDone P f ans G₀ orc = true := by
  unfold traceDone
  cases hi : P.M.init with
  | nil => rfl
  | cons i0 is =>
    simp only
    cases hs : (i0 :: is)[(nextAnswer ans (i0 :: is).length).1]? with
    | none => rfl
    | some s =>
      simp only
      have hmem : s ∈ g.init := by
        have := List.mem_of_getElem? hs
        rw [← hi, hM] at this; exact this
      exact loopDone_of_graph hwf hM orc f s [] [] _ _ _ (hwf.1 s hmem) (by simp) (by simp) (by simp)
        (by simp only [List.length_nil]; omega)

theorem runDone_of_graph {g : Graph} (hwf : g.WF) (hM : P.M = g.toSys) (f : Nat) (hf : g.n + 1 ≤ f) (n : Nat) :
    ∀ (ans : List Nat) (G₀ : G Nat), runDone P f n ans G₀ = true := by
  induction n with
  | zero => intro _ _; rfl
  | succ n ih =>
    intro ans G₀
    unfold runDone
    simp only [traceDone_of_graph hwf hM f hf, Bool.true_and]
    split
    · rfl
    · exact ih _ _

end

/-! ### the number of traces -/

/-- the hypotheses under which every trace counts at least one state: there is an initial state, every initial state
    is inside the boundary, the depth limit is not 0 -/
structure EveryTraceCounts {σ κ α : Type} (P : Params σ κ α) : Prop where
  init : P.M.init ≠ []
  inB : ∀ s ∈ P.M.init, P.M.inB s = true
  depth : P.cfg.maxDepth ≠ some 0

section
variable {σ κ α : Type} [DecidableEq κ] {P : Params σ κ α}

theorem runTraces_succ (f n : Nat) (ans : List Nat) (g : G σ) :
    runTraces P f (n + 1) ans g =
      if stops P (trace P f ans g).1 then (trace P f ans g).1
      else runTraces P f n (trace P f ans g).2 (trace P f ans g).1 := by
  simp only [runTraces, stops]
  by_cases h1 : P.finishMatches (discNames (trace P f ans g).1.disc) = true
  · simp [h1]
  · by_cases h2 : targetHit P (trace P f ans g).1.stateCount = true
    · simp [h1, h2]
    · simp [h1, h2]

/-- **A run that ended in a stop condition does not depend on the trace budget**: if the result of `n ≥ 1` traces
    satisfies `finish_when` or the target, every larger budget yields the very same result. -/
theorem runTraces_stable (f : Nat) (n : Nat) : ∀ (ans : List Nat) (g : G σ), 1 ≤ n →
    stops P (runTraces P f n ans g) = true → ∀ n', n ≤ n' → runTraces P f n' ans g = runTraces P f n ans g := by
  induction n with
  | zero => intro _ _ h; omega
  | succ n ih =>
    intro ans g _ hs n' hn'
    obtain ⟨n', rfl⟩ : ∃ k, n' = k + 1 := ⟨n' - 1, by omega⟩
    rw [runTraces_succ] at hs ⊢
    rw [runTraces_succ]
    by_cases h : stops P (trace P f ans g).1 = true
    · simp only [h, if_true]
    · simp only [h, Bool.false_eq_true, if_false] at hs ⊢
      cases n with
      | zero => simp only [runTraces] at hs; exact absurd hs h
      | succ n => exact ih _ _ (by omega) hs n' (by omega)

theorem traceLoop_count_mono (orc : Nat → Nat → Bool) (f : Nat) :
    ∀ (st : σ) (path : List σ) (gen : List κ) (eb ans : List Nat) (g : G σ),
    g.stateCount ≤ (traceLoop P orc f st path gen eb ans g).1.stateCount := by
  induction f with
  | zero => intro st path gen eb ans g; simp [traceLoop]
  | succ f ih =>
    intro st path gen eb ans g
    by_cases hd : depthHit P path.length = true
    · simp [traceLoop, hd]
    by_cases hb : P.M.inB st = true
    case neg => simp [traceLoop, hd, hb]
    by_cases hk : P.key st ∈ gen
    · simp [traceLoop, hd, hb, hk]
    by_cases ha : (propLoop P.props st (path ++ [st]) eb g.disc (orc path.length)).2.1 = true
    case neg => simp [traceLoop, hd, hb, hk, ha]
    cases hpick : pickNext P.M st ((P.M.acts st).length + 1) (P.M.acts st) ans with
    | mk o ans' =>
      cases o with
      | none => simp [traceLoop, hd, hb, hk, ha, hpick]
      | some n =>
        simp only [traceLoop, hd, hb, hk, ha, hpick, if_false, Bool.false_eq_true, Bool.not_true]
        refine Nat.le_trans ?_ (ih _ _ _ _ _ _)
        exact Nat.le_succ _

/-- an iteration that passes the depth, boundary and seen tests counts a state -/
theorem traceLoop_counts (orc : Nat → Nat → Bool) (f : Nat) (st : σ) (path : List σ) (gen : List κ)
    (eb ans : List Nat) (g : G σ) (hd : depthHit P path.length = false) (hb : P.M.inB st = true)
    (hk : P.key st ∉ gen) :
    g.stateCount + 1 ≤ (traceLoop P orc (f + 1) st path gen eb ans g).1.stateCount := by
  by_cases ha : (propLoop P.props st (path ++ [st]) eb g.disc (orc path.length)).2.1 = true
  case neg => simp [traceLoop, hd, hb, hk, ha]
  cases hpick : pickNext P.M st ((P.M.acts st).length + 1) (P.M.acts st) ans with
  | mk o ans' =>
    cases o with
    | none => simp [traceLoop, hd, hb, hk, ha, hpick]
    | some n =>
      simp only [traceLoop, hd, hb, hk, ha, hpick, if_false, Bool.false_eq_true, Bool.not_true]
      refine Nat.le_trans ?_ (traceLoop_count_mono orc f _ _ _ _ _ _)
      exact Nat.le_refl _

theorem trace_counts (hc : EveryTraceCounts P) (f : Nat) (ans : List Nat) (g : G σ) (orc : Nat → Nat → Bool) :
    g.stateCount + 1 ≤ (trace P (f + 1) ans g orc).1.stateCount := by
  unfold trace
  cases hi : P.M.init with
  | nil => exact absurd hi hc.init
  | cons i0 is =>
    simp only
    have hlt : (nextAnswer ans (i0 :: is).length).1 < (i0 :: is).length := by
      unfold nextAnswer; split
      · simp
      · exact Nat.mod_lt _ (by simp)
    cases hs : (i0 :: is)[(nextAnswer ans (i0 :: is).length).1]? with
    | none => rw [List.getElem?_eq_none_iff] at hs; omega
    | some s =>
      simp only
      have hmem : s ∈ P.M.init := by rw [hi]; exact List.mem_of_getElem? hs
      refine traceLoop_counts orc f s [] [] _ _ g ?_ (hc.inB s hmem) (by simp)
      have := hc.depth
      unfold depthHit
      cases hmd : P.cfg.maxDepth with
      | none => rfl
      | some d =>
        rw [hmd] at this
        have : d ≠ 0 := fun e => this (by rw [e])
        simp only [List.length_nil, decide_eq_false_iff_not]; omega

theorem runTraces_count (hc : EveryTraceCounts P) (f : Nat) (n : Nat) : ∀ (ans : List Nat) (g : G σ),
    stops P (runTraces P (f + 1) n ans g) = true ∨ g.stateCount + n ≤ (runTraces P (f + 1) n ans g).stateCount := by
  induction n with
  | zero => intro ans g; right; simp [runTraces]
  | succ n ih =>
    intro ans g
    rw [runTraces_succ]
    by_cases h : stops P (trace P (f + 1) ans g).1 = true
    · left; simp only [h, if_true]
    · simp only [h, Bool.false_eq_true, if_false]
      rcases ih (trace P (f + 1) ans g).2 (trace P (f + 1) ans g).1 with h1 | h1
      · exact Or.inl h1
      · right
        have := trace_counts hc f ans g (fun _ _ => false)
        omega

/-- **`target_state_count` traces are enough** when every trace counts a state: the run ends in a stop condition, and a
    larger trace budget yields the very same result. -/
theorem runTraces_target (hc : EveryTraceCounts P) {t : Nat} (ht : P.cfg.target = some t) (f n : Nat) (h1 : 1 ≤ n)
    (hn : t ≤ n) (ans : List Nat) (g : G σ) :
    stops P (runTraces P (f + 1) n ans g) = true ∧
    ∀ n', n ≤ n' → runTraces P (f + 1) n' ans g = runTraces P (f + 1) n ans g := by
  have hs : stops P (runTraces P (f + 1) n ans g) = true := by
    rcases runTraces_count hc f n ans g with h | h
    · exact h
    · simp only [stops, targetHit, ht, Bool.or_eq_true, decide_eq_true_eq]
      right; omega
  exact ⟨hs, runTraces_stable (f + 1) n ans g h1 hs⟩

end
end SR.Checker.Sim

/-! ## one worker of the event machine is the single-worker model -/

namespace SR.Checker.MSim
open SR SR.Checker

set_option linter.unusedSectionVars false
set_option linter.unusedSimpArgs false
section
variable {σ κ α : Type} [DecidableEq σ] [DecidableEq κ] {P : Params σ κ α}

theorem runStrict_append (s : St σ κ) (a b : List (Step σ)) :
    runStrict P s (a ++ b) = (runStrict P s a).bind (fun s' => runStrict P s' b) := by
  induction a generalizing s with
  | nil => rfl
  | cons f fs ih =>
    simp only [List.cons_append, runStrict]
    cases step P f s with
    | none => rfl
    | some s' => exact ih s'

theorem runFrom_of_runStrict {s s' : St σ κ} {fs : List (Step σ)} (h : runStrict P s fs = some s') :
    runFrom P s fs = s' := by
  induction fs generalizing s with
  | nil => simp only [runStrict] at h; injection h
  | cons f fs ih =>
    simp only [runStrict, runFrom] at h ⊢
    cases hs : step P f s with
    | none => rw [hs] at h; cases h
    | some s1 => rw [hs] at h; exact ih h

/-- the machine with one worker that is inside a trace -/
def W (d : List (Nat × List σ)) (c : Nat) (t : Tr σ κ) : St σ κ :=
  { disc := d, stateCount := c, shutdown := false, ws := [.busy t] }

/-- the machine with one worker in state `x` -/
def W1 (d : List (Nat × List σ)) (c : Nat) (x : WSt σ κ) : St σ κ :=
  { disc := d, stateCount := c, shutdown := false, ws := [x] }

theorem step_busy (f : Step σ) (hw : f.worker = 0) (d : List (Nat × List σ)) (c : Nat) (t : Tr σ κ) (e : Eff σ κ)
    (h : busyStep P f false d t = some e) :
    step P f (W d c t) = some (W1 (match e.ins with | some (i, p) => discInsert d i p | none => d)
      (if e.cnt then c + 1 else c) e.w') := by
  simp only [step, effOf, W, hw, List.getElem?_cons_zero, h, applyEff, W1, List.set_cons_zero]
  rcases e with ⟨w', _ | ⟨i, p⟩, cnt⟩ <;> rfl


theorem nodup_propStep {props : List (Prop' σ)} {st : σ} {path : List σ} {o : Nat → Bool}
    {acc : List Nat × Bool × List (Nat × List σ)} {i : Nat} (h : acc.1.Nodup) :
    (Sim.propStep props st path o acc i).1.Nodup := by
  unfold Sim.propStep
  repeat' split
  all_goals first
    | exact h
    | exact h.erase _

theorem prop_one (st : σ) (path : List σ) (gen : List κ) (c k : Nat) (acc : List Nat × Bool × List (Nat × List σ))
    (hk : k < P.props.length) (hnd : acc.1.Nodup) :
    runStrict P (W1 acc.2.2 c (.busy { cur := st, path := path, seen := gen, ebits := acc.1, awaiting := acc.2.1,
                                       ph := .props k }))
      (if hasDisc acc.2.2 k then [.evalProp 0 k] else [.evalProp 0 k, .applyProp 0 k]) =
    some (W1 (Sim.propStep P.props st path (fun _ => false) acc k).2.2 c
      (.busy { cur := st, path := path, seen := gen,
               ebits := (Sim.propStep P.props st path (fun _ => false) acc k).1,
               awaiting := (Sim.propStep P.props st path (fun _ => false) acc k).2.1, ph := .props (k + 1) })) := by
  by_cases hh : hasDisc acc.2.2 k = true
  · simp [runStrict, step, effOf, busyStep, applyEff, W1, Step.worker, hk, hh, Sim.propStep,
      hnd.erase_eq_filter]
  · have hh' : hasDisc acc.2.2 k = false := by simpa using hh
    cases hexp : (P.props[k]).exp <;> cases hc : (P.props[k]).cond st <;>
      simp [runStrict, step, effOf, busyStep, applyEff, W1, Step.worker, hk, hh', Sim.propStep, hexp, hc,
        hnd.erase_eq_filter]

theorem props_run (st : σ) (path : List σ) (gen : List κ) (c : Nat) :
    ∀ (m k : Nat) (acc : List Nat × Bool × List (Nat × List σ)), k + m = P.props.length → acc.1.Nodup →
    runStrict P (W1 acc.2.2 c (.busy { cur := st, path := path, seen := gen, ebits := acc.1, awaiting := acc.2.1,
                                       ph := .props k }))
      (propSteps P 0 st path (List.range' k m) acc) =
    some (W1 ((List.range' k m).foldl (Sim.propStep P.props st path (fun _ => false)) acc).2.2 c
      (.busy { cur := st, path := path, seen := gen,
               ebits := ((List.range' k m).foldl (Sim.propStep P.props st path (fun _ => false)) acc).1,
               awaiting := ((List.range' k m).foldl (Sim.propStep P.props st path (fun _ => false)) acc).2.1,
               ph := .props (k + m) })) := by
  intro m
  induction m with
  | zero => intro k acc _ _; rfl
  | succ m ih =>
    intro k acc hkm hnd
    simp only [List.range'_succ, propSteps, List.foldl_cons, runStrict_append]
    rw [prop_one st path gen c k acc (by omega) hnd]
    simp only [Option.bind_some]
    rw [ih (k + 1) _ (by omega) (nodup_propStep hnd)]
    simp only [Nat.add_assoc, Nat.add_comm 1 m]

theorem rec_run (st : σ) (path : List σ) (gen : List κ) (eb : List Nat) (aw : Bool) (c : Nat) :
    ∀ (m k : Nat) (d : List (Nat × List σ)), k + m = P.props.length →
    runStrict P (W1 d c (.busy { cur := st, path := path, seen := gen, ebits := eb, awaiting := aw, ph := .record k }))
      ((List.range' k m).map (Step.recordOne 0)) =
    some (W1 ((List.range' k m).foldl (fun d i => if i ∈ eb then discInsert d i path else d) d) c
      (.busy { cur := st, path := path, seen := gen, ebits := eb, awaiting := aw, ph := .record (k + m) })) := by
  intro m
  induction m with
  | zero => intro k d _; rfl
  | succ m ih =>
    intro k d hkm
    have hk : k < P.props.length := by omega
    simp only [List.range'_succ, List.map_cons, List.foldl_cons, runStrict]
    by_cases hmem : k ∈ eb
    · simp only [step, effOf, busyStep, applyEff, W1, Step.worker, hk, hmem, List.getElem?_cons_zero, and_self,
        if_true, if_false, Bool.false_eq_true, List.set_cons_zero]
      have := ih (k + 1) (discInsert d k path) (by omega)
      simp only [W1] at this
      rw [this]
      simp only [Nat.add_assoc, Nat.add_comm 1 m]
    · simp only [step, effOf, busyStep, applyEff, W1, Step.worker, hk, hmem, List.getElem?_cons_zero, and_self,
        if_true, if_false, Bool.false_eq_true, List.set_cons_zero]
      have := ih (k + 1) d (by omega)
      simp only [W1] at this
      rw [this]
      simp only [Nat.add_assoc, Nat.add_comm 1 m]

/-- the whole recording loop: `recordAll`, then the trace has ended -/
theorem recSteps_run (st : σ) (path : List σ) (gen : List κ) (eb : List Nat) (aw : Bool) (c : Nat)
    (d : List (Nat × List σ)) :
    runStrict P (W1 d c (.busy { cur := st, path := path, seen := gen, ebits := eb, awaiting := aw, ph := .record 0 }))
      (recSteps P 0) = some (W1 (Sim.recordAll P.props eb path d) c .ended) := by
  unfold recSteps
  rw [runStrict_append, List.range_eq_range', rec_run st path gen eb aw c P.props.length 0 d (by omega)]
  simp [runStrict, step, effOf, busyStep, applyEff, W1, Step.worker, Sim.recordAll, List.range_eq_range']

theorem propLoop_eq (st : σ) (path : List σ) (eb : List Nat) (d : List (Nat × List σ)) :
    (List.range' 0 P.props.length).foldl (Sim.propStep P.props st path (fun _ => false)) (eb, false, d) =
      Sim.propLoop P.props st path eb d := by
  simp only [Sim.propLoop, List.range_eq_range']

/-- **The loop of one trace**: the machine accepts every step of `loopSteps` and arrives at the `disc` and `stateCount`
    of `Sim.traceLoop`; if the loop is done (`Sim.loopDone`: the fuel did not run out) the trace has ended. -/
theorem loop_run (f : Nat) : ∀ (st : σ) (path : List σ) (gen : List κ) (eb ans : List Nat) (g : Sim.G σ) (aw : Bool),
    eb.Nodup →
    ∃ x, runStrict P (W1 g.disc g.stateCount
            (.busy { cur := st, path := path, seen := gen, ebits := eb, awaiting := aw, ph := .top }))
          (loopSteps P 0 f st path gen eb ans g.disc) =
        some (W1 (Sim.traceLoop P (fun _ _ => false) f st path gen eb ans g).1.disc
                 (Sim.traceLoop P (fun _ _ => false) f st path gen eb ans g).1.stateCount x) ∧
      (Sim.loopDone P (fun _ _ => false) f st path gen eb ans g.disc = true → x = .ended) := by
  induction f with
  | zero =>
    intro st path gen eb ans g aw _
    exact ⟨_, rfl, by simp [Sim.loopDone]⟩
  | succ f ih =>
    intro st path gen eb ans g aw hnd
    by_cases hd : Sim.depthHit P path.length = true
    · refine ⟨.ended, ?_, fun _ => rfl⟩
      simp [loopSteps, Sim.traceLoop, hd, runStrict, step, effOf, busyStep, enterOut, applyEff, W1, Step.worker]
    by_cases hb : P.M.inB st = true
    case neg =>
      refine ⟨.ended, ?_, fun _ => rfl⟩
      simp [loopSteps, Sim.traceLoop, hd, hb, runStrict, step, effOf, busyStep, enterOut, applyEff, W1, Step.worker]
    by_cases hk : P.key st ∈ gen
    · refine ⟨.ended, ?_, fun _ => rfl⟩
      simp only [loopSteps, Sim.traceLoop, hd, hb, hk, runStrict, if_true, if_false, Bool.false_eq_true, Bool.not_true]
      simp only [step, effOf, busyStep, enterOut, applyEff, W1, Step.worker, hd, hb, hk, List.getElem?_cons_zero,
        if_true, if_false, Bool.false_eq_true, Bool.not_true, List.set_cons_zero]
      have := recSteps_run (P := P) st (path ++ [st]) gen eb aw g.stateCount g.disc
      simp only [W1] at this
      exact this
    -- the state is counted: property loop
    have hprops := props_run (P := P) st (path ++ [st]) (P.key st :: gen) (g.stateCount + 1) P.props.length 0
      (eb, false, g.disc) (by omega) hnd
    rw [propLoop_eq] at hprops
    simp only [Nat.zero_add, ← List.range_eq_range'] at hprops
    have hndr : (Sim.propLoop P.props st (path ++ [st]) eb g.disc).1.Nodup := by
      rw [← propLoop_eq]
      generalize List.range' 0 P.props.length = l
      have : ∀ (l : List Nat) (acc : List Nat × Bool × List (Nat × List σ)), acc.1.Nodup →
          (l.foldl (Sim.propStep P.props st (path ++ [st]) (fun _ => false)) acc).1.Nodup := by
        intro l
        induction l with
        | nil => intro acc h; exact h
        | cons i l ih => intro acc h; exact ih _ (nodup_propStep h)
      exact this l _ hnd
    have henter : step P (.enter 0) (W1 g.disc g.stateCount
          (.busy { cur := st, path := path, seen := gen, ebits := eb, awaiting := aw, ph := .top })) =
        some (W1 g.disc (g.stateCount + 1)
          (.busy { cur := st, path := path ++ [st], seen := P.key st :: gen, ebits := eb, awaiting := false,
                   ph := .props 0 })) := by
      simp only [step, effOf, busyStep, enterOut, applyEff, W1, Step.worker, hd, hb, hk, List.getElem?_cons_zero,
        if_true, if_false, Bool.false_eq_true, Bool.not_true, List.set_cons_zero]
    by_cases ha : (Sim.propLoop P.props st (path ++ [st]) eb g.disc).2.1 = true
    case neg =>
      refine ⟨.ended, ?_, fun _ => rfl⟩
      simp only [loopSteps, Sim.traceLoop, hd, hb, hk, ha, runStrict, if_true, if_false, Bool.false_eq_true,
        Bool.not_true, Bool.not_false, henter, runStrict_append, hprops, Option.bind_some]
      simp [step, effOf, busyStep, applyEff, W1, Step.worker, ha]
    cases hpick : Sim.pickNext P.M st ((P.M.acts st).length + 1) (P.M.acts st) ans with
    | mk o ans' =>
      cases o with
      | none =>
        refine ⟨.ended, ?_, fun _ => rfl⟩
        have hterm : (P.M.succB st).isEmpty = true := by simp [Sim.pickNext_none hpick]
        simp only [loopSteps, Sim.traceLoop, hd, hb, hk, ha, hpick, runStrict, if_true, if_false,
          Bool.false_eq_true, Bool.not_true, Bool.not_false, henter, runStrict_append, hprops, Option.bind_some]
        simp only [step, effOf, busyStep, applyEff, W1, Step.worker, ha, hterm, List.getElem?_cons_zero,
          if_true, if_false, Bool.false_eq_true, Bool.not_true, List.set_cons_zero, Nat.lt_irrefl]
        have := recSteps_run (P := P) st (path ++ [st]) (P.key st :: gen)
          (Sim.propLoop P.props st (path ++ [st]) eb g.disc).1 true (g.stateCount + 1)
          (Sim.propLoop P.props st (path ++ [st]) eb g.disc).2.2
        simp only [W1] at this
        exact this
      | some n =>
        have hsucc : n ∈ P.M.succB st := Sim.pickNext_some hpick
        obtain ⟨x, hx1, hx2⟩ := ih n (path ++ [st]) (P.key st :: gen)
          (Sim.propLoop P.props st (path ++ [st]) eb g.disc).1 ans'
          { g with maxDepth := max g.maxDepth path.length, stateCount := g.stateCount + 1,
                   visits := (path ++ [st]) :: g.visits,
                   disc := (Sim.propLoop P.props st (path ++ [st]) eb g.disc).2.2 } true hndr
        refine ⟨x, ?_, ?_⟩
        · simp only [loopSteps, Sim.traceLoop, hd, hb, hk, ha, hpick, runStrict, if_true, if_false,
            Bool.false_eq_true, Bool.not_true, Bool.not_false, henter, runStrict_append, hprops, Option.bind_some]
          simp only [step, effOf, busyStep, applyEff, W1, Step.worker, ha, hsucc, List.getElem?_cons_zero,
            if_true, if_false, Bool.false_eq_true, Bool.not_true, List.set_cons_zero, Nat.lt_irrefl]
          simp only [W1] at hx1
          exact hx1
        · intro hdone
          apply hx2
          simpa only [Sim.loopDone, hd, hb, hk, ha, hpick, if_true, if_false, Bool.false_eq_true, Bool.not_true]
            using hdone

theorem step_start (d : List (Nat × List σ)) (c : Nat) (x : σ) (hx : x ∈ P.M.init) :
    step P (.start 0 x) (W1 d c .idle) = some (W1 d c (.busy (newTrace P x))) := by
  simp [step, effOf, W1, Step.worker, hx]

/-- **One trace**: from a worker at the top of its loop the machine accepts every step of `stepsOfTrace` and arrives at
    the `disc` and `stateCount` of `Sim.trace`; if there is an initial state and the fuel did not run out the trace has
    ended. -/
theorem trace_run (fuel : Nat) (ans : List Nat) (g : Sim.G σ) :
    ∃ x, runStrict P (W1 g.disc g.stateCount .idle) (stepsOfTrace P 0 fuel ans g.disc) =
        some (W1 (Sim.trace P fuel ans g).1.disc (Sim.trace P fuel ans g).1.stateCount x) ∧
      (P.M.init ≠ [] → Sim.traceDone P fuel ans g = true → x = .ended) := by
  unfold stepsOfTrace Sim.trace Sim.traceDone
  cases hi : P.M.init with
  | nil => exact ⟨.idle, rfl, fun h => absurd rfl h⟩
  | cons i0 is =>
    simp only
    have hlt : (Sim.nextAnswer ans (i0 :: is).length).1 < (i0 :: is).length := by
      unfold Sim.nextAnswer; split
      · simp
      · exact Nat.mod_lt _ (by simp)
    cases hs : (i0 :: is)[(Sim.nextAnswer ans (i0 :: is).length).1]? with
    | none => rw [List.getElem?_eq_none_iff] at hs; omega
    | some s =>
      simp only
      have hmem : s ∈ P.M.init := by rw [hi]; exact List.mem_of_getElem? hs
      obtain ⟨x, hx1, hx2⟩ := loop_run (P := P) fuel s [] [] (initEbits P.props)
        (Sim.nextAnswer ans (i0 :: is).length).2 g false (initEbits_nodup _)
      refine ⟨x, ?_, fun _ h => hx2 h⟩
      simp only [runStrict, step_start _ _ _ hmem, newTrace]
      exact hx1

theorem step_cont (d : List (Nat × List σ)) (c : Nat) (h : goesOn P (W1 d c .ended) = true) :
    step P (.cont 0) (W1 d c .ended) = some (W1 d c .idle) := by
  simp only [W1] at h
  simp [step, effOf, W1, Step.worker, h]

theorem step_leave_finish (d : List (Nat × List σ)) (c : Nat) (h : P.finishMatches (discNames d) = true) :
    step P (.leave 0 .finish) (W1 d c .ended) = some (W1 d c .left) := by
  simp [step, effOf, W1, Step.worker, h]

theorem step_leave_target (d : List (Nat × List σ)) (c : Nat) (h1 : P.finishMatches (discNames d) = false)
    (h2 : Sim.targetHit P c = true) :
    step P (.leave 0 .target) (W1 d c .ended) = some (W1 d c .left) := by
  simp [step, effOf, W1, Step.worker, h1, h2]

/-- **The worker loop**: if there is an initial state and no trace runs out of fuel (`Sim.runDone`), the machine accepts
    every step of `stepsOfRun` and arrives at the `disc` and `stateCount` of `Sim.runTraces`; the worker has left
    (`finish_when` / target) or is back at the top of its loop (the trace budget `n` is used up). -/
theorem run_run (hinit : P.M.init ≠ []) (fuel : Nat) (n : Nat) : ∀ (ans : List Nat) (g : Sim.G σ),
    Sim.runDone P fuel n ans g = true →
    ∃ x, runStrict P (W1 g.disc g.stateCount .idle) (stepsOfRun P 0 fuel n ans g) =
        some (W1 (Sim.runTraces P fuel n ans g).disc (Sim.runTraces P fuel n ans g).stateCount x) ∧
      (x = .left ∨ x = .idle) := by
  induction n with
  | zero => intro ans g _; exact ⟨.idle, rfl, Or.inr rfl⟩
  | succ n ih =>
    intro ans g hdone
    unfold Sim.runDone at hdone
    simp only [Bool.and_eq_true] at hdone
    obtain ⟨hd1, hd2⟩ := hdone
    obtain ⟨x, hx1, hx2⟩ := trace_run (P := P) fuel ans g
    have hx := hx2 hinit hd1
    subst hx
    unfold stepsOfRun Sim.runTraces
    simp only [runStrict_append, hx1, Option.bind_some]
    by_cases hf : P.finishMatches (discNames (Sim.trace P fuel ans g).1.disc) = true
    · refine ⟨.left, ?_, Or.inl rfl⟩
      simp only [hf, if_true, runStrict, step_leave_finish _ _ hf]
    · have hf' : P.finishMatches (discNames (Sim.trace P fuel ans g).1.disc) = false := by simpa using hf
      by_cases ht : Sim.targetHit P (Sim.trace P fuel ans g).1.stateCount = true
      · refine ⟨.left, ?_, Or.inl rfl⟩
        simp only [hf', ht, if_true, if_false, Bool.false_eq_true, runStrict, step_leave_target _ _ hf' ht]
      · have ht' : Sim.targetHit P (Sim.trace P fuel ans g).1.stateCount = false := by simpa using ht
        have hgo : goesOn P (W1 (Sim.trace P fuel ans g).1.disc (Sim.trace P fuel ans g).1.stateCount .ended) = true := by
          simp [goesOn, W1, hf', ht']
        have hns : Sim.stops P (Sim.trace P fuel ans g).1 = false := by simp [Sim.stops, hf', ht']
        simp only [hns, Bool.false_eq_true, if_false] at hd2
        obtain ⟨y, hy1, hy2⟩ := ih (Sim.trace P fuel ans g).2 (Sim.trace P fuel ans g).1 hd2
        refine ⟨y, ?_, hy2⟩
        simp only [hf', ht', if_false, Bool.false_eq_true, runStrict, step_cont _ _ hgo]
        exact hy1
end
end SR.Checker.MSim
