import SR.Proofs.Checker.Sound
/-!
Eventually-bits invariant: a set bit `i` of a job means that no state on the job's path evaluated so far
satisfies condition `i`; hence every recorded eventually-discovery is a path on which the condition never
holds and whose last state has no in-boundary successor.
(This is the repaired code: the bit of a property that already has a discovery is cleared when skipped.)
-/
namespace SR.Checker
open SR

section
variable {σ κ α : Type} [DecidableEq κ]
variable (P : Params σ κ α)

def Avoids (pr : Prop' σ) (p : List σ) : Prop := ∀ t ∈ p, pr.cond t = false

/-- bits of a job are faithful for the strict ancestors of its state -/
def EbAnc (j : Job σ) : Prop :=
  ∀ i ∈ j.ebits, ∀ pr, P.props[i]? = some pr → Avoids pr j.path.dropLast

/-- bits `i < k` of a job are faithful for its whole path -/
def EbUpTo (k : Nat) (j : Job σ) : Prop :=
  ∀ i ∈ j.ebits, i < k → ∀ pr, P.props[i]? = some pr → Avoids pr j.path

def PhaseOk (a : Active σ) : Prop :=
  match a.phase with
  | .props k _ => EbAnc P a.job ∧ EbUpTo P k a.job
  | .expanding _ => EbUpTo P P.props.length a.job
  | .recording _ => EbUpTo P P.props.length a.job ∧ P.M.succB a.job.st = []

structure EInv (s : St σ κ) : Prop where
  frNodup : ∀ j ∈ s.frontier, j.ebits.Nodup
  acNodup : ∀ a ∈ s.active, a.job.ebits.Nodup
  fr : ∀ j ∈ s.frontier, EbAnc P j
  ac : ∀ a ∈ s.active, PhaseOk P a
  disc : ∀ e ∈ s.disc, ∀ pr, P.props[e.1]? = some pr → pr.exp = .eventually →
            Avoids pr e.2 ∧ ∃ t, e.2.getLast? = some t ∧ P.M.succB t = []

variable {P}

theorem initEbits_nodup (props : List (Prop' σ)) : (initEbits props).Nodup := by
  unfold initEbits
  exact List.nodup_range.sublist List.filter_sublist

theorem einv_init : EInv P (init P.M P.props P.key) := by
  refine ⟨?_, by simp [init], ?_, by simp [init], by simp [init]⟩
  · intro j hj
    simp only [init, List.mem_map, List.mem_reverse] at hj
    obtain ⟨s, _, rfl⟩ := hj
    exact initEbits_nodup _
  · intro j hj
    simp only [init, List.mem_map, List.mem_reverse] at hj
    obtain ⟨s, _, rfl⟩ := hj
    intro i _ pr _ t ht
    simp at ht

theorem einv_take (i : Nat) {s : St σ κ} (h : EInv P s) : EInv P (stepTake P i s) := by
  unfold stepTake
  split
  · exact h
  · rename_i j hj
    have hjm : j ∈ s.frontier := List.mem_of_getElem? hj
    have hfrN : ∀ j' ∈ s.frontier.eraseIdx i, j'.ebits.Nodup := fun j' hj' => h.frNodup j' (List.mem_of_mem_eraseIdx hj')
    have hfr : ∀ j' ∈ s.frontier.eraseIdx i, EbAnc P j' := fun j' hj' => h.fr j' (List.mem_of_mem_eraseIdx hj')
    have hacN : ∀ a ∈ s.active ++ [({ job := j, phase := .props 0 false } : Active σ)], a.job.ebits.Nodup := by
      intro a ha
      rcases List.mem_append.1 ha with ha | ha
      · exact h.acNodup a ha
      · simp at ha; subst ha; exact h.frNodup j hjm
    have hac : ∀ a ∈ s.active ++ [({ job := j, phase := .props 0 false } : Active σ)], PhaseOk P a := by
      intro a ha
      rcases List.mem_append.1 ha with ha | ha
      · exact h.ac a ha
      · simp at ha; subst ha
        exact ⟨h.fr j hjm, fun i _ hi => absurd hi (Nat.not_lt_zero _)⟩
    dsimp only
    split
    · split
      · exact ⟨hfrN, h.acNodup, hfr, h.ac, h.disc⟩
      · exact ⟨hfrN, hacN, hfr, hac, h.disc⟩
    · exact ⟨hfrN, hacN, hfr, hac, h.disc⟩

theorem einv_set_active {s : St σ κ} (h : EInv P s) (w : Nat) (a' : Active σ)
    (hN : a'.job.ebits.Nodup) (hok : PhaseOk P a')
    (disc' : List (Nat × List σ))
    (hdisc : ∀ e ∈ disc', ∀ pr, P.props[e.1]? = some pr → pr.exp = .eventually →
            Avoids pr e.2 ∧ ∃ t, e.2.getLast? = some t ∧ P.M.succB t = []) :
    EInv P { s with active := s.active.set w a', disc := disc' } := by
  refine ⟨h.frNodup, ?_, h.fr, ?_, hdisc⟩
  · intro x hx
    rcases mem_set_cases hx with hx | rfl
    · exact h.acNodup x hx
    · exact hN
  · intro x hx
    rcases mem_set_cases hx with hx | rfl
    · exact h.ac x hx
    · exact hok

theorem path_eq_dropLast_append {p : List σ} {s : σ} (hl : p.getLast? = some s) : p = p.dropLast ++ [s] := by
  have hne : p ≠ [] := by intro e; subst e; simp at hl
  have := List.dropLast_concat_getLast hne
  rw [List.getLast?_eq_some_getLast hne] at hl
  cases hl
  exact this.symm

theorem avoids_of_dropLast {pr : Prop' σ} {p : List σ} {s : σ} (hl : p.getLast? = some s)
    (h1 : Avoids pr p.dropLast) (h2 : pr.cond s = false) : Avoids pr p := by
  intro t ht
  rw [path_eq_dropLast_append hl] at ht
  rcases List.mem_append.1 ht with ht | ht
  · exact h1 t ht
  · simp at ht; subst ht; exact h2

/-- a non-eventually always/sometimes discovery: the eventually clause is vacuous for it -/
theorem disc_insert_nonev {s : St σ κ} (h : EInv P s) {i : Nat} {p : List σ} {pr0 : Prop' σ}
    (hp : P.props[i]? = some pr0) (hne : pr0.exp ≠ .eventually) :
    ∀ e ∈ discInsert s.disc i p, ∀ pr, P.props[e.1]? = some pr → pr.exp = .eventually →
      Avoids pr e.2 ∧ ∃ t, e.2.getLast? = some t ∧ P.M.succB t = [] := by
  intro e he pr hpr hev
  rcases mem_discInsert he with rfl | he
  · simp only at hpr; rw [hp] at hpr; cases hpr; exact absurd hev hne
  · exact h.disc e he pr hpr hev

theorem einv_evalProp (w : Nat) (b : Bool) {s : St σ κ} (hs : SInv P s) (h : EInv P s) :
    EInv P (stepEvalProp P w b s) := by
  unfold stepEvalProp
  split
  · rename_i j i aw ha
    have ham : (⟨j, .props i aw⟩ : Active σ) ∈ s.active := List.mem_of_getElem? ha
    have hjo := hs.ac _ ham
    have hN : j.ebits.Nodup := h.acNodup _ ham
    have hok := h.ac _ ham
    obtain ⟨hanc, hupto⟩ := hok
    have hanc : EbAnc P j := hanc
    have hupto : EbUpTo P i j := hupto
    split
    · exact h
    · rename_i p hp
      -- bits other than `i` carry over to `i+1`
      have keep : ∀ (aw' : Bool), p.exp ≠ .eventually → PhaseOk P ⟨j, .props (i+1) aw'⟩ := by
        intro aw' hne
        refine ⟨hanc, ?_⟩
        intro k hk hlt pr hpr
        by_cases hki : k = i
        · subst hki
          have := hjo.eb k hk pr hpr
          rw [hp] at hpr; cases hpr
          exact absurd this hne
        · exact hupto k hk (by omega) pr hpr
      have erased : ∀ (aw' : Bool), PhaseOk P ⟨{ j with ebits := j.ebits.erase i }, .props (i+1) aw'⟩ := by
        intro aw'
        refine ⟨?_, ?_⟩
        · intro k hk pr hpr
          exact hanc k (List.mem_of_mem_erase hk) pr hpr
        · intro k hk hlt pr hpr
          have hk' := (List.Nodup.mem_erase_iff hN).1 hk
          exact hupto k hk'.2 (by have := hk'.1; omega) pr hpr
      split
      · exact einv_set_active h w _ (hN.erase _) (erased aw) s.disc h.disc
      · split
        · rename_i hexp
          have hne : p.exp ≠ .eventually := by intro e; rw [hexp] at e; cases e
          split
          · exact einv_set_active h w _ hN (keep aw hne) _ (disc_insert_nonev h hp hne)
          · exact einv_set_active h w _ hN (keep true hne) s.disc h.disc
        · rename_i hexp
          have hne : p.exp ≠ .eventually := by intro e; rw [hexp] at e; cases e
          split
          · exact einv_set_active h w _ hN (keep aw hne) _ (disc_insert_nonev h hp hne)
          · exact einv_set_active h w _ hN (keep true hne) s.disc h.disc
        · dsimp only
          split
          · exact einv_set_active h w _ (hN.erase _) (erased true) s.disc h.disc
          · rename_i hc
            have hok' : PhaseOk P ⟨j, .props (i+1) true⟩ := by
              refine ⟨hanc, ?_⟩
              intro k hk hlt pr hpr
              by_cases hki : k = i
              · subst hki
                rw [hp] at hpr; cases hpr
                exact avoids_of_dropLast hjo.last (hanc k hk p hp) (by simpa using hc)
              · exact hupto k hk (by omega) pr hpr
            exact einv_set_active h w _ hN hok' s.disc h.disc
  · exact h

theorem einv_erase_active {s : St σ κ} (h : EInv P s) (w : Nat) :
    (∀ a ∈ s.active.eraseIdx w, a.job.ebits.Nodup) ∧ (∀ a ∈ s.active.eraseIdx w, PhaseOk P a) :=
  ⟨fun a ha => h.acNodup a (List.mem_of_mem_eraseIdx ha), fun a ha => h.ac a (List.mem_of_mem_eraseIdx ha)⟩

theorem einv_finishProps (w : Nat) {s : St σ κ} (h : EInv P s) : EInv P (stepFinishProps P w s) := by
  unfold stepFinishProps
  split
  · rename_i j i aw ha
    have ham : (⟨j, .props i aw⟩ : Active σ) ∈ s.active := List.mem_of_getElem? ha
    have hN : j.ebits.Nodup := h.acNodup _ ham
    obtain ⟨_, hupto⟩ := h.ac _ ham
    have hupto : EbUpTo P i j := hupto
    split
    · exact h
    · rename_i hge
      have hall : EbUpTo P P.props.length j := fun k hk hlt pr hpr => hupto k hk (by omega) pr hpr
      split
      · exact ⟨h.frNodup, (einv_erase_active h w).1, h.fr, (einv_erase_active h w).2, h.disc⟩
      · split
        · rename_i hss
          exact einv_set_active h w ⟨j, .recording 0⟩ hN ⟨hall, hss⟩ s.disc h.disc
        · exact einv_set_active h w ⟨j, .expanding _⟩ hN hall s.disc h.disc
  · exact h

theorem einv_expand (w : Nat) (f : Bool) {s : St σ κ} (hs : SInv P s) (h : EInv P s) :
    EInv P (stepExpand P w f s) := by
  unfold stepExpand
  split
  · rename_i j rest ha
    have ham : (⟨j, .expanding rest⟩ : Active σ) ∈ s.active := List.mem_of_getElem? ha
    have hN : j.ebits.Nodup := h.acNodup _ ham
    have hall : EbUpTo P P.props.length j := h.ac _ ham
    have hjo := hs.ac _ ham
    split
    · exact ⟨h.frNodup, (einv_erase_active h w).1, h.fr, (einv_erase_active h w).2, h.disc⟩
    · rename_i t rest'
      dsimp only
      have hset := einv_set_active h w ⟨j, .expanding rest'⟩ hN hall s.disc h.disc
      split
      · exact ⟨hset.frNodup, hset.acNodup, hset.fr, hset.ac, hset.disc⟩
      · have hchildN : ({ st := t, path := j.path ++ [t], ebits := j.ebits, depth := j.depth + 1 } : Job σ).ebits.Nodup := hN
        have hchild : EbAnc P { st := t, path := j.path ++ [t], ebits := j.ebits, depth := j.depth + 1 } := by
          intro k hk pr hpr
          simp only [List.dropLast_concat]
          have hlt : k < P.props.length := (List.getElem?_eq_some_iff.1 hpr).1
          exact hall k hk hlt pr hpr
        refine ⟨?_, hset.acNodup, ?_, hset.ac, hset.disc⟩
        · intro x hx
          split at hx
          · rcases List.mem_cons.1 hx with rfl | hx
            · exact hchildN
            · exact h.frNodup x hx
          · rcases List.mem_append.1 hx with hx | hx
            · exact h.frNodup x hx
            · simp at hx; subst hx; exact hchildN
        · intro x hx
          split at hx
          · rcases List.mem_cons.1 hx with rfl | hx
            · exact hchild
            · exact h.fr x hx
          · rcases List.mem_append.1 hx with hx | hx
            · exact h.fr x hx
            · simp at hx; subst hx; exact hchild
  · exact h

theorem einv_record (w : Nat) {s : St σ κ} (hs : SInv P s) (h : EInv P s) : EInv P (stepRecord P w s) := by
  unfold stepRecord
  split
  · rename_i j i ha
    have ham : (⟨j, .recording i⟩ : Active σ) ∈ s.active := List.mem_of_getElem? ha
    have hN : j.ebits.Nodup := h.acNodup _ ham
    obtain ⟨hall, hterm⟩ := h.ac _ ham
    have hall : EbUpTo P P.props.length j := hall
    have hterm : P.M.succB j.st = [] := hterm
    have hjo := hs.ac _ ham
    split
    · rename_i hi
      dsimp only
      split
      · rename_i hmem
        refine einv_set_active h w ⟨j, .recording (i+1)⟩ hN ⟨hall, hterm⟩ _ ?_
        intro e he pr hpr hev
        rcases mem_discInsert he with rfl | he
        · exact ⟨hall i hmem hi pr hpr, j.st, hjo.last, hterm⟩
        · exact h.disc e he pr hpr hev
      · exact einv_set_active h w ⟨j, .recording (i+1)⟩ hN ⟨hall, hterm⟩ s.disc h.disc
    · exact ⟨h.frNodup, (einv_erase_active h w).1, h.fr, (einv_erase_active h w).2, h.disc⟩
  · exact h

theorem einv_stop (why : Why) {s : St σ κ} (h : EInv P s) : EInv P (stepStop P why s) := by
  unfold stepStop; split
  · exact ⟨h.frNodup, h.acNodup, h.fr, h.ac, h.disc⟩
  · exact h

theorem einv_dropJob (i : Nat) {s : St σ κ} (h : EInv P s) : EInv P (stepDropJob P i s) := by
  unfold stepDropJob; split
  · split
    · exact h
    · exact ⟨fun j hj => h.frNodup j (List.mem_of_mem_eraseIdx hj), h.acNodup,
        fun j hj => h.fr j (List.mem_of_mem_eraseIdx hj), h.ac, h.disc⟩
  · exact h

theorem einv_abandon (w : Nat) {s : St σ κ} (h : EInv P s) : EInv P (stepAbandon w s) := by
  unfold stepAbandon; split
  · split
    · exact h
    · exact ⟨h.frNodup, (einv_erase_active h w).1, h.fr, (einv_erase_active h w).2, h.disc⟩
  · exact h

theorem einv_step (c : Choice) {s : St σ κ} (hs : SInv P s) (h : EInv P s) : EInv P (step P c s) := by
  cases c with
  | take i => exact einv_take i h
  | evalProp w b => exact einv_evalProp w b hs h
  | finishProps w => exact einv_finishProps w h
  | expand w f => exact einv_expand w f hs h
  | record w => exact einv_record w hs h
  | stop why => exact einv_stop why h
  | dropJob i => exact einv_dropJob i h
  | abandon w => exact einv_abandon w h

theorem einv_run (cs : List Choice) : EInv P (run P cs) :=
  (runFrom_induction (fun s => SInv P s ∧ EInv P s)
    (fun c _ h => ⟨sinv_step c h.1, einv_step c h.1 h.2⟩) _ ⟨sinv_init, einv_init⟩ cs).2

end
end SR.Checker
