import SR.Checker.Sched
import SR.Proofs.Checker.Termination
import SR.Proofs.Checker.Control
/-!
# The single-threaded schedulers terminate

`Sched.lean` produces the choice list of the one-thread bfs / dfs / on-demand worker loop with a `fuel` argument.  On a
model with finitely many reachable states the loop comes to an end by itself: every iteration of the scheduler either
performs a state-changing machine step (the measure `mu` of `Termination.lean` drops) or is one of two bookkeeping
iterations (start a block / end a block) that cannot follow each other more than twice.  So `3 * mu + 2` iterations
suffice, the scheduler then returns, and the state it returns in is quiescent.
-/
namespace SR.Checker
open SR

section
variable {σ κ α : Type} [DecidableEq κ]
variable {P : Params σ κ α}

/-! ### the choices of the scheduler change the state -/

theorem take0_effective (s : St σ κ) (hfr : s.frontier ≠ []) : step P (.take 0) s ≠ s := by
  intro heq
  have hlen : (step P (.take 0) s).frontier.length = s.frontier.length := by rw [heq]
  cases hf : s.frontier with
  | nil => exact hfr hf
  | cons j tl =>
    simp only [step, stepTake, hf, List.getElem?_cons_zero, List.eraseIdx_cons_zero] at hlen
    revert hlen
    cases P.cfg.maxDepth with
    | none => simp
    | some d => simp only; split <;> simp

/-- what the single worker does next with its current job -/
def w0choice (P : Params σ κ α) (front : Bool) (a : Active σ) : Choice :=
  match a.phase with
  | .props i _ => if i < P.props.length then .evalProp 0 false else .finishProps 0
  | .expanding _ => .expand 0 front
  | .recording _ => .record 0

theorem w0_effective (front : Bool) (s : St σ κ) (a : Active σ) (ha0 : s.active[0]? = some a) :
    step P (w0choice P front a) s ≠ s := by
  cases ha : s.active with
  | nil => rw [ha] at ha0; cases ha0
  | cons a' rest =>
    have : a' = a := by rw [ha] at ha0; simpa using ha0
    subst this
    obtain ⟨j, ph⟩ := a'
    cases ph with
    | props i aw =>
      by_cases hi : i < P.props.length
      · simp only [w0choice, if_pos hi]
        have hp : P.props[i]? = some P.props[i] := List.getElem?_eq_getElem hi
        intro heq
        have h0 : (step P (.evalProp 0 false) s).active[0]? = some ⟨j, .props i aw⟩ := by rw [heq]; exact ha0
        simp only [step, stepEvalProp, ha0, hp] at h0
        revert h0
        split
        · simp [ha]
        · split
          · split <;> simp [ha]
          · split <;> simp [ha]
          · simp [ha]
      · simp only [w0choice, if_neg hi]
        intro heq
        have h0 : (step P (.finishProps 0) s).active[0]? = some ⟨j, .props i aw⟩ := by rw [heq]; exact ha0
        have hl : (step P (.finishProps 0) s).active.length = s.active.length := by rw [heq]
        simp only [step, stepFinishProps, ha0, hi, if_false] at h0 hl
        revert h0 hl
        split
        · simp [ha]
        · split <;> simp [ha]
    | expanding r =>
      simp only [w0choice]
      intro heq
      have h0 : (step P (.expand 0 front) s).active[0]? = some ⟨j, .expanding r⟩ := by rw [heq]; exact ha0
      have hl : (step P (.expand 0 front) s).active.length = s.active.length := by rw [heq]
      simp only [step, stepExpand, ha0] at h0 hl
      revert h0 hl
      cases r with
      | nil => simp [ha]
      | cons t r' =>
        simp only
        split <;> simp [ha]
    | recording i =>
      simp only [w0choice]
      intro heq
      have h0 : (step P (.record 0) s).active[0]? = some ⟨j, .recording i⟩ := by rw [heq]; exact ha0
      have hl : (step P (.record 0) s).active.length = s.active.length := by rw [heq]
      simp only [step, stepRecord, ha0] at h0 hl
      revert h0 hl
      split
      · split <;> simp [ha]
      · simp [ha]

theorem stop_effective (why : Why) (s : St σ κ) (hns : s.stopped = false) (hen : stopEnabled P why s = true) :
    step P (.stop why) s ≠ s := by
  intro heq
  have : (step P (.stop why) s).stopped = s.stopped := by rw [heq]
  simp [step, stepStop, hen, hns] at this

/-! ### one iteration of the scheduler -/

/-- bookkeeping weight: how many iterations without a machine step can still follow -/
def wgt (s : St σ κ) (bl : Nat) : Nat :=
  if s.active ≠ [] ∨ s.stopped = true then 0
  else if (decide (bl = 0)) = s.frontier.isEmpty then 1 else 2

theorem wgt_le (s : St σ κ) (bl : Nat) : wgt s bl ≤ 2 := by
  unfold wgt; split
  · omega
  · split <;> omega

/-- after a stop nothing is pending and nobody works (the scheduler drops everything in the same iteration) -/
def StopClean (s : St σ κ) : Prop := s.stopped = true → s.frontier = [] ∧ s.active = []

theorem runFrom_dropJobs_stopped (n : Nat) : ∀ (s : St σ κ), s.stopped = true → s.frontier.length ≤ n →
    (runFrom P s (List.replicate n (.dropJob 0))).frontier = [] ∧
    (runFrom P s (List.replicate n (.dropJob 0))).active = s.active ∧
    (runFrom P s (List.replicate n (.dropJob 0))).stopped = true := by
  induction n with
  | zero =>
    intro s hs hl
    exact ⟨List.eq_nil_of_length_eq_zero (by simpa [runFrom] using hl), rfl, hs⟩
  | succ n ih =>
    intro s hs hl
    simp only [List.replicate_succ, runFrom, List.foldl_cons]
    have hstep : (step P (.dropJob 0) s).stopped = true ∧ (step P (.dropJob 0) s).active = s.active ∧
        (step P (.dropJob 0) s).frontier.length ≤ n := by
      simp only [step, stepDropJob, hs, Bool.true_or, if_true]
      cases hf : s.frontier with
      | nil => simp [hs, hf]
      | cons j tl => rw [hf] at hl; simp at hl ⊢; first | exact hl | exact ⟨hs, hl⟩
    obtain ⟨h1, h2, h3⟩ := ih (step P (.dropJob 0) s) hstep.1 hstep.2.2
    exact ⟨h1, h2.trans hstep.2.1, h3⟩

theorem step_stopped_of_not_stop (c : Choice) (s : St σ κ) (hc : ∀ why, c ≠ .stop why) :
    (step P c s).stopped = s.stopped := by
  cases c with
  | take i =>
    simp only [step, stepTake]
    repeat' split
    all_goals rfl
  | evalProp w b =>
    simp only [step, stepEvalProp]
    repeat' split
    all_goals rfl
  | finishProps w =>
    simp only [step, stepFinishProps]
    repeat' split
    all_goals rfl
  | expand w f =>
    simp only [step, stepExpand]
    repeat' split
    all_goals rfl
  | record w =>
    simp only [step, stepRecord]
    repeat' split
    all_goals rfl
  | stop why => exact absurd rfl (hc why)
  | dropJob i =>
    simp only [step, stepDropJob]
    repeat' split
    all_goals rfl
  | abandon w =>
    simp only [step, stepAbandon]
    repeat' split
    all_goals rfl

theorem runFrom_stopped_of_no_stop (cs : List Choice) : ∀ (s : St σ κ), (∀ c ∈ cs, ∀ why, c ≠ Choice.stop why) →
    (runFrom P s cs).stopped = s.stopped := by
  induction cs with
  | nil => intro s _; rfl
  | cons c cs ih =>
    intro s h
    simp only [runFrom, List.foldl_cons]
    have := ih (step P c s) (fun c' hc' => h c' (List.mem_cons_of_mem _ hc'))
    simp only [runFrom] at this
    rw [this, step_stopped_of_not_stop c s (h c (List.mem_cons_self ..))]

variable (P)

/-- one iteration of the worker loop of `schedule` -/
def iter (d : Discipline) (x : St σ κ × Nat) : Option (St σ κ × Nat) :=
  (schedNext P d x.1 x.2).map fun r => (runFrom P x.1 r.1, r.2)

def iterN (d : Discipline) : Nat → St σ κ × Nat → St σ κ × Nat
  | 0, x => x
  | n + 1, x =>
    match iter P d x with
    | none => x
    | some x' => iterN d n x'

theorem runFrom_schedule (d : Discipline) (fuel : Nat) : ∀ (s : St σ κ) (bl : Nat),
    runFrom P s (schedule P d fuel s bl) = (iterN P d fuel (s, bl)).1 := by
  induction fuel with
  | zero => intro s bl; rfl
  | succ fuel ih =>
    intro s bl
    simp only [schedule, iterN, iter]
    cases h : schedNext P d s bl with
    | none => rfl
    | some r =>
      obtain ⟨cs, bl'⟩ := r
      simp only [Option.map_some]
      rw [runFrom_append, ih]

def Psi (R : List σ) (D : Nat) (x : St σ κ × Nat) : Nat := 3 * mu P R D x.1 + wgt x.1 x.2

variable {P}

theorem mu_runFrom_cons_lt {R : List σ} {D : Nat} (hfin : Fin P R D) {s : St σ κ} (hs : SInv P s) (ht : TInv P s)
    (c : Choice) (cs : List Choice) (heff : step P c s ≠ s) :
    mu P R D (runFrom P s (c :: cs)) < mu P R D s := by
  have h1 := mu_step_lt hfin c hs ht heff
  have h2 := effCount_bound hfin (step P c s) (sinv_step c hs) (tinv_step c ht) cs
  have : runFrom P s (c :: cs) = runFrom P (step P c s) cs := by simp [runFrom]
  rw [this]; omega

theorem active_nil_of_getElem?_none {s : St σ κ} (h : s.active[0]? = none) : s.active = [] := by
  cases ha : s.active with
  | nil => rfl
  | cons a r => rw [ha] at h; simp at h

/-- **every iteration of the scheduler makes progress** -/
theorem iter_decreases {R : List σ} {D : Nat} (hfin : Fin P R D) (d : Discipline) (x x' : St σ κ × Nat)
    (hs : SInv P x.1) (ht : TInv P x.1) (hc : StopClean x.1) (hi : iter P d x = some x') :
    Psi P R D x' < Psi P R D x ∧ StopClean x'.1 := by
  obtain ⟨s, bl⟩ := x
  simp only [iter] at hi
  cases hn : schedNext P d s bl with
  | none => rw [hn] at hi; simp at hi
  | some r =>
    obtain ⟨cs, bl'⟩ := r
    rw [hn] at hi
    simp only [Option.map_some, Option.some.injEq] at hi
    subst hi
    simp only [Psi]
    have hw2 := wgt_le (runFrom P s cs) bl'
    unfold schedNext at hn
    split at hn
    · -- the worker has a current job
      rename_i a ha0
      have hact : s.active ≠ [] := by intro e; rw [e] at ha0; simp at ha0
      have hns : s.stopped = false := by
        cases hst : s.stopped with
        | false => rfl
        | true => exact absurd (hc hst).2 hact
      have hw0 : wgt s bl = 0 := by unfold wgt; rw [if_pos (Or.inl hact)]
      have heff := w0_effective (P := P) (d == .dfs) s a ha0
      have key : ∀ rest : List Choice, cs = w0choice P (d == .dfs) a :: rest →
          (∀ c ∈ cs, ∀ why, c ≠ Choice.stop why) →
          3 * mu P R D (runFrom P s cs) + wgt (runFrom P s cs) bl' < 3 * mu P R D s + wgt s bl ∧
            StopClean (runFrom P s cs) := by
        intro rest hcs hnostop
        have hlt : mu P R D (runFrom P s cs) < mu P R D s := by
          rw [hcs]; exact mu_runFrom_cons_lt hfin hs ht _ rest heff
        refine ⟨by omega, ?_⟩
        intro hst
        rw [runFrom_stopped_of_no_stop cs s hnostop, hns] at hst
        cases hst
      split at hn
      · rename_i i aw hph
        split at hn
        · rename_i hil
          simp only [Option.some.injEq, Prod.mk.injEq] at hn
          obtain ⟨rfl, rfl⟩ := hn
          exact key [] (by simp [w0choice, hph, hil]) (by intro c hc why; simp at hc; subst hc; intro e; cases e)
        · rename_i hil
          split at hn
          · simp only [Option.some.injEq, Prod.mk.injEq] at hn
            obtain ⟨rfl, rfl⟩ := hn
            refine key (if (d == Discipline.ondemand) = true then List.replicate bl (Choice.dropJob 0) else [])
              (by simp [w0choice, hph, hil]) ?_
            intro c hc why
            simp only [List.mem_cons] at hc
            rcases hc with rfl | hc
            · intro e; cases e
            · split at hc
              · have := List.eq_of_mem_replicate hc; subst this; intro e; cases e
              · simp at hc
          · simp only [Option.some.injEq, Prod.mk.injEq] at hn
            obtain ⟨rfl, rfl⟩ := hn
            exact key [] (by simp [w0choice, hph, hil]) (by intro c hc why; simp at hc; subst hc; intro e; cases e)
      · rename_i r hph
        simp only [Option.some.injEq, Prod.mk.injEq] at hn
        obtain ⟨rfl, rfl⟩ := hn
        exact key [] (by simp [w0choice, hph]) (by intro c hc why; simp at hc; subst hc; intro e; cases e)
      · rename_i i hph
        simp only [Option.some.injEq, Prod.mk.injEq] at hn
        obtain ⟨rfl, rfl⟩ := hn
        exact key [] (by simp [w0choice, hph]) (by intro c hc why; simp at hc; subst hc; intro e; cases e)
    · -- between jobs
      rename_i ha0
      have hact : s.active = [] := active_nil_of_getElem?_none ha0
      split at hn
      · cases hn
      · rename_i hns
        have hns : s.stopped = false := by simpa using hns
        have hstopcase : ∀ why, stopEnabled P why s = true →
            cs = Choice.stop why :: List.replicate s.frontier.length (Choice.dropJob 0) →
            3 * mu P R D (runFrom P s cs) + wgt (runFrom P s cs) bl' < 3 * mu P R D s + wgt s bl ∧
              StopClean (runFrom P s cs) := by
          intro why hen hcs
          have heff := stop_effective (P := P) why s hns hen
          have hlt : mu P R D (runFrom P s cs) < mu P R D s := by
            rw [hcs]; exact mu_runFrom_cons_lt hfin hs ht _ _ heff
          have hrun : runFrom P s cs = runFrom P (step P (.stop why) s) (List.replicate s.frontier.length (.dropJob 0)) := by
            rw [hcs]; simp [runFrom]
          have hst1 : (step P (.stop why) s).stopped = true := by simp [step, stepStop, hen]
          have hfr1 : (step P (.stop why) s).frontier = s.frontier := by simp [step, stepStop, hen]
          have hac1 : (step P (.stop why) s).active = s.active := by simp [step, stepStop, hen]
          obtain ⟨d1, d2, d3⟩ := runFrom_dropJobs_stopped (P := P) s.frontier.length (step P (.stop why) s) hst1
            (by rw [hfr1]; exact Nat.le_refl _)
          have hwz : wgt (runFrom P s cs) bl' = 0 := by
            unfold wgt; rw [if_pos (Or.inr (by rw [hrun]; exact d3))]
          refine ⟨by omega, ?_⟩
          intro _
          rw [hrun]
          exact ⟨d1, by rw [d2, hac1, hact]⟩
        split at hn
        · rename_i hbl
          split at hn
          · rename_i hen
            simp only [Option.some.injEq, Prod.mk.injEq] at hn
            obtain ⟨rfl, rfl⟩ := hn
            exact hstopcase .finish hen rfl
          · split at hn
            · rename_i hen
              simp only [Option.some.injEq, Prod.mk.injEq] at hn
              obtain ⟨rfl, rfl⟩ := hn
              exact hstopcase .target hen rfl
            · split at hn
              · cases hn
              · rename_i hfe
                simp only [Option.some.injEq, Prod.mk.injEq] at hn
                obtain ⟨rfl, rfl⟩ := hn
                have hfe : s.frontier.isEmpty = false := by simpa using hfe
                have hfl : 0 < s.frontier.length := by
                  cases hf : s.frontier with
                  | nil => rw [hf] at hfe; simp at hfe
                  | cons a r => simp
                have e0 : runFrom P s [] = s := rfl
                rw [e0]
                refine ⟨?_, hc⟩
                have hb : wgt s bl = 2 := by
                  unfold wgt
                  rw [if_neg (by simp [hact, hns]), if_neg (by simp [hbl, hfe])]
                have ha : wgt s (if (d == Discipline.ondemand) = true then min blockSize s.frontier.length else blockSize) = 1 := by
                  unfold wgt
                  rw [if_neg (by simp [hact, hns])]
                  cases hd : (d == Discipline.ondemand) with
                  | true =>
                    have hm : min blockSize s.frontier.length ≠ 0 := by
                      have : 0 < blockSize := by decide
                      omega
                    simp [hm, hfe]
                  | false => simp [blockSize, hfe]
                rw [hb]
                have : ∀ x, x = 1 → 3 * mu P R D s + x < 3 * mu P R D s + 2 := by intro x hx; omega
                exact this _ ha
        · rename_i hbl
          split at hn
          · rename_i hfe
            simp only [Option.some.injEq, Prod.mk.injEq] at hn
            obtain ⟨rfl, rfl⟩ := hn
            have hfe : s.frontier.isEmpty = true := hfe
            have e0 : runFrom P s [] = s := rfl
            rw [e0]
            refine ⟨?_, hc⟩
            have hb : wgt s bl = 2 := by
              unfold wgt
              rw [if_neg (by simp [hact, hns]), if_neg (by simp [hbl, hfe])]
            have ha : wgt s 0 = 1 := by
              unfold wgt
              rw [if_neg (by simp [hact, hns]), if_pos (by simp [hfe])]
            omega
          · rename_i hfe
            simp only [Option.some.injEq, Prod.mk.injEq] at hn
            obtain ⟨rfl, rfl⟩ := hn
            have hfne : s.frontier ≠ [] := by intro e; rw [e] at hfe; simp at hfe
            have heff := take0_effective (P := P) s hfne
            have hlt : mu P R D (runFrom P s [Choice.take 0]) < mu P R D s :=
              mu_runFrom_cons_lt hfin hs ht _ [] heff
            refine ⟨by omega, ?_⟩
            intro hst
            rw [runFrom_stopped_of_no_stop [Choice.take 0] s (by intro c hc why; simp at hc; subst hc; intro e; cases e), hns] at hst
            cases hst

theorem sinv_runFrom {s : St σ κ} (cs : List Choice) (h : SInv P s) : SInv P (runFrom P s cs) :=
  runFrom_induction (SInv P) (fun c _ h => sinv_step c h) s h cs

theorem tinv_runFrom {s : St σ κ} (cs : List Choice) (h : TInv P s) : TInv P (runFrom P s cs) :=
  runFrom_induction (TInv P) (fun c _ h => tinv_step c h) s h cs

theorem iter_inv (d : Discipline) (x x' : St σ κ × Nat) (hs : SInv P x.1) (ht : TInv P x.1)
    (hi : iter P d x = some x') : SInv P x'.1 ∧ TInv P x'.1 := by
  simp only [iter] at hi
  cases hn : schedNext P d x.1 x.2 with
  | none => rw [hn] at hi; simp at hi
  | some r =>
    rw [hn] at hi
    simp only [Option.map_some, Option.some.injEq] at hi
    subst hi
    exact ⟨sinv_runFrom _ hs, tinv_runFrom _ ht⟩

/-- after `Psi` iterations the scheduler has returned -/
theorem iterN_done {R : List σ} {D : Nat} (hfin : Fin P R D) (d : Discipline) (n : Nat) :
    ∀ (x : St σ κ × Nat), SInv P x.1 → TInv P x.1 → StopClean x.1 → Psi P R D x ≤ n →
    iter P d (iterN P d n x) = none ∧ StopClean (iterN P d n x).1 := by
  induction n with
  | zero =>
    intro x hs ht hc hle
    simp only [iterN]
    refine ⟨?_, hc⟩
    cases hi : iter P d x with
    | none => rfl
    | some x' => have := (iter_decreases hfin d x x' hs ht hc hi).1; omega
  | succ n ih =>
    intro x hs ht hc hle
    simp only [iterN]
    cases hi : iter P d x with
    | none => exact ⟨hi, hc⟩
    | some x' =>
      obtain ⟨hlt, hc'⟩ := iter_decreases hfin d x x' hs ht hc hi
      obtain ⟨hs', ht'⟩ := iter_inv d x x' hs ht hi
      exact ih x' hs' ht' hc' (by omega)

/-- a state in which the scheduler returns is quiescent -/
theorem quiescent_of_iter_none (d : Discipline) (x : St σ κ × Nat) (hc : StopClean x.1) (hi : iter P d x = none) :
    Quiescent x.1 := by
  obtain ⟨s, bl⟩ := x
  simp only [iter] at hi
  cases hn : schedNext P d s bl with
  | some r => rw [hn] at hi; simp at hi
  | none =>
    unfold schedNext at hn
    split at hn
    · -- a current job: the scheduler always continues
      split at hn
      · split at hn
        · cases hn
        · split at hn <;> cases hn
      · cases hn
      · cases hn
    · rename_i ha0
      have hact : s.active = [] := active_nil_of_getElem?_none ha0
      split at hn
      · rename_i hst
        exact ⟨(hc hst).1, hact⟩
      · split at hn
        · split at hn
          · cases hn
          · split at hn
            · cases hn
            · split at hn
              · rename_i hfe
                exact ⟨by simpa using hfe, hact⟩
              · cases hn
        · split at hn <;> cases hn

end
end SR.Checker
