import SR.Checker.Full
import SR.Proofs.MarketOpen
/-! Frame lemmas for the product `Checker/Full.lean`: what one machine step does to the parts of the machine state the
product looks at (length of `frontier`, length of `active`, `stopped`), and what `dropToks` does. -/
namespace SR.Full
open SR SR.Checker SR.Market

section
variable {σ κ α : Type} [DecidableEq κ] (P : Params σ κ α)

theorem take_shape (i : Nat) (s : St σ κ) (hi : i < s.frontier.length) :
    (stepTake P i s).frontier.length + 1 = s.frontier.length ∧
    ((stepTake P i s).active.length = s.active.length ∨ (stepTake P i s).active.length = s.active.length + 1) ∧
    (stepTake P i s).stopped = s.stopped := by
  unfold stepTake
  rw [List.getElem?_eq_getElem hi]
  simp only
  split
  · split <;> simp [List.length_eraseIdx, hi] <;> omega
  · simp [List.length_eraseIdx, hi]; omega

theorem take_shape_none (i : Nat) (s : St σ κ) (hi : ¬ i < s.frontier.length) : stepTake P i s = s := by
  unfold stepTake
  rw [List.getElem?_eq_none (by omega)]

/-- `evalProp`, `finishProps`, `record`: the frontier is not touched; the worker keeps its slot or retires -/
structure JobShape (w : Nat) (s s' : St σ κ) : Prop where
  frontier : s'.frontier = s.frontier
  stopped : s'.stopped = s.stopped
  active : s'.active.length = s.active.length ∨ (w < s.active.length ∧ s'.active.length + 1 = s.active.length)

theorem jobShape_refl (w : Nat) (s : St σ κ) : JobShape w s s := ⟨rfl, rfl, Or.inl rfl⟩

theorem getElem?_lt_of_some {β : Type} {l : List β} {w : Nat} {a : β} (h : l[w]? = some a) : w < l.length :=
  (List.getElem?_eq_some_iff.1 h).1

theorem evalProp_shape (w : Nat) (b : Bool) (s : St σ κ) : JobShape w s (stepEvalProp P w b s) := by
  unfold stepEvalProp
  split
  · split
    · exact jobShape_refl w s
    · split
      · exact ⟨rfl, rfl, Or.inl (by simp)⟩
      · split
        · split <;> exact ⟨rfl, rfl, Or.inl (by simp)⟩
        · split <;> exact ⟨rfl, rfl, Or.inl (by simp)⟩
        · exact ⟨rfl, rfl, Or.inl (by simp)⟩
  · exact jobShape_refl w s

theorem finishProps_shape (w : Nat) (s : St σ κ) : JobShape w s (stepFinishProps P w s) := by
  unfold stepFinishProps
  split
  · rename_i j i aw hw
    have hlt := getElem?_lt_of_some hw
    split
    · exact jobShape_refl w s
    · split
      · exact ⟨rfl, rfl, Or.inr ⟨hlt, by simp [List.length_eraseIdx, hlt]; omega⟩⟩
      · split <;> exact ⟨rfl, rfl, Or.inl (by simp)⟩
  · exact jobShape_refl w s

theorem record_shape (w : Nat) (s : St σ κ) : JobShape w s (stepRecord P w s) := by
  unfold stepRecord
  split
  · rename_i j i hw
    have hlt := getElem?_lt_of_some hw
    split
    · simp only
      split <;> exact ⟨rfl, rfl, Or.inl (by simp)⟩
    · exact ⟨rfl, rfl, Or.inr ⟨hlt, by simp [List.length_eraseIdx, hlt]; omega⟩⟩
  · exact jobShape_refl w s

theorem expand_shape (w : Nat) (f : Bool) (s : St σ κ) :
    (stepExpand P w f s).stopped = s.stopped ∧
    (((stepExpand P w f s).frontier = s.frontier ∧
        ((stepExpand P w f s).active.length = s.active.length ∨
          (w < s.active.length ∧ (stepExpand P w f s).active.length + 1 = s.active.length))) ∨
     ((stepExpand P w f s).frontier.length = s.frontier.length + 1 ∧
        (stepExpand P w f s).active.length = s.active.length)) := by
  unfold stepExpand
  split
  · rename_i j rest hw
    have hlt := getElem?_lt_of_some hw
    split
    · exact ⟨rfl, Or.inl ⟨rfl, Or.inr ⟨hlt, by simp [List.length_eraseIdx, hlt]; omega⟩⟩⟩
    · simp only
      split
      · exact ⟨rfl, Or.inl ⟨rfl, Or.inl (by simp)⟩⟩
      · refine ⟨rfl, Or.inr ⟨?_, by simp⟩⟩
        cases f <;> simp
  · exact ⟨rfl, Or.inl ⟨rfl, Or.inl rfl⟩⟩

theorem stop_shape (why : Why) (s : St σ κ) :
    (stepStop P why s).frontier = s.frontier ∧ (stepStop P why s).active = s.active ∧
    (s.stopped = true → (stepStop P why s).stopped = true) ∧
    (stopEnabled P why s = true → (stepStop P why s).stopped = true) := by
  unfold stepStop
  split
  · exact ⟨rfl, rfl, fun _ => rfl, fun _ => rfl⟩
  · rename_i h; exact ⟨rfl, rfl, id, fun h' => absurd h' h⟩

theorem dropJob_shape (i : Nat) (s : St σ κ) (hi : i < s.frontier.length) (hen : s.stopped = true) :
    (stepDropJob P i s).frontier.length + 1 = s.frontier.length ∧
    (stepDropJob P i s).active = s.active ∧ (stepDropJob P i s).stopped = s.stopped := by
  unfold stepDropJob
  rw [if_pos (by simp [hen]), List.getElem?_eq_getElem hi]
  simp [List.length_eraseIdx, hi]; omega

theorem dropJob_shape' (i : Nat) (s : St σ κ) (hi : i < s.frontier.length)
    (hen : (s.stopped || allDiscovered P s) = true) :
    (stepDropJob P i s).frontier.length + 1 = s.frontier.length ∧
    (stepDropJob P i s).active = s.active ∧ (stepDropJob P i s).stopped = s.stopped := by
  unfold stepDropJob
  rw [if_pos hen, List.getElem?_eq_getElem hi]
  simp [List.length_eraseIdx, hi]; omega

theorem abandon_shape (w : Nat) (s : St σ κ) (hw : w < s.active.length) (hen : s.stopped = true) :
    (stepAbandon w s).frontier = s.frontier ∧ (stepAbandon w s).active.length + 1 = s.active.length ∧
    (stepAbandon w s).stopped = s.stopped := by
  unfold stepAbandon
  rw [if_pos hen, List.getElem?_eq_getElem hw]
  simp [List.length_eraseIdx, hw]; omega

/-! ### `dropToks` -/

theorem count_erase_tok (l : List Tok) (a u : Tok) :
    (l.erase a).count u = l.count u - (if u = a then 1 else 0) := by
  rw [List.count_erase]
  by_cases h : u = a
  · subst h; simp
  · have : (a == u) = false := by simpa using fun e => h e.symm
    simp [h, this]

/-- discarding the tokens `gone` (a sub-multiset of `ft`) in a stopped machine: one pending job less per token,
    nothing else changes -/
theorem dropToks_spec (gone : List Tok) :
    ∀ (ft : List Tok) (s : St σ κ), (∀ u, gone.count u ≤ ft.count u) → (gone = [] ∨ s.stopped = true) →
      ft.length = s.frontier.length →
      (dropToks gone ft).2.length = (runFrom P s (dropToks gone ft).1).frontier.length ∧
      (∀ u, (dropToks gone ft).2.count u = ft.count u - gone.count u) ∧
      (runFrom P s (dropToks gone ft).1).active = s.active ∧
      (runFrom P s (dropToks gone ft).1).stopped = s.stopped := by
  induction gone with
  | nil => intro ft s _ _ hl; simp [dropToks, runFrom, hl]
  | cons t ts ih =>
    intro ft s hsub hen hl
    have hst : s.stopped = true := by rcases hen with h | h; (· cases h); exact h
    have htmem : t ∈ ft := by
      have := hsub t; simp at this
      exact List.count_pos_iff.1 (by omega)
    have hidx : ft.idxOf t < s.frontier.length := by rw [← hl]; exact List.idxOf_lt_length_iff.2 htmem
    obtain ⟨h1, h2, h3⟩ := dropJob_shape P (ft.idxOf t) s hidx hst
    have hsub' : ∀ u, ts.count u ≤ (ft.erase t).count u := by
      intro u
      have := hsub u
      rw [count_erase_tok]
      rw [List.count_cons] at this
      by_cases e : u = t
      · subst e; simp at this ⊢; omega
      · have : (t == u) = false := by simpa using fun e' => e e'.symm
        simp_all
    have hl' : (ft.erase t).length = (stepDropJob P (ft.idxOf t) s).frontier.length := by
      rw [List.length_erase_of_mem htmem]; omega
    obtain ⟨i1, i2, i3, i4⟩ := ih (ft.erase t) (stepDropJob P (ft.idxOf t) s) hsub' (Or.inr (by rw [h3]; exact hst)) hl'
    simp only [dropToks, runFrom, List.foldl_cons, Checker.step]
    refine ⟨i1, ?_, ?_, ?_⟩
    · intro u
      have := i2 u
      rw [this, count_erase_tok, List.count_cons]
      by_cases e : u = t
      · subst e; simp; omega
      · have : (t == u) = false := by simpa using fun e' => e e'.symm
        simp [e, this]
    · exact i3.trans h2
    · exact i4.trans h3

theorem dropToks_mem (gone : List Tok) : ∀ (ft : List Tok) (u : Tok), u ∈ (dropToks gone ft).2 → u ∈ ft := by
  induction gone with
  | nil => intro ft u h; exact h
  | cons t ts ih => intro ft u h; exact List.mem_of_mem_erase (ih (ft.erase t) u h)

theorem dropToks_nodup (gone : List Tok) : ∀ (ft : List Tok), ft.Nodup → (dropToks gone ft).2.Nodup := by
  induction gone with
  | nil => intro ft h; exact h
  | cons t ts ih => intro ft h; exact ih (ft.erase t) (h.erase t)

end
end SR.Full
