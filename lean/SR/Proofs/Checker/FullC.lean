import SR.Proofs.Checker.FullB
import SR.Proofs.Checker.Control
import SR.Proofs.Checker.Once
/-! The coupling invariant of the product `Checker/Full.lean` and its preservation by every step. -/
namespace SR.Full
open SR SR.Checker SR.Market

/-! ### small list facts -/

theorem getD_set_self (ls : List (List Tok)) (w : Nat) (l : List Tok) (hw : w < ls.length) :
    (ls.set w l).getD w [] = l := by
  simp [List.getD_eq_getElem?_getD, hw]

theorem getD_set_nil (ls : List (List Tok)) (w : Nat) : (ls.set w []).getD w [] = [] := by
  by_cases hw : w < ls.length
  · exact getD_set_self ls w [] hw
  · have : (ls.set w [])[w]? = none := List.getElem?_eq_none (by simp; omega)
    simp [List.getD_eq_getElem?_getD, this]

theorem getD_set_ne (ls : List (List Tok)) (w v : Nat) (l : List Tok) (h : v ≠ w) :
    (ls.set w l).getD v [] = ls.getD v [] := by
  simp [List.getD_eq_getElem?_getD, List.getElem?_set_ne (Ne.symm h)]

theorem nodup_eraseIdx {β : Type} {l : List β} (h : l.Nodup) (i : Nat) : (l.eraseIdx i).Nodup :=
  h.sublist (List.eraseIdx_sublist l i)

theorem count_eraseIdx_tok {l : List Tok} {p : Nat} {t : Tok} (h : l[p]? = some t) (u : Tok) :
    l.count u = (l.eraseIdx p).count u + (if u = t then 1 else 0) := by
  have := (Checker.perm_eraseIdx h).count_eq u
  rw [this, List.count_cons]
  by_cases e : u = t
  · subst e; simp
  · have : (t == u) = false := by simpa using fun e' => e e'.symm
    simp [e, this]

theorem mseq_cons_some {m m' : MState} {s : Step} {ss : List Step} (h : mseq m (s :: ss) = some m') :
    ∃ m1, Market.step m s = some m1 ∧ mseq m1 ss = some m' := by
  simp only [mseq] at h
  cases hs : Market.step m s with
  | none => simp [hs] at h
  | some m1 => exact ⟨m1, rfl, by simpa [hs] using h⟩

theorem mseq_inv : ∀ (ms : List Step) {m m' : MState}, mseq m ms = some m' → MInv m → OInv m → MInv m' ∧ OInv m' := by
  intro ms
  induction ms with
  | nil => intro m m' h hm ho; simp [mseq] at h; subst h; exact ⟨hm, ho⟩
  | cons s ss ih =>
    intro m m' h hm ho
    obtain ⟨m1, h1, h2⟩ := mseq_cons_some h
    exact ih h2 (minv_step hm h1) (oinv_step hm.p ho h1)

theorem mseq_mrun : ∀ (ms : List Step) {m m' : MState}, mseq m ms = some m' → mrun m ms = m' := by
  intro ms
  induction ms with
  | nil => intro m m' h; simp [mseq] at h; simpa [mrun] using h
  | cons s ss ih =>
    intro m m' h
    obtain ⟨m1, h1, h2⟩ := mseq_cons_some h
    have := ih h2
    simpa [mrun, h1] using this

section
variable {σ κ α : Type} [DecidableEq κ] (P : Params σ κ α)

/-- the coupling between the physical jobs (market batches, worker deques) and the machine -/
structure FInv (x : FState σ κ) : Prop where
  mi : MInv x.m
  oi : OInv x.m
  /-- the tokens physically present are exactly the tokens of the machine's pending jobs (as multisets) -/
  cnt : ∀ t, x.ft.count t = (tokensIn x.m).count t
  len : x.ft.length = x.c.frontier.length
  nodup : x.ft.Nodup
  created : ∀ t ∈ x.ft, t ∈ x.m.created
  awlen : x.aw.length = x.c.active.length
  awnd : x.aw.Nodup
  awrun : ∀ w ∈ x.aw, x.m.pcs[w]? = some Pc.running
  /-- a worker that waits or has left holds no jobs -/
  idle : ∀ w, x.m.pcs[w]? ≠ some Pc.running → locOf x.m w = []
  /-- a closed market: the machine has stopped, or there was nothing left to do -/
  closed : x.m.isOpen = false → x.c.stopped = true ∨ (tokensIn x.m = [] ∧ x.aw = [])

variable {P}

theorem tokens_nil_of_idle {m : MState} (hb : m.batches = []) (h : ∀ v, locOf m v = []) : tokensIn m = [] := by
  simp [tokensIn, hb, flatten_nil_of_locs m h]

/-- `pop` and `wake`: everything that `popLoop` does -/
theorem finv_popLoop {x : FState σ κ} (inv : FInv x) (s0 : MState)
    (hb : s0.batches = x.m.batches) (hl : s0.locs = x.m.locs) (hp : s0.pcs = x.m.pcs)
    (ho : s0.isOpen = x.m.isOpen) (hcr : s0.created = x.m.created)
    (w : Nat) (hw : w < x.m.pcs.length) (hloc : locOf x.m w = []) (hnaw : w ∉ x.aw)
    (hlast : x.m.isOpen = true → s0.openCount - 1 = 0 → ∀ v, v ≠ w → x.m.pcs[v]? ≠ some Pc.running)
    (hmi : MInv (popLoop s0 w).1) (hoi : OInv (popLoop s0 w).1) :
    FInv { x with m := (popLoop s0 w).1 } := by
  have htok : tokensIn s0 = tokensIn x.m := by simp [tokensIn, hb, hl]
  have hwl : w < s0.locs.length := by rw [hl, ← inv.mi.p.wf]; exact hw
  have hcnt : ∀ u, (tokensIn (popLoop s0 w).1).count u = (tokensIn x.m).count u := by
    intro u; rw [popLoop_count s0 w hwl u, htok]
  have hloc0 : ∀ v, locOf s0 v = locOf x.m v := by intro v; simp [locOf, hl]
  refine ⟨hmi, hoi, ?_, inv.len, inv.nodup, ?_, inv.awlen, inv.awnd, ?_, ?_, ?_⟩
  · intro t; rw [hcnt]; exact inv.cnt t
  · intro t ht; show t ∈ (popLoop s0 w).1.created
    rw [(popLoop_fields s0 w).1, hcr]; exact inv.created t ht
  · intro v hv
    have hne : v ≠ w := fun e => hnaw (e ▸ hv)
    show (popLoop s0 w).1.pcs[v]? = some Pc.running
    rw [popLoop_running_ne s0 w v hne, hp]; exact inv.awrun v hv
  · intro v hv
    show locOf (popLoop s0 w).1 v = []
    by_cases hne : v = w
    · subst hne
      rw [popLoop_self s0 v (by rw [hp]; exact hw) hv, hloc0]; exact hloc
    · rw [popLoop_locOf_ne s0 w v hne, hloc0]
      apply inv.idle
      intro hr
      exact hv ((popLoop_running_ne s0 w v hne).2 (by rw [hp]; exact hr))
  · intro hc
    have hc : (popLoop s0 w).1.isOpen = false := hc
    by_cases hopen : x.m.isOpen = true
    · obtain ⟨hb0, hoc⟩ := popLoop_closes s0 w (by rw [ho]; exact hopen) hc
      have hnr := hlast hopen hoc
      have hall : ∀ v, locOf x.m v = [] := by
        intro v
        by_cases e : v = w
        · subst e; exact hloc
        · exact inv.idle v (hnr v e)
      have ht0 : tokensIn x.m = [] := tokens_nil_of_idle (by rw [← hb]; exact hb0) hall
      refine Or.inr ⟨eq_nil_of_count fun u => by rw [hcnt u, ht0]; rfl, ?_⟩
      apply List.eq_nil_iff_forall_not_mem.2
      intro v hv
      exact hnr v (fun e => hnaw (e ▸ hv)) (inv.awrun v hv)
    · have hcl : x.m.isOpen = false := by simpa using hopen
      rcases inv.closed hcl with h | ⟨h1, h2⟩
      · exact Or.inl h
      · exact Or.inr ⟨eq_nil_of_count fun u => by rw [hcnt u, h1]; rfl, h2⟩

theorem finv_pop {x x' : FState σ κ} {w : Nat} {ms : List Step} {cs : List Choice} (inv : FInv x)
    (h : fstep P x (.pop w) = some (x', ms, cs)) : FInv x' := by
  simp only [fstep] at h
  split at h
  · rename_i hg
    obtain ⟨hloc, hnaw⟩ := hg
    cases hs : Market.step x.m (.popBegin w) with
    | none => simp [hs] at h
    | some m' =>
      simp [hs] at h
      obtain ⟨rfl, _, _⟩ := h
      obtain ⟨hrun, hcase⟩ := popBegin_eff hs
      rcases hcase with ⟨_, rfl⟩ | ⟨hopen, rfl⟩
      · exact inv
      · obtain ⟨hwl, hget⟩ := List.getElem?_eq_some_iff.1 hrun
        apply finv_popLoop inv x.m rfl rfl rfl rfl rfl w hwl hloc hnaw ?_ (minv_step inv.mi hs) (oinv_step inv.mi.p inv.oi hs)
        intro ho hoc v hne hv
        have h2 := two_le_count Pc.running x.m.pcs v w hne hv hrun
        have := inv.oi ho
        omega
  · simp at h

theorem finv_wake {x x' : FState σ κ} {w : Nat} {ms : List Step} {cs : List Choice} (inv : FInv x)
    (h : fstep P x (.wake w) = some (x', ms, cs)) : FInv x' := by
  simp only [fstep] at h
  cases hs : Market.step x.m (.wake w) with
  | none => simp [hs] at h
  | some m' =>
    simp [hs] at h
    obtain ⟨rfl, _, _⟩ := h
    obtain ⟨⟨b, hpark⟩, rfl⟩ := wake_eff hs
    have hnr : x.m.pcs[w]? ≠ some Pc.running := by rw [hpark]; simp
    have hwl := getElem?_lt_of_some hpark
    apply finv_popLoop inv { x.m with openCount := x.m.openCount + 1 } rfl rfl rfl rfl rfl w hwl (inv.idle w hnr)
      (fun hw => hnr (inv.awrun w hw)) ?_ (minv_step inv.mi hs) (oinv_step inv.mi.p inv.oi hs)
    intro ho hoc v _ hv
    have hoc : x.m.openCount = 0 := by
      have : x.m.openCount + 1 - 1 = 0 := hoc
      omega
    have := inv.oi ho
    have hpos : 0 < x.m.pcs.count Pc.running := List.count_pos_iff.2 (List.mem_of_getElem? hv)
    omega

/-- machine-only steps on the current job of a worker -/
theorem finv_onJob {x x' : FState σ κ} {w : Nat} {mk : Nat → Choice} {ms : List Step} {cs : List Choice}
    (inv : FInv x) (hshape : ∀ i s, JobShape i s (Checker.step P (mk i) s))
    (h : onJob P x w mk = some (x', ms, cs)) : FInv x' := by
  unfold onJob at h
  split at h
  · rename_i hw
    simp at h
    obtain ⟨rfl, _, _⟩ := h
    have hi : x.aw.idxOf w < x.aw.length := List.idxOf_lt_length_iff.2 hw
    have sh := hshape (x.aw.idxOf w) x.c
    refine ⟨inv.mi, inv.oi, inv.cnt, ?_, inv.nodup, inv.created, ?_, ?_, ?_, inv.idle, ?_⟩
    · show x.ft.length = (Checker.step P (mk (x.aw.idxOf w)) x.c).frontier.length
      rw [sh.frontier]; exact inv.len
    · simp only
      split
      · rename_i hlt
        rcases sh.active with h1 | ⟨_, h1⟩
        · omega
        · rw [List.length_eraseIdx, if_pos hi]; have := inv.awlen; omega
      · rename_i hlt
        rcases sh.active with h1 | ⟨_, h1⟩
        · rw [h1]; exact inv.awlen
        · omega
    · simp only; split
      · exact nodup_eraseIdx inv.awnd _
      · exact inv.awnd
    · simp only; split
      · intro v hv; exact inv.awrun v (List.mem_of_mem_eraseIdx hv)
      · exact inv.awrun
    · intro hc
      rcases inv.closed hc with h1 | ⟨_, h2⟩
      · left; show (Checker.step P (mk (x.aw.idxOf w)) x.c).stopped = true; rw [sh.stopped]; exact h1
      · rw [h2] at hw; simp at hw
  · simp at h

end
end SR.Full
