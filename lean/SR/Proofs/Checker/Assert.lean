import SR.Checker.Assert
import SR.Proofs.PathApi
/-! Lemmas for the observation helpers of the `Checker` trait. -/
namespace SR.Checker.Assert
open SR SR.PathApi
variable {σ α : Type}

/-- `from_actions` is sound: what it returns is an execution with exactly the given actions -/
theorem fromActionsAux_sound [DecidableEq α] (M : Sys σ α) (acts : List α) (s : σ) (p : Path σ α)
    (h : fromActionsAux M s acts = some p) : ExecFrom M s p ∧ intoActions p = acts := by
  induction acts generalizing s p with
  | nil =>
    simp only [fromActionsAux, Option.some.injEq] at h
    subst h
    exact ⟨ExecFrom.last s, rfl⟩
  | cons a rest ih =>
    simp only [fromActionsAux] at h
    split at h
    · cases h
    · rename_i a' s' hf
      cases hr : fromActionsAux M s' rest with
      | none => rw [hr] at h; cases h
      | some q =>
        rw [hr] at h
        simp only [Option.map_some, Option.some.injEq] at h
        subst h
        obtain ⟨he, ha⟩ := ih s' q hr
        have hk := List.find?_some hf
        simp only [beq_iff_eq] at hk
        obtain ⟨h1, h2⟩ := mem_nextSteps.1 (List.mem_of_find?_eq_some hf)
        refine ⟨ExecFrom.step h1 h2 he, ?_⟩
        simp only [intoActions, List.filterMap_cons] at ha ⊢
        rw [ha, hk]

theorem fromActionsAux_iff [DecidableEq α] (M : Sys σ α) (acts : List α) (s : σ) (p : Path σ α) :
    fromActionsAux M s acts = some p ↔ ExecFrom M s p ∧ intoActions p = acts := by
  constructor
  · exact fromActionsAux_sound M acts s p
  · rintro ⟨he, ha⟩
    rw [← ha]; exact fromActionsAux_exec he

end SR.Checker.Assert
