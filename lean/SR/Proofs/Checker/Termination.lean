import SR.Proofs.Checker.Sound
/-!
# Termination of the checker logic, for every schedule

On a model with finitely many reachable states (listed in `R`, out-degree ≤ `D`) there is a measure `mu` on machine
states that EVERY state-changing step strictly decreases — whatever the choice (worker, job, queue position, stale
read, stop, drop).  Hence no schedule performs more than `mu init` state-changing steps, and since a non-quiescent
state always has an enabled state-changing step (`progress`), every maximal run ends quiescent: `join` returns as
soon as the workers are scheduled (the job market's no-lost-wake-up theorem + OS fairness supply that part).
-/
namespace SR.Checker
open SR

section
variable {σ κ α : Type} [DecidableEq κ]
variable (P : Params σ κ α)

/-- finiteness data of the model -/
structure Fin (R : List σ) (D : Nat) : Prop where
  all : ∀ s, P.M.Reach s → s ∈ R
  deg : ∀ s ∈ R, (P.M.succB s).length ≤ D

def Lp : Nat := P.props.length
def Ec (D : Nat) : Nat := D + Lp P + 2
def Bc (D : Nat) : Nat := Lp P + Ec P D + 3
def Ac (D : Nat) : Nat := Bc P D + 1

/-- remaining steps of a worker in a given phase -/
def remPhase (D : Nat) : Phase σ → Nat
  | .props i _ => (Lp P - i) + 1 + Ec P D
  | .expanding rest => rest.length + 1
  | .recording i => (Lp P - i) + 1

def remActive (D : Nat) (a : Active σ) : Nat := remPhase P D a.phase

/-- reachable keys not generated yet -/
def ungen (R : List σ) (g : List κ) : Nat := (R.filter (fun s => !g.contains (P.key s))).length

def mu (R : List σ) (D : Nat) (s : St σ κ) : Nat :=
  ungen P R s.gen * Ac P D + s.frontier.length * Bc P D + ((s.active.map (remActive P D)).sum) +
    (if s.stopped then 0 else 1)

/-- the length bound on the remaining successors of an expanding worker -/
def TInv (s : St σ κ) : Prop :=
  ∀ a ∈ s.active, ∀ rest, a.phase = .expanding rest → rest.length ≤ (P.M.succB a.job.st).length

variable {P}

theorem sum_map_set {β : Type} (f : β → Nat) {l : List β} {w : Nat} {a a' : β} (h : l[w]? = some a) :
    ((l.set w a').map f).sum + f a = (l.map f).sum + f a' := by
  induction l generalizing w with
  | nil => simp at h
  | cons x xs ih =>
    cases w with
    | zero => simp at h; subst h; simp; omega
    | succ w =>
      simp at h
      have := ih h
      simp only [List.set_cons_succ, List.map_cons, List.sum_cons]
      omega

theorem sum_map_eraseIdx {β : Type} (f : β → Nat) {l : List β} {w : Nat} {a : β} (h : l[w]? = some a) :
    ((l.eraseIdx w).map f).sum + f a = (l.map f).sum := by
  induction l generalizing w with
  | nil => simp at h
  | cons x xs ih =>
    cases w with
    | zero => simp at h; subst h; simp; omega
    | succ w =>
      simp at h
      have := ih h
      simp only [List.eraseIdx_cons_succ, List.map_cons, List.sum_cons]
      omega

theorem filter_length_le {β : Type} (l : List β) {p p' : β → Bool} (himp : ∀ x, p' x = true → p x = true) :
    (l.filter p').length ≤ (l.filter p).length := by
  induction l with
  | nil => simp
  | cons x xs ih =>
    simp only [List.filter_cons]
    cases h' : p' x with
    | true => simp only [himp x h', if_true, List.length_cons]; omega
    | false =>
      cases h : p x with
      | true => simp only [Bool.false_eq_true, if_false, if_true, List.length_cons]; omega
      | false => simp only [Bool.false_eq_true, if_false]; exact ih

theorem filter_length_lt {β : Type} (l : List β) {p p' : β → Bool} (himp : ∀ x, p' x = true → p x = true)
    {t : β} (ht : t ∈ l) (hp : p t = true) (hp' : p' t = false) :
    (l.filter p').length + 1 ≤ (l.filter p).length := by
  induction l with
  | nil => simp at ht
  | cons x xs ih =>
    simp only [List.filter_cons]
    rcases List.mem_cons.1 ht with rfl | ht
    · simp only [hp, hp', Bool.false_eq_true, if_false, if_true, List.length_cons]
      have := filter_length_le xs himp
      omega
    · have := ih ht
      cases h' : p' x with
      | true => simp only [himp x h', if_true, List.length_cons]; omega
      | false =>
        cases h : p x with
        | true => simp only [Bool.false_eq_true, if_false, if_true, List.length_cons]; omega
        | false => simp only [Bool.false_eq_true, if_false]; exact this

theorem ungen_append_lt {R : List σ} {g : List κ} {t : σ} (ht : t ∈ R) (hng : P.key t ∉ g) :
    ungen P R (g ++ [P.key t]) + 1 ≤ ungen P R g := by
  unfold ungen
  apply filter_length_lt R (t := t) _ ht
  · simp [hng]
  · simp
  · intro x hx
    simp only [List.contains_eq_mem, List.mem_append, List.mem_singleton, Bool.not_eq_eq_eq_not, Bool.not_true,
      decide_eq_false_iff_not, not_or] at hx ⊢
    exact hx.1

theorem remActive_pos (D : Nat) (a : Active σ) : 0 < remActive P D a := by
  unfold remActive remPhase
  split <;> omega

theorem tinv_init : TInv P (init P.M P.props P.key) := by
  intro a ha; simp [init] at ha

theorem mem_set_cases' {β : Type} {l : List β} {i : Nat} {b x : β} (h : x ∈ l.set i b) : x ∈ l ∨ x = b :=
  mem_set_cases h

theorem tinv_step (c : Choice) {s : St σ κ} (h : TInv P s) : TInv P (step P c s) := by
  -- any worker that is not freshly put into the expanding phase keeps (or shrinks) its list
  have hset : ∀ (w : Nat) (a' : Active σ) (d' : List (Nat × List σ)) (g' : List κ) (f' : List (Job σ)) (n : Nat),
      (∀ rest, a'.phase = .expanding rest → rest.length ≤ (P.M.succB a'.job.st).length) →
      TInv P { s with active := s.active.set w a', disc := d', gen := g', frontier := f', stateCount := n } := by
    intro w a' d' g' f' n ha' x hx rest hr
    rcases mem_set_cases hx with hx | rfl
    · exact h x hx rest hr
    · exact ha' rest hr
  have herase : ∀ (w : Nat) (e st : Bool) (dn : List σ), TInv P { s with active := s.active.eraseIdx w, early := e, stopped := st, done := dn } :=
    fun w e st dn x hx rest hr => h x (List.mem_of_mem_eraseIdx hx) rest hr
  cases c with
  | take i =>
    simp only [step]; unfold stepTake
    split
    · exact h
    · rename_i j hj
      have hnew : ∀ x ∈ s.active ++ [({ job := j, phase := .props 0 false } : Active σ)], ∀ rest,
          x.phase = .expanding rest → rest.length ≤ (P.M.succB x.job.st).length := by
        intro x hx rest hr
        rcases List.mem_append.1 hx with hx | hx
        · exact h x hx rest hr
        · simp at hx; subst hx; cases hr
      dsimp only
      split
      · split
        · exact h
        · exact hnew
      · exact hnew
  | evalProp w b =>
    simp only [step]; unfold stepEvalProp
    split
    · split
      · exact h
      · split
        · exact hset w _ s.disc s.gen s.frontier s.stateCount (by intro r hr; cases hr)
        · split
          · split
            · exact hset w _ _ s.gen s.frontier s.stateCount (by intro r hr; cases hr)
            · exact hset w _ s.disc s.gen s.frontier s.stateCount (by intro r hr; cases hr)
          · split
            · exact hset w _ _ s.gen s.frontier s.stateCount (by intro r hr; cases hr)
            · exact hset w _ s.disc s.gen s.frontier s.stateCount (by intro r hr; cases hr)
          · exact hset w _ s.disc s.gen s.frontier s.stateCount (by intro r hr; cases hr)
    · exact h
  | finishProps w =>
    simp only [step]; unfold stepFinishProps
    split
    · split
      · exact h
      · split
        · exact herase w true s.stopped s.done
        · split
          · exact hset w _ s.disc s.gen s.frontier s.stateCount (by intro r hr; cases hr)
          · rename_i hmatch
            refine hset w _ s.disc s.gen s.frontier s.stateCount ?_
            intro r hr; cases hr; exact Nat.le_refl _
    · exact h
  | expand w f =>
    simp only [step]; unfold stepExpand
    split
    · rename_i j rest ha
      have ham : (⟨j, .expanding rest⟩ : Active σ) ∈ s.active := List.mem_of_getElem? ha
      have hb := h _ ham rest rfl
      split
      · exact herase w s.early s.stopped _
      · rename_i t rest'
        dsimp only
        have hr' : ∀ r, (Phase.expanding rest' : Phase σ) = .expanding r → r.length ≤ (P.M.succB j.st).length := by
          intro r hr; cases hr; simp at hb; omega
        split
        · exact hset w ⟨j, .expanding rest'⟩ s.disc s.gen s.frontier _ hr'
        · exact hset w ⟨j, .expanding rest'⟩ s.disc _ _ _ hr'
    · exact h
  | record w =>
    simp only [step]; unfold stepRecord
    split
    · split
      · dsimp only
        split
        · exact hset w _ _ s.gen s.frontier s.stateCount (by intro r hr; cases hr)
        · exact hset w _ s.disc s.gen s.frontier s.stateCount (by intro r hr; cases hr)
      · exact herase w s.early s.stopped _
    · exact h
  | stop why =>
    simp only [step]; unfold stepStop; split
    · exact h
    · exact h
  | dropJob i =>
    simp only [step]; unfold stepDropJob
    by_cases hc : (s.stopped || allDiscovered P s) = true
    · rw [if_pos hc]; split <;> exact h
    · rw [if_neg hc]; exact h
  | abandon w =>
    simp only [step]; unfold stepAbandon
    by_cases hc : s.stopped = true
    · rw [if_pos hc]; split
      · exact h
      · exact herase w true s.stopped s.done
    · rw [if_neg hc]; exact h

theorem tinv_run (cs : List Choice) : TInv P (run P cs) :=
  runFrom_induction (TInv P) (fun c _ h => tinv_step c h) _ tinv_init cs

/-- `mu` in terms of its four ingredients -/
theorem mu_def (R : List σ) (D : Nat) (s : St σ κ) :
    mu P R D s = ungen P R s.gen * Ac P D + s.frontier.length * Bc P D + ((s.active.map (remActive P D)).sum) +
      (if s.stopped then 0 else 1) := rfl

/-- worker `w` replaced; gen, frontier, stopped unchanged -/
theorem mu_set {R : List σ} {D : Nat} {s s' : St σ κ} {w : Nat} {a a' : Active σ} (ha : s.active[w]? = some a)
    (hg : s'.gen = s.gen) (hf : s'.frontier.length = s.frontier.length) (hs : s'.stopped = s.stopped)
    (hact : s'.active = s.active.set w a') :
    mu P R D s' + remActive P D a = mu P R D s + remActive P D a' := by
  rw [mu_def, mu_def, hg, hf, hs, hact]
  have := sum_map_set (remActive P D) (a' := a') ha
  omega

/-- worker `w` leaves; gen, frontier, stopped unchanged -/
theorem mu_erase {R : List σ} {D : Nat} {s s' : St σ κ} {w : Nat} {a : Active σ} (ha : s.active[w]? = some a)
    (hg : s'.gen = s.gen) (hf : s'.frontier.length = s.frontier.length) (hs : s'.stopped = s.stopped)
    (hact : s'.active = s.active.eraseIdx w) :
    mu P R D s' + remActive P D a = mu P R D s := by
  rw [mu_def, mu_def, hg, hf, hs, hact]
  have := sum_map_eraseIdx (remActive P D) ha
  omega

theorem length_eraseIdx_of_some {β : Type} {l : List β} {i : Nat} {a : β} (h : l[i]? = some a) :
    (l.eraseIdx i).length + 1 = l.length := by
  have hlt := (List.getElem?_eq_some_iff.1 h).1
  rw [List.length_eraseIdx]; simp [hlt]; omega

/-- **every state-changing step strictly decreases the measure** -/
theorem mu_step_lt {R : List σ} {D : Nat} (hfin : Fin P R D) (c : Choice) {s : St σ κ}
    (hs : SInv P s) (ht : TInv P s) (hne : step P c s ≠ s) : mu P R D (step P c s) < mu P R D s := by
  have hB : Bc P D = Lp P + Ec P D + 3 := rfl
  have hA : Ac P D = Bc P D + 1 := rfl
  have hE : Ec P D = D + Lp P + 2 := rfl
  cases c with
  | take i =>
    simp only [step] at hne ⊢; unfold stepTake at hne ⊢
    cases hj : s.frontier[i]? with
    | none => rw [hj] at hne; exact absurd rfl hne
    | some j =>
      have hlen := length_eraseIdx_of_some hj
      have hmul : (s.frontier.eraseIdx i).length * Bc P D + Bc P D = s.frontier.length * Bc P D := by
        rw [← hlen, Nat.add_mul, Nat.one_mul]
      have taken : mu P R D ({ s with frontier := s.frontier.eraseIdx i, maxDepth := max s.maxDepth j.depth, visits := j.path :: s.visits, active := s.active ++ [{ job := j, phase := .props 0 false }] } : St σ κ) < mu P R D s := by
        rw [mu_def, mu_def]
        simp only [List.map_append, List.map_cons, List.map_nil, List.sum_append, List.sum_cons, List.sum_nil]
        have hr : remActive P D ({ job := j, phase := .props 0 false } : Active σ) = Lp P + 1 + Ec P D := by
          simp [remActive, remPhase]
        rw [hr]; omega
      dsimp only
      split
      · split
        · rw [mu_def, mu_def]; simp only; omega
        · exact taken
      · exact taken
  | evalProp w b =>
    simp only [step] at hne ⊢; unfold stepEvalProp at hne ⊢
    split at hne
    · rename_i j i aw ha
      simp only at hne ⊢
      cases hp : P.props[i]? with
      | none => rw [hp] at hne; exact absurd rfl hne
      | some p =>
        have hi : i < Lp P := (List.getElem?_eq_some_iff.1 hp).1
        have hrem : ∀ (j' : Job σ) (aw' : Bool), remActive P D ⟨j', .props (i+1) aw'⟩ + 1 = remActive P D ⟨j, .props i aw⟩ := by
          intro j' aw'; simp only [remActive, remPhase]; omega
        have key : ∀ (s' : St σ κ) (j' : Job σ) (aw' : Bool), s'.gen = s.gen → s'.frontier.length = s.frontier.length →
            s'.stopped = s.stopped → s'.active = s.active.set w ⟨j', .props (i+1) aw'⟩ → mu P R D s' < mu P R D s := by
          intro s' j' aw' h1 h2 h3 h4
          have := mu_set (P := P) (R := R) (D := D) ha h1 h2 h3 h4
          have := hrem j' aw'
          omega
        simp only
        split
        · exact key _ _ _ rfl rfl rfl rfl
        · split
          · split
            · exact key _ _ _ rfl rfl rfl rfl
            · exact key _ _ _ rfl rfl rfl rfl
          · split
            · exact key _ _ _ rfl rfl rfl rfl
            · exact key _ _ _ rfl rfl rfl rfl
          · exact key _ _ _ rfl rfl rfl rfl
    · exact absurd rfl hne
  | finishProps w =>
    simp only [step] at hne ⊢; unfold stepFinishProps at hne ⊢
    split at hne
    · rename_i j i aw ha
      by_cases hi : i < P.props.length
      · rw [if_pos hi] at hne; exact absurd rfl hne
      · rw [if_neg hi]
        have hold : remActive P D ⟨j, .props i aw⟩ = 1 + Ec P D := by
          simp only [remActive, remPhase]; have : Lp P - i = 0 := by unfold Lp; omega
          omega
        have ham : (⟨j, .props i aw⟩ : Active σ) ∈ s.active := List.mem_of_getElem? ha
        have hreach : P.M.Reach j.st := Sys.reach_last_of_isPath (hs.ac _ ham).path (hs.ac _ ham).last
        have hdeg := hfin.deg _ (hfin.all _ hreach)
        split
        · have := mu_erase (P := P) (R := R) (D := D) (s' := { s with active := s.active.eraseIdx w, early := true }) ha rfl rfl rfl rfl
          omega
        · split
          · have := mu_set (P := P) (R := R) (D := D) (s' := { s with active := s.active.set w ⟨j, .recording 0⟩ }) (a' := ⟨j, .recording 0⟩) ha rfl rfl rfl rfl
            have hn : remActive P D ⟨j, .recording 0⟩ = Lp P + 1 := by simp [remActive, remPhase]
            omega
          · rename_i hmatch
            have := mu_set (P := P) (R := R) (D := D) (s' := { s with active := s.active.set w ⟨j, .expanding (P.M.succB j.st)⟩ }) (a' := ⟨j, .expanding (P.M.succB j.st)⟩) ha rfl rfl rfl rfl
            have hn : remActive P D ⟨j, .expanding (P.M.succB j.st)⟩ = (P.M.succB j.st).length + 1 := by simp [remActive, remPhase]
            omega
    · exact absurd rfl hne
  | expand w f =>
    simp only [step] at hne ⊢; unfold stepExpand at hne ⊢
    split at hne
    · rename_i j rest ha
      simp only
      have ham : (⟨j, .expanding rest⟩ : Active σ) ∈ s.active := List.mem_of_getElem? ha
      cases rest with
      | nil =>
        have := mu_erase (P := P) (R := R) (D := D) (s' := { s with active := s.active.eraseIdx w, done := j.st :: s.done }) ha rfl rfl rfl rfl
        have hn : remActive P D ⟨j, .expanding []⟩ = 1 := by simp [remActive, remPhase]
        simp only; omega
      | cons t rest' =>
        simp only
        have hold : remActive P D ⟨j, .expanding (t :: rest')⟩ = remActive P D ⟨j, .expanding rest'⟩ + 1 := by
          simp [remActive, remPhase]
        by_cases hin : P.key t ∈ s.gen
        · rw [if_pos hin]
          have := mu_set (P := P) (R := R) (D := D) (s' := { s with stateCount := s.stateCount + 1, active := s.active.set w ⟨j, .expanding rest'⟩ }) (a' := ⟨j, .expanding rest'⟩) ha rfl rfl rfl rfl
          omega
        · rw [if_neg hin]
          have hreach : P.M.Reach j.st := Sys.reach_last_of_isPath (hs.ac _ ham).path (hs.ac _ ham).last
          have htR : t ∈ R := hfin.all _ (Sys.Reach.step hreach (hs.exp _ ham _ rfl t List.mem_cons_self))
          have hU := ungen_append_lt (P := P) htR hin
          have hUm : ungen P R (s.gen ++ [P.key t]) * Ac P D + Ac P D ≤ ungen P R s.gen * Ac P D := by
            have := Nat.mul_le_mul_right (Ac P D) hU
            rwa [Nat.add_mul, Nat.one_mul] at this
          have hsum := sum_map_set (remActive P D) (a' := (⟨j, .expanding rest'⟩ : Active σ)) ha
          rw [mu_def, mu_def]
          simp only
          have hfl : (if f = true then ({ st := t, path := j.path ++ [t], ebits := j.ebits, depth := j.depth + 1 } : Job σ) :: s.frontier
              else s.frontier ++ [{ st := t, path := j.path ++ [t], ebits := j.ebits, depth := j.depth + 1 }]).length = s.frontier.length + 1 := by
            split <;> simp
          rw [hfl, Nat.add_mul, Nat.one_mul]
          omega
    · exact absurd rfl hne
  | record w =>
    simp only [step] at hne ⊢; unfold stepRecord at hne ⊢
    split at hne
    · rename_i j i ha
      simp only
      by_cases hi : i < P.props.length
      · rw [if_pos hi]
        have hold : remActive P D ⟨j, .recording i⟩ = remActive P D ⟨j, .recording (i+1)⟩ + 1 := by
          simp only [remActive, remPhase]; unfold Lp; omega
        split
        · have := mu_set (P := P) (R := R) (D := D) (s' := { s with disc := discInsert s.disc i j.path, active := s.active.set w ⟨j, .recording (i+1)⟩ }) (a' := ⟨j, .recording (i+1)⟩) ha rfl rfl rfl rfl
          omega
        · have := mu_set (P := P) (R := R) (D := D) (s' := { s with active := s.active.set w ⟨j, .recording (i+1)⟩ }) (a' := ⟨j, .recording (i+1)⟩) ha rfl rfl rfl rfl
          omega
      · rw [if_neg hi]
        have := mu_erase (P := P) (R := R) (D := D) (s' := { s with active := s.active.eraseIdx w, done := j.st :: s.done }) ha rfl rfl rfl rfl
        have := remActive_pos (P := P) D ⟨j, .recording i⟩
        omega
    · exact absurd rfl hne
  | stop why =>
    simp only [step] at hne ⊢; unfold stepStop at hne ⊢
    by_cases hen : stopEnabled P why s = true
    · rw [if_pos hen] at hne ⊢
      cases hst : s.stopped with
      | true =>
        exfalso; apply hne
        cases s; simp only at hst; subst hst; rfl
      | false =>
        rw [mu_def, mu_def]; simp only [hst]; simp
    · rw [if_neg hen] at hne; exact absurd rfl hne
  | dropJob i =>
    simp only [step] at hne ⊢; unfold stepDropJob at hne ⊢
    by_cases hc : (s.stopped || allDiscovered P s) = true
    · rw [if_pos hc] at hne ⊢
      cases hj : s.frontier[i]? with
      | none => rw [hj] at hne; exact absurd rfl hne
      | some j =>
        simp only
        have hlen := length_eraseIdx_of_some hj
        have hmul : (s.frontier.eraseIdx i).length * Bc P D + Bc P D = s.frontier.length * Bc P D := by
          rw [← hlen, Nat.add_mul, Nat.one_mul]
        rw [mu_def, mu_def]; simp only; omega
    · rw [if_neg hc] at hne; exact absurd rfl hne
  | abandon w =>
    simp only [step] at hne ⊢; unfold stepAbandon at hne ⊢
    by_cases hc : s.stopped = true
    · rw [if_pos hc] at hne ⊢
      cases ha : s.active[w]? with
      | none => rw [ha] at hne; exact absurd rfl hne
      | some a =>
        simp only
        have := mu_erase (P := P) (R := R) (D := D) (s' := { s with active := s.active.eraseIdx w, early := true }) ha rfl rfl rfl rfl
        have := remActive_pos (P := P) D a
        omega
    · rw [if_neg hc] at hne; exact absurd rfl hne

/-- number of state-changing steps of a choice list (classically: a step either changes the state or not) -/
noncomputable def effCount (s : St σ κ) : List Choice → Nat
  | [] => 0
  | c :: cs => (if Classical.propDecidable (step P c s = s) |>.decide then 0 else 1) + effCount (step P c s) cs

theorem effCount_bound {R : List σ} {D : Nat} (hfin : Fin P R D) (s : St σ κ) (hs : SInv P s) (ht : TInv P s)
    (cs : List Choice) : effCount (P := P) s cs + mu P R D (runFrom P s cs) ≤ mu P R D s := by
  induction cs generalizing s with
  | nil => simp [effCount, runFrom]
  | cons c cs ih =>
    have hrun : runFrom P s (c :: cs) = runFrom P (step P c s) cs := by simp [runFrom]
    rw [hrun]
    have ih' := ih (step P c s) (sinv_step c hs) (tinv_step c ht)
    unfold effCount
    by_cases heq : step P c s = s
    · have : (Classical.propDecidable (step P c s = s)).decide = true := by simp [heq]
      rw [this]; simp only [if_true]
      rw [heq] at ih' ⊢; omega
    · have : (Classical.propDecidable (step P c s = s)).decide = false := by simp [heq]
      rw [this]; simp only [Bool.false_eq_true, if_false]
      have := mu_step_lt hfin c hs ht heq
      omega

/-- **progress**: a state that is not quiescent has an enabled state-changing step (of worker 0 or a `take`) -/
theorem progress (s : St σ κ) (hnq : ¬ Quiescent s) : ∃ c, step P c s ≠ s := by
  by_cases hact : s.active = []
  · -- somebody can take a job
    have hfr : s.frontier ≠ [] := fun h => hnq ⟨h, hact⟩
    refine ⟨.take 0, ?_⟩
    intro heq
    have hlen : (step P (.take 0) s).frontier.length = s.frontier.length := by rw [heq]
    cases hf : s.frontier with
    | nil => exact hfr hf
    | cons j tl =>
      simp only [step, stepTake, hf, List.getElem?_cons_zero, List.eraseIdx_cons_zero] at hlen
      revert hlen
      cases P.cfg.maxDepth with
      | none => simp
      | some d => simp only; split <;> simp
  · cases ha : s.active with
    | nil => exact absurd ha hact
    | cons a rest =>
      have ha0 : s.active[0]? = some a := by rw [ha]; rfl
      obtain ⟨j, ph⟩ := a
      -- the worker's next step changes its phase or removes it
      have hchg : ∀ (c : Choice) (act' : List (Active σ)), (step P c s).active = act' → act' ≠ s.active → step P c s ≠ s := by
        intro c act' h1 h2 heq; rw [heq] at h1; exact h2 h1.symm
      cases ph with
      | props i aw =>
        by_cases hi : i < P.props.length
        · refine ⟨.evalProp 0 false, ?_⟩
          have hp : P.props[i]? = some P.props[i] := List.getElem?_eq_getElem hi
          -- the phase index moves from i to i+1
          intro heq
          have h0 : (step P (.evalProp 0 false) s).active[0]? = some ⟨j, .props i aw⟩ := by rw [heq]; exact ha0
          simp only [step, stepEvalProp, ha0, hp] at h0
          revert h0
          split
          · simp [ha]
          · split
            · split <;> simp [ha]
            · split <;> simp [ha]
            · simp [ha]
        · refine ⟨.finishProps 0, ?_⟩
          intro heq
          have h0 : (step P (.finishProps 0) s).active[0]? = some ⟨j, .props i aw⟩ := by rw [heq]; exact ha0
          have hl : (step P (.finishProps 0) s).active.length = s.active.length := by rw [heq]
          simp only [step, stepFinishProps, ha0, hi, if_false] at h0 hl
          revert h0 hl
          split
          · simp [ha]
          · split <;> simp [ha]
      | expanding r =>
        refine ⟨.expand 0 false, ?_⟩
        intro heq
        have h0 : (step P (.expand 0 false) s).active[0]? = some ⟨j, .expanding r⟩ := by rw [heq]; exact ha0
        have hl : (step P (.expand 0 false) s).active.length = s.active.length := by rw [heq]
        simp only [step, stepExpand, ha0] at h0 hl
        revert h0 hl
        cases r with
        | nil => simp [ha]
        | cons t r' =>
          simp only
          split <;> simp [ha]
      | recording i =>
        refine ⟨.record 0, ?_⟩
        intro heq
        have h0 : (step P (.record 0) s).active[0]? = some ⟨j, .recording i⟩ := by rw [heq]; exact ha0
        have hl : (step P (.record 0) s).active.length = s.active.length := by rw [heq]
        simp only [step, stepRecord, ha0] at h0 hl
        revert h0 hl
        split
        · split <;> simp [ha]
        · simp [ha]

end
end SR.Checker
