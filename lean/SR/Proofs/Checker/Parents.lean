import SR.Checker.Parents
import SR.Proofs.Checker.Sound
import SR.Proofs.Checker.Once
import SR.Proofs.PathApi
/-!
The parent map built along any run of the checker machine (`SR/Checker/Parents.lean`) is a `GenOK` map (read
newest-first) whose entries carry exactly the paths of the machine's jobs, visits and discoveries.
-/
namespace SR.Checker
open SR SR.PathApi

/-! ### `Gen` lookups only depend on the first entry per key -/

theorem get_isSome_iff (g : Gen) (fp : Nat) : (Gen.get g fp).isSome ↔ fp ∈ g.map (·.1) := by
  induction g with
  | nil => simp [Gen.get]
  | cons e g ih =>
    rw [get_cons]
    by_cases h : e.1 = fp
    · simp [h]
    · simp only [h, if_false, ih, List.map_cons, List.mem_cons]
      constructor
      · exact Or.inr
      · rintro (h' | h')
        · exact absurd h'.symm h
        · exact h'

theorem get_eq_none_iff (g : Gen) (fp : Nat) : Gen.get g fp = none ↔ fp ∉ g.map (·.1) := by
  rw [← get_isSome_iff]
  cases Gen.get g fp <;> simp

theorem get_of_nodup {g : Gen} (hn : (g.map (·.1)).Nodup) (fp : Nat) (v : Option Nat) :
    Gen.get g fp = some v ↔ (fp, v) ∈ g := by
  induction g with
  | nil => simp [Gen.get]
  | cons e g ih =>
    simp only [List.map_cons, List.nodup_cons] at hn
    rw [get_cons]
    by_cases h : e.1 = fp
    · simp only [h, if_true, List.mem_cons]
      constructor
      · intro hv
        injection hv with hv
        left; rw [← h, ← hv]
      · rintro (hv | hv)
        · rw [← hv]
        · exfalso
          apply hn.1
          rw [h]
          exact List.mem_map.2 ⟨(fp, v), hv, rfl⟩
    · simp only [h, if_false, ih hn.2, List.mem_cons]
      constructor
      · exact Or.inr
      · rintro (hv | hv)
        · exfalso; apply h; rw [← hv]
        · exact hv

theorem nodup_reverse' {β : Type} {l : List β} (h : l.Nodup) : l.reverse.Nodup := by
  unfold List.Nodup at h ⊢
  rw [List.pairwise_reverse]
  exact h.imp (fun h => fun e => h e.symm)

theorem get_reverse {g : Gen} (hn : (g.map (·.1)).Nodup) (fp : Nat) : Gen.get g.reverse fp = Gen.get g fp := by
  have hn' : (g.reverse.map (·.1)).Nodup := by rw [List.map_reverse]; exact nodup_reverse' hn
  cases h : Gen.get g fp with
  | some v =>
    rw [get_of_nodup hn'] ; rw [get_of_nodup hn] at h
    exact List.mem_reverse.2 h
  | none =>
    cases h' : Gen.get g.reverse fp with
    | none => rfl
    | some v =>
      rw [get_of_nodup hn'] at h'
      have := (get_of_nodup hn fp v).2 (List.mem_reverse.1 h')
      rw [h] at this; cases this

theorem walkBack_congr {g g' : Gen} (h : ∀ fp, Gen.get g fp = Gen.get g' fp) :
    ∀ fuel fp acc, walkBack g fuel fp acc = walkBack g' fuel fp acc := by
  intro fuel
  induction fuel with
  | zero => intro _ _; rfl
  | succ n ih =>
    intro fp acc
    simp only [walkBack, h fp]
    cases Gen.get g' fp with
    | none => rfl
    | some par =>
      cases par with
      | none => rfl
      | some prev => exact ih prev (fp :: acc)

/-- reading the map oldest-first or newest-first makes no difference when no key occurs twice -/
theorem reconstructPath_reverse {σ α : Type} (M : Sys σ α) (key : σ → Nat) {g : Gen}
    (hn : (g.map (·.1)).Nodup) (fp : Nat) :
    reconstructPath M key g.reverse fp = reconstructPath M key g fp := by
  unfold reconstructPath
  rw [List.length_reverse, walkBack_congr (get_reverse hn)]

theorem genOK_nodup {σ α : Type} {M : Sys σ α} {key : σ → Nat} {gp : List ((Nat × Option Nat) × List σ)}
    (h : GenOK M key gp) : ((gp.map (·.1)).map (·.1)).Nodup := by
  induction h with
  | nil => simp
  | root _ _ hnone ih =>
    simp only [List.map_cons, List.nodup_cons]
    exact ⟨(get_eq_none_iff _ _).1 hnone, ih⟩
  | child _ _ _ _ hnone ih =>
    simp only [List.map_cons, List.nodup_cons]
    exact ⟨(get_eq_none_iff _ _).1 hnone, ih⟩

/-! ### The paths held by a machine state -/

section
variable {σ κ α : Type}

/-- `p` is the path of a pending job, of a worker's job, a visited path or a recorded discovery -/
def PathOf (s : St σ κ) (p : List σ) : Prop :=
  (∃ j ∈ s.frontier, j.path = p) ∨ (∃ a ∈ s.active, a.job.path = p) ∨ p ∈ s.visits ∨ (∃ e ∈ s.disc, e.2 = p)

theorem PathOf.fr (s : St σ κ) {j : Job σ} (h : j ∈ s.frontier) : PathOf s j.path := Or.inl ⟨j, h, rfl⟩
theorem PathOf.ac (s : St σ κ) {a : Active σ} (h : a ∈ s.active) : PathOf s a.job.path :=
  Or.inr (Or.inl ⟨a, h, rfl⟩)
theorem PathOf.vis (s : St σ κ) {p : List σ} (h : p ∈ s.visits) : PathOf s p := Or.inr (Or.inr (Or.inl h))
theorem PathOf.dsc (s : St σ κ) {e : Nat × List σ} (h : e ∈ s.disc) : PathOf s e.2 :=
  Or.inr (Or.inr (Or.inr ⟨e, h, rfl⟩))

/-- every path of `s'` is a path of `s`, or satisfies `Q` -/
theorem pathOf_of_components {s s' : St σ κ} {Q : List σ → Prop}
    (hf : ∀ j ∈ s'.frontier, PathOf s j.path ∨ Q j.path) (ha : ∀ a ∈ s'.active, PathOf s a.job.path ∨ Q a.job.path)
    (hv : ∀ p ∈ s'.visits, PathOf s p ∨ Q p) (hd : ∀ e ∈ s'.disc, PathOf s e.2 ∨ Q e.2) :
    ∀ p, PathOf s' p → PathOf s p ∨ Q p := by
  intro p hp
  rcases hp with ⟨j, hj, rfl⟩ | ⟨a, ha', rfl⟩ | hp | ⟨e, he, rfl⟩
  · exact hf j hj
  · exact ha a ha'
  · exact hv p hp
  · exact hd e he

theorem pathOf_set_active {s : St σ κ} (w : Nat) (a a' : Active σ) (ha : s.active[w]? = some a)
    (hp : a'.job.path = a.job.path) (x : Active σ) (hx : x ∈ s.active.set w a') : PathOf s x.job.path := by
  rcases mem_set_cases hx with hx | rfl
  · exact PathOf.ac s hx
  · rw [hp]; exact PathOf.ac s (List.mem_of_getElem? ha)

theorem pathOf_discInsert {s : St σ κ} {a : Active σ} (ha : a ∈ s.active) (i : Nat) (e : Nat × List σ)
    (he : e ∈ discInsert s.disc i a.job.path) : PathOf s e.2 := by
  rcases mem_discInsert he with rfl | he
  · exact PathOf.ac s ha
  · exact PathOf.dsc s he


theorem pathOf_mono {s s' : St σ κ}
    (hf : ∀ j ∈ s'.frontier, PathOf s j.path) (ha : ∀ a ∈ s'.active, PathOf s a.job.path)
    (hv : ∀ p ∈ s'.visits, PathOf s p) (hd : ∀ e ∈ s'.disc, PathOf s e.2) :
    ∀ p, PathOf s' p → PathOf s p := by
  intro p hp
  rcases hp with ⟨j, hj, rfl⟩ | ⟨a, ha', rfl⟩ | hp | ⟨e, he, rfl⟩
  · exact hf j hj
  · exact ha a ha'
  · exact hv p hp
  · exact hd e he

variable [DecidableEq κ] (P : Params σ κ α)

theorem pathOf_take (i : Nat) (s : St σ κ) :
    (stepTake P i s).gen = s.gen ∧ ∀ p, PathOf (stepTake P i s) p → PathOf s p := by
  unfold stepTake
  split
  · exact ⟨rfl, fun _ h => h⟩
  · rename_i j hj
    have hjm : j ∈ s.frontier := List.mem_of_getElem? hj
    have hfr : ∀ j' ∈ s.frontier.eraseIdx i, PathOf s j'.path := fun j' hj' => PathOf.fr s (List.mem_of_mem_eraseIdx hj')
    have hac' : ∀ a ∈ s.active ++ [({ job := j, phase := .props 0 false } : Active σ)], PathOf s a.job.path := by
      intro a ha
      rcases List.mem_append.1 ha with ha | ha
      · exact PathOf.ac s ha
      · simp at ha; subst ha; exact PathOf.fr s hjm
    have hvis' : ∀ p ∈ j.path :: s.visits, PathOf s p := by
      intro p hp
      rcases List.mem_cons.1 hp with rfl | hp
      · exact PathOf.fr s hjm
      · exact PathOf.vis s hp
    dsimp only
    split
    · split
      · exact ⟨rfl, pathOf_mono hfr (fun _ => PathOf.ac s) (fun _ => PathOf.vis s) (fun _ => PathOf.dsc s)⟩
      · exact ⟨rfl, pathOf_mono hfr hac' hvis' (fun _ => PathOf.dsc s)⟩
    · exact ⟨rfl, pathOf_mono hfr hac' hvis' (fun _ => PathOf.dsc s)⟩

/-- worker `w` replaced by one with the same path; the discoveries are old ones or the worker's path -/
theorem pathOf_set {s : St σ κ} (w : Nat) (a a' : Active σ) (ha : s.active[w]? = some a)
    (hp : a'.job.path = a.job.path) (disc' : List (Nat × List σ)) (hd : ∀ e ∈ disc', PathOf s e.2) :
    ∀ p, PathOf { s with active := s.active.set w a', disc := disc' } p → PathOf s p :=
  pathOf_mono (fun _ => PathOf.fr s) (pathOf_set_active w a a' ha hp) (fun _ => PathOf.vis s) hd

theorem pathOf_evalProp (w : Nat) (b : Bool) (s : St σ κ) :
    (stepEvalProp P w b s).gen = s.gen ∧ ∀ p, PathOf (stepEvalProp P w b s) p → PathOf s p := by
  unfold stepEvalProp
  split
  · rename_i j i aw ha
    have ham : (⟨j, .props i aw⟩ : Active σ) ∈ s.active := List.mem_of_getElem? ha
    split
    · exact ⟨rfl, fun _ h => h⟩
    · split
      · exact ⟨rfl, pathOf_set w _ _ ha (by rfl) s.disc (fun _ => PathOf.dsc s)⟩
      · split
        · split
          · exact ⟨rfl, pathOf_set w _ _ ha (by rfl) _ (pathOf_discInsert ham i)⟩
          · exact ⟨rfl, pathOf_set w _ _ ha (by rfl) s.disc (fun _ => PathOf.dsc s)⟩
        · split
          · exact ⟨rfl, pathOf_set w _ _ ha (by rfl) _ (pathOf_discInsert ham i)⟩
          · exact ⟨rfl, pathOf_set w _ _ ha (by rfl) s.disc (fun _ => PathOf.dsc s)⟩
        · refine ⟨rfl, pathOf_set w _ _ ha ?_ s.disc (fun _ => PathOf.dsc s)⟩
          split <;> rfl
  · exact ⟨rfl, fun _ h => h⟩

theorem pathOf_erase_active (s : St σ κ) (w : Nat) (x : Active σ) (hx : x ∈ s.active.eraseIdx w) :
    PathOf s x.job.path := PathOf.ac s (List.mem_of_mem_eraseIdx hx)

theorem pathOf_finishProps (w : Nat) (s : St σ κ) :
    (stepFinishProps P w s).gen = s.gen ∧ ∀ p, PathOf (stepFinishProps P w s) p → PathOf s p := by
  unfold stepFinishProps
  split
  · rename_i j i aw ha
    split
    · exact ⟨rfl, fun _ h => h⟩
    · split
      · exact ⟨rfl, pathOf_mono (fun _ => PathOf.fr s) (pathOf_erase_active s w) (fun _ => PathOf.vis s) (fun _ => PathOf.dsc s)⟩
      · split
        · exact ⟨rfl, pathOf_set w _ _ ha (by rfl) s.disc (fun _ => PathOf.dsc s)⟩
        · exact ⟨rfl, pathOf_set w _ _ ha (by rfl) s.disc (fun _ => PathOf.dsc s)⟩
  · exact ⟨rfl, fun _ h => h⟩

theorem pathOf_record (w : Nat) (s : St σ κ) :
    (stepRecord P w s).gen = s.gen ∧ ∀ p, PathOf (stepRecord P w s) p → PathOf s p := by
  unfold stepRecord
  split
  · rename_i j i ha
    have ham : (⟨j, .recording i⟩ : Active σ) ∈ s.active := List.mem_of_getElem? ha
    split
    · simp only
      split
      · exact ⟨rfl, pathOf_set w _ _ ha (by rfl) _ (pathOf_discInsert ham i)⟩
      · exact ⟨rfl, pathOf_set w _ _ ha (by rfl) s.disc (fun _ => PathOf.dsc s)⟩
    · exact ⟨rfl, pathOf_mono (fun _ => PathOf.fr s) (pathOf_erase_active s w) (fun _ => PathOf.vis s) (fun _ => PathOf.dsc s)⟩
  · exact ⟨rfl, fun _ h => h⟩

theorem pathOf_stop (why : Why) (s : St σ κ) :
    (stepStop P why s).gen = s.gen ∧ ∀ p, PathOf (stepStop P why s) p → PathOf s p := by
  unfold stepStop; split
  · exact ⟨rfl, fun _ h => h⟩
  · exact ⟨rfl, fun _ h => h⟩

theorem pathOf_dropJob (i : Nat) (s : St σ κ) :
    (stepDropJob P i s).gen = s.gen ∧ ∀ p, PathOf (stepDropJob P i s) p → PathOf s p := by
  unfold stepDropJob; split
  · split
    · exact ⟨rfl, fun _ h => h⟩
    · exact ⟨rfl, pathOf_mono (fun j hj => PathOf.fr s (List.mem_of_mem_eraseIdx hj)) (fun _ => PathOf.ac s)
        (fun _ => PathOf.vis s) (fun _ => PathOf.dsc s)⟩
  · exact ⟨rfl, fun _ h => h⟩

theorem pathOf_abandon (w : Nat) (s : St σ κ) :
    (stepAbandon w s).gen = s.gen ∧ ∀ p, PathOf (stepAbandon w s) p → PathOf s p := by
  unfold stepAbandon; split
  · split
    · exact ⟨rfl, fun _ h => h⟩
    · exact ⟨rfl, pathOf_mono (fun _ => PathOf.fr s) (pathOf_erase_active s w) (fun _ => PathOf.vis s) (fun _ => PathOf.dsc s)⟩
  · exact ⟨rfl, fun _ h => h⟩

end

section
variable {σ κ α : Type} [DecidableEq κ] (P : Params σ κ α)

/-- what `expand` does to `gen` and to the paths: nothing new, or exactly one new key with one new path -/
theorem pathOf_expand (w : Nat) (f : Bool) (s : St σ κ) :
    ((stepExpand P w f s).gen = s.gen ∧
      (∀ j t rest, s.active[w]? = some ⟨j, .expanding (t :: rest)⟩ → P.key t ∈ s.gen) ∧
      ∀ p, PathOf (stepExpand P w f s) p → PathOf s p) ∨
    (∃ j t rest, s.active[w]? = some ⟨j, .expanding (t :: rest)⟩ ∧ P.key t ∉ s.gen ∧
      (stepExpand P w f s).gen = s.gen ++ [P.key t] ∧
      ∀ p, PathOf (stepExpand P w f s) p → PathOf s p ∨ p = j.path ++ [t]) := by
  unfold stepExpand
  split
  · rename_i j rest ha
    split
    · left
      refine ⟨rfl, ?_, pathOf_mono (fun _ => PathOf.fr s) (pathOf_erase_active s w) (fun _ => PathOf.vis s) (fun _ => PathOf.dsc s)⟩
      intro j' t' rest' h; rw [ha] at h; cases h
    · rename_i t rest'
      simp only
      split
      · rename_i hin
        left
        refine ⟨rfl, ?_, pathOf_set w _ _ ha (by rfl) s.disc (fun _ => PathOf.dsc s)⟩
        intro j' t' rest'' h; rw [ha] at h; cases h; exact hin
      · rename_i hin
        right
        refine ⟨j, t, rest', ha, hin, rfl, ?_⟩
        apply pathOf_of_components (s := s) (Q := fun p => p = j.path ++ [t])
        · intro x hx
          split at hx
          · rcases List.mem_cons.1 hx with rfl | hx
            · exact Or.inr rfl
            · exact Or.inl (PathOf.fr s hx)
          · rcases List.mem_append.1 hx with hx | hx
            · exact Or.inl (PathOf.fr s hx)
            · simp at hx; subst hx; exact Or.inr rfl
        · intro x hx; exact Or.inl (pathOf_set_active w _ _ ha (by rfl) x hx)
        · intro x hx; exact Or.inl (PathOf.vis s hx)
        · intro x hx; exact Or.inl (PathOf.dsc s hx)
  · left
    refine ⟨rfl, ?_, fun _ h => h⟩
    rename_i hne
    intro j t rest h
    exact absurd h (hne j (t :: rest))

end

/-! ### The invariant linking the machine state and the parent map -/
section
variable {σ α : Type} (P : Params σ Nat α)

/-- the entries of the parent map, newest first, each with the path along its parent pointers -/
structure PInv (s : St σ Nat) (g : Gen) : Prop where
  keys : g.map (·.1) = s.gen
  ok : ∃ gp : List ((Nat × Option Nat) × List σ), GenOK P.M P.key gp ∧ gp.map (·.1) = g.reverse ∧
        ∀ p, PathOf s p → ∃ st par, p.getLast? = some st ∧ ((P.key st, par), p) ∈ gp

variable {P}

theorem parentsInit_keys (key : σ → Nat) (is : List σ) (g : Gen) :
    (parentsInit key is g).map (·.1) = genInit key is (g.map (·.1)) := by
  induction is generalizing g with
  | nil => rfl
  | cons s ss ih =>
    simp only [parentsInit, genInit]
    rw [ih]
    by_cases h : key s ∈ g.map (·.1)
    · rw [if_pos ((get_isSome_iff g _).2 h), if_pos h]
    · rw [if_neg (fun h' => h ((get_isSome_iff g _).1 h')), if_neg h]
      simp

theorem mem_keys_of_map_reverse {gp : List ((Nat × Option Nat) × List σ)} {g : Gen}
    (hmap : gp.map (·.1) = g.reverse) (k : Nat) : k ∈ (gp.map (·.1)).map (·.1) ↔ k ∈ g.map (·.1) := by
  rw [hmap, List.map_reverse, List.mem_reverse]

theorem parentsInit_ok (inj : ∀ x y, P.key x = P.key y → x = y) (is : List σ) :
    ∀ (g : Gen) (gp : List ((Nat × Option Nat) × List σ)), (∀ s ∈ is, s ∈ P.M.init) →
      GenOK P.M P.key gp → gp.map (·.1) = g.reverse → (∀ e ∈ gp, ∃ s', e = ((P.key s', none), [s'])) →
      ∃ gp', GenOK P.M P.key gp' ∧ gp'.map (·.1) = (parentsInit P.key is g).reverse ∧
        (∀ s ∈ is, ((P.key s, none), [s]) ∈ gp') ∧ ∀ e ∈ gp, e ∈ gp' := by
  induction is with
  | nil => intro g gp _ hok hmap _; exact ⟨gp, hok, hmap, by simp, fun _ h => h⟩
  | cons s ss ih =>
    intro g gp his hok hmap hroots
    have his' : ∀ x ∈ ss, x ∈ P.M.init := fun x hx => his x (List.mem_cons_of_mem _ hx)
    simp only [parentsInit]
    by_cases h : (Gen.get g (P.key s)).isSome
    · rw [if_pos h]
      have hk : P.key s ∈ (gp.map (·.1)).map (·.1) :=
        (mem_keys_of_map_reverse hmap _).2 ((get_isSome_iff g _).1 h)
      simp only [List.mem_map] at hk
      obtain ⟨_, ⟨e, he, rfl⟩, hke⟩ := hk
      obtain ⟨s', rfl⟩ := hroots e he
      have : s' = s := inj _ _ hke
      subst this
      obtain ⟨gp', h1, h2, h3, h4⟩ := ih g gp his' hok hmap hroots
      refine ⟨gp', h1, h2, ?_, h4⟩
      intro x hx
      rcases List.mem_cons.1 hx with rfl | hx
      · exact h4 _ he
      · exact h3 x hx
    · rw [if_neg h]
      have hnone : Gen.get (gp.map (·.1)) (P.key s) = none := by
        rw [get_eq_none_iff]
        intro hk
        exact h ((get_isSome_iff g _).2 ((mem_keys_of_map_reverse hmap _).1 hk))
      have hok1 := GenOK.root hok (his s List.mem_cons_self) hnone
      obtain ⟨gp', h1, h2, h3, h4⟩ := ih (g ++ [(P.key s, none)]) _ his' hok1 (by simp [hmap]) (by
        intro e he
        rcases List.mem_cons.1 he with rfl | he
        · exact ⟨s, rfl⟩
        · exact hroots e he)
      refine ⟨gp', h1, h2, ?_, fun e he => h4 e (List.mem_cons_of_mem _ he)⟩
      intro x hx
      rcases List.mem_cons.1 hx with rfl | hx
      · exact h4 _ List.mem_cons_self
      · exact h3 x hx

theorem pinv_init (inj : ∀ x y, P.key x = P.key y → x = y) :
    PInv P (init P.M P.props P.key) (parentsInit P.key P.M.initB []) := by
  refine ⟨by rw [parentsInit_keys]; rfl, ?_⟩
  obtain ⟨gp, h1, h2, h3, _⟩ := parentsInit_ok (P := P) inj P.M.initB [] []
    (fun s hs => (Sys.mem_initB.1 hs).1) .nil rfl (by simp)
  refine ⟨gp, h1, h2, ?_⟩
  intro p hp
  rcases hp with ⟨j, hj, rfl⟩ | ⟨a, ha, _⟩ | hp | ⟨e, he, _⟩
  · simp only [init, List.mem_map, List.mem_reverse] at hj
    obtain ⟨s, hs, rfl⟩ := hj
    exact ⟨s, none, rfl, h3 s hs⟩
  · simp [init] at ha
  · simp [init] at hp
  · simp [init] at he

/-- a step that leaves `gen`, the map and the set of paths alone -/
theorem pinv_same {s s' : St σ Nat} {g : Gen} (h : PInv P s g) (hg : s'.gen = s.gen)
    (hp : ∀ p, PathOf s' p → PathOf s p) : PInv P s' g := by
  refine ⟨by rw [hg]; exact h.keys, ?_⟩
  obtain ⟨gp, h1, h2, h3⟩ := h.ok
  exact ⟨gp, h1, h2, fun p hp' => h3 p (hp p hp')⟩

theorem pinv_expand (w : Nat) (f : Bool) {s : St σ Nat} {g : Gen} (hs : SInv P s) (h : PInv P s g) :
    PInv P (stepExpand P w f s) (stepParents P (.expand w f) s g) := by
  rcases pathOf_expand P w f s with ⟨hg, hin, hp⟩ | ⟨j, t, rest, ha, hin, hg, hp⟩
  · have : stepParents P (.expand w f) s g = g := by
      simp only [stepParents]
      split
      · rename_i j t rest ha
        rw [if_pos (hin j t rest ha)]
      · rfl
    rw [this]
    exact pinv_same h hg hp
  · have : stepParents P (.expand w f) s g = g ++ [(P.key t, some (P.key j.st))] := by
      simp only [stepParents, ha, if_neg hin]
    rw [this]
    refine ⟨by rw [hg, List.map_append, h.keys]; rfl, ?_⟩
    obtain ⟨gp, h1, h2, h3⟩ := h.ok
    have ham : (⟨j, .expanding (t :: rest)⟩ : Active σ) ∈ s.active := List.mem_of_getElem? ha
    obtain ⟨st, par, hl, hm⟩ := h3 _ (PathOf.ac s ham)
    have hlast : j.path.getLast? = some j.st := (hs.ac _ ham).last
    have hst : st = j.st := by
      have e : some st = some j.st := by rw [← hl]; exact hlast
      injection e
    subst hst
    have hsucc : t ∈ P.M.succAll j.st := by
      have := hs.exp _ ham (t :: rest) rfl t List.mem_cons_self
      exact (List.mem_filter.1 this).1
    have hnone : Gen.get (gp.map (·.1)) (P.key t) = none := by
      rw [get_eq_none_iff]
      intro hk
      apply hin
      rw [← h.keys]
      exact (mem_keys_of_map_reverse h2 _).1 hk
    refine ⟨_, GenOK.child h1 hm hlast hsucc hnone, by simp [h2], ?_⟩
    intro p hp'
    rcases hp p hp' with hp' | rfl
    · obtain ⟨st', par', hl', hm'⟩ := h3 p hp'
      exact ⟨st', par', hl', List.mem_cons_of_mem _ hm'⟩
    · exact ⟨t, some (P.key j.st), by simp, List.mem_cons_self⟩

theorem pinv_step (c : Choice) {s : St σ Nat} {g : Gen} (hs : SInv P s) (h : PInv P s g) :
    PInv P (step P c s) (stepParents P c s g) := by
  cases c with
  | take i => exact pinv_same h (pathOf_take P i s).1 (pathOf_take P i s).2
  | evalProp w b => exact pinv_same h (pathOf_evalProp P w b s).1 (pathOf_evalProp P w b s).2
  | finishProps w => exact pinv_same h (pathOf_finishProps P w s).1 (pathOf_finishProps P w s).2
  | expand w f => exact pinv_expand w f hs h
  | record w => exact pinv_same h (pathOf_record P w s).1 (pathOf_record P w s).2
  | stop why => exact pinv_same h (pathOf_stop P why s).1 (pathOf_stop P why s).2
  | dropJob i => exact pinv_same h (pathOf_dropJob P i s).1 (pathOf_dropJob P i s).2
  | abandon w => exact pinv_same h (pathOf_abandon (κ := Nat) w s).1 (pathOf_abandon w s).2

/-! ### The lock-step run -/

theorem runPFrom_fst (sg : St σ Nat × Gen) (cs : List Choice) : (runPFrom P sg cs).1 = runFrom P sg.1 cs := by
  unfold runPFrom runFrom
  induction cs generalizing sg with
  | nil => rfl
  | cons c cs ih => exact ih _

theorem runP_fst (cs : List Choice) : (runP P cs).1 = run P cs := runPFrom_fst _ cs

theorem runPFrom_induction (Inv : St σ Nat → Gen → Prop)
    (hstep : ∀ c s g, Inv s g → Inv (step P c s) (stepParents P c s g))
    (sg : St σ Nat × Gen) (h0 : Inv sg.1 sg.2) (cs : List Choice) :
    Inv (runPFrom P sg cs).1 (runPFrom P sg cs).2 := by
  unfold runPFrom
  induction cs generalizing sg with
  | nil => exact h0
  | cons c cs ih => exact ih _ (hstep c sg.1 sg.2 h0)

theorem pinv_run (inj : ∀ x y, P.key x = P.key y → x = y) (cs : List Choice) :
    PInv P (runP P cs).1 (runP P cs).2 :=
  (runPFrom_induction (P := P) (fun s g => SInv P s ∧ PInv P s g)
    (fun c _ _ h => ⟨sinv_step c h.1, pinv_step c h.1 h.2⟩) _ ⟨sinv_init, pinv_init inj⟩ cs).2


/-- the key list of the parent map is the machine's `gen` (no hypothesis on `key`) -/
theorem keys_step (c : Choice) (s : St σ Nat) (g : Gen) (h : g.map (·.1) = s.gen) :
    (stepParents P c s g).map (·.1) = (step P c s).gen := by
  cases c with
  | take i => exact h.trans (pathOf_take P i s).1.symm
  | evalProp w b => exact h.trans (pathOf_evalProp P w b s).1.symm
  | finishProps w => exact h.trans (pathOf_finishProps P w s).1.symm
  | record w => exact h.trans (pathOf_record P w s).1.symm
  | stop why => exact h.trans (pathOf_stop P why s).1.symm
  | dropJob i => exact h.trans (pathOf_dropJob P i s).1.symm
  | abandon w => exact h.trans (pathOf_abandon (κ := Nat) w s).1.symm
  | expand w f =>
    show (stepParents P (.expand w f) s g).map (·.1) = (stepExpand P w f s).gen
    rcases pathOf_expand P w f s with ⟨hg, hin, _⟩ | ⟨j, t, rest, ha, hin, hg, _⟩
    · have : stepParents P (.expand w f) s g = g := by
        simp only [stepParents]
        split
        · rename_i j t rest ha
          rw [if_pos (hin j t rest ha)]
        · rfl
      rw [this, hg, h]
    · have : stepParents P (.expand w f) s g = g ++ [(P.key t, some (P.key j.st))] := by
        simp only [stepParents, ha, if_neg hin]
      rw [this, hg, List.map_append, h]; rfl

theorem keys_run (cs : List Choice) : (runP P cs).2.map (·.1) = (runP P cs).1.gen :=
  runPFrom_induction (P := P) (fun s g => g.map (·.1) = s.gen) (fun c s g h => keys_step c s g h) _
    (by rw [parentsInit_keys]; rfl) cs

/-- insert-if-vacant never removes or changes an entry: one step only appends -/
theorem stepParents_append (c : Choice) (s : St σ Nat) (g : Gen) : ∃ ext, stepParents P c s g = g ++ ext := by
  unfold stepParents
  split
  · split
    · split
      · exact ⟨[], by simp⟩
      · exact ⟨_, rfl⟩
    · exact ⟨[], by simp⟩
  · exact ⟨[], by simp⟩

theorem runPFrom_append (sg : St σ Nat × Gen) (cs : List Choice) : ∃ ext, (runPFrom P sg cs).2 = sg.2 ++ ext := by
  unfold runPFrom
  induction cs generalizing sg with
  | nil => exact ⟨[], by simp⟩
  | cons c cs ih =>
    obtain ⟨e1, h1⟩ := stepParents_append (P := P) c sg.1 sg.2
    obtain ⟨e2, h2⟩ := ih (step P c sg.1, stepParents P c sg.1 sg.2)
    refine ⟨e1 ++ e2, ?_⟩
    simp only [List.foldl_cons]
    rw [h2]; simp only [h1, List.append_assoc]

theorem runP_append (cs cs' : List Choice) : runP P (cs ++ cs') = runPFrom P (runP P cs) cs' := by
  simp only [runP, runPFrom, List.foldl_append]

/-- `reconstruct_path` of the fingerprint of the last state of any path held by the machine is that path -/
theorem pinv_reconstruct (inj : ∀ x y, P.key x = P.key y → x = y) {s : St σ Nat} {g : Gen} (h : PInv P s g)
    (p : List σ) (hp : PathOf s p) :
    ∃ q st, p.getLast? = some st ∧ reconstructPath P.M P.key g (P.key st) = some q ∧ intoStates q = p ∧
      IsExec P.M q := by
  obtain ⟨gp, h1, h2, h3⟩ := h.ok
  obtain ⟨st, par, hl, hm⟩ := h3 p hp
  obtain ⟨q, hq, hst, hex, _⟩ := genOK_reconstruct inj h1 hm
  have hn : (g.map (·.1)).Nodup := by
    have := nodup_reverse' (genOK_nodup h1)
    rw [h2, List.map_reverse, List.reverse_reverse] at this
    exact this
  rw [h2, reconstructPath_reverse _ _ hn] at hq
  exact ⟨q, st, hl, hq, hst, hex⟩

end

theorem get_append_of_isSome (g ext : Gen) (fp : Nat) (h : (Gen.get g fp).isSome) :
    Gen.get (g ++ ext) fp = Gen.get g fp := by
  unfold Gen.get at h ⊢
  rw [List.find?_append]
  cases hf : g.find? (fun e => e.1 == fp) with
  | none => rw [hf] at h; cases h
  | some e => rfl

/-- a walk that starts inside a parent-closed map never sees entries appended later -/
theorem walkBack_append_frame (g ext : Gen)
    (hclosed : ∀ fp prev, Gen.get g fp = some (some prev) → (Gen.get g prev).isSome) :
    ∀ fuel fp acc, (Gen.get g fp).isSome → walkBack (g ++ ext) fuel fp acc = walkBack g fuel fp acc := by
  intro fuel
  induction fuel with
  | zero => intro _ _ _; rfl
  | succ n ih =>
    intro fp acc hs
    simp only [walkBack, get_append_of_isSome g ext fp hs]
    cases hg : Gen.get g fp with
    | none => rfl
    | some par =>
      cases par with
      | none => rfl
      | some prev => exact ih prev (fp :: acc) (hclosed fp prev hg)

section
variable {σ α : Type} {P : Params σ Nat α}

/-- entries appended later do not change what `reconstruct_path` returns for a path the machine holds now -/
theorem pinv_reconstruct_stable {s : St σ Nat} {g : Gen} (h : PInv P s g) (p : List σ) (hp : PathOf s p)
    (st : σ) (hl : p.getLast? = some st) (ext : Gen) :
    reconstructPath P.M P.key (g ++ ext) (P.key st) = reconstructPath P.M P.key g (P.key st) := by
  obtain ⟨gp, h1, h2, h3⟩ := h.ok
  obtain ⟨st', par, hl', hm⟩ := h3 p hp
  have e : st' = st := by
    have e : some st' = some st := by rw [← hl', hl]
    injection e
  subst e
  have hn : (g.map (·.1)).Nodup := by
    have := nodup_reverse' (genOK_nodup h1)
    rw [h2, List.map_reverse, List.reverse_reverse] at this
    exact this
  have hget : ∀ fp, Gen.get (gp.map (·.1)) fp = Gen.get g fp := by
    intro fp; rw [h2]; exact get_reverse hn fp
  have hclosed : ∀ fp prev, Gen.get g fp = some (some prev) → (Gen.get g prev).isSome := by
    intro fp prev hg
    rw [← hget] at hg ⊢
    exact genOK_closed h1 fp prev hg
  have hsome : (Gen.get g (P.key st')).isSome := by
    rw [← hget, genOK_get h1 _ _ _ hm]; rfl
  have hlen : gp.length = g.length := by
    have := congrArg List.length h2
    simpa using this
  have hw : ∀ fuel, g.length ≤ fuel → walkBack g fuel (P.key st') [] = p.map P.key := by
    intro fuel hf
    rw [← walkBack_congr hget, genOK_walk h1 _ _ _ hm fuel [] (by omega)]
    simp
  unfold reconstructPath
  rw [walkBack_append_frame g ext hclosed _ _ _ hsome, hw _ (by simp; omega), hw _ (by omega)]

end
end SR.Checker
