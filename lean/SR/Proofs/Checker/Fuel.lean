import SR.Checker.Graph
import SR.Checker.Sched
import SR.Proofs.Checker.SchedTerm
/-!
# The fuel of the single-threaded schedulers on explicit graphs

`runSingle P d fuel` (Sched.lean) runs the one-thread worker loop of bfs.rs / dfs.rs / on_demand.rs for at most `fuel`
iterations.  `SchedTerm.lean` proves that `3 * mu + 2` iterations suffice on a model that is finite in the sense of
`Fin P R D`.  Here the bound is made explicit for the explicit graphs the driver works on (`Graph.toSys`):

* `Graph.WF g` (decidable): every initial state and every edge target is a state number `< g.n`.  Nothing else is
  assumed: `adj` / `bnd` may be shorter or longer than `g.n` (missing rows = no actions, missing `bnd` entries =
  outside the boundary, exactly as `Graph.toSys` reads them); initial states may be duplicated or outside the boundary.
* `Graph.fin`: a well-formed graph is finite with `R = [0, …, g.n-1]` and `D = g.maxDeg` — for ANY key function,
  property list, configuration and finish condition.
* `mu_init_le`: `mu (init …) ≤ (g.n + |init|) * (2·|props| + maxDeg + 6) + 1`.
* `Graph.fuel g L = 3 * ((g.n + |init|) * (2·L + maxDeg + 6) + 1) + 2` dominates `3 * mu + 2`, hence
  `runSingle_graph_quiescent`; and the result does not depend on the fuel any more beyond that point
  (`runSingle_graph_stable`): more fuel yields the very same state.

This module does not import the driver (`SR.Drv.Chk`), so that the driver can import it and use `fuelFor'`.
-/
namespace SR.Checker
open SR

/-! ### well-formed explicit graphs -/

/-- the largest number of actions of a state -/
def Graph.maxDeg (g : Graph) : Nat := g.adj.foldl (fun m r => max m r.length) 0

/-- Well-formedness: the initial states and all edge targets are state numbers `< g.n`. -/
def Graph.WF (g : Graph) : Prop :=
  (∀ s ∈ g.init, s < g.n) ∧ (∀ r ∈ g.adj, ∀ e ∈ r, e.all (fun t => decide (t < g.n)) = true)

instance (g : Graph) : Decidable g.WF := by unfold Graph.WF; exact inferInstance

/-- Fuel for `runSingle` on an explicit graph with `L` properties: `3 * M + 2` where
    `M = (n + |init|) * (2 L + maxDeg + 6) + 1` bounds the termination measure `mu` of the initial machine state. -/
def Graph.fuel (g : Graph) (L : Nat) : Nat :=
  3 * ((g.n + g.init.length) * (2 * L + g.maxDeg + 6) + 1) + 2

/-- drop-in replacement of the driver's `fuelFor` -/
def fuelFor' (g : Graph) (props : List GProp) : Nat := g.fuel props.length

theorem foldl_max_ge (l : List (List (Option Nat))) (m : Nat) :
    m ≤ l.foldl (fun m r => max m r.length) m ∧ ∀ r ∈ l, r.length ≤ l.foldl (fun m r => max m r.length) m := by
  induction l generalizing m with
  | nil => simp
  | cons x xs ih =>
    simp only [List.foldl_cons]
    obtain ⟨h1, h2⟩ := ih (max m x.length)
    refine ⟨by omega, ?_⟩
    intro r hr
    rcases List.mem_cons.1 hr with rfl | hr
    · omega
    · exact h2 r hr

theorem Graph.length_le_maxDeg (g : Graph) {r : List (Option Nat)} (hr : r ∈ g.adj) : r.length ≤ g.maxDeg :=
  (foldl_max_ge g.adj 0).2 r hr

theorem Graph.row_length_le (g : Graph) (s : Nat) : (g.adj.getD s []).length ≤ g.maxDeg := by
  rw [List.getD_eq_getElem?_getD]
  cases h : g.adj[s]? with
  | none => simp
  | some r => exact g.length_le_maxDeg (List.mem_of_getElem? h)

/-- out-degree bound: at most `maxDeg` in-boundary successors -/
theorem Graph.succB_length_le (g : Graph) (s : Nat) : (g.toSys.succB s).length ≤ g.maxDeg := by
  have h1 : (g.toSys.succB s).length ≤ (g.toSys.succAll s).length := List.length_filter_le _ _
  have h2 : (g.toSys.succAll s).length ≤ (g.toSys.acts s).length := List.length_filterMap_le _ _
  have h3 : (g.toSys.acts s).length = (g.adj.getD s []).length := by simp [Graph.toSys]
  have h4 := g.row_length_le s
  omega

theorem Graph.target_lt {g : Graph} (hwf : g.WF) {s t : Nat} (ht : t ∈ g.toSys.succB s) : t < g.n := by
  obtain ⟨⟨a, _, hn⟩, _⟩ := Sys.mem_succB.1 ht
  simp only [Graph.toSys, List.getD_eq_getElem?_getD] at hn
  cases hr : g.adj[s]? with
  | none => rw [hr] at hn; simp at hn
  | some r =>
    rw [hr] at hn
    simp only [Option.getD_some] at hn
    cases he : r[a]? with
    | none => rw [he] at hn; simp at hn
    | some e =>
      rw [he] at hn
      simp only [Option.getD_some] at hn
      subst hn
      have := hwf.2 r (List.mem_of_getElem? hr) _ (List.mem_of_getElem? he)
      simpa using this

/-- every reachable state of a well-formed graph is a state number -/
theorem Graph.reach_lt {g : Graph} (hwf : g.WF) {s : Nat} (hr : g.toSys.Reach s) : s < g.n := by
  induction hr with
  | init h => exact hwf.1 _ (List.mem_filter.1 h).1
  | step _ ht _ => exact Graph.target_lt hwf ht

section
variable {κ : Type} [DecidableEq κ]

omit [DecidableEq κ] in
/-- **A well-formed explicit graph is a finite model**, whatever the key, properties and run controls. -/
theorem Graph.fin {g : Graph} (hwf : g.WF) (P : Params Nat κ Nat) (hM : P.M = g.toSys) :
    Fin P (List.range g.n) g.maxDeg := by
  refine ⟨?_, ?_⟩
  · intro s hs
    rw [hM] at hs
    exact List.mem_range.2 (Graph.reach_lt hwf hs)
  · intro s _
    rw [hM]
    exact g.succB_length_le s

theorem ungen_le (P : Params Nat κ Nat) (R : List Nat) (gen : List κ) : ungen P R gen ≤ R.length := by
  unfold ungen; exact List.length_filter_le _ _

/-- the termination measure of the initial machine state, explicitly -/
theorem mu_init_le (g : Graph) (P : Params Nat κ Nat) (hM : P.M = g.toSys) :
    mu P (List.range g.n) g.maxDeg (init P.M P.props P.key) ≤
      (g.n + g.init.length) * (2 * P.props.length + g.maxDeg + 6) + 1 := by
  have hU := ungen_le P (List.range g.n) (init P.M P.props P.key).gen
  rw [List.length_range] at hU
  have hF : (init P.M P.props P.key).frontier.length ≤ g.init.length := by
    simp only [init, List.length_map, List.length_reverse, hM]
    exact List.length_filter_le _ _
  have hA : Ac P g.maxDeg = 2 * P.props.length + g.maxDeg + 6 := by
    simp only [Ac, Bc, Ec, Lp]; omega
  have hB : Bc P g.maxDeg ≤ Ac P g.maxDeg := by simp only [Ac]; omega
  have h1 := Nat.mul_le_mul_right (Ac P g.maxDeg) hU
  have h2 := Nat.mul_le_mul hF hB
  rw [mu_def]
  have hact : (init P.M P.props P.key).active = [] := rfl
  have hst : (init P.M P.props P.key).stopped = false := rfl
  rw [hact, hst, ← hA, Nat.add_mul]
  simp only [List.map_nil, List.sum_nil, Bool.false_eq_true, if_false]
  omega

/-- `Graph.fuel` dominates the `3 * mu + 2` of `SchedTerm.lean` -/
theorem fuel_dominates (g : Graph) (P : Params Nat κ Nat) (hM : P.M = g.toSys) :
    3 * mu P (List.range g.n) g.maxDeg (init P.M P.props P.key) + 2 ≤ g.fuel P.props.length := by
  have := mu_init_le g P hM
  unfold Graph.fuel
  omega

variable (P : Params Nat κ Nat)

/-! ### enough fuel: the scheduler has returned; more fuel changes nothing -/

theorem iterN_of_iter_none (d : Discipline) {σ α : Type} (P : Params σ κ α) (x : St σ κ × Nat)
    (h : iter P d x = none) (m : Nat) : iterN P d m x = x := by
  cases m with
  | zero => rfl
  | succ m => simp only [iterN, h]

/-- once the scheduler has returned, further iterations do nothing -/
theorem iterN_stable (d : Discipline) {σ α : Type} (P : Params σ κ α) (n : Nat) :
    ∀ (x : St σ κ × Nat), iter P d (iterN P d n x) = none → ∀ m, n ≤ m → iterN P d m x = iterN P d n x := by
  induction n with
  | zero =>
    intro x h m _
    simp only [iterN] at h ⊢
    exact iterN_of_iter_none d P x h m
  | succ n ih =>
    intro x h m hm
    cases hi : iter P d x with
    | none =>
      rw [iterN_of_iter_none d P x hi, iterN_of_iter_none d P x hi]
    | some x' =>
      obtain ⟨m', rfl⟩ : ∃ m', m = m' + 1 := ⟨m - 1, by omega⟩
      simp only [iterN, hi] at h ⊢
      exact ih x' h m' (by omega)

theorem runSingle_eq_iterN (d : Discipline) {σ α : Type} (P : Params σ κ α) (fuel : Nat) :
    runSingle P d fuel =
      (iterN P d fuel (init P.M P.props P.key, if d == Discipline.ondemand then 0 else blockSize)).1 := by
  unfold runSingle run
  rw [runFrom_schedule]

/-- on a finite model: with at least `3 * mu + 2` fuel the scheduler's loop has returned by itself, the state is
    quiescent, and any larger fuel produces the same state -/
theorem runSingle_enough {σ α : Type} (P : Params σ κ α) {R : List σ} {D : Nat} (hfin : Fin P R D) (d : Discipline)
    (fuel : Nat) (hfuel : 3 * mu P R D (init P.M P.props P.key) + 2 ≤ fuel) :
    Quiescent (runSingle P d fuel) ∧ ∀ fuel', fuel ≤ fuel' → runSingle P d fuel' = runSingle P d fuel := by
  have hpsi : Psi P R D (init P.M P.props P.key, if d == Discipline.ondemand then 0 else blockSize) ≤ fuel := by
    have := wgt_le (init P.M P.props P.key) (if d == Discipline.ondemand then 0 else blockSize)
    unfold Psi; simp only; omega
  have hclean : StopClean (init P.M P.props P.key) := by intro h; simp [init] at h
  obtain ⟨h1, h2⟩ := iterN_done hfin d fuel _ sinv_init tinv_init hclean hpsi
  refine ⟨?_, ?_⟩
  · rw [runSingle_eq_iterN]
    exact quiescent_of_iter_none d _ h2 h1
  · intro fuel' hle
    rw [runSingle_eq_iterN, runSingle_eq_iterN, iterN_stable d P fuel _ h1 fuel' hle]

/-- **`Graph.fuel` is enough** for every discipline, key, property list, depth limit, target and finish condition. -/
theorem runSingle_graph_quiescent {g : Graph} (hwf : g.WF) (hM : P.M = g.toSys) (d : Discipline) (fuel : Nat)
    (hfuel : g.fuel P.props.length ≤ fuel) : Quiescent (runSingle P d fuel) :=
  (runSingle_enough P (Graph.fin hwf P hM) d fuel (Nat.le_trans (fuel_dominates g P hM) hfuel)).1

/-- beyond `Graph.fuel` the result does not depend on the fuel -/
theorem runSingle_graph_stable {g : Graph} (hwf : g.WF) (hM : P.M = g.toSys) (d : Discipline) (fuel : Nat)
    (hfuel : g.fuel P.props.length ≤ fuel) : runSingle P d fuel = runSingle P d (g.fuel P.props.length) :=
  (runSingle_enough P (Graph.fin hwf P hM) d _ (fuel_dominates g P hM)).2 fuel hfuel

end
end SR.Checker
