import SR.Checker.Machine
import SR.Proofs.Checker.Paths
/-!
Soundness invariant of the checker machine, for every choice list: every pending / active job, every visited
path and every recorded always/sometimes discovery is a real in-boundary path ending in its state, and a
recorded discovery ends in a witnessing state.
-/
namespace SR.Checker
open SR

section
variable {σ κ α : Type} [DecidableEq κ]
variable (P : Params σ κ α)

structure JobOk (j : Job σ) : Prop where
  path : P.M.IsPath j.path
  last : j.path.getLast? = some j.st
  depth : j.depth = j.path.length
  /-- only eventually-properties are tracked in `ebits` -/
  eb : ∀ k ∈ j.ebits, ∀ pr, P.props[k]? = some pr → pr.exp = .eventually

/-- the last state of a recorded always/sometimes discovery is a witness -/
def WitnessAS (i : Nat) (p : List σ) : Prop :=
  ∀ pr, P.props[i]? = some pr →
    (pr.exp = .always → ∃ s, p.getLast? = some s ∧ pr.cond s = false) ∧
    (pr.exp = .sometimes → ∃ s, p.getLast? = some s ∧ pr.cond s = true)

structure SInv (s : St σ κ) : Prop where
  fr : ∀ j ∈ s.frontier, JobOk P j
  ac : ∀ a ∈ s.active, JobOk P a.job
  vis : ∀ p ∈ s.visits, P.M.IsPath p
  disc : ∀ e ∈ s.disc, P.M.IsPath e.2 ∧ e.1 < P.props.length ∧ WitnessAS P e.1 e.2
  exp : ∀ a ∈ s.active, ∀ rest, a.phase = .expanding rest → ∀ t ∈ rest, t ∈ P.M.succB a.job.st

variable {P}

theorem mem_discInsert {d : List (Nat × List σ)} {i : Nat} {p : List σ} {e : Nat × List σ}
    (h : e ∈ discInsert d i p) : e = (i, p) ∨ e ∈ d := by
  unfold discInsert at h
  rcases List.mem_cons.1 h with h | h
  · exact Or.inl h
  · exact Or.inr (List.mem_filter.1 h).1

theorem mem_set_cases {β : Type} {l : List β} {i : Nat} {b x : β} (h : x ∈ l.set i b) : x ∈ l ∨ x = b := by
  rcases List.mem_or_eq_of_mem_set h with h | h
  · exact Or.inl h
  · exact Or.inr h

theorem sinv_init : SInv P (init P.M P.props P.key) := by
  refine ⟨?_, by simp [init], by simp [init], by simp [init], by simp [init]⟩
  intro j hj
  simp only [init, List.mem_map, List.mem_reverse] at hj
  obtain ⟨s, hs, rfl⟩ := hj
  refine ⟨Sys.isPath_singleton hs, rfl, rfl, ?_⟩
  intro k hk pr hpr
  simp only [initEbits, List.mem_filter] at hk
  rw [hpr] at hk
  simpa using hk.2

theorem sinv_take (i : Nat) {s : St σ κ} (h : SInv P s) : SInv P (stepTake P i s) := by
  unfold stepTake
  split
  · exact h
  · rename_i j hj
    have hjm : j ∈ s.frontier := List.mem_of_getElem? hj
    have hjo := h.fr j hjm
    have hfr : ∀ j' ∈ s.frontier.eraseIdx i, JobOk P j' := fun j' hj' => h.fr j' (List.mem_of_mem_eraseIdx hj')
    have hac' : ∀ a ∈ s.active ++ [({ job := j, phase := .props 0 false } : Active σ)], JobOk P a.job := by
      intro a ha
      rcases List.mem_append.1 ha with ha | ha
      · exact h.ac a ha
      · simp at ha; subst ha; exact hjo
    have hvis' : ∀ p ∈ j.path :: s.visits, P.M.IsPath p := by
      intro p hp
      rcases List.mem_cons.1 hp with rfl | hp
      · exact hjo.path
      · exact h.vis p hp
    have hexp' : ∀ a ∈ s.active ++ [({ job := j, phase := .props 0 false } : Active σ)], ∀ rest,
        a.phase = .expanding rest → ∀ t ∈ rest, t ∈ P.M.succB a.job.st := by
      intro a ha rest hr
      rcases List.mem_append.1 ha with ha | ha
      · exact h.exp a ha rest hr
      · simp at ha; subst ha; simp at hr
    dsimp only
    split
    · split
      · exact ⟨hfr, h.ac, h.vis, h.disc, h.exp⟩
      · exact ⟨hfr, hac', hvis', h.disc, hexp'⟩
    · exact ⟨hfr, hac', hvis', h.disc, hexp'⟩

/-- replacing worker `w` by a worker with the same path/state/depth and a non-expanding phase -/
theorem sinv_set_active {s : St σ κ} (h : SInv P s) (w : Nat) (a a' : Active σ)
    (ha : s.active[w]? = some a)
    (hpath : a'.job.path = a.job.path) (hst : a'.job.st = a.job.st) (hd : a'.job.depth = a.job.depth)
    (heb : ∀ k ∈ a'.job.ebits, k ∈ a.job.ebits)
    (hexp : ∀ rest, a'.phase = .expanding rest → ∀ t ∈ rest, t ∈ P.M.succB a.job.st)
    (disc' : List (Nat × List σ)) (hdisc : ∀ e ∈ disc', P.M.IsPath e.2 ∧ e.1 < P.props.length ∧ WitnessAS P e.1 e.2) :
    SInv P { s with active := s.active.set w a', disc := disc' } := by
  have ham : a ∈ s.active := List.mem_of_getElem? ha
  have hao := h.ac a ham
  refine ⟨h.fr, ?_, h.vis, hdisc, ?_⟩
  · intro x hx
    rcases mem_set_cases hx with hx | rfl
    · exact h.ac x hx
    · exact ⟨hpath ▸ hao.path, by rw [hpath, hst]; exact hao.last, by rw [hpath, hd]; exact hao.depth,
        fun k hk => hao.eb k (heb k hk)⟩
  · intro x hx rest hr t ht
    rcases mem_set_cases hx with hx | rfl
    · exact h.exp x hx rest hr t ht
    · rw [hst]; exact hexp rest hr t ht

theorem disc_insert_ok {s : St σ κ} (h : SInv P s) {a : Active σ} (ham : a ∈ s.active) {i : Nat}
    (hi : i < P.props.length) (hw : WitnessAS P i a.job.path) :
    ∀ e ∈ discInsert s.disc i a.job.path, P.M.IsPath e.2 ∧ e.1 < P.props.length ∧ WitnessAS P e.1 e.2 := by
  intro e he
  rcases mem_discInsert he with rfl | he
  · exact ⟨(h.ac a ham).path, hi, hw⟩
  · exact h.disc e he

theorem sinv_evalProp (w : Nat) (b : Bool) {s : St σ κ} (h : SInv P s) : SInv P (stepEvalProp P w b s) := by
  unfold stepEvalProp
  split
  · rename_i j i aw ha
    have ham : (⟨j, .props i aw⟩ : Active σ) ∈ s.active := List.mem_of_getElem? ha
    have hjo := h.ac _ ham
    split
    · exact h
    · rename_i p hp
      have hi : i < P.props.length := by
        have := List.getElem?_eq_some_iff.1 hp; exact this.1
      split
      · exact sinv_set_active h w _ _ ha (by rfl) (by rfl) (by rfl) (by first | (intro k hk; exact hk) | (intro k hk; exact List.mem_of_mem_erase hk)) (by intro r hr; cases hr) s.disc h.disc
      · split
        · split
          · rename_i hexp hc
            refine sinv_set_active h w _ _ ha (by rfl) (by rfl) (by rfl) (by first | (intro k hk; exact hk) | (intro k hk; exact List.mem_of_mem_erase hk)) (by intro r hr; cases hr) _ (disc_insert_ok h ham hi ?_)
            intro pr hpr
            rw [hp] at hpr; cases hpr
            refine ⟨fun _ => ⟨j.st, hjo.last, by simpa using hc⟩, fun he => ?_⟩
            rw [hexp] at he; cases he
          · exact sinv_set_active h w _ _ ha (by rfl) (by rfl) (by rfl) (by first | (intro k hk; exact hk) | (intro k hk; exact List.mem_of_mem_erase hk)) (by intro r hr; cases hr) s.disc h.disc
        · split
          · rename_i hexp hc
            refine sinv_set_active h w _ _ ha (by rfl) (by rfl) (by rfl) (by first | (intro k hk; exact hk) | (intro k hk; exact List.mem_of_mem_erase hk)) (by intro r hr; cases hr) _ (disc_insert_ok h ham hi ?_)
            intro pr hpr
            rw [hp] at hpr; cases hpr
            refine ⟨fun he => ?_, fun _ => ⟨j.st, hjo.last, hc⟩⟩
            rw [hexp] at he; cases he
          · exact sinv_set_active h w _ _ ha (by rfl) (by rfl) (by rfl) (by first | (intro k hk; exact hk) | (intro k hk; exact List.mem_of_mem_erase hk)) (by intro r hr; cases hr) s.disc h.disc
        · refine sinv_set_active h w _ _ ha ?_ ?_ ?_ ?_ (by intro r hr; cases hr) s.disc h.disc
          · split <;> rfl
          · split <;> rfl
          · split <;> rfl
          · intro k hk; split at hk
            · exact List.mem_of_mem_erase hk
            · exact hk
  · exact h

theorem sinv_erase_active {s : St σ κ} (h : SInv P s) (w : Nat) :
    (∀ a ∈ s.active.eraseIdx w, JobOk P a.job) ∧
    (∀ a ∈ s.active.eraseIdx w, ∀ rest, a.phase = .expanding rest → ∀ t ∈ rest, t ∈ P.M.succB a.job.st) :=
  ⟨fun a ha => h.ac a (List.mem_of_mem_eraseIdx ha), fun a ha => h.exp a (List.mem_of_mem_eraseIdx ha)⟩

theorem sinv_finishProps (w : Nat) {s : St σ κ} (h : SInv P s) : SInv P (stepFinishProps P w s) := by
  unfold stepFinishProps
  split
  · rename_i j i aw ha
    split
    · exact h
    · split
      · exact ⟨h.fr, (sinv_erase_active h w).1, h.vis, h.disc, (sinv_erase_active h w).2⟩
      · split
        · exact sinv_set_active h w _ _ ha (by rfl) (by rfl) (by rfl) (by first | (intro k hk; exact hk) | (intro k hk; exact List.mem_of_mem_erase hk)) (by intro r hr; cases hr) s.disc h.disc
        · rename_i ss hss
          refine sinv_set_active h w _ _ ha (by rfl) (by rfl) (by rfl) (by first | (intro k hk; exact hk) | (intro k hk; exact List.mem_of_mem_erase hk)) ?_ s.disc h.disc
          intro r hr t ht
          cases hr
          exact ht
  · exact h

theorem sinv_expand (w : Nat) (f : Bool) {s : St σ κ} (h : SInv P s) : SInv P (stepExpand P w f s) := by
  unfold stepExpand
  split
  · rename_i j rest ha
    have ham : (⟨j, .expanding rest⟩ : Active σ) ∈ s.active := List.mem_of_getElem? ha
    have hjo := h.ac _ ham
    have hsub := h.exp _ ham rest rfl
    split
    · exact ⟨h.fr, (sinv_erase_active h w).1, h.vis, h.disc, (sinv_erase_active h w).2⟩
    · rename_i t rest'
      have hrest' : ∀ r, (Phase.expanding rest' : Phase σ) = .expanding r → ∀ x ∈ r, x ∈ P.M.succB j.st := by
        intro r hr x hx; cases hr; exact hsub x (List.mem_cons_of_mem _ hx)
      have hset := sinv_set_active h w _ ⟨j, .expanding rest'⟩ ha (by rfl) (by rfl) (by rfl) (by first | (intro k hk; exact hk) | (intro k hk; exact List.mem_of_mem_erase hk)) hrest' s.disc h.disc
      simp only
      split
      · exact ⟨hset.fr, hset.ac, hset.vis, hset.disc, hset.exp⟩
      · have hchild : JobOk P { st := t, path := j.path ++ [t], ebits := j.ebits, depth := j.depth + 1 } :=
          ⟨Sys.isPath_append_one hjo.path hjo.last (hsub t List.mem_cons_self), by simp,
           by have hd : j.depth = j.path.length := hjo.depth
              simp only [List.length_append, List.length_singleton]; omega,
           hjo.eb⟩
        refine ⟨?_, hset.ac, hset.vis, hset.disc, hset.exp⟩
        intro x hx
        split at hx
        · rcases List.mem_cons.1 hx with rfl | hx
          · exact hchild
          · exact h.fr x hx
        · rcases List.mem_append.1 hx with hx | hx
          · exact h.fr x hx
          · simp at hx; subst hx; exact hchild
  · exact h

theorem sinv_record (w : Nat) {s : St σ κ} (h : SInv P s) : SInv P (stepRecord P w s) := by
  unfold stepRecord
  split
  · rename_i j i ha
    have ham : (⟨j, .recording i⟩ : Active σ) ∈ s.active := List.mem_of_getElem? ha
    split
    · rename_i hi
      simp only
      split
      · rename_i hmem
        refine sinv_set_active h w _ _ ha (by rfl) (by rfl) (by rfl) (by first | (intro k hk; exact hk) | (intro k hk; exact List.mem_of_mem_erase hk)) (by intro r hr; cases hr) _ (disc_insert_ok h ham hi ?_)
        intro pr hpr
        have := (h.ac _ ham).eb i hmem pr hpr
        exact ⟨fun he => (by rw [this] at he; cases he), fun he => (by rw [this] at he; cases he)⟩
      · exact sinv_set_active h w _ _ ha (by rfl) (by rfl) (by rfl) (by first | (intro k hk; exact hk) | (intro k hk; exact List.mem_of_mem_erase hk)) (by intro r hr; cases hr) s.disc h.disc
    · exact ⟨h.fr, (sinv_erase_active h w).1, h.vis, h.disc, (sinv_erase_active h w).2⟩
  · exact h

theorem sinv_stop (why : Why) {s : St σ κ} (h : SInv P s) : SInv P (stepStop P why s) := by
  unfold stepStop; split
  · exact ⟨h.fr, h.ac, h.vis, h.disc, h.exp⟩
  · exact h

theorem sinv_dropJob (i : Nat) {s : St σ κ} (h : SInv P s) : SInv P (stepDropJob P i s) := by
  unfold stepDropJob; split
  · split
    · exact h
    · exact ⟨fun j hj => h.fr j (List.mem_of_mem_eraseIdx hj), h.ac, h.vis, h.disc, h.exp⟩
  · exact h

theorem sinv_abandon (w : Nat) {s : St σ κ} (h : SInv P s) : SInv P (stepAbandon w s) := by
  unfold stepAbandon; split
  · split
    · exact h
    · exact ⟨h.fr, (sinv_erase_active h w).1, h.vis, h.disc, (sinv_erase_active h w).2⟩
  · exact h

theorem sinv_step (c : Choice) {s : St σ κ} (h : SInv P s) : SInv P (step P c s) := by
  cases c with
  | take i => exact sinv_take i h
  | evalProp w b => exact sinv_evalProp w b h
  | finishProps w => exact sinv_finishProps w h
  | expand w f => exact sinv_expand w f h
  | record w => exact sinv_record w h
  | stop why => exact sinv_stop why h
  | dropJob i => exact sinv_dropJob i h
  | abandon w => exact sinv_abandon w h

/-- generic induction principle over choice lists -/
theorem runFrom_induction (Inv : St σ κ → Prop) (hstep : ∀ c s, Inv s → Inv (step P c s))
    (s : St σ κ) (h0 : Inv s) (cs : List Choice) : Inv (runFrom P s cs) := by
  unfold runFrom
  induction cs generalizing s with
  | nil => exact h0
  | cons c cs ih => exact ih _ (hstep c s h0)

theorem sinv_run (cs : List Choice) : SInv P (run P cs) :=
  runFrom_induction (SInv P) (fun c _ h => sinv_step c h) _ sinv_init cs

end
end SR.Checker
