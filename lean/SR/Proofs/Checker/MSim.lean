import SR.Checker.MSim
import SR.Proofs.Checker.Sim
import SR.Proofs.Checker.Verdict
/-!
Invariant of the multi-threaded simulation machine (`Checker/MSim.lean`), for EVERY step list: every entry of the shared
`discoveries` map is a genuine witness (`Sim.EntryOk`, the predicate of `C03_sim`), whatever the interleaving of the
workers, the chooser's answers, the moments the shutdown flag is raised / seen and the places model code panics.
The workers influence one another only through the READS of the shared map (`evalProp`), and a read can only make a
worker track less (drop a bit): the per-trace invariant `TrOk` never mentions the shared map.
-/
namespace SR.Checker.MSim
open SR SR.Checker

set_option linter.unusedSectionVars false
section
variable {σ κ α : Type} [DecidableEq σ] [DecidableEq κ] (P : Params σ κ α)

/-- only eventually-properties are tracked, and a tracked condition holds nowhere on `p` -/
def EbOk (eb : List Nat) (p : List σ) : Prop :=
  ∀ i ∈ eb, ∀ pr, P.props[i]? = some pr → pr.exp = .eventually ∧ Avoids pr p

/-- the seen-set holds exactly the keys of the states of `p` -/
def SeenOk (seen : List κ) (p : List σ) : Prop := ∀ k, k ∈ seen ↔ ∃ u ∈ p, P.key u = k

/-- the current state has been pushed to the path -/
structure Entered (t : Tr σ κ) : Prop where
  path : P.M.IsPath t.path
  last : t.path.getLast? = some t.cur
  seen : SeenOk P t.seen t.path
  eb : EbOk P t.ebits t.path.dropLast

/-- tracked conditions with an index below `k` are false in the current state -/
def CurUpTo (k : Nat) (t : Tr σ κ) : Prop :=
  ∀ j ∈ t.ebits, j < k → ∀ pr, P.props[j]? = some pr → pr.cond t.cur = false

def TrOk (t : Tr σ κ) : Prop :=
  match t.ph with
  | .top => Sim.PathTo (P := P) t.path t.cur ∧ SeenOk P t.seen t.path ∧ EbOk P t.ebits t.path
  | .props i => Entered P t ∧ CurUpTo P i t
  | .decide i => Entered P t ∧ CurUpTo P i t
  | .choose => Entered P t ∧ CurUpTo P P.props.length t
  | .record _ => ∀ j ∈ t.ebits, j < P.props.length → Sim.EntryOk P (j, t.path)

structure Inv (s : St σ κ) : Prop where
  disc : Sim.DiscOk P s.disc
  ws : ∀ (w : Nat) (t : Tr σ κ), s.ws[w]? = some (WSt.busy t) → TrOk P t

variable {P}

theorem enterOut_loop {t : Tr σ κ} (h : enterOut P t = .loop) : P.M.inB t.cur = true ∧ P.key t.cur ∈ t.seen := by
  unfold enterOut at h
  split at h
  · cases h
  · split at h
    · cases h
    · rename_i hb
      split at h
      · rename_i hk; exact ⟨by simpa using hb, hk⟩
      · cases h

theorem enterOut_counted {t : Tr σ κ} (h : enterOut P t = .counted) :
    Sim.depthHit P t.path.length = false ∧ P.M.inB t.cur = true ∧ P.key t.cur ∉ t.seen := by
  unfold enterOut at h
  split at h
  · cases h
  · rename_i hd
    split at h
    · cases h
    · rename_i hb
      split at h
      · cases h
      · rename_i hk; exact ⟨by simpa using hd, by simpa using hb, hk⟩

theorem avoids_concat {pr : Prop' σ} {p : List σ} {x : σ} (hp : Avoids pr p) (hx : pr.cond x = false) :
    Avoids pr (p ++ [x]) := by
  intro u hu
  rcases List.mem_append.1 hu with hu | hu
  · exact hp u hu
  · simp at hu; subst hu; exact hx

theorem path_eq_dropLast_concat {p : List σ} {x : σ} (h : p.getLast? = some x) : p = p.dropLast ++ [x] := by
  have hne : p ≠ [] := by intro e; subst e; simp at h
  have := (List.dropLast_concat_getLast hne).symm
  rw [List.getLast?_eq_some_getLast hne] at h
  injection h with h
  rw [h] at this; exact this

/-- an entered trace whose tracked conditions are all false in the current state avoids them on the whole path -/
theorem ebOk_whole {t : Tr σ κ} (he : Entered P t) (hc : CurUpTo P P.props.length t) : EbOk P t.ebits t.path := by
  intro i hi pr hpr
  refine ⟨(he.eb i hi pr hpr).1, ?_⟩
  rw [path_eq_dropLast_concat he.last]
  exact avoids_concat (he.eb i hi pr hpr).2 (hc i hi (List.getElem?_eq_some_iff.1 hpr).1 pr hpr)

theorem entryOk_of_eb {eb : List Nat} {p : List σ} (hp : P.M.IsPath p) (heb : EbOk P eb p)
    (hend : (∃ u, p.getLast? = some u ∧ P.M.succB u = []) ∨ Sim.CyclesBack P p) :
    ∀ j ∈ eb, j < P.props.length → Sim.EntryOk P (j, p) := by
  intro j hj hlt
  refine ⟨hp, hlt, ?_, ?_⟩
  · intro pr hpr
    have := (heb j hj pr hpr).1
    exact ⟨fun e => (by rw [this] at e; cases e), fun e => (by rw [this] at e; cases e)⟩
  · intro pr hpr _
    exact ⟨(heb j hj pr hpr).2, hend⟩

theorem ended_ok :
    (∀ t', (Eff.mk (WSt.ended : WSt σ κ) none false).w' = WSt.busy t' → TrOk P t') ∧
    (∀ x, (Eff.mk (WSt.ended : WSt σ κ) none false).ins = some x → Sim.EntryOk P x) :=
  ⟨fun t' h => (by cases h), fun x h => (by cases h)⟩

theorem entered_mono {t t' : Tr σ κ} (h : Entered P t) (hc : t'.cur = t.cur) (hp : t'.path = t.path)
    (hs : t'.seen = t.seen) (he : ∀ i ∈ t'.ebits, i ∈ t.ebits) : Entered P t' :=
  ⟨hp ▸ h.path, by rw [hp, hc]; exact h.last, by rw [hs, hp]; exact h.seen,
   fun i hi pr hpr => by rw [hp]; exact h.eb i (he i hi) pr hpr⟩

/-- **One step of a worker inside a trace**, whatever the shared map `d` and the flag `sd` are at that moment: the
    worker's trace invariant is kept and anything it inserts into the shared map is a genuine witness. -/
theorem busyStep_ok
    (hkc : ∀ a b, P.M.Reach a → P.M.Reach b → P.key a = P.key b → ∀ pr ∈ P.props, pr.cond a = pr.cond b)
    {f : Step σ} {sd : Bool} {d : List (Nat × List σ)} {t : Tr σ κ} {e : Eff σ κ}
    (ht : TrOk P t) (h : busyStep P f sd d t = some e) :
    (∀ t', e.w' = WSt.busy t' → TrOk P t') ∧ (∀ x, e.ins = some x → Sim.EntryOk P x) := by
  unfold busyStep at h
  split at h
  · -- enter
    rename_i hph
    simp only [TrOk, hph] at ht
    obtain ⟨hpt, hseen, heb⟩ := ht
    split at h
    · injection h with h; subst h; exact ended_ok
    · injection h with h; subst h; exact ended_ok
    · -- loop found
      rename_i hout
      obtain ⟨hin, hk⟩ := enterOut_loop hout
      injection h with h; subst h
      refine ⟨fun t' ht' => ?_, fun x hx => by cases hx⟩
      injection ht' with ht'; subst ht'
      have hpath' := Sim.isPath_extend hpt hin
      have hlast' : (t.path ++ [t.cur]).getLast? = some t.cur := by simp
      have hreach : P.M.Reach t.cur := Sys.reach_last_of_isPath hpath' hlast'
      obtain ⟨u, hu, hku⟩ := (hseen _).1 hk
      have hur : P.M.Reach u := Sys.reach_of_isPath hpath' u (List.mem_append_left _ hu)
      simp only [TrOk]
      refine entryOk_of_eb hpath' ?_
        (Or.inr ⟨t.cur, hlast', u, by simpa using hu, hku⟩)
      intro i hi pr hpr
      refine ⟨(heb i hi pr hpr).1, avoids_concat (heb i hi pr hpr).2 ?_⟩
      rw [← hkc u t.cur hur hreach hku pr (List.mem_of_getElem? hpr)]
      exact (heb i hi pr hpr).2 u hu
    · -- counted
      rename_i hout
      obtain ⟨_, hin, hk⟩ := enterOut_counted hout
      injection h with h; subst h
      refine ⟨fun t' ht' => ?_, fun x hx => by cases hx⟩
      injection ht' with ht'; subst ht'
      simp only [TrOk]
      refine ⟨⟨Sim.isPath_extend hpt hin, by simp, ?_, by simpa using heb⟩, fun j _ hj => absurd hj (Nat.not_lt_zero _)⟩
      intro k
      simp only [List.mem_cons, List.mem_append, List.not_mem_nil, or_false]
      constructor
      · rintro (rfl | hk')
        · exact ⟨t.cur, Or.inr rfl, rfl⟩
        · obtain ⟨u, hu, rfl⟩ := (hseen k).1 hk'
          exact ⟨u, Or.inl hu, rfl⟩
      · rintro ⟨u, (hu | rfl), rfl⟩
        · exact Or.inr ((hseen _).2 ⟨u, hu, rfl⟩)
        · exact Or.inl rfl
  · -- evalProp
    rename_i w i j hph
    simp only [TrOk, hph] at ht
    obtain ⟨hen, hcur⟩ := ht
    split at h
    · rename_i hij
      obtain ⟨rfl, hlt⟩ := hij
      split at h
      · injection h with h; subst h
        refine ⟨fun t' ht' => ?_, fun x hx => by cases hx⟩
        injection ht' with ht'; subst ht'
        simp only [TrOk]
        refine ⟨entered_mono hen rfl rfl rfl (fun k hk => (List.mem_filter.1 hk).1), ?_⟩
        intro k hk hlt' pr hpr
        have hk' := List.mem_filter.1 hk
        have hne : k ≠ i := by simpa using hk'.2
        exact hcur k hk'.1 (by omega) pr hpr
      · injection h with h; subst h
        refine ⟨fun t' ht' => ?_, fun x hx => by cases hx⟩
        injection ht' with ht'; subst ht'
        simp only [TrOk]
        exact ⟨entered_mono hen rfl rfl rfl (fun k hk => hk), hcur⟩
    · cases h
  · -- applyProp
    rename_i w i j hph
    simp only [TrOk, hph] at ht
    obtain ⟨hen, hcur⟩ := ht
    split at h
    · rename_i hij
      subst hij
      split at h
      · cases h
      · rename_i p hp
        have hlt : i < P.props.length := (List.getElem?_eq_some_iff.1 hp).1
        -- a property that is not an eventually property is not tracked
        have notTracked : p.exp ≠ .eventually → CurUpTo P (i + 1) t := by
          intro hne k hk hlt' pr hpr
          by_cases hki : k = i
          · subst hki
            have := (hen.eb k hk pr hpr).1
            rw [hp] at hpr; cases hpr; exact absurd this hne
          · exact hcur k hk (by omega) pr hpr
        have entryAS : p.exp ≠ .eventually →
            ((p.exp = .always → p.cond t.cur = false) ∧ (p.exp = .sometimes → p.cond t.cur = true)) →
            Sim.EntryOk P (i, t.path) := by
          intro hne hw
          refine ⟨hen.path, hlt, ?_, ?_⟩
          · intro pr hpr; simp only at hpr; rw [hp] at hpr; cases hpr
            exact ⟨fun e => ⟨t.cur, hen.last, hw.1 e⟩, fun e => ⟨t.cur, hen.last, hw.2 e⟩⟩
          · intro pr hpr e; simp only at hpr; rw [hp] at hpr; cases hpr; exact absurd e hne
        split at h
        · rename_i hexp
          have hne : p.exp ≠ .eventually := by rw [hexp]; intro e; cases e
          split at h
          · rename_i hc
            injection h with h; subst h
            refine ⟨fun t' ht' => ?_, fun x hx => ?_⟩
            · injection ht' with ht'; subst ht'
              simp only [TrOk]
              exact ⟨entered_mono hen rfl rfl rfl (fun k hk => hk), notTracked hne⟩
            · injection hx with hx; subst hx
              exact entryAS hne ⟨fun _ => (by simpa using hc), fun e => (by rw [hexp] at e; cases e)⟩
          · injection h with h; subst h
            refine ⟨fun t' ht' => ?_, fun x hx => by cases hx⟩
            injection ht' with ht'; subst ht'
            simp only [TrOk]
            exact ⟨entered_mono hen rfl rfl rfl (fun k hk => hk), notTracked hne⟩
        · rename_i hexp
          have hne : p.exp ≠ .eventually := by rw [hexp]; intro e; cases e
          split at h
          · rename_i hc
            injection h with h; subst h
            refine ⟨fun t' ht' => ?_, fun x hx => ?_⟩
            · injection ht' with ht'; subst ht'
              simp only [TrOk]
              exact ⟨entered_mono hen rfl rfl rfl (fun k hk => hk), notTracked hne⟩
            · injection hx with hx; subst hx
              exact entryAS hne ⟨fun e => (by rw [hexp] at e; cases e), fun _ => hc⟩
          · injection h with h; subst h
            refine ⟨fun t' ht' => ?_, fun x hx => by cases hx⟩
            injection ht' with ht'; subst ht'
            simp only [TrOk]
            exact ⟨entered_mono hen rfl rfl rfl (fun k hk => hk), notTracked hne⟩
        · injection h with h; subst h
          refine ⟨fun t' ht' => ?_, fun x hx => by cases hx⟩
          injection ht' with ht'; subst ht'
          simp only [TrOk]
          by_cases hc : p.cond t.cur = true
          · simp only [hc, if_true]
            refine ⟨entered_mono hen rfl rfl rfl (fun k hk => (List.mem_filter.1 hk).1), ?_⟩
            intro k hk hlt' pr hpr
            have hk' := List.mem_filter.1 hk
            have hne : k ≠ i := by simpa using hk'.2
            exact hcur k hk'.1 (by omega) pr hpr
          · have hc' : p.cond t.cur = false := by simpa using hc
            simp only [hc', Bool.false_eq_true, if_false]
            refine ⟨entered_mono hen rfl rfl rfl (fun k hk => hk), ?_⟩
            intro k hk hlt' pr hpr
            by_cases hki : k = i
            · subst hki; rw [hp] at hpr; cases hpr; exact hc'
            · exact hcur k hk (by omega) pr hpr
    · cases h
  · -- finishProps
    rename_i w j hph
    simp only [TrOk, hph] at ht
    obtain ⟨hen, hcur⟩ := ht
    split at h
    · cases h
    · rename_i hj
      split at h
      · injection h with h; subst h; exact ended_ok
      · injection h with h; subst h
        refine ⟨fun t' ht' => ?_, fun x hx => by cases hx⟩
        injection ht' with ht'; subst ht'
        simp only [TrOk]
        exact ⟨entered_mono hen rfl rfl rfl (fun k hk => hk), fun k hk hlt pr hpr => hcur k hk (by omega) pr hpr⟩
  · -- advance to a successor
    rename_i w n hph
    simp only [TrOk, hph] at ht
    obtain ⟨hen, hcur⟩ := ht
    split at h
    · rename_i hn
      injection h with h; subst h
      refine ⟨fun t' ht' => ?_, fun x hx => by cases hx⟩
      injection ht' with ht'; subst ht'
      simp only [TrOk]
      exact ⟨Or.inr ⟨hen.path, t.cur, hen.last, hn⟩, hen.seen, ebOk_whole hen hcur⟩
    · cases h
  · -- no action left
    rename_i w hph
    simp only [TrOk, hph] at ht
    obtain ⟨hen, hcur⟩ := ht
    split at h
    · rename_i hn
      injection h with h; subst h
      refine ⟨fun t' ht' => ?_, fun x hx => by cases hx⟩
      injection ht' with ht'; subst ht'
      simp only [TrOk]
      exact entryOk_of_eb hen.path (ebOk_whole hen hcur)
        (Or.inl ⟨t.cur, hen.last, by simpa using hn⟩)
    · cases h
  · -- recordOne
    rename_i w i j hph
    simp only [TrOk, hph] at ht
    split at h
    · rename_i hij
      obtain ⟨rfl, hlt⟩ := hij
      injection h with h; subst h
      refine ⟨fun t' ht' => ?_, fun x hx => ?_⟩
      · injection ht' with ht'; subst ht'
        simp only [TrOk]; exact ht
      · simp only at hx
        split at hx
        · rename_i hmem; injection hx with hx; subst hx; exact ht i hmem hlt
        · cases hx
    · cases h
  · -- endTrace
    split at h
    · cases h
    · injection h with h; subst h; exact ended_ok
  · -- cut
    split at h
    · injection h with h; subst h; exact ended_ok
    · cases h
  · cases h

/-! ### the whole machine -/

theorem ws_set {l : List (WSt σ κ)} {w w' : Nat} {x : WSt σ κ} {t : Tr σ κ}
    (h : (l.set w x)[w']? = some (WSt.busy t)) : x = WSt.busy t ∨ l[w']? = some (WSt.busy t) := by
  rw [List.getElem?_set] at h
  split at h
  · split at h
    · left; injection h
    · cases h
  · right; exact h

theorem trOk_new {x : σ} (hx : x ∈ P.M.init) : TrOk P (newTrace P x : Tr σ κ) := by
  simp only [TrOk, newTrace]
  refine ⟨Or.inl ⟨rfl, hx⟩, by intro k; simp, ?_⟩
  intro i hi pr hpr
  refine ⟨?_, by intro u hu; simp at hu⟩
  simp only [initEbits, List.mem_filter] at hi
  rw [hpr] at hi; simpa using hi.2

theorem inv_init (k : Nat) : Inv P (init k : St σ κ) := by
  refine ⟨by intro e he; simp [init] at he, ?_⟩
  intro w t h
  simp only [init, List.getElem?_replicate] at h
  split at h
  · cases h
  · cases h

theorem inv_setW {s : St σ κ} (hi : Inv P s) {w : Nat} {x : WSt σ κ} (hx : ∀ t, x = WSt.busy t → TrOk P t)
    {sd : Bool} : Inv P { s with shutdown := sd, ws := s.ws.set w x } := by
  refine ⟨hi.disc, ?_⟩
  intro w' t' hw'
  rcases ws_set hw' with h1 | h1
  · exact hx t' h1
  · exact hi.ws _ _ h1

/-- **Every step keeps the invariant** -/
theorem step_inv
    (hkc : ∀ a b, P.M.Reach a → P.M.Reach b → P.key a = P.key b → ∀ pr ∈ P.props, pr.cond a = pr.cond b)
    {f : Step σ} {s s' : St σ κ} (hi : Inv P s) (h : step P f s = some s') : Inv P s' := by
  unfold step at h
  split at h
  · rename_i e he
    injection h with h; subst h
    unfold effOf at he
    split at he
    · rename_i t hw
      have hb := busyStep_ok hkc (hi.ws _ t hw) he
      refine ⟨?_, ?_⟩
      · simp only [applyEff]
        split
        · rename_i i p hins
          exact Sim.discOk_insert hi.disc (hb.2 _ hins)
        · exact hi.disc
      · intro w' t' hw'
        simp only [applyEff] at hw'
        rcases ws_set hw' with h1 | h1
        · exact hb.1 _ h1
        · exact hi.ws _ _ h1
    · cases he
  · split at h
    · -- start
      split at h
      · split at h
        · rename_i hx
          injection h with h; subst h
          exact inv_setW (sd := s.shutdown) hi (fun t ht => by injection ht with ht; subst ht; exact trOk_new hx)
        · cases h
      · cases h
    · -- cont
      split at h
      · split at h
        · injection h with h; subst h
          exact inv_setW (sd := s.shutdown) hi (fun t ht => by cases ht)
        · cases h
      · cases h
    · split at h
      · split at h
        · injection h with h; subst h
          exact inv_setW (sd := s.shutdown) hi (fun t ht => by cases ht)
        · cases h
      · cases h
    · split at h
      · split at h
        · injection h with h; subst h
          exact inv_setW (sd := s.shutdown) hi (fun t ht => by cases ht)
        · cases h
      · cases h
    · split at h
      · split at h
        · injection h with h; subst h
          exact inv_setW (sd := s.shutdown) hi (fun t ht => by cases ht)
        · cases h
      · cases h
    · -- timeout
      split at h
      · injection h with h; subst h
        exact ⟨hi.disc, hi.ws⟩
      · cases h
    · -- panic
      split at h
      · cases h
      · injection h with h; subst h
        exact inv_setW (sd := true) hi (fun t ht => by cases ht)
      · cases h
    · cases h

theorem runFrom_inv
    (hkc : ∀ a b, P.M.Reach a → P.M.Reach b → P.key a = P.key b → ∀ pr ∈ P.props, pr.cond a = pr.cond b)
    (fs : List (Step σ)) : ∀ s : St σ κ, Inv P s → Inv P (runFrom P s fs) := by
  induction fs with
  | nil => intro s hs; exact hs
  | cons f fs ih =>
    intro s hs
    simp only [runFrom]
    split
    · exact ih s hs
    · rename_i s' hstep
      exact ih s' (step_inv hkc hs hstep)

/-- every entry of the shared map, at any moment of any run, is a genuine witness -/
theorem run_discOk
    (hkc : ∀ a b, P.M.Reach a → P.M.Reach b → P.key a = P.key b → ∀ pr ∈ P.props, pr.cond a = pr.cond b)
    (k : Nat) (fs : List (Step σ)) : Sim.DiscOk P (run P k fs).disc :=
  (runFrom_inv hkc fs _ (inv_init k)).disc

/-! ### the counter -/

theorem busyStep_cnt {f : Step σ} {sd : Bool} {d : List (Nat × List σ)} {t : Tr σ κ} {e : Eff σ κ}
    (h : busyStep P f sd d t = some e) (hc : e.cnt = true) :
    ∃ w, f = .enter w ∧ t.ph = .top ∧ enterOut P t = .counted := by
  unfold busyStep at h
  split at h
  · rename_i w hph
    split at h
    · injection h with h; subst h; cases hc
    · injection h with h; subst h; cases hc
    · injection h with h; subst h; cases hc
    · rename_i hout; exact ⟨w, rfl, hph, hout⟩
  all_goals (repeat' (split at h))
  all_goals first
    | (cases h; done)
    | (injection h with h; subst h; cases hc)

theorem counts_iff {f : Step σ} {s : St σ κ} :
    counts P f s = true ↔
      ∃ w t, f = .enter w ∧ s.ws[w]? = some (WSt.busy t) ∧ t.ph = .top ∧ enterOut P t = .counted := by
  constructor
  · intro h
    unfold counts at h
    split at h
    · rename_i e he
      unfold effOf at he
      split at he
      · rename_i t hw
        obtain ⟨w, rfl, hph, hout⟩ := busyStep_cnt he h
        exact ⟨w, t, rfl, hw, hph, hout⟩
      · cases he
    · cases h
  · rintro ⟨w, t, rfl, hw, hph, hout⟩
    simp only [counts, effOf, Step.worker, hw, busyStep, hph, hout]

theorem step_count {f : Step σ} {s s' : St σ κ} (h : step P f s = some s') :
    s'.stateCount = s.stateCount + (if counts P f s then 1 else 0) := by
  unfold step at h
  unfold counts
  split at h
  · rename_i e he
    injection h with h; subst h
    simp only [applyEff]
    split <;> simp_all
  · repeat' (split at h)
    all_goals first
      | (cases h; done)
      | (injection h with h; subst h; simp)

theorem runFrom_count (fs : List (Step σ)) : ∀ s : St σ κ,
    (runFrom P s fs).stateCount = s.stateCount + counted P s fs := by
  induction fs with
  | nil => intro s; simp [runFrom, counted]
  | cons f fs ih =>
    intro s
    simp only [runFrom, counted]
    split
    · exact ih s
    · rename_i s' hstep
      rw [ih s', step_count hstep]; omega

/-! ### only `applyProp` and `recordOne` write to the shared map, and they write the worker's own path -/

theorem busyStep_ins {f : Step σ} {sd : Bool} {d : List (Nat × List σ)} {t : Tr σ κ} {e : Eff σ κ} {x : Nat × List σ}
    (h : busyStep P f sd d t = some e) (hx : e.ins = some x) :
    ∃ w i, (f = .applyProp w i ∨ f = .recordOne w i) ∧ x = (i, t.path) := by
  unfold busyStep at h
  split at h
  · -- enter
    split at h <;> (injection h with h; subst h; cases hx)
  · -- evalProp
    repeat' (split at h)
    all_goals first
      | (cases h; done)
      | (injection h with h; subst h; cases hx)
  · -- applyProp
    rename_i w i j hph
    split at h
    · rename_i hij
      subst hij
      repeat' (split at h)
      all_goals first
        | (cases h; done)
        | (injection h with h; subst h; cases hx; done)
        | (injection h with h; subst h; injection hx with hx; exact ⟨w, i, Or.inl rfl, hx.symm⟩)
    · cases h
  · repeat' (split at h)
    all_goals first
      | (cases h; done)
      | (injection h with h; subst h; cases hx)
  · repeat' (split at h)
    all_goals first
      | (cases h; done)
      | (injection h with h; subst h; cases hx)
  · repeat' (split at h)
    all_goals first
      | (cases h; done)
      | (injection h with h; subst h; cases hx)
  · -- recordOne
    rename_i w i j hph
    split at h
    · rename_i hij
      obtain ⟨rfl, _⟩ := hij
      injection h with h; subst h
      simp only at hx
      split at hx
      · injection hx with hx; exact ⟨w, i, Or.inr rfl, hx.symm⟩
      · cases hx
    · cases h
  · repeat' (split at h)
    all_goals first
      | (cases h; done)
      | (injection h with h; subst h; cases hx)
  · repeat' (split at h)
    all_goals first
      | (cases h; done)
      | (injection h with h; subst h; cases hx)
  · cases h

/-- a step leaves the shared map alone unless it is `applyProp` / `recordOne` of a worker inside a trace, which inserts
    that worker's current path: `cut`, `finishProps` ("everything discovered"), a depth-limit / boundary exit record
    nothing -/
theorem step_disc {f : Step σ} {s s' : St σ κ} (h : step P f s = some s') :
    s'.disc = s.disc ∨
    ∃ w i t, (f = .applyProp w i ∨ f = .recordOne w i) ∧ s.ws[w]? = some (WSt.busy t) ∧
      s'.disc = discInsert s.disc i t.path := by
  unfold step at h
  split at h
  · rename_i e he
    injection h with h; subst h
    unfold effOf at he
    split at he
    · rename_i t hw
      cases hins : e.ins with
      | none => left; simp only [applyEff, hins]
      | some x =>
        obtain ⟨w, i, hf, rfl⟩ := busyStep_ins he hins
        right
        refine ⟨w, i, t, hf, ?_, by simp only [applyEff, hins]⟩
        rcases hf with rfl | rfl <;> exact hw
    · cases he
  · left
    repeat' (split at h)
    all_goals first
      | (cases h; done)
      | (injection h with h; subst h; rfl)

/-- a discovered property stays discovered (the reads of the shared map are reads of a growing set of names) -/
theorem step_hasDisc {f : Step σ} {s s' : St σ κ} (h : step P f s = some s') {i : Nat}
    (hd : hasDisc s.disc i = true) : hasDisc s'.disc i = true := by
  rcases step_disc h with h1 | ⟨_, _, _, _, _, h1⟩
  · rw [h1]; exact hd
  · rw [h1]; exact hasDisc_insert_mono hd

theorem runFrom_hasDisc (fs : List (Step σ)) : ∀ (s : St σ κ) {i : Nat}, hasDisc s.disc i = true →
    hasDisc (runFrom P s fs).disc i = true := by
  induction fs with
  | nil => intro s i hd; exact hd
  | cons f fs ih =>
    intro s i hd
    simp only [runFrom]
    split
    · exact ih s hd
    · rename_i s' hstep
      exact ih s' (step_hasDisc hstep hd)

end
end SR.Checker.MSim
