import SR.Proofs.Checker.DiscNames
import SR.Proofs.Checker.FullReplay
import SR.Drv.SimTrace
import SR.Proofs.Checker.MSim
/-!
# Completeness of the trace validators (`tvsim`, `tv`)

Soundness (`isRun_replay` of `Drv/SimTrace.lean`, `Proofs/Checker/FullReplay.lean`): a trace the validator accepts is a
run of the machine.  Here the converse: the log the hooks write for a run of the machine is accepted.

## Part 1: `tvsim` over `Checker/MSim.lean`

`entry P s f` is the entry the `TR_SIM_*` hooks write when the machine takes the enabled step `f` in state `s` (exactly
the fields `SimTrace.one` reads); two kinds of steps have NO entry: `finishProps` when something is awaited, and an
iteration `recordOne w i` of the recording loop whose bit is not set.  `record P s fs` is the log of the run `fs` from `s`.

Since the steps without an entry are not in the log, the replay performs them only when the next entry of the same
worker arrives (`fill`): between entries the replay is BEHIND the machine by such steps (`Lag`).  These steps change
nothing but the phase of the worker's own trace, so every other step is enabled in the replay's state iff it is in the
machine's, with the same effect on the shared state (`step_complete`).  At the end of a run in which every worker has
left (what the driver demands) nothing is behind: the replay ends in the machine's final state.
-/
namespace SR.ReplayComplete.Sim
open SR SR.Checker SR.Checker.MSim SR.Drv.SimTrace

abbrev T := Tr Nat Nat
abbrev W := WSt Nat Nat

variable (P : Params Nat Nat Nat)

/-! ### What the hooks write -/

/-- the entry the `TR_SIM_*` hooks write when the machine takes the (enabled) step `f` in state `s`; `none`: the step has
    no entry (`finishProps` when something is awaited; an iteration of the recording loop whose bit is not set) -/
def entry (s : S) (f : Step Nat) : Option Ev :=
  match f with
  | .start w a => some ⟨w, 40, a, 0⟩
  | .enter w =>
    match trOf s w with
    | some t =>
      match enterOut P t with
      | .counted => some ⟨w, 41, t.cur, t.path.length + 1⟩
      | .loop => some ⟨w, 44, 1, t.path.length + 1⟩
      | .depth => some ⟨w, 44, 3, t.path.length⟩
      | .outside => some ⟨w, 44, 4, t.path.length⟩
    | none => none
  | .evalProp w i => if hasDisc s.disc i then some ⟨w, 21, i, 0⟩ else some ⟨w, 42, i, 0⟩
  | .applyProp w i =>
    match effOf P (.applyProp w i) s with
    | some e => if e.ins.isSome then some ⟨w, 21, i, 1⟩ else some ⟨w, 21, i, 2⟩
    | none => none
  | .finishProps w =>
    match trOf s w with
    | some t => if t.awaiting then none else some ⟨w, 44, 5, t.path.length⟩
    | none => none
  | .advance w (some n) => some ⟨w, 43, n, 0⟩
  | .advance w none =>
    match trOf s w with
    | some t => some ⟨w, 44, 2, t.path.length⟩
    | none => none
  | .recordOne w i =>
    match trOf s w with
    | some t => if i ∈ t.ebits then some ⟨w, 23, i, 0⟩ else none
    | none => none
  | .endTrace w => some ⟨w, 45, 0, 0⟩
  | .cut w =>
    match trOf s w with
    | some t => some ⟨w, 44, 6, t.path.length⟩
    | none => none
  | .cont w => some ⟨w, 47, 0, 0⟩
  | .leave w .finish => some ⟨w, 46, 1, 0⟩
  | .leave w .target => some ⟨w, 46, 2, 0⟩
  | .leave w .shutdown => some ⟨w, 46, 3, 0⟩
  | .timeout => some ⟨99999, 48, 0, 0⟩
  | .panic w => some ⟨w, 48, 1, 0⟩

/-- the log of a run (steps that are not enabled are skipped, as in `MSim.runFrom`) -/
def record (s : S) : List (Step Nat) → List Ev
  | [] => []
  | f :: fs =>
    match MSim.step P f s with
    | none => record s fs
    | some s' => (entry P s f).toList ++ record s' fs

/-! ### The replay lags behind the machine by the steps that have no entry -/

/-- the step without an entry that a trace can take, if any -/
def sil (t : T) : Option T :=
  match t.ph with
  | .props i => if i < P.props.length ∨ !t.awaiting then none else some { t with ph := .choose }
  | .record i => if i < P.props.length ∧ i ∉ t.ebits then some { t with ph := .record (i + 1) } else none
  | _ => none

inductive LagT : T → T → Prop
  | refl (t : T) : LagT t t
  | step {t t' t'' : T} : sil P t = some t' → LagT t' t'' → LagT t t''

inductive LagW : W → W → Prop
  | refl (a : W) : LagW a a
  | busy {t t' : T} : LagT P t t' → LagW (.busy t) (.busy t')

def LagO : Option W → Option W → Prop
  | none, none => True
  | some a, some b => LagW P a b
  | _, _ => False

structure Lag (x s : S) : Prop where
  disc : x.disc = s.disc
  cnt : x.stateCount = s.stateCount
  sd : x.shutdown = s.shutdown
  ws : ∀ w : Nat, LagO P x.ws[w]? s.ws[w]?

variable {P}

theorem lagT_snoc {t t' t'' : T} (h : LagT P t t') (h' : sil P t' = some t'') : LagT P t t'' := by
  induction h with
  | refl t => exact .step h' (.refl _)
  | step h1 _ ih => exact .step h1 (ih h')

/-- a trace that is behind is in the phase `props` or `record`; the machine's is in `choose` or `record` -/
theorem lagT_ph {t t' : T} (h : LagT P t t') : t = t' ∨ t'.ph = .choose ∨ ∃ i, t'.ph = .record i := by
  induction h with
  | refl t => exact .inl rfl
  | @step t t1 t2 h1 h2 ih =>
    right
    rcases ih with rfl | h | h
    · unfold sil at h1
      split at h1
      · split at h1
        · cases h1
        · cases h1; exact .inl rfl
      · split at h1
        · cases h1; exact .inr ⟨_, rfl⟩
        · cases h1
      · cases h1
    · exact .inl h
    · exact .inr h

theorem lagW_refl_of {a b : W} (h : LagW P a b) (hb : ∀ t, b = .busy t → t.ph ≠ .choose ∧ ∀ i, t.ph ≠ .record i) :
    a = b := by
  cases h with
  | refl => rfl
  | busy h =>
    rcases lagT_ph h with rfl | h' | ⟨i, h'⟩
    · rfl
    · exact ((hb _ rfl).1 h').elim
    · exact ((hb _ rfl).2 i h').elim

theorem lag_refl (s : S) : Lag P s s :=
  ⟨rfl, rfl, rfl, fun w => by
    cases h : s.ws[w]? with
    | none => exact trivial
    | some a => exact LagW.refl a⟩

theorem lagO_some_right {o : Option W} {b : W} (h : LagO P o (some b)) : ∃ a, o = some a ∧ LagW P a b := by
  cases o with
  | none => exact h.elim
  | some a => exact ⟨a, rfl, h⟩

theorem lag_get {x s : S} (h : Lag P x s) {w : Nat} {b : W} (hb : s.ws[w]? = some b) :
    ∃ a, x.ws[w]? = some a ∧ LagW P a b := by
  have := h.ws w
  rw [hb] at this
  exact lagO_some_right this

theorem lag_get_busy {x s : S} (h : Lag P x s) {w : Nat} {t : T} (hb : s.ws[w]? = some (.busy t)) :
    ∃ tx, x.ws[w]? = some (.busy tx) ∧ LagT P tx t := by
  obtain ⟨a, ha, hl⟩ := lag_get h hb
  cases hl with
  | refl => exact ⟨t, ha, .refl _⟩
  | busy h' => exact ⟨_, ha, h'⟩

/-- the same except for worker `w`, whose state in the machine is `b`, in the replay `a` -/
theorem lag_set {x s : S} (h : Lag P x s) {w : Nat} {a b : W} (hw : w < s.ws.length) (hab : LagW P a b)
    {x' s' : S} (hx : x'.ws = x.ws.set w a) (hs : s'.ws = s.ws.set w b)
    (hd : x'.disc = s'.disc) (hc : x'.stateCount = s'.stateCount) (hsd : x'.shutdown = s'.shutdown) : Lag P x' s' := by
  refine ⟨hd, hc, hsd, fun v => ?_⟩
  rw [hx, hs]
  have hwx : w < x.ws.length := by
    have := h.ws w
    rw [List.getElem?_eq_getElem hw] at this
    obtain ⟨a', ha', _⟩ := lagO_some_right this
    exact (List.getElem?_eq_some_iff.1 ha').1
  by_cases hv : w = v
  · subst hv
    rw [List.getElem?_set_self hw, List.getElem?_set_self hwx]
    exact hab
  · rw [List.getElem?_set_ne hv, List.getElem?_set_ne hv]
    exact h.ws v

theorem lt_of_get {l : List W} {w : Nat} {a : W} (h : l[w]? = some a) : w < l.length :=
  (List.getElem?_eq_some_iff.1 h).1


theorem lag_upd {x s x' s' : S} (h : Lag P x s) (w : Nat) (hx : ∀ v, w ≠ v → x'.ws[v]? = x.ws[v]?)
    (hs : ∀ v, w ≠ v → s'.ws[v]? = s.ws[v]?) (hw : LagO P x'.ws[w]? s'.ws[w]?)
    (hd : x'.disc = s'.disc) (hc : x'.stateCount = s'.stateCount) (hsd : x'.shutdown = s'.shutdown) : Lag P x' s' := by
  refine ⟨hd, hc, hsd, fun v => ?_⟩
  by_cases hv : w = v
  · subst hv; exact hw
  · rw [hx v hv, hs v hv]; exact h.ws v

/-! ### Machine steps -/

theorem step_of_eff {f : Step Nat} {s : S} {t : T} {e : Eff Nat Nat} (hw : s.ws[f.worker]? = some (.busy t))
    (he : busyStep P f s.shutdown s.disc t = some e) : MSim.step P f s = some (applyEff s f.worker e) := by
  unfold MSim.step effOf
  rw [hw]
  simp only [he]

theorem step_eff {f : Step Nat} {s s' : S} (h : MSim.step P f s = some s') :
    (∃ t e, s.ws[f.worker]? = some (.busy t) ∧ busyStep P f s.shutdown s.disc t = some e ∧
      s' = applyEff s f.worker e) ∨ effOf P f s = none := by
  cases he : effOf P f s with
  | none => exact .inr rfl
  | some e =>
    left
    unfold MSim.step at h
    rw [he] at h
    unfold effOf at he
    split at he
    · rename_i t ht
      exact ⟨t, e, ht, he, by cases h; rfl⟩
    · cases he

theorem stepE_of {x x' : S} {f : Step Nat} (h : MSim.step P f x = some x') : stepE P x f = .ok x' := by
  unfold stepE; rw [h]; rfl

theorem trOf_busy {x : S} {w : Nat} {t : T} (h : x.ws[w]? = some (.busy t)) : trOf x w = some t := by
  unfold trOf; rw [h]

theorem check_false {msg : Unit → String} {k : R S} : check false msg k = k := rfl

theorem applyEff_ws (s : S) (w : Nat) (e : Eff Nat Nat) : (applyEff s w e).ws = s.ws.set w e.w' := rfl

/-- a step of a worker inside a trace whose state is the same in the replay and in the machine: the same step, and the
    replay stays as far behind as it was -/
theorem sync_step {x s : S} (h : Lag P x s) {f : Step Nat} {w : Nat} (hw : f.worker = w) {t : T} {e : Eff Nat Nat}
    (hs : s.ws[w]? = some (.busy t)) (hx : x.ws[w]? = some (.busy t))
    (he : busyStep P f s.shutdown s.disc t = some e) :
    MSim.step P f x = some (applyEff x w e) ∧ effOf P f x = some e ∧
      Lag P (applyEff x w e) (applyEff s w e) := by
  subst hw
  have he' : busyStep P f x.shutdown x.disc t = some e := by rw [h.sd, h.disc]; exact he
  refine ⟨step_of_eff hx he', ?_, ?_⟩
  · unfold effOf; rw [hx]; exact he'
  · refine lag_upd h f.worker ?_ ?_ ?_ ?_ ?_ ?_
    · intro v hv; rw [applyEff_ws, List.getElem?_set_ne hv]
    · intro v hv; rw [applyEff_ws, List.getElem?_set_ne hv]
    · rw [applyEff_ws, applyEff_ws, List.getElem?_set_self (lt_of_get hx), List.getElem?_set_self (lt_of_get hs)]
      exact LagW.refl _
    · simp only [applyEff, h.disc]
    · simp only [applyEff, h.cnt]
    · simp only [applyEff, h.sd]

/-! ### `fill` catches up -/

def mu (P : Params Nat Nat Nat) (t : T) : Nat :=
  match t.ph with
  | .props _ => 1
  | .record i => P.props.length - i
  | _ => 0

theorem fill_aux (w : Nat) {tx t : T} (hl : LagT P tx t) (hsil : sil P t = none) : ∀ (fuel : Nat) (x : S),
    mu P tx < fuel → x.ws[w]? = some (.busy tx) →
    ∃ x1, fill P x w fuel = .ok x1 ∧ x1.ws[w]? = some (.busy t) ∧ (∀ v, w ≠ v → x1.ws[v]? = x.ws[v]?) ∧
      x1.disc = x.disc ∧ x1.stateCount = x.stateCount ∧ x1.shutdown = x.shutdown := by
  induction hl with
  | refl t =>
    intro fuel x hf hx
    refine ⟨x, ?_, hx, fun _ _ => rfl, rfl, rfl, rfl⟩
    cases fuel with
    | zero => rfl
    | succ fuel =>
      unfold fill
      rw [trOf_busy hx]
      unfold sil at hsil
      cases hph : t.ph with
      | props i =>
        simp only [hph] at hsil ⊢
        split at hsil
        · rename_i hc; rw [if_pos hc]; rfl
        · cases hsil
      | record i =>
        simp only [hph] at hsil ⊢
        split at hsil
        · cases hsil
        · rename_i hc; rw [if_neg hc]; rfl
      | _ => simp only [hph]; rfl
  | @step tx t1 t h1 h2 ih =>
    intro fuel x hf hx
    have ih := ih hsil
    cases fuel with
    | zero => exact (Nat.not_lt_zero _ hf).elim
    | succ fuel =>
      unfold fill
      rw [trOf_busy hx]
      unfold sil at h1
      cases hph : tx.ph with
      | props i =>
        simp only [hph] at h1 ⊢
        split at h1
        · cases h1
        · rename_i hc
          rw [if_neg hc]
          cases h1
          have hc' : ¬ i < P.props.length ∧ tx.awaiting = true := by
            constructor
            · exact fun h => hc (.inl h)
            · cases ha : tx.awaiting
              · exact (hc (.inr (by simp [ha]))).elim
              · rfl
          have hb : busyStep P (.finishProps w) x.shutdown x.disc tx = some { w' := .busy { tx with ph := .choose } } := by
            simp [busyStep, hph, hc'.1, hc'.2]
          have hst := stepE_of (step_of_eff (f := .finishProps w) hx hb)
          rw [hst]
          have hx' : (applyEff x w { w' := .busy { tx with ph := .choose } }).ws[w]? =
              some (.busy { tx with ph := .choose }) := by
            rw [applyEff_ws, List.getElem?_set_self (lt_of_get hx)]
          obtain ⟨x1, hf1, hw1, ho1, hd1, hc1, hs1⟩ := ih fuel _ (by simp [mu, hph] at hf ⊢; omega) hx'
          refine ⟨x1, hf1, hw1, ?_, hd1, hc1, hs1⟩
          intro v hv
          rw [ho1 v hv, applyEff_ws, List.getElem?_set_ne hv]
      | record i =>
        simp only [hph] at h1 ⊢
        split at h1
        · rename_i hc
          rw [if_pos hc]
          cases h1
          have hb : busyStep P (.recordOne w i) x.shutdown x.disc tx =
              some { w' := .busy { tx with ph := .record (i + 1) } } := by
            simp [busyStep, hph, hc.1, hc.2]
          have hst := stepE_of (step_of_eff (f := .recordOne w i) hx hb)
          rw [hst]
          have hx' : (applyEff x w { w' := .busy { tx with ph := .record (i + 1) } }).ws[w]? =
              some (.busy { tx with ph := .record (i + 1) }) := by
            rw [applyEff_ws, List.getElem?_set_self (lt_of_get hx)]
          obtain ⟨x1, hf1, hw1, ho1, hd1, hc1, hs1⟩ := ih fuel _ (by simp [mu, hph] at hf ⊢; omega) hx'
          refine ⟨x1, hf1, hw1, ?_, hd1, hc1, hs1⟩
          intro v hv
          rw [ho1 v hv, applyEff_ws, List.getElem?_set_ne hv]
        · cases h1
      | top => simp only [hph] at h1; cases h1
      | decide i => simp only [hph] at h1; cases h1
      | choose => simp only [hph] at h1; cases h1


theorem mu_lt_fuel (t : T) : mu P t < fuelOf P := by
  unfold mu fuelOf; split <;> omega

theorem fill_sync {x s : S} (h : Lag P x s) {w : Nat} {t : T} (hs : s.ws[w]? = some (.busy t))
    (hsil : sil P t = none) :
    ∃ x1, fill P x w (fuelOf P) = .ok x1 ∧ Lag P x1 s ∧ x1.ws[w]? = some (.busy t) := by
  obtain ⟨tx, hx, hl⟩ := lag_get_busy h hs
  obtain ⟨x1, hf, hw, ho, hd, hc, hsd⟩ := fill_aux w hl hsil (fuelOf P) x (mu_lt_fuel tx) hx
  refine ⟨x1, hf, ?_, hw⟩
  refine lag_upd h w ho (fun _ _ => rfl) ?_ (hd.trans h.disc) (hc.trans h.cnt) (hsd.trans h.sd)
  rw [hw, hs]; exact LagW.refl _

theorem sync_of_ph {x s : S} (h : Lag P x s) {w : Nat} {t : T} (hs : s.ws[w]? = some (.busy t))
    (h1 : t.ph ≠ .choose) (h2 : ∀ i, t.ph ≠ .record i) : x.ws[w]? = some (.busy t) := by
  obtain ⟨a, ha, hl⟩ := lag_get h hs
  have := lagW_refl_of hl (by intro t' ht'; cases ht'; exact ⟨h1, h2⟩)
  rw [ha, this]


theorem busyE_of {x x' : S} {f : Step Nat} {e : Eff Nat Nat} (he : effOf P f x = some e)
    (hst : MSim.step P f x = some x') : busyE P x f = .ok (e, x') := by
  unfold busyE; rw [he]; simp only [stepE_of hst]; rfl

/-- the machine takes a step that has no entry: the replay is one more step behind -/
theorem silent_step {x s : S} (h : Lag P x s) {w : Nat} {t t' : T} (hs : s.ws[w]? = some (.busy t))
    (hsil : sil P t = some t') {s' : S} (hws : s'.ws = s.ws.set w (.busy t')) (hd : s'.disc = s.disc)
    (hc : s'.stateCount = s.stateCount) (hsd : s'.shutdown = s.shutdown) : Lag P x s' := by
  obtain ⟨tx, hx, hl⟩ := lag_get_busy h hs
  refine lag_upd h w (fun _ _ => rfl) ?_ ?_ (h.disc.trans hd.symm) (h.cnt.trans hc.symm) (h.sd.trans hsd.symm)
  · intro v hv; rw [hws, List.getElem?_set_ne hv]
  · rw [hws, List.getElem?_set_self (lt_of_get hs), hx]
    exact LagW.busy (lagT_snoc hl hsil)

theorem busyStep_start (w a : Nat) (sd : Bool) (d : List (Nat × List Nat)) (t : T) :
    busyStep P (.start w a) sd d t = none := by simp [busyStep]
theorem busyStep_cont (w : Nat) (sd : Bool) (d : List (Nat × List Nat)) (t : T) :
    busyStep P (.cont w) sd d t = none := by simp [busyStep]
theorem busyStep_leave (w : Nat) (y : MSim.Why) (sd : Bool) (d : List (Nat × List Nat)) (t : T) :
    busyStep P (.leave w y) sd d t = none := by simp [busyStep]
theorem busyStep_timeout (sd : Bool) (d : List (Nat × List Nat)) (t : T) :
    busyStep P .timeout sd d t = none := by simp [busyStep]
theorem busyStep_panic (w : Nat) (sd : Bool) (d : List (Nat × List Nat)) (t : T) :
    busyStep P (.panic w) sd d t = none := by simp [busyStep]

theorem effOf_nonbusy {f : Step Nat} (hf : ∀ sd d t, busyStep P f sd d t = none) (x : S) : effOf P f x = none := by
  unfold effOf; split
  · exact hf _ _ _
  · rfl

theorem lag_get_nonbusy {x s : S} (h : Lag P x s) {w : Nat} {b : W} (hs : s.ws[w]? = some b)
    (hb : ∀ t, b ≠ .busy t) : x.ws[w]? = some b := by
  obtain ⟨a, ha, hl⟩ := lag_get h hs
  rw [ha, lagW_refl_of hl (fun t ht => (hb t ht).elim)]

/-- a worker-loop step: only the state of worker `w` changes, to something outside a trace or to a fresh trace -/
theorem lag_setw {x s : S} (h : Lag P x s) {w : Nat} {b0 : W} (hs : s.ws[w]? = some b0) (b : W) :
    Lag P { x with ws := x.ws.set w b } { s with ws := s.ws.set w b } := by
  obtain ⟨a, ha, -⟩ := lag_get h hs
  refine lag_upd h w ?_ ?_ ?_ h.disc h.cnt h.sd
  · intro v hv; simp only [List.getElem?_set_ne hv]
  · intro v hv; simp only [List.getElem?_set_ne hv]
  · simp only [List.getElem?_set_self (lt_of_get hs), List.getElem?_set_self (lt_of_get ha)]
    exact LagW.refl _

theorem lag_sd {x s : S} (h : Lag P x s) : Lag P { x with shutdown := true } { s with shutdown := true } :=
  ⟨h.disc, h.cnt, rfl, h.ws⟩

theorem step_complete {x s s' : S} {f : Step Nat} (h : Lag P x s) (hstep : MSim.step P f s = some s') :
    match entry P s f with
    | none => Lag P x s'
    | some e => ∃ x', one P x e = .ok x' ∧ Lag P x' s' := by
  cases f with
  | enter w =>
    rcases step_eff hstep with ⟨t, e, hs, he, rfl⟩ | hn
    · change s.ws[w]? = _ at hs
      have he0 := he
      cases hph : t.ph with
      | top =>
        have hx := sync_of_ph h hs (by simp [hph]) (by simp [hph])
        obtain ⟨hst, -, hlag⟩ := sync_step h (f := .enter w) (w := w) rfl hs hx he0
        simp only [entry, trOf_busy hs]
        cases ho : enterOut P t <;> simp only [] <;> refine ⟨_, ?_, hlag⟩
        all_goals
          show oneEnter P x _ _ = _
          unfold oneEnter
          rw [trOf_busy hx]
          simp [check, hph, ho]
          exact stepE_of hst
      | _ => simp [busyStep, hph] at he
    · unfold MSim.step at hstep; rw [hn] at hstep; cases hstep
  | evalProp w i =>
    rcases step_eff hstep with ⟨t, e, hs, he, rfl⟩ | hn
    · change s.ws[w]? = _ at hs
      have he0 := he
      cases hph : t.ph with
      | props j =>
        have hx := sync_of_ph h hs (by simp [hph]) (by simp [hph])
        obtain ⟨hst, -, hlag⟩ := sync_step h (f := .evalProp w i) (w := w) rfl hs hx he0
        cases hd : hasDisc s.disc i <;> simp only [entry, hd, Bool.false_eq_true, ↓reduceIte] <;>
          refine ⟨_, ?_, hlag⟩
        all_goals
          show oneRead P x _ _ = _
          unfold oneRead
          simp [check, h.disc, hd]
          exact stepE_of hst
      | _ => simp [busyStep, hph] at he
    · unfold MSim.step at hstep; rw [hn] at hstep; cases hstep
  | applyProp w i =>
    rcases step_eff hstep with ⟨t, e, hs, he, rfl⟩ | hn
    · change s.ws[w]? = _ at hs
      have he0 := he
      cases hph : t.ph with
      | decide j =>
        have hx := sync_of_ph h hs (by simp [hph]) (by simp [hph])
        obtain ⟨hst, heffx, hlag⟩ := sync_step h (f := .applyProp w i) (w := w) rfl hs hx he0
        have heffs : effOf P (.applyProp w i) s = some e := by
          have hw : (Step.applyProp w i : Step Nat).worker = w := rfl
          unfold effOf; rw [hw, hs]; exact he0
        cases hi : e.ins.isSome <;> simp only [entry, heffs, hi, Bool.false_eq_true, ↓reduceIte] <;>
          refine ⟨_, ?_, hlag⟩
        all_goals
          show oneApply P x _ _ = _
          unfold oneApply
          rw [busyE_of (f := .applyProp w i) heffx hst]
          simp [check, hi]
          rfl
      | _ => simp [busyStep, hph] at he
    · unfold MSim.step at hstep; rw [hn] at hstep; cases hstep
  | finishProps w =>
    rcases step_eff hstep with ⟨t, e, hs, he, rfl⟩ | hn
    · change s.ws[w]? = _ at hs
      have he0 := he
      cases hph : t.ph with
      | props j =>
        simp only [busyStep, hph] at he
        split at he
        · cases he
        · rename_i hj
          split at he
          · -- nothing awaited: the trace ends, entry 44/5
            rename_i hna
            have ha : t.awaiting = false := by simpa using hna
            cases he
            have hx := sync_of_ph h hs (by simp [hph]) (by simp [hph])
            obtain ⟨hst, -, hlag⟩ := sync_step h (f := .finishProps w) (w := w) rfl hs hx he0
            simp only [entry, trOf_busy hs, ha, Bool.false_eq_true, ↓reduceIte]
            refine ⟨_, ?_, hlag⟩
            show oneEndProps P x _ = _
            unfold oneEndProps
            rw [stepE_of hst]
            have : isEnded (applyEff x w { w' := .ended }) w = true := by
              unfold isEnded; rw [applyEff_ws, List.getElem?_set_self (lt_of_get hx)]
            simp [check, this]
            rfl
          · -- something awaited: no entry
            rename_i hna
            have ha : t.awaiting = true := by simpa using hna
            cases he
            simp only [entry, trOf_busy hs]
            rw [if_pos ha]
            refine silent_step h hs (t' := { t with ph := .choose }) ?_ (by rfl) (by rfl) (by rfl) (by rfl)
            simp [sil, hph, hj, ha]
      | _ => simp [busyStep, hph] at he
    · unfold MSim.step at hstep; rw [hn] at hstep; cases hstep
  | advance w o =>
    rcases step_eff hstep with ⟨t, e, hs, he, rfl⟩ | hn
    · change s.ws[w]? = _ at hs
      have he0 := he
      cases hph : t.ph with
      | choose =>
        obtain ⟨x1, hfill, hlag1, hx1⟩ := fill_sync h hs (by simp [sil, hph])
        obtain ⟨hst, -, hlag⟩ := sync_step hlag1 (f := .advance w o) (w := w) rfl hs hx1 he0
        cases o with
        | some n =>
          simp only [entry]
          refine ⟨_, ?_, hlag⟩
          show oneNext P x _ = _
          unfold oneNext
          rw [hfill]
          exact stepE_of hst
        | none =>
          simp only [entry, trOf_busy hs]
          refine ⟨_, ?_, hlag⟩
          show oneTerminal P x _ = _
          unfold oneTerminal
          rw [hfill]
          simp only [trOf_busy hx1]
          simp [check]
          exact stepE_of hst
      | _ => cases o <;> simp [busyStep, hph] at he
    · unfold MSim.step at hstep; rw [hn] at hstep; cases hstep
  | recordOne w i =>
    rcases step_eff hstep with ⟨t, e, hs, he, rfl⟩ | hn
    · change s.ws[w]? = _ at hs
      have he0 := he
      cases hph : t.ph with
      | record j =>
        simp only [busyStep, hph] at he
        split at he
        · rename_i hij
          obtain ⟨rfl, hlt⟩ := hij
          by_cases hb : i ∈ t.ebits
          · obtain ⟨x1, hfill, hlag1, hx1⟩ := fill_sync h hs (by simp [sil, hph, hb])
            obtain ⟨hst, heffx, hlag⟩ := sync_step hlag1 (f := .recordOne w i) (w := w) rfl hs hx1 he0
            simp only [entry, trOf_busy hs, hb, ↓reduceIte]
            refine ⟨_, ?_, hlag⟩
            show oneRecord P x _ = _
            unfold oneRecord
            rw [hfill]
            simp only []
            rw [busyE_of (f := .recordOne w i) heffx hst]
            simp only [hb, ↓reduceIte, Option.some.injEq] at he
            subst he
            simp [check]
            rfl
          · simp only [hb, ↓reduceIte, Option.some.injEq] at he
            subst he
            simp only [entry, trOf_busy hs, hb, ↓reduceIte]
            refine silent_step h hs (t' := { t with ph := .record (i + 1) }) ?_ (by rfl) (by rfl) (by rfl) (by rfl)
            simp [sil, hph, hlt, hb]
        · cases he
      | _ => simp [busyStep, hph] at he
    · unfold MSim.step at hstep; rw [hn] at hstep; cases hstep
  | endTrace w =>
    rcases step_eff hstep with ⟨t, e, hs, he, rfl⟩ | hn
    · change s.ws[w]? = _ at hs
      have he0 := he
      cases hph : t.ph with
      | record j =>
        simp only [busyStep, hph] at he
        split at he
        · cases he
        · rename_i hj
          obtain ⟨x1, hfill, hlag1, hx1⟩ := fill_sync h hs (by simp [sil, hph, hj])
          obtain ⟨hst, -, hlag⟩ := sync_step hlag1 (f := .endTrace w) (w := w) rfl hs hx1 he0
          simp only [entry]
          refine ⟨_, ?_, hlag⟩
          show oneDone P x _ = _
          unfold oneDone
          rw [hfill]
          exact stepE_of hst
      | _ => simp [busyStep, hph] at he
    · unfold MSim.step at hstep; rw [hn] at hstep; cases hstep
  | cut w =>
    rcases step_eff hstep with ⟨t, e, hs, he, rfl⟩ | hn
    · change s.ws[w]? = _ at hs
      have he0 := he
      cases hph : t.ph with
      | top =>
        have hx := sync_of_ph h hs (by simp [hph]) (by simp [hph])
        obtain ⟨hst, -, hlag⟩ := sync_step h (f := .cut w) (w := w) rfl hs hx he0
        simp only [entry, trOf_busy hs]
        refine ⟨_, ?_, hlag⟩
        show oneCut P x _ = _
        unfold oneCut
        simp only [trOf_busy hx]
        simp [check]
        exact stepE_of hst
      | _ => simp [busyStep, hph] at he
    · unfold MSim.step at hstep; rw [hn] at hstep; cases hstep
  | start w a =>
    have hns := effOf_nonbusy (P := P) (busyStep_start w a) s
    have hnx := effOf_nonbusy (P := P) (busyStep_start w a) x
    unfold MSim.step at hstep
    rw [hns] at hstep
    simp only [] at hstep
    split at hstep
    · rename_i hs
      split at hstep
      · rename_i hin
        cases hstep
        have hx := lag_get_nonbusy h hs (by intro t; simp)
        simp only [entry]
        refine ⟨{ x with ws := x.ws.set w (.busy (newTrace P a)) }, ?_, ?_⟩
        · show oneStart P x _ = _
          unfold oneStart
          apply stepE_of
          unfold MSim.step
          rw [hnx]
          simp only [hx, hin, ↓reduceIte]
        · exact lag_setw h hs _
      · cases hstep
    · cases hstep
  | cont w =>
    have hns := effOf_nonbusy (P := P) (busyStep_cont w) s
    have hnx := effOf_nonbusy (P := P) (busyStep_cont w) x
    unfold MSim.step at hstep
    rw [hns] at hstep
    simp only [] at hstep
    split at hstep
    · rename_i hs
      split at hstep
      · rename_i hgo
        cases hstep
        have hx := lag_get_nonbusy h hs (by intro t; simp)
        simp only [entry]
        refine ⟨{ x with ws := x.ws.set w .idle }, ?_, lag_setw h hs _⟩
        show stepE P x _ = _
        apply stepE_of
        unfold MSim.step
        rw [hnx]
        have hgo' : goesOn P x = true := by unfold goesOn at hgo ⊢; rw [h.disc, h.cnt]; exact hgo
        simp only [hx, hgo', ↓reduceIte]
      · cases hstep
    · cases hstep
  | leave w y =>
    have hns := effOf_nonbusy (P := P) (busyStep_leave w y) s
    have hnx := effOf_nonbusy (P := P) (busyStep_leave w y) x
    unfold MSim.step at hstep
    rw [hns] at hstep
    cases y with
    | finish =>
      simp only [] at hstep
      split at hstep
      · rename_i hs
        split at hstep
        · rename_i hc
          cases hstep
          have hx := lag_get_nonbusy h hs (by intro t; simp)
          simp only [entry]
          refine ⟨{ x with ws := x.ws.set w .left }, ?_, lag_setw h hs _⟩
          show stepE P x _ = _
          apply stepE_of
          unfold MSim.step
          rw [hnx]
          rw [← h.disc] at hc
          simp only [hx, hc, ↓reduceIte]
        · cases hstep
      · cases hstep
    | target =>
      simp only [] at hstep
      split at hstep
      · rename_i hs
        split at hstep
        · rename_i hc
          cases hstep
          have hx := lag_get_nonbusy h hs (by intro t; simp)
          simp only [entry]
          refine ⟨{ x with ws := x.ws.set w .left }, ?_, lag_setw h hs _⟩
          show stepE P x _ = _
          apply stepE_of
          unfold MSim.step
          rw [hnx]
          rw [← h.disc, ← h.cnt] at hc
          simp only [hx, hc, ↓reduceIte]
        · cases hstep
      · cases hstep
    | shutdown =>
      simp only [] at hstep
      split at hstep
      · rename_i hs
        split at hstep
        · rename_i hc
          cases hstep
          have hx := lag_get_nonbusy h hs (by intro t; simp)
          simp only [entry]
          refine ⟨{ x with ws := x.ws.set w .left }, ?_, lag_setw h hs _⟩
          show stepE P x _ = _
          apply stepE_of
          unfold MSim.step
          rw [hnx]
          rw [← h.sd] at hc
          simp only [hx, hc, ↓reduceIte]
        · cases hstep
      · cases hstep
  | timeout =>
    have hns := effOf_nonbusy (P := P) busyStep_timeout s
    have hnx := effOf_nonbusy (P := P) busyStep_timeout x
    unfold MSim.step at hstep
    rw [hns] at hstep
    simp only [] at hstep
    split at hstep
    · rename_i hc
      cases hstep
      simp only [entry]
      refine ⟨{ x with shutdown := true }, ?_, lag_sd h⟩
      show stepE P x _ = _
      apply stepE_of
      unfold MSim.step
      rw [hnx]
      simp only [hc, ↓reduceIte]
    · cases hstep
  | panic w =>
    have hns := effOf_nonbusy (P := P) (busyStep_panic w) s
    have hnx := effOf_nonbusy (P := P) (busyStep_panic w) x
    unfold MSim.step at hstep
    rw [hns] at hstep
    simp only [] at hstep
    split at hstep
    · cases hstep
    · rename_i b hnl hs
      cases hstep
      obtain ⟨a, ha, hl⟩ := lag_get h hs
      have hal : a ≠ .left := by
        intro hal; subst hal
        cases hl
        exact hnl rfl
      simp only [entry]
      refine ⟨{ x with shutdown := true, ws := x.ws.set w .left }, ?_, lag_sd (lag_setw h hs _)⟩
      show stepE P x _ = _
      apply stepE_of
      unfold MSim.step
      rw [hnx]
      simp only [ha]
    · cases hstep


/-- **Completeness of the replay, any start**: the log of a run from `s` is accepted from every state that is behind `s`
    only by steps without an entry, and the replay ends behind the final state of the run in the same sense. -/
theorem replay_complete (fs : List (Step Nat)) : ∀ (x s : S) (i : Nat), Lag P x s →
    ∃ x', replay P x i (record P s fs) = .ok x' ∧ Lag P x' (MSim.runFrom P s fs) := by
  induction fs with
  | nil => intro x s i h; exact ⟨x, rfl, h⟩
  | cons f fs ih =>
    intro x s i h
    simp only [record, MSim.runFrom]
    cases hst : MSim.step P f s with
    | none => exact ih x s i h
    | some s' =>
      have hc := step_complete h hst
      cases he : entry P s f with
      | none =>
        rw [he] at hc
        simpa using ih x s' i hc
      | some e =>
        rw [he] at hc
        obtain ⟨x1, h1, hl1⟩ := hc
        obtain ⟨x', h', hl'⟩ := ih x1 s' (i + 1) hl1
        refine ⟨x', ?_, hl'⟩
        simp only [Option.toList, List.cons_append, List.nil_append, replay, h1]
        exact h'

/-- no worker of `s` is at a point where steps without an entry can have been taken -/
def Settled (s : S) : Prop :=
  ∀ (w : Nat) (t : T), s.ws[w]? = some (WSt.busy t) → t.ph ≠ Ph.choose ∧ ∀ i, t.ph ≠ Ph.record i

theorem eq_of_lag_settled {x s : S} (h : Lag P x s) (hs : Settled s) : x = s := by
  have hws : x.ws = s.ws := by
    apply List.ext_getElem?
    intro w
    have := h.ws w
    cases hb : s.ws[w]? with
    | none =>
      rw [hb] at this
      cases ha : x.ws[w]? with
      | none => rfl
      | some a => rw [ha] at this; exact this.elim
    | some b =>
      obtain ⟨a, ha, hl⟩ := lag_get h hb
      rw [ha, lagW_refl_of hl (fun t ht => hs w t (ht ▸ hb))]
  cases x; cases s
  simp only [MSim.St.mk.injEq]
  exact ⟨h.disc, h.cnt, h.sd, hws⟩

theorem settled_of_allLeft {s : S} (h : allLeft s = true) : Settled s := by
  intro w t hw
  unfold allLeft at h
  rw [List.all_eq_true] at h
  have := h _ (List.mem_of_getElem? hw)
  simp at this

end SR.ReplayComplete.Sim

/-!
## Part 2: `tv` over the product `Checker/Full.lean` (bfs.rs, dfs.rs)

`entries P notw s f s'` = the entries the hooks of job_market.rs / bfs.rs / dfs.rs write when the product takes the
enabled step `f` from `s` to `s'`; `record` = the log of a run.  Steps WITHOUT entry (`silA`): `finishProps` (the end of the
property loop), retiring (`expand` with no successor left / `record` past the last property), iterations of the
terminal-state loop whose bit is not set — and the steps of the product that do nothing because the worker's job is not
at such a step (`*_stutter`).  The replay of `Drv/Full.lean` fills the steps without entry in EAGERLY (`advance` after
every logged step of the worker), so here the replay is AHEAD of the machine: `Rel x s` = the same market up to the
notification flags of waiting workers (`MEq`: WHICH waiter a `notify_one` woke is not in the log, the replay notifies the
first ones; nothing but the admissibility of a pick depends on the flags), the same shared machine state (`CEq`:
`generated`, pending jobs and their tokens, discoveries, counts, `stopped`; NOT the ghosts `done` / `early`, whose order /
moment depends on when the steps without entry are taken), and every worker's job in the replay is its job in the
machine moved on to its next logged step (`Sil`, `NF`).

The product allows more than the code does (any queue discipline, any fresh token, dropping jobs); the replay accepts
what the code can do (`disc`: `pop_back`; a new job gets the next token and goes to the front (bfs) / back (dfs); no
`discard`; no worker leaves "for the timeout").  `step_complete`: every disciplined step is accepted and `Rel` is kept;
one lemma per kind of step (`complete_pop` … `complete_xdrop`).  Needed along the way: the discoveries map has one entry
per property (the replay's "was a discovery inserted" test compares lengths), a thread that is gone stays gone (so the
`TR_STOP` reasons the replay remembers are never stale), `advance` reaches the next logged step within its fuel.

Bookkeeping entries: `TR_SPLIT_PIECE` (the replay collects the sizes of the batches a `split_and_push` publishes and
compares them at the `TR_SPLIT` entry) and `TR_STOP` (the replay remembers the reason and performs `stop` / `exit` at the
worker's `TR_DROP` entry).  Each of `split` / `stop` / `exit` has a `_core` lemma about its LAST entry, with what the
replay must have collected as a hypothesis; `record` / `replay_complete` put the bookkeeping entries right before it
(`Book`: nothing pending between steps); `itemLog` / `items_complete` allow entries of other threads in between, as in
a real log (`check_block` does not hold the market mutex).  All other entries leave the bookkeeping alone (`one_keep`).

on_demand.rs: all steps but `take` / `discard` (the block structure of on_demand.rs is not a step of the product).
-/

namespace SR.ReplayComplete.Full
open SR SR.Checker SR.Market SR.Full SR.Drv.Full

/-! ### association of workers and their current jobs -/

def look {β : Type} (aw : List Nat) (ac : List β) (w : Nat) : Option β :=
  if w ∈ aw then ac[aw.idxOf w]? else none

theorem activeOf_eq (x : FState Nat Nat) (w : Nat) : activeOf x w = look x.aw x.c.active w := rfl

theorem look_none_iff {β : Type} {aw : List Nat} {ac : List β} (hl : aw.length = ac.length) (w : Nat) :
    look aw ac w = none ↔ w ∉ aw := by
  unfold look
  constructor
  · intro h hw
    rw [if_pos hw] at h
    have : aw.idxOf w < ac.length := hl ▸ List.idxOf_lt_length_of_mem hw
    rw [List.getElem?_eq_getElem this] at h
    cases h
  · intro h; rw [if_neg h]

theorem look_set_self {β : Type} {aw : List Nat} {ac : List β} (hl : aw.length = ac.length) {w : Nat} (hw : w ∈ aw)
    (a : β) : look aw (ac.set (aw.idxOf w) a) w = some a := by
  unfold look
  rw [if_pos hw]
  have : aw.idxOf w < ac.length := hl ▸ List.idxOf_lt_length_of_mem hw
  rw [List.getElem?_set_self this]

theorem idxOf_ne_of_ne {aw : List Nat} {v w : Nat} (hv : v ∈ aw) (h : v ≠ w) : aw.idxOf w ≠ aw.idxOf v := by
  intro he
  have h1 : aw.idxOf v < aw.length := List.idxOf_lt_length_of_mem hv
  have h2 : aw[aw.idxOf v]'h1 = v := List.getElem_idxOf h1
  have h3 : aw.idxOf w < aw.length := he ▸ h1
  have h4 : aw[aw.idxOf w]'h3 = w := List.getElem_idxOf h3
  apply h
  rw [← h2, ← h4]
  simp only [he]

theorem look_set_ne {β : Type} {aw : List Nat} {ac : List β} {w v : Nat} (h : v ≠ w) (a : β) :
    look aw (ac.set (aw.idxOf w) a) v = look aw ac v := by
  unfold look
  by_cases hv : v ∈ aw
  · rw [if_pos hv, if_pos hv, List.getElem?_set_ne (idxOf_ne_of_ne hv h)]
  · rw [if_neg hv, if_neg hv]

theorem idxOf_cons_ne {a w : Nat} {as : List Nat} (h : a ≠ w) : (a :: as).idxOf w = as.idxOf w + 1 := by
  have : (a == w) = false := by simpa using h
  simp [List.idxOf_cons, this]

theorem look_eraseIdx_ne {β : Type} : ∀ (aw : List Nat) (ac : List β) (w v : Nat), v ≠ w →
    look (aw.eraseIdx (aw.idxOf w)) (ac.eraseIdx (aw.idxOf w)) v = look aw ac v := by
  intro aw
  induction aw with
  | nil => intro ac w v _; simp [look]
  | cons a as ih =>
    intro ac w v h
    cases ac with
    | nil => simp [look]
    | cons c cs =>
      by_cases haw : a = w
      · subst haw
        have hva : (v == a) = false := by simpa using h
        have hav : (a == v) = false := by simpa using (Ne.symm h)
        simp only [look, List.idxOf_cons_self, List.eraseIdx_zero, List.tail_cons, List.mem_cons, h, false_or]
        by_cases hv : v ∈ as
        · simp [hv, List.idxOf_cons, hav]
        · simp [hv]
      · have hi : (a :: as).idxOf w = as.idxOf w + 1 := idxOf_cons_ne haw
        rw [hi]
        simp only [List.eraseIdx_cons_succ]
        by_cases hva : a = v
        · subst hva
          simp [look]
        · have := ih cs w v h
          unfold look at this ⊢
          have hva' : ¬ v = a := fun e => hva e.symm
          simp only [List.mem_cons, hva', false_or]
          by_cases hv : v ∈ as
          · have hv' : v ∈ as.eraseIdx (as.idxOf w) ∨ ¬ v ∈ as.eraseIdx (as.idxOf w) := Classical.em _
            simp only [hv, if_true] at this ⊢
            rcases hv' with hv' | hv'
            · simp only [hv', if_true] at this ⊢
              rw [idxOf_cons_ne hva, idxOf_cons_ne hva, List.getElem?_cons_succ, List.getElem?_cons_succ]
              exact this
            · simp only [hv', if_false] at this ⊢
              rw [idxOf_cons_ne hva, List.getElem?_cons_succ]
              exact this
          · have hv' : v ∉ as.eraseIdx (as.idxOf w) := fun hm => hv (List.mem_of_mem_eraseIdx hm)
            simp [hv, hv']

theorem eraseIdx_idxOf (aw : List Nat) (w : Nat) : aw.eraseIdx (aw.idxOf w) = aw.erase w := by
  induction aw with
  | nil => simp
  | cons a as ih =>
    by_cases h : a = w
    · subst h; simp
    · have hb : (a == w) = false := by simpa using h
      rw [idxOf_cons_ne h, List.eraseIdx_cons_succ, ih, List.erase_cons, hb]
      rfl

theorem look_eraseIdx_self {β : Type} {aw : List Nat} (hn : aw.Nodup) (ac : List β) (w : Nat) :
    look (aw.eraseIdx (aw.idxOf w)) (ac.eraseIdx (aw.idxOf w)) w = none := by
  unfold look
  rw [if_neg]
  rw [eraseIdx_idxOf]
  exact fun h => (List.Nodup.mem_erase_iff hn).1 h |>.1 rfl

theorem look_append_self {β : Type} {aw : List Nat} {ac : List β} (hl : aw.length = ac.length) {w : Nat} (hw : w ∉ aw)
    (a : β) : look (aw ++ [w]) (ac ++ [a]) w = some a := by
  unfold look
  rw [if_pos (by simp)]
  have : (aw ++ [w]).idxOf w = aw.length := by
    rw [List.idxOf_append, if_neg hw]; simp
  rw [this, hl]
  simp

theorem look_append_ne {β : Type} {aw : List Nat} {ac : List β} (hl : aw.length = ac.length) {w v : Nat} (h : v ≠ w)
    (a : β) : look (aw ++ [w]) (ac ++ [a]) v = look aw ac v := by
  unfold look
  by_cases hv : v ∈ aw
  · have h1 : aw.idxOf v < ac.length := hl ▸ List.idxOf_lt_length_of_mem hv
    rw [if_pos (by simp [hv]), if_pos hv, List.idxOf_append, if_pos hv, List.getElem?_append_left h1]
  · rw [if_neg (by simp [hv, h]), if_neg hv]

end SR.ReplayComplete.Full

namespace SR.ReplayComplete.Full
open SR SR.Checker SR.Market SR.Full SR.Drv.Full

/-! ### market states up to the notification flags of the waiting workers

`notify_one` wakes SOME waiting thread; which one is not in the log, so the replay notifies the first ones
(`oneSplit`).  Nothing but the admissibility of a pick depends on who has been notified (a waiting worker may wake
whether notified or not: spurious wake-ups), so the replay's market and the machine's agree up to these flags. -/

def strip : Pc → Pc
  | .parked _ => .parked false
  | p => p

structure MEq (a b : MState) : Prop where
  isOpen : a.isOpen = b.isOpen
  threadCount : a.threadCount = b.threadCount
  openCount : a.openCount = b.openCount
  batches : a.batches = b.batches
  locs : a.locs = b.locs
  created : a.created = b.created
  consumed : a.consumed = b.consumed
  dropped : a.dropped = b.dropped
  pcs : a.pcs.map strip = b.pcs.map strip

theorem MEq.rfl' (a : MState) : MEq a a := ⟨rfl, rfl, rfl, rfl, rfl, rfl, rfl, rfl, rfl⟩

theorem MEq.get {a b : MState} (h : MEq a b) (w : Nat) : (a.pcs[w]?).map strip = (b.pcs[w]?).map strip := by
  rw [← List.getElem?_map, ← List.getElem?_map, h.pcs]

theorem MEq.len {a b : MState} (h : MEq a b) : a.pcs.length = b.pcs.length := by
  have := congrArg List.length h.pcs
  simpa using this

theorem MEq.running {a b : MState} (h : MEq a b) {w : Nat} (ha : a.pcs[w]? = some .running) :
    b.pcs[w]? = some .running := by
  have := h.get w
  rw [ha] at this
  cases hb : b.pcs[w]? with
  | none => rw [hb] at this; cases this
  | some p => rw [hb] at this; cases p <;> simp [strip] at this ⊢

theorem MEq.running_iff {a b : MState} (h : MEq a b) (w : Nat) :
    a.pcs[w]? = some .running ↔ b.pcs[w]? = some .running :=
  ⟨h.running, (MEq.mk h.isOpen.symm h.threadCount.symm h.openCount.symm h.batches.symm h.locs.symm h.created.symm
    h.consumed.symm h.dropped.symm h.pcs.symm).running⟩

theorem MEq.symm {a b : MState} (h : MEq a b) : MEq b a :=
  ⟨h.isOpen.symm, h.threadCount.symm, h.openCount.symm, h.batches.symm, h.locs.symm, h.created.symm,
    h.consumed.symm, h.dropped.symm, h.pcs.symm⟩

theorem MEq.parked {a b : MState} (h : MEq a b) {w : Nat} {f : Bool} (ha : a.pcs[w]? = some (.parked f)) :
    ∃ g, b.pcs[w]? = some (.parked g) := by
  have := h.get w
  rw [ha] at this
  cases hb : b.pcs[w]? with
  | none => rw [hb] at this; cases this
  | some p => rw [hb] at this; cases p <;> simp [strip] at this ⊢

theorem MEq.exited {a b : MState} (h : MEq a b) {w : Nat} (ha : a.pcs[w]? = some .exited) :
    b.pcs[w]? = some .exited := by
  have := h.get w
  rw [ha] at this
  cases hb : b.pcs[w]? with
  | none => rw [hb] at this; cases this
  | some p => rw [hb] at this; cases p <;> simp [strip] at this ⊢

theorem MEq.locOf {a b : MState} (h : MEq a b) (w : Nat) : locOf a w = locOf b w := by
  unfold Full.locOf; rw [h.locs]

theorem strip_notifyAll (pcs : List Pc) : (notifyAll pcs).map strip = pcs.map strip := by
  unfold notifyAll
  rw [List.map_map]
  apply List.map_congr_left
  intro p _
  cases p <;> rfl

theorem strip_notifyPicks (picks : List Nat) : ∀ pcs : List Pc, (notifyPicks pcs picks).map strip = pcs.map strip := by
  induction picks with
  | nil => intro pcs; rfl
  | cons v vs ih =>
    intro pcs
    simp only [notifyPicks]
    rw [ih]
    split
    · rename_i hv
      rw [List.map_set]
      apply List.ext_getElem?
      intro i
      by_cases hi : v = i
      · subst hi
        rw [List.getElem?_set_self (by simpa using (List.getElem?_eq_some_iff.1 hv).1), List.getElem?_map, hv]
        rfl
      · rw [List.getElem?_set_ne hi]
    · rfl

theorem strip_set {pcs pcs' : List Pc} (h : pcs.map strip = pcs'.map strip) (w : Nat) (p : Pc) :
    (pcs.set w p).map strip = (pcs'.set w p).map strip := by
  rw [List.map_set, List.map_set, h]

theorem popLoop_meq {a b : MState} (h : MEq a b) (w : Nat) :
    MEq (popLoop a w).1 (popLoop b w).1 ∧ (popLoop a w).2 = (popLoop b w).2 := by
  unfold popLoop
  rw [← h.batches]
  split
  · refine ⟨⟨h.isOpen, h.threadCount, h.openCount, rfl, ?_, h.created, h.consumed, h.dropped, strip_set h.pcs _ _⟩, rfl⟩
    simp only [h.locs]
  · simp only [← h.openCount]
    split
    · refine ⟨⟨rfl, h.threadCount, rfl, ?_, h.locs, h.created, h.consumed, h.dropped, ?_⟩, rfl⟩
      · simp only [h.batches]
      · rw [strip_notifyAll, strip_notifyAll]; exact strip_set h.pcs _ _
    · refine ⟨⟨h.isOpen, h.threadCount, rfl, ?_, h.locs, h.created, h.consumed, h.dropped, strip_set h.pcs _ _⟩, rfl⟩
      simp only [h.batches]


/-- the market steps in which no `notify_one` is resolved -/
def noPick : Step → Bool
  | .popBegin _ | .wake _ | .work _ _ _ | .rearrange _ _ | .drop _ | .xdrop | .timeoutFire => true
  | _ => false

theorem freshOk_meq {a b : MState} (h : MEq a b) (l : List Tok) : freshOk a l = freshOk b l := by
  unfold freshOk; rw [h.created]

theorem dropMarket_meq {a b : MState} (h : MEq a b) : MEq (dropMarket a) (dropMarket b) := by
  unfold dropMarket
  refine ⟨rfl, h.threadCount, ?_, rfl, h.locs, h.created, h.consumed, rfl, ?_⟩
  · simp only [h.openCount]
  · simp only [strip_notifyAll]; exact h.pcs

theorem stepR_meq {a b a' : MState} {r : Option PopRes} (h : MEq a b) (m : Step) (hm : noPick m = true)
    (hs : stepR a m = some (a', r)) : ∃ b', stepR b m = some (b', r) ∧ MEq a' b' := by
  cases m with
  | popBegin w =>
    simp only [stepR] at hs ⊢
    split at hs
    · rename_i hw
      rw [if_pos (h.running hw), ← h.isOpen]
      split at hs
      · rename_i ho
        simp only [Option.some.injEq, Prod.mk.injEq] at hs
        obtain ⟨rfl, rfl⟩ := hs
        exact ⟨b, by rw [if_pos ho], h⟩
      · rename_i ho
        simp only [Option.some.injEq, Prod.mk.injEq] at hs
        obtain ⟨rfl, rfl⟩ := hs
        obtain ⟨h1, h2⟩ := popLoop_meq h w
        exact ⟨_, by rw [if_neg ho, h2], h1⟩
    · cases hs
  | wake w =>
    simp only [stepR] at hs ⊢
    split at hs
    · rename_i f hw
      obtain ⟨g, hg⟩ := h.parked hw
      simp only [hg]
      simp only [Option.some.injEq, Prod.mk.injEq] at hs
      obtain ⟨rfl, rfl⟩ := hs
      have h' : MEq { a with openCount := a.openCount + 1 } { b with openCount := b.openCount + 1 } :=
        ⟨h.isOpen, h.threadCount, by simp only [h.openCount], h.batches, h.locs, h.created, h.consumed, h.dropped, h.pcs⟩
      obtain ⟨h1, h2⟩ := popLoop_meq h' w
      exact ⟨_, by rw [h2], h1⟩
    · cases hs
  | work w c fresh =>
    simp only [stepR] at hs ⊢
    split at hs
    · rename_i hw
      simp only [Bool.and_eq_true, decide_eq_true_eq] at hw
      have : (decide (b.pcs[w]? = some Pc.running) && freshOk b fresh) = true := by
        simp only [Bool.and_eq_true, decide_eq_true_eq]
        exact ⟨h.running hw.1, (freshOk_meq h fresh) ▸ hw.2⟩
      rw [if_pos this]
      simp only [Option.some.injEq, Prod.mk.injEq] at hs
      obtain ⟨rfl, rfl⟩ := hs
      refine ⟨_, rfl, ⟨h.isOpen, h.threadCount, h.openCount, h.batches, ?_, ?_, ?_, h.dropped, h.pcs⟩⟩
      · simp only [h.locs]
      · simp only [h.created]
      · simp only [h.locs, h.consumed]
    · cases hs
  | rearrange w l =>
    simp only [stepR] at hs ⊢
    split at hs
    · rename_i hw
      simp only [Bool.and_eq_true, decide_eq_true_eq] at hw
      have : (decide (b.pcs[w]? = some Pc.running) && l.isPerm (b.locs.getD w [])) = true := by
        simp only [Bool.and_eq_true, decide_eq_true_eq]
        exact ⟨h.running hw.1, h.locs ▸ hw.2⟩
      rw [if_pos this]
      simp only [Option.some.injEq, Prod.mk.injEq] at hs
      obtain ⟨rfl, rfl⟩ := hs
      refine ⟨_, rfl, ⟨h.isOpen, h.threadCount, h.openCount, h.batches, ?_, h.created, h.consumed, h.dropped, h.pcs⟩⟩
      simp only [h.locs]
    · cases hs
  | drop w =>
    simp only [stepR] at hs ⊢
    split at hs
    · rename_i hw
      rw [if_pos (h.running hw)]
      simp only [Option.some.injEq, Prod.mk.injEq] at hs
      obtain ⟨rfl, rfl⟩ := hs
      have hd := dropMarket_meq h
      refine ⟨_, rfl, ⟨hd.isOpen, hd.threadCount, hd.openCount, hd.batches, ?_, hd.created, hd.consumed, hd.dropped,
        strip_set hd.pcs _ _⟩⟩
      simp only [hd.locs]
    · cases hs
  | xdrop =>
    simp only [stepR, Option.some.injEq, Prod.mk.injEq] at hs ⊢
    obtain ⟨rfl, rfl⟩ := hs
    exact ⟨_, ⟨rfl, rfl⟩, dropMarket_meq h⟩
  | timeoutFire =>
    simp only [stepR, Option.some.injEq, Prod.mk.injEq] at hs ⊢
    obtain ⟨rfl, rfl⟩ := hs
    exact ⟨_, ⟨rfl, rfl⟩, ⟨rfl, h.threadCount, h.openCount, h.batches, h.locs, h.created, h.consumed, h.dropped, h.pcs⟩⟩
  | push _ _ _ => cases hm
  | xpush _ _ => cases hm
  | split _ _ => cases hm

theorem step_meq {a b a' : MState} (h : MEq a b) (m : Step) (hm : noPick m = true)
    (hs : Market.step a m = some a') : ∃ b', Market.step b m = some b' ∧ MEq a' b' := by
  unfold Market.step at hs ⊢
  cases hr : stepR a m with
  | none => rw [hr] at hs; cases hs
  | some p =>
    obtain ⟨a1, r⟩ := p
    rw [hr] at hs
    simp only [Option.map_some, Option.some.injEq] at hs
    subst hs
    obtain ⟨b', hb, hm'⟩ := stepR_meq h m hm hr
    exact ⟨b', by rw [hb]; rfl, hm'⟩

theorem mseq_meq : ∀ (ms : List Step) {a b a' : MState}, MEq a b → (∀ m ∈ ms, noPick m = true) →
    mseq a ms = some a' → ∃ b', mseq b ms = some b' ∧ MEq a' b' := by
  intro ms
  induction ms with
  | nil => intro a b a' h _ hs; simp only [mseq, Option.some.injEq] at hs; subst hs; exact ⟨b, rfl, h⟩
  | cons m ms ih =>
    intro a b a' h hm hs
    obtain ⟨a1, h1, h2⟩ := mseq_cons_some hs
    obtain ⟨b1, hb1, hm1⟩ := step_meq h m (hm m (by simp)) h1
    obtain ⟨b', hb', hm'⟩ := ih hm1 (fun m' hm' => hm m' (by simp [hm'])) h2
    exact ⟨b', by simp only [mseq, hb1, Option.bind_some]; exact hb', hm'⟩


/-! ### `split_and_push`: the replay notifies the first waiting workers -/

theorem filter_range'_count (a : Pc) : ∀ (l : List Pc) (k : Nat),
    ((List.range' k l.length).filter (fun v => l[v - k]? == some a)).length = l.count a := by
  intro l
  induction l with
  | nil => intro k; simp
  | cons x xs ih =>
    intro k
    simp only [List.length_cons, List.range'_succ, List.filter_cons, Nat.sub_self, List.getElem?_cons_zero]
    have ht : (List.range' (k + 1) xs.length).filter (fun v => (x :: xs)[v - k]? == some a) =
        (List.range' (k + 1) xs.length).filter (fun v => xs[v - (k + 1)]? == some a) := by
      apply List.filter_congr
      intro v hv
      have : k + 1 ≤ v := (List.mem_range'_1.1 hv).1
      have e : v - k = (v - (k + 1)) + 1 := by omega
      rw [e, List.getElem?_cons_succ]
    rw [ht]
    by_cases hx : x = a
    · subst hx
      simp [ih]
    · have : (some x == some a) = false := by simpa using hx
      simp [this, ih, hx]

/-- the waiting workers that have not been notified, as the replay lists them -/
def parkedOf (m : MState) : List Nat :=
  (List.range m.pcs.length).filter fun v => m.pcs[v]? == some (Pc.parked false)

theorem parkedOf_length (m : MState) : (parkedOf m).length = m.pcs.count (Pc.parked false) := by
  have := filter_range'_count (Pc.parked false) m.pcs 0
  simpa [parkedOf, List.range_eq_range'] using this

theorem parkedOf_nodup (m : MState) : (parkedOf m).Nodup :=
  List.Nodup.sublist List.filter_sublist List.nodup_range

theorem picksOk_parked (m : MState) (n : Nat) : picksOk m.pcs ((parkedOf m).take n) n = true := by
  unfold picksOk
  simp only [Bool.and_eq_true, List.all_eq_true, beq_iff_eq]
  refine ⟨⟨nodupB_of_nodup (List.Nodup.sublist (List.take_sublist _ _) (parkedOf_nodup m)), ?_⟩, ?_⟩
  · intro v hv
    have := List.mem_of_mem_take hv
    unfold parkedOf at this
    simpa using (List.mem_filter.1 this).2
  · rw [List.length_take, parkedOf_length]

/-- `split_and_push` in the machine (any admissible resolution of the `notify_one`s) and in the replay (the first waiting
    workers): the same market up to the notification flags -/
theorem split_meq {a b a' : MState} (h : MEq a b) {w : Nat} {picks : List Nat}
    (hs : Market.step a (.split w picks) = some a') :
    (a.isOpen = false ∧ picks = [] ∧ ∃ b', Market.step b (.split w []) = some b' ∧ MEq a' b') ∨
    (a.isOpen = true ∧ ∃ b', Market.step b (.split w ((parkedOf b).take (a'.batches.length - a.batches.length))) = some b' ∧
      MEq a' b') := by
  unfold Market.step at hs ⊢
  simp only [stepR] at hs ⊢
  split at hs
  · rename_i hw
    rw [← h.isOpen]
    split at hs
    · rename_i ho
      left
      rw [if_pos (h.running hw)]
      split at hs
      · rename_i hp
        simp only [Option.map_some, Option.some.injEq] at hs
        subst hs
        refine ⟨by simpa using ho, by simpa using hp, ?_⟩
        rw [if_pos ho]
        simp only [List.isEmpty_nil, if_true, Option.map_some, Option.some.injEq]
        refine ⟨_, rfl, ⟨rfl, h.threadCount, h.openCount, h.batches, ?_, h.created, h.consumed, h.dropped, h.pcs⟩⟩
        simp only [h.locs]
      · cases hs
    · rename_i ho
      right
      split at hs
      · rename_i hp
        simp only [Option.map_some, Option.some.injEq] at hs
        subst hs
        refine ⟨by simpa using ho, ?_⟩
        rw [if_pos (h.running hw), if_neg ho]
        have e1 : splitPieces b (b.locs.getD w []).length = splitPieces a (a.locs.getD w []).length := by
          unfold splitPieces; rw [h.threadCount, h.openCount, h.locs]
        have e2 : splitSize b (b.locs.getD w []).length = splitSize a (a.locs.getD w []).length := by
          unfold splitSize; rw [e1, h.locs]
        rw [e1, e2, ← h.locs, ← h.batches]
        rw [if_pos (picksOk_parked b _)]
        simp only [Option.map_some, Option.some.injEq]
        refine ⟨_, rfl, ⟨rfl, h.threadCount, h.openCount, rfl, ?_, h.created, h.consumed, h.dropped, ?_⟩⟩
        · simp only [h.locs]
        · rw [strip_notifyPicks, strip_notifyPicks]; exact h.pcs
      · cases hs
  · cases hs

end SR.ReplayComplete.Full

namespace SR.ReplayComplete.Full
open SR SR.Checker SR.Market SR.Full SR.Drv.Full

variable (P : Params Nat Nat Nat)

/-! ### the machine: the components a step reads and writes besides the workers' current jobs -/

abbrev C := St Nat Nat
abbrev A := Active Nat

/-- equality of the shared components of the machine state (everything except `active` and the ghosts `done`, `early`,
    which depend on WHEN the steps without a log entry are taken) -/
structure CEq (a b : C) : Prop where
  gen : a.gen = b.gen
  fr : a.frontier = b.frontier
  disc : a.disc = b.disc
  cnt : a.stateCount = b.stateCount
  md : a.maxDepth = b.maxDepth
  vis : a.visits = b.visits
  st : a.stopped = b.stopped

theorem CEq.rfl' (a : C) : CEq a a := ⟨rfl, rfl, rfl, rfl, rfl, rfl, rfl⟩
theorem CEq.symm {a b : C} (h : CEq a b) : CEq b a :=
  ⟨h.gen.symm, h.fr.symm, h.disc.symm, h.cnt.symm, h.md.symm, h.vis.symm, h.st.symm⟩
theorem CEq.trans {a b c : C} (h : CEq a b) (h' : CEq b c) : CEq a c :=
  ⟨h.gen.trans h'.gen, h.fr.trans h'.fr, h.disc.trans h'.disc, h.cnt.trans h'.cnt, h.md.trans h'.md,
    h.vis.trans h'.vis, h.st.trans h'.st⟩

/-- what a step on the current job at position `i` of `a` / `j` of `b` (the same job, in the same phase) does -/
structure JobSync (a b : C) (i j : Nat) (a' b' : C) : Prop where
  ceq : CEq a' b'
  act : (∃ act', a'.active = a.active.set i act' ∧ b'.active = b.active.set j act') ∨
        (a'.active = a.active.eraseIdx i ∧ b'.active = b.active.eraseIdx j)

theorem set_same {β : Type} {l : List β} {i : Nat} {x : β} (h : l[i]? = some x) : l.set i x = l := by
  apply List.ext_getElem?
  intro k
  by_cases hk : i = k
  · subst hk; rw [List.getElem?_set_self (List.getElem?_eq_some_iff.1 h).1, h]
  · rw [List.getElem?_set_ne hk]

variable {P}

theorem jobSync_same {a b : C} (h : CEq a b) {i j : Nat} {act : A} (ha : a.active[i]? = some act)
    (hb : b.active[j]? = some act) : JobSync a b i j a b :=
  ⟨h, .inl ⟨act, (set_same ha).symm, (set_same hb).symm⟩⟩

/-- close a `CEq` goal between two updated states -/
macro "ceq" h:ident : tactic =>
  `(tactic| (constructor <;> first
      | rfl | exact ($h).gen | exact ($h).fr | exact ($h).disc | exact ($h).cnt | exact ($h).md | exact ($h).vis
      | exact ($h).st | (simp only [($h).gen, ($h).fr, ($h).disc, ($h).cnt, ($h).md, ($h).vis, ($h).st]; done)))

theorem evalProp_sync {a b : C} (h : CEq a b) {i j : Nat} {act : A} (ha : a.active[i]? = some act)
    (hb : b.active[j]? = some act) (st : Bool) :
    JobSync a b i j (stepEvalProp P i st a) (stepEvalProp P j st b) := by
  unfold stepEvalProp
  rw [ha, hb]
  obtain ⟨jb, ph⟩ := act
  cases ph with
  | props n aw =>
    simp only []
    cases hp : P.props[n]? with
    | none => exact jobSync_same h ha hb
    | some p =>
      simp only [h.disc]
      split
      · exact ⟨by ceq h, .inl ⟨_, rfl, rfl⟩⟩
      · split
        · split
          · exact ⟨by ceq h, .inl ⟨_, rfl, rfl⟩⟩
          · exact ⟨by ceq h, .inl ⟨_, rfl, rfl⟩⟩
        · split
          · exact ⟨by ceq h, .inl ⟨_, rfl, rfl⟩⟩
          · exact ⟨by ceq h, .inl ⟨_, rfl, rfl⟩⟩
        · exact ⟨by ceq h, .inl ⟨_, rfl, rfl⟩⟩
  | expanding r => exact jobSync_same h ha hb
  | recording n => exact jobSync_same h ha hb

theorem finishProps_sync {a b : C} (h : CEq a b) {i j : Nat} {act : A} (ha : a.active[i]? = some act)
    (hb : b.active[j]? = some act) :
    JobSync a b i j (stepFinishProps P i a) (stepFinishProps P j b) := by
  unfold stepFinishProps
  rw [ha, hb]
  obtain ⟨jb, ph⟩ := act
  cases ph with
  | props n aw =>
    simp only []
    split
    · exact jobSync_same h ha hb
    · split
      · exact ⟨by ceq h, .inr ⟨rfl, rfl⟩⟩
      · split
        · exact ⟨by ceq h, .inl ⟨_, rfl, rfl⟩⟩
        · exact ⟨by ceq h, .inl ⟨_, rfl, rfl⟩⟩
  | expanding r => exact jobSync_same h ha hb
  | recording n => exact jobSync_same h ha hb

theorem expand_sync {a b : C} (h : CEq a b) {i j : Nat} {act : A} (ha : a.active[i]? = some act)
    (hb : b.active[j]? = some act) (f : Bool) :
    JobSync a b i j (stepExpand P i f a) (stepExpand P j f b) := by
  unfold stepExpand
  rw [ha, hb]
  obtain ⟨jb, ph⟩ := act
  cases ph with
  | expanding r =>
    simp only []
    cases r with
    | nil => exact ⟨by ceq h, .inr ⟨rfl, rfl⟩⟩
    | cons t r =>
      simp only [h.gen]
      split
      · exact ⟨by ceq h, .inl ⟨_, rfl, rfl⟩⟩
      · exact ⟨by ceq h, .inl ⟨_, rfl, rfl⟩⟩
  | props n aw => exact jobSync_same h ha hb
  | recording n => exact jobSync_same h ha hb

theorem record_sync {a b : C} (h : CEq a b) {i j : Nat} {act : A} (ha : a.active[i]? = some act)
    (hb : b.active[j]? = some act) :
    JobSync a b i j (stepRecord P i a) (stepRecord P j b) := by
  unfold stepRecord
  rw [ha, hb]
  obtain ⟨jb, ph⟩ := act
  cases ph with
  | recording n =>
    simp only []
    split
    · split
      · exact ⟨by ceq h, .inl ⟨_, rfl, rfl⟩⟩
      · exact ⟨by ceq h, .inl ⟨_, rfl, rfl⟩⟩
    · exact ⟨by ceq h, .inr ⟨rfl, rfl⟩⟩
  | props n aw => exact jobSync_same h ha hb
  | expanding r => exact jobSync_same h ha hb


theorem take_sync {a b : C} (h : CEq a b) (i : Nat) :
    CEq (stepTake P i a) (stepTake P i b) ∧
    ((∃ act, (stepTake P i a).active = a.active ++ [act] ∧ (stepTake P i b).active = b.active ++ [act]) ∨
     ((stepTake P i a).active = a.active ∧ (stepTake P i b).active = b.active)) := by
  unfold stepTake
  simp only [h.fr]
  split
  · exact ⟨h, .inr ⟨rfl, rfl⟩⟩
  · split
    · split
      · exact ⟨by ceq h, .inr ⟨rfl, rfl⟩⟩
      · exact ⟨by ceq h, .inl ⟨_, rfl, rfl⟩⟩
    · exact ⟨by ceq h, .inl ⟨_, rfl, rfl⟩⟩

theorem stopEnabled_ceq {a b : C} (h : CEq a b) (why : Why) : stopEnabled P why a = stopEnabled P why b := by
  unfold stopEnabled
  cases why <;> simp only [h.disc, h.cnt]

theorem allDiscovered_ceq {a b : C} (h : CEq a b) : allDiscovered P a = allDiscovered P b := by
  unfold allDiscovered; rw [h.disc]

theorem stop_sync {a b : C} (h : CEq a b) (why : Why) :
    CEq (stepStop P why a) (stepStop P why b) ∧ (stepStop P why a).active = a.active ∧
      (stepStop P why b).active = b.active := by
  unfold stepStop
  rw [stopEnabled_ceq h]
  split
  · exact ⟨by ceq h, rfl, rfl⟩
  · exact ⟨h, rfl, rfl⟩

theorem dropJob_sync {a b : C} (h : CEq a b) (i : Nat) :
    CEq (stepDropJob P i a) (stepDropJob P i b) ∧ (stepDropJob P i a).active = a.active ∧
      (stepDropJob P i b).active = b.active := by
  unfold stepDropJob
  rw [allDiscovered_ceq h, h.st, h.fr]
  split
  · split
    · exact ⟨h, rfl, rfl⟩
    · exact ⟨by ceq h, rfl, rfl⟩
  · exact ⟨h, rfl, rfl⟩

/-- choice lists that only stop the machine and drop pending jobs -/
def DropList (cs : List Choice) : Prop := ∀ c ∈ cs, (∃ why, c = .stop why) ∨ (∃ i, c = .dropJob i)

theorem dropList_sync : ∀ (cs : List Choice) {a b : C}, CEq a b → DropList cs →
    CEq (runFrom P a cs) (runFrom P b cs) ∧ (runFrom P a cs).active = a.active ∧
      (runFrom P b cs).active = b.active := by
  intro cs
  induction cs with
  | nil => intro a b h _; exact ⟨h, rfl, rfl⟩
  | cons c cs ih =>
    intro a b h hd
    have hd' : DropList cs := fun c' hc' => hd c' (by simp [hc'])
    simp only [runFrom, List.foldl_cons]
    rcases hd c (by simp) with ⟨why, rfl⟩ | ⟨i, rfl⟩
    · obtain ⟨h1, h2, h3⟩ := stop_sync (P := P) h why
      obtain ⟨i1, i2, i3⟩ := ih h1 hd'
      exact ⟨i1, i2.trans h2, i3.trans h3⟩
    · obtain ⟨h1, h2, h3⟩ := dropJob_sync (P := P) h i
      obtain ⟨i1, i2, i3⟩ := ih h1 hd'
      exact ⟨i1, i2.trans h2, i3.trans h3⟩

theorem dropToks_dropList (gone : List Tok) : ∀ ft : List Tok, DropList (dropToks gone ft).1 := by
  induction gone with
  | nil => intro ft c hc; simp [dropToks] at hc
  | cons t ts ih =>
    intro ft c hc
    simp only [dropToks, List.mem_cons] at hc
    rcases hc with rfl | hc
    · exact .inr ⟨_, rfl⟩
    · exact ih _ c hc

/-! ### the steps without a log entry -/

variable (P)

/-- the step of `check_block` that has no log entry, if the job is at one: `none` = the job is at a logged step;
    `some none` = the worker is done with the job; `some (some a')` = the job goes on as `a'` -/
def silA (a : A) : Option (Option A) :=
  match a.phase with
  | .props n aw =>
    if n < P.props.length then none
    else some (if !aw then none
      else match P.M.succB a.job.st with
        | [] => some { job := a.job, phase := .recording 0 }
        | ss => some { job := a.job, phase := .expanding ss })
  | .expanding [] => some none
  | .expanding (_ :: _) => none
  | .recording n =>
    if n < P.props.length ∧ n ∈ a.job.ebits then none
    else some (if n < P.props.length then some { job := a.job, phase := .recording (n + 1) } else none)

/-- the machine choice that performs it -/
def silC (a : A) (i : Nat) (fr : Bool) : Choice :=
  match a.phase with
  | .props _ _ => .finishProps i
  | .expanding _ => .expand i fr
  | .recording _ => .record i

variable {P}

/-- the list of current jobs after the job at position `i` has become `r` -/
def actAfter (l : List A) (i : Nat) : Option A → List A
  | none => l.eraseIdx i
  | some a' => l.set i a'

theorem sil_step {a : C} {i : Nat} {act : A} {r : Option A} (ha : a.active[i]? = some act)
    (hs : silA P act = some r) (fr : Bool) :
    CEq (Checker.step P (silC act i fr) a) a ∧
    (Checker.step P (silC act i fr) a).active = actAfter a.active i r := by
  obtain ⟨jb, ph⟩ := act
  cases ph with
  | props n aw =>
    simp only [silA] at hs
    split at hs
    · cases hs
    · rename_i hn
      simp only [Option.some.injEq] at hs
      subst hs
      simp only [silC, Checker.step, stepFinishProps, ha, if_neg hn]
      cases aw with
      | false => exact ⟨by constructor <;> rfl, rfl⟩
      | true =>
        simp only [Bool.not_true, Bool.false_eq_true, if_false]
        cases hsucc : P.M.succB jb.st with
        | nil => exact ⟨by constructor <;> rfl, rfl⟩
        | cons t ss => exact ⟨by constructor <;> rfl, rfl⟩
  | expanding rest =>
    cases rest with
    | nil =>
      simp only [silA, Option.some.injEq] at hs
      subst hs
      simp only [silC, Checker.step, stepExpand, ha]
      exact ⟨by constructor <;> rfl, rfl⟩
    | cons t rest => simp [silA] at hs
  | recording n =>
    simp only [silA] at hs
    split at hs
    · cases hs
    · rename_i hn
      simp only [Option.some.injEq] at hs
      subst hs
      simp only [silC, Checker.step, stepRecord, ha]
      by_cases hlt : n < P.props.length
      · have hb : n ∉ jb.ebits := fun hb => hn ⟨hlt, hb⟩
        simp only [hlt, if_true, hb, if_false]
        exact ⟨by constructor <;> rfl, rfl⟩
      · simp only [hlt, if_false]
        exact ⟨by constructor <;> rfl, rfl⟩


/-! ### machine steps that do nothing: the worker's job is not at such a step -/

theorem evalProp_stutter {a : C} {i : Nat} {act : A} (ha : a.active[i]? = some act)
    (h : ∀ n aw, act.phase = .props n aw → ¬ n < P.props.length) (st : Bool) : stepEvalProp P i st a = a := by
  unfold stepEvalProp
  rw [ha]
  obtain ⟨jb, ph⟩ := act
  cases ph with
  | props n aw =>
    have := h n aw rfl
    simp only [List.getElem?_eq_none (Nat.le_of_not_lt this)]
  | expanding r => rfl
  | recording n => rfl

theorem finishProps_stutter {a : C} {i : Nat} {act : A} (ha : a.active[i]? = some act)
    (h : ∀ n aw, act.phase = .props n aw → n < P.props.length) : stepFinishProps P i a = a := by
  unfold stepFinishProps
  rw [ha]
  obtain ⟨jb, ph⟩ := act
  cases ph with
  | props n aw => simp only [h n aw rfl, if_true]
  | expanding r => rfl
  | recording n => rfl

theorem expand_stutter {a : C} {i : Nat} {act : A} (ha : a.active[i]? = some act)
    (h : ∀ r, act.phase ≠ .expanding r) (f : Bool) : stepExpand P i f a = a := by
  unfold stepExpand
  rw [ha]
  obtain ⟨jb, ph⟩ := act
  cases ph with
  | props n aw => rfl
  | expanding r => exact (h r rfl).elim
  | recording n => rfl

theorem record_stutter {a : C} {i : Nat} {act : A} (ha : a.active[i]? = some act)
    (h : ∀ n, act.phase ≠ .recording n) : stepRecord P i a = a := by
  unfold stepRecord
  rw [ha]
  obtain ⟨jb, ph⟩ := act
  cases ph with
  | props n aw => rfl
  | expanding r => rfl
  | recording n => exact (h n rfl).elim

/-- when the earlier read of the discoveries map found nothing, `stale` makes no difference -/
theorem evalProp_stale {a : C} {i : Nat} {jb : Job Nat} {n : Nat} {aw : Bool}
    (ha : a.active[i]? = some { job := jb, phase := .props n aw }) (hd : hasDisc a.disc n = false) (st : Bool) :
    stepEvalProp P i st a = stepEvalProp P i false a := by
  unfold stepEvalProp
  rw [ha]
  simp only [hd, Bool.false_and]

/-! ### reaching a logged step by steps without a log entry -/

variable (P)

inductive Sil : Option A → Option A → Prop
  | refl (o : Option A) : Sil o o
  | step {a : A} {r o : Option A} : silA P a = some r → Sil r o → Sil (some a) o

/-- the job (if any) is at a logged step -/
def NF (o : Option A) : Prop := ∀ a, o = some a → silA P a = none

variable {P}

theorem sil_none {o : Option A} (h : Sil P none o) : o = none := by
  cases h; rfl

theorem sil_of_nf {a : A} {o : Option A} (h : Sil P (some a) o) (hn : silA P a = none) : o = some a := by
  cases h with
  | refl => rfl
  | step h1 _ => rw [hn] at h1; cases h1

theorem sil_inv {a : A} {r o : Option A} (h : Sil P (some a) o) (hn : NF P o) (hs : silA P a = some r) :
    Sil P r o := by
  cases h with
  | refl => rw [hn a rfl] at hs; cases hs
  | step h1 h2 => rw [hs] at h1; cases h1; exact h2

theorem sil_trans {o1 o2 o3 : Option A} (h : Sil P o1 o2) (h' : Sil P o2 o3) : Sil P o1 o3 := by
  induction h with
  | refl => exact h'
  | step h1 _ ih => exact .step h1 (ih h')

theorem nf_none : NF P none := fun _ h => by cases h

end SR.ReplayComplete.Full

namespace SR.ReplayComplete.Full
open SR SR.Checker SR.Market SR.Full SR.Drv.Full

variable {P : Params Nat Nat Nat}

abbrev X := FState Nat Nat

/-! ### the product: who works on what -/

theorem activeOf_congr {x y : X} (h1 : x.aw = y.aw) (h2 : x.c.active = y.c.active) (w : Nat) :
    activeOf x w = activeOf y w := by
  unfold activeOf; rw [h1, h2]

theorem activeOf_some {x : X} {w : Nat} {act : A} (h : activeOf x w = some act) :
    w ∈ x.aw ∧ x.c.active[x.aw.idxOf w]? = some act := by
  unfold activeOf at h
  split at h
  · rename_i hw; exact ⟨hw, h⟩
  · cases h

theorem activeOf_none_iff {x : X} (inv : FInv x) (w : Nat) : activeOf x w = none ↔ w ∉ x.aw :=
  look_none_iff inv.awlen w

theorem activeOf_of_mem {x : X} (inv : FInv x) {w : Nat} (hw : w ∈ x.aw) : ∃ act, activeOf x w = some act := by
  cases h : activeOf x w with
  | none => exact ((activeOf_none_iff inv w).1 h hw).elim
  | some act => exact ⟨act, rfl⟩

/-- the product state after a machine step on the current job of worker `w` -/
def xJob (x : X) (w : Nat) (c' : C) : X :=
  { x with c := c', aw := if c'.active.length < x.c.active.length then x.aw.eraseIdx (x.aw.idxOf w) else x.aw }

theorem onJob_eq (x : X) (w : Nat) (mk : Nat → Choice) :
    onJob P x w mk =
      if w ∈ x.aw then some (xJob x w (Checker.step P (mk (x.aw.idxOf w)) x.c), [], [mk (x.aw.idxOf w)]) else none := rfl

theorem xJob_view {x : X} (inv : FInv x) {w : Nat} (hw : w ∈ x.aw) {c' : C} (r : Option A)
    (hact : c'.active = actAfter x.c.active (x.aw.idxOf w) r) :
    activeOf (xJob x w c') w = r ∧ ∀ v, v ≠ w → activeOf (xJob x w c') v = activeOf x v := by
  have hi : x.aw.idxOf w < x.c.active.length := inv.awlen ▸ List.idxOf_lt_length_of_mem hw
  cases r with
  | none =>
    simp only [actAfter] at hact
    have hlen : c'.active.length < x.c.active.length := by
      rw [hact, List.length_eraseIdx, if_pos hi]; omega
    have haw : (xJob x w c').aw = x.aw.eraseIdx (x.aw.idxOf w) := by simp only [xJob, hlen, if_true]
    have hc : (xJob x w c').c.active = x.c.active.eraseIdx (x.aw.idxOf w) := hact
    refine ⟨?_, fun v hv => ?_⟩
    · show look _ _ _ = _
      rw [haw, hc]; exact look_eraseIdx_self inv.awnd _ _
    · show look _ _ _ = look _ _ _
      rw [haw, hc]; exact look_eraseIdx_ne _ _ _ _ hv
  | some a' =>
    simp only [actAfter] at hact
    have hlen : ¬ c'.active.length < x.c.active.length := by
      rw [hact, List.length_set]; omega
    have haw : (xJob x w c').aw = x.aw := by simp only [xJob, hlen, if_false]
    have hc : (xJob x w c').c.active = x.c.active.set (x.aw.idxOf w) a' := hact
    refine ⟨?_, fun v hv => ?_⟩
    · show look _ _ _ = _
      rw [haw, hc]; exact look_set_self inv.awlen hw _
    · show look _ _ _ = look _ _ _
      rw [haw, hc]; exact look_set_ne hv _

/-! ### the discoveries map has one entry per property -/

theorem runFrom_discNodup (cs : List Choice) : ∀ c : C, (discNames c.disc).Nodup →
    (discNames (runFrom P c cs).disc).Nodup := by
  induction cs with
  | nil => intro c h; exact h
  | cons ch cs ih =>
    intro c h
    simp only [runFrom, List.foldl_cons]
    exact ih _ (discNodup_step (P := P) ch h)

theorem fstep_discNodup {x x' : X} {f : FStep} {ms : List Step} {cs : List Choice}
    (h : fstep P x f = some (x', ms, cs)) (hd : (discNames x.c.disc).Nodup) : (discNames x'.c.disc).Nodup := by
  rw [(fstep_proj h).2]
  exact runFrom_discNodup cs _ hd


/-! ### the product performs a step without log entry; `advance` performs them all -/

/-- `f` is the step of worker `w` that performs the step without log entry of the job `act` -/
def IsSilF (act : A) (w : Nat) (f : FStep) : Prop :=
  match act.phase with
  | .props _ _ => f = .finishProps w
  | .expanding _ => ∃ fr tok bk, f = .expand w fr tok bk
  | .recording _ => f = .record w

theorem stepE_of {x x' : X} {f : FStep} {ms : List Step} {cs : List Choice} (h : fstep P x f = some (x', ms, cs)) :
    stepE P x f = .ok x' := by
  unfold stepE; rw [h]; rfl

theorem fstep_sil {x : X} (inv : FInv x) {w : Nat} {act : A} {r : Option A} (hw : activeOf x w = some act)
    (hs : silA P act = some r) {f : FStep} (hf : IsSilF act w f) :
    ∃ x' cs, fstep P x f = some (x', [], cs) ∧ x'.m = x.m ∧ x'.ft = x.ft ∧ CEq x'.c x.c ∧ activeOf x' w = r ∧
      (∀ v, v ≠ w → activeOf x' v = activeOf x v) := by
  obtain ⟨hmem, hidx⟩ := activeOf_some hw
  obtain ⟨jb, ph⟩ := act
  cases ph with
  | props n aw =>
    simp only [IsSilF] at hf
    subst hf
    obtain ⟨h1, h2⟩ := sil_step hidx hs true
    obtain ⟨v1, v2⟩ := xJob_view inv hmem r h2
    refine ⟨xJob x w (Checker.step P (.finishProps (x.aw.idxOf w)) x.c), [.finishProps (x.aw.idxOf w)], ?_, rfl, rfl, h1, v1, v2⟩
    show onJob P x w _ = _
    rw [onJob_eq, if_pos hmem]
  | recording n =>
    simp only [IsSilF] at hf
    subst hf
    obtain ⟨h1, h2⟩ := sil_step hidx hs true
    obtain ⟨v1, v2⟩ := xJob_view inv hmem r h2
    refine ⟨xJob x w (Checker.step P (.record (x.aw.idxOf w)) x.c), [.record (x.aw.idxOf w)], ?_, rfl, rfl, h1, v1, v2⟩
    show onJob P x w _ = _
    rw [onJob_eq, if_pos hmem]
  | expanding rest =>
    simp only [IsSilF] at hf
    obtain ⟨fr, tok, bk, rfl⟩ := hf
    obtain ⟨h1, h2⟩ := sil_step hidx hs fr
    obtain ⟨v1, v2⟩ := xJob_view inv hmem r h2
    have hfr : ¬ (Checker.step P (.expand (x.aw.idxOf w) fr) x.c).frontier.length = x.c.frontier.length + 1 := by
      have : (Checker.step P (.expand (x.aw.idxOf w) fr) x.c).frontier = x.c.frontier := h1.fr
      rw [this]; omega
    refine ⟨xJob x w (Checker.step P (.expand (x.aw.idxOf w) fr) x.c), [.expand (x.aw.idxOf w) fr], ?_, rfl, rfl, h1, v1, v2⟩
    simp only [fstep, if_pos hmem, if_neg hfr]
    rfl

variable (P)

def muA (act : A) : Nat :=
  match act.phase with
  | .props _ _ => P.props.length + 3
  | .expanding _ => 1
  | .recording n => (P.props.length + 1 - n) + 1

def muO : Option A → Nat
  | none => 0
  | some act => muA P act

variable {P}

theorem muA_pos (act : A) : 0 < muA P act := by
  unfold muA; split <;> omega

theorem mu_dec {act : A} {r : Option A} (h : silA P act = some r) : muO P r < muA P act := by
  obtain ⟨jb, ph⟩ := act
  cases ph with
  | props n aw =>
    simp only [silA] at h
    split at h
    · cases h
    · simp only [Option.some.injEq] at h
      subst h
      cases aw with
      | false => simp [muO, muA]
      | true =>
        simp only [Bool.not_true, Bool.false_eq_true, if_false]
        split <;> simp [muO, muA]
  | expanding rest =>
    cases rest with
    | nil => simp only [silA, Option.some.injEq] at h; subst h; simp [muO, muA]
    | cons t rest => simp [silA] at h
  | recording n =>
    simp only [silA] at h
    split at h
    · cases h
    · simp only [Option.some.injEq] at h
      subst h
      split
      · rename_i hlt; simp only [muO, muA]; omega
      · simp [muO, muA]

theorem advance_nf {x : X} {w : Nat} (h : NF P (activeOf x w)) (fuel : Nat) : advance P x w fuel = .ok x := by
  cases fuel with
  | zero => rfl
  | succ fuel =>
    unfold advance
    cases hw : activeOf x w with
    | none => rfl
    | some act =>
      have hn := h act hw
      obtain ⟨jb, ph⟩ := act
      cases ph with
      | props n aw =>
        simp only [silA] at hn
        split at hn
        · rename_i hlt; simp only [hlt, if_true]; rfl
        · cases hn
      | expanding rest =>
        cases rest with
        | nil => simp [silA] at hn
        | cons t rest => rfl
      | recording n =>
        simp only [silA] at hn
        split at hn
        · rename_i hc; simp only [hc, and_self, if_true]; rfl
        · cases hn

theorem advance_spec (w : Nat) : ∀ (fuel : Nat) (x : X), FInv x → muO P (activeOf x w) ≤ fuel →
    ∃ x', advance P x w fuel = .ok x' ∧ x'.m = x.m ∧ x'.ft = x.ft ∧ CEq x'.c x.c ∧
      Sil P (activeOf x w) (activeOf x' w) ∧ NF P (activeOf x' w) ∧
      (∀ v, v ≠ w → activeOf x' v = activeOf x v) ∧ FInv x' := by
  intro fuel
  induction fuel with
  | zero =>
    intro x inv hmu
    have hnone : activeOf x w = none := by
      cases hw : activeOf x w with
      | none => rfl
      | some act => rw [hw] at hmu; have := muA_pos (P := P) act; simp only [muO] at hmu; omega
    exact ⟨x, rfl, rfl, rfl, CEq.rfl' _, .refl _, hnone ▸ nf_none, fun _ _ => rfl, inv⟩
  | succ fuel ih =>
    intro x inv hmu
    cases hw : activeOf x w with
    | none =>
      refine ⟨x, ?_, rfl, rfl, CEq.rfl' _, hw ▸ .refl _, hw ▸ nf_none, fun _ _ => rfl, inv⟩
      exact advance_nf (hw ▸ nf_none) _
    | some act =>
      cases hs : silA P act with
      | none =>
        have hnf : NF P (activeOf x w) := by
          intro a ha; rw [hw] at ha; cases ha; exact hs
        exact ⟨x, advance_nf hnf _, rfl, rfl, CEq.rfl' _, hw ▸ .refl _, hnf, fun _ _ => rfl, inv⟩
      | some r =>
        rw [hw] at hmu
        have hdec := mu_dec hs
        simp only [muO] at hmu
        obtain ⟨jb, ph⟩ := act
        cases ph with
        | props n aw =>
          obtain ⟨x1, cs, hf, hm1, hft1, hc1, hw1, ho1⟩ := fstep_sil inv hw hs (f := .finishProps w) rfl
          have inv1 := finv_step inv hf
          obtain ⟨x', ha, hm', hft', hc', hsil', hnf', ho', inv'⟩ := ih x1 inv1 (by rw [hw1]; omega)
          refine ⟨x', ?_, hm'.trans hm1, hft'.trans hft1, hc'.trans hc1, .step hs (hw1 ▸ hsil'), hnf',
            fun v hv => (ho' v hv).trans (ho1 v hv), inv'⟩
          unfold advance
          simp only [hw]
          have hn : ¬ n < P.props.length := by
            intro hlt; simp [silA, hlt] at hs
          simp only [hn, if_false, stepE_of hf]
          exact ha
        | expanding rest =>
          cases rest with
          | cons t rest => simp [silA] at hs
          | nil =>
            obtain ⟨x1, cs, hf, hm1, hft1, hc1, hw1, ho1⟩ :=
              fstep_sil inv hw hs (f := .expand w true 0 false) ⟨_, _, _, rfl⟩
            have inv1 := finv_step inv hf
            have hr : r = none := by simp only [silA, Option.some.injEq] at hs; exact hs.symm
            refine ⟨x1, ?_, hm1, hft1, hc1, .step hs (hw1 ▸ .refl _), ?_, ho1, inv1⟩
            · unfold advance
              simp only [hw]
              exact stepE_of hf
            · rw [hw1, hr]; exact nf_none
        | recording n =>
          obtain ⟨x1, cs, hf, hm1, hft1, hc1, hw1, ho1⟩ := fstep_sil inv hw hs (f := .record w) rfl
          have inv1 := finv_step inv hf
          obtain ⟨x', ha, hm', hft', hc', hsil', hnf', ho', inv'⟩ := ih x1 inv1 (by rw [hw1]; omega)
          refine ⟨x', ?_, hm'.trans hm1, hft'.trans hft1, hc'.trans hc1, .step hs (hw1 ▸ hsil'), hnf',
            fun v hv => (ho' v hv).trans (ho1 v hv), inv'⟩
          unfold advance
          simp only [hw]
          have hn : ¬ (n < P.props.length ∧ n ∈ jb.ebits) := by
            intro hlt; simp [silA, hlt] at hs
          simp only [hn, if_false, stepE_of hf]
          exact ha

theorem muO_le_fuel (o : Option A) : muO P o ≤ fuelOf P := by
  cases o with
  | none => simp [muO]
  | some act =>
    simp only [muO, muA, fuelOf]
    split <;> omega

end SR.ReplayComplete.Full

namespace SR.ReplayComplete.Full
open SR SR.Checker SR.Market SR.Full SR.Drv.Full

/-! ### a thread that is gone stays gone -/

theorem notifyAll_exited (pcs : List Pc) (v : Nat) (h : pcs[v]? = some Pc.exited) :
    (notifyAll pcs)[v]? = some Pc.exited := by
  unfold notifyAll
  rw [List.getElem?_map, h]; rfl

theorem notifyPicks_exited (picks : List Nat) : ∀ (pcs : List Pc) (v : Nat), pcs[v]? = some Pc.exited →
    (notifyPicks pcs picks)[v]? = some Pc.exited := by
  induction picks with
  | nil => intro pcs v h; exact h
  | cons p ps ih =>
    intro pcs v h
    simp only [notifyPicks]
    apply ih
    split
    · rename_i hp
      by_cases e : p = v
      · subst e; rw [h] at hp; cases hp
      · rw [List.getElem?_set_ne e]; exact h
    · exact h

theorem set_exited {pcs : List Pc} {v w : Nat} {p q : Pc} (h : pcs[v]? = some Pc.exited) (hw : pcs[w]? = some q)
    (hq : q ≠ .exited) : (pcs.set w p)[v]? = some Pc.exited := by
  by_cases e : w = v
  · subst e; rw [h] at hw; cases hw; exact (hq rfl).elim
  · rw [List.getElem?_set_ne e]; exact h

theorem popLoop_exited (s : MState) (w v : Nat) {q : Pc} (hw : s.pcs[w]? = some q) (hq : q ≠ .exited)
    (h : s.pcs[v]? = some Pc.exited) : (popLoop s w).1.pcs[v]? = some Pc.exited := by
  unfold popLoop
  split
  · exact set_exited h hw hq
  · simp only
    split
    · exact notifyAll_exited _ _ (set_exited h hw hq)
    · exact set_exited h hw hq

theorem step_exited {s s' : MState} {m : Step} (hs : Market.step s m = some s') {v : Nat}
    (h : s.pcs[v]? = some Pc.exited) : s'.pcs[v]? = some Pc.exited := by
  cases m with
  | popBegin w =>
    obtain ⟨hw, h1 | h1⟩ := popBegin_eff hs
    · rw [h1.2]; exact h
    · rw [h1.2]; exact popLoop_exited s w v hw (by simp) h
  | wake w =>
    obtain ⟨⟨b, hw⟩, h1⟩ := wake_eff hs
    rw [h1]
    exact popLoop_exited _ w v (q := .parked b) hw (by simp) h
  | push w n picks =>
    unfold Market.step at hs
    simp only [stepR] at hs
    split at hs
    · split at hs
      · split at hs
        · simp at hs; subst hs; exact h
        · simp at hs
      · split at hs
        · simp at hs; subst hs; exact notifyPicks_exited _ _ _ h
        · simp at hs
    · simp at hs
  | xpush toks picks =>
    unfold Market.step at hs
    simp only [stepR] at hs
    split at hs
    · split at hs
      · split at hs
        · simp at hs; subst hs; exact h
        · simp at hs
      · split at hs
        · simp at hs; subst hs; exact notifyPicks_exited _ _ _ h
        · simp at hs
    · simp at hs
  | split w picks =>
    obtain ⟨_, h1 | h1⟩ := split_eff hs
    · rw [h1.2]; exact h
    · rw [h1.2]; exact notifyPicks_exited _ _ _ h
  | work w c fresh => obtain ⟨_, _, h1⟩ := work_eff hs; rw [h1]; exact h
  | rearrange w l => obtain ⟨_, _, h1⟩ := rearrange_eff hs; rw [h1]; exact h
  | drop w =>
    obtain ⟨hw, h1⟩ := drop_eff hs
    rw [h1]
    by_cases e : w = v
    · subst e; rw [h] at hw; cases hw
    · simp only; rw [List.getElem?_set_ne e]; exact notifyAll_exited _ _ h
  | xdrop => rw [xdrop_eff hs]; exact notifyAll_exited _ _ h
  | timeoutFire => rw [timeout_eff hs]; exact h

theorem mseq_exited : ∀ (ms : List Step) {m m' : MState}, mseq m ms = some m' → ∀ {v : Nat},
    m.pcs[v]? = some Pc.exited → m'.pcs[v]? = some Pc.exited := by
  intro ms
  induction ms with
  | nil => intro m m' h v hv; simp only [mseq, Option.some.injEq] at h; subst h; exact hv
  | cons s ss ih =>
    intro m m' h v hv
    obtain ⟨m1, h1, h2⟩ := mseq_cons_some h
    exact ih h2 (step_exited h1 hv)

theorem fstep_exited {P : Params Nat Nat Nat} {x x' : X} {f : FStep} {ms : List Step} {cs : List Choice}
    (h : fstep P x f = some (x', ms, cs)) {v : Nat} (hv : x.m.pcs[v]? = some Pc.exited) :
    x'.m.pcs[v]? = some Pc.exited :=
  mseq_exited ms (fstep_proj h).1 hv

theorem stepR_popBegin_some {m m' : MState} {w : Nat} {r : Option PopRes}
    (h : Market.stepR m (.popBegin w) = some (m', r)) : ∃ pr, r = some pr := by
  simp only [stepR] at h
  split at h
  · split at h
    · simp at h; exact ⟨_, h.2.symm⟩
    · simp at h; exact ⟨_, h.2.symm⟩
  · cases h

theorem stepR_wake_some {m m' : MState} {w : Nat} {r : Option PopRes}
    (h : Market.stepR m (.wake w) = some (m', r)) : ∃ pr, r = some pr := by
  simp only [stepR] at h
  split at h
  · simp at h; exact ⟨_, h.2.symm⟩
  · cases h

theorem step_stepR {m m' : MState} {st : Step} (h : Market.step m st = some m') :
    ∃ r, Market.stepR m st = some (m', r) := by
  unfold Market.step at h
  cases hr : Market.stepR m st with
  | none => rw [hr] at h; cases h
  | some p => rw [hr] at h; obtain ⟨a, r⟩ := p; simp at h; subst h; exact ⟨r, rfl⟩

theorem stepR_step {m m' : MState} {st : Step} {r : Option PopRes} (h : Market.stepR m st = some (m', r)) :
    Market.step m st = some m' := by
  unfold Market.step; rw [h]; rfl

end SR.ReplayComplete.Full

namespace SR.ReplayComplete.Full
open SR SR.Checker SR.Market SR.Full SR.Drv.Full

variable (P : Params Nat Nat Nat)

/-! ### the replay is AHEAD of the machine by the steps without a log entry -/

/-- `x` (the replay) and `s` (the machine): the same market up to notification flags, the same shared machine state, and
    every worker's job in `x` is the job it has in `s` moved on to its next logged step -/
structure Rel (x s : X) : Prop where
  m : MEq x.m s.m
  ft : x.ft = s.ft
  c : CEq x.c s.c
  act : ∀ w, Sil P (activeOf s w) (activeOf x w) ∧ NF P (activeOf x w)
  ix : FInv x
  is : FInv s
  dn : (discNames s.c.disc).Nodup

/-- worker `w` has just taken a logged step in both: the same job on both sides, not yet moved on in `x` -/
structure RelW (w : Nat) (x s : X) : Prop where
  m : MEq x.m s.m
  ft : x.ft = s.ft
  c : CEq x.c s.c
  actw : activeOf x w = activeOf s w
  acto : ∀ v, v ≠ w → Sil P (activeOf s v) (activeOf x v) ∧ NF P (activeOf x v)
  ix : FInv x
  is : FInv s
  dn : (discNames s.c.disc).Nodup

variable {P}

theorem rel_refl {s : X} (inv : FInv s) (hd : (discNames s.c.disc).Nodup) (hnf : ∀ w, NF P (activeOf s w)) :
    Rel P s s :=
  ⟨MEq.rfl' _, rfl, CEq.rfl' _, fun w => ⟨.refl _, hnf w⟩, inv, inv, hd⟩

theorem relW_advance {w : Nat} {x s : X} (h : RelW P w x s) :
    ∃ x', advance P x w (fuelOf P) = .ok x' ∧ Rel P x' s := by
  obtain ⟨x', ha, hm, hft, hc, hsil, hnf, ho, inv'⟩ := advance_spec w (fuelOf P) x h.ix (muO_le_fuel _)
  refine ⟨x', ha, ⟨hm ▸ h.m, hft.trans h.ft, hc.trans h.c, fun v => ?_, inv', h.is, h.dn⟩⟩
  by_cases hv : v = w
  · subst hv; exact ⟨h.actw ▸ hsil, hnf⟩
  · rw [ho v hv]; exact h.acto v hv

theorem rel_not_mem {x s : X} (h : Rel P x s) {w : Nat} (hw : w ∉ s.aw) : w ∉ x.aw := by
  have h1 := (activeOf_none_iff h.is w).2 hw
  have h2 := (h.act w).1
  rw [h1] at h2
  exact (activeOf_none_iff h.ix w).1 (sil_none h2)

theorem rel_advance_id {x s : X} (h : Rel P x s) (w : Nat) : advance P x w (fuelOf P) = .ok x :=
  advance_nf (h.act w).2 _

/-- a logged step is enabled only where the job is not at a step without log entry: the replay has the same job -/
theorem rel_same {x s : X} (h : Rel P x s) {w : Nat} {act : A} (hs : activeOf s w = some act)
    (hn : silA P act = none) : activeOf x w = some act := by
  have := (h.act w).1
  rw [hs] at this
  exact sil_of_nf this hn

theorem mseq_pcs_length {m m' : MState} {ms : List Step} (h : mseq m ms = some m') : m'.pcs.length = m.pcs.length := by
  rw [← mseq_mrun ms h]; exact mrun_pcs_length ms m

theorem fstep_pcs_length {x x' : X} {f : FStep} {ms : List Step} {cs : List Choice}
    (h : fstep P x f = some (x', ms, cs)) : x'.m.pcs.length = x.m.pcs.length :=
  mseq_pcs_length (fstep_proj h).1

/-- the machine takes a step without log entry: the replay has taken it already -/
theorem rel_sil {x s s' : X} (h : Rel P x s) {w : Nat} {act : A} {r : Option A} (hs : activeOf s w = some act)
    (hsil : silA P act = some r) (is' : FInv s') (hm : s'.m = s.m) (hft : s'.ft = s.ft) (hc : CEq s'.c s.c)
    (hw : activeOf s' w = r) (ho : ∀ v, v ≠ w → activeOf s' v = activeOf s v) : Rel P x s' := by
  refine ⟨hm ▸ h.m, h.ft.trans hft.symm, h.c.trans hc.symm, fun v => ?_, h.ix, is', ?_⟩
  · by_cases hv : v = w
    · subst hv
      have := h.act v
      rw [hs] at this
      rw [hw]
      exact ⟨sil_inv this.1 this.2 hsil, this.2⟩
    · rw [ho v hv]; exact h.act v
  · rw [hc.disc]; exact h.dn


/-! ### what the hooks write (bfs.rs, dfs.rs) -/

variable (P)

/-- the result of the `pop` whose first / later critical section is the market step `m` -/
def popEntry (s : X) (w : Nat) (m : Step) (woke : Nat) : List Ev :=
  match (Market.stepR s.m m).bind (·.2) with
  | some (.got b) => [⟨w, 1, b.length, woke⟩]
  | some .empty => [⟨w, 2, if s.m.isOpen then 0 else 1, woke⟩]
  | some .park => [⟨w, 3, 0, woke⟩]
  | none => []

/-- does the evaluation of property `n` in the state of job `jb` insert a discovery -/
def inserts (n : Nat) (jb : Job Nat) : Bool :=
  match P.props[n]? with
  | some p =>
    match p.exp with
    | .always => !p.cond jb.st
    | .sometimes => p.cond jb.st
    | .eventually => false
  | none => false

/-- The entries the hooks of job_market.rs / bfs.rs / dfs.rs write when the product takes the enabled step `f` from `s`
    to `s'`.  No entry: `finishProps`, retiring (`expand` with no successor left), iterations of the terminal-state loop
    whose bit is not set, and the steps of the product that do nothing (the worker's job is not at such a step).
    `notw` is the index the harness gives to threads that are not workers. -/
def entries (notw : Nat) (s : X) (f : FStep) (s' : X) : List Ev :=
  match f with
  | .pop w => popEntry s w (.popBegin w) 0
  | .wake w => popEntry s w (.wake w) 1
  | .split w _ =>
    if s.m.isOpen then
      ((s'.m.batches.take (s'.m.batches.length - s.m.batches.length)).reverse.map fun b => (⟨w, 8, b.length, 0⟩ : Ev)) ++
        [⟨w, 7, (locOf s.m w).length, (locOf s'.m w).length⟩]
    else [⟨w, 9, (locOf s.m w).length, 0⟩]
  | .take w p =>
    match (locOf s.m w)[p]? with
    | some t =>
      match jobOfTok s t with
      | some j => [⟨w, 20, j.st, j.depth⟩]
      | none => []
    | none => []
  | .discard _ _ => []
  | .evalProp w stale =>
    match activeOf s w with
    | some { job := jb, phase := .props n _ } =>
      if n < P.props.length then
        [⟨w, 21, n, if hasDisc s.c.disc n && !stale then 0 else if inserts P n jb then 1 else 2⟩]
      else []
    | _ => []
  | .finishProps _ => []
  | .expand w _ _ _ =>
    match activeOf s w with
    | some { job := _, phase := .expanding (t :: _) } => [⟨w, 22, P.key t, if s.c.gen.contains (P.key t) then 0 else 1⟩]
    | _ => []
  | .record w =>
    match activeOf s w with
    | some { job := jb, phase := .recording n } => if n < P.props.length ∧ n ∈ jb.ebits then [⟨w, 23, n, 0⟩] else []
    | _ => []
  | .stop w .finish => [⟨w, 24, 1, 0⟩, ⟨w, 10, 0, 0⟩]
  | .stop w .target => [⟨w, 24, 2, 0⟩, ⟨w, 10, 0, 0⟩]
  | .stop w _ => [⟨w, 10, 0, 0⟩]
  | .exit w => [⟨w, 24, 4, 0⟩, ⟨w, 10, 0, 0⟩]
  | .timeout => [⟨notw, 11, 0, 0⟩]
  | .xdrop => [⟨notw, 10, 0, 0⟩]

/-- the queue discipline of bfs.rs (`dfs = false`) / dfs.rs, and what the product allows but the code never does:
    `pop_back`; a new job gets the next token and goes to the front (bfs) / back (dfs) of the deque; no job is dropped
    unevaluated while the market is open; a worker does not leave "for the timeout" (the timeout thread closes the market) -/
def disc (dfs : Bool) (s : X) : FStep → Bool
  | .take w p => p + 1 == (locOf s.m w).length
  | .expand w front tok back =>
    match activeOf s w with
    | some { job := _, phase := .expanding (_ :: _) } => front == !dfs && tok == s.m.created.length && back == dfs
    | _ => true
  | .discard _ _ => false
  | .stop _ why => why != .timeout
  | _ => true

/-- the replay's product state and the machine (`k` workers) -/
structure TRel (k : Nat) (tv : TV) (s : X) : Prop where
  rel : Rel P tv.x s
  len : s.m.pcs.length = k

/-- the replay's bookkeeping between two steps when every step's bookkeeping entries immediately precede it: no batch
    sizes pending, and a `TR_STOP` reason is remembered only for workers that are gone -/
structure Book (tv : TV) (s : X) : Prop where
  pieces : tv.pieces = []
  reason : ∀ w, (tv.reason.lookup w).isSome = true → s.m.pcs[w]? = some .exited

variable {P}

theorem bindE_ok {α β : Type} (a : α) (f : α → R β) : (Except.ok a >>= f : R β) = f a := rfl

theorem replay_append (k : Nat) (mode : Mode) : ∀ (es1 es2 : List Ev) (tv : TV) (i : Nat),
    replay P k mode tv i (es1 ++ es2) =
      match replay P k mode tv i es1 with
      | .ok tv' => replay P k mode tv' (i + es1.length) es2
      | .error m => .error m := by
  intro es1
  induction es1 with
  | nil => intro es2 tv i; rfl
  | cons e es ih =>
    intro es2 tv i
    simp only [List.cons_append, replay]
    cases h : one P k mode tv e with
    | error m => rfl
    | ok tv1 =>
      simp only []
      rw [ih]
      simp only [List.length_cons]
      have : i + 1 + es.length = i + (es.length + 1) := by omega
      rw [this]

theorem replay_one (k : Nat) (mode : Mode) (tv tv' : TV) (i : Nat) (e : Ev) (h : one P k mode tv e = .ok tv') :
    replay P k mode tv i [e] = .ok tv' := by
  simp only [replay, h]; rfl

theorem running_lt {s : X} {k w : Nat} (hl : s.m.pcs.length = k) (h : s.m.pcs[w]? = some .running) : w < k :=
  hl ▸ (List.getElem?_eq_some_iff.1 h).1

theorem get_lt {s : X} {k w : Nat} {p : Pc} (hl : s.m.pcs.length = k) (h : s.m.pcs[w]? = some p) : w < k :=
  hl ▸ (List.getElem?_eq_some_iff.1 h).1

theorem trel_of_rel {k : Nat} {tv : TV} {s s' : X} {x' : X} (h : TRel P k tv s) {f : FStep} {ms : List Step}
    {cs : List Choice} (hs : fstep P s f = some (s', ms, cs)) (hrel : Rel P x' s') :
    TRel P k { tv with x := x' } s' :=
  ⟨hrel, (fstep_pcs_length hs).trans h.len⟩

/-- **`pop`** -/
theorem complete_pop {k notw : Nat} {mode : Mode} {tv : TV} {s s' : X} {w : Nat} {ms : List Step} {cs : List Choice}
    (h : TRel P k tv s) (hs : fstep P s (.pop w) = some (s', ms, cs)) (i : Nat) :
    ∃ tv', replay P k mode tv i (entries P notw s (.pop w) s') = .ok tv' ∧ TRel P k tv' s' := by
  have hs0 := hs
  simp only [fstep] at hs
  split at hs
  · rename_i hc
    cases hm : Market.step s.m (.popBegin w) with
    | none => rw [hm] at hs; cases hs
    | some m' =>
      rw [hm] at hs
      simp only [Option.map_some, Option.some.injEq, Prod.mk.injEq] at hs
      obtain ⟨rfl, -, -⟩ := hs
      obtain ⟨r, hr⟩ := step_stepR hm
      obtain ⟨m'', hr', hmeq⟩ := stepR_meq h.rel.m.symm (.popBegin w) rfl hr
      have hrun : s.m.pcs[w]? = some .running := (popBegin_eff hm).1
      have hwk : w < k := get_lt h.len hrun
      have hxloc : locOf tv.x.m w = [] := (h.rel.m.locOf w).trans hc.1
      have hxaw : w ∉ tv.x.aw := rel_not_mem h.rel hc.2
      have hfx : fstep P tv.x (.pop w) = some ({ tv.x with m := m'' }, [.popBegin w], []) := by
        simp only [fstep, if_pos (And.intro hxloc hxaw), stepR_step hr', Option.map_some]
      have hrel : Rel P { tv.x with m := m'' } { s with m := m' } :=
        ⟨hmeq.symm, h.rel.ft, h.rel.c, h.rel.act, finv_step h.rel.ix hfx, finv_step h.rel.is hs0, h.rel.dn⟩
      have hpop : ∀ e : Ev, e.w = w → e.b = 0 → popResOk r e = true →
          onePop P k tv e = .ok { tv with x := { tv.x with m := m'' } } := by
        intro e hew heb hok
        unfold onePop
        simp [hew, isWorker, hwk, rel_advance_id h.rel, heb, hr', hok, stepE_of hfx, bind, Except.bind, pure, Except.pure]
      have htr := trel_of_rel h hs0 hrel
      simp only [entries, popEntry, hr, Option.bind_some]
      obtain ⟨pr, rfl⟩ := stepR_popBegin_some hr
      cases pr with
      | got b => exact ⟨_, replay_one k mode tv _ i _ (hpop _ rfl rfl (by simp [popResOk])), htr⟩
      | empty => exact ⟨_, replay_one k mode tv _ i _ (hpop _ rfl rfl (by simp [popResOk])), htr⟩
      | park => exact ⟨_, replay_one k mode tv _ i _ (hpop _ rfl rfl (by simp [popResOk])), htr⟩
  · cases hs

/-- **`wake`** -/
theorem complete_wake {k notw : Nat} {mode : Mode} {tv : TV} {s s' : X} {w : Nat} {ms : List Step} {cs : List Choice}
    (h : TRel P k tv s) (hs : fstep P s (.wake w) = some (s', ms, cs)) (i : Nat) :
    ∃ tv', replay P k mode tv i (entries P notw s (.wake w) s') = .ok tv' ∧ TRel P k tv' s' := by
  have hs0 := hs
  simp only [fstep] at hs
  cases hm : Market.step s.m (.wake w) with
  | none => rw [hm] at hs; cases hs
  | some m' =>
    rw [hm] at hs
    simp only [Option.map_some, Option.some.injEq, Prod.mk.injEq] at hs
    obtain ⟨rfl, -, -⟩ := hs
    obtain ⟨r, hr⟩ := step_stepR hm
    obtain ⟨m'', hr', hmeq⟩ := stepR_meq h.rel.m.symm (.wake w) rfl hr
    obtain ⟨⟨fl, hpk⟩, -⟩ := wake_eff hm
    have hwk : w < k := get_lt h.len hpk
    have hfx : fstep P tv.x (.wake w) = some ({ tv.x with m := m'' }, [.wake w], []) := by
      simp only [fstep, stepR_step hr', Option.map_some]
    have hrel : Rel P { tv.x with m := m'' } { s with m := m' } :=
      ⟨hmeq.symm, h.rel.ft, h.rel.c, h.rel.act, finv_step h.rel.ix hfx, finv_step h.rel.is hs0, h.rel.dn⟩
    have hpop : ∀ e : Ev, e.w = w → e.b = 1 → popResOk r e = true →
        onePop P k tv e = .ok { tv with x := { tv.x with m := m'' } } := by
      intro e hew heb hok
      unfold onePop
      simp [hew, isWorker, hwk, rel_advance_id h.rel, heb, hr', hok, stepE_of hfx, bind, Except.bind, pure, Except.pure]
    have htr := trel_of_rel h hs0 hrel
    simp only [entries, popEntry, hr, Option.bind_some]
    obtain ⟨pr, rfl⟩ := stepR_wake_some hr
    cases pr with
    | got b => exact ⟨_, replay_one k mode tv _ i _ (hpop _ rfl rfl (by simp [popResOk])), htr⟩
    | empty => exact ⟨_, replay_one k mode tv _ i _ (hpop _ rfl rfl (by simp [popResOk])), htr⟩
    | park => exact ⟨_, replay_one k mode tv _ i _ (hpop _ rfl rfl (by simp [popResOk])), htr⟩

end SR.ReplayComplete.Full

namespace SR.ReplayComplete.Full
open SR SR.Checker SR.Market SR.Full SR.Drv.Full

variable {P : Params Nat Nat Nat}

/-- a step that leaves every worker's current job alone, on both sides -/
theorem rel_frame {x s x' s' : X} (h : Rel P x s) (hm : MEq x'.m s'.m) (hft : x'.ft = s'.ft) (hc : CEq x'.c s'.c)
    (hxa : ∀ w, activeOf x' w = activeOf x w) (hsa : ∀ w, activeOf s' w = activeOf s w)
    (ix' : FInv x') (is' : FInv s') (dn' : (discNames s'.c.disc).Nodup) : Rel P x' s' :=
  ⟨hm, hft, hc, fun w => by rw [hxa, hsa]; exact h.act w, ix', is', dn'⟩

theorem activeOf_upd (x : X) (m : MState) (c' : C) (ft : List Tok) (h : c'.active = x.c.active) (w : Nat) :
    activeOf { m := m, c := c', ft := ft, aw := x.aw } w = activeOf x w := by
  unfold activeOf; simp only [h]

/-- **`timeout`** -/
theorem complete_timeout {k notw : Nat} {mode : Mode} {tv : TV} {s s' : X} {ms : List Step} {cs : List Choice}
    (h : TRel P k tv s) (hs : fstep P s .timeout = some (s', ms, cs)) (i : Nat) :
    ∃ tv', replay P k mode tv i (entries P notw s .timeout s') = .ok tv' ∧ TRel P k tv' s' := by
  have hs0 := hs
  simp only [fstep] at hs
  split at hs
  · rename_i hto
    cases hm : Market.step s.m .timeoutFire with
    | none => rw [hm] at hs; cases hs
    | some m' =>
      rw [hm] at hs
      simp only [Option.map_some, Option.some.injEq, Prod.mk.injEq] at hs
      obtain ⟨rfl, -, -⟩ := hs
      obtain ⟨m'', hm', hmeq⟩ := step_meq h.rel.m.symm .timeoutFire rfl hm
      have hfx : fstep P tv.x .timeout =
          some ({ tv.x with m := m'', c := Checker.step P (.stop .timeout) tv.x.c }, [.timeoutFire], [.stop .timeout]) := by
        simp only [fstep, if_pos hto, hm', Option.map_some]
      obtain ⟨c1, c2, c3⟩ := stop_sync (P := P) h.rel.c .timeout
      have hrel : Rel P { tv.x with m := m'', c := Checker.step P (.stop .timeout) tv.x.c }
          { s with m := m', c := Checker.step P (.stop .timeout) s.c } :=
        rel_frame h.rel hmeq.symm h.rel.ft c1 (fun w => activeOf_upd tv.x _ _ _ c2 w)
          (fun w => activeOf_upd s _ _ _ c3 w)
          (finv_step h.rel.ix hfx) (finv_step h.rel.is hs0) (fstep_discNodup hs0 h.rel.dn)
      refine ⟨_, replay_one k mode tv _ i _ ?_, trel_of_rel h hs0 hrel⟩
      show oneTimeout P tv = _
      unfold oneTimeout
      simp [stepE_of hfx, bind, Except.bind, pure, Except.pure]
  · cases hs

theorem dropList_append {a b : List Choice} (ha : DropList a) (hb : DropList b) : DropList (a ++ b) := by
  intro c hc
  rcases List.mem_append.1 hc with h | h
  · exact ha c h
  · exact hb c h

/-- **`xdrop`** (the drop of a clone of the broker that is not a worker's) -/
theorem complete_xdrop {k notw : Nat} (hk : k ≤ notw) {mode : Mode} {tv : TV} {s s' : X} {ms : List Step}
    {cs : List Choice} (h : TRel P k tv s) (hs : fstep P s .xdrop = some (s', ms, cs)) (i : Nat) :
    ∃ tv', replay P k mode tv i (entries P notw s .xdrop s') = .ok tv' ∧ TRel P k tv' s' := by
  have hs0 := hs
  simp only [fstep] at hs
  cases hm : Market.step s.m .xdrop with
  | none => rw [hm] at hs; cases hs
  | some m' =>
    rw [hm] at hs
    simp only [Option.map_some, Option.some.injEq, Prod.mk.injEq] at hs
    obtain ⟨rfl, -, -⟩ := hs
    obtain ⟨m'', hm', hmeq⟩ := step_meq h.rel.m.symm .xdrop rfl hm
    have hfx : fstep P tv.x .xdrop = some
        ({ m := m'', c := runFrom P tv.x.c ((if s.m.isOpen = true then [Choice.stop .panic] else []) ++
              (dropToks s.m.batches.flatten s.ft).1),
           ft := (dropToks s.m.batches.flatten s.ft).2, aw := tv.x.aw }, [.xdrop],
         (if s.m.isOpen = true then [Choice.stop .panic] else []) ++ (dropToks s.m.batches.flatten s.ft).1) := by
      simp only [fstep, hm', Option.map_some, h.rel.m.isOpen, h.rel.m.batches, h.rel.ft]
    have hdl : DropList ((if s.m.isOpen = true then [Choice.stop .panic] else []) ++
        (dropToks s.m.batches.flatten s.ft).1) := by
      apply dropList_append
      · intro c hc
        split at hc
        · simp at hc; exact .inl ⟨_, hc⟩
        · cases hc
      · exact dropToks_dropList _ _
    obtain ⟨c1, c2, c3⟩ := dropList_sync (P := P) _ h.rel.c hdl
    have hrel : Rel P
        { m := m'', c := runFrom P tv.x.c ((if s.m.isOpen = true then [Choice.stop .panic] else []) ++
              (dropToks s.m.batches.flatten s.ft).1),
          ft := (dropToks s.m.batches.flatten s.ft).2, aw := tv.x.aw }
        { m := m', c := runFrom P s.c ((if s.m.isOpen = true then [Choice.stop .panic] else []) ++
              (dropToks s.m.batches.flatten s.ft).1),
          ft := (dropToks s.m.batches.flatten s.ft).2, aw := s.aw } :=
      rel_frame h.rel hmeq.symm rfl c1 (fun w => activeOf_upd tv.x _ _ _ c2 w)
        (fun w => activeOf_upd s _ _ _ c3 w) (finv_step h.rel.ix hfx) (finv_step h.rel.is hs0)
        (fstep_discNodup hs0 h.rel.dn)
    refine ⟨_, replay_one k mode tv _ i _ ?_, trel_of_rel h hs0 hrel⟩
    show oneDrop P k tv _ = _
    unfold oneDrop
    have : isWorker k notw = false := by simp [isWorker]; omega
    simp [this, stepE_of hfx, bind, Except.bind, pure, Except.pure]


theorem lookup_filter_ne (l : List (Nat × Nat)) (w v : Nat) (hv : v ≠ w) :
    (l.filter (fun e => e.1 != w)).lookup v = l.lookup v := by
  induction l with
  | nil => rfl
  | cons e es ih =>
    obtain ⟨a, b⟩ := e
    by_cases ha : a = w
    · subst ha
      have : (v == a) = false := by simpa using hv
      simp [List.lookup_cons, this, ih]
    · have h1 : (a != w) = true := by simpa using ha
      simp only [List.filter_cons, h1, if_true, List.lookup_cons, ih]

theorem lookup_cons_filter (l : List (Nat × Nat)) (w a v : Nat) :
    ((w, a) :: l.filter (fun e => e.1 != w)).lookup v = if v = w then some a else l.lookup v := by
  by_cases hv : v = w
  · subst hv; simp
  · have : (v == w) = false := by simpa using hv
    simp only [List.lookup_cons, this, if_neg hv]
    exact lookup_filter_ne l w v hv

theorem drop_exited {m m' : MState} {w : Nat} (h : Market.step m (.drop w) = some m') :
    m'.pcs[w]? = some .exited := by
  obtain ⟨hw, rfl⟩ := drop_eff h
  simp only
  rw [List.getElem?_set_self]
  simp only [notifyAll, List.length_map]
  exact (List.getElem?_eq_some_iff.1 hw).1

/-- **`exit`** (the `TR_DROP` entry; a `TR_STOP` entry with reason 3 = market shut down or 4 = `pop` returned nothing came
    before) -/
theorem complete_exit_core {k : Nat} {mode : Mode} {tv : TV} {s s' : X} {w : Nat} {ms : List Step} {cs : List Choice}
    (h : TRel P k tv s) (hs : fstep P s (.exit w) = some (s', ms, cs)) {a : Nat}
    (hr : tv.reason.lookup w = some a) (ha : a = 3 ∨ a = 4) (i : Nat) :
    ∃ x', replay P k mode tv i [⟨w, 10, 0, 0⟩] = .ok { tv with x := x' } ∧ Rel P x' s' := by
  have hs0 := hs
  simp only [fstep] at hs
  split at hs
  · rename_i hc
    cases hm : Market.step s.m (.drop w) with
    | none => rw [hm] at hs; cases hs
    | some m' =>
      rw [hm] at hs
      simp only [Option.map_some, Option.some.injEq, Prod.mk.injEq] at hs
      obtain ⟨rfl, -, -⟩ := hs
      obtain ⟨m'', hm', hmeq⟩ := step_meq h.rel.m.symm (.drop w) rfl hm
      have hwk : w < k := get_lt h.len (drop_eff hm).1
      have hxc : tv.x.m.isOpen = false ∧ w ∉ tv.x.aw := ⟨h.rel.m.isOpen.trans hc.1, rel_not_mem h.rel hc.2⟩
      have hfx : fstep P tv.x (.exit w) = some
          ({ m := m'', c := runFrom P tv.x.c (dropToks (s.m.batches.flatten ++ locOf s.m w) s.ft).1,
             ft := (dropToks (s.m.batches.flatten ++ locOf s.m w) s.ft).2, aw := tv.x.aw }, [.drop w],
           (dropToks (s.m.batches.flatten ++ locOf s.m w) s.ft).1) := by
        simp only [fstep, if_pos hxc, hm', Option.map_some, h.rel.m.batches, h.rel.ft, h.rel.m.locOf w]
      obtain ⟨c1, c2, c3⟩ := dropList_sync (P := P) _ h.rel.c
        (dropToks_dropList (s.m.batches.flatten ++ locOf s.m w) s.ft)
      have hrel : Rel P
          { m := m'', c := runFrom P tv.x.c (dropToks (s.m.batches.flatten ++ locOf s.m w) s.ft).1,
            ft := (dropToks (s.m.batches.flatten ++ locOf s.m w) s.ft).2, aw := tv.x.aw }
          { m := m', c := runFrom P s.c (dropToks (s.m.batches.flatten ++ locOf s.m w) s.ft).1,
            ft := (dropToks (s.m.batches.flatten ++ locOf s.m w) s.ft).2, aw := s.aw } :=
        rel_frame h.rel hmeq.symm rfl c1 (fun w => activeOf_upd tv.x _ _ _ c2 w)
          (fun w => activeOf_upd s _ _ _ c3 w) (finv_step h.rel.ix hfx) (finv_step h.rel.is hs0)
          (fstep_discNodup hs0 h.rel.dn)
      refine ⟨_, ?_, hrel⟩
      apply replay_one
      show oneDrop P k _ _ = _
      unfold oneDrop
      rcases ha with rfl | rfl <;>
        simp [isWorker, hwk, rel_advance_id h.rel, hr, stepE_of hfx, bind, Except.bind, pure, Except.pure]
  · cases hs

/-- **`exit`** with its `TR_STOP` entry right before the `TR_DROP` entry -/
theorem complete_exit {k notw : Nat} {mode : Mode} {tv : TV} {s s' : X} {w : Nat} {ms : List Step} {cs : List Choice}
    (h : TRel P k tv s) (hb : Book tv s) (hs : fstep P s (.exit w) = some (s', ms, cs)) (i : Nat) :
    ∃ tv', replay P k mode tv i (entries P notw s (.exit w) s') = .ok tv' ∧ TRel P k tv' s' ∧ Book tv' s' := by
  have h' : TRel P k { tv with reason := (w, 4) :: tv.reason.filter (fun e => e.1 != w) } s := ⟨h.rel, h.len⟩
  obtain ⟨x', hx', hrel⟩ := complete_exit_core (mode := mode) h' hs (a := 4)
    (by simp) (.inr rfl) (i + 1)
  have hex : s'.m.pcs[w]? = some .exited := by
    have := (fstep_proj hs).1
    simp only [fstep] at hs
    split at hs
    · cases hm : Market.step s.m (.drop w) with
      | none => rw [hm] at hs; cases hs
      | some m' =>
        rw [hm] at hs
        simp only [Option.map_some, Option.some.injEq, Prod.mk.injEq] at hs
        rw [← hs.1]; exact drop_exited hm
    · cases hs
  refine ⟨_, ?_, trel_of_rel h' hs hrel, ⟨hb.pieces, ?_⟩⟩
  · simp only [entries, replay]
    have h1 : one P k mode tv ⟨w, 24, 4, 0⟩ =
        .ok { tv with reason := (w, 4) :: tv.reason.filter (fun e => e.1 != w) } := rfl
    rw [h1]
    simp only [replay] at hx'
    exact hx'
  · intro v hv
    have hv' : (((w, 4) :: tv.reason.filter (fun e => e.1 != w)).lookup v).isSome = true := hv
    rw [lookup_cons_filter] at hv'
    by_cases e : v = w
    · subst e; exact hex
    · rw [if_neg e] at hv'; exact fstep_exited hs (hb.reason v hv')


/-! ### a worker leaves for a stop reason -/

theorem stop_view {y : X} (inv : FInv y) (w : Nat) (why : Why) (hen : stopEnabled P why y.c = true)
    (drops : List Choice) (hdl : DropList drops) :
    CEq (runFrom P y.c ((Choice.stop why :: (if w ∈ y.aw then [Choice.abandon (y.aw.idxOf w)] else [])) ++ drops))
        (runFrom P (stepStop P why y.c) drops) ∧
    (runFrom P y.c ((Choice.stop why :: (if w ∈ y.aw then [Choice.abandon (y.aw.idxOf w)] else [])) ++ drops)).active =
      (if w ∈ y.aw then y.c.active.eraseIdx (y.aw.idxOf w) else y.c.active) := by
  have hstop : stepStop P why y.c = { y.c with stopped := true } := by
    unfold stepStop; rw [if_pos hen]
  by_cases hw : w ∈ y.aw
  · simp only [if_pos hw]
    have hi : y.aw.idxOf w < y.c.active.length := inv.awlen ▸ List.idxOf_lt_length_of_mem hw
    have hrun : runFrom P y.c ((Choice.stop why :: [Choice.abandon (y.aw.idxOf w)]) ++ drops) =
        runFrom P (stepAbandon (y.aw.idxOf w) (stepStop P why y.c)) drops := by
      simp only [runFrom, List.cons_append, List.nil_append, List.foldl_cons, Checker.step]
    rw [hrun]
    have hab : stepAbandon (y.aw.idxOf w) (stepStop P why y.c) =
        { (stepStop P why y.c) with active := y.c.active.eraseIdx (y.aw.idxOf w), early := true } := by
      unfold stepAbandon
      rw [hstop]
      simp only [if_true, List.getElem?_eq_getElem hi]
    have hce : CEq (stepAbandon (y.aw.idxOf w) (stepStop P why y.c)) (stepStop P why y.c) := by
      rw [hab]; constructor <;> rfl
    obtain ⟨d1, d2, -⟩ := dropList_sync (P := P) drops hce hdl
    refine ⟨d1, d2.trans ?_⟩
    rw [hab]
  · simp only [if_neg hw]
    have hrun : runFrom P y.c ((Choice.stop why :: []) ++ drops) = runFrom P (stepStop P why y.c) drops := by
      simp only [runFrom, List.cons_append, List.nil_append, List.foldl_cons, Checker.step]
    rw [hrun]
    obtain ⟨-, d2, -⟩ := dropList_sync (P := P) drops (CEq.rfl' (stepStop P why y.c)) hdl
    refine ⟨CEq.rfl' _, d2.trans ?_⟩
    rw [hstop]

/-- worker `w` is erased from the association, whether it was working or not -/
theorem erase_view {y : X} (inv : FInv y) (w : Nat) (m : MState) (c' : C) (ft : List Tok)
    (hact : c'.active = if w ∈ y.aw then y.c.active.eraseIdx (y.aw.idxOf w) else y.c.active) :
    activeOf { m := m, c := c', ft := ft, aw := y.aw.erase w } w = none ∧
    ∀ v, v ≠ w → activeOf { m := m, c := c', ft := ft, aw := y.aw.erase w } v = activeOf y v := by
  by_cases hw : w ∈ y.aw
  · rw [if_pos hw] at hact
    rw [← eraseIdx_idxOf]
    refine ⟨?_, fun v hv => ?_⟩
    · show look _ _ _ = _
      simp only [hact]; exact look_eraseIdx_self inv.awnd _ _
    · show look _ _ _ = look _ _ _
      simp only [hact]; exact look_eraseIdx_ne _ _ _ _ hv
  · rw [if_neg hw] at hact
    rw [List.erase_of_not_mem hw]
    refine ⟨?_, fun v _ => ?_⟩
    · show look _ _ _ = _
      unfold look; rw [if_neg hw]
    · show look _ _ _ = look _ _ _
      simp only [hact]


/-- the `TR_STOP` reason the replay must remember for worker `w` when the `TR_DROP` entry of `stop w why` arrives -/
def reasonFor (why : Why) (r : Option Nat) : Prop :=
  match why with
  | .finish => r = some 1
  | .target => r = some 2
  | .panic => r = none ∨ r = some 5
  | .timeout => False

/-- **`stop`** (the `TR_DROP` entry): the worker leaves for `finish_when`, `target_state_count` or a panic in model code -/
theorem complete_stop_core {k : Nat} {mode : Mode} {tv : TV} {s s' : X} {w : Nat} {why : Why} {ms : List Step}
    {cs : List Choice} (h : TRel P k tv s) (hs : fstep P s (.stop w why) = some (s', ms, cs))
    (hr : reasonFor why (tv.reason.lookup w)) (i : Nat) :
    ∃ x', replay P k mode tv i [⟨w, 10, 0, 0⟩] = .ok { tv with x := x' } ∧ Rel P x' s' := by
  have hs0 := hs
  simp only [fstep] at hs
  split at hs
  · rename_i hen
    cases hm : Market.step s.m (.drop w) with
    | none => rw [hm] at hs; cases hs
    | some m' =>
      rw [hm] at hs
      simp only [Option.map_some, Option.some.injEq, Prod.mk.injEq] at hs
      obtain ⟨rfl, -, -⟩ := hs
      obtain ⟨m'', hm', hmeq⟩ := step_meq h.rel.m.symm (.drop w) rfl hm
      have hrun : s.m.pcs[w]? = some .running := (drop_eff hm).1
      have hwk : w < k := get_lt h.len hrun
      have henx : stopEnabled P why tv.x.c = true := (stopEnabled_ceq h.rel.c why).trans hen
      have hfx : fstep P tv.x (.stop w why) = some
          ({ m := m'',
             c := runFrom P tv.x.c ((Choice.stop why :: (if w ∈ tv.x.aw then [Choice.abandon (tv.x.aw.idxOf w)] else [])) ++
                (dropToks (s.m.batches.flatten ++ locOf s.m w) s.ft).1),
             ft := (dropToks (s.m.batches.flatten ++ locOf s.m w) s.ft).2, aw := tv.x.aw.erase w }, [.drop w],
           (Choice.stop why :: (if w ∈ tv.x.aw then [Choice.abandon (tv.x.aw.idxOf w)] else [])) ++
                (dropToks (s.m.batches.flatten ++ locOf s.m w) s.ft).1) := by
        simp only [fstep, if_pos henx, hm', Option.map_some, h.rel.m.batches, h.rel.ft, h.rel.m.locOf w]
      have hdl := dropToks_dropList (s.m.batches.flatten ++ locOf s.m w) s.ft
      obtain ⟨x1, x2⟩ := stop_view h.rel.ix w why henx _ hdl
      obtain ⟨s1, s2⟩ := stop_view h.rel.is w why hen _ hdl
      obtain ⟨e1, -, -⟩ := stop_sync (P := P) h.rel.c why
      obtain ⟨d1, -, -⟩ := dropList_sync (P := P) _ e1 hdl
      obtain ⟨vx1, vx2⟩ := erase_view h.rel.ix w m'' _ (dropToks (s.m.batches.flatten ++ locOf s.m w) s.ft).2 x2
      obtain ⟨vs1, vs2⟩ := erase_view h.rel.is w m' _ (dropToks (s.m.batches.flatten ++ locOf s.m w) s.ft).2 s2
      have hrel : Rel P
          { m := m'',
            c := runFrom P tv.x.c ((Choice.stop why :: (if w ∈ tv.x.aw then [Choice.abandon (tv.x.aw.idxOf w)] else [])) ++
                (dropToks (s.m.batches.flatten ++ locOf s.m w) s.ft).1),
            ft := (dropToks (s.m.batches.flatten ++ locOf s.m w) s.ft).2, aw := tv.x.aw.erase w }
          { m := m',
            c := runFrom P s.c ((Choice.stop why :: (if w ∈ s.aw then [Choice.abandon (s.aw.idxOf w)] else [])) ++
                (dropToks (s.m.batches.flatten ++ locOf s.m w) s.ft).1),
            ft := (dropToks (s.m.batches.flatten ++ locOf s.m w) s.ft).2, aw := s.aw.erase w } := by
        refine ⟨hmeq.symm, rfl, x1.trans (d1.trans s1.symm), fun v => ?_, finv_step h.rel.ix hfx,
          finv_step h.rel.is hs0, fstep_discNodup hs0 h.rel.dn⟩
        by_cases hv : v = w
        · subst hv; rw [vx1, vs1]; exact ⟨.refl _, nf_none⟩
        · rw [vx2 v hv, vs2 v hv]; exact h.rel.act v
      obtain ⟨x', cs', hfx, hrel⟩ : ∃ x' cs', fstep P tv.x (.stop w why) = some (x', [.drop w], cs') ∧ Rel P x' _ :=
        ⟨_, _, hfx, hrel⟩
      refine ⟨x', ?_, hrel⟩
      apply replay_one
      show oneDrop P k _ _ = _
      unfold oneDrop
      cases why with
      | timeout => exact hr.elim
      | panic =>
        rcases hr with hr | hr <;>
          simp [isWorker, hwk, rel_advance_id h.rel, hr, stepE_of hfx, bind, Except.bind, pure, Except.pure]
      | finish =>
        have hr : tv.reason.lookup w = some 1 := hr
        simp [isWorker, hwk, rel_advance_id h.rel, hr, stepE_of hfx, bind, Except.bind, pure, Except.pure]
      | target =>
        have hr : tv.reason.lookup w = some 2 := hr
        simp [isWorker, hwk, rel_advance_id h.rel, hr, stepE_of hfx, bind, Except.bind, pure, Except.pure]
  · cases hs

theorem stop_exited {s s' : X} {w : Nat} {why : Why} {ms : List Step} {cs : List Choice}
    (hs : fstep P s (.stop w why) = some (s', ms, cs)) :
    s.m.pcs[w]? = some .running ∧ s'.m.pcs[w]? = some .exited := by
  simp only [fstep] at hs
  split at hs
  · cases hm : Market.step s.m (.drop w) with
    | none => rw [hm] at hs; cases hs
    | some m' =>
      rw [hm] at hs
      simp only [Option.map_some, Option.some.injEq, Prod.mk.injEq] at hs
      rw [← hs.1]; exact ⟨(drop_eff hm).1, drop_exited hm⟩
  · cases hs

theorem book_reason_cons {tv : TV} {s s' : X} (hb : Book tv s) {f : FStep} {ms : List Step} {cs : List Choice}
    (hs : fstep P s f = some (s', ms, cs)) {w a : Nat} (hw : s'.m.pcs[w]? = some .exited) :
    ∀ v, (((w, a) :: tv.reason.filter (fun e => e.1 != w)).lookup v).isSome = true → s'.m.pcs[v]? = some .exited := by
  intro v hv
  rw [lookup_cons_filter] at hv
  by_cases e : v = w
  · subst e; exact hw
  · rw [if_neg e] at hv; exact fstep_exited hs (hb.reason v hv)

/-- **`stop`** with its `TR_STOP` entry (none for a panic) right before the `TR_DROP` entry -/
theorem complete_stop {k notw : Nat} {mode : Mode} {tv : TV} {s s' : X} {w : Nat} {why : Why} {ms : List Step}
    {cs : List Choice} (h : TRel P k tv s) (hb : Book tv s) (hs : fstep P s (.stop w why) = some (s', ms, cs))
    (hwhy : why ≠ .timeout) (i : Nat) :
    ∃ tv', replay P k mode tv i (entries P notw s (.stop w why) s') = .ok tv' ∧ TRel P k tv' s' ∧ Book tv' s' := by
  obtain ⟨hrun, hex⟩ := stop_exited hs
  cases why with
  | timeout => exact (hwhy rfl).elim
  | panic =>
    have hnone : tv.reason.lookup w = none := by
      cases hl : tv.reason.lookup w with
      | none => rfl
      | some a =>
        have := hb.reason w (by rw [hl]; rfl)
        rw [hrun] at this; cases this
    obtain ⟨x', hx', hrel⟩ := complete_stop_core (mode := mode) h hs (.inl hnone) i
    exact ⟨_, hx', trel_of_rel h hs hrel, ⟨hb.pieces, fun v hv => fstep_exited hs (hb.reason v hv)⟩⟩
  | finish =>
    have h' : TRel P k { tv with reason := (w, 1) :: tv.reason.filter (fun e => e.1 != w) } s := ⟨h.rel, h.len⟩
    obtain ⟨x', hx', hrel⟩ := complete_stop_core (mode := mode) (why := .finish) h' hs
      (by simp [reasonFor]) (i + 1)
    refine ⟨_, ?_, trel_of_rel h' hs hrel, ⟨hb.pieces, book_reason_cons hb hs hex⟩⟩
    simp only [entries, replay]
    have h1 : one P k mode tv ⟨w, 24, 1, 0⟩ =
        .ok { tv with reason := (w, 1) :: tv.reason.filter (fun e => e.1 != w) } := rfl
    rw [h1]
    simp only [replay] at hx'
    exact hx'
  | target =>
    have h' : TRel P k { tv with reason := (w, 2) :: tv.reason.filter (fun e => e.1 != w) } s := ⟨h.rel, h.len⟩
    obtain ⟨x', hx', hrel⟩ := complete_stop_core (mode := mode) (why := .target) h' hs
      (by simp [reasonFor]) (i + 1)
    refine ⟨_, ?_, trel_of_rel h' hs hrel, ⟨hb.pieces, book_reason_cons hb hs hex⟩⟩
    simp only [entries, replay]
    have h1 : one P k mode tv ⟨w, 24, 2, 0⟩ =
        .ok { tv with reason := (w, 2) :: tv.reason.filter (fun e => e.1 != w) } := rfl
    rw [h1]
    simp only [replay] at hx'
    exact hx'


/-! ### `split_and_push` -/

/-- the `TR_SPLIT_PIECE` entries: one per published batch -/
theorem replay_pieces (k : Nat) (mode : Mode) (w : Nat) : ∀ (l : List (List Tok)) (tv : TV) (i : Nat),
    replay P k mode tv i (l.map fun b => (⟨w, 8, b.length, 0⟩ : Ev)) =
      .ok { tv with pieces := tv.pieces ++ l.map List.length } := by
  intro l
  induction l with
  | nil => intro tv i; simp [replay]; rfl
  | cons b bs ih =>
    intro tv i
    simp only [List.map_cons, replay]
    have h1 : one P k mode tv ⟨w, 8, b.length, 0⟩ = .ok { tv with pieces := tv.pieces ++ [b.length] } := rfl
    rw [h1]
    simp only []
    rw [ih]
    simp

/-- the `TR_SPLIT` / `TR_SPLIT_CLOSED` entry that ends the critical section -/
def splitEntry (s : X) (w : Nat) (s' : X) : Ev :=
  if s.m.isOpen then ⟨w, 7, (locOf s.m w).length, (locOf s'.m w).length⟩ else ⟨w, 9, (locOf s.m w).length, 0⟩

/-- the sizes of the batches a `split` publishes, in the order of their `TR_SPLIT_PIECE` entries -/
def pieceSizes (s s' : X) : List Nat :=
  ((s'.m.batches.take (s'.m.batches.length - s.m.batches.length)).reverse.map List.length)

/-- **`split`** (the last entry of the critical section; in an open market the replay must have collected the sizes of the
    published batches from the `TR_SPLIT_PIECE` entries before it) -/
theorem complete_split_core {k : Nat} {mode : Mode} {tv : TV} {s s' : X} {w : Nat} {picks : List Nat}
    {ms : List Step} {cs : List Choice} (h : TRel P k tv s) (hs : fstep P s (.split w picks) = some (s', ms, cs))
    (hp : s.m.isOpen = true → tv.pieces = pieceSizes s s') (i : Nat) :
    ∃ x', replay P k mode tv i [splitEntry s w s'] =
        .ok { tv with x := x', pieces := if s.m.isOpen then [] else tv.pieces } ∧ Rel P x' s' := by
  have hs0 := hs
  simp only [fstep] at hs
  split at hs
  · rename_i hnaw
    cases hm : Market.step s.m (.split w picks) with
    | none => rw [hm] at hs; cases hs
    | some m' =>
      rw [hm] at hs
      simp only [Option.map_some, Option.some.injEq, Prod.mk.injEq] at hs
      obtain ⟨rfl, -, -⟩ := hs
      have hxaw : w ∉ tv.x.aw := rel_not_mem h.rel hnaw
      have hdl := dropToks_dropList (if s.m.isOpen = true then [] else locOf s.m w) s.ft
      obtain ⟨c1, c2, c3⟩ := dropList_sync (P := P) _ h.rel.c hdl
      -- the replay's market step
      have key : ∀ (picks' : List Nat) (m'' : MState), Market.step tv.x.m (.split w picks') = some m'' → MEq m' m'' →
          ∃ x', fstep P tv.x (.split w picks') = some (x', [.split w picks'],
              (dropToks (if s.m.isOpen = true then [] else locOf s.m w) s.ft).1) ∧ x'.m = m'' ∧
            Rel P x' { m := m', c := runFrom P s.c (dropToks (if s.m.isOpen = true then [] else locOf s.m w) s.ft).1,
                       ft := (dropToks (if s.m.isOpen = true then [] else locOf s.m w) s.ft).2, aw := s.aw } := by
        intro picks' m'' hm' hmeq
        have hfx : fstep P tv.x (.split w picks') = some
            ({ m := m'', c := runFrom P tv.x.c (dropToks (if s.m.isOpen = true then [] else locOf s.m w) s.ft).1,
               ft := (dropToks (if s.m.isOpen = true then [] else locOf s.m w) s.ft).2, aw := tv.x.aw },
             [.split w picks'], (dropToks (if s.m.isOpen = true then [] else locOf s.m w) s.ft).1) := by
          simp only [fstep, if_pos hxaw, hm', Option.map_some, h.rel.m.isOpen, h.rel.ft, h.rel.m.locOf w]
        exact ⟨_, hfx, rfl, rel_frame h.rel hmeq.symm rfl c1 (fun w => activeOf_upd tv.x _ _ _ c2 w)
          (fun w => activeOf_upd s _ _ _ c3 w) (finv_step h.rel.ix hfx) (finv_step h.rel.is hs0)
          (fstep_discNodup hs0 h.rel.dn)⟩
      rcases split_meq h.rel.m.symm hm with ⟨hcl, rfl, m'', hm', hmeq⟩ | ⟨hop, m'', hm', hmeq⟩
      · -- the market is closed: the deque is cleared
        obtain ⟨x', hfx, hxm, hrel⟩ := key [] m'' hm' hmeq
        refine ⟨x', ?_, hrel⟩
        simp only [splitEntry, hcl, Bool.false_eq_true, if_false]
        apply replay_one
        show oneSplitClosed P tv _ = _
        unfold oneSplitClosed
        have ho : tv.x.m.isOpen = false := h.rel.m.isOpen.trans hcl
        simp [rel_advance_id h.rel, ho, h.rel.m.locOf w, stepE_of hfx, bind, Except.bind, pure, Except.pure]
      · obtain ⟨x', hfx, hxm, hrel⟩ := key _ m'' hm' hmeq
        refine ⟨x', ?_, hrel⟩
        have hp' := hp hop
        simp only [pieceSizes] at hp'
        simp only [splitEntry, hop, if_true]
        apply replay_one
        show oneSplit P _ _ = _
        unfold oneSplit
        have hb : tv.x.m.batches = s.m.batches := h.rel.m.batches
        have hb' : x'.m.batches = m'.batches := by rw [hxm]; exact hmeq.batches.symm
        have hl' : locOf x'.m w = locOf m' w := by rw [hxm]; exact (hmeq.locOf w).symm
        have hpk : (List.range tv.x.m.pcs.length).filter (fun v => tv.x.m.pcs[v]? == some (Pc.parked false)) =
            parkedOf tv.x.m := rfl
        have hlen : ((m'.batches.take (m'.batches.length - s.m.batches.length)).map List.length).reverse.length =
            m'.batches.length - s.m.batches.length := by
          simp
        simp only [rel_advance_id h.rel, bind, Except.bind, h.rel.m.locOf w, bne_self_eq_false, Bool.false_eq_true,
          if_false, hpk, hp', List.map_reverse, hlen, stepE_of hfx, hl', hb, hb',
          List.reverse_reverse, pure, Except.pure]
  · cases hs

/-- **`split`** with the `TR_SPLIT_PIECE` entries of the critical section right before its `TR_SPLIT` entry -/
theorem complete_split {k notw : Nat} {mode : Mode} {tv : TV} {s s' : X} {w : Nat} {picks : List Nat}
    {ms : List Step} {cs : List Choice} (h : TRel P k tv s) (hb : Book tv s)
    (hs : fstep P s (.split w picks) = some (s', ms, cs)) (i : Nat) :
    ∃ tv', replay P k mode tv i (entries P notw s (.split w picks) s') = .ok tv' ∧ TRel P k tv' s' ∧ Book tv' s' := by
  by_cases hop : s.m.isOpen = true
  · have h' : TRel P k { tv with pieces := tv.pieces ++
        (s'.m.batches.take (s'.m.batches.length - s.m.batches.length)).reverse.map List.length } s := ⟨h.rel, h.len⟩
    obtain ⟨x', hx', hrel⟩ := complete_split_core (mode := mode) h' hs
      (by intro _; simp only [hb.pieces, List.nil_append, pieceSizes])
      (i + ((s'.m.batches.take (s'.m.batches.length - s.m.batches.length)).reverse.map
        fun b => (⟨w, 8, b.length, 0⟩ : Ev)).length)
    refine ⟨{ tv with x := x', pieces := [] }, ?_, ⟨hrel, (fstep_pcs_length hs).trans h.len⟩,
      ⟨rfl, fun v hv => fstep_exited hs (hb.reason v hv)⟩⟩
    simp only [entries, hop, if_true]
    rw [replay_append, replay_pieces]
    simp only [splitEntry, hop, if_true] at hx'
    exact hx'
  · obtain ⟨x', hx', hrel⟩ := complete_split_core (mode := mode) h hs (fun ho => (hop ho).elim) i
    refine ⟨{ tv with x := x' }, ?_, trel_of_rel h hs hrel, ⟨hb.pieces, fun v hv => fstep_exited hs (hb.reason v hv)⟩⟩
    simp only [entries, hop]
    simp only [splitEntry, hop] at hx'
    exact hx'

end SR.ReplayComplete.Full

namespace SR.ReplayComplete.Full
open SR SR.Checker SR.Market SR.Full SR.Drv.Full

variable {P : Params Nat Nat Nat}

/-! ### `take` -/

theorem jobOfTok_some {s : X} (inv : FInv s) {w p : Nat} {t : Tok} (ht : (locOf s.m w)[p]? = some t) :
    ∃ j, jobOfTok s t = some j := by
  have hmem : t ∈ locOf s.m w := List.mem_of_getElem? ht
  have h1 : 0 < (locOf s.m w).count t := List.count_pos_iff.2 hmem
  have h2 := loc_count_le_tokens s.m w t
  have h3 : 0 < s.ft.count t := by rw [inv.cnt]; omega
  have h4 : t ∈ s.ft := List.count_pos_iff.1 h3
  have h5 : s.ft.idxOf t < s.c.frontier.length := inv.len ▸ List.idxOf_lt_length_of_mem h4
  exact ⟨_, by unfold jobOfTok; exact List.getElem?_eq_getElem h5⟩

theorem findPos_last {x : X} {w p : Nat} {t : Tok} {j : Job Nat} (ht : (locOf x.m w)[p]? = some t)
    (hp : p + 1 = (locOf x.m w).length) (hj : jobOfTok x t = some j) : findPos x w j.st j.depth = some p := by
  unfold findPos
  simp only [← hp, List.range_succ, List.reverse_append, List.reverse_cons, List.reverse_nil, List.nil_append,
    List.singleton_append, List.find?_cons]
  simp [ht, hj]

/-- the product state after `take` -/
def xTake (y : X) (w : Nat) (m : MState) (c' : C) (ft : List Tok) : X :=
  { m := m, c := c', ft := ft, aw := if c'.active.length = y.c.active.length + 1 then y.aw ++ [w] else y.aw }

theorem xTake_view {y : X} (inv : FInv y) {w : Nat} (hw : w ∉ y.aw) (m : MState) (c' : C) (ft : List Tok)
    (r : Option A) (hact : c'.active = match r with | some act => y.c.active ++ [act] | none => y.c.active) :
    activeOf (xTake y w m c' ft) w = r ∧ ∀ v, v ≠ w → activeOf (xTake y w m c' ft) v = activeOf y v := by
  cases r with
  | some act =>
    simp only at hact
    have l1 : c'.active.length = y.c.active.length + 1 := by rw [hact]; simp
    have haw : (xTake y w m c' ft).aw = y.aw ++ [w] := by simp only [xTake, l1, if_true]
    have hc : (xTake y w m c' ft).c.active = y.c.active ++ [act] := hact
    constructor
    · show look (xTake y w m c' ft).aw (xTake y w m c' ft).c.active w = _
      rw [haw, hc]
      exact look_append_self inv.awlen hw _
    · intro v hv
      show look (xTake y w m c' ft).aw (xTake y w m c' ft).c.active v = look _ _ _
      rw [haw, hc]
      exact look_append_ne inv.awlen hv _
  | none =>
    simp only at hact
    have l1 : ¬ c'.active.length = y.c.active.length + 1 := by rw [hact]; omega
    have haw : (xTake y w m c' ft).aw = y.aw := by simp only [xTake, l1, if_false]
    have hc : (xTake y w m c' ft).c.active = y.c.active := hact
    constructor
    · show look (xTake y w m c' ft).aw (xTake y w m c' ft).c.active w = _
      rw [haw, hc]
      unfold look; rw [if_neg hw]
    · intro v _
      show look (xTake y w m c' ft).aw (xTake y w m c' ft).c.active v = look _ _ _
      rw [haw, hc]

/-- **`take`** (bfs.rs / dfs.rs: `pop_back`) -/
theorem complete_take {k notw : Nat} {mode : Mode} (hmode : mode ≠ .ondemand) {tv : TV} {s s' : X} {w p : Nat}
    {ms : List Step} {cs : List Choice} (h : TRel P k tv s) (hs : fstep P s (.take w p) = some (s', ms, cs))
    (hp : p + 1 = (locOf s.m w).length) (i : Nat) :
    ∃ tv', replay P k mode tv i (entries P notw s (.take w p) s') = .ok tv' ∧ TRel P k tv' s' := by
  have hs0 := hs
  simp only [fstep] at hs
  cases ht : (locOf s.m w)[p]? with
  | none => rw [ht] at hs; cases hs
  | some t =>
    rw [ht] at hs
    simp only [] at hs
    split at hs
    · cases hs
    · rename_i hnaw
      cases hm : mseq s.m [Step.rearrange w ((locOf s.m w).eraseIdx p ++ [t]), Step.work w 1 []] with
      | none => rw [hm] at hs; cases hs
      | some m' =>
        rw [hm] at hs
        simp only [Option.map_some, Option.some.injEq, Prod.mk.injEq] at hs
        obtain ⟨rfl, -, -⟩ := hs
        obtain ⟨m'', hm', hmeq⟩ := mseq_meq _ h.rel.m.symm (by intro m hm; simp at hm; rcases hm with rfl | rfl <;> rfl) hm
        have hxaw : w ∉ tv.x.aw := rel_not_mem h.rel hnaw
        have hloc : locOf tv.x.m w = locOf s.m w := h.rel.m.locOf w
        obtain ⟨j, hj⟩ := jobOfTok_some h.rel.is ht
        have hjx : jobOfTok tv.x t = some j := by
          unfold jobOfTok at hj ⊢; rw [h.rel.ft, h.rel.c.fr]; exact hj
        have hfx : fstep P tv.x (.take w p) = some
            ({ m := m'', c := Checker.step P (.take (s.ft.idxOf t)) tv.x.c, ft := s.ft.erase t,
               aw := if (Checker.step P (.take (s.ft.idxOf t)) tv.x.c).active.length = tv.x.c.active.length + 1
                 then tv.x.aw ++ [w] else tv.x.aw },
             [Step.rearrange w ((locOf s.m w).eraseIdx p ++ [t]), Step.work w 1 []], [.take (s.ft.idxOf t)]) := by
          simp only [fstep, hloc, ht, if_neg hxaw, hm', Option.map_some, h.rel.ft]
        obtain ⟨c1, c2⟩ := take_sync (P := P) h.rel.c (s.ft.idxOf t)
        have hfx' : fstep P tv.x (.take w p) = some
            (xTake tv.x w m'' (Checker.step P (.take (s.ft.idxOf t)) tv.x.c) (s.ft.erase t),
             [Step.rearrange w ((locOf s.m w).eraseIdx p ++ [t]), Step.work w 1 []], [.take (s.ft.idxOf t)]) := hfx
        have hs0' : fstep P s (.take w p) = some
            (xTake s w m' (Checker.step P (.take (s.ft.idxOf t)) s.c) (s.ft.erase t), ms, cs) := hs0
        have hrelW : RelW P w (xTake tv.x w m'' (Checker.step P (.take (s.ft.idxOf t)) tv.x.c) (s.ft.erase t))
            (xTake s w m' (Checker.step P (.take (s.ft.idxOf t)) s.c) (s.ft.erase t)) := by
          have hr : ∃ r : Option A,
              ((Checker.step P (.take (s.ft.idxOf t)) tv.x.c).active =
                match r with | some act => tv.x.c.active ++ [act] | none => tv.x.c.active) ∧
              ((Checker.step P (.take (s.ft.idxOf t)) s.c).active =
                match r with | some act => s.c.active ++ [act] | none => s.c.active) := by
            rcases c2 with ⟨act, a1, a2⟩ | ⟨a1, a2⟩
            · exact ⟨some act, a1, a2⟩
            · exact ⟨none, a1, a2⟩
          obtain ⟨r, r1, r2⟩ := hr
          obtain ⟨vx1, vx2⟩ := xTake_view h.rel.ix hxaw m'' _ (s.ft.erase t) r r1
          obtain ⟨vs1, vs2⟩ := xTake_view h.rel.is hnaw m' _ (s.ft.erase t) r r2
          refine ⟨hmeq.symm, rfl, c1, by rw [vx1, vs1], fun v hv => ?_, finv_step h.rel.ix hfx', finv_step h.rel.is hs0',
            fstep_discNodup hs0' h.rel.dn⟩
          rw [vx2 v hv, vs2 v hv]; exact h.rel.act v
        obtain ⟨x1, cs1, hfx, hrelW⟩ : ∃ x1 cs1, fstep P tv.x (.take w p) = some
            (x1, [Step.rearrange w ((locOf s.m w).eraseIdx p ++ [t]), Step.work w 1 []], cs1) ∧ RelW P w x1 _ :=
          ⟨_, _, hfx, hrelW⟩
        obtain ⟨x2, hadv, hrel⟩ := relW_advance hrelW
        refine ⟨{ tv with x := x2 }, ?_, trel_of_rel h hs0 hrel⟩
        simp only [entries, ht, hj]
        apply replay_one
        have hone : one P k mode tv ⟨w, 20, j.st, j.depth⟩ = oneTake P tv ⟨w, 20, j.st, j.depth⟩ := by
          cases mode with
          | ondemand => exact (hmode rfl).elim
          | bfs => rfl
          | dfs => rfl
        rw [hone]
        unfold oneTake
        have hfp : findPos tv.x w j.st j.depth = some p := findPos_last (hloc ▸ ht) (hloc ▸ hp) hjx
        simp [rel_advance_id h.rel, hxaw, hfp, hloc, ← hp, stepE_of hfx, hadv, bind, Except.bind, pure, Except.pure]

end SR.ReplayComplete.Full

namespace SR.ReplayComplete.Full
open SR SR.Checker SR.Market SR.Full SR.Drv.Full

variable {P : Params Nat Nat Nat}

/-! ### steps on the worker's current job -/

theorem xJob_self (s : X) (w : Nat) : xJob s w s.c = s := by
  unfold xJob
  simp only [Nat.lt_irrefl, if_false]

/-- a logged step of `check_block` on the current job of `w`, on both sides -/
theorem onJob_real {x s : X} (h : Rel P x s) {w : Nat} {act : A} (hsw : activeOf s w = some act)
    (hn : silA P act = none) (f : FStep) (mk : Nat → Choice) (hf : ∀ y : X, fstep P y f = onJob P y w mk)
    (hsync : ∀ {a b : C} {i j : Nat}, CEq a b → a.active[i]? = some act → b.active[j]? = some act →
      JobSync a b i j (Checker.step P (mk i) a) (Checker.step P (mk j) b)) :
    fstep P x f = some (xJob x w (Checker.step P (mk (x.aw.idxOf w)) x.c), [], [mk (x.aw.idxOf w)]) ∧
    fstep P s f = some (xJob s w (Checker.step P (mk (s.aw.idxOf w)) s.c), [], [mk (s.aw.idxOf w)]) ∧
    RelW P w (xJob x w (Checker.step P (mk (x.aw.idxOf w)) x.c)) (xJob s w (Checker.step P (mk (s.aw.idxOf w)) s.c)) := by
  have hxw := rel_same h hsw hn
  obtain ⟨hxm, hxi⟩ := activeOf_some hxw
  obtain ⟨hsm, hsi⟩ := activeOf_some hsw
  have hfx : fstep P x f = some (xJob x w (Checker.step P (mk (x.aw.idxOf w)) x.c), [], [mk (x.aw.idxOf w)]) := by
    rw [hf, onJob_eq, if_pos hxm]
  have hfs : fstep P s f = some (xJob s w (Checker.step P (mk (s.aw.idxOf w)) s.c), [], [mk (s.aw.idxOf w)]) := by
    rw [hf, onJob_eq, if_pos hsm]
  refine ⟨hfx, hfs, ?_⟩
  obtain ⟨hce, hact⟩ := hsync h.c hxi hsi
  have hr : ∃ r : Option A,
      (Checker.step P (mk (x.aw.idxOf w)) x.c).active = actAfter x.c.active (x.aw.idxOf w) r ∧
      (Checker.step P (mk (s.aw.idxOf w)) s.c).active = actAfter s.c.active (s.aw.idxOf w) r := by
    rcases hact with ⟨act', a1, a2⟩ | ⟨a1, a2⟩
    · exact ⟨some act', a1, a2⟩
    · exact ⟨none, a1, a2⟩
  obtain ⟨r, r1, r2⟩ := hr
  obtain ⟨vx1, vx2⟩ := xJob_view h.ix hxm r r1
  obtain ⟨vs1, vs2⟩ := xJob_view h.is hsm r r2
  refine ⟨h.m, h.ft, hce, by rw [vx1, vs1], fun v hv => ?_, finv_step h.ix hfx, finv_step h.is hfs,
    fstep_discNodup hfs h.dn⟩
  rw [vx2 v hv, vs2 v hv]; exact h.act v

/-- a step of the product on the current job that does nothing -/
theorem onJob_stutter {s s' : X} {w : Nat} {mk : Nat → Choice} {ms : List Step} {cs : List Choice}
    (hs : onJob P s w mk = some (s', ms, cs)) (hid : Checker.step P (mk (s.aw.idxOf w)) s.c = s.c) : s' = s := by
  rw [onJob_eq] at hs
  split at hs
  · simp only [Option.some.injEq, Prod.mk.injEq] at hs
    rw [← hs.1, hid, xJob_self]
  · cases hs

theorem onJob_mem {s s' : X} {w : Nat} {mk : Nat → Choice} {ms : List Step} {cs : List Choice}
    (hs : onJob P s w mk = some (s', ms, cs)) : w ∈ s.aw := by
  rw [onJob_eq] at hs
  split at hs
  · assumption
  · cases hs

/-- the machine takes a step without log entry -/
theorem complete_sil {k : Nat} {tv : TV} {s s' : X} {w : Nat} {act : A} {r : Option A} {f : FStep} {ms : List Step}
    {cs : List Choice} (h : TRel P k tv s) (hs : fstep P s f = some (s', ms, cs)) (hsw : activeOf s w = some act)
    (hsil : silA P act = some r) (hf : IsSilF act w f) : TRel P k tv s' := by
  obtain ⟨s'', cs', hfs, hm, hft, hc, hw, ho⟩ := fstep_sil h.rel.is hsw hsil hf
  rw [hfs] at hs
  simp only [Option.some.injEq, Prod.mk.injEq] at hs
  obtain ⟨rfl, -, -⟩ := hs
  have hrel := rel_sil h.rel hsw hsil (finv_step h.rel.is hfs) hm hft hc hw ho
  exact ⟨hrel, by rw [hm]; exact h.len⟩

/-- **`finishProps`**: no entry -/
theorem complete_finishProps {k notw : Nat} {mode : Mode} {tv : TV} {s s' : X} {w : Nat} {ms : List Step}
    {cs : List Choice} (h : TRel P k tv s) (hs : fstep P s (.finishProps w) = some (s', ms, cs)) (i : Nat) :
    ∃ tv', replay P k mode tv i (entries P notw s (.finishProps w) s') = .ok tv' ∧ TRel P k tv' s' := by
  refine ⟨tv, rfl, ?_⟩
  have hmem := onJob_mem (show onJob P s w (fun i => .finishProps i) = _ from hs)
  obtain ⟨act, hsw⟩ := activeOf_of_mem h.rel.is hmem
  obtain ⟨-, hidx⟩ := activeOf_some hsw
  cases hsil : silA P act with
  | some r =>
    obtain ⟨jb, ph⟩ := act
    cases ph with
    | props n aw => exact complete_sil h hs hsw hsil rfl
    | expanding rest =>
      have : s' = s := onJob_stutter (show onJob P s w (fun i => .finishProps i) = _ from hs)
        (finishProps_stutter hidx (fun n aw hp => by cases hp))
      rw [this]; exact h
    | recording n =>
      have : s' = s := onJob_stutter (show onJob P s w (fun i => .finishProps i) = _ from hs)
        (finishProps_stutter hidx (fun n aw hp => by cases hp))
      rw [this]; exact h
  | none =>
    have : s' = s := by
      apply onJob_stutter (show onJob P s w (fun i => .finishProps i) = _ from hs)
      apply finishProps_stutter hidx
      intro n aw hp
      obtain ⟨jb, ph⟩ := act
      simp only at hp
      subst hp
      simp only [silA] at hsil
      split at hsil
      · assumption
      · cases hsil
    rw [this]; exact h


/-- **`record`**: an iteration of the terminal-state loop; an entry iff the bit is set -/
theorem complete_record {k notw : Nat} {mode : Mode} {tv : TV} {s s' : X} {w : Nat} {ms : List Step}
    {cs : List Choice} (h : TRel P k tv s) (hs : fstep P s (.record w) = some (s', ms, cs)) (i : Nat) :
    ∃ tv', replay P k mode tv i (entries P notw s (.record w) s') = .ok tv' ∧ TRel P k tv' s' := by
  have hmem := onJob_mem (show onJob P s w (fun i => .record i) = _ from hs)
  obtain ⟨act, hsw⟩ := activeOf_of_mem h.rel.is hmem
  obtain ⟨-, hidx⟩ := activeOf_some hsw
  obtain ⟨jb, ph⟩ := act
  cases ph with
  | recording n =>
    by_cases hb : n < P.props.length ∧ n ∈ jb.ebits
    · have hn : silA P { job := jb, phase := .recording n } = none := by simp only [silA, hb, and_self, if_true]
      obtain ⟨hfx, hfs, hrelW⟩ := onJob_real h.rel hsw hn (.record w) (fun i => .record i) (fun _ => rfl)
        (fun hce ha hb => record_sync hce ha hb)
      rw [hfs] at hs
      simp only [Option.some.injEq, Prod.mk.injEq] at hs
      obtain ⟨rfl, -, -⟩ := hs
      obtain ⟨x2, hadv, hrel⟩ := relW_advance hrelW
      refine ⟨{ tv with x := x2 }, ?_, trel_of_rel h hfs hrel⟩
      simp only [entries, hsw, hb, and_self, if_true]
      apply replay_one
      show oneRecord P tv _ = _
      unfold oneRecord
      have hxw := rel_same h.rel hsw hn
      simp [hxw, stepE_of hfx, hadv, bind, Except.bind, pure, Except.pure]
    · have hsil : ∃ r, silA P { job := jb, phase := .recording n } = some r := by
        simp only [silA, hb, if_false]; exact ⟨_, rfl⟩
      obtain ⟨r, hsil⟩ := hsil
      refine ⟨tv, ?_, complete_sil h hs hsw hsil rfl⟩
      simp only [entries, hsw, hb, if_false]
      rfl
  | props n aw =>
    have : s' = s := onJob_stutter (show onJob P s w (fun i => .record i) = _ from hs)
      (record_stutter hidx (fun n hp => by cases hp))
    refine ⟨tv, ?_, this ▸ h⟩
    simp only [entries, hsw]
    rfl
  | expanding rest =>
    have : s' = s := onJob_stutter (show onJob P s w (fun i => .record i) = _ from hs)
      (record_stutter hidx (fun n hp => by cases hp))
    refine ⟨tv, ?_, this ▸ h⟩
    simp only [entries, hsw]
    rfl


/-! ### one iteration of the property loop -/

theorem evalProp_disc {a : C} {i n : Nat} {aw : Bool} {jb : Job Nat}
    (ha : a.active[i]? = some { job := jb, phase := .props n aw }) (hn : n < P.props.length) (st : Bool) :
    (stepEvalProp P i st a).disc =
      if (hasDisc a.disc n && !st) = true then a.disc
      else if inserts P n jb = true then discInsert a.disc n jb.path else a.disc := by
  unfold stepEvalProp inserts
  rw [ha]
  simp only [List.getElem?_eq_getElem hn]
  split
  · rfl
  · cases hexp : (P.props[n]).exp with
    | always => simp only []; split <;> simp_all
    | sometimes => simp only []; split <;> simp_all
    | eventually => simp

theorem discInsert_length {d : List (Nat × List Nat)} (h : (discNames d).Nodup) (n : Nat) (p : List Nat) :
    d.length ≤ (discInsert d n p).length := by
  unfold discInsert
  simp only [List.length_cons]
  induction d with
  | nil => simp
  | cons e es ih =>
    simp only [discNames, List.map_cons, List.nodup_cons] at h
    by_cases he : e.1 = n
    · have hf : es.filter (fun e => e.1 != n) = es := by
        apply List.filter_eq_self.2
        intro e' he'
        have : e'.1 ≠ n := by
          intro hc
          apply h.1
          rw [he, ← hc]
          exact List.mem_map_of_mem he'
        simpa using this
      have : (e.1 != n) = false := by simpa using he
      simp only [List.filter_cons, this, Bool.false_eq_true, if_false, hf, List.length_cons]
      omega
    · have : (e.1 != n) = true := by simpa using he
      simp only [List.filter_cons, this, if_true, List.length_cons]
      have := ih h.2
      omega


/-- **`evalProp`**: one iteration of the property loop -/
theorem complete_evalProp {k notw : Nat} {mode : Mode} {tv : TV} {s s' : X} {w : Nat} {stale : Bool} {ms : List Step}
    {cs : List Choice} (h : TRel P k tv s) (hs : fstep P s (.evalProp w stale) = some (s', ms, cs)) (i : Nat) :
    ∃ tv', replay P k mode tv i (entries P notw s (.evalProp w stale) s') = .ok tv' ∧ TRel P k tv' s' := by
  have hmem := onJob_mem (show onJob P s w (fun i => .evalProp i stale) = _ from hs)
  obtain ⟨act, hsw⟩ := activeOf_of_mem h.rel.is hmem
  obtain ⟨-, hidx⟩ := activeOf_some hsw
  obtain ⟨jb, ph⟩ := act
  cases ph with
  | props n aw =>
    by_cases hlt : n < P.props.length
    · have hn : silA P { job := jb, phase := .props n aw } = none := by simp only [silA, hlt, if_true]
      -- the `stale` the replay uses
      have hstale : ∃ st' : Bool,
          st' = ((if (hasDisc s.c.disc n && !stale) = true then 0 else if inserts P n jb = true then 1 else 2) != 0 &&
            hasDisc tv.x.c.disc n) ∧
          stepEvalProp P (s.aw.idxOf w) stale s.c = stepEvalProp P (s.aw.idxOf w) st' s.c := by
        refine ⟨_, rfl, ?_⟩
        rw [h.rel.c.disc]
        cases hk : hasDisc s.c.disc n with
        | false => simp only [Bool.false_and, Bool.and_false]; exact evalProp_stale hidx hk stale
        | true =>
          cases stale with
          | false => simp
          | true => cases inserts P n jb <;> simp
      obtain ⟨st', hst', hstep⟩ := hstale
      obtain ⟨hfx, hfs, hrelW⟩ := onJob_real h.rel hsw hn (.evalProp w st') (fun i => .evalProp i st') (fun _ => rfl)
        (fun hce ha hb => evalProp_sync hce ha hb st')
      have hs' : s' = xJob s w (Checker.step P (.evalProp (s.aw.idxOf w) st') s.c) := by
        have := (show onJob P s w (fun i => .evalProp i stale) = _ from hs)
        rw [onJob_eq, if_pos hmem] at this
        simp only [Option.some.injEq, Prod.mk.injEq] at this
        rw [← this.1]
        show xJob s w (stepEvalProp P _ stale s.c) = xJob s w (stepEvalProp P _ st' s.c)
        rw [hstep]
      subst hs'
      obtain ⟨x2, hadv, hrel⟩ := relW_advance hrelW
      refine ⟨{ tv with x := x2 }, ?_, trel_of_rel h hfs hrel⟩
      simp only [entries, hsw, hlt, if_true]
      apply replay_one
      show oneProp P tv _ = _
      unfold oneProp
      have hxw := rel_same h.rel hsw hn
      obtain ⟨-, hxi⟩ := activeOf_some hxw
      have hdisc := evalProp_disc (P := P) hxi hlt st'
      have hdn : (discNames tv.x.c.disc).Nodup := h.rel.c.disc ▸ h.rel.dn
      have hlen := discInsert_length hdn n jb.path
      have hxd : (xJob tv.x w (Checker.step P (.evalProp (tv.x.aw.idxOf w) st') tv.x.c)).c.disc =
          (stepEvalProp P (tv.x.aw.idxOf w) st' tv.x.c).disc := rfl
      rw [← h.rel.c.disc] at hst' ⊢
      simp only [hxw, bne_self_eq_false, Bool.false_eq_true, if_false, bind, Except.bind, ← hst', stepE_of hfx, hxd,
        hdisc]
      subst hst'
      cases hk : hasDisc tv.x.c.disc n <;> cases stale <;> cases hi : inserts P n jb <;>
        simp [hk, hi, pure, Except.pure, discInsert] at hlen hadv ⊢ <;>
        (try rw [if_neg (by omega)]) <;> simp [hadv]
    · have : s' = s := onJob_stutter (show onJob P s w (fun i => .evalProp i stale) = _ from hs)
        (evalProp_stutter hidx (fun n' aw' hp => by cases hp; exact hlt) stale)
      refine ⟨tv, ?_, this ▸ h⟩
      simp only [entries, hsw, hlt, if_false]
      rfl
  | expanding rest =>
    have : s' = s := onJob_stutter (show onJob P s w (fun i => .evalProp i stale) = _ from hs)
      (evalProp_stutter hidx (fun n aw hp => by cases hp) stale)
    refine ⟨tv, ?_, this ▸ h⟩
    simp only [entries, hsw]
    rfl
  | recording n =>
    have : s' = s := onJob_stutter (show onJob P s w (fun i => .evalProp i stale) = _ from hs)
      (evalProp_stutter hidx (fun n aw hp => by cases hp) stale)
    refine ⟨tv, ?_, this ▸ h⟩
    simp only [entries, hsw]
    rfl

end SR.ReplayComplete.Full

namespace SR.ReplayComplete.Full
open SR SR.Checker SR.Market SR.Full SR.Drv.Full

variable {P : Params Nat Nat Nat}

/-! ### `expand`: one successor -/

/-- **`expand`** -/
theorem complete_expand {k notw : Nat} {mode : Mode} {dfs : Bool} (hmode : (mode == .dfs) = dfs) {tv : TV} {s s' : X}
    {w : Nat} {front back : Bool} {tok : Tok} {ms : List Step} {cs : List Choice} (h : TRel P k tv s)
    (hs : fstep P s (.expand w front tok back) = some (s', ms, cs))
    (hd : disc dfs s (.expand w front tok back) = true) (i : Nat) :
    ∃ tv', replay P k mode tv i (entries P notw s (.expand w front tok back) s') = .ok tv' ∧ TRel P k tv' s' := by
  have hs0 := hs
  simp only [fstep] at hs
  split at hs
  · rename_i hmem
    obtain ⟨act, hsw⟩ := activeOf_of_mem h.rel.is hmem
    obtain ⟨-, hidx⟩ := activeOf_some hsw
    obtain ⟨jb, ph⟩ := act
    have hstutter : (∀ r, Phase.expanding r ≠ ph) → ∃ tv', replay P k mode tv i
        (entries P notw s (.expand w front tok back) s') = .ok tv' ∧ TRel P k tv' s' := by
      intro hph
      have hid : Checker.step P (.expand (s.aw.idxOf w) front) s.c = s.c :=
        expand_stutter hidx (fun r hr => hph r hr.symm) front
      rw [hid] at hs
      simp only [Nat.lt_irrefl, if_false] at hs
      rw [if_neg (by omega)] at hs
      simp only [Option.some.injEq, Prod.mk.injEq] at hs
      refine ⟨tv, ?_, hs.1 ▸ h⟩
      simp only [entries, hsw]
      cases ph with
      | expanding r => exact (hph r rfl).elim
      | props n aw => rfl
      | recording n => rfl
    cases ph with
    | props n aw => exact hstutter (fun r hr => by cases hr)
    | recording n => exact hstutter (fun r hr => by cases hr)
    | expanding rest =>
      cases rest with
      | nil =>
        refine ⟨tv, ?_, complete_sil h hs0 hsw (r := none) rfl ⟨front, tok, back, rfl⟩⟩
        simp only [entries, hsw]
        rfl
      | cons t rest =>
        have hn : silA P { job := jb, phase := .expanding (t :: rest) } = none := rfl
        have hxw := rel_same h.rel hsw hn
        obtain ⟨hxm, hxi⟩ := activeOf_some hxw
        simp only [disc, hsw, Bool.and_eq_true, beq_iff_eq] at hd
        obtain ⟨⟨hfront, htok⟩, hback⟩ := hd
        obtain ⟨hce, hact⟩ := expand_sync (P := P) h.rel.c hxi hidx front
        have hr : ∃ r : Option A,
            (Checker.step P (.expand (tv.x.aw.idxOf w) front) tv.x.c).active =
              actAfter tv.x.c.active (tv.x.aw.idxOf w) r ∧
            (Checker.step P (.expand (s.aw.idxOf w) front) s.c).active = actAfter s.c.active (s.aw.idxOf w) r := by
          rcases hact with ⟨act', a1, a2⟩ | ⟨a1, a2⟩
          · exact ⟨some act', a1, a2⟩
          · exact ⟨none, a1, a2⟩
        obtain ⟨r, r1, r2⟩ := hr
        obtain ⟨vx1, vx2⟩ := xJob_view h.rel.ix hxm r r1
        obtain ⟨vs1, vs2⟩ := xJob_view h.rel.is hmem r r2
        have hfrx : (Checker.step P (.expand (tv.x.aw.idxOf w) front) tv.x.c).frontier.length =
              tv.x.c.frontier.length + 1 ↔
            (Checker.step P (.expand (s.aw.idxOf w) front) s.c).frontier.length = s.c.frontier.length + 1 := by
          have e1 : (Checker.step P (.expand (tv.x.aw.idxOf w) front) tv.x.c).frontier =
              (Checker.step P (.expand (s.aw.idxOf w) front) s.c).frontier := hce.fr
          rw [e1, h.rel.c.fr]
        have key : ∃ x1 ms1 cs1, fstep P tv.x (.expand w front tok back) = some (x1, ms1, cs1) ∧ RelW P w x1 s' := by
          by_cases hg : (Checker.step P (.expand (s.aw.idxOf w) front) s.c).frontier.length = s.c.frontier.length + 1
          · rw [if_pos hg] at hs
            cases hm : mseq s.m (Step.work w 0 [tok] ::
                if back = true then [Step.rearrange w (locOf s.m w ++ [tok])] else []) with
            | none => rw [hm] at hs; cases hs
            | some m' =>
              rw [hm] at hs
              simp only [Option.map_some, Option.some.injEq, Prod.mk.injEq] at hs
              obtain ⟨rfl, -, -⟩ := hs
              obtain ⟨m'', hm', hmeq⟩ := mseq_meq _ h.rel.m.symm
                (by intro m hm; cases back <;> simp at hm <;> rcases hm with rfl | rfl <;> rfl) hm
              have hfx : fstep P tv.x (.expand w front tok back) = some
                  ({ m := m'', c := Checker.step P (.expand (tv.x.aw.idxOf w) front) tv.x.c,
                     ft := if front = true then tok :: s.ft else s.ft ++ [tok],
                     aw := (xJob tv.x w (Checker.step P (.expand (tv.x.aw.idxOf w) front) tv.x.c)).aw },
                   Step.work w 0 [tok] :: (if back = true then [Step.rearrange w (locOf s.m w ++ [tok])] else []),
                   [.expand (tv.x.aw.idxOf w) front]) := by
                simp only [fstep, if_pos hxm, if_pos (hfrx.2 hg), h.rel.m.locOf w, hm', Option.map_some, h.rel.ft, xJob]
              refine ⟨_, _, _, hfx, ⟨hmeq.symm, rfl, hce, ?_, fun v hv => ?_, finv_step h.rel.ix hfx,
                finv_step h.rel.is hs0, fstep_discNodup hs0 h.rel.dn⟩⟩
              · exact (vx1.trans vs1.symm)
              · have := h.rel.act v
                rw [← vx2 v hv, ← vs2 v hv] at this
                exact this
          · rw [if_neg hg] at hs
            simp only [Option.some.injEq, Prod.mk.injEq] at hs
            obtain ⟨rfl, -, -⟩ := hs
            have hfx : fstep P tv.x (.expand w front tok back) = some
                (xJob tv.x w (Checker.step P (.expand (tv.x.aw.idxOf w) front) tv.x.c), [],
                 [.expand (tv.x.aw.idxOf w) front]) := by
              simp only [fstep, if_pos hxm, if_neg (fun hc => hg (hfrx.1 hc)), xJob]
            refine ⟨_, _, _, hfx, ⟨h.rel.m, h.rel.ft, hce, ?_, fun v hv => ?_, finv_step h.rel.ix hfx,
              finv_step h.rel.is hs0, fstep_discNodup hs0 h.rel.dn⟩⟩
            · exact (vx1.trans vs1.symm)
            · have := h.rel.act v
              rw [← vx2 v hv, ← vs2 v hv] at this
              exact this
        obtain ⟨x1, ms1, cs1, hfx, hrelW⟩ := key
        obtain ⟨x2, hadv, hrel⟩ := relW_advance hrelW
        refine ⟨{ tv with x := x2 }, ?_, trel_of_rel h hs0 hrel⟩
        simp only [entries, hsw]
        apply replay_one
        show oneExpand P (mode == .dfs) tv _ = _
        unfold oneExpand
        rw [hmode]
        subst hfront hback
        have htok' : tv.x.m.created.length = tok := by rw [h.rel.m.created]; exact htok.symm
        by_cases hg : P.key t ∈ s.c.gen <;>
          simp [hxw, h.rel.c.gen, hg, htok', stepE_of hfx, hadv, bind, Except.bind, pure, Except.pure]
  · cases hs

end SR.ReplayComplete.Full

namespace SR.ReplayComplete.Full
open SR SR.Checker SR.Market SR.Full SR.Drv.Full

variable {P : Params Nat Nat Nat}

/-! ### entries that are not bookkeeping leave the bookkeeping alone -/

/-- all entries but `TR_SPLIT` / `TR_SPLIT_PIECE` / `TR_STOP` leave the replay's bookkeeping alone -/
def Keep (tv tv' : TV) : Prop := tv'.pieces = tv.pieces ∧ tv'.reason = tv.reason

macro "keep_close" : tactic => `(tactic|
  (have hfin := ‹pure _ = Except.ok _›
   simp only [pure, Except.pure, Except.ok.injEq] at hfin
   subst hfin
   exact ⟨rfl, rfl⟩))

theorem keep_onePop (k : Nat) (tv tv' : TV) (e : Ev) (h : onePop P k tv e = .ok tv') : Keep tv tv' := by
  unfold onePop at h; simp only [] at h; unbind <;> keep_close

theorem keep_oneSplitClosed (tv tv' : TV) (e : Ev) (h : oneSplitClosed P tv e = .ok tv') : Keep tv tv' := by
  unfold oneSplitClosed at h; simp only [] at h; unbind <;> keep_close

theorem keep_oneDrop (k : Nat) (tv tv' : TV) (e : Ev) (h : oneDrop P k tv e = .ok tv') : Keep tv tv' := by
  unfold oneDrop at h; simp only [] at h; unbind <;> keep_close

theorem keep_oneTake (tv tv' : TV) (e : Ev) (h : oneTake P tv e = .ok tv') : Keep tv tv' := by
  unfold oneTake at h; simp only [] at h; unbind <;> keep_close

theorem keep_oneProp (tv tv' : TV) (e : Ev) (h : oneProp P tv e = .ok tv') : Keep tv tv' := by
  unfold oneProp at h; simp only [] at h; unbind <;> keep_close

theorem keep_oneExpand (dfs : Bool) (tv tv' : TV) (e : Ev) (h : oneExpand P dfs tv e = .ok tv') : Keep tv tv' := by
  unfold oneExpand at h; simp only [] at h; unbind <;> keep_close

theorem keep_oneRecord (tv tv' : TV) (e : Ev) (h : oneRecord P tv e = .ok tv') : Keep tv tv' := by
  unfold oneRecord at h; simp only [] at h; unbind <;> keep_close

theorem keep_oneTimeout (tv tv' : TV) (h : oneTimeout P tv = .ok tv') : Keep tv tv' := by
  unfold oneTimeout at h; unbind <;> keep_close

/-- the entry is not one of the bookkeeping entries `TR_SPLIT` (7), `TR_SPLIT_PIECE` (8), `TR_STOP` (24) -/
def noBook (e : Ev) : Bool := e.kind != 7 && e.kind != 8 && e.kind != 24

theorem one_keep {k : Nat} {mode : Mode} (hm : mode ≠ .ondemand) {tv tv' : TV} {e : Ev} (hn : noBook e = true)
    (h : one P k mode tv e = .ok tv') : Keep tv tv' := by
  simp only [noBook, Bool.and_eq_true, bne_iff_ne, ne_eq] at hn
  obtain ⟨⟨h7, h8⟩, h24⟩ := hn
  unfold one at h
  split at h
  · exact keep_onePop k tv tv' e h
  · exact keep_onePop k tv tv' e h
  · exact keep_onePop k tv tv' e h
  · exact (throw_ne_ok h).elim
  · rename_i hk; exact (h8 hk).elim
  · rename_i hk; exact (h7 hk).elim
  · exact keep_oneSplitClosed tv tv' e h
  · exact keep_oneDrop k tv tv' e h
  · exact keep_oneTimeout tv tv' h
  · split at h
    · rename_i hmo; exact (hm (by simpa using hmo)).elim
    · exact keep_oneTake tv tv' e h
  · exact keep_oneProp tv tv' e h
  · exact keep_oneExpand _ tv tv' e h
  · exact keep_oneRecord tv tv' e h
  · rename_i hk; exact (h24 hk).elim
  · split at h
    · rename_i hmo; exact (hm (by simpa using hmo)).elim
    · exact (throw_ne_ok h).elim
  · split at h
    · rename_i hmo; exact (hm (by simpa using hmo)).elim
    · exact (throw_ne_ok h).elim
  · exact (throw_ne_ok h).elim

theorem replay_keep {k : Nat} {mode : Mode} (hm : mode ≠ .ondemand) : ∀ (es : List Ev) (tv tv' : TV) (i : Nat),
    (∀ e ∈ es, noBook e = true) → replay P k mode tv i es = .ok tv' → Keep tv tv' := by
  intro es
  induction es with
  | nil =>
    intro tv tv' i _ h
    simp only [replay, pure, Except.pure, Except.ok.injEq] at h
    subst h; exact ⟨rfl, rfl⟩
  | cons e es ih =>
    intro tv tv' i hn h
    simp only [replay] at h
    split at h
    · rename_i tv1 h1
      have k1 := one_keep hm (hn e (by simp)) h1
      have k2 := ih tv1 tv' (i + 1) (fun e' he' => hn e' (by simp [he'])) h
      exact ⟨k2.1.trans k1.1, k2.2.trans k1.2⟩
    · exact (throw_ne_ok h).elim

/-- the steps other than `split` / `stop` / `exit` write no bookkeeping entries -/
def plain : FStep → Bool
  | .split _ _ | .stop _ _ | .exit _ => false
  | _ => true

theorem entries_noBook (notw : Nat) (s s' : X) (f : FStep) (hf : plain f = true) :
    ∀ e ∈ entries P notw s f s', noBook e = true := by
  intro e he
  cases f with
  | pop w =>
    simp only [entries, popEntry] at he
    split at he <;> simp at he <;> subst he <;> rfl
  | wake w =>
    simp only [entries, popEntry] at he
    split at he <;> simp at he <;> subst he <;> rfl
  | take w p =>
    simp only [entries] at he
    split at he
    · split at he <;> simp at he
      subst he; rfl
    · simp at he
  | discard w p => simp [entries] at he
  | evalProp w b =>
    simp only [entries] at he
    split at he
    · split at he <;> simp at he
      subst he; rfl
    · simp at he
  | finishProps w => simp [entries] at he
  | expand w a b c =>
    simp only [entries] at he
    split at he <;> simp at he
    subst he; rfl
  | record w =>
    simp only [entries] at he
    split at he
    · split at he <;> simp at he
      subst he; rfl
    · simp at he
  | timeout => simp only [entries, List.mem_singleton] at he; subst he; rfl
  | xdrop => simp only [entries, List.mem_singleton] at he; subst he; rfl
  | split w p => cases hf
  | stop w y => cases hf
  | exit w => cases hf

end SR.ReplayComplete.Full

namespace SR.ReplayComplete.Full
open SR SR.Checker SR.Market SR.Full SR.Drv.Full

variable (P : Params Nat Nat Nat)

/-! ### runs, every step's bookkeeping entries right before its last entry -/

/-- the log of a run of the product from `s` (steps that are not enabled are skipped, as in `frunFrom`) -/
def record (notw : Nat) (s : X) : List FStep → List Ev
  | [] => []
  | f :: fs =>
    match fstep P s f with
    | none => record notw s fs
    | some (s', _, _) => entries P notw s f s' ++ record notw s' fs

/-- every step the run takes follows the queue discipline of bfs.rs (`dfs = false`) / dfs.rs -/
def disciplined (dfs : Bool) (s : X) : List FStep → Bool
  | [] => true
  | f :: fs =>
    match fstep P s f with
    | none => disciplined dfs s fs
    | some (s', _, _) => disc dfs s f && disciplined dfs s' fs

variable {P}

/-- a step other than `split` / `stop` / `exit`: its entries are accepted, the bookkeeping is untouched -/
theorem plain_complete {k notw : Nat} (hk : k ≤ notw) {mode : Mode} (hm : mode ≠ .ondemand) {dfs : Bool}
    (hmode : (mode == .dfs) = dfs) {tv : TV} {s s' : X} {f : FStep} {ms : List Step} {cs : List Choice}
    (h : TRel P k tv s) (hs : fstep P s f = some (s', ms, cs)) (hd : disc dfs s f = true) (hf : plain f = true)
    (i : Nat) :
    ∃ tv', replay P k mode tv i (entries P notw s f s') = .ok tv' ∧ TRel P k tv' s' ∧ Keep tv tv' := by
  have key : ∃ tv', replay P k mode tv i (entries P notw s f s') = .ok tv' ∧ TRel P k tv' s' := by
    cases f with
    | pop w => exact complete_pop h hs i
    | wake w => exact complete_wake h hs i
    | split w picks => cases hf
    | take w p => exact complete_take hm h hs (by simpa [disc] using hd) i
    | discard w p => simp [disc] at hd
    | evalProp w b => exact complete_evalProp h hs i
    | finishProps w => exact complete_finishProps h hs i
    | expand w front tok back => exact complete_expand hmode h hs hd i
    | record w => exact complete_record h hs i
    | stop w why => cases hf
    | exit w => cases hf
    | timeout => exact complete_timeout h hs i
    | xdrop => exact complete_xdrop hk h hs i
  obtain ⟨tv', h1, h2⟩ := key
  exact ⟨tv', h1, h2, replay_keep hm _ tv tv' i (entries_noBook notw s s' f hf) h1⟩

theorem book_keep {tv tv' : TV} {s s' : X} (hb : Book tv s) (hk : Keep tv tv') {f : FStep} {ms : List Step}
    {cs : List Choice} (hs : fstep P s f = some (s', ms, cs)) : Book tv' s' :=
  ⟨hk.1.trans hb.pieces, fun v hv => fstep_exited hs (hb.reason v (hk.2 ▸ hv))⟩

/-- **one step of the product**: its entries are accepted, and the replay stays ahead by steps without entry only -/
theorem step_complete {k notw : Nat} (hk : k ≤ notw) {mode : Mode} (hm : mode ≠ .ondemand) {dfs : Bool}
    (hmode : (mode == .dfs) = dfs) {tv : TV} {s s' : X} {f : FStep} {ms : List Step} {cs : List Choice}
    (h : TRel P k tv s) (hb : Book tv s) (hs : fstep P s f = some (s', ms, cs)) (hd : disc dfs s f = true) (i : Nat) :
    ∃ tv', replay P k mode tv i (entries P notw s f s') = .ok tv' ∧ TRel P k tv' s' ∧ Book tv' s' := by
  by_cases hf : plain f = true
  · obtain ⟨tv', h1, h2, h3⟩ := plain_complete hk hm hmode h hs hd hf i
    exact ⟨tv', h1, h2, book_keep hb h3 hs⟩
  · cases f with
    | split w picks => exact complete_split h hb hs i
    | stop w why => exact complete_stop h hb hs (by simpa [disc] using hd) i
    | exit w => exact complete_exit h hb hs i
    | _ => exact (hf rfl).elim

theorem replay_complete {k notw : Nat} (hk : k ≤ notw) {mode : Mode} (hm : mode ≠ .ondemand) {dfs : Bool}
    (hmode : (mode == .dfs) = dfs) (fs : List FStep) : ∀ (tv : TV) (s : X) (i : Nat), TRel P k tv s → Book tv s →
    disciplined P dfs s fs = true →
    ∃ tv', replay P k mode tv i (record P notw s fs) = .ok tv' ∧ TRel P k tv' (frunFrom P s fs).1 := by
  induction fs with
  | nil => intro tv s i h _ _; exact ⟨tv, rfl, h⟩
  | cons f fs ih =>
    intro tv s i h hb hd
    simp only [record, frunFrom, disciplined] at hd ⊢
    cases hs : fstep P s f with
    | none => rw [hs] at hd; exact ih tv s i h hb hd
    | some r =>
      obtain ⟨s', ms, cs⟩ := r
      rw [hs] at hd
      simp only [Bool.and_eq_true] at hd
      obtain ⟨tv1, h1, hr1, hb1⟩ := step_complete hk hm hmode h hb hs hd.1 i
      obtain ⟨tv', h', hr'⟩ := ih tv1 s' (i + (entries P notw s f s').length) hr1 hb1 hd.2
      refine ⟨tv', ?_, hr'⟩
      rw [replay_append, h1]
      exact h'

theorem trel_init (k : Nat) : TRel P k { x := finit P k, reason := [], pieces := [] } (finit P k) := by
  refine ⟨rel_refl (finv_init P k) ?_ ?_, ?_⟩
  · simp [finit, Checker.init, discNames]
  · intro w a ha
    have : activeOf (finit P k) w = none := by
      unfold activeOf; simp [finit]
    rw [this] at ha; cases ha
  · rw [finit_m]; simp [m0, Market.init]

theorem book_init (k : Nat) : Book { x := finit P k, reason := [], pieces := [] } (finit P k) :=
  ⟨rfl, fun w hw => by simp at hw⟩

/-! ### what `Rel` says about the things `tv` prints -/

theorem all_exited_strip (l : List Pc) : (l.map strip).all (· == Pc.exited) = l.all (· == Pc.exited) := by
  have hp : ∀ p : Pc, (strip p == Pc.exited) = (p == Pc.exited) := by
    intro p
    cases p with
    | parked b => cases b <;> rfl
    | running => rfl
    | exited => rfl
  induction l with
  | nil => rfl
  | cons p ps ih => simp only [List.map_cons, List.all_cons, hp, ih]

theorem length_le_of_nodup_subset : ∀ (l1 l2 : List Nat), l1.Nodup → (∀ a ∈ l1, a ∈ l2) → l1.length ≤ l2.length := by
  intro l1
  induction l1 with
  | nil => intro l2 _ _; simp
  | cons a t ih =>
    intro l2 hn hs
    obtain ⟨h1, h2⟩ := List.nodup_cons.1 hn
    have ha : a ∈ l2 := hs a (by simp)
    have := ih (l2.erase a) h2 (fun b hb => (List.mem_erase_of_ne (fun (e : b = a) => h1 (by rw [← e]; exact hb))).2 (hs b (by simp [hb])))
    have hl := List.length_erase_of_mem ha
    have hpos : 0 < l2.length := List.length_pos_of_mem ha
    simp only [List.length_cons]
    omega

theorem rel_observables {x s : X} (h : Rel P x s) :
    x.c.gen = s.c.gen ∧ x.c.stateCount = s.c.stateCount ∧ x.c.disc = s.c.disc ∧ x.c.frontier = s.c.frontier ∧
    x.c.maxDepth = s.c.maxDepth ∧ x.c.visits = s.c.visits ∧ x.c.stopped = s.c.stopped ∧ x.ft = s.ft ∧
    x.m.isOpen = s.m.isOpen ∧ x.m.batches = s.m.batches ∧ x.m.locs = s.m.locs ∧ x.m.openCount = s.m.openCount ∧
    x.m.pcs.all (· == Pc.exited) = s.m.pcs.all (· == Pc.exited) ∧
    x.c.active.length ≤ s.c.active.length := by
  refine ⟨h.c.gen, h.c.cnt, h.c.disc, h.c.fr, h.c.md, h.c.vis, h.c.st, h.ft, h.m.isOpen, h.m.batches, h.m.locs,
    h.m.openCount, ?_, ?_⟩
  · rw [← all_exited_strip, ← all_exited_strip s.m.pcs, h.m.pcs]
  · -- every worker busy in the replay is busy in the machine
    rw [← h.ix.awlen, ← h.is.awlen]
    have hsub : ∀ w ∈ x.aw, w ∈ s.aw := by
      intro w hw
      apply Classical.byContradiction
      intro hn
      exact rel_not_mem h hn hw
    exact length_le_of_nodup_subset _ _ h.ix.awnd hsub

end SR.ReplayComplete.Full

namespace SR.ReplayComplete.Full
open SR SR.Checker SR.Market SR.Full SR.Drv.Full

variable (P : Params Nat Nat Nat)

/-! ### logs in which the bookkeeping entries are where the hooks write them

`TR_SPLIT_PIECE` entries are written inside the critical section of `split_and_push`, before its `TR_SPLIT` entry;
`TR_STOP` is written when the worker decides to leave, `TR_DROP` when its clone of the broker is dropped.  Entries of OTHER
threads that do not need the market mutex (`check_block`: `TR_TAKE` … `TR_RECORD`, `TR_STOP`) can come in between, so a
real log is an interleaving of `Item`s: the steps of the product (each at its LAST entry) and the bookkeeping entries. -/

inductive Item where
  | step (f : FStep)
  /-- `TR_SPLIT_PIECE`: worker `w` publishes a batch of `n` jobs -/
  | piece (w n : Nat)
  /-- `TR_STOP`: worker `w` is about to leave for reason `a` -/
  | stopping (w a : Nat)

/-- the entries of a step without the bookkeeping entries that precede it -/
def coreEntries (notw : Nat) (s : X) (f : FStep) (s' : X) : List Ev :=
  match f with
  | .split w _ => [splitEntry s w s']
  | .stop w _ => [⟨w, 10, 0, 0⟩]
  | .exit w => [⟨w, 10, 0, 0⟩]
  | f => entries P notw s f s'

/-- what the hooks have written before the last entry of the step: `pc` = the sizes in the `TR_SPLIT_PIECE` entries
    since the last `TR_SPLIT`; `rs` = the reason of the last `TR_STOP` entry of each worker -/
def bookOk (pc : List Nat) (rs : List (Nat × Nat)) (s : X) (f : FStep) (s' : X) : Bool :=
  match f with
  | .split _ _ => !s.m.isOpen || pc == pieceSizes s s'
  | .stop w .finish => rs.lookup w == some 1
  | .stop w .target => rs.lookup w == some 2
  | .stop w .panic => rs.lookup w == none || rs.lookup w == some 5
  | .stop _ .timeout => false
  | .exit w => rs.lookup w == some 3 || rs.lookup w == some 4
  | _ => true

def pcAfter (pc : List Nat) (s : X) : FStep → List Nat
  | .split _ _ => if s.m.isOpen then [] else pc
  | _ => pc

/-- the log -/
def itemLog (notw : Nat) (s : X) : List Item → List Ev
  | [] => []
  | .piece w n :: is => ⟨w, 8, n, 0⟩ :: itemLog notw s is
  | .stopping w a :: is => ⟨w, 24, a, 0⟩ :: itemLog notw s is
  | .step f :: is =>
    match fstep P s f with
    | none => itemLog notw s is
    | some (s', _, _) => coreEntries P notw s f s' ++ itemLog notw s' is

/-- the state the steps lead to -/
def itemEnd (s : X) : List Item → X
  | [] => s
  | .piece _ _ :: is => itemEnd s is
  | .stopping _ _ :: is => itemEnd s is
  | .step f :: is =>
    match fstep P s f with
    | none => itemEnd s is
    | some (s', _, _) => itemEnd s' is

/-- the steps follow the queue discipline and the bookkeeping entries are the ones the hooks write -/
def itemsOk (dfs : Bool) : List Nat → List (Nat × Nat) → X → List Item → Bool
  | _, _, _, [] => true
  | pc, rs, s, .piece _ n :: is => itemsOk dfs (pc ++ [n]) rs s is
  | pc, rs, s, .stopping w a :: is => itemsOk dfs pc ((w, a) :: rs.filter (fun e => e.1 != w)) s is
  | pc, rs, s, .step f :: is =>
    match fstep P s f with
    | none => itemsOk dfs pc rs s is
    | some (s', _, _) => disc dfs s f && bookOk pc rs s f s' && itemsOk dfs (pcAfter pc s f) rs s' is

/-- the steps of the product among the items -/
def itemSteps : List Item → List FStep
  | [] => []
  | .step f :: is => f :: itemSteps is
  | _ :: is => itemSteps is

variable {P}

theorem itemEnd_frun : ∀ (is : List Item) (s : X), itemEnd P s is = (frunFrom P s (itemSteps is)).1 := by
  intro is
  induction is with
  | nil => intro s; rfl
  | cons it is ih =>
    intro s
    cases it with
    | piece w n => exact ih s
    | stopping w a => exact ih s
    | step f =>
      simp only [itemEnd, itemSteps, frunFrom]
      cases hs : fstep P s f with
      | none => exact ih s
      | some r => obtain ⟨s', ms, cs⟩ := r; exact ih s'

theorem coreEntries_plain (notw : Nat) (s s' : X) (f : FStep) (hf : plain f = true) :
    coreEntries P notw s f s' = entries P notw s f s' := by
  cases f <;> first | rfl | cases hf

/-- **Completeness of `tv` for interleaved logs.** -/
theorem items_complete {k notw : Nat} (hk : k ≤ notw) {mode : Mode} (hm : mode ≠ .ondemand) {dfs : Bool}
    (hmode : (mode == .dfs) = dfs) (is : List Item) : ∀ (tv : TV) (s : X) (i : Nat), TRel P k tv s →
    itemsOk P dfs tv.pieces tv.reason s is = true →
    ∃ tv', replay P k mode tv i (itemLog P notw s is) = .ok tv' ∧ TRel P k tv' (itemEnd P s is) := by
  induction is with
  | nil => intro tv s i h _; exact ⟨tv, rfl, h⟩
  | cons it is ih =>
    intro tv s i h hok
    cases it with
    | piece w n =>
      simp only [itemLog, itemEnd, itemsOk, replay] at hok ⊢
      have h1 : one P k mode tv ⟨w, 8, n, 0⟩ = .ok { tv with pieces := tv.pieces ++ [n] } := rfl
      rw [h1]
      exact ih { tv with pieces := tv.pieces ++ [n] } s (i + 1) ⟨h.rel, h.len⟩ hok
    | stopping w a =>
      simp only [itemLog, itemEnd, itemsOk, replay] at hok ⊢
      have h1 : one P k mode tv ⟨w, 24, a, 0⟩ =
          .ok { tv with reason := (w, a) :: tv.reason.filter (fun e => e.1 != w) } := rfl
      rw [h1]
      exact ih { tv with reason := (w, a) :: tv.reason.filter (fun e => e.1 != w) } s (i + 1) ⟨h.rel, h.len⟩ hok
    | step f =>
      simp only [itemLog, itemEnd, itemsOk] at hok ⊢
      cases hs : fstep P s f with
      | none => rw [hs] at hok; exact ih tv s i h hok
      | some r =>
        obtain ⟨s', ms, cs⟩ := r
        rw [hs] at hok
        simp only [Bool.and_eq_true] at hok
        obtain ⟨⟨hd, hbk⟩, hrest⟩ := hok
        -- the step
        have key : ∃ tv1, replay P k mode tv i (coreEntries P notw s f s') = .ok tv1 ∧ TRel P k tv1 s' ∧
            tv1.pieces = pcAfter tv.pieces s f ∧ tv1.reason = tv.reason := by
          by_cases hf : plain f = true
          · obtain ⟨tv1, h1, h2, h3⟩ := plain_complete (notw := notw) hk hm hmode h hs hd hf i
            refine ⟨tv1, by rw [coreEntries_plain notw s s' f hf]; exact h1, h2, ?_, h3.2⟩
            rw [h3.1]
            cases f <;> first | rfl | cases hf
          · cases f with
            | split w picks =>
              have hp : s.m.isOpen = true → tv.pieces = pieceSizes s s' := by
                intro ho
                simpa [bookOk, ho] using hbk
              obtain ⟨x', hx', hrel⟩ := complete_split_core (mode := mode) h hs hp i
              exact ⟨_, hx', ⟨hrel, (fstep_pcs_length hs).trans h.len⟩, rfl, rfl⟩
            | stop w why =>
              have hr : reasonFor why (tv.reason.lookup w) := by
                cases why with
                | timeout => simp [bookOk] at hbk
                | _ => simpa [bookOk, reasonFor] using hbk
              obtain ⟨x', hx', hrel⟩ := complete_stop_core (mode := mode) h hs hr i
              exact ⟨_, hx', trel_of_rel h hs hrel, rfl, rfl⟩
            | exit w =>
              have hr : ∃ a, tv.reason.lookup w = some a ∧ (a = 3 ∨ a = 4) := by
                simp only [bookOk, Bool.or_eq_true, beq_iff_eq] at hbk
                rcases hbk with hb | hb
                · exact ⟨3, hb, .inl rfl⟩
                · exact ⟨4, hb, .inr rfl⟩
              obtain ⟨a, ha, ha'⟩ := hr
              obtain ⟨x', hx', hrel⟩ := complete_exit_core (mode := mode) h hs ha ha' i
              exact ⟨_, hx', trel_of_rel h hs hrel, rfl, rfl⟩
            | _ => exact (hf rfl).elim
        obtain ⟨tv1, h1, hr1, hp1, hq1⟩ := key
        obtain ⟨tv', h', hr'⟩ := ih tv1 s' (i + (coreEntries P notw s f s').length) hr1 (by rw [hp1, hq1]; exact hrest)
        refine ⟨tv', ?_, hr'⟩
        rw [replay_append, h1]
        exact h'

end SR.ReplayComplete.Full
