import SR.Proofs.Checker.Complete
/-!
"Once" invariant: generated keys are duplicate-free, every evaluated or pending state's key is generated,
and — given initial states with distinct keys — no two evaluated-or-pending jobs share a key, so each state
is evaluated at most once; `unique_state_count ≤ state_count`.
-/
namespace SR.Checker
open SR

section
variable {σ κ α : Type} [DecidableEq κ]
variable (P : Params σ κ α)

/-- last states of the visited paths, newest first -/
def visitedStates (s : St σ κ) : List σ := s.visits.filterMap List.getLast?

structure NInv (s : St σ κ) : Prop where
  genNodup : s.gen.Nodup
  inGen : ∀ u ∈ visitedStates s ++ s.frontier.map (·.st), P.key u ∈ s.gen
  once : ((P.M.initB).map P.key).Nodup → ((visitedStates s ++ s.frontier.map (·.st)).map P.key).Nodup
  count : s.gen.length ≤ s.stateCount
  actVis : ∀ u ∈ s.active.map (·.job.st) ++ s.done, u ∈ visitedStates s
  visAct : s.early = false → ∀ u ∈ visitedStates s, u ∈ s.active.map (·.job.st) ++ s.done

variable {P}

theorem genInit_nodup (key : σ → κ) (is : List σ) (g : List κ) (hg : g.Nodup) : (genInit key is g).Nodup := by
  induction is generalizing g with
  | nil => exact hg
  | cons s ss ih =>
    unfold genInit
    apply ih
    split
    · exact hg
    · rename_i hn
      exact List.nodup_append.2 ⟨hg, by simp, by intro a ha b hb; simp at hb; subst hb; intro e; subst e; exact hn ha⟩

theorem genInit_length (key : σ → κ) (is : List σ) (g : List κ) : (genInit key is g).length ≤ g.length + is.length := by
  induction is generalizing g with
  | nil => simp [genInit]
  | cons s ss ih =>
    unfold genInit
    by_cases hk : key s ∈ g
    · have := ih g
      simp only [hk, if_true, List.length_cons]; omega
    · have := ih (g ++ [key s])
      simp only [hk, if_false, List.length_cons]
      simp at this; omega

theorem ninv_init : NInv P (init P.M P.props P.key) := by
  obtain ⟨_, h2, _⟩ := genInit_spec P.key P.M.initB []
  refine ⟨genInit_nodup _ _ _ List.nodup_nil, ?_, ?_, ?_, by simp [init], by simp [init, visitedStates]⟩
  · intro u hu
    simp only [visitedStates, init, List.filterMap_nil, List.nil_append, List.map_map, List.mem_map,
      List.mem_reverse, Function.comp] at hu
    obtain ⟨t, ht, rfl⟩ := hu
    exact h2 t ht
  · intro hnd
    simp only [visitedStates, init, List.filterMap_nil, List.nil_append, List.map_map]
    have : (List.map (P.key ∘ (fun x : Job σ => x.st) ∘ fun s => ({ st := s, path := [s], ebits := initEbits P.props, depth := 1 } : Job σ)) P.M.initB.reverse)
        = (P.M.initB.map P.key).reverse := by
      simp [List.map_reverse, Function.comp_def]
    rw [this]; exact (List.reverse_perm _).nodup_iff.2 hnd
  · have := genInit_length P.key P.M.initB []
    simpa [init] using this

theorem perm_eraseIdx {β : Type} {l : List β} {i : Nat} {a : β} (h : l[i]? = some a) :
    l.Perm (a :: l.eraseIdx i) := by
  induction l generalizing i with
  | nil => simp at h
  | cons x xs ih =>
    cases i with
    | zero => simp at h; subst h; simp
    | succ i =>
      simp at h
      have := ih h
      simp only [List.eraseIdx_cons_succ]
      exact (List.Perm.cons x this).trans (List.Perm.swap a x _)

theorem map_set_same {β γ : Type} (f : β → γ) {l : List β} {w : Nat} {a a' : β} (h : l[w]? = some a)
    (hf : f a' = f a) : (l.set w a').map f = l.map f := by
  apply List.ext_getElem?
  intro n
  simp only [List.getElem?_map, List.getElem?_set]
  by_cases hn : w = n
  · subst hn
    obtain ⟨hlt, hget⟩ := List.getElem?_eq_some_iff.1 h
    simp [hlt, hf, hget]
  · simp [hn]

/-- the step touches neither visits nor frontier nor gen, and keeps the multiset of active/done states -/
theorem ninv_same {s s' : St σ κ} (h : NInv P s) (hg : s'.gen = s.gen) (hv : s'.visits = s.visits)
    (hf : s'.frontier = s.frontier) (hc : s.stateCount ≤ s'.stateCount)
    (had : (s'.active.map (·.job.st) ++ s'.done).Perm (s.active.map (·.job.st) ++ s.done))
    (he : s'.early = false → s.early = false) : NInv P s' := by
  have hvs : visitedStates s' = visitedStates s := by simp [visitedStates, hv]
  refine ⟨hg ▸ h.genNodup, ?_, ?_, by rw [hg]; exact Nat.le_trans h.count hc, ?_, ?_⟩
  · rw [hvs, hf, hg]; exact h.inGen
  · rw [hvs, hf]; exact h.once
  · intro u hu; rw [hvs]; exact h.actVis u (had.mem_iff.1 hu)
  · intro he' u hu; rw [hvs] at hu; exact had.mem_iff.2 (h.visAct (he he') u hu)

/-- a worker is dropped (job abandoned): `early` becomes true -/
theorem ninv_drop_active {s : St σ κ} (h : NInv P s) (w : Nat) (stopped : Bool) :
    NInv P { s with active := s.active.eraseIdx w, early := true, stopped := stopped } := by
  refine ⟨h.genNodup, h.inGen, h.once, h.count, ?_, by intro he; simp at he⟩
  intro u hu
  apply h.actVis
  rcases List.mem_append.1 hu with hu | hu
  · obtain ⟨a, ha, rfl⟩ := List.mem_map.1 hu
    exact List.mem_append_left _ (List.mem_map.2 ⟨a, List.mem_of_mem_eraseIdx ha, rfl⟩)
  · exact List.mem_append_right _ hu

theorem ninv_take (i : Nat) {s : St σ κ} (hs : SInv P s) (h : NInv P s) : NInv P (stepTake P i s) := by
  unfold stepTake
  split
  · exact h
  · rename_i j hj
    have hjm : j ∈ s.frontier := List.mem_of_getElem? hj
    have hlast := (hs.fr j hjm).last
    have hperm : (s.frontier.map (·.st)).Perm (j.st :: (s.frontier.eraseIdx i).map (·.st)) := by
      have := (perm_eraseIdx hj).map (·.st)
      simpa using this
    have hsubl : ((s.frontier.eraseIdx i).map (·.st)).Sublist (s.frontier.map (·.st)) :=
      (List.eraseIdx_sublist _ _).map _
    have dropped : NInv P { s with frontier := s.frontier.eraseIdx i, maxDepth := max s.maxDepth j.depth, early := true } := by
      refine ⟨h.genNodup, ?_, ?_, h.count, h.actVis, by intro he; simp at he⟩
      · intro u hu
        apply h.inGen
        rcases List.mem_append.1 hu with hu | hu
        · exact List.mem_append_left _ hu
        · exact List.mem_append_right _ (hsubl.subset hu)
      · intro hnd
        exact ((h.once hnd).sublist (((List.Sublist.refl _).append hsubl).map _))
    have taken : NInv P { s with frontier := s.frontier.eraseIdx i, maxDepth := max s.maxDepth j.depth, visits := j.path :: s.visits, active := s.active ++ [{ job := j, phase := .props 0 false }] } := by
      have hvs : visitedStates ({ s with frontier := s.frontier.eraseIdx i, maxDepth := max s.maxDepth j.depth, visits := j.path :: s.visits, active := s.active ++ [{ job := j, phase := .props 0 false }] } : St σ κ)
          = j.st :: visitedStates s := by
        simp [visitedStates, List.filterMap_cons, hlast]
      have hp : (j.st :: visitedStates s ++ (s.frontier.eraseIdx i).map (·.st)).Perm
          (visitedStates s ++ s.frontier.map (·.st)) := by
        have h1 : (visitedStates s ++ s.frontier.map (·.st)).Perm
            (visitedStates s ++ (j.st :: (s.frontier.eraseIdx i).map (·.st))) := List.Perm.append_left _ hperm
        exact (List.perm_middle.symm.trans h1.symm)
      refine ⟨h.genNodup, ?_, ?_, h.count, ?_, ?_⟩
      · intro u hu; rw [hvs] at hu; exact h.inGen u (hp.mem_iff.1 hu)
      · intro hnd; rw [hvs]; exact (hp.map _).nodup_iff.2 (h.once hnd)
      · intro u hu
        rw [hvs]
        simp only [List.map_append, List.map_cons, List.map_nil, List.append_assoc, List.mem_append,
          List.mem_cons, List.not_mem_nil, or_false] at hu
        rcases hu with hu | rfl | hu
        · exact List.mem_cons_of_mem _ (h.actVis u (List.mem_append_left _ hu))
        · exact List.mem_cons_self
        · exact List.mem_cons_of_mem _ (h.actVis u (List.mem_append_right _ hu))
      · intro he u hu
        rw [hvs] at hu
        simp only [List.map_append, List.map_cons, List.map_nil, List.append_assoc, List.mem_append,
          List.mem_cons, List.not_mem_nil, or_false]
        rcases List.mem_cons.1 hu with rfl | hu
        · exact Or.inr (Or.inl rfl)
        · rcases List.mem_append.1 (h.visAct he u hu) with h' | h'
          · exact Or.inl h'
          · exact Or.inr (Or.inr h')
    dsimp only
    split
    · split
      · exact dropped
      · exact taken
    · exact taken

/-- worker `w` replaced by a worker in the same state: the active/done states are unchanged -/
theorem actDone_set {s : St σ κ} {w : Nat} {a a' : Active σ} (ha : s.active[w]? = some a)
    (hst : a'.job.st = a.job.st) :
    ((s.active.set w a').map (·.job.st) ++ s.done).Perm (s.active.map (·.job.st) ++ s.done) := by
  rw [map_set_same (fun x : Active σ => x.job.st) ha hst]

/-- worker `w` retires into `done` -/
theorem actDone_retire {s : St σ κ} {w : Nat} {a : Active σ} (ha : s.active[w]? = some a) :
    ((s.active.eraseIdx w).map (·.job.st) ++ (a.job.st :: s.done)).Perm (s.active.map (·.job.st) ++ s.done) := by
  have h1 := (perm_eraseIdx ha).map (fun x : Active σ => x.job.st)
  simp only [List.map_cons] at h1
  exact (List.perm_middle.trans (List.Perm.append_right _ h1.symm))

theorem ninv_evalProp (w : Nat) (b : Bool) {s : St σ κ} (h : NInv P s) : NInv P (stepEvalProp P w b s) := by
  unfold stepEvalProp
  split
  · rename_i j i aw ha
    split
    · exact h
    · split
      · exact ninv_same h rfl rfl rfl (Nat.le_refl _) (actDone_set ha (by rfl)) (fun e => e)
      · split
        · split
          · exact ninv_same h rfl rfl rfl (Nat.le_refl _) (actDone_set ha (by rfl)) (fun e => e)
          · exact ninv_same h rfl rfl rfl (Nat.le_refl _) (actDone_set ha (by rfl)) (fun e => e)
        · split
          · exact ninv_same h rfl rfl rfl (Nat.le_refl _) (actDone_set ha (by rfl)) (fun e => e)
          · exact ninv_same h rfl rfl rfl (Nat.le_refl _) (actDone_set ha (by rfl)) (fun e => e)
        · exact ninv_same h rfl rfl rfl (Nat.le_refl _) (actDone_set ha (by split <;> rfl)) (fun e => e)
  · exact h

theorem ninv_finishProps (w : Nat) {s : St σ κ} (h : NInv P s) : NInv P (stepFinishProps P w s) := by
  unfold stepFinishProps
  split
  · rename_i j i aw ha
    split
    · exact h
    · split
      · exact ninv_drop_active h w s.stopped
      · split
        · exact ninv_same h rfl rfl rfl (Nat.le_refl _) (actDone_set ha (by rfl)) (fun e => e)
        · exact ninv_same h rfl rfl rfl (Nat.le_refl _) (actDone_set ha (by rfl)) (fun e => e)
  · exact h

theorem ninv_record (w : Nat) {s : St σ κ} (h : NInv P s) : NInv P (stepRecord P w s) := by
  unfold stepRecord
  split
  · rename_i j i ha
    split
    · dsimp only
      split
      · exact ninv_same h rfl rfl rfl (Nat.le_refl _) (actDone_set ha (by rfl)) (fun e => e)
      · exact ninv_same h rfl rfl rfl (Nat.le_refl _) (actDone_set ha (by rfl)) (fun e => e)
    · exact ninv_same h rfl rfl rfl (Nat.le_refl _) (actDone_retire ha) (fun e => e)
  · exact h

theorem ninv_expand (w : Nat) (f : Bool) {s : St σ κ} (h : NInv P s) : NInv P (stepExpand P w f s) := by
  unfold stepExpand
  split
  · rename_i j rest ha
    split
    · exact ninv_same h rfl rfl rfl (Nat.le_refl _) (actDone_retire ha) (fun e => e)
    · rename_i t rest'
      dsimp only
      split
      · exact ninv_same h rfl rfl rfl (Nat.le_succ _) (actDone_set ha (by rfl)) (fun e => e)
      · rename_i hnin
        -- a fresh key: generated and enqueued
        have hvs : ∀ fr : List (Job σ), visitedStates ({ s with stateCount := s.stateCount + 1, gen := s.gen ++ [P.key t], frontier := fr, active := s.active.set w { job := j, phase := .expanding rest' } } : St σ κ) = visitedStates s := by
          intro fr; simp [visitedStates]
        have hperm : ∀ fr : List (Job σ), fr = (if f then { st := t, path := j.path ++ [t], ebits := j.ebits, depth := j.depth + 1 } :: s.frontier else s.frontier ++ [{ st := t, path := j.path ++ [t], ebits := j.ebits, depth := j.depth + 1 }]) →
            (visitedStates s ++ fr.map (·.st)).Perm (t :: (visitedStates s ++ s.frontier.map (·.st))) := by
          intro fr hfr
          subst hfr
          split
          · simp only [List.map_cons]; exact List.perm_middle
          · simp only [List.map_append, List.map_cons, List.map_nil]
            rw [← List.append_assoc]
            exact List.perm_append_singleton _ _
        refine ⟨?_, ?_, ?_, ?_, ?_, ?_⟩
        · exact List.nodup_append.2 ⟨h.genNodup, by simp, by intro a ha' b hb; simp at hb; subst hb; intro e; subst e; exact hnin ha'⟩
        · intro u hu
          rw [hvs] at hu
          have := (hperm _ rfl).mem_iff.1 hu
          rcases List.mem_cons.1 this with rfl | hu'
          · simp
          · exact List.mem_append_left _ (h.inGen u hu')
        · intro hnd
          rw [hvs]
          refine ((hperm _ rfl).map P.key).nodup_iff.2 ?_
          simp only [List.map_cons]
          refine List.nodup_cons.2 ⟨?_, h.once hnd⟩
          intro hmem
          obtain ⟨u, hu, hk⟩ := List.mem_map.1 hmem
          exact hnin (hk ▸ h.inGen u hu)
        · simp only [List.length_append, List.length_singleton]
          have := h.count; omega
        · intro u hu
          rw [hvs]
          exact h.actVis u ((actDone_set ha (by rfl)).mem_iff.1 hu)
        · intro he u hu
          rw [hvs] at hu
          exact (actDone_set (a' := ⟨j, .expanding rest'⟩) ha (by rfl)).mem_iff.2 (h.visAct he u hu)
  · exact h

theorem ninv_stop (why : Why) {s : St σ κ} (h : NInv P s) : NInv P (stepStop P why s) := by
  unfold stepStop; split
  · exact ninv_same h rfl rfl rfl (Nat.le_refl _) (List.Perm.refl _) (fun e => e)
  · exact h

theorem ninv_dropJob (i : Nat) {s : St σ κ} (h : NInv P s) : NInv P (stepDropJob P i s) := by
  unfold stepDropJob; split
  · split
    · exact h
    · have hsubl : ((s.frontier.eraseIdx i).map (·.st)).Sublist (s.frontier.map (·.st)) :=
        (List.eraseIdx_sublist _ _).map _
      refine ⟨h.genNodup, ?_, ?_, h.count, h.actVis, by intro he; simp at he⟩
      · intro u hu
        apply h.inGen
        rcases List.mem_append.1 hu with hu | hu
        · exact List.mem_append_left _ hu
        · exact List.mem_append_right _ (hsubl.subset hu)
      · intro hnd
        exact ((h.once hnd).sublist (((List.Sublist.refl _).append hsubl).map _))
  · exact h

theorem ninv_abandon (w : Nat) {s : St σ κ} (h : NInv P s) : NInv P (stepAbandon w s) := by
  unfold stepAbandon; split
  · split
    · exact h
    · exact ninv_drop_active h w s.stopped
  · exact h

theorem ninv_step (c : Choice) {s : St σ κ} (hs : SInv P s) (h : NInv P s) : NInv P (step P c s) := by
  cases c with
  | take i => exact ninv_take i hs h
  | evalProp w b => exact ninv_evalProp w b h
  | finishProps w => exact ninv_finishProps w h
  | expand w f => exact ninv_expand w f h
  | record w => exact ninv_record w h
  | stop why => exact ninv_stop why h
  | dropJob i => exact ninv_dropJob i h
  | abandon w => exact ninv_abandon w h

theorem ninv_run (cs : List Choice) : NInv P (run P cs) :=
  (runFrom_induction (fun s => SInv P s ∧ NInv P s)
    (fun c _ h => ⟨sinv_step c h.1, ninv_step c h.1 h.2⟩) _ ⟨sinv_init, ninv_init⟩ cs).2

end
end SR.Checker
