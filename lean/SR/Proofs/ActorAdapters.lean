import SR.Proofs.ActorSys
import SR.Actor.Adapters
/-! Transparency of adapters: handlers, single steps, initial state, enabled actions (helper lemmas for Props/C15). -/
namespace SR.Actor

variable {σ σ' σ'' η : Type}

/-- `b` behaves as `a` seen through `tag`: same arguments in, same state change (re-tagged) and commands out -/
structure Transparent (tag : σ → σ') (a : Actor σ) (b : Actor σ') : Prop where
  start : ∀ id, b.start id = (tag (a.start id).1, (a.start id).2)
  msg : ∀ id s src m, b.msg id (tag s) src m = (a.msg id s src m).map tag
  timeout : ∀ id s t, b.timeout id (tag s) t = (a.timeout id s t).map tag
  random : ∀ id s r, b.random id (tag s) r = (a.random id s r).map tag

theorem transparent_wrap (tag : σ → σ') (untag : σ' → Option σ) (miss : HRes σ') (a : Actor σ)
    (h : ∀ s, untag (tag s) = some s) : Transparent tag a (a.wrap tag untag miss) where
  start _ := rfl
  msg id s src m := by simp [Actor.wrap, h]
  timeout id s t := by simp [Actor.wrap, h]
  random id s r := by simp [Actor.wrap, h]

theorem HRes.map_map (f : σ → σ') (g : σ' → σ'') (r : HRes σ) : (r.map f).map g = r.map (g ∘ f) := by
  cases r with
  | panic => rfl
  | ok ns cmds => cases ns <;> rfl

theorem transparent_comp {t1 : σ → σ'} {t2 : σ' → σ''} {a : Actor σ} {b : Actor σ'} {c : Actor σ''}
    (h1 : Transparent t1 a b) (h2 : Transparent t2 b c) : Transparent (t2 ∘ t1) a c where
  start id := by rw [h2.start, h1.start]; rfl
  msg id s src m := by simp only [Function.comp]; rw [h2.msg, h1.msg, HRes.map_map]
  timeout id s t := by simp only [Function.comp]; rw [h2.timeout, h1.timeout, HRes.map_map]
  random id s r := by simp only [Function.comp]; rw [h2.random, h1.random, HRes.map_map]

/-! ### systems -/

/-- `sys'` is `sys` with every actor `i` replaced by a transparent image under `tag i` -/
structure SysWrapped (tag : Nat → σ → σ') (sys : ActorSys σ η) (sys' : ActorSys σ' η) : Prop where
  n : sys'.n = sys.n
  lossy : sys'.lossy = sys.lossy
  maxCrashes : sys'.maxCrashes = sys.maxCrashes
  initNet : sys'.initNet = sys.initNet
  initHist : sys'.initHist = sys.initHist
  recordIn : sys'.recordIn = sys.recordIn
  recordOut : sys'.recordOut = sys.recordOut
  actor : ∀ i, Transparent (tag i) (sys.actor i) (sys'.actor i)

theorem sysWrapped_mapActors (tag : Nat → σ → σ') (sys : ActorSys σ η) (w : Nat → Actor σ → Actor σ')
    (hw : ∀ i, Transparent (tag i) (sys.actor i) (w i (sys.actor i))) : SysWrapped tag sys (sys.mapActors w) :=
  ⟨rfl, rfl, rfl, rfl, rfl, rfl, rfl, hw⟩

theorem lift_actors_getElem? (tag : Nat → σ → σ') (st : St σ η) (i : Nat) :
    (st.lift tag).actors[i]? = (st.actors[i]?).map (tag i) := by
  simp [St.lift, List.getElem?_mapIdx]

theorem mapIdx_set {α β : Type} (f : Nat → α → β) (l : List α) (i : Nat) (a : α) :
    (l.set i a).mapIdx f = (l.mapIdx f).set i (f i a) := by
  apply List.ext_getElem?
  intro j
  by_cases hij : i = j
  · subst hij
    by_cases hlt : i < l.length
    · simp [List.getElem?_mapIdx, List.getElem?_set_self, hlt]
    · have h1 : l.length ≤ i := Nat.le_of_not_lt hlt
      rw [List.set_eq_of_length_le h1, List.set_eq_of_length_le (by simpa using h1)]
  · simp [List.getElem?_mapIdx, List.getElem?_set_ne hij]

theorem setActor_lift (tag : Nat → σ → σ') (actors : List σ) (i : Nat) (ns : Option σ) :
    setActor (actors.mapIdx tag) i (ns.map (tag i)) = (setActor actors i ns).mapIdx tag := by
  cases ns with
  | none => rfl
  | some s => simp [setActor, mapIdx_set]

theorem applyCmd_lift {tag : Nat → σ → σ'} {sys : ActorSys σ η} {sys' : ActorSys σ' η} (hw : SysWrapped tag sys sys')
    (i : Nat) (st : St σ η) (c : Cmd) :
    applyCmd sys' i (st.lift tag) c = (applyCmd sys i st c).map (St.lift tag) := by
  cases c with
  | send d m => simp [applyCmd, St.lift, hw.recordOut]
  | setTimer t => rfl
  | cancelTimer t =>
    simp only [applyCmd, St.lift]
    cases st.timers[i]? <;> rfl
  | chooseRandom k cs =>
    simp only [applyCmd, St.lift]
    cases st.random[i]? <;> rfl

theorem processCommands_lift {tag : Nat → σ → σ'} {sys : ActorSys σ η} {sys' : ActorSys σ' η}
    (hw : SysWrapped tag sys sys') (i : Nat) (cmds : List Cmd) (st : St σ η) :
    processCommands sys' i cmds (st.lift tag) = (processCommands sys i cmds st).map (St.lift tag) := by
  induction cmds generalizing st with
  | nil => simp [processCommands]
  | cons c cs ih =>
    simp only [processCommands, applyCmd_lift hw]
    cases applyCmd sys i st c with
    | none => simp
    | some st1 => simp [ih]

theorem isNoOp_map (f : σ → σ') (ns : Option σ) (cmds : List Cmd) : isNoOp (ns.map f) cmds = isNoOp ns cmds := by
  cases ns <;> rfl

theorem isNoOpWithTimer_map (f : σ → σ') (ns : Option σ) (cmds : List Cmd) (t : Nat) :
    isNoOpWithTimer (ns.map f) cmds t = isNoOpWithTimer ns cmds t := by
  cases ns <;> rfl

theorem ofOption_map {α β : Type} (f : α → β) (o : Option α) : ofOption (o.map f) = (ofOption o).map f := by
  cases o <;> rfl

theorem step_lift {tag : Nat → σ → σ'} {sys : ActorSys σ η} {sys' : ActorSys σ' η} (hw : SysWrapped tag sys sys')
    (st : St σ η) (a : Action) :
    step sys' (st.lift tag) a = (step sys st a).map (St.lift tag) := by
  cases a with
  | drop e =>
    simp only [step]
    have : (st.lift tag).net = st.net := rfl
    rw [this]
    cases st.net.onDrop e <;> rfl
  | crash i =>
    simp only [step]
    have h1 : (st.lift tag).timers = st.timers := rfl
    have h2 : (st.lift tag).random = st.random := rfl
    have h3 : (st.lift tag).crashed = st.crashed := rfl
    rw [h1, h2, h3]
    cases st.timers[i]? <;> cases st.random[i]? <;> cases st.crashed[i]? <;> rfl
  | deliver e =>
    simp only [step, lift_actors_getElem?]
    cases hs : st.actors[e.dst]? with
    | none => rfl
    | some s =>
      have h3 : (st.lift tag).crashed = st.crashed := rfl
      simp only [Option.map_some, h3]
      cases st.crashed[e.dst]? with
      | none => rfl
      | some c =>
        cases c with
        | true => rfl
        | false =>
          simp only [(hw.actor e.dst).msg]
          cases (sys.actor e.dst).msg e.dst s e.src e.msg with
          | panic => rfl
          | ok ns cmds =>
            simp only [HRes.map, isNoOp_map, hw.initNet]
            split
            · rfl
            · have : (st.lift tag).net = st.net := rfl
              rw [this]
              cases st.net.onDeliver e with
              | none => rfl
              | some net =>
                simp only
                have := processCommands_lift hw e.dst cmds
                  { st with net := net, actors := setActor st.actors e.dst ns,
                            hist := (sys.recordIn st.hist e).getD st.hist }
                simp only [St.lift] at this ⊢
                rw [← setActor_lift] at this
                rw [hw.recordIn, this, ofOption_map]
  | timeout i t =>
    simp only [step, lift_actors_getElem?]
    cases hs : st.actors[i]? with
    | none => rfl
    | some s =>
      simp only [Option.map_some, (hw.actor i).timeout]
      cases (sys.actor i).timeout i s t with
      | panic => rfl
      | ok ns cmds =>
        simp only [HRes.map, isNoOpWithTimer_map]
        split
        · rfl
        · have h1 : (st.lift tag).timers = st.timers := rfl
          rw [h1]
          cases st.timers[i]? with
          | none => rfl
          | some ts =>
            simp only
            have := processCommands_lift hw i cmds
              { st with timers := st.timers.set i (srem t ts), actors := setActor st.actors i ns }
            simp only [St.lift] at this ⊢
            rw [← setActor_lift] at this
            rw [this, ofOption_map]
  | selectRandom i k r =>
    simp only [step, lift_actors_getElem?]
    cases hs : st.actors[i]? with
    | none => rfl
    | some s =>
      simp only [Option.map_some, (hw.actor i).random]
      cases (sys.actor i).random i s r with
      | panic => rfl
      | ok ns cmds =>
        simp only [HRes.map]
        have h1 : (st.lift tag).random = st.random := rfl
        rw [h1]
        cases st.random[i]? with
        | none => rfl
        | some m =>
          simp only
          have := processCommands_lift hw i cmds
            { st with random := st.random.set i (aremove k m), actors := setActor st.actors i ns }
          simp only [St.lift] at this ⊢
          rw [← setActor_lift] at this
          rw [this, ofOption_map]

theorem netActions_congr {sys : ActorSys σ η} {sys' : ActorSys σ' η} (h1 : sys'.lossy = sys.lossy)
    (h2 : sys'.n = sys.n) (h3 : sys'.initNet = sys.initNet) (prev : Option (Nat × Nat)) (L : List Env) :
    netActions sys' prev L = netActions sys prev L := by
  induction L generalizing prev with
  | nil => rfl
  | cons e es ih => simp only [netActions, h1, h2, h3, ih]

theorem actions_lift {tag : Nat → σ → σ'} {sys : ActorSys σ η} {sys' : ActorSys σ' η} (hw : SysWrapped tag sys sys')
    (st : St σ η) : actions sys' (st.lift tag) = actions sys st := by
  simp only [actions, St.lift, netActions_congr hw.lossy hw.n hw.initNet, hw.maxCrashes]

theorem specInit_lift {tag : Nat → σ → σ'} {sys : ActorSys σ η} {sys' : ActorSys σ' η} (hw : SysWrapped tag sys sys') :
    specInit sys' = (specInit sys).lift tag := by
  simp only [specInit, St.lift, hw.n, hw.initNet, hw.initHist, (hw.actor _).start, List.map_map]
  have hrec : ∀ h es, recordOuts sys' h es = recordOuts sys h es := by
    intro h es; simp [recordOuts, hw.recordOut]
  rw [hrec]
  congr 1
  apply List.ext_getElem?
  intro j
  by_cases hj : j < sys.n
  · simp [List.getElem?_mapIdx, List.getElem?_range hj]
  · have : (List.range sys.n)[j]? = none := List.getElem?_eq_none (by simpa using Nat.le_of_not_lt hj)
    simp [List.getElem?_mapIdx, this]

theorem lift_injective {tag : Nat → σ → σ'} (hinj : ∀ i s t, tag i s = tag i t → s = t) (a b : St σ η)
    (h : a.lift tag = b.lift tag) : a = b := by
  cases a with
  | mk aa an at_ ar ac ah =>
    cases b with
    | mk ba bn bt br bc bh =>
      simp only [St.lift, St.mk.injEq] at h
      obtain ⟨h1, h2, h3, h4, h5, h6⟩ := h
      subst h2 h3 h4 h5 h6
      congr
      apply List.ext_getElem?
      intro j
      have := congrArg (fun l => l[j]?) h1
      simp only [List.getElem?_mapIdx] at this
      cases ha : aa[j]? with
      | none => cases hb : ba[j]? with
        | none => rfl
        | some y => simp [ha, hb] at this
      | some x => cases hb : ba[j]? with
        | none => simp [ha, hb] at this
        | some y =>
          simp [ha, hb] at this
          rw [hinj j x y this]

end SR.Actor
