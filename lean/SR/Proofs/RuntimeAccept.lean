import SR.Proofs.Runtime
/-!
Soundness of the acceptance predicate (C17 b): whatever the strict machine can do, the acceptance
(non-strict) machine accepts after canonisation — i.e. a log is only ever rejected if the
implementation did something the loop machine cannot do.

Relation between a strict state `s` and the acceptance state `a` reached on the canonical events:
same actor state / queue / calls / datagrams sent, the acceptance clock lags, and every armed
interrupt of `s` is armed in `a` with a deadline that is a lower bound.
-/
namespace SR.Loop
open SR.IdCodec
variable {σ μ τ ρ : Type} [DecidableEq τ] [DecidableEq ρ] [DecidableEq σ]

def IntsLe (ints ints' : List (Key τ ρ × Nat)) : Prop :=
  ∀ k d, (k, d) ∈ ints → ∃ d', (k, d') ∈ ints' ∧ d' ≤ d

structure Rel (s a : St σ μ τ ρ) : Prop where
  alive : a.dead = false
  now : a.now ≤ s.now
  st : a.st = s.st
  queue : a.queue = s.queue
  calls : a.calls = s.calls
  sent : a.sent = s.sent
  ints : IntsLe s.ints a.ints

theorem mem_setInt_of_ne {ints : List (Key τ ρ × Nat)} {k : Key τ ρ} {v : Nat} {e : Key τ ρ × Nat}
    (h : e ∈ ints) (hk : e.1 ≠ k) : e ∈ setInt ints k v := by
  unfold setInt
  split
  · simp only [List.mem_map]; exact ⟨e, h, by simp [hk]⟩
  · simp [h]

theorem mem_setInt_self (ints : List (Key τ ρ × Nat)) (k : Key τ ρ) (v : Nat) :
    (k, v) ∈ setInt ints k v := by
  unfold setInt
  split
  · rename_i hany
    simp only [List.any_eq_true, decide_eq_true_eq] at hany
    obtain ⟨x, hx, hk⟩ := hany
    simp only [List.mem_map]; exact ⟨x, hx, by simp [hk]⟩
  · simp

theorem mem_modInt_of_ne {ints : List (Key τ ρ × Nat)} {k : Key τ ρ} {v : Nat} {e : Key τ ρ × Nat}
    (h : e ∈ ints) (hk : e.1 ≠ k) : e ∈ modInt ints k v := by
  unfold modInt
  simp only [List.mem_map]; exact ⟨e, h, by simp [hk]⟩

theorem mem_modInt_self {ints : List (Key τ ρ × Nat)} {k : Key τ ρ} {d : Nat} (v : Nat)
    (h : (k, d) ∈ ints) : (k, v) ∈ modInt ints k v := by
  unfold modInt
  simp only [List.mem_map]; exact ⟨(k, d), h, by simp⟩

/-- `armMin` never loses a key and never raises a bound -/
theorem armMin_le {ints : List (Key τ ρ × Nat)} {k k1 : Key τ ρ} {v d : Nat}
    (h : (k1, d) ∈ ints) : ∃ d', (k1, d') ∈ armMin ints k v ∧ d' ≤ d := by
  unfold armMin
  split
  · by_cases hk : k1 = k
    · subst hk
      exact ⟨min d v, by simp only [List.mem_map]; exact ⟨(k1, d), h, by simp⟩, Nat.min_le_left _ _⟩
    · exact ⟨d, by simp only [List.mem_map]; exact ⟨(k1, d), h, by simp [hk]⟩, Nat.le_refl _⟩
  · exact ⟨d, by simp [h], Nat.le_refl _⟩

theorem armMin_self (ints : List (Key τ ρ × Nat)) (k : Key τ ρ) (v : Nat) :
    ∃ d', (k, d') ∈ armMin ints k v ∧ d' ≤ v := by
  unfold armMin
  split
  · rename_i hany
    simp only [List.any_eq_true, decide_eq_true_eq] at hany
    obtain ⟨x, hx, hk⟩ := hany
    exact ⟨min x.2 v, by simp only [List.mem_map]; exact ⟨x, hx, by simp [hk]⟩, Nat.min_le_right _ _⟩
  · exact ⟨v, by simp, Nat.le_refl _⟩

theorem foldl_armMin_le {vals : List ρ} {ints : List (Key τ ρ × Nat)} {t : Nat} {k1 : Key τ ρ} {d : Nat}
    (h : (k1, d) ∈ ints) :
    ∃ d', (k1, d') ∈ vals.foldl (fun acc v => armMin acc (.random v) t) ints ∧ d' ≤ d := by
  induction vals generalizing ints d with
  | nil => exact ⟨d, h, Nat.le_refl _⟩
  | cons v r ih =>
    simp only [List.foldl]
    obtain ⟨d1, h1, hle1⟩ := armMin_le (k := .random v) (v := t) h
    obtain ⟨d2, h2, hle2⟩ := ih h1
    exact ⟨d2, h2, Nat.le_trans hle2 hle1⟩

theorem foldl_armMin_mem {vals : List ρ} {ints : List (Key τ ρ × Nat)} {t : Nat} {v : ρ}
    (hv : v ∈ vals) :
    ∃ d', (Key.random v, d') ∈ vals.foldl (fun acc v => armMin acc (.random v) t) ints ∧ d' ≤ t := by
  induction vals generalizing ints with
  | nil => cases hv
  | cons x r ih =>
    simp only [List.foldl]
    rcases List.mem_cons.1 hv with rfl | hr
    · obtain ⟨d1, h1, hle1⟩ := armMin_self ints (.random v) t
      obtain ⟨d2, h2, hle2⟩ := foldl_armMin_le (vals := r) (t := t) h1
      exact ⟨d2, h2, Nat.le_trans hle2 hle1⟩
    · exact ih hr

/-- executing a command: the acceptance machine at the handler's time `th ≤ t` with `pick = 0` -/
theorem rel_exec {C : Cfg μ} {s a : St σ μ τ ρ} (c : Cmd μ τ ρ) {t th pick : Nat}
    (hC : C.strict = true) (hr : Rel s a) (hth : th ≤ t) :
    Rel (execCmd C s c t pick) (execCmd (relax C) a c th 0) := by
  obtain ⟨f1, f2, _, f4, f5, f6⟩ := execCmd_frame C s c t pick
  obtain ⟨g1, g2, _, g4, g5, g6⟩ := execCmd_frame (relax C) a c th 0
  refine ⟨by rw [g6]; exact hr.alive, by rw [g5, f5]; exact hr.now, by rw [g2, f2]; exact hr.st,
    by rw [g4, f4]; exact hr.queue, by rw [g1, f1]; exact hr.calls, ?_, ?_⟩
  · rw [execCmd_sent, execCmd_sent, hr.sent]
    cases c <;> simp [sendOf, relax]
  · intro k d hm
    cases c with
    | send dst m =>
      have e1 : (execCmd C s (.send dst m) t pick).ints = s.ints := by
        simp only [execCmd]; cases C.ser m <;> rfl
      have e2 : (execCmd (relax C) a (.send dst m) th 0).ints = a.ints := by
        simp only [execCmd]; cases (relax C).ser m <;> rfl
      rw [e1] at hm; rw [e2]; exact hr.ints k d hm
    | set x lo hi =>
      simp only [execCmd] at hm ⊢
      rcases mem_setInt hm with ⟨hne, hin⟩ | heq
      · obtain ⟨d', h', hle⟩ := hr.ints k d hin
        exact ⟨d', mem_setInt_of_ne h' hne, hle⟩
      · injection heq with h1 h2
        subst h1
        refine ⟨_, mem_setInt_self _ _ _, ?_⟩
        subst h2
        split <;> simp <;> omega
    | cancel x =>
      simp only [execCmd] at hm ⊢
      rcases mem_modInt hm with ⟨hne, hin⟩ | ⟨heq, d0, hin⟩
      · obtain ⟨d', h', hle⟩ := hr.ints k d hin
        exact ⟨d', mem_modInt_of_ne h' hne, hle⟩
      · injection heq with h1 h2
        subst h1
        obtain ⟨d0', h0', _⟩ := hr.ints _ d0 hin
        refine ⟨_, mem_modInt_self _ h0', ?_⟩
        subst h2
        simp only [relax]; omega
    | choose key vals =>
      cases vals with
      | nil => simp only [execCmd] at hm ⊢; exact hr.ints k d hm
      | cons v0 rest =>
        simp only [execCmd, hC, if_true, relax] at hm ⊢
        simp only [Bool.false_eq_true, if_false]
        rcases mem_setInt hm with ⟨hne, hin⟩ | heq
        · obtain ⟨d', h', hle⟩ := hr.ints k d hin
          obtain ⟨d2, h2, hle2⟩ := foldl_armMin_le (vals := v0 :: rest) (t := th) h'
          exact ⟨d2, h2, Nat.le_trans hle2 hle⟩
        · injection heq with h1 h2
          subst h1
          have hv : (v0 :: rest).getD (pick % (v0 :: rest).length) v0 ∈ v0 :: rest := by
            have hlt : pick % (v0 :: rest).length < (v0 :: rest).length := Nat.mod_lt _ (by simp)
            simp only [List.getD, List.getElem?_eq_getElem hlt, Option.getD_some]
            exact List.getElem_mem _
          obtain ⟨d', h', hle⟩ := foldl_armMin_mem (ints := a.ints) (t := th) hv
          exact ⟨d', h', by subst h2; omega⟩

theorem rel_init : Rel (init : St σ μ τ ρ) (init : St σ μ τ ρ) :=
  ⟨rfl, Nat.le_refl _, rfl, rfl, rfl, rfl, fun _ _ h => by cases h⟩

/-- main refinement lemma: `th` is the time of the last handler event -/
theorem accept_sound_aux {C : Cfg μ} (hC : C.strict = true) (es : List (Ev σ μ τ ρ))
    {s a s' : St σ μ τ ρ} {th : Nat} (hr : Rel s a)
    (hth : s.queue ≠ [] → a.now ≤ th ∧ th ≤ s.now)
    (h : run C s es = some s') :
    ∃ a', run (relax C) a (canonAux th es) = some a' ∧ Rel s' a' := by
  induction es generalizing s a th with
  | nil => simp only [run] at h; injection h with h; subst h; exact ⟨a, rfl, hr⟩
  | cons e r ih =>
    simp only [run] at h
    split at h
    · cases h
    · rename_i s1 hs1
      cases e with
      | start t out cmds =>
        obtain ⟨_, hst, hq, ht, rfl⟩ := step_start hs1
        have ha : step (relax C) a (.start t out cmds) = some { a with now := t, st := some out, queue := cmds, calls := a.calls ++ [.start t out cmds] } := by
          simp [step, hr.alive, hr.st, hst, hr.queue, hq, Nat.le_trans hr.now ht]
        simp only [canonAux, run, ha]
        refine ih (a := { a with now := t, st := some out, queue := cmds, calls := a.calls ++ [.start t out cmds] }) ?_ ?_ h
        · exact ⟨hr.alive, Nat.le_refl _, rfl, rfl, by simp [hr.calls], hr.sent, hr.ints⟩
        · intro _; exact ⟨Nat.le_refl _, Nat.le_refl _⟩
      | exec t pick =>
        obtain ⟨c, q, hq, _, ht, rfl⟩ := step_exec hs1
        obtain ⟨h1, h2⟩ := hth (by rw [hq]; simp)
        have ha : step (relax C) a (.exec th 0) = some (execCmd (relax C) { a with now := th, queue := q } c th 0) := by
          simp [step, hr.queue, hq, hr.alive, h1]
        simp only [canonAux, run, ha]
        have hr' : Rel { s with now := t, queue := q } { a with now := th, queue := q } :=
          ⟨hr.alive, Nat.le_trans h2 ht, hr.st, rfl, hr.calls, hr.sent, hr.ints⟩
        refine ih (rel_exec c hC hr' (Nat.le_trans h2 ht)) ?_ h
        intro _
        obtain ⟨_, _, _, _, f5, _⟩ := execCmd_frame C { s with now := t, queue := q } c t pick
        obtain ⟨_, _, _, _, g5, _⟩ := execCmd_frame (relax C) { a with now := th, queue := q } c th 0
        rw [f5, g5]; exact ⟨Nat.le_refl _, Nat.le_trans h2 ht⟩
      | msg t x bytes stIn out cmds =>
        obtain ⟨m, hm, _, hst, hq, ht, _, rfl⟩ := step_msg hs1
        have ha : step (relax C) a (.msg t x bytes stIn out cmds) = some { a with now := t, st := some out, queue := cmds, calls := a.calls ++ [.msg t stIn (idOf x) m out cmds], recvd := a.recvd ++ [(.v4 x, bytes)] } := by
          simp [step, relax, hm, hr.alive, hr.st, hst, hr.queue, hq, Nat.le_trans hr.now ht, recvBranch]
        simp only [canonAux, run, ha]
        refine ih (a := { a with now := t, st := some out, queue := cmds, calls := a.calls ++ [.msg t stIn (idOf x) m out cmds], recvd := a.recvd ++ [(.v4 x, bytes)] }) ?_ ?_ h
        · exact ⟨hr.alive, Nat.le_refl _, rfl, rfl, by simp [hr.calls], hr.sent, hr.ints⟩
        · intro _; exact ⟨Nat.le_refl _, Nat.le_refl _⟩
      | drop t src bytes =>
        obtain ⟨_, _, hq, ht, _, rfl⟩ := step_drop hs1
        simp only [canonAux]
        refine ih (a := a) ?_ ?_ h
        · exact ⟨hr.alive, Nat.le_trans hr.now ht, hr.st, hr.queue, hr.calls, hr.sent, hr.ints⟩
        · intro hne; exact absurd hq hne
      | idle t =>
        obtain ⟨_, _, hq, ht, rfl⟩ := step_idle hs1
        simp only [canonAux]
        refine ih (a := a) ?_ ?_ h
        · exact ⟨hr.alive, Nat.le_trans hr.now ht, hr.st, hr.queue, hr.calls, hr.sent, hr.ints⟩
        · intro hne; exact absurd hq hne
      | zeroWait t =>
        obtain ⟨_, _, hq, ht, rfl⟩ := step_zeroWait hs1
        simp only [canonAux]
        refine ih (a := a) ?_ ?_ h
        · exact ⟨hr.alive, Nat.le_trans hr.now ht, hr.st, hr.queue, hr.calls, hr.sent, hr.ints⟩
        · intro hne; exact absurd hq hne
      | fire t k stIn out cmds =>
        obtain ⟨_, hst, hq, ht, hf, rfl⟩ := step_fire hs1
        have hfa : fireable (relax C) a k t = true := by
          simp only [fireable, List.any_eq_true, Bool.and_eq_true, decide_eq_true_eq] at hf ⊢
          obtain ⟨⟨k0, d⟩, hin, ⟨hk0, hd⟩, _⟩ := hf
          simp only at hk0 hd
          subst hk0
          obtain ⟨d', h', hle⟩ := hr.ints _ d hin
          exact ⟨(k0, d'), h', ⟨rfl, by simp only; omega⟩, by simp [relax]⟩
        have ha : step (relax C) a (.fire t k stIn out cmds) = some { a with now := t, st := some out, queue := cmds, ints := eraseInt a.ints k, calls := a.calls ++ [fireCall t k stIn out cmds], hist := a.hist ++ fireHist t k } := by
          simp [step, hr.alive, hr.st, hst, hr.queue, hq, Nat.le_trans hr.now ht, hfa]
        simp only [canonAux, run, ha]
        refine ih (a := { a with now := t, st := some out, queue := cmds, ints := eraseInt a.ints k, calls := a.calls ++ [fireCall t k stIn out cmds], hist := a.hist ++ fireHist t k }) ?_ ?_ h
        · refine ⟨hr.alive, Nat.le_refl _, rfl, rfl, by simp [hr.calls], hr.sent, ?_⟩
          intro k1 d1 hm
          obtain ⟨hin, hne⟩ := mem_eraseInt.1 hm
          obtain ⟨d', h', hle⟩ := hr.ints k1 d1 hin
          exact ⟨d', mem_eraseInt.2 ⟨h', hne⟩, hle⟩
        · intro _; exact ⟨Nat.le_refl _, Nat.le_refl _⟩

/-- for a run that has executed all its commands, the canonical event list is exactly the log
(handler events) expanded with one `exec` per logged command -/
theorem canon_eq_expand {C : Cfg μ} (es : List (Ev σ μ τ ρ)) {s s' : St σ μ τ ρ} (th : Nat)
    (h : run C s es = some s') (hq : s'.queue = []) :
    canonAux th es = s.queue.map (fun _ => Ev.exec th 0) ++ expand (es.filter isHandler) := by
  induction es generalizing s th with
  | nil => simp only [run] at h; injection h with h; subst h; simp [hq, canonAux, expand]
  | cons e r ih =>
    simp only [run] at h
    split at h
    · cases h
    · rename_i s1 hs1
      cases e with
      | start t out cmds =>
        obtain ⟨_, _, hq0, _, rfl⟩ := step_start hs1
        simp [canonAux, ih t h, hq0, List.filter_cons, isHandler, expand, evCmds, evTime]
      | exec t pick =>
        obtain ⟨c, q, hq0, _, _, rfl⟩ := step_exec hs1
        obtain ⟨_, _, _, f4, _, _⟩ := execCmd_frame C { s with now := t, queue := q } c t pick
        simp [canonAux, ih th h, hq0, isHandler, f4]
      | msg t x bytes stIn out cmds =>
        obtain ⟨m, _, _, _, hq0, _, _, rfl⟩ := step_msg hs1
        simp [canonAux, ih t h, hq0, List.filter_cons, isHandler, expand, evCmds, evTime]
      | drop t src bytes =>
        obtain ⟨_, _, hq0, _, _, rfl⟩ := step_drop hs1
        simp [canonAux, ih th h, hq0, isHandler]
      | idle t =>
        obtain ⟨_, _, hq0, _, rfl⟩ := step_idle hs1
        simp [canonAux, ih th h, hq0, isHandler]
      | zeroWait t =>
        obtain ⟨_, _, hq0, _, rfl⟩ := step_zeroWait hs1
        simp [canonAux, ih th h, hq0, isHandler]
      | fire t k stIn out cmds =>
        obtain ⟨_, _, hq0, _, _, rfl⟩ := step_fire hs1
        simp [canonAux, ih t h, hq0, List.filter_cons, isHandler, expand, evCmds, evTime]

/-- ACCEPTANCE IS SOUND: the log (handler events) of any complete run of the strict machine is
accepted, and the acceptance machine reproduces its calls and datagrams. -/
theorem accept_sound {C : Cfg μ} (hC : C.strict = true) {es : List (Ev σ μ τ ρ)} {s : St σ μ τ ρ}
    (h : run C init es = some s) (hq : s.queue = []) :
    ∃ a, run (relax C) init (expand (es.filter isHandler)) = some a ∧ a.calls = s.calls ∧ a.sent = s.sent := by
  obtain ⟨a, ha, hr⟩ := accept_sound_aux (th := 0) hC es rel_init (fun hne => absurd rfl hne) h
  have := canon_eq_expand (C := C) es 0 h hq
  simp only [init, List.map_nil, List.nil_append] at this
  rw [this] at ha
  exact ⟨a, ha, hr.calls, hr.sent⟩

end SR.Loop
